package c17

// copy.go: engine 3, the throttle as /repo's own callers use it. Concurrent
// RegClient.BlobCopy calls between model registries (and an OCI layout) whose
// hosts are configured with small reqConcurrent values, mirrors and hosts
// without a limit: blob.go takes the throttles of source (incl. mirrors) and
// target with AcquireMulti, reghttp acquires per request with the context
// AcquireMulti returned, ocidir acquires around BlobPut, response bodies give
// their slot back on Close. Free-running goroutines, no hook.
//
// Oracles (all black box, through the public API):
//   - every copy returns (a hang is a violation only when a goroutine dump shows
//     every unfinished copy parked in the select of pqueue.Acquire: nobody is left
//     to release; any other non-termination is inconclusive);
//   - no copy fails with one of pqueue's own errors (a blob copy never leaves
//     its AcquireMulti transaction by construction of blob.go/reg.Throttle);
//   - afterwards every host's throttle has all its slots: `limit` blob readers
//     can be held open at the same time on each host (a leaked slot blocks one).

import (
	"bytes"
	"context"
	"fmt"
	"io"
	"net/http"
	"os"
	"runtime"
	"strings"
	"sync"
	"sync/atomic"
	"time"

	"github.com/opencontainers/go-digest"

	"github.com/regclient/regclient"
	"github.com/regclient/regclient/config"
	"github.com/regclient/regclient/internal/pqueue"
	"github.com/regclient/regclient/scheme/reg"
	"github.com/regclient/regclient/types/blob"
	"github.com/regclient/regclient/types/descriptor"
	"github.com/regclient/regclient/types/manifest"
	"github.com/regclient/regclient/types/ref"
	"github.com/regclient/regclient/zz_verif/evid"
	"github.com/regclient/regclient/zz_verif/rcutil"
	rm "github.com/regclient/regclient/zz_verif/regmodel"
)

// CopyHost configures one registry host.
type CopyHost struct {
	Conc    int   `json:"conc"`              // config.Host.ReqConcurrent: <0 = no throttle (nil queue), 0 = default (3), 1..3
	Mirrors []int `json:"mirrors,omitempty"` // indexes of other hosts listed as mirrors
}

// CopyJob is one client call. Endpoints: 0..len(Hosts)-1 = registry host, len(Hosts) = the OCI layout.
//
//	Op "" / "copy"   RegClient.BlobCopy Src -> Tgt (AcquireMulti transaction, requests nested in it)
//
// every other op is one call against host Src that goes through reghttp's per-request throttle:
//
//	put-seek, put-noseek, put-badseek   BlobPut with a known descriptor from a bytes.Reader / a reader without Seek / a reader whose Seek fails
//	put-stream                          BlobPut without descriptor from a reader without Seek (chunked upload)
//	get-eof, get-early, get-handoff     BlobGet: read to the end and close / close after a few bytes / hand the reader to another goroutine that closes it
//	head, mget, mhead, mput, tags, referrers   BlobHead, ManifestGet, ManifestHead, ManifestPut, TagList, ReferrerList
type CopyJob struct {
	Op     string `json:"op,omitempty"`
	Src    int    `json:"src"`
	Tgt    int    `json:"tgt"`
	Blob   int    `json:"blob"`
	Cancel int    `json:"cancel,omitempty"` // 0 = live context, 1 = cancelled before the call, k>1 = cancelled when the job's (k-1)th request arrives
}

// CopyFault is one entry of the model's fault plan: the Nth.. request of class Class ("" = any) to host Host fails.
type CopyFault struct {
	Host   int    `json:"host"`
	Class  string `json:"class,omitempty"`
	Nth    int    `json:"nth"`
	Times  int    `json:"times,omitempty"`
	Kind   string `json:"kind"` // status | reset-before | reset-after | truncate | truncate-clean
	Status int    `json:"status,omitempty"`
	At     int    `json:"at,omitempty"`
}

// CopyCase is the input of engine 3 (Case.Engine == "copy").
type CopyCase struct {
	Hosts  []CopyHost  `json:"hosts"`
	Jobs   []CopyJob   `json:"jobs"`
	Faults []CopyFault `json:"faults,omitempty"`
}

func (c *CopyCase) normalise() {
	if len(c.Hosts) < 1 {
		c.Hosts = []CopyHost{{Conc: 1}}
	}
	if len(c.Hosts) > 3 {
		c.Hosts = c.Hosts[:3]
	}
	if len(c.Jobs) > 10 {
		c.Jobs = c.Jobs[:10]
	}
	if len(c.Faults) > 8 {
		c.Faults = c.Faults[:8]
	}
}

func (h CopyHost) limit() int {
	switch {
	case h.Conc < 0:
		return 0 // unlimited
	case h.Conc == 0:
		return 3
	}
	return h.Conc
}

var copyBlobs = func() [][]byte {
	var out [][]byte
	for i, n := range []int{7, 3000, 70000} {
		b := make([]byte, n)
		for j := range b {
			b[j] = byte(j*7 + i*13 + 1)
		}
		out = append(out, b)
	}
	return out
}()

// onlyReader hides Seek (a pipe, stdin, a streamed layer).
type onlyReader struct{ r io.Reader }

func (o onlyReader) Read(p []byte) (int, error) { return o.r.Read(p) }

// badSeeker is a reader whose Seek fails.
type badSeeker struct{ r io.Reader }

func (o badSeeker) Read(p []byte) (int, error) { return o.r.Read(p) }
func (o badSeeker) Seek(int64, int) (int64, error) {
	return 0, fmt.Errorf("seek not possible on this source")
}

var copyManifest = func() []byte {
	c, l := copyBlobs[0], copyBlobs[1]
	return []byte(fmt.Sprintf(`{"schemaVersion":2,"mediaType":"application/vnd.oci.image.manifest.v1+json","config":{"mediaType":"application/vnd.oci.image.config.v1+json","digest":"%s","size":%d},"layers":[{"mediaType":"application/vnd.oci.image.layer.v1.tar+gzip","digest":"%s","size":%d}]}`,
		rm.Digest("sha256", c), len(c), rm.Digest("sha256", l), len(l)))
}()

const copyManifestMT = "application/vnd.oci.image.manifest.v1+json"

type copyResult struct {
	v            *evid.Violation
	inconclusive string
	events       map[string]int
}

type copyJobState struct {
	id     int
	fin    atomic.Bool
	err    error
	ctx    context.Context
	cancel context.CancelFunc
	reqs   atomic.Int32
}

type jobKey struct{}

// goroutinesParked: how many goroutines run marker frame `marker`, and how many of them are parked in the select
// of pqueue.Acquire.
func goroutinesParked(marker string) (n, parked int, dump string) {
	buf := make([]byte, 4<<20)
	buf = buf[:runtime.Stack(buf, true)]
	dump = string(buf)
	for _, g := range strings.Split(dump, "\n\n") {
		if !strings.Contains(g, marker) {
			continue
		}
		n++
		nl := strings.IndexByte(g, '\n')
		if nl < 0 {
			continue
		}
		hdr := g[:nl]
		if i := strings.IndexByte(hdr, '['); i >= 0 && strings.HasPrefix(hdr[i+1:], "select") &&
			strings.Contains(g, "internal/pqueue.") && strings.Contains(g, ".Acquire(") {
			parked++
		}
	}
	return
}

type countingTransport struct {
	inner http.RoundTripper
	onReq func(ctx context.Context)
}

func (c *countingTransport) RoundTrip(req *http.Request) (*http.Response, error) {
	c.onReq(req.Context())
	return c.inner.RoundTrip(req)
}

func hostName(i int) string { return fmt.Sprintf("h%d.example.test", i) }

func runCopy(cc CopyCase) copyResult {
	pqueue.VerifHook = nil
	cc.normalise()
	res := copyResult{events: map[string]int{}}
	var evmu sync.Mutex
	event := func(l string) { evmu.Lock(); res.events[l]++; evmu.Unlock() }

	m := rm.New()
	nh := len(cc.Hosts)
	var hosts []config.Host
	for i, hc := range cc.Hosts {
		h := m.AddHost(hostName(i))
		// "src" exists everywhere (a mirror can serve it); "drain<i>" only on host i: a read of it ends at, and keeps
		// the slot of, host i itself
		for _, rn := range []string{"src", fmt.Sprintf("drain%d", i)} {
			rp := h.Repo(rn)
			for _, b := range copyBlobs {
				rp.Blobs[rm.Digest("sha256", b)] = b
			}
			md := rm.Digest("sha256", copyManifest)
			rp.Manifests[md] = &rm.Manifest{MediaType: copyManifestMT, Body: copyManifest}
			rp.Tags["v1"] = md
		}
		ch := config.HostNewName(hostName(i))
		ch.ReqConcurrent = int64(hc.Conc)
		for _, mi := range hc.Mirrors {
			mi %= nh
			if mi < 0 {
				mi += nh
			}
			if mi != i {
				ch.Mirrors = append(ch.Mirrors, hostName(mi))
				event("copy:host-with-mirror")
			}
		}
		switch {
		case hc.Conc < 0:
			event("copy:host-without-throttle")
		case hc.Conc == 1:
			event("copy:host-limit-1")
		}
		hosts = append(hosts, *ch)
	}
	for _, fc := range cc.Faults {
		f := rm.NewFault(fc.Kind)
		f.Host = hostName(((fc.Host % nh) + nh) % nh)
		f.Class, f.Nth, f.Times, f.Status, f.At = fc.Class, fc.Nth, fc.Times, fc.Status, fc.At
		m.AddFault(f)
		event("copy:fault-" + fc.Kind)
	}
	jobs := make([]*copyJobState, len(cc.Jobs))
	cancelAt := make([]int32, len(cc.Jobs))
	for i, jc := range cc.Jobs {
		js := &copyJobState{id: i}
		js.ctx, js.cancel = context.WithCancel(context.WithValue(context.Background(), jobKey{}, js))
		jobs[i] = js
		cancelAt[i] = int32(jc.Cancel - 1)
		if jc.Cancel == 1 {
			js.cancel()
			event("copy:job-cancelled-before-call")
		} else if jc.Cancel > 1 {
			event("copy:job-cancelled-at-a-request")
		}
	}
	// cancel at the k-th request of a job: the request's context carries the job
	tr := &countingTransport{inner: m, onReq: func(ctx context.Context) {
		if js, ok := ctx.Value(jobKey{}).(*copyJobState); ok {
			if n := js.reqs.Add(1); cancelAt[js.id] > 0 && n == cancelAt[js.id] {
				js.cancel()
			}
		}
	}}
	rc := rcutil.New(m, rcutil.Conf{Hosts: hosts, RetryLimit: 2, RegOpts: []reg.Opts{reg.WithHTTPClient(&http.Client{Transport: tr})}})
	dir, err := os.MkdirTemp("", "c17copy")
	if err != nil {
		res.inconclusive = "tempdir: " + err.Error()
		return res
	}
	defer os.RemoveAll(dir)
	// the layout is a source as well: fill it first (sequentially, live context)
	layoutRef, _ := ref.New("ocidir://" + dir + "/layout")
	for _, b := range copyBlobs {
		d := descriptor.Descriptor{Digest: digest.Digest(rm.Digest("sha256", b)), Size: int64(len(b))}
		if _, err := rc.BlobPut(context.Background(), layoutRef, d, strings.NewReader(string(b))); err != nil {
			res.inconclusive = "layout setup: " + err.Error()
			return res
		}
	}

	endpoint := func(e int, repo string) (ref.Ref, bool) {
		e %= nh + 1
		if e < 0 {
			e += nh + 1
		}
		if e == nh {
			return layoutRef, true
		}
		r, _ := ref.New(hostName(e) + "/" + repo)
		return r, false
	}

	var wg, closers sync.WaitGroup
	var closersN atomic.Int32
	start := make(chan struct{})
	for i, jc := range cc.Jobs {
		i, jc := i, jc
		js := jobs[i]
		src, srcLayout := endpoint(jc.Src, "src")
		tgt, tgtLayout := endpoint(jc.Tgt, fmt.Sprintf("tgt%d", i))
		if tgtLayout {
			tgt, _ = ref.New(fmt.Sprintf("ocidir://%s/out%d", dir, i%2)) // two jobs may share a target layout
		}
		switch {
		case jc.Op != "" && jc.Op != "copy":
			event("copy:op-" + jc.Op)
		case srcLayout && tgtLayout:
			event("copy:layout-to-layout")
		case srcLayout:
			event("copy:layout-to-registry")
		case tgtLayout:
			event("copy:registry-to-layout")
		case src.Registry == tgt.Registry:
			event("copy:same-registry")
		default:
			event("copy:registry-to-registry")
		}
		b := copyBlobs[((jc.Blob%len(copyBlobs))+len(copyBlobs))%len(copyBlobs)]
		d := descriptor.Descriptor{Digest: digest.Digest(rm.Digest("sha256", b)), Size: int64(len(b))}
		op := copyOp(rc, jc, i, src, tgt, srcLayout, d, b, &closers, &closersN, event)
		wg.Add(1)
		go func() {
			defer wg.Done()
			<-start
			copyJobRun(js, op)
		}()
	}
	done := make(chan struct{})
	go func() { wg.Wait(); closers.Wait(); close(done) }()
	close(start)

	if v, inc := awaitOrProve(done, "c17.copyJobRun", func() int {
		if closersN.Load() > 0 {
			return -1 // somebody is still about to close a reader: not final
		}
		n := 0
		for _, js := range jobs {
			if !js.fin.Load() {
				n++
			}
		}
		return n
	}, "copy-deadlock-all-parked-in-acquire", "concurrent client calls"); v != nil || inc != "" {
		res.v, res.inconclusive = v, inc
		if v != nil {
			v.Msg += "\n" + describeCopy(cc, jobs)
		}
		for _, js := range jobs {
			js.cancel()
		}
		// the cancelled callers leave pqueue; do not leave parked goroutines behind for the next execution
		select {
		case <-done:
		case <-time.After(30 * time.Second):
			if res.inconclusive == "" {
				res.inconclusive = "copy teardown did not finish"
			}
		}
		return res
	}
	for _, js := range jobs {
		js.cancel()
		switch {
		case js.err == nil:
			event("copy:job-ok")
		case strings.Contains(js.err.Error(), "cannot acquire new locks during a transaction") || strings.Contains(js.err.Error(), "context already used by another AcquireMulti"):
			res.v = evid.V("copy-fails-with-throttle-error", "job %d failed with an error of the throttle itself: %v\n%s", js.id, js.err, describeCopy(cc, jobs))
			return res
		case js.ctx.Err() != nil && cc.Jobs[js.id].Cancel > 0:
			event("copy:job-cancelled-error")
		default:
			event("copy:job-other-error") // not judged here (not a throttle matter)
		}
	}

	// ---- drain through the API: `limit` readers held open at once on every throttled host (no faults any more)
	m.Lock()
	m.Faults = nil
	m.Unlock()
	for i, hc := range cc.Hosts {
		lim := hc.limit()
		if lim == 0 {
			continue
		}
		r, _ := ref.New(fmt.Sprintf("%s/drain%d", hostName(i), i))
		b := copyBlobs[0]
		d := descriptor.Descriptor{Digest: digest.Digest(rm.Digest("sha256", b)), Size: int64(len(b))}
		var readers []blob.Reader
		var rmu sync.Mutex
		var nfin atomic.Int32
		var gerr error
		ddone := make(chan struct{})
		dctx, dcancel := context.WithCancel(context.Background())
		go func() {
			defer close(ddone)
			copyDrainRun(dctx, rc, r, d, lim, &readers, &rmu, &nfin, &gerr)
		}()
		v, inc := awaitOrProve(ddone, "c17.copyDrainRun", func() int { return 1 }, "copy-leaks-throttle-slot",
			fmt.Sprintf("after all copies returned, opening %d blob readers on %s (reqConcurrent %d); %d were opened", lim, hostName(i), hc.Conc, nfin.Load()))
		dcancel()
		select {
		case <-ddone:
		case <-time.After(30 * time.Second):
			if inc == "" {
				inc = "drain teardown did not finish"
			}
		}
		rmu.Lock()
		for _, br := range readers {
			_ = br.Close()
		}
		rmu.Unlock()
		if v != nil || inc != "" {
			res.v, res.inconclusive = v, inc
			if v != nil {
				v.Msg += "\n" + describeCopy(cc, jobs)
			}
			return res
		}
		if gerr != nil {
			event("copy:drain-read-error")
		}
	}
	return res
}

func copyJobRun(js *copyJobState, op func(ctx context.Context) error) {
	js.err = op(js.ctx)
	js.fin.Store(true)
}

// copyOp builds the client call of a job.
func copyOp(rc *regclient.RegClient, jc CopyJob, i int, src, tgt ref.Ref, srcLayout bool, d descriptor.Descriptor, b []byte,
	closers *sync.WaitGroup, closersN *atomic.Int32, event func(string)) func(ctx context.Context) error {
	if jc.Op == "close-layout" {
		if tgt.Scheme != "ocidir" {
			return func(ctx context.Context) error { return nil }
		}
		return func(ctx context.Context) error { return rc.Close(ctx, tgt) }
	}
	if jc.Op == "" || jc.Op == "copy" || srcLayout {
		return func(ctx context.Context) error { return rc.BlobCopy(ctx, src, tgt, d) }
	}
	host := src.Registry
	put, _ := ref.New(fmt.Sprintf("%s/put%d", host, i))
	tagged, _ := ref.New(host + "/src:v1")
	byDigest, _ := ref.New(host + "/src@" + rm.Digest("sha256", copyManifest))
	switch jc.Op {
	case "put-seek":
		return func(ctx context.Context) error { _, err := rc.BlobPut(ctx, put, d, bytes.NewReader(b)); return err }
	case "put-noseek":
		return func(ctx context.Context) error {
			_, err := rc.BlobPut(ctx, put, d, onlyReader{bytes.NewReader(b)})
			return err
		}
	case "put-badseek":
		return func(ctx context.Context) error {
			_, err := rc.BlobPut(ctx, put, d, badSeeker{bytes.NewReader(b)})
			return err
		}
	case "put-stream":
		return func(ctx context.Context) error {
			_, err := rc.BlobPut(ctx, put, descriptor.Descriptor{}, onlyReader{bytes.NewReader(b)})
			return err
		}
	case "get-eof", "get-early", "get-handoff":
		return func(ctx context.Context) error {
			br, err := rc.BlobGet(ctx, src, d)
			if err != nil {
				return err
			}
			switch jc.Op {
			case "get-eof":
				_, err = io.Copy(io.Discard, br)
			case "get-early":
				_, _ = br.Read(make([]byte, 3))
			default:
				// whoever ends up with the reader closes it: another goroutine, a little later
				closers.Add(1)
				closersN.Add(1)
				go func() {
					defer closers.Done()
					defer closersN.Add(-1)
					for k := 0; k < 20; k++ {
						runtime.Gosched()
					}
					_ = br.Close()
				}()
				return nil
			}
			if cerr := br.Close(); err == nil {
				err = cerr
			}
			return err
		}
	case "head":
		return func(ctx context.Context) error {
			br, err := rc.BlobHead(ctx, src, d)
			if err == nil {
				_ = br.Close()
			}
			return err
		}
	case "mget":
		return func(ctx context.Context) error { _, err := rc.ManifestGet(ctx, tagged); return err }
	case "mhead":
		return func(ctx context.Context) error { _, err := rc.ManifestHead(ctx, tagged); return err }
	case "mput":
		return func(ctx context.Context) error {
			mm, err := manifest.New(manifest.WithRaw(copyManifest), manifest.WithDesc(descriptor.Descriptor{MediaType: copyManifestMT}))
			if err != nil {
				return err
			}
			r, _ := ref.New(fmt.Sprintf("%s/src:t%d", host, i))
			return rc.ManifestPut(ctx, r, mm)
		}
	case "close-layout":
		// what every command does when it is done with a layout reference, while copies into that layout are running
		return func(ctx context.Context) error { return rc.Close(ctx, tgt) }
	case "tags":
		return func(ctx context.Context) error { _, err := rc.TagList(ctx, tagged); return err }
	case "referrers":
		return func(ctx context.Context) error { _, err := rc.ReferrerList(ctx, byDigest); return err }
	}
	event("copy:op-unknown")
	return func(ctx context.Context) error { return nil }
}

func copyDrainRun(ctx context.Context, rc *regclient.RegClient, r ref.Ref, d descriptor.Descriptor, lim int, readers *[]blob.Reader, mu *sync.Mutex, nfin *atomic.Int32, gerr *error) {
	for k := 0; k < lim; k++ {
		br, err := rc.BlobGet(ctx, r, d)
		if err != nil {
			if ctx.Err() == nil {
				*gerr = err
			}
			return
		}
		mu.Lock()
		*readers = append(*readers, br)
		mu.Unlock()
		nfin.Add(1)
	}
}

// awaitOrProve waits for done. When it does not come, the run is a violation only if a goroutine dump shows all
// `unfinished()` goroutines running `marker` parked in the select of pqueue.Acquire on three consecutive looks.
func awaitOrProve(done chan struct{}, marker string, unfinished func() int, sig, what string) (*evid.Violation, string) {
	t0 := time.Now()
	wd := time.NewTimer(3 * time.Second)
	defer wd.Stop()
	select {
	case <-done:
		return nil, ""
	case <-wd.C:
	}
	same := 0
	for time.Since(t0) < freeHardCap {
		select {
		case <-done:
			return nil, ""
		case <-time.After(150 * time.Millisecond):
		}
		u := unfinished()
		n, parked, _ := goroutinesParked(marker)
		if u > 0 && n == u && parked == u {
			same++
		} else {
			same = 0
		}
		if same >= 3 {
			_, _, dump := goroutinesParked(marker)
			if len(dump) > 5000 {
				dump = dump[:5000]
			}
			return evid.V(sig, "%s: every unfinished caller (%d) is parked in the select of pqueue.Acquire and nobody is left to release a slot (goroutine dump)\n%s", what, u, dump), ""
		}
	}
	_, _, dump := goroutinesParked(marker)
	if len(dump) > 5000 {
		dump = dump[:5000]
	}
	return nil, fmt.Sprintf("%s did not finish within %v and is not provably stuck inside pqueue\n%s", what, time.Since(t0).Round(time.Second), dump)
}

func describeCopy(cc CopyCase, jobs []*copyJobState) string {
	var sb strings.Builder
	for i, h := range cc.Hosts {
		fmt.Fprintf(&sb, "%s{reqConcurrent=%d mirrors=%v} ", hostName(i), h.Conc, h.Mirrors)
	}
	for i, j := range cc.Jobs {
		fmt.Fprintf(&sb, "\n  job%d %q %d->%d blob%d cancel=%d finished=%v err=%v", i, j.Op, j.Src, j.Tgt, j.Blob, j.Cancel, jobs[i].fin.Load(), jobs[i].err)
	}
	for _, f := range cc.Faults {
		fmt.Fprintf(&sb, "\n  fault %+v", f)
	}
	return sb.String()
}
