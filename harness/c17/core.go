// Package c17 checks internal/pqueue (the request throttle) under owned and
// free-running schedules. See DESIGN.md §2.5 and §3 C17.
//
// core.go: the Case, the worker-program interpreter and the harness-side
// bookkeeping shared by both engines.
package c17

import (
	"context"
	"fmt"
	"runtime/debug"
	"sort"
	"strings"
	"sync"
	"sync/atomic"

	"github.com/regclient/regclient/internal/pqueue"
	"github.com/regclient/regclient/internal/reqmeta"
	"github.com/regclient/regclient/zz_verif/evid"
)

// QueueCfg configures one throttle.
type QueueCfg struct {
	Max  int    `json:"max"`  // 1..3
	Next string `json:"next"` // "" = default (oldest first), "data" = reqmeta.DataNext
}

// Op is one step of a worker program. All fields are reduced modulo the
// applicable range by the interpreter, so every Op is applicable (total).
//
//	acq        blocking Acquire on queue Q (degraded to try when it would break the lock order, see canBlock)
//	try        TryAcquire on queue Q
//	multi      AcquireMulti on the queues Qs (an entry <0 is a nil queue; duplicates allowed)
//	nested     Acquire on a queue of a held AcquireMulti with the context it returned (what reghttp does inside a blob copy)
//	nestedtry  same with TryAcquire
//	rel        release held handle number H
//	relstale   call an already used release function once more (a caller that holds nothing)
//	cancel     cancel the current context of worker W (possibly the caller itself); without P only
//	           when W is inside a blocking pqueue call at that moment
type Op struct {
	K  string `json:"k"`
	Q  int    `json:"q,omitempty"`
	Qs []int  `json:"qs,omitempty"`
	H  int    `json:"h,omitempty"`
	W  int    `json:"w,omitempty"`
	DK int    `json:"dk,omitempty"` // reqmeta.Data.Kind of the entry
	DS int64  `json:"ds,omitempty"` // reqmeta.Data.Size of the entry
	Y  bool   `json:"y,omitempty"`  // free engine: runtime.Gosched before the op
	P  bool   `json:"p,omitempty"`  // cancel: also when the target is not inside a blocking call (its next call then starts with a cancelled context)
}

// Case is one generated input: queues, worker programs and (owned-schedule
// engine) the schedule. Schedule value 0 = keep running the worker that ran
// last if it is enabled (else the lowest enabled one); v>0 = enabled[(v-1) mod
// len(enabled)]. Beyond the end of the list every value is 0.
type Case struct {
	Engine string `json:"engine"` // "sched" | "free"
	// Elem is the element type the queues are instantiated with: "" = reqmeta.Data (internal/reghttp, blob copy),
	// "empty" = struct{} with the default Next, as cmd/regsync (type throttle struct{}) and cmd/regbot configure it.
	Elem     string     `json:"elem,omitempty"`
	Queues   []QueueCfg `json:"queues"`
	Workers  [][]Op     `json:"workers"`
	Schedule []int      `json:"schedule,omitempty"`
	Procs    int        `json:"procs,omitempty"` // free engine: GOMAXPROCS
}

// normalise clamps a (possibly hand-edited) case into the stated domain.
func (c *Case) normalise() {
	if len(c.Queues) == 0 {
		c.Queues = []QueueCfg{{Max: 1}}
	}
	if len(c.Queues) > 3 {
		c.Queues = c.Queues[:3]
	}
	for i := range c.Queues {
		if c.Queues[i].Max < 1 {
			c.Queues[i].Max = 1
		}
		if c.Queues[i].Max > 3 {
			c.Queues[i].Max = 3
		}
	}
	if len(c.Workers) > 5 {
		c.Workers = c.Workers[:5]
	}
	for len(c.Workers) < 1 {
		c.Workers = append(c.Workers, nil)
	}
	if c.Elem != "empty" {
		c.Elem = ""
	} else {
		for i := range c.Queues {
			c.Queues[i].Next = "" // regsync/regbot use the default priority function
		}
	}
	if c.Procs < 1 {
		c.Procs = 4
	}
	if c.Procs > 32 {
		c.Procs = 32
	}
}

type handle struct {
	qs   []int           // distinct queue indexes this handle holds a slot of
	rel  func()          // release function returned by pqueue
	mctx context.Context // context returned by AcquireMulti (nil for plain)
}

const (
	stHarness  = 0 // in harness code (or parked at a harness yield)
	stBlocking = 1 // inside a pqueue call that may block
	stFinished = 2
)

type worker struct {
	id   int
	prog []Op

	mu     sync.Mutex // guards ctx/cancel (cancel may come from another worker)
	ctx    context.Context
	cancel context.CancelFunc

	held  []handle
	stale []func()

	state atomic.Int32
	opIdx atomic.Int32
	curQs []int  // candidate queues of the pqueue call in progress (written before state/park)
	curOp string // kind of the call in progress

	// owned-schedule engine
	resume    chan struct{}
	point     string
	wake      <-chan struct{}
	done      <-chan struct{}
	fin       bool
	bothReady bool
}

type run struct {
	c       Case
	qs      qset
	max     []int
	holders []atomic.Int32
	ws      []*worker
	aborted atomic.Bool

	progress atomic.Int64

	mu     sync.Mutex
	viol   *evid.Violation
	events map[string]int

	// yield is called by the interpreter between operations.
	yield func(w *worker, point string, op *Op)
}

// qset hides the element type of the queues under test from the interpreter.
type qset interface {
	acquire(ctx context.Context, q int, d reqmeta.Data) (func(), error)
	try(ctx context.Context, q int, d reqmeta.Data) (func(), error)
	// multi calls AcquireMulti; a list entry <0 is a nil queue.
	multi(ctx context.Context, d reqmeta.Data, list []int) (context.Context, func(), error)
}

type qsetT[T any] struct {
	qs   []*pqueue.Queue[T]
	conv func(reqmeta.Data) T
}

func (s *qsetT[T]) acquire(ctx context.Context, q int, d reqmeta.Data) (func(), error) {
	return s.qs[q].Acquire(ctx, s.conv(d))
}

func (s *qsetT[T]) try(ctx context.Context, q int, d reqmeta.Data) (func(), error) {
	return s.qs[q].TryAcquire(ctx, s.conv(d))
}

func (s *qsetT[T]) multi(ctx context.Context, d reqmeta.Data, list []int) (context.Context, func(), error) {
	l := make([]*pqueue.Queue[T], len(list))
	for i, q := range list {
		if q >= 0 {
			l[i] = s.qs[q]
		}
	}
	return pqueue.AcquireMulti(ctx, s.conv(d), l...)
}

func newRun(c Case) *run {
	r := &run{c: c, events: map[string]int{}}
	r.max = make([]int, len(c.Queues))
	r.holders = make([]atomic.Int32, len(c.Queues))
	for i, qc := range c.Queues {
		r.max[i] = qc.Max
	}
	if c.Elem == "empty" {
		qs := &qsetT[struct{}]{conv: func(reqmeta.Data) struct{} { return struct{}{} }}
		for _, qc := range c.Queues {
			qs.qs = append(qs.qs, pqueue.New(pqueue.Opts[struct{}]{Max: qc.Max}))
		}
		r.qs = qs
	} else {
		qs := &qsetT[reqmeta.Data]{conv: func(d reqmeta.Data) reqmeta.Data { return d }}
		for _, qc := range c.Queues {
			o := pqueue.Opts[reqmeta.Data]{Max: qc.Max}
			if qc.Next == "data" {
				o.Next = reqmeta.DataNext
			}
			qs.qs = append(qs.qs, pqueue.New(o))
		}
		r.qs = qs
	}
	for i, p := range c.Workers {
		w := &worker{id: i, prog: p, resume: make(chan struct{}), point: "start"}
		w.ctx, w.cancel = context.WithCancel(context.Background())
		r.ws = append(r.ws, w)
	}
	return r
}

func (r *run) event(l string) {
	r.mu.Lock()
	r.events[l]++
	r.mu.Unlock()
}

func (r *run) hasEvent(l string) bool {
	r.mu.Lock()
	defer r.mu.Unlock()
	return r.events[l] > 0
}

// violate records the first violation of the run.
func (r *run) violate(v *evid.Violation) {
	if r.aborted.Load() {
		return // teardown in progress: workers run unscheduled with cancelled contexts, nothing is judged
	}
	r.mu.Lock()
	if r.viol == nil {
		r.viol = v
	}
	r.mu.Unlock()
}

func (r *run) violation() *evid.Violation {
	r.mu.Lock()
	defer r.mu.Unlock()
	return r.viol
}

func (w *worker) curCtx() context.Context {
	w.mu.Lock()
	defer w.mu.Unlock()
	return w.ctx
}

func (w *worker) cancelCur() {
	w.mu.Lock()
	c := w.cancel
	w.mu.Unlock()
	c()
}

// renew gives the worker a fresh context after a call failed with a cancelled one.
func (w *worker) renew(r *run) {
	w.mu.Lock()
	w.ctx, w.cancel = context.WithCancel(context.Background())
	if r.aborted.Load() {
		w.cancel()
	}
	w.mu.Unlock()
}

// canBlock is the well-formedness rule that makes every generated program
// deadlock free by construction (lock hierarchy): a worker may enter a call
// that can block on a queue of `targets` only while every slot it holds
// belongs to a queue with a strictly smaller index than all targets.
func (w *worker) canBlock(targets []int) bool {
	for _, h := range w.held {
		for _, hq := range h.qs {
			for _, t := range targets {
				if hq >= t {
					return false
				}
			}
		}
	}
	return true
}

func (r *run) data(op *Op) reqmeta.Data {
	k := op.DK % 5
	if k < 0 {
		k = -k
	}
	return reqmeta.Data{Kind: reqmeta.Kind(k), Size: op.DS}
}

func (r *run) qIndex(x int) int {
	n := len(r.max)
	x %= n
	if x < 0 {
		x += n
	}
	return x
}

// interp runs a worker program. Every worker finally releases everything it
// still holds, so "all holders have finished" is reached by every program.
func (r *run) interp(w *worker) {
	for i := range w.prog {
		if r.aborted.Load() {
			break
		}
		op := &w.prog[i]
		w.opIdx.Store(int32(i))
		r.yield(w, "op", op)
		if r.aborted.Load() {
			break
		}
		r.exec(w, op)
		r.progress.Add(1)
	}
	for len(w.held) > 0 {
		if !r.aborted.Load() {
			r.yield(w, "epilogue", nil)
		}
		r.release(w, len(w.held)-1)
		r.progress.Add(1)
	}
	w.curQs, w.curOp = nil, "done"
	w.state.Store(stFinished)
}

func (r *run) enter(w *worker, kind string, qs []int) {
	w.curQs, w.curOp = qs, kind
	w.state.Store(stBlocking)
}

func (r *run) leave(w *worker) {
	w.state.Store(stHarness)
}

func (r *run) exec(w *worker, op *Op) {
	switch op.K {
	case "acq":
		q := r.qIndex(op.Q)
		if !w.canBlock([]int{q}) {
			r.event("op:acq-degraded-to-try")
			r.doTry(w, op, q)
			return
		}
		ctx := w.curCtx()
		if ctx.Err() != nil {
			r.event("op:acq-with-cancelled-ctx")
		}
		r.enter(w, "acq", []int{q})
		rel, err := r.qs.acquire(ctx, q, r.data(op))
		r.leave(w)
		r.event("op:acq")
		r.afterAcquire(w, "Acquire", ctx, []int{q}, rel, err, nil)
	case "try":
		r.doTry(w, op, r.qIndex(op.Q))
	case "multi":
		var list []int
		seen := map[int]bool{}
		var distinct []int
		for _, x := range op.Qs {
			if x < 0 {
				list = append(list, -1)
				continue
			}
			q := r.qIndex(x)
			list = append(list, q)
			if !seen[q] {
				seen[q] = true
				distinct = append(distinct, q)
			}
		}
		sort.Ints(distinct)
		if !w.canBlock(distinct) {
			r.event("op:multi-degraded-to-try")
			r.doTry(w, op, distinct[0])
			return
		}
		ctx := w.curCtx()
		r.enter(w, "multi", distinct)
		mctx, rel, err := r.qs.multi(ctx, r.data(op), list)
		r.leave(w)
		r.event("op:multi")
		if len(distinct) > 1 {
			r.event("op:multi-2+queues")
		}
		if err == nil && mctx == nil {
			r.violate(evid.V("multi-nil-context", "w%d AcquireMulti%v returned a nil context without error", w.id, distinct))
			return
		}
		r.afterAcquire(w, "AcquireMulti", ctx, distinct, rel, err, mctx)
	case "nested", "nestedtry":
		var h *handle
		for i := len(w.held) - 1; i >= 0; i-- {
			if w.held[i].mctx != nil && len(w.held[i].qs) > 0 {
				h = &w.held[i]
				break
			}
		}
		if h == nil {
			r.doTry(w, op, r.qIndex(op.Q))
			return
		}
		x := op.Q % len(h.qs)
		if x < 0 {
			x += len(h.qs)
		}
		q := h.qs[x]
		var rel func()
		var err error
		if op.K == "nested" {
			// must return at once: the slot is already owned through the AcquireMulti context
			r.enter(w, "nested", []int{q})
			rel, err = r.qs.acquire(h.mctx, q, r.data(op))
			r.leave(w)
		} else {
			rel, err = r.qs.try(h.mctx, q, r.data(op))
		}
		r.event("op:" + op.K)
		if err != nil {
			if op.K == "nested" && h.mctx.Err() == nil {
				r.violate(evid.V("acquire-error-without-cancel", "w%d Acquire(q%d) inside its own AcquireMulti%v failed although its context is not cancelled: %v", w.id, q, h.qs, err))
			}
			return
		}
		if rel != nil {
			// not counted as a holder: per the AcquireMulti contract this is a no-op handle
			rel()
		} else if op.K == "nested" {
			r.violate(evid.V("acquire-nil-release-fn", "w%d Acquire(q%d) with its AcquireMulti context returned neither a release function nor an error", w.id, q))
		}
	case "rel":
		if len(w.held) == 0 {
			r.event("op:rel-nothing-held")
			return
		}
		i := op.H % len(w.held)
		if i < 0 {
			i += len(w.held)
		}
		r.release(w, i)
	case "relstale":
		if len(w.stale) == 0 {
			return
		}
		i := op.H % len(w.stale)
		if i < 0 {
			i += len(w.stale)
		}
		w.curQs, w.curOp = nil, "relstale"
		w.stale[i]()
		r.event("op:relstale")
	case "cancel":
		n := len(r.ws)
		t := op.W % n
		if t < 0 {
			t += n
		}
		if !op.P && r.ws[t].state.Load() != stBlocking {
			r.event("op:cancel-skipped-target-not-blocking")
			return
		}
		r.ws[t].cancelCur()
		if t == w.id {
			r.event("op:cancel-self")
		} else {
			r.event("op:cancel-other")
		}
	default:
		// unknown op kinds are no-ops (hand-edited replay files)
	}
}

func (r *run) doTry(w *worker, op *Op, q int) {
	ctx := w.curCtx()
	w.curQs, w.curOp = []int{q}, "try"
	rel, err := r.qs.try(ctx, q, r.data(op))
	r.event("op:try")
	if err != nil {
		r.event("op:try-error")
	}
	if rel == nil {
		r.event("op:try-refused")
		return
	}
	r.hold(w, []int{q}, rel, nil)
}

// afterAcquire applies the result oracles of a blocking acquire: an error is
// only allowed for a cancelled context and then nothing is held; success comes
// with a release function.
func (r *run) afterAcquire(w *worker, what string, ctx context.Context, qs []int, rel func(), err error, mctx context.Context) {
	if err != nil {
		if rel != nil {
			r.violate(evid.V("acquire-error-with-release-fn", "w%d %s%v returned error %v together with a release function", w.id, what, qs, err))
		}
		if ctx.Err() == nil {
			r.violate(evid.V("acquire-error-without-cancel", "w%d %s%v failed although its context is not cancelled: %v", w.id, what, qs, err))
		}
		r.event("res:cancelled-acquire-error")
		w.renew(r)
		return
	}
	if rel == nil {
		r.violate(evid.V("acquire-nil-release-fn", "w%d %s%v returned neither a release function nor an error", w.id, what, qs))
		return
	}
	if ctx.Err() != nil {
		// admitted although cancelled (fast path, or the wake-up won the select): legal, the caller holds a slot.
		// A cancelled context is used for one call only.
		r.event("res:acquired-despite-cancelled-ctx")
		w.renew(r)
	}
	r.hold(w, qs, rel, mctx)
}

// hold counts the caller as a holder AFTER the successful return (so the
// harness count never exceeds the true number of callers holding a slot).
func (r *run) hold(w *worker, qs []int, rel func(), mctx context.Context) {
	for _, q := range qs {
		n := int(r.holders[q].Add(1))
		if n > r.max[q] {
			r.violate(evid.V("limit-exceeded", "w%d op#%d (%s) was admitted to q%d as holder number %d, limit is %d", w.id, w.opIdx.Load(), w.curOp, q, n, r.max[q]))
		}
	}
	w.held = append(w.held, handle{qs: qs, rel: rel, mctx: mctx})
}

// release un-counts the holder BEFORE calling the release function.
func (r *run) release(w *worker, i int) {
	h := w.held[i]
	w.held = append(w.held[:i:i], w.held[i+1:]...)
	for _, q := range h.qs {
		r.holders[q].Add(-1)
	}
	w.curQs, w.curOp = h.qs, "rel"
	h.rel()
	w.stale = append(w.stale, h.rel)
	r.event("op:rel")
}

// panicViolation: a panic inside a worker (i.e. inside pqueue) is a violation of its own.
func panicViolation(w *worker, p any) *evid.Violation {
	st := string(debug.Stack())
	if len(st) > 3000 {
		st = st[:3000]
	}
	return evid.V("panic-in-pqueue-call", "w%d op#%d (%s%v) panicked: %v\n%s", w.id, w.opIdx.Load(), w.curOp, w.curQs, p, st)
}

// drain is the final test: with every worker finished and everything released,
// exactly max TryAcquire succeed on each queue and the next one is refused.
func (r *run) drain() *evid.Violation {
	for q := range r.max {
		if n := r.holders[q].Load(); n != 0 {
			return evid.V("harness-holder-count-nonzero", "internal: q%d holder count %d after all workers finished", q, n)
		}
	}
	ctx := context.Background()
	for q := range r.max {
		var rels []func()
		for i := 0; i < r.max[q]+2; i++ {
			rel, err := r.qs.try(ctx, q, reqmeta.Data{})
			if err != nil {
				return evid.V("drain-tryacquire-error", "q%d: TryAcquire on the idle queue failed: %v", q, err)
			}
			if rel == nil {
				break
			}
			rels = append(rels, rel)
		}
		for _, rel := range rels {
			rel()
		}
		if len(rels) < r.max[q] {
			return evid.V("drain-slot-lost", "q%d (limit %d): after all workers finished and released everything only %d TryAcquire succeeded - a slot leaked", q, r.max[q], len(rels))
		}
		if len(rels) > r.max[q] {
			return evid.V("drain-slot-duplicated", "q%d (limit %d): after all workers finished %d TryAcquire succeeded", q, r.max[q], len(rels))
		}
		// once more after releasing the probes: the queue must be reusable
		rel, _ := r.qs.try(ctx, q, reqmeta.Data{})
		if rel == nil {
			return evid.V("drain-slot-lost", "q%d (limit %d): queue refuses TryAcquire after the drain probes were released", q, r.max[q])
		}
		rel()
	}
	return nil
}

// describe renders the per-worker status for violation messages.
func (r *run) describe(withHeld bool) string {
	var sb strings.Builder
	fmt.Fprintf(&sb, "elem=%q ", r.c.Elem)
	for q := range r.max {
		fmt.Fprintf(&sb, "q%d{max=%d next=%q holders=%d} ", q, r.max[q], r.c.Queues[q].Next, r.holders[q].Load())
	}
	for _, w := range r.ws {
		st := w.state.Load()
		fmt.Fprintf(&sb, "\n  w%d: ", w.id)
		switch st {
		case stFinished:
			sb.WriteString("finished")
		case stBlocking:
			fmt.Fprintf(&sb, "inside %s%v (op#%d) at %q", w.curOp, w.curQs, w.opIdx.Load(), w.point)
		default:
			fmt.Fprintf(&sb, "in harness (op#%d) at %q", w.opIdx.Load(), w.point)
		}
		if withHeld { // only safe to read while the worker is parked
			var hq []string
			for _, h := range w.held {
				hq = append(hq, fmt.Sprint(h.qs))
			}
			fmt.Fprintf(&sb, " holds=%v", hq)
		}
	}
	return sb.String()
}

// staticMultiOverlap tells whether two different workers have AcquireMulti ops
// over intersecting queue sets (of size >= 2 for at least one of them).
func staticMultiOverlap(c Case) bool {
	n := len(c.Queues)
	sets := make([][]uint, len(c.Workers))
	for wi, p := range c.Workers {
		for _, op := range p {
			if op.K != "multi" {
				continue
			}
			var m uint
			for _, x := range op.Qs {
				if x >= 0 {
					m |= 1 << uint(x%n)
				}
			}
			if m != 0 {
				sets[wi] = append(sets[wi], m)
			}
		}
	}
	for a := range sets {
		for b := a + 1; b < len(sets); b++ {
			for _, x := range sets[a] {
				for _, y := range sets[b] {
					if x&y != 0 && (x&(x-1) != 0 || y&(y-1) != 0) {
						return true
					}
				}
			}
		}
	}
	return false
}
