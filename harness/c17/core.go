// Package c17 checks internal/pqueue (the request throttle) under owned and
// free-running schedules. See DESIGN.md §2.5 and §3 C17.
//
// core.go: the Case, the worker-program interpreter and the harness-side
// bookkeeping shared by both engines.
package c17

import (
	"context"
	"fmt"
	"runtime/debug"
	"sort"
	"strings"
	"sync"
	"sync/atomic"
	"time"

	"github.com/regclient/regclient/internal/pqueue"
	"github.com/regclient/regclient/internal/reqmeta"
	"github.com/regclient/regclient/zz_verif/evid"
)

// QueueCfg configures one throttle.
type QueueCfg struct {
	// Max as passed to pqueue.New: -1, 0 (both documented to default to 1, ocidir.WithThrottle can pass them) or 1..64
	// (reghttp: config.Host.ReqConcurrent, regsync/regbot: defaults.parallel - any positive number).
	Max int `json:"max"`
	// Next: "" = default (oldest first), "data" = reqmeta.DataNext (reqmeta.Data queues only), and functions whose
	// result pqueue has to validate: "neg" (-1), "big" (beyond the end), "last" (newest first).
	Next string `json:"next"`
	// Elem: "" = reqmeta.Data, "empty" = struct{} (cmd/regsync, cmd/regbot).
	Elem string `json:"elem,omitempty"`
	// Nil: the queue pointer is nil (reghttp host with reqConcurrent <= 0): Acquire/TryAcquire are no-ops that succeed.
	Nil bool `json:"nil,omitempty"`
}

// limit is the effective limit of a queue.
func (q QueueCfg) limit() int {
	if q.Max <= 0 {
		return 1
	}
	return q.Max
}

// Op is one step of a worker program. All fields are reduced modulo the
// applicable range by the interpreter, so every Op is applicable (total).
//
//	acq        blocking Acquire on queue Q (degraded to try when it would break the lock order, see canBlock)
//	try        TryAcquire on queue Q
//	multi      AcquireMulti on the queues Qs (an entry <0 is a nil queue; duplicates allowed)
//	nested     Acquire on a queue of a held AcquireMulti with the context it returned (what reghttp does inside a blob copy)
//	nestedtry  same with TryAcquire
//	rel        release held handle number H
//	relstale   call an already used release function once more (a caller that holds nothing)
//	cancel     cancel the current context of worker W (possibly the caller itself); without P only
//	           when W is inside a blocking pqueue call at that moment; with A the root context all
//	           workers' contexts derive from (regsync/regbot: one signal context for every step)
//	expire     the worker's own context is replaced by one whose deadline has already passed
//
// acq/try/multi with X use the context returned by the worker's most recent held AcquireMulti as their
// context (queue of that set: as "nested"; other queue of the same element type or another AcquireMulti:
// documented to fail; queue of another element type: the value is to be ignored).
type Op struct {
	K  string `json:"k"`
	Q  int    `json:"q,omitempty"`
	Qs []int  `json:"qs,omitempty"`
	H  int    `json:"h,omitempty"`
	W  int    `json:"w,omitempty"`
	DK int    `json:"dk,omitempty"` // reqmeta.Data.Kind of the entry
	DS int64  `json:"ds,omitempty"` // reqmeta.Data.Size of the entry
	Y  bool   `json:"y,omitempty"`  // free engine: runtime.Gosched before the op
	P  bool   `json:"p,omitempty"`  // cancel: also when the target is not inside a blocking call (its next call then starts with a cancelled context)
	A  bool   `json:"a,omitempty"`  // cancel: the shared root context
	X  bool   `json:"x,omitempty"`  // acq/try/multi: call with the context of the held AcquireMulti
	G  bool   `json:"g,omitempty"`  // rel: call the release function from another goroutine (sched: and wait for it; free: concurrently)
}

// Case is one generated input: queues, worker programs and (owned-schedule
// engine) the schedule. Schedule value 0 = keep running the worker that ran
// last if it is enabled (else the lowest enabled one); v>0 = enabled[(v-1) mod
// len(enabled)]. Beyond the end of the list every value is 0.
type Case struct {
	Engine string `json:"engine"` // "sched" | "free"
	// Elem is the element type the queues are instantiated with: "" = reqmeta.Data (internal/reghttp, blob copy),
	// "empty" = struct{} with the default Next, as cmd/regsync (type throttle struct{}) and cmd/regbot configure it.
	Elem     string      `json:"elem,omitempty"`
	Queues   []QueueCfg  `json:"queues"`
	Workers  [][]Op      `json:"workers"`
	Schedule []int       `json:"schedule,omitempty"`
	Procs    int         `json:"procs,omitempty"`  // free engine: GOMAXPROCS
	Tmpl     string      `json:"tmpl,omitempty"`   // generator template the case came from (label only)
	Copy     *CopyCase   `json:"copy,omitempty"`   // engine "copy": concurrent RegClient.BlobCopy calls (copy.go)
	Layout   *LayoutCase `json:"layout,omitempty"` // engine "layout": the per-path write throttle of an OCI layout (layout.go)
}

// normalise clamps a (possibly hand-edited) case into the stated domain.
func (c *Case) normalise() {
	qs := append([]QueueCfg(nil), c.Queues...)
	if len(qs) == 0 {
		qs = []QueueCfg{{Max: 1}}
	}
	if len(qs) > 3 {
		qs = qs[:3]
	}
	if c.Elem != "empty" {
		c.Elem = ""
	}
	for i := range qs {
		if qs[i].Max < -1 {
			qs[i].Max = -1
		}
		if qs[i].Max > 64 {
			qs[i].Max = 64
		}
		if c.Elem == "empty" { // case-wide form (older replays): every queue as regsync/regbot configure it
			qs[i].Elem = "empty"
			qs[i].Next = ""
		}
		if qs[i].Elem != "empty" {
			qs[i].Elem = ""
		}
		switch qs[i].Next {
		case "", "neg", "big", "last":
		case "data":
			if qs[i].Elem == "empty" {
				qs[i].Next = ""
			}
		default:
			qs[i].Next = ""
		}
	}
	c.Queues = qs
	if len(c.Workers) > 5 {
		c.Workers = c.Workers[:5]
	}
	for len(c.Workers) < 1 {
		c.Workers = append(c.Workers, nil)
	}
	if c.Procs < 1 {
		c.Procs = 4
	}
	if c.Procs > 32 {
		c.Procs = 32
	}
}

type handle struct {
	qs   []int           // distinct queue indexes this handle holds a slot of
	rel  func()          // release function returned by pqueue
	mctx context.Context // context returned by AcquireMulti (nil for plain)
}

const (
	stHarness  = 0 // in harness code (or parked at a harness yield)
	stBlocking = 1 // inside a pqueue call that may block
	stFinished = 2
)

type worker struct {
	id   int
	prog []Op

	mu     sync.Mutex // guards ctx/cancel (cancel may come from another worker)
	ctx    context.Context
	cancel context.CancelFunc

	held  []handle
	stale []func()

	state atomic.Int32
	opIdx atomic.Int32
	curQs []int  // candidate queues of the pqueue call in progress (written before state/park)
	curOp string // kind of the call in progress

	// owned-schedule engine
	resume    chan struct{}
	point     string
	wake      <-chan struct{}
	done      <-chan struct{}
	fin       bool
	bothReady bool
}

type run struct {
	c       Case
	tqs     []tq
	max     []int // effective limit (huge for a nil queue)
	holders []atomic.Int32
	ws      []*worker
	aborted atomic.Bool

	progress atomic.Int64

	mu     sync.Mutex
	viol   *evid.Violation
	events map[string]int

	rootMu     sync.Mutex // the context every worker context derives from
	root       context.Context
	rootCancel context.CancelFunc

	asyncRelease bool           // free engine: rel with G runs concurrently
	helpers      sync.WaitGroup // goroutines releasing on behalf of a worker
	helperN      atomic.Int32

	// yield is called by the interpreter between operations.
	yield func(w *worker, point string, op *Op)
}

// tq is one queue under test, of either element type. A nil queue keeps both pointers nil.
type tq struct {
	empty bool
	d     *pqueue.Queue[reqmeta.Data]
	e     *pqueue.Queue[struct{}]
}

func (t *tq) acquire(ctx context.Context, d reqmeta.Data) (func(), error) {
	if t.empty {
		return t.e.Acquire(ctx, struct{}{})
	}
	return t.d.Acquire(ctx, d)
}

func (t *tq) try(ctx context.Context, d reqmeta.Data) (func(), error) {
	if t.empty {
		return t.e.TryAcquire(ctx, struct{}{})
	}
	return t.d.TryAcquire(ctx, d)
}

// callMulti calls AcquireMulti of the given element type; an entry <0 is a nil queue.
func (r *run) callMulti(ctx context.Context, d reqmeta.Data, entries []int, empty bool) (context.Context, func(), error) {
	if empty {
		l := make([]*pqueue.Queue[struct{}], len(entries))
		for i, q := range entries {
			if q >= 0 {
				l[i] = r.tqs[q].e
			}
		}
		return pqueue.AcquireMulti(ctx, struct{}{}, l...)
	}
	l := make([]*pqueue.Queue[reqmeta.Data], len(entries))
	for i, q := range entries {
		if q >= 0 {
			l[i] = r.tqs[q].d
		}
	}
	return pqueue.AcquireMulti(ctx, d, l...)
}

// mkNext builds the priority function of a queue. Results outside the list are legal input for pqueue
// ("validate response"), so the harness hands them through unchanged.
func mkNext[T any](r *run, kind string, data func(queued, active []*T) int) func(queued, active []*T) int {
	if kind == "" || (kind == "data" && data == nil) {
		return nil
	}
	return func(queued, active []*T) int {
		i := 0
		switch kind {
		case "neg":
			i = -1
		case "big":
			i = len(queued) + 7
		case "last":
			i = len(queued) - 1
		case "data":
			i = data(queued, active)
			if len(active) >= 2 {
				r.event("next:data-with-2+active")
			}
			if i > 0 {
				r.event("next:data-picked-not-oldest")
			}
		}
		r.event("next:" + kind + "-called")
		return i
	}
}

func newRun(c Case) *run {
	r := &run{c: c, events: map[string]int{}}
	r.max = make([]int, len(c.Queues))
	r.holders = make([]atomic.Int32, len(c.Queues))
	r.tqs = make([]tq, len(c.Queues))
	for i, qc := range c.Queues {
		r.max[i] = qc.limit()
		r.tqs[i].empty = qc.Elem == "empty"
		if qc.Nil {
			r.max[i] = 1 << 30
			continue
		}
		if qc.Elem == "empty" {
			r.tqs[i].e = pqueue.New(pqueue.Opts[struct{}]{Max: qc.Max, Next: mkNext[struct{}](r, qc.Next, nil)})
		} else {
			r.tqs[i].d = pqueue.New(pqueue.Opts[reqmeta.Data]{Max: qc.Max, Next: mkNext(r, qc.Next, reqmeta.DataNext)})
		}
	}
	r.root, r.rootCancel = context.WithCancel(context.Background())
	for i, p := range c.Workers {
		w := &worker{id: i, prog: p, resume: make(chan struct{}), point: "start"}
		w.ctx, w.cancel = context.WithCancel(r.root)
		r.ws = append(r.ws, w)
	}
	return r
}

func (r *run) rootCtx() context.Context {
	r.rootMu.Lock()
	defer r.rootMu.Unlock()
	return r.root
}

// cancelRoot cancels the context all current worker contexts derive from and installs a new one.
func (r *run) cancelRoot() {
	r.rootMu.Lock()
	old := r.rootCancel
	r.root, r.rootCancel = context.WithCancel(context.Background())
	if r.aborted.Load() {
		r.rootCancel()
	}
	r.rootMu.Unlock()
	old()
}

func (r *run) event(l string) {
	r.mu.Lock()
	r.events[l]++
	r.mu.Unlock()
}

func (r *run) hasEvent(l string) bool {
	r.mu.Lock()
	defer r.mu.Unlock()
	return r.events[l] > 0
}

// violate records the first violation of the run.
func (r *run) violate(v *evid.Violation) {
	if r.aborted.Load() {
		return // teardown in progress: workers run unscheduled with cancelled contexts, nothing is judged
	}
	r.mu.Lock()
	if r.viol == nil {
		r.viol = v
	}
	r.mu.Unlock()
}

func (r *run) violation() *evid.Violation {
	r.mu.Lock()
	defer r.mu.Unlock()
	return r.viol
}

func (w *worker) curCtx() context.Context {
	w.mu.Lock()
	defer w.mu.Unlock()
	return w.ctx
}

func (w *worker) cancelCur() {
	w.mu.Lock()
	c := w.cancel
	w.mu.Unlock()
	c()
}

// renew gives the worker a fresh context after a call failed with a cancelled one.
func (w *worker) renew(r *run) {
	root := r.rootCtx()
	w.mu.Lock()
	w.cancel() // no-op for the usual case of an already cancelled context; detaches it from its parent
	w.ctx, w.cancel = context.WithCancel(root)
	if r.aborted.Load() {
		w.cancel()
	}
	w.mu.Unlock()
}

// expire replaces the worker's context by one whose deadline passed long ago (Err() == DeadlineExceeded).
func (w *worker) expire(r *run) {
	root := r.rootCtx()
	w.mu.Lock()
	w.cancel()
	w.ctx, w.cancel = context.WithDeadline(root, time.Unix(1, 0))
	w.mu.Unlock()
}

// canBlock is the well-formedness rule that makes every generated program
// deadlock free by construction (lock hierarchy): a worker may enter a call
// that can block on a queue of `targets` only while every slot it holds
// belongs to a queue with a strictly smaller index than all targets.
func (w *worker) canBlock(targets []int) bool {
	for _, h := range w.held {
		for _, hq := range h.qs {
			for _, t := range targets {
				if hq >= t {
					return false
				}
			}
		}
	}
	return true
}

func (r *run) data(op *Op) reqmeta.Data {
	k := op.DK % 5
	if k < 0 {
		k = -k
	}
	return reqmeta.Data{Kind: reqmeta.Kind(k), Size: op.DS}
}

func (r *run) qIndex(x int) int {
	n := len(r.max)
	x %= n
	if x < 0 {
		x += n
	}
	return x
}

// interp runs a worker program. Every worker finally releases everything it
// still holds, so "all holders have finished" is reached by every program.
func (r *run) interp(w *worker) {
	for i := range w.prog {
		if r.aborted.Load() {
			break
		}
		op := &w.prog[i]
		w.opIdx.Store(int32(i))
		r.yield(w, "op", op)
		if r.aborted.Load() {
			break
		}
		r.exec(w, op)
		r.progress.Add(1)
	}
	for len(w.held) > 0 {
		if !r.aborted.Load() {
			r.yield(w, "epilogue", nil)
		}
		r.release(w, len(w.held)-1)
		r.progress.Add(1)
	}
	w.curQs, w.curOp = nil, "done"
	w.state.Store(stFinished)
}

func (r *run) enter(w *worker, kind string, qs []int) {
	w.curQs, w.curOp = qs, kind
	w.state.Store(stBlocking)
}

func (r *run) leave(w *worker) {
	w.state.Store(stHarness)
}

// liveMulti returns the worker's most recent held AcquireMulti handle over a non-empty set.
func (w *worker) liveMulti() *handle {
	for i := len(w.held) - 1; i >= 0; i-- {
		if w.held[i].mctx != nil && len(w.held[i].qs) > 0 {
			return &w.held[i]
		}
	}
	return nil
}

func containsInt(l []int, x int) bool {
	for _, y := range l {
		if x == y {
			return true
		}
	}
	return false
}

func (r *run) exec(w *worker, op *Op) {
	switch op.K {
	case "acq", "try":
		var h *handle
		if op.X {
			h = w.liveMulti()
		}
		r.doAcquire(w, op, r.qIndex(op.Q), h, op.K == "acq")
	case "multi":
		r.doMulti(w, op)
	case "nested", "nestedtry":
		h := w.liveMulti()
		if h == nil {
			r.doAcquire(w, op, r.qIndex(op.Q), nil, false)
			return
		}
		x := op.Q % len(h.qs)
		if x < 0 {
			x += len(h.qs)
		}
		r.doNested(w, op, h, h.qs[x], op.K == "nested")
	case "rel":
		if len(w.held) == 0 {
			r.event("op:rel-nothing-held")
			return
		}
		i := op.H % len(w.held)
		if i < 0 {
			i += len(w.held)
		}
		r.releaseVia(w, i, op.G)
	case "relstale":
		if len(w.stale) == 0 {
			return
		}
		i := op.H % len(w.stale)
		if i < 0 {
			i += len(w.stale)
		}
		w.curQs, w.curOp = nil, "relstale"
		w.stale[i]()
		r.event("op:relstale")
	case "cancel":
		if op.A {
			r.cancelRoot()
			r.event("op:cancel-root-of-all")
			return
		}
		n := len(r.ws)
		t := op.W % n
		if t < 0 {
			t += n
		}
		if !op.P && r.ws[t].state.Load() != stBlocking {
			r.event("op:cancel-skipped-target-not-blocking")
			return
		}
		r.ws[t].cancelCur()
		if t == w.id {
			r.event("op:cancel-self")
		} else {
			r.event("op:cancel-other")
		}
	case "expire":
		w.expire(r)
		r.event("op:expire-own-deadline")
	default:
		// unknown op kinds are no-ops (hand-edited replay files)
	}
}

// doNested: Acquire/TryAcquire on a queue of the held AcquireMulti h with the context it returned. Must return at
// once (the slot is already owned through the context); the result is a no-op handle and is not counted.
func (r *run) doNested(w *worker, op *Op, h *handle, q int, blocking bool) {
	var rel func()
	var err error
	if blocking {
		r.enter(w, "nested", []int{q})
		rel, err = r.tqs[q].acquire(h.mctx, r.data(op))
		r.leave(w)
		r.event("op:nested")
	} else {
		rel, err = r.tqs[q].try(h.mctx, r.data(op))
		r.event("op:nestedtry")
	}
	if err != nil {
		if blocking && h.mctx.Err() == nil {
			r.violate(evid.V("acquire-error-without-cancel", "w%d Acquire(q%d) inside its own AcquireMulti%v failed although its context is not cancelled: %v", w.id, q, h.qs, err))
		}
		return
	}
	if rel != nil {
		rel()
	} else if blocking {
		r.violate(evid.V("acquire-nil-release-fn", "w%d Acquire(q%d) with its AcquireMulti context returned neither a release function nor an error", w.id, q))
	}
}

// doAcquire: Acquire (blocking) or TryAcquire on queue q. h != nil: with the context of the held AcquireMulti h.
func (r *run) doAcquire(w *worker, op *Op, q int, h *handle, blocking bool) {
	qc := r.c.Queues[q]
	ctx := w.curCtx()
	if h != nil {
		ctx = h.mctx
	}
	if qc.Nil {
		// nil receiver, the way reghttp calls a host without a concurrency limit: succeeds at once, limits nothing
		var rel func()
		var err error
		if blocking {
			r.enter(w, "acq-nil-queue", []int{q})
			rel, err = r.tqs[q].acquire(ctx, r.data(op))
			r.leave(w)
		} else {
			rel, err = r.tqs[q].try(ctx, r.data(op))
		}
		r.event("op:acquire-on-nil-queue")
		if err != nil || rel == nil {
			r.violate(evid.V("nil-queue-acquire-failed", "w%d acquire on the nil queue q%d returned (release fn nil=%v, err=%v); callers (reghttp) call the release function unconditionally", w.id, q, rel == nil, err))
			return
		}
		rel()
		return
	}
	errExpected := false
	if h != nil {
		same := r.c.Queues[h.qs[0]].Elem == qc.Elem
		switch {
		case same && containsInt(h.qs, q):
			r.doNested(w, op, h, q, blocking)
			return
		case same:
			// documented: "Attempting to acquire other resources ... using the returned context will fail"
			errExpected = true
			r.event("x:acquire-outside-transaction")
		default:
			// "another type is using the context, treat it as unset": an ordinary acquire
			r.event("x:acquire-with-other-type-multi-ctx")
		}
	}
	if blocking && !w.canBlock([]int{q}) {
		r.event("op:acq-degraded-to-try")
		blocking = false
	}
	if !blocking {
		w.curQs, w.curOp = []int{q}, "try"
		rel, err := r.tqs[q].try(ctx, r.data(op))
		r.event("op:try")
		if err != nil {
			r.event("op:try-error")
		}
		if rel == nil {
			r.event("op:try-refused")
			return
		}
		r.hold(w, []int{q}, rel, nil)
		return
	}
	if ctx.Err() != nil {
		r.event("op:acq-with-cancelled-ctx")
		if ctx.Err() == context.DeadlineExceeded {
			r.event("op:acq-with-expired-deadline")
		}
	}
	r.enter(w, "acq", []int{q})
	rel, err := r.tqs[q].acquire(ctx, r.data(op))
	r.leave(w)
	r.event("op:acq")
	r.afterAcquire(w, "Acquire", ctx, []int{q}, rel, err, nil, errExpected)
}

func (r *run) doMulti(w *worker, op *Op) {
	// the element type of the call is that of the first real queue in the list; queues of the other type are left out
	typed, empty := false, false
	var list, distinct []int
	nils, dropped, dups := 0, 0, 0
	for _, x := range op.Qs {
		if x < 0 {
			list = append(list, -1)
			nils++
			continue
		}
		q := r.qIndex(x)
		qc := r.c.Queues[q]
		if qc.Nil {
			list = append(list, -1)
			nils++
			continue
		}
		if !typed {
			typed, empty = true, qc.Elem == "empty"
		}
		if (qc.Elem == "empty") != empty {
			dropped++
			continue
		}
		list = append(list, q)
		if containsInt(distinct, q) {
			dups++
		} else {
			distinct = append(distinct, q)
		}
	}
	sort.Ints(distinct)
	var h *handle
	if op.X {
		h = w.liveMulti()
	}
	// with the context of a held AcquireMulti the call is documented to fail at once, so the lock order does not matter
	if h == nil && !w.canBlock(distinct) {
		r.event("op:multi-degraded-to-try")
		r.doAcquire(w, op, distinct[0], nil, false)
		return
	}
	ctx := w.curCtx()
	errExpected := false
	if h != nil {
		// a second AcquireMulti with the context of the first (same or other element type) is documented to fail
		ctx = h.mctx
		errExpected = true
		if (r.c.Queues[h.qs[0]].Elem == "empty") != empty {
			r.event("x:multi-with-other-type-multi-ctx")
		} else {
			r.event("x:multi-with-own-multi-ctx")
		}
	}
	r.enter(w, "multi", distinct)
	mctx, rel, err := r.callMulti(ctx, r.data(op), list, empty)
	r.leave(w)
	r.event("op:multi")
	if len(distinct) > 1 {
		r.event("op:multi-2+queues")
	}
	if nils > 0 {
		r.event("op:multi-with-nil-entries")
	}
	if dups > 0 {
		r.event("op:multi-with-duplicates")
	}
	if dropped > 0 {
		r.event("op:multi-other-type-left-out")
	}
	if len(distinct) == 0 {
		r.event("op:multi-empty-or-all-nil")
	}
	if err == nil && mctx == nil {
		r.violate(evid.V("multi-nil-context", "w%d AcquireMulti%v returned a nil context without error", w.id, distinct))
		return
	}
	if err != nil && errExpected && ctx.Err() == nil {
		r.event("x:multi-refused-as-documented")
	}
	r.afterAcquire(w, "AcquireMulti", ctx, distinct, rel, err, mctx, errExpected)
}

// afterAcquire applies the result oracles of a blocking acquire: an error is
// only allowed for a cancelled context (or for the documented misuse of an
// AcquireMulti context, errExpected) and then nothing is held; success comes
// with a release function.
func (r *run) afterAcquire(w *worker, what string, ctx context.Context, qs []int, rel func(), err error, mctx context.Context, errExpected bool) {
	if err != nil {
		if rel != nil {
			r.violate(evid.V("acquire-error-with-release-fn", "w%d %s%v returned error %v together with a release function", w.id, what, qs, err))
		}
		if ctx.Err() == nil {
			if !errExpected {
				r.violate(evid.V("acquire-error-without-cancel", "w%d %s%v failed although its context is not cancelled: %v", w.id, what, qs, err))
			}
			r.event("res:documented-misuse-error")
			return
		}
		r.event("res:cancelled-acquire-error")
		w.renew(r)
		return
	}
	if rel == nil {
		r.violate(evid.V("acquire-nil-release-fn", "w%d %s%v returned neither a release function nor an error", w.id, what, qs))
		return
	}
	if ctx.Err() != nil {
		// admitted although cancelled (fast path, or the wake-up won the select): legal, the caller holds a slot.
		// A cancelled context is used for one call only.
		r.event("res:acquired-despite-cancelled-ctx")
		w.renew(r)
	}
	r.hold(w, qs, rel, mctx)
}

// hold counts the caller as a holder AFTER the successful return (so the
// harness count never exceeds the true number of callers holding a slot).
func (r *run) hold(w *worker, qs []int, rel func(), mctx context.Context) {
	for _, q := range qs {
		n := int(r.holders[q].Add(1))
		if n > r.max[q] {
			r.violate(evid.V("limit-exceeded", "w%d op#%d (%s) was admitted to q%d as holder number %d, limit is %d", w.id, w.opIdx.Load(), w.curOp, q, n, r.max[q]))
		}
	}
	w.held = append(w.held, handle{qs: qs, rel: rel, mctx: mctx})
}

// release un-counts the holder BEFORE calling the release function.
func (r *run) release(w *worker, i int) { r.releaseVia(w, i, false) }

// releaseVia: other = the release function is called by another goroutine than the one that acquired (reghttp:
// whoever closes the response). Owned schedule: the worker waits for that goroutine, which parks at the hooks in the
// worker's name. Free engine, plain handles: the goroutine runs concurrently with the worker's next operations.
func (r *run) releaseVia(w *worker, i int, other bool) {
	h := w.held[i]
	w.held = append(w.held[:i:i], w.held[i+1:]...)
	for _, q := range h.qs {
		r.holders[q].Add(-1)
	}
	w.curQs, w.curOp = h.qs, "rel"
	switch {
	case !other:
		h.rel()
		w.stale = append(w.stale, h.rel)
	case r.asyncRelease && h.mctx == nil:
		r.helpers.Add(1)
		r.helperN.Add(1)
		go func() {
			defer r.helpers.Done()
			defer r.helperN.Add(-1)
			defer func() {
				if p := recover(); p != nil {
					r.violate(panicViolation(w, p))
				}
			}()
			h.rel()
		}()
		r.event("op:rel-concurrently-by-other-goroutine")
	default:
		done := make(chan any, 1)
		go func() {
			defer func() { done <- recover() }()
			h.rel()
		}()
		if p := <-done; p != nil {
			panic(p)
		}
		w.stale = append(w.stale, h.rel)
		r.event("op:rel-by-other-goroutine")
	}
	r.event("op:rel")
}

// panicViolation: a panic inside a worker (i.e. inside pqueue) is a violation of its own.
func panicViolation(w *worker, p any) *evid.Violation {
	st := string(debug.Stack())
	if len(st) > 3000 {
		st = st[:3000]
	}
	return evid.V("panic-in-pqueue-call", "w%d op#%d (%s%v) panicked: %v\n%s", w.id, w.opIdx.Load(), w.curOp, w.curQs, p, st)
}

// drain is the final test: with every worker finished and everything released,
// exactly max TryAcquire succeed on each queue and the next one is refused.
func (r *run) drain() *evid.Violation {
	for q := range r.max {
		if n := r.holders[q].Load(); n != 0 {
			return evid.V("harness-holder-count-nonzero", "internal: q%d holder count %d after all workers finished", q, n)
		}
	}
	ctx := context.Background()
	for q := range r.max {
		if r.c.Queues[q].Nil {
			continue
		}
		var rels []func()
		for i := 0; i < r.max[q]+2; i++ {
			rel, err := r.tqs[q].try(ctx, reqmeta.Data{})
			if err != nil {
				return evid.V("drain-tryacquire-error", "q%d: TryAcquire on the idle queue failed: %v", q, err)
			}
			if rel == nil {
				break
			}
			rels = append(rels, rel)
		}
		for _, rel := range rels {
			rel()
		}
		if len(rels) < r.max[q] {
			return evid.V("drain-slot-lost", "q%d (limit %d): after all workers finished and released everything only %d TryAcquire succeeded - a slot leaked", q, r.max[q], len(rels))
		}
		if len(rels) > r.max[q] {
			return evid.V("drain-slot-duplicated", "q%d (limit %d): after all workers finished %d TryAcquire succeeded", q, r.max[q], len(rels))
		}
		// once more after releasing the probes: the queue must be reusable
		rel, _ := r.tqs[q].try(ctx, reqmeta.Data{})
		if rel == nil {
			return evid.V("drain-slot-lost", "q%d (limit %d): queue refuses TryAcquire after the drain probes were released", q, r.max[q])
		}
		rel()
	}
	return nil
}

// describe renders the per-worker status for violation messages.
func (r *run) describe(withHeld bool) string {
	var sb strings.Builder
	for q := range r.max {
		qc := r.c.Queues[q]
		fmt.Fprintf(&sb, "q%d{max=%d(limit %d) next=%q elem=%q nil=%v holders=%d} ", q, qc.Max, qc.limit(), qc.Next, qc.Elem, qc.Nil, r.holders[q].Load())
	}
	for _, w := range r.ws {
		st := w.state.Load()
		fmt.Fprintf(&sb, "\n  w%d: ", w.id)
		switch st {
		case stFinished:
			sb.WriteString("finished")
		case stBlocking:
			fmt.Fprintf(&sb, "inside %s%v (op#%d) at %q", w.curOp, w.curQs, w.opIdx.Load(), w.point)
		default:
			fmt.Fprintf(&sb, "in harness (op#%d) at %q", w.opIdx.Load(), w.point)
		}
		if withHeld { // only safe to read while the worker is parked
			var hq []string
			for _, h := range w.held {
				hq = append(hq, fmt.Sprint(h.qs))
			}
			fmt.Fprintf(&sb, " holds=%v", hq)
		}
	}
	return sb.String()
}

// staticMultiOverlap tells whether two different workers have AcquireMulti ops
// over intersecting queue sets (of size >= 2 for at least one of them).
func staticMultiOverlap(c Case) bool {
	n := len(c.Queues)
	sets := make([][]uint, len(c.Workers))
	for wi, p := range c.Workers {
		for _, op := range p {
			if op.K != "multi" {
				continue
			}
			var m uint
			for _, x := range op.Qs {
				if x >= 0 {
					m |= 1 << uint(x%n)
				}
			}
			if m != 0 {
				sets[wi] = append(sets[wi], m)
			}
		}
	}
	for a := range sets {
		for b := a + 1; b < len(sets); b++ {
			for _, x := range sets[a] {
				for _, y := range sets[b] {
					if x&y != 0 && (x&(x-1) != 0 || y&(y-1) != 0) {
						return true
					}
				}
			}
		}
	}
	return false
}
