package c17

// free.go: engine 2. The same worker programs on real goroutines, no hook
// (pqueue.VerifHook == nil), GOMAXPROCS from the Case, the Go scheduler (and
// the race detector in the thorough tier) decides the interleaving.
//
// Oracles: holder count <= limit at every admission, the acquire result rules
// and the final drain test. A hang is a violation only if it is proven: by the
// harness's bookkeeping every unfinished worker is inside a blocking pqueue
// call, and a goroutine dump shows every one of them parked in the select of
// pqueue.Acquire (so no wake-up or cancellation is in flight and nobody is left
// to produce one - the state is final, not a matter of timing). Any other
// non-termination within the hard cap is inconclusive.

import (
	"fmt"
	"runtime"
	"strings"
	"sync"
	"time"

	"github.com/regclient/regclient/internal/pqueue"
	"github.com/regclient/regclient/zz_verif/evid"
)

type freeResult struct {
	v            *evid.Violation
	inconclusive string
	events       map[string]int
}

var (
	freeWatchdog = 2 * time.Second  // normal executions take well under a millisecond
	freeConfirm  = 3                // consecutive identical observations, 100 ms apart
	freeHardCap  = 90 * time.Second // not finished and not provably stuck: inconclusive
)

// parkedInAcquire inspects a dump of all goroutines: it returns how many
// goroutines are executing a worker program of this package and how many of
// those are parked (state "select") inside pqueue's Acquire. A goroutine whose
// wake-up channel or context has already fired is "runnable", not "select", so
// "all parked" cannot be a transient state: only workers release or cancel.
func parkedInAcquire() (workers, parked int, dump string) {
	buf := make([]byte, 1<<20)
	buf = buf[:runtime.Stack(buf, true)]
	dump = string(buf)
	for _, g := range strings.Split(dump, "\n\n") {
		if !strings.Contains(g, "c17.(*run).interp") {
			continue
		}
		workers++
		nl := strings.IndexByte(g, '\n')
		if nl < 0 {
			continue
		}
		hdr := g[:nl]
		if i := strings.IndexByte(hdr, '['); i >= 0 && strings.HasPrefix(hdr[i+1:], "select") &&
			strings.Contains(g, "internal/pqueue.") && strings.Contains(g, ".Acquire(") {
			parked++
		}
	}
	return
}

func runFree(cs Case) freeResult {
	pqueue.VerifHook = nil
	r := newRun(cs)
	r.asyncRelease = true
	r.yield = func(w *worker, point string, op *Op) {
		if op == nil || op.Y {
			runtime.Gosched()
		}
	}
	start := make(chan struct{})
	var wg sync.WaitGroup
	for _, w := range r.ws {
		w := w
		wg.Add(1)
		go func() {
			defer wg.Done()
			defer func() {
				if p := recover(); p != nil {
					r.violate(panicViolation(w, p))
					w.state.Store(stFinished)
				}
			}()
			<-start
			r.interp(w)
		}()
	}
	done := make(chan struct{})
	go func() { wg.Wait(); r.helpers.Wait(); close(done) }()
	close(start)

	res := freeResult{}
	t0 := time.Now()
	wd := time.NewTimer(freeWatchdog)
	defer wd.Stop()
	select {
	case <-done:
	case <-wd.C:
		// watchdog: slow, or provably stuck, or unknown
		finished, proven := false, false
		same := 0
		last := int64(-1)
		var stuck []string
		anyFree := false
		for !finished && !proven && time.Since(t0) < freeHardCap {
			select {
			case <-done:
				finished = true
				continue
			case <-time.After(100 * time.Millisecond):
			}
			unfinished := 0
			ok := true
			stuck = stuck[:0]
			anyFree = false
			for _, w := range r.ws {
				st := w.state.Load()
				if st == stFinished {
					continue
				}
				unfinished++
				if st != stBlocking {
					ok = false
					break
				}
				free := len(w.curQs) > 0
				for _, q := range w.curQs {
					if int(r.holders[q].Load()) >= r.max[q] {
						free = false
					}
				}
				if free {
					anyFree = true
				}
				stuck = append(stuck, fmt.Sprintf("w%d in %s%v free-slot=%v", w.id, w.curOp, w.curQs, free))
			}
			p := r.progress.Load()
			if ok && unfinished > 0 && p == last && r.helperN.Load() == 0 {
				nw, np, _ := parkedInAcquire()
				if nw == unfinished && np == unfinished {
					same++
				} else {
					same = 0
				}
			} else {
				same = 0
			}
			last = p
			if same >= freeConfirm {
				proven = true
			}
		}
		if !finished {
			desc := r.describe(false)
			switch {
			case r.violation() != nil: // e.g. a worker panicked inside pqueue and left the others waiting
				res.v = r.violation()
			case proven && anyFree:
				res.v = evid.V("free-run-waiter-stuck-with-free-slot", "free-running (GOMAXPROCS=%d): every unfinished worker is parked in the select of pqueue.Acquire (goroutine dump), nobody is left to release or cancel, and for at least one of them every queue it may wait on has a free slot by the harness's holder count: %v\nstate: %s",
					cs.Procs, stuck, desc)
			case proven:
				res.v = evid.V("free-run-deadlock-all-blocked", "free-running (GOMAXPROCS=%d): every unfinished worker is parked in the select of pqueue.Acquire (goroutine dump) and nobody is left to release or cancel; programs respect a lock hierarchy: %v\nstate: %s",
					cs.Procs, stuck, desc)
			default:
				_, _, dump := parkedInAcquire()
				if len(dump) > 6000 {
					dump = dump[:6000]
				}
				res.inconclusive = fmt.Sprintf("free-running case did not finish within %v and is not provably stuck inside pqueue\nstate: %s\n%s", time.Since(t0).Round(time.Second), desc, dump)
			}
			// let the goroutines go
			r.aborted.Store(true)
			for _, w := range r.ws {
				w.cancelCur()
			}
			select {
			case <-done:
			case <-time.After(30 * time.Second):
				if res.inconclusive == "" {
					res.inconclusive = "free-running teardown did not finish"
				}
			}
			r.mu.Lock()
			res.events = r.events
			r.mu.Unlock()
			return res
		}
		r.event("free-slow-but-finished")
	}
	res.v = r.violation()
	if res.v == nil {
		res.v = r.drain()
	}
	if res.v != nil {
		res.v.Msg = fmt.Sprintf("free-running (GOMAXPROCS=%d): %s", cs.Procs, res.v.Msg)
	}
	r.mu.Lock()
	res.events = r.events
	r.mu.Unlock()
	return res
}
