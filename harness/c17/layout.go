package c17

// layout.go: engine 5, the per-path write throttle of an OCI layout (scheme/ocidir/ocidir.go: throttleGet,
// BlobPut acquires it around the write). The first clause of the statement - "at no moment do more callers hold a slot
// of a throttle than its configured maximum" - for the one throttle of /repo whose queue object is looked up per call
// in a map that other operations (Close, garbage collection) of the same scheme share a mutex with.
//
// A generated script of actions is executed by ONE controller goroutine:
//
//	start w   writer w calls BlobPut(path of w) from a gated reader; the source is read inside the throttle's critical
//	          section, so "the reader was asked for data" = "the writer holds a slot of that path"
//	close p   Close on layout path p (what every regctl command and every copy does when it is done with a reference)
//	finish w  the gate of writer w opens: its reader delivers the blob and the put ends
//	cancel w  the context of writer w is cancelled (a waiting writer gives up; a holding one fails in its write)
//
// Oracle: whenever a gated reader is entered, the number of readers of the same path that are inside the critical
// section (entered, not yet returned from BlobPut) is at most the configured limit; at the end every gate is opened and
// every writer must return; afterwards `limit` fresh writers can hold the path's throttle at the same time (no slot
// lost). Wall-clock time only paces the controller (it gives a started writer up to 2 ms to reach its reader before
// the next action); no verdict depends on it.

import (
	"bytes"
	"context"
	"fmt"
	"os"
	"sync"
	"time"

	"github.com/opencontainers/go-digest"

	"github.com/regclient/regclient/scheme/ocidir"
	"github.com/regclient/regclient/types/descriptor"
	"github.com/regclient/regclient/types/ref"
	"github.com/regclient/regclient/zz_verif/evid"
	rm "github.com/regclient/regclient/zz_verif/regmodel"
)

// LayoutAct is one action of the controller.
type LayoutAct struct {
	Kind string `json:"kind"` // start | close | finish | cancel
	W    int    `json:"w"`    // writer index (start / finish / cancel), path index (close)
}

// LayoutCase is the input of engine 5 (Case.Engine == "layout").
type LayoutCase struct {
	Limit   int         `json:"limit"`   // 0 = ocidir's default (3), else WithThrottle(limit)
	GC      bool        `json:"gc"`      // WithGC
	Paths   int         `json:"paths"`   // 1-2 layout directories
	Writers []int       `json:"writers"` // writer -> path index
	Script  []LayoutAct `json:"script"`
}

type gatedReader struct {
	w       int
	path    int
	st      *layoutState
	src     *bytes.Reader
	entered bool
	left    bool // the last byte was handed out: from here on the writer may release its slot at any moment
}

type layoutState struct {
	mu      sync.Mutex
	cond    *sync.Cond
	inside  []int  // per path: writers inside the critical section
	maxSeen []int  // per path
	entered []bool // per writer
	open    []bool // per writer: gate open
	done    []bool // per writer: BlobPut returned
	viol    *evid.Violation
	limit   int
}

func (g *gatedReader) Read(p []byte) (int, error) {
	st := g.st
	st.mu.Lock()
	if !g.entered {
		g.entered = true
		st.entered[g.w] = true
		st.inside[g.path]++
		if st.inside[g.path] > st.maxSeen[g.path] {
			st.maxSeen[g.path] = st.inside[g.path]
		}
		if st.inside[g.path] > st.limit && st.viol == nil {
			st.viol = evid.V("layout-throttle-limit-exceeded", "%d writers are inside BlobPut's throttled section of layout path %d at the same time, the limit is %d (writer %d just entered)", st.inside[g.path], g.path, st.limit, g.w)
		}
		st.cond.Broadcast()
	}
	for !st.open[g.w] {
		st.cond.Wait()
	}
	st.mu.Unlock()
	n, err := g.src.Read(p)
	if g.src.Len() == 0 {
		g.leave()
	}
	return n, err
}

// leave ends the interval in which the writer certainly holds its slot: it is called when the last byte is handed
// out, which happens before BlobPut can return and release (counting until BlobPut has returned would race with the
// admission of the next waiter). The counted interval is a subset of the real holding interval: never an over-count.
func (g *gatedReader) leave() {
	g.st.mu.Lock()
	if g.entered && !g.left {
		g.left = true
		g.st.inside[g.path]--
	}
	g.st.mu.Unlock()
}

func runLayout(lc LayoutCase) (v *evid.Violation, inconcl string, events map[string]bool) {
	events = map[string]bool{}
	if lc.Paths < 1 {
		lc.Paths = 1
	}
	if lc.Paths > 2 {
		lc.Paths = 2
	}
	if lc.Limit < 0 || lc.Limit > 3 {
		lc.Limit = 0
	}
	if len(lc.Writers) > 8 {
		lc.Writers = lc.Writers[:8]
	}
	limit := lc.Limit
	if limit == 0 {
		limit = 3
	}
	dir, err := os.MkdirTemp("", "c17layout")
	if err != nil {
		return nil, "tempdir: " + err.Error(), events
	}
	defer os.RemoveAll(dir)
	opts := []ocidir.Opts{ocidir.WithGC(lc.GC)}
	if lc.Limit > 0 {
		opts = append(opts, ocidir.WithThrottle(lc.Limit))
	}
	o := ocidir.New(opts...)
	refs := make([]ref.Ref, lc.Paths)
	for i := range refs {
		refs[i], err = ref.New(fmt.Sprintf("ocidir://%s/l%d:v1", dir, i))
		if err != nil {
			return nil, "ref: " + err.Error(), events
		}
	}
	n := len(lc.Writers)
	st := &layoutState{inside: make([]int, lc.Paths), maxSeen: make([]int, lc.Paths), entered: make([]bool, n), open: make([]bool, n), done: make([]bool, n), limit: limit}
	st.cond = sync.NewCond(&st.mu)
	started := make([]bool, n)
	cancels := make([]context.CancelFunc, n)
	errsOut := make([]error, n)
	var wg sync.WaitGroup
	pathOf := func(w int) int { return ((lc.Writers[w] % lc.Paths) + lc.Paths) % lc.Paths }
	startWriter := func(w int) {
		started[w] = true
		ctx, cancel := context.WithCancel(context.Background())
		cancels[w] = cancel
		body := []byte(fmt.Sprintf("blob of writer %d", w))
		d := descriptor.Descriptor{Digest: digest.Digest(rm.Digest("sha256", body)), Size: int64(len(body))}
		p := pathOf(w)
		wg.Add(1)
		go func() {
			defer wg.Done()
			gr := &gatedReader{w: w, path: p, st: st, src: bytes.NewReader(body)}
			_, errsOut[w] = o.BlobPut(ctx, refs[p], d, gr)
			gr.leave()
			st.mu.Lock()
			st.done[w] = true
			st.cond.Broadcast()
			st.mu.Unlock()
		}()
		// pace: give the writer up to 2 ms to reach its reader (or to end) before the next action
		deadline := time.Now().Add(2 * time.Millisecond)
		for {
			st.mu.Lock()
			ok := st.entered[w] || st.done[w]
			st.mu.Unlock()
			if ok || time.Now().After(deadline) {
				return
			}
			time.Sleep(50 * time.Microsecond)
		}
	}
	for _, a := range lc.Script {
		switch a.Kind {
		case "start":
			if n == 0 {
				continue
			}
			w := ((a.W % n) + n) % n
			if !started[w] {
				startWriter(w)
				events["layout:writer-started"] = true
			}
		case "close":
			p := ((a.W % lc.Paths) + lc.Paths) % lc.Paths
			st.mu.Lock()
			busy := st.inside[p]
			st.mu.Unlock()
			if busy > 0 {
				events["layout:close-while-a-writer-holds-the-path"] = true
			}
			_ = o.Close(context.Background(), refs[p])
		case "finish", "cancel":
			if n == 0 {
				continue
			}
			w := ((a.W % n) + n) % n
			if !started[w] {
				continue
			}
			if a.Kind == "cancel" {
				cancels[w]()
				events["layout:writer-cancelled"] = true
			}
			st.mu.Lock()
			st.open[w] = true
			st.cond.Broadcast()
			st.mu.Unlock()
		}
	}
	// the end: every gate opens, every writer must return
	st.mu.Lock()
	for w := range st.open {
		st.open[w] = true
	}
	st.cond.Broadcast()
	st.mu.Unlock()
	fin := make(chan struct{})
	go func() { wg.Wait(); close(fin) }()
	select {
	case <-fin:
	case <-time.After(20 * time.Second):
		for _, c := range cancels {
			if c != nil {
				c()
			}
		}
		return st.viol, "layout writers did not return within 20 s", events
	}
	for _, c := range cancels {
		if c != nil {
			c()
		}
	}
	st.mu.Lock()
	v = st.viol
	for p, m := range st.maxSeen {
		if m >= limit {
			events["layout:path-throttle-was-full"] = true
		}
		if m >= 2 {
			events["layout:two-writers-inside-one-path"] = true
		}
		_ = p
	}
	st.mu.Unlock()
	if v != nil {
		return v, "", events
	}
	// no slot lost: `limit` writers can be inside each path at once. A writer that does not get in counts as a lost
	// slot only when a goroutine dump shows it parked in pqueue.Acquire with nobody left to release (awaitOrProve).
	for p := 0; p < lc.Paths; p++ {
		st2 := &layoutState{inside: make([]int, lc.Paths), maxSeen: make([]int, lc.Paths), entered: make([]bool, limit), open: make([]bool, limit), done: make([]bool, limit), limit: limit}
		st2.cond = sync.NewCond(&st2.mu)
		var wg2 sync.WaitGroup
		ctx, cancel := context.WithCancel(context.Background())
		for k := 0; k < limit; k++ {
			wg2.Add(1)
			go layoutDrainWriter(ctx, o, refs[p], p, k, st2, &wg2)
		}
		all := make(chan struct{})
		stop := make(chan struct{})
		go func() {
			st2.mu.Lock()
			for st2.inside[p] < limit {
				select {
				case <-stop:
					st2.mu.Unlock()
					return
				default:
				}
				st2.cond.Wait()
			}
			st2.mu.Unlock()
			close(all)
		}()
		pv, pinc := awaitOrProve(all, "c17.layoutDrainWriter", func() int {
			st2.mu.Lock()
			defer st2.mu.Unlock()
			return limit - st2.inside[p]
		}, "layout-throttle-slot-lost", fmt.Sprintf("after all writers of layout path %d returned, %d fresh writers (the limit) entering BlobPut's throttled section", p, limit))
		close(stop)
		st2.mu.Lock()
		for k := range st2.open {
			st2.open[k] = true
		}
		st2.cond.Broadcast()
		st2.mu.Unlock()
		cancel()
		wg2.Wait()
		if pv != nil || pinc != "" {
			return pv, pinc, events
		}
	}
	return nil, "", events
}

// layoutDrainWriter is a named function so that it can be found in a goroutine dump.
func layoutDrainWriter(ctx context.Context, o *ocidir.OCIDir, r ref.Ref, p, k int, st *layoutState, wg *sync.WaitGroup) {
	defer wg.Done()
	body := []byte(fmt.Sprintf("drain %d of path %d", k, p))
	d := descriptor.Descriptor{Digest: digest.Digest(rm.Digest("sha256", body)), Size: int64(len(body))}
	gr := &gatedReader{w: k, path: p, st: st, src: bytes.NewReader(body)}
	_, _ = o.BlobPut(ctx, r, d, gr)
	st.mu.Lock()
	st.done[k] = true
	st.cond.Broadcast()
	st.mu.Unlock()
}
