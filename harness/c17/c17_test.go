package c17

import (
	"encoding/json"
	"fmt"
	"os"
	"runtime"
	"sort"
	"testing"

	"pgregory.net/rapid"

	"github.com/regclient/regclient/zz_verif/evid"
)

const prop = "C17"

func TestMain(m *testing.M) {
	code := m.Run()
	evid.Flush(code)
	os.Exit(code)
}

// inconclusive ends the shard without a failure record: run.py reports exit 2.
func inconclusive(msg string) {
	fmt.Fprintf(os.Stderr, "INCONCLUSIVE C17: %s\n", msg)
	evid.Flush(3)
	os.Exit(3)
}

// ---------------------------------------------------------------- generator

var opKinds = []string{
	"acq", "acq", "acq", "acq", "acq",
	"try",
	"multi", "multi", "multi",
	"rel", "rel", "rel", "rel", "rel",
	"cancel", "cancel", "cancel",
	"nested", "nestedtry", "relstale", "expire",
}

// sizes around reqmeta's constants: the 4 MiB small limit, the 90 % "large" cutoff of 100 MiB (94371840), equal
// sizes (every value is drawn repeatedly), zero and negative (reghttp: d.Size - chunkSize for an unknown size)
var dataSizes = []int64{0, 0, 1, 1000, 4194304, 4194304, 4194305, 10 << 20, 94371839, 94371840, 95 << 20, 100 << 20, 100 << 20, -1, -4194304, 1 << 62}

// genOp draws one op of a given kind ("" = any kind).
func genOp(t *rapid.T, kind string, nq, nw int, qChoices []int) Op {
	op := Op{K: kind}
	if kind == "" {
		op.K = rapid.SampledFrom(opKinds).Draw(t, "k")
	}
	switch op.K {
	case "acq", "try", "nested", "nestedtry":
		op.Q = rapid.IntRange(0, nq-1).Draw(t, "q")
		if op.K == "acq" || op.K == "try" {
			op.X = rapid.IntRange(0, 5).Draw(t, "x") == 0
		}
	case "multi":
		op.X = rapid.IntRange(0, 7).Draw(t, "x") == 0
		min := 1
		if nq > 1 {
			min = 2
		}
		op.Qs = rapid.SliceOfN(rapid.SampledFrom(qChoices), min, 4).Draw(t, "qs")
	case "rel", "relstale":
		op.H = rapid.IntRange(0, 3).Draw(t, "h")
		if op.K == "rel" {
			op.G = rapid.IntRange(0, 5).Draw(t, "g") == 3
		}
	case "cancel":
		op.W = rapid.IntRange(0, nw-1).Draw(t, "w")
		op.P = rapid.IntRange(0, 3).Draw(t, "p") == 0
		op.A = rapid.IntRange(0, 19).Draw(t, "a") == 7
	}
	switch op.K {
	case "acq", "try", "multi", "nested", "nestedtry":
		op.DK = rapid.IntRange(0, 4).Draw(t, "dk")
		op.DS = rapid.SampledFrom(dataSizes).Draw(t, "ds")
	}
	op.Y = rapid.Bool().Draw(t, "y")
	return op
}

// genSection draws a short piece of a worker program: either a few arbitrary
// ops or a "critical section" (acquire something, do a little, release it),
// the shape real callers have and the one that produces contention.
func genSection(nq, nw int) *rapid.Generator[[]Op] {
	var qChoices []int
	for i := 0; i < nq; i++ {
		qChoices = append(qChoices, i, i, i, i)
	}
	qChoices = append(qChoices, -1) // nil queue in an AcquireMulti list
	return rapid.Custom(func(t *rapid.T) []Op {
		var ops []Op
		if rapid.IntRange(0, 2).Draw(t, "shape") == 0 {
			n := rapid.IntRange(1, 3).Draw(t, "n")
			for i := 0; i < n; i++ {
				ops = append(ops, genOp(t, "", nq, nw, qChoices))
			}
			return ops
		}
		first := rapid.SampledFrom([]string{"acq", "acq", "acq", "acq", "multi", "multi", "multi", "try", "hog"}).Draw(t, "first")
		if first == "hog" {
			// take several slots of one queue without blocking, keep them for a while: the way to have two or more
			// waiters queued behind two or more active entries (what reqmeta.DataNext distinguishes)
			op := genOp(t, "try", nq, nw, qChoices)
			n := rapid.IntRange(2, 3).Draw(t, "hogn")
			for i := 0; i < n; i++ {
				o := op
				o.DK = rapid.IntRange(0, 4).Draw(t, "dk")
				o.DS = rapid.SampledFrom(dataSizes).Draw(t, "ds")
				ops = append(ops, o)
			}
			ops = append(ops, genOp(t, "cancel", nq, nw, qChoices))
			for i := 0; i < n; i++ {
				ops = append(ops, Op{K: "rel", H: 0})
			}
			return ops
		}
		ops = append(ops, genOp(t, first, nq, nw, qChoices))
		n := rapid.IntRange(0, 2).Draw(t, "inner")
		for i := 0; i < n; i++ {
			kinds := []string{"cancel", "cancel", "cancel", "nested", "nestedtry", "try", "acq", "relstale"}
			if first == "multi" {
				kinds = []string{"cancel", "nested", "nestedtry", "xacq", "xacq", "xtry", "xmulti", "xmulti"}
			}
			k := rapid.SampledFrom(kinds).Draw(t, "ik")
			forceX := false
			if k[0] == 'x' {
				k, forceX = k[1:], true
			}
			o := genOp(t, k, nq, nw, qChoices)
			if forceX {
				o.X = true
			}
			ops = append(ops, o)
		}
		if rapid.IntRange(0, 7).Draw(t, "norel") != 0 { // otherwise the epilogue releases it
			ops = append(ops, genOp(t, "rel", nq, nw, qChoices))
		}
		return ops
	})
}

// genPriorityCase: one reqmeta.Data queue with limit 3..5 and the size-aware priority function, one worker that takes
// all slots without blocking and gives them back one by one, and 3-4 workers queueing with entries of all kinds and
// sizes: the priority function is called with several active and several queued entries.
func genPriorityCase(t *rapid.T, engine string) Case {
	c := Case{Engine: engine, Tmpl: "priority"}
	max := rapid.SampledFrom([]int{3, 3, 4, 5}).Draw(t, "pmax")
	c.Queues = []QueueCfg{{Max: max, Next: rapid.SampledFrom([]string{"data", "data", "data", "last", "big", "neg"}).Draw(t, "pnext")}}
	nw := rapid.IntRange(4, 5).Draw(t, "nw")
	og := rapid.Custom(func(t *rapid.T) Op { return genOp(t, "", 1, nw, []int{0, 0, 0, -1}) })
	var hog []Op
	for i := 0; i < max; i++ {
		hog = append(hog, Op{K: "try", DK: rapid.IntRange(0, 4).Draw(t, "dk"), DS: rapid.SampledFrom(dataSizes).Draw(t, "ds")})
	}
	for i := 0; i < max; i++ {
		if rapid.IntRange(0, 3).Draw(t, "hc") == 1 {
			hog = append(hog, Op{K: "cancel", W: rapid.IntRange(1, nw-1).Draw(t, "w")})
		}
		hog = append(hog, Op{K: "rel", H: rapid.IntRange(0, 3).Draw(t, "h")})
	}
	c.Workers = append(c.Workers, hog)
	for i := 1; i < nw; i++ {
		p := []Op{{K: "acq", DK: rapid.IntRange(0, 4).Draw(t, "dk"), DS: rapid.SampledFrom(dataSizes).Draw(t, "ds")}}
		p = append(p, rapid.SliceOfN(og, 0, 3).Draw(t, "tail")...)
		c.Workers = append(c.Workers, p)
	}
	if engine == "free" {
		c.Procs = rapid.SampledFrom([]int{1, 2, 4, 16}).Draw(t, "procs")
		return c
	}
	// let the hog take its slots first, then interleave freely
	c.Schedule = make([]int, max+1)
	for i := 1; i < nw; i++ {
		c.Schedule = append(c.Schedule, 2, 0) // start waiter i, run it into the queue
	}
	c.Schedule = append(c.Schedule, rapid.SliceOfN(rapid.SampledFrom([]int{0, 0, 1, 2, 3, 4, 5}), 0, 120).Draw(t, "schedule")...)
	return c
}

func gen(t *rapid.T, engine string) Case {
	if tv := rapid.IntRange(0, 11).Draw(t, "template"); tv == 5 {
		return genPriorityCase(t, engine)
	}
	c := Case{Engine: engine}
	// element types: all reqmeta.Data (reghttp/ocidir/blob copy), all struct{} (regsync/regbot), or mixed per queue
	elemMode := rapid.SampledFrom([]int{0, 0, 0, 0, 1, 1, 1, 2, 2}).Draw(t, "elemmode")
	nq := rapid.SampledFrom([]int{1, 1, 2, 2, 2, 3}).Draw(t, "nq")
	for i := 0; i < nq; i++ {
		q := QueueCfg{
			// mostly the small limits that produce contention; 3 = the default of reghttp and ocidir; 0/-1 default to 1
			Max:  rapid.SampledFrom([]int{1, 1, 1, 1, 1, 1, 1, 1, 2, 2, 2, 2, 2, 3, 3, 3, 0, -1, 4, 5, 16, 64}).Draw(t, "max"),
			Next: rapid.SampledFrom([]string{"", "", "", "data", "data", "data", "data", "neg", "big", "last"}).Draw(t, "next"),
		}
		switch elemMode {
		case 1:
			q.Elem = "empty"
		case 2:
			if rapid.Bool().Draw(t, "qelem") {
				q.Elem = "empty"
			}
		}
		if q.Elem == "empty" && q.Next == "data" {
			q.Next = "" // regsync/regbot: default priority function
		}
		q.Nil = rapid.IntRange(0, 23).Draw(t, "nilq") == 11
		c.Queues = append(c.Queues, q)
	}
	nw := rapid.IntRange(2, 5).Draw(t, "nw")
	sg := genSection(nq, nw)
	for i := 0; i < nw; i++ {
		var prog []Op
		for _, sec := range rapid.SliceOfN(sg, 1, 4).Draw(t, "prog") {
			prog = append(prog, sec...)
		}
		if len(prog) > 10 {
			prog = prog[:10]
		}
		c.Workers = append(c.Workers, prog)
	}
	if engine == "free" {
		c.Procs = rapid.SampledFrom([]int{1, 2, 4, 16}).Draw(t, "procs")
		return c
	}
	var cg *rapid.Generator[int]
	switch rapid.IntRange(0, 2).Draw(t, "schedmode") {
	case 0: // switch at every step
		cg = rapid.IntRange(1, 5)
	case 1:
		cg = rapid.SampledFrom([]int{0, 0, 0, 1, 2, 3, 4, 5})
	default: // long runs of one worker
		cg = rapid.SampledFrom([]int{0, 0, 0, 0, 0, 0, 0, 0, 1, 2, 3, 4})
	}
	c.Schedule = rapid.SliceOfN(cg, 0, 200).Draw(t, "schedule")
	return c
}

// ---------------------------------------------------------------- check

// check evaluates one case once per call of the engine (`runs` executions; the
// owned-schedule engine repeats a case only when it met the one residual
// nondeterminism, a select with both channels ready).
func check(c Case, ev *evid.Collector, runs int) *evid.Violation {
	v, inc := checkInc(c, ev, runs)
	if inc != "" {
		// a violation found in the same execution is recorded first, then the shard ends as inconclusive
		ev.Report(v, c)
		inconclusive(inc)
	}
	return v
}

func checkInc(c Case, ev *evid.Collector, runs int) (*evid.Violation, string) {
	if c.Engine == "regsync" {
		return nil, "" // engine 4 lives in cmd/regsync (harness/inpkg/cmd/regsync/verif_c17_test.go, jobs sync / syncreplay)
	}
	if c.Engine == "copy" {
		return checkCopy(c, ev, runs)
	}
	if c.Engine == "layout" {
		return checkLayout(c, ev)
	}
	c.normalise()
	kb, _ := json.Marshal(c)
	key := string(kb)
	labels := map[string]bool{}
	add := func(l string) { labels[l] = true }
	add("engine:" + c.Engine)
	ne, nd := 0, 0
	for _, q := range c.Queues {
		if q.Elem == "empty" {
			ne++
		} else {
			nd++
		}
		switch {
		case q.Nil:
			add("queue:nil")
		case q.Max <= 0:
			add("queue:max<=0-defaults-to-1")
		case q.Max > 3:
			add("queue:max>3")
			if q.Max >= 16 {
				add("queue:max>=16")
			}
		}
		if q.Next != "" && q.Next != "data" {
			add("next:out-of-range-or-custom-fn")
		}
	}
	switch {
	case ne == 0:
		add("elem:reqmeta.Data")
	case nd == 0:
		add("elem:empty-struct")
	default:
		add("elem:mixed")
	}
	add(fmt.Sprintf("queues=%d", len(c.Queues)))
	add(fmt.Sprintf("workers=%d", len(c.Workers)))
	for _, q := range c.Queues {
		if q.Next == "data" {
			add("next:data")
		} else if q.Next == "" {
			add("next:default")
		}
	}
	if c.Tmpl != "" {
		add("template:" + c.Tmpl)
	}
	overlap := staticMultiOverlap(c)
	if overlap {
		add("static:multi-overlapping-sets")
	}
	var viol *evid.Violation
	nontrivial := false

	if c.Engine == "free" {
		old := runtime.GOMAXPROCS(c.Procs)
		defer runtime.GOMAXPROCS(old)
		add(fmt.Sprintf("procs=%d", c.Procs))
		cancelErr := false
		for i := 0; i < runs && viol == nil; i++ {
			res := runFree(c)
			ev.Class("free:executions")
			if res.inconclusive != "" {
				return res.v, res.inconclusive
			}
			for k := range res.events {
				add(k)
			}
			if res.events["res:cancelled-acquire-error"] > 0 {
				cancelErr = true
			}
			viol = res.v
		}
		// a waiter was really cancelled while blocked, or multi-acquires over overlapping sets ran concurrently
		nontrivial = cancelErr || overlap
	} else {
		for i := 0; i < runs && viol == nil; i++ {
			res := runSched(c)
			ev.Class("sched:executions")
			ev.ClassN("sched:steps", res.steps)
			if res.inconclusive != "" {
				return res.v, res.inconclusive
			}
			for k := range res.events {
				add(k)
			}
			for k := range res.flags {
				add(k)
			}
			if res.stepcap {
				add("sched:stepcap-not-judged")
			}
			viol = res.v
			if traceEnv && i < 4 {
				fmt.Fprintf(os.Stderr, "TRACE run %d: %s\n  events=%v flags=%v\n", i, res.trace, res.events, res.flags)
			}
			if !res.flags["ev:wait-both-ready"] && runs <= schedRepeat {
				break // fully deterministic execution: once is enough
			}
		}
		if labels["ev:multi-rollback"] && overlap {
			add("ev:multi-overlap-contention")
		}
		if labels["ev:wait-both-ready"] || labels["ev:ctxdone-race-path"] || labels["ev:cancel-and-release-both-enabled"] {
			add("ev:cancel-races-release")
		}
		nontrivial = labels["ev:cancel-races-release"] || labels["ev:multi-rollback"] || labels["ev:multi-2+queues-blocked"]
	}
	ls := make([]string, 0, len(labels))
	for l := range labels {
		ls = append(ls, l)
	}
	sort.Strings(ls)
	ev.Case(nontrivial, key, ls...)
	ev.Sample(c)
	return viol, ""
}

const (
	schedRepeat = 4  // executions of a case that met a both-ready select
	freeRepeat  = 10 // executions of every free-running case
	replayRuns  = 50 // executions of a saved case
	copyRepeat  = 2  // executions of every copy case
)

func checkCopy(c Case, ev *evid.Collector, runs int) (*evid.Violation, string) {
	if c.Copy == nil {
		c.Copy = &CopyCase{}
	}
	if c.Procs < 1 {
		c.Procs = 4
	}
	old := runtime.GOMAXPROCS(c.Procs)
	defer runtime.GOMAXPROCS(old)
	kb, _ := json.Marshal(c)
	labels := map[string]bool{"engine:copy": true}
	var viol *evid.Violation
	for i := 0; i < runs && viol == nil; i++ {
		res := runCopy(*c.Copy)
		ev.Class("copy:executions")
		if res.inconclusive != "" {
			return res.v, res.inconclusive
		}
		for k := range res.events {
			labels[k] = true
		}
		viol = res.v
	}
	// non-trivial: two or more copies that really share a limited host
	nt := false
	use := map[int]int{}
	nh := len(c.Copy.Hosts)
	for _, j := range c.Copy.Jobs {
		for _, e := range []int{j.Src, j.Tgt} {
			if nh > 0 {
				e = ((e % (nh + 1)) + nh + 1) % (nh + 1)
				if e < nh && c.Copy.Hosts[e].Conc >= 0 && j.Cancel != 1 {
					use[e]++
				}
			}
		}
	}
	for _, n := range use {
		if n >= 2 {
			nt = true
		}
	}
	ls := make([]string, 0, len(labels))
	for l := range labels {
		ls = append(ls, l)
	}
	sort.Strings(ls)
	ev.Case(nt, string(kb), ls...)
	ev.Sample(c)
	return viol, ""
}

// ---------------------------------------------------------------- engine 5: the write throttle of an OCI layout

func genLayout(t *rapid.T) Case {
	lc := &LayoutCase{Limit: rapid.SampledFrom([]int{1, 1, 2, 2, 3, 0}).Draw(t, "limit"), GC: rapid.Bool().Draw(t, "gc"), Paths: rapid.IntRange(1, 2).Draw(t, "paths")}
	n := rapid.IntRange(2, 6).Draw(t, "writers")
	for i := 0; i < n; i++ {
		lc.Writers = append(lc.Writers, rapid.IntRange(0, lc.Paths-1).Draw(t, "wpath"))
	}
	na := rapid.IntRange(2, 16).Draw(t, "nacts")
	for i := 0; i < na; i++ {
		k := rapid.SampledFrom([]string{"start", "start", "start", "close", "close", "finish", "finish", "cancel"}).Draw(t, "akind")
		a := LayoutAct{Kind: k}
		if k == "close" {
			a.W = rapid.IntRange(0, lc.Paths-1).Draw(t, "apath")
		} else {
			a.W = rapid.IntRange(0, n-1).Draw(t, "aw")
		}
		lc.Script = append(lc.Script, a)
	}
	return Case{Engine: "layout", Layout: lc}
}

func checkLayout(c Case, ev *evid.Collector) (*evid.Violation, string) {
	if c.Layout == nil {
		c.Layout = &LayoutCase{}
	}
	kb, _ := json.Marshal(c)
	v, inc, events := runLayout(*c.Layout)
	if inc != "" {
		return v, inc
	}
	labels := []string{"engine:layout", fmt.Sprintf("layout:limit-%d", c.Layout.Limit)}
	for k := range events {
		labels = append(labels, k)
	}
	sort.Strings(labels)
	// non-trivial: a Close arrived while a writer held the path, or the path's throttle was full at some moment
	nt := events["layout:close-while-a-writer-holds-the-path"] || events["layout:path-throttle-was-full"]
	ev.Case(nt, string(kb), labels...)
	ev.Sample(c)
	return v, ""
}

func TestVerifLayout(t *testing.T) {
	ev := evid.For(prop)
	rapid.Check(t, func(rt *rapid.T) {
		c := genLayout(rt)
		v := evid.Guard(func() *evid.Violation { return check(c, ev, 1) })
		if ev.Report(v, c) {
			rt.Fatalf("%v", v)
		}
	})
}

func genCopy(t *rapid.T) Case {
	c := Case{Engine: "copy", Copy: &CopyCase{}}
	nh := rapid.IntRange(1, 3).Draw(t, "nh")
	for i := 0; i < nh; i++ {
		h := CopyHost{Conc: rapid.SampledFrom([]int{1, 1, 1, 2, 2, 3, 0, -1}).Draw(t, "conc")}
		if nh > 1 && rapid.IntRange(0, 3).Draw(t, "hasmirror") == 1 {
			h.Mirrors = rapid.SliceOfN(rapid.IntRange(0, nh-1), 1, 2).Draw(t, "mirrors")
		}
		c.Copy.Hosts = append(c.Copy.Hosts, h)
	}
	nj := rapid.IntRange(2, 8).Draw(t, "nj")
	for i := 0; i < nj; i++ {
		c.Copy.Jobs = append(c.Copy.Jobs, CopyJob{
			Op:     rapid.SampledFrom(copyOps).Draw(t, "op"),
			Src:    rapid.SampledFrom(endpointChoices(nh)).Draw(t, "src"),
			Tgt:    rapid.SampledFrom(endpointChoices(nh)).Draw(t, "tgt"),
			Blob:   rapid.IntRange(0, 2).Draw(t, "blob"),
			Cancel: rapid.SampledFrom([]int{0, 0, 0, 0, 0, 0, 0, 1, 2, 3, 4, 5, 6}).Draw(t, "cancel"),
		})
	}
	c.Copy.Faults = rapid.SliceOfN(rapid.Custom(func(t *rapid.T) CopyFault {
		f := CopyFault{
			Host:  rapid.IntRange(0, nh-1).Draw(t, "fhost"),
			Class: rapid.SampledFrom(copyFaultClasses).Draw(t, "fclass"),
			Nth:   rapid.IntRange(0, 3).Draw(t, "fnth"),
			Times: rapid.SampledFrom([]int{1, 1, 2, 4, -1}).Draw(t, "ftimes"),
			Kind:  rapid.SampledFrom([]string{"status", "status", "status", "reset-before", "reset-after", "truncate", "truncate-clean"}).Draw(t, "fkind"),
		}
		if f.Kind == "status" {
			f.Status = rapid.SampledFrom([]int{500, 500, 502, 504, 429, 408, 503, 400, 403, 404, 416}).Draw(t, "fstatus")
		}
		if f.Kind == "truncate" || f.Kind == "truncate-clean" {
			f.At = rapid.SampledFrom([]int{0, 1, 100, 2999}).Draw(t, "fat")
		}
		return f
	}), 0, 4).Draw(t, "faults")
	c.Procs = rapid.SampledFrom([]int{1, 2, 4, 16}).Draw(t, "procs")
	return c
}

var copyOps = []string{"copy", "copy", "copy", "put-seek", "put-noseek", "put-noseek", "put-badseek", "put-stream", "get-eof", "get-early",
	"get-handoff", "head", "mget", "mhead", "mput", "tags", "referrers", "close-layout"}

var copyFaultClasses = []string{"", "", "upload-put", "upload-put", "upload-post", "upload-patch", "blob-get", "blob-head", "manifest-get",
	"manifest-put", "manifest-head", "tags-list", "referrers"}

// endpointChoices: every registry host three times, the layout once.
func endpointChoices(nh int) []int {
	var l []int
	for i := 0; i < nh; i++ {
		l = append(l, i, i, i)
	}
	return append(l, nh)
}

// ---------------------------------------------------------------- tests

// TestVerifCopy: engine 3 (the throttle as RegClient.BlobCopy, reghttp and ocidir use it).
func TestVerifCopy(t *testing.T) {
	ev := evid.For(prop)
	rapid.Check(t, func(rt *rapid.T) {
		c := genCopy(rt)
		v := evid.Guard(func() *evid.Violation { return check(c, ev, copyRepeat) })
		if ev.Report(v, c) {
			rt.Fatalf("%v", v)
		}
	})
}

// TestVerifProp: engine 1 (owned schedule).
func TestVerifProp(t *testing.T) {
	ev := evid.For(prop)
	rapid.Check(t, func(rt *rapid.T) {
		c := gen(rt, "sched")
		v := evid.Guard(func() *evid.Violation { return check(c, ev, schedRepeat) })
		if ev.Report(v, c) {
			rt.Fatalf("%v", v)
		}
	})
}

// TestVerifFree: engine 2 (free running goroutines).
func TestVerifFree(t *testing.T) {
	ev := evid.For(prop)
	rapid.Check(t, func(rt *rapid.T) {
		c := gen(rt, "free")
		v := evid.Guard(func() *evid.Violation { return check(c, ev, freeRepeat) })
		if ev.Report(v, c) {
			rt.Fatalf("%v", v)
		}
	})
}

func replayRunsFor(c Case) int {
	if c.Engine == "copy" {
		return 30
	}
	if c.Engine == "free" {
		return replayRuns * 40
	}
	return replayRuns
}

func TestVerifReplayDir(t *testing.T) {
	ev := evid.For(prop)
	for _, f := range evid.ReplayFiles() {
		var c Case
		if err := evid.LoadCaseFile(f, &c); err != nil {
			t.Fatalf("%s: %v", f, err)
		}
		v := evid.Guard(func() *evid.Violation { return check(c, ev, replayRunsFor(c)) })
		if ev.Report(v, c) {
			t.Errorf("%s: %v", f, v)
		}
	}
}

func TestVerifReplay(t *testing.T) {
	ev := evid.For(prop)
	var c Case
	ok, err := evid.LoadReplay(&c)
	if !ok {
		t.Skip("no VERIF_REPLAY")
	}
	if err != nil {
		t.Fatal(err)
	}
	v := evid.Guard(func() *evid.Violation { return check(c, ev, replayRunsFor(c)) })
	if ev.Report(v, c) {
		t.Fatalf("%v", v)
	}
}
