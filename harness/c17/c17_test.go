package c17

import (
	"encoding/json"
	"fmt"
	"os"
	"runtime"
	"sort"
	"testing"

	"pgregory.net/rapid"

	"github.com/regclient/regclient/zz_verif/evid"
)

const prop = "C17"

func TestMain(m *testing.M) {
	code := m.Run()
	evid.Flush(code)
	os.Exit(code)
}

// inconclusive ends the shard without a failure record: run.py reports exit 2.
func inconclusive(msg string) {
	fmt.Fprintf(os.Stderr, "INCONCLUSIVE C17: %s\n", msg)
	evid.Flush(3)
	os.Exit(3)
}

// ---------------------------------------------------------------- generator

var opKinds = []string{
	"acq", "acq", "acq", "acq", "acq",
	"try",
	"multi", "multi", "multi",
	"rel", "rel", "rel", "rel", "rel",
	"cancel", "cancel", "cancel",
	"nested", "nestedtry", "relstale",
}

var dataSizes = []int64{0, 1, 1000, 4194304, 4194305, 10 << 20, 95 << 20, 100 << 20}

// genOp draws one op of a given kind ("" = any kind).
func genOp(t *rapid.T, kind string, nq, nw int, qChoices []int) Op {
	op := Op{K: kind}
	if kind == "" {
		op.K = rapid.SampledFrom(opKinds).Draw(t, "k")
	}
	switch op.K {
	case "acq", "try", "nested", "nestedtry":
		op.Q = rapid.IntRange(0, nq-1).Draw(t, "q")
	case "multi":
		min := 1
		if nq > 1 {
			min = 2
		}
		op.Qs = rapid.SliceOfN(rapid.SampledFrom(qChoices), min, 4).Draw(t, "qs")
	case "rel", "relstale":
		op.H = rapid.IntRange(0, 3).Draw(t, "h")
	case "cancel":
		op.W = rapid.IntRange(0, nw-1).Draw(t, "w")
		op.P = rapid.IntRange(0, 3).Draw(t, "p") == 0
	}
	switch op.K {
	case "acq", "try", "multi", "nested", "nestedtry":
		op.DK = rapid.IntRange(0, 4).Draw(t, "dk")
		op.DS = rapid.SampledFrom(dataSizes).Draw(t, "ds")
	}
	op.Y = rapid.Bool().Draw(t, "y")
	return op
}

// genSection draws a short piece of a worker program: either a few arbitrary
// ops or a "critical section" (acquire something, do a little, release it),
// the shape real callers have and the one that produces contention.
func genSection(nq, nw int) *rapid.Generator[[]Op] {
	var qChoices []int
	for i := 0; i < nq; i++ {
		qChoices = append(qChoices, i, i, i, i)
	}
	qChoices = append(qChoices, -1) // nil queue in an AcquireMulti list
	return rapid.Custom(func(t *rapid.T) []Op {
		var ops []Op
		if rapid.IntRange(0, 2).Draw(t, "shape") == 0 {
			n := rapid.IntRange(1, 3).Draw(t, "n")
			for i := 0; i < n; i++ {
				ops = append(ops, genOp(t, "", nq, nw, qChoices))
			}
			return ops
		}
		first := rapid.SampledFrom([]string{"acq", "acq", "acq", "multi", "multi", "try"}).Draw(t, "first")
		ops = append(ops, genOp(t, first, nq, nw, qChoices))
		n := rapid.IntRange(0, 2).Draw(t, "inner")
		for i := 0; i < n; i++ {
			k := rapid.SampledFrom([]string{"cancel", "cancel", "cancel", "nested", "nestedtry", "try", "acq", "relstale"}).Draw(t, "ik")
			ops = append(ops, genOp(t, k, nq, nw, qChoices))
		}
		if rapid.IntRange(0, 7).Draw(t, "norel") != 0 { // otherwise the epilogue releases it
			ops = append(ops, genOp(t, "rel", nq, nw, qChoices))
		}
		return ops
	})
}

func gen(t *rapid.T, engine string) Case {
	c := Case{Engine: engine}
	if rapid.IntRange(0, 2).Draw(t, "elem") == 0 {
		c.Elem = "empty"
	}
	nq := rapid.SampledFrom([]int{1, 1, 2, 2, 2, 3}).Draw(t, "nq")
	for i := 0; i < nq; i++ {
		c.Queues = append(c.Queues, QueueCfg{
			Max:  rapid.SampledFrom([]int{1, 1, 1, 2, 2, 3}).Draw(t, "max"),
			Next: rapid.SampledFrom([]string{"", "data"}).Draw(t, "next"),
		})
	}
	if c.Elem == "empty" {
		for i := range c.Queues {
			c.Queues[i].Next = ""
		}
	}
	nw := rapid.IntRange(2, 5).Draw(t, "nw")
	sg := genSection(nq, nw)
	for i := 0; i < nw; i++ {
		var prog []Op
		for _, sec := range rapid.SliceOfN(sg, 1, 4).Draw(t, "prog") {
			prog = append(prog, sec...)
		}
		if len(prog) > 10 {
			prog = prog[:10]
		}
		c.Workers = append(c.Workers, prog)
	}
	if engine == "free" {
		c.Procs = rapid.SampledFrom([]int{1, 2, 4, 16}).Draw(t, "procs")
		return c
	}
	var cg *rapid.Generator[int]
	switch rapid.IntRange(0, 2).Draw(t, "schedmode") {
	case 0: // switch at every step
		cg = rapid.IntRange(1, 5)
	case 1:
		cg = rapid.SampledFrom([]int{0, 0, 0, 1, 2, 3, 4, 5})
	default: // long runs of one worker
		cg = rapid.SampledFrom([]int{0, 0, 0, 0, 0, 0, 0, 0, 1, 2, 3, 4})
	}
	c.Schedule = rapid.SliceOfN(cg, 0, 200).Draw(t, "schedule")
	return c
}

// ---------------------------------------------------------------- check

// check evaluates one case once per call of the engine (`runs` executions; the
// owned-schedule engine repeats a case only when it met the one residual
// nondeterminism, a select with both channels ready).
func check(c Case, ev *evid.Collector, runs int) *evid.Violation {
	v, inc := checkInc(c, ev, runs)
	if inc != "" {
		// a violation found in the same execution is recorded first, then the shard ends as inconclusive
		ev.Report(v, c)
		inconclusive(inc)
	}
	return v
}

func checkInc(c Case, ev *evid.Collector, runs int) (*evid.Violation, string) {
	c.normalise()
	kb, _ := json.Marshal(c)
	key := string(kb)
	labels := map[string]bool{}
	add := func(l string) { labels[l] = true }
	add("engine:" + c.Engine)
	if c.Elem == "empty" {
		add("elem:empty-struct")
	} else {
		add("elem:reqmeta.Data")
	}
	add(fmt.Sprintf("queues=%d", len(c.Queues)))
	add(fmt.Sprintf("workers=%d", len(c.Workers)))
	for _, q := range c.Queues {
		if q.Next == "data" {
			add("next:data")
		} else {
			add("next:default")
		}
	}
	overlap := staticMultiOverlap(c)
	if overlap {
		add("static:multi-overlapping-sets")
	}
	var viol *evid.Violation
	nontrivial := false

	if c.Engine == "free" {
		old := runtime.GOMAXPROCS(c.Procs)
		defer runtime.GOMAXPROCS(old)
		add(fmt.Sprintf("procs=%d", c.Procs))
		cancelErr := false
		for i := 0; i < runs && viol == nil; i++ {
			res := runFree(c)
			ev.Class("free:executions")
			if res.inconclusive != "" {
				return res.v, res.inconclusive
			}
			for k := range res.events {
				add(k)
			}
			if res.events["res:cancelled-acquire-error"] > 0 {
				cancelErr = true
			}
			viol = res.v
		}
		// a waiter was really cancelled while blocked, or multi-acquires over overlapping sets ran concurrently
		nontrivial = cancelErr || overlap
	} else {
		for i := 0; i < runs && viol == nil; i++ {
			res := runSched(c)
			ev.Class("sched:executions")
			ev.ClassN("sched:steps", res.steps)
			if res.inconclusive != "" {
				return res.v, res.inconclusive
			}
			for k := range res.events {
				add(k)
			}
			for k := range res.flags {
				add(k)
			}
			if res.stepcap {
				add("sched:stepcap-not-judged")
			}
			viol = res.v
			if traceEnv && i < 4 {
				fmt.Fprintf(os.Stderr, "TRACE run %d: %s\n  events=%v flags=%v\n", i, res.trace, res.events, res.flags)
			}
			if !res.flags["ev:wait-both-ready"] && runs <= schedRepeat {
				break // fully deterministic execution: once is enough
			}
		}
		if labels["ev:multi-rollback"] && overlap {
			add("ev:multi-overlap-contention")
		}
		if labels["ev:wait-both-ready"] || labels["ev:ctxdone-race-path"] || labels["ev:cancel-and-release-both-enabled"] {
			add("ev:cancel-races-release")
		}
		nontrivial = labels["ev:cancel-races-release"] || labels["ev:multi-rollback"] || labels["ev:multi-2+queues-blocked"]
	}
	ls := make([]string, 0, len(labels))
	for l := range labels {
		ls = append(ls, l)
	}
	sort.Strings(ls)
	ev.Case(nontrivial, key, ls...)
	ev.Sample(c)
	return viol, ""
}

const (
	schedRepeat = 4  // executions of a case that met a both-ready select
	freeRepeat  = 10 // executions of every free-running case
	replayRuns  = 50 // executions of a saved case
)

// ---------------------------------------------------------------- tests

// TestVerifProp: engine 1 (owned schedule).
func TestVerifProp(t *testing.T) {
	ev := evid.For(prop)
	rapid.Check(t, func(rt *rapid.T) {
		c := gen(rt, "sched")
		v := evid.Guard(func() *evid.Violation { return check(c, ev, schedRepeat) })
		if ev.Report(v, c) {
			rt.Fatalf("%v", v)
		}
	})
}

// TestVerifFree: engine 2 (free running goroutines).
func TestVerifFree(t *testing.T) {
	ev := evid.For(prop)
	rapid.Check(t, func(rt *rapid.T) {
		c := gen(rt, "free")
		v := evid.Guard(func() *evid.Violation { return check(c, ev, freeRepeat) })
		if ev.Report(v, c) {
			rt.Fatalf("%v", v)
		}
	})
}

func replayRunsFor(c Case) int {
	if c.Engine == "free" {
		return replayRuns * 40
	}
	return replayRuns
}

func TestVerifReplayDir(t *testing.T) {
	ev := evid.For(prop)
	for _, f := range evid.ReplayFiles() {
		var c Case
		if err := evid.LoadCaseFile(f, &c); err != nil {
			t.Fatalf("%s: %v", f, err)
		}
		v := evid.Guard(func() *evid.Violation { return check(c, ev, replayRunsFor(c)) })
		if ev.Report(v, c) {
			t.Errorf("%s: %v", f, v)
		}
	}
}

func TestVerifReplay(t *testing.T) {
	ev := evid.For(prop)
	var c Case
	ok, err := evid.LoadReplay(&c)
	if !ok {
		t.Skip("no VERIF_REPLAY")
	}
	if err != nil {
		t.Fatal(err)
	}
	v := evid.Guard(func() *evid.Violation { return check(c, ev, replayRunsFor(c)) })
	if ev.Report(v, c) {
		t.Fatalf("%v", v)
	}
}
