package c17

// sched.go: engine 1, the owned schedule. Exactly one worker goroutine runs at
// any time. A worker parks at every pqueue.VerifHook call and at the harness
// yield points between its operations; the controller resumes one *enabled*
// worker per step, chosen by the Case's schedule. A worker parked right before
// Acquire's blocking select (point "wait") is enabled only when one of the two
// channels of that select is ready, so nothing depends on timing.

import (
	"fmt"
	"os"
	"strings"
	"sync"
	"sync/atomic"
	"time"

	"github.com/regclient/regclient/internal/pqueue"
	"github.com/regclient/regclient/zz_verif/evid"
)

const (
	stepCap = 20000
	// soloCap: one worker taking this many consecutive steps while nobody else moves. Alone, a worker finishes or
	// blocks after a bounded number of yield points (<= 20 ops incl. the epilogue, an AcquireMulti needs at most two
	// rounds because the queue that refused TryAcquire is still full when it then blocks on it), far below this.
	soloCap      = 3000
	stuckTimeout = 60 * time.Second // a resumed worker neither parks nor finishes: infrastructure problem
)

type traceEnt struct {
	w     int
	op    int
	point string
}

type ctl struct {
	r      *run
	cur    *worker
	last   *worker
	parked chan struct{}
	free   atomic.Bool // hooks pass through (drain phase, teardown)
	wg     sync.WaitGroup
	trace  []traceEnt
	steps  int
	solo   int
	flags  map[string]bool
}

type schedResult struct {
	v            *evid.Violation
	inconclusive string
	flags        map[string]bool
	events       map[string]int
	steps        int
	stepcap      bool
	trace        string // only with VERIF_C17_TRACE
}

func ready(ch <-chan struct{}) bool {
	select {
	case <-ch:
		return true
	default:
		return false
	}
}

// park is executed by the (single) running worker: publish where it is, hand
// control back to the controller, wait to be resumed.
func (c *ctl) park(point string, wake, done <-chan struct{}) {
	if c.free.Load() {
		return
	}
	w := c.cur
	switch point {
	case "acquire-ctxdone":
		c.r.event("ev:acquire-ctxdone")
		if w.bothReady {
			c.r.event("ev:both-ready->ctxdone")
		}
		w.bothReady = false
	case "acquire-woken":
		if w.bothReady {
			c.r.event("ev:both-ready->woken")
		}
		w.bothReady = false
	case "acquire-ctxdone-race":
		c.r.event("ev:ctxdone-race-path")
	case "multi-rollback":
		c.r.event("ev:multi-rollback")
	}
	w.point, w.wake, w.done = point, wake, done
	c.parked <- struct{}{}
	<-w.resume
}

func intersects(a, b []int) bool {
	for _, x := range a {
		for _, y := range b {
			if x == y {
				return true
			}
		}
	}
	return false
}

func runSched(cs Case) schedResult {
	r := newRun(cs)
	c := &ctl{r: r, parked: make(chan struct{}, len(r.ws)+2), flags: map[string]bool{}}
	r.yield = func(w *worker, point string, op *Op) { c.park("h:"+point, nil, nil) }
	pqueue.VerifHook = c.park
	defer func() { pqueue.VerifHook = nil }()

	for _, w := range r.ws {
		w := w
		c.wg.Add(1)
		go func() {
			defer c.wg.Done()
			defer func() {
				if p := recover(); p != nil {
					r.violate(panicViolation(w, p))
				}
				w.state.Store(stFinished)
				w.fin = true
				w.point = "finished"
				c.parked <- struct{}{} // buffered: never blocks, also during teardown
			}()
			<-w.resume
			r.interp(w)
		}()
	}

	res := schedResult{flags: c.flags}
	timer := time.NewTimer(stuckTimeout)
	defer timer.Stop()
	var enabled []*worker
	for {
		// ---- which workers are enabled?
		enabled = enabled[:0]
		unfinished := 0
		var cancelPend, relPend []*worker
		waitersOn := map[int]int{}
		for _, w := range r.ws {
			if w.fin {
				continue
			}
			unfinished++
			switch w.point {
			case "wait":
				rw, rd := ready(w.wake), ready(w.done)
				if rw || rd {
					enabled = append(enabled, w)
					if rd && !rw {
						cancelPend = append(cancelPend, w)
					}
				} else {
					c.flags["ev:waiter-blocked"] = true
					if w.curOp == "multi" {
						c.flags["ev:multi-blocked"] = true
						if len(w.curQs) >= 2 {
							c.flags["ev:multi-2+queues-blocked"] = true
						}
					} else if len(w.curQs) == 1 {
						waitersOn[w.curQs[0]]++
						if waitersOn[w.curQs[0]] >= 2 {
							c.flags["ev:2+waiters-one-queue"] = true
						}
					}
				}
			case "acquire-ctxdone":
				cancelPend = append(cancelPend, w)
				enabled = append(enabled, w)
			case "release":
				relPend = append(relPend, w)
				enabled = append(enabled, w)
			default:
				enabled = append(enabled, w)
			}
		}
		for _, a := range cancelPend {
			for _, b := range relPend {
				if a != b && intersects(a.curQs, b.curQs) {
					c.flags["ev:cancel-and-release-both-enabled"] = true
				}
			}
		}
		if len(enabled) == 0 {
			// ---- quiescence: terminal, nothing can change any more
			if unfinished > 0 {
				res.v = c.judgeStuck()
			}
			break
		}
		if c.steps >= stepCap {
			res.stepcap = true
			break
		}
		// ---- choose
		v := 0
		if c.steps < len(cs.Schedule) {
			v = cs.Schedule[c.steps]
			if v < 0 {
				v = -v
			}
		}
		var pick *worker
		if v == 0 {
			pick = enabled[0]
			for _, w := range enabled {
				if w == c.last {
					pick = w
				}
			}
		} else {
			pick = enabled[(v-1)%len(enabled)]
		}
		if pick.point == "wait" && ready(pick.wake) && ready(pick.done) {
			// Go's select picks at random here: residual nondeterminism, recorded in the trace by the next point
			pick.bothReady = true
			c.flags["ev:wait-both-ready"] = true
		}
		c.steps++
		if pick == c.last {
			c.solo++
		} else {
			c.solo = 0
		}
		if c.solo > soloCap {
			res.v = evid.V("worker-spins-without-completing", "w%d took %d consecutive steps inside %s%v while no other worker moved, without completing or blocking\nstate: %s\ntrace: %s",
				pick.id, c.solo, pick.curOp, pick.curQs, r.describe(true), c.traceString())
			break
		}
		c.trace = append(c.trace, traceEnt{pick.id, int(pick.opIdx.Load()), pick.point})
		c.cur, c.last = pick, pick
		timer.Reset(stuckTimeout)
		pick.resume <- struct{}{}
		select {
		case <-c.parked:
		case <-timer.C:
			res.inconclusive = fmt.Sprintf("worker w%d resumed at %q neither parked nor finished within %v\n%s", pick.id, pick.point, stuckTimeout, r.describe(false))
		}
		if res.inconclusive != "" {
			break
		}
		if v := r.violation(); v != nil {
			v.Msg += "\nstate: " + r.describe(true) + "\ntrace: " + c.traceString()
			res.v = v
			break
		}
	}
	res.steps = c.steps

	allFinished := true
	for _, w := range r.ws {
		if !w.fin {
			allFinished = false
		}
	}
	if allFinished {
		c.free.Store(true)
		if res.v == nil && res.inconclusive == "" {
			if v := r.drain(); v != nil {
				v.Msg += "\ntrace: " + c.traceString()
				res.v = v
			}
		}
	} else if !c.teardown() && res.inconclusive == "" {
		res.inconclusive = "teardown: workers did not finish after abort\n" + r.describe(false)
	}
	r.mu.Lock()
	res.events = r.events
	r.mu.Unlock()
	if traceEnv {
		res.trace = c.traceString()
	}
	return res
}

var traceEnv = os.Getenv("VERIF_C17_TRACE") != ""

// judgeStuck is called at quiescence with unfinished workers. Every one of
// them is parked right before Acquire's select with neither channel ready, no
// worker is anywhere else inside pqueue, and the harness holder counts are
// exact (nobody is between a return and its bookkeeping). Programs are deadlock
// free by construction (canBlock), so this state is always a violation; the
// signature tells whether a waiter sits in front of a free slot.
func (c *ctl) judgeStuck() *evid.Violation {
	r := c.r
	var lost []string
	for _, w := range r.ws {
		if w.fin {
			continue
		}
		if w.point != "wait" || w.state.Load() != stBlocking {
			return evid.V("harness-quiescent-not-waiting", "internal: w%d not enabled at %q", w.id, w.point)
		}
		free := len(w.curQs) > 0
		for _, q := range w.curQs {
			if int(r.holders[q].Load()) >= r.max[q] {
				free = false
			}
		}
		if free {
			lost = append(lost, fmt.Sprintf("w%d waits in %s%v", w.id, w.curOp, w.curQs))
		}
	}
	if len(lost) > 0 {
		return evid.V("waiter-stuck-with-free-slot", "no worker can run any more, yet %s although every queue it may wait on has a free slot (lost wake-up / lost slot)\nstate: %s\ntrace: %s",
			strings.Join(lost, "; "), r.describe(true), c.traceString())
	}
	return evid.V("deadlock-all-blocked", "no worker can run any more and every unfinished worker is blocked inside pqueue; programs respect a lock hierarchy, so this cannot be caused by the callers\nstate: %s\ntrace: %s",
		r.describe(true), c.traceString())
}

// teardown lets all parked workers run to their end unscheduled: contexts
// cancelled, hooks pass through, programs skip to their release epilogue.
func (c *ctl) teardown() bool {
	c.r.aborted.Store(true)
	c.free.Store(true)
	for _, w := range c.r.ws {
		w.cancelCur()
	}
	for _, w := range c.r.ws {
		if !w.fin {
			close(w.resume)
		}
	}
	done := make(chan struct{})
	go func() { c.wg.Wait(); close(done) }()
	select {
	case <-done:
		return true
	case <-time.After(20 * time.Second):
		return false
	}
}

func (c *ctl) traceString() string {
	var sb strings.Builder
	t := c.trace
	if len(t) > 300 {
		fmt.Fprintf(&sb, "…(%d earlier steps) ", len(t)-300)
		t = t[len(t)-300:]
	}
	for _, e := range t {
		fmt.Fprintf(&sb, "w%d#%d@%s ", e.w, e.op, e.point)
	}
	return sb.String()
}
