// Package c14 decides C14: copy transfers only what the target lacks.
package c14

import (
	"context"
	"fmt"
	"net/url"
	"os"
	"strings"
	"testing"

	"pgregory.net/rapid"

	"github.com/regclient/regclient/zz_verif/copysc"
	"github.com/regclient/regclient/zz_verif/evid"
	rm "github.com/regclient/regclient/zz_verif/regmodel"
)

const prop = "C14"

func TestMain(m *testing.M) {
	code := m.Run()
	evid.Flush(code)
	os.Exit(code)
}

type Case = copysc.Case

func gen(t *rapid.T) Case {
	o := copysc.DefaultGen()
	o.NoOptions = true // the statement is about default options
	o.Align = true     // "each distinct blob at most once however many parts share it" is a statement about concurrent parts
	// layout<->layout traffic is not observable
	o.Pairings = []string{"same-repo", "same-repo", "same-reg", "same-reg", "same-reg", "two-reg", "two-reg", "reg-layout", "layout-reg"}
	return copysc.Gen(t, o)
}

func check(c Case, ev *evid.Collector) *evid.Violation {
	e, err := copysc.Setup(c)
	if err != nil {
		return &evid.Violation{Sig: "harness-setup", Msg: err.Error()}
	}
	defer e.Close()
	g := c.Graph
	mountPairing := c.Pairing == "same-reg" && c.SrcFeat.MountGrant
	nt := g.HasLabel("shared-blob") || g.HasLabel("duplicate-layer") || g.HasLabel("shared-manifest") || len(c.Pre.Keep) > 0 || mountPairing
	classes := []string{"pairing:" + c.Pairing, "pre:" + c.Pre.Mode}
	classes = append(classes, c.ClientClasses()...)
	if mountPairing {
		classes = append(classes, "mount-granted")
		if c.SrcFeat.MountRefuseFirst > 0 {
			classes = append(classes, "mount-first-requests-declined")
		}
	}
	for _, l := range g.Labels {
		classes = append(classes, "graph:"+l)
	}
	cerr, timedOut := e.Copy(context.Background())
	if timedOut || cerr != nil {
		classes = append(classes, "outcome:copy-error")
		ev.Case(false, "", classes...)
		return nil
	}
	classes = append(classes, "outcome:success")
	ev.Case(nt, g.Shape()+"|"+c.Pairing+"|"+c.Pre.Mode+fmt.Sprint(len(c.Pre.Keep))+fmt.Sprint(c.SrcFeat.MountGrant, c.TgtFeat.AnonMount), classes...)

	log := e.M.Entries()[e.WarmRequests:] // what the copy itself sent (a warm-up of the client comes before)
	srcObservable := e.Src.Kind == "reg"
	tgtObservable := e.Tgt.Kind == "reg"
	isSrc := func(x *rm.Entry) bool { return srcObservable && x.Host == e.Src.Host.Name && x.Repo == e.Src.Repo }
	isTgt := func(x *rm.Entry) bool { return tgtObservable && x.Host == e.Tgt.Host.Name && x.Repo == e.Tgt.Repo }

	srcGets := map[string]int{}     // blob digest -> GETs at the source
	commits := map[string]int{}     // blob digest -> committed uploads at the target
	uploadBytes := map[string]int{} // session id -> body bytes received
	sessDigest := map[string]string{}
	mounted := map[string]bool{}
	declined := map[string]bool{} // blob digest -> a cross-repository mount request for it was declined by the registry
	manifestPuts := 0
	mutating := 0
	var sample []string
	for _, x := range log {
		if x.Mutating() {
			mutating++
		}
		if len(sample) < 40 {
			sample = append(sample, fmt.Sprintf("%s %s %s -> %d", x.Host, x.Method, x.Path, x.Status))
		}
		switch {
		case x.Class == "blob-get" && isSrc(x) && x.Status >= 200 && x.Status < 400:
			srcGets[x.Ref]++
		case x.Class == "storage-get":
			srcGets[x.Ref]++
		case (x.Class == "upload-patch" || x.Class == "upload-put") && isTgt(x):
			id := x.Ref
			if i := strings.IndexByte(id, '/'); i >= 0 {
				id = id[:i]
			}
			uploadBytes[id] += len(x.Body)
			if x.Class == "upload-put" && x.Status == 201 {
				q, _ := url.ParseQuery(x.RawQuery)
				d := q.Get("digest")
				sessDigest[id] = d
				commits[d]++
			}
		case x.Class == "upload-mount" && isTgt(x) && x.Status == 201:
			q, _ := url.ParseQuery(x.RawQuery)
			if q.Get("from") != "" {
				mounted[q.Get("mount")] = true
			}
		case x.Class == "upload-mount" && isTgt(x) && x.Status == 202:
			// a cross-repository mount the registry declined (it opened a session instead): this blob may be transferred
			q, _ := url.ParseQuery(x.RawQuery)
			if q.Get("from") != "" {
				declined[q.Get("mount")] = true
			}
		case x.Class == "manifest-put" && x.Status == 201:
			manifestPuts++
		}
	}
	ev.Sample(map[string]any{"pairing": c.Pairing, "pre": c.Pre.Mode, "pre_keep": len(c.Pre.Keep), "shape": g.Shape(), "requests": sample})

	isBlob := func(d string) bool { _, ok := g.Blobs[d]; return ok }

	// (e) target already holds the identical image under the requested name: nothing is written
	if e.PreTag == e.RootDig && e.PreHas[e.RootDig] {
		if mutating != 0 {
			return evid.V("identical-target-but-writes", "target %s already resolved to the source digest but the copy issued %d state-changing requests: %v", e.TgtRef.CommonName(), mutating, sample)
		}
		return nil
	}
	// (d) retag within one repository
	if c.Pairing == "same-repo" {
		for d, n := range srcGets {
			if n > 0 {
				return evid.V("retag-downloads-blob", "retag in one repository downloaded blob %s", d)
			}
		}
		if len(uploadBytes) > 0 || len(commits) > 0 {
			return evid.V("retag-uploads-blob", "retag in one repository uploaded blobs: %v", sample)
		}
		if manifestPuts != 1 {
			return evid.V("retag-manifest-puts", "retag in one repository wrote %d manifests, want exactly 1: %v", manifestPuts, sample)
		}
		return nil
	}
	// (a) nothing the target repository already held is downloaded from the source
	for d, n := range srcGets {
		if n > 0 && e.PreHas[d] && isBlob(d) {
			return evid.V("downloads-blob-target-has", "blob %s existed in the target repository before the copy but was downloaded from the source %d time(s) (pairing %s)", d, n, c.Pairing)
		}
	}
	// (b) each distinct blob at most once
	for d, n := range srcGets {
		if n > 1 {
			return evid.V("blob-downloaded-twice", "blob %s was downloaded %d times from the source (pairing %s)", d, n, c.Pairing)
		}
	}
	for d, n := range commits {
		if n > 1 {
			return evid.V("blob-uploaded-twice", "blob %s was uploaded %d times to the target (pairing %s)", d, n, c.Pairing)
		}
		if e.PreHas[d] {
			return evid.V("uploads-blob-target-has", "blob %s existed in the target repository before the copy but was uploaded again", d)
		}
	}
	// (c) same registry and mount granted: mount instead of transfer
	if mountPairing {
		// a blob may only be transferred when the registry declined a mount request for that very blob
		// (the registry grants every mount but the first MountRefuseFirst requests)
		for d := range srcGets {
			if isBlob(d) && !declined[d] {
				return evid.V("mount-granted-but-downloaded", "same registry with mount granted, but blob %s was downloaded from the source (no mount request for it was declined; the registry declines the first %d mount requests)", d, c.SrcFeat.MountRefuseFirst)
			}
		}
		for id, n := range uploadBytes {
			if n > 0 && !declined[sessDigest[id]] {
				return evid.V("mount-granted-but-uploaded", "same registry with mount granted, but %d bytes were uploaded in session %s (digest %s; no mount request for it was declined; the registry declines the first %d mount requests)", n, id, sessDigest[id], c.SrcFeat.MountRefuseFirst)
			}
		}
		// every blob the target lacked and now has arrived by mount, unless its mount was declined
		tr := e.Tgt.Host.Repos[e.Tgt.Repo]
		for d := range g.Blobs {
			if _, now := tr.Blobs[d]; now && !e.PreHas[d] && !mounted[d] && !declined[d] {
				return evid.V("mount-granted-but-not-mounted", "blob %s appeared at the target without a granted mount", d)
			}
		}
	}
	return nil
}

func TestVerifProp(t *testing.T) {
	ev := evid.For(prop)
	rapid.Check(t, func(rt *rapid.T) {
		c := gen(rt)
		v := evid.Guard(func() *evid.Violation { return check(c, ev) })
		if ev.Report(v, c) {
			rt.Fatalf("%v", v)
		}
	})
}

func TestVerifReplayDir(t *testing.T) {
	ev := evid.For(prop)
	for _, f := range evid.ReplayFiles() {
		var c Case
		if err := evid.LoadCaseFile(f, &c); err != nil {
			t.Fatalf("%s: %v", f, err)
		}
		v := evid.Guard(func() *evid.Violation { return check(c, ev) })
		if ev.Report(v, c) {
			t.Errorf("%s: %v", f, v)
		}
	}
}

func TestVerifReplay(t *testing.T) {
	ev := evid.For(prop)
	var c Case
	ok, err := evid.LoadReplay(&c)
	if !ok {
		t.Skip("no VERIF_REPLAY")
	}
	if err != nil {
		t.Fatal(err)
	}
	for i := 0; i < 20; i++ {
		v := evid.Guard(func() *evid.Violation { return check(c, ev) })
		if ev.Report(v, c) {
			t.Fatalf("%v", v)
		}
	}
}
