// Package evid is the evidence collector and failure recorder shared by every
// check. One process = one shard; the driver (run.py) merges shards.
//
// Environment (set by run.py):
//
//	VERIF_OUT    directory for evid-<shard>.json, nt-<shard>.bin, fail-*.json
//	VERIF_SHARD  shard label
//	VERIF_KNOWN  path of known_findings.jsonl
//	VERIF_TIER   quick | thorough
//	VERIF_REPLAY path of a saved case (replay tests)
package evid

import (
	"encoding/binary"
	"encoding/json"
	"fmt"
	"hash/fnv"
	"os"
	"path/filepath"
	"runtime/debug"
	"sort"
	"strings"
	"sync"
	"time"
)

// Violation is what a check returns when the property is broken.
type Violation struct {
	Sig string // specific signature (key into known_findings.jsonl)
	Msg string
}

func (v *Violation) Error() string { return v.Sig + ": " + v.Msg }

// V builds a violation.
func V(sig, format string, a ...any) *Violation {
	return &Violation{Sig: sig, Msg: fmt.Sprintf(format, a...)}
}

const maxNT = 3_000_000

type Collector struct {
	mu         sync.Mutex
	Prop       string
	evals      int
	nt         map[uint64]struct{}
	ntOverflow int
	classes    map[string]int
	samples    []json.RawMessage
	sampleCap  int
	knownHits  map[string]int
	fails      int
	extra      map[string]any
	start      time.Time
	known      map[string]string // sig -> what (status known only)
}

var (
	global     *Collector
	globalOnce sync.Once
)

// For returns the process-wide collector for a property.
func For(prop string) *Collector {
	globalOnce.Do(func() {
		global = &Collector{
			Prop:      prop,
			nt:        map[uint64]struct{}{},
			classes:   map[string]int{},
			knownHits: map[string]int{},
			extra:     map[string]any{},
			sampleCap: 6,
			start:     time.Now(),
			known:     loadKnown(prop),
		}
	})
	return global
}

func loadKnown(prop string) map[string]string {
	out := map[string]string{}
	p := os.Getenv("VERIF_KNOWN")
	if p == "" {
		return out
	}
	b, err := os.ReadFile(p)
	if err != nil {
		return out
	}
	for _, line := range strings.Split(string(b), "\n") {
		line = strings.TrimSpace(line)
		if line == "" {
			continue
		}
		var r struct {
			Property string `json:"property"`
			Key      string `json:"key"`
			Status   string `json:"status"`
			What     string `json:"what"`
		}
		if json.Unmarshal([]byte(line), &r) != nil {
			continue
		}
		if r.Property == prop && r.Status == "known" {
			out[r.Key] = r.What
		}
	}
	return out
}

// Hash64 hashes a string key.
func Hash64(s string) uint64 {
	h := fnv.New64a()
	h.Write([]byte(s))
	return h.Sum64()
}

// Case records one evaluation. ntKey identifies the case for distinctness
// (ignored when nontrivial is false); classes are histogram labels.
func (c *Collector) Case(nontrivial bool, ntKey string, classes ...string) {
	c.mu.Lock()
	defer c.mu.Unlock()
	c.evals++
	if nontrivial {
		h := Hash64(ntKey)
		if _, ok := c.nt[h]; !ok {
			if len(c.nt) < maxNT {
				c.nt[h] = struct{}{}
			} else {
				c.ntOverflow++
			}
		}
		c.classes["nontrivial"]++
	}
	for _, cl := range classes {
		if cl != "" {
			c.classes[cl]++
		}
	}
}

// Class bumps a histogram label without counting an evaluation.
func (c *Collector) Class(cl string) {
	c.mu.Lock()
	c.classes[cl]++
	c.mu.Unlock()
}

// ClassN adds n to a histogram label.
func (c *Collector) ClassN(cl string, n int) {
	c.mu.Lock()
	c.classes[cl] += n
	c.mu.Unlock()
}

// Evals returns the evaluation count so far.
func (c *Collector) Evals() int {
	c.mu.Lock()
	defer c.mu.Unlock()
	return c.evals
}

// Sample stores a written-out case: the first few, then one per power of two.
func (c *Collector) Sample(v any) {
	c.mu.Lock()
	defer c.mu.Unlock()
	n := c.evals
	if len(c.samples) >= c.sampleCap && (n&(n-1)) != 0 {
		return
	}
	b, err := json.Marshal(v)
	if err != nil {
		return
	}
	if len(b) > 6000 {
		b, _ = json.Marshal(string(b[:6000]) + "…(truncated)")
	}
	if len(c.samples) < c.sampleCap {
		c.samples = append(c.samples, b)
	} else {
		// keep first 3, rotate the rest
		idx := 3 + (n % (c.sampleCap - 3))
		c.samples[idx] = b
	}
}

// Set stores an extra coverage key (exhaustive, sub-space sizes, ...).
func (c *Collector) Set(k string, v any) {
	c.mu.Lock()
	c.extra[k] = v
	c.mu.Unlock()
}

// Add adds to a numeric extra key.
func (c *Collector) Add(k string, n int) {
	c.mu.Lock()
	cur, _ := c.extra[k].(int)
	c.extra[k] = cur + n
	c.mu.Unlock()
}

// Report handles a violation returned by a check. It returns true when the
// caller must fail the test (unknown signature). A known signature is counted
// and the caller continues (the search goes on behind the known defect).
// Every unknown failure is written to VERIF_OUT at once (before shrinking).
func (c *Collector) Report(v *Violation, cs any) bool {
	if v == nil {
		return false
	}
	c.mu.Lock()
	if _, ok := c.known[v.Sig]; ok {
		c.knownHits[v.Sig]++
		c.mu.Unlock()
		return false
	}
	c.fails++
	n := c.fails
	c.mu.Unlock()
	out := os.Getenv("VERIF_OUT")
	if out != "" && n <= 400 {
		// "job" names the job of the check that produced the case (shard label without its index), so that
		// `run.py --replay` can pick the package of that job when a check has engines in several packages
		job := shard()
		if i := strings.LastIndexByte(job, '-'); i > 0 {
			job = job[:i]
		}
		rec := map[string]any{"property": c.Prop, "sig": v.Sig, "msg": v.Msg, "case": cs, "job": job}
		b, err := json.MarshalIndent(rec, "", " ")
		if err == nil {
			name := fmt.Sprintf("fail-%s-%05d.json", shard(), n)
			_ = os.WriteFile(filepath.Join(out, name), b, 0o644)
		}
	}
	return true
}

// Guard runs a check and converts a panic into a violation.
func Guard(f func() *Violation) (v *Violation) {
	defer func() {
		if r := recover(); r != nil {
			st := string(debug.Stack())
			if len(st) > 4000 {
				st = st[:4000]
			}
			v = &Violation{Sig: "panic", Msg: fmt.Sprintf("panic: %v\n%s", r, st)}
		}
	}()
	return f()
}

// IsKnown tells whether a signature is listed as a known finding.
func (c *Collector) IsKnown(sig string) bool {
	c.mu.Lock()
	defer c.mu.Unlock()
	_, ok := c.known[sig]
	return ok
}

func shard() string {
	s := os.Getenv("VERIF_SHARD")
	if s == "" {
		s = "0"
	}
	for _, a := range os.Args {
		if strings.HasPrefix(a, "-test.fuzzworker") {
			return fmt.Sprintf("%s.w%d", s, os.Getpid())
		}
	}
	return s
}

// Tier returns quick or thorough.
func Tier() string {
	if os.Getenv("VERIF_TIER") == "thorough" {
		return "thorough"
	}
	return "quick"
}

// Flush writes the shard's evidence. Call from TestMain after m.Run.
func Flush(exitCode int) {
	c := global
	if c == nil {
		return
	}
	out := os.Getenv("VERIF_OUT")
	if out == "" {
		return
	}
	c.mu.Lock()
	defer c.mu.Unlock()
	// nt hashes as a binary file
	hs := make([]uint64, 0, len(c.nt))
	for h := range c.nt {
		hs = append(hs, h)
	}
	sort.Slice(hs, func(i, j int) bool { return hs[i] < hs[j] })
	buf := make([]byte, 8*len(hs))
	for i, h := range hs {
		binary.LittleEndian.PutUint64(buf[8*i:], h)
	}
	_ = os.WriteFile(filepath.Join(out, "nt-"+shard()+".bin"), buf, 0o644)
	rec := map[string]any{
		"property":    c.Prop,
		"shard":       shard(),
		"evaluations": c.evals,
		"nt_count":    len(c.nt),
		"nt_overflow": c.ntOverflow,
		"classes":     c.classes,
		"samples":     c.samples,
		"known_hits":  c.knownHits,
		"fails":       c.fails,
		"extra":       c.extra,
		"exit_code":   exitCode,
		"wall_s":      time.Since(c.start).Seconds(),
	}
	b, _ := json.MarshalIndent(rec, "", " ")
	_ = os.WriteFile(filepath.Join(out, "evid-"+shard()+".json"), b, 0o644)
}

// LoadReplay reads VERIF_REPLAY into v (accepts either a bare case or a
// failure record with a "case" field).
func LoadReplay(v any) (bool, error) {
	p := os.Getenv("VERIF_REPLAY")
	if p == "" {
		return false, nil
	}
	b, err := os.ReadFile(p)
	if err != nil {
		return true, err
	}
	var rec struct {
		Case json.RawMessage `json:"case"`
	}
	if json.Unmarshal(b, &rec) == nil && len(rec.Case) > 0 {
		return true, json.Unmarshal(rec.Case, v)
	}
	return true, json.Unmarshal(b, v)
}

// ReplayFiles lists the saved cases of VERIF_REPLAY_DIR (the committed replay
// tier), sorted.
func ReplayFiles() []string {
	d := os.Getenv("VERIF_REPLAY_DIR")
	if d == "" {
		return nil
	}
	m, _ := filepath.Glob(filepath.Join(d, "*.json"))
	sort.Strings(m)
	return m
}

// LoadCaseFile reads one saved case file into v.
func LoadCaseFile(p string, v any) error {
	b, err := os.ReadFile(p)
	if err != nil {
		return err
	}
	var rec struct {
		Case json.RawMessage `json:"case"`
	}
	if json.Unmarshal(b, &rec) == nil && len(rec.Case) > 0 {
		return json.Unmarshal(rec.Case, v)
	}
	return json.Unmarshal(b, v)
}
