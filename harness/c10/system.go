package c10

// The systems under which histories run: a model registry with / without the
// referrers API (paged, server-side filtering) and an OCI layout directory.
// Set-up and every raw observation bypass regclient.

import (
	"encoding/json"
	"fmt"
	"net/http"
	"os"
	"path/filepath"
	"sort"
	"strings"
	"sync"
	"time"

	"github.com/regclient/regclient"
	"github.com/regclient/regclient/config"
	"github.com/regclient/regclient/scheme/reg"
	"github.com/regclient/regclient/types/ref"
	"github.com/regclient/regclient/zz_verif/audit"
	"github.com/regclient/regclient/zz_verif/rcutil"
	rm "github.com/regclient/regclient/zz_verif/regmodel"
)

// Sys is the configuration part of a case.
type Sys struct {
	Kind         string `json:"kind"`           // reg-api | reg-fallback | ocidir
	PageSize     int    `json:"page_size"`      // reg-api: referrers API page size (0 = unpaged)
	ServerFilter bool   `json:"server_filter"`  // reg-api: server applies the artifactType filter
	Cache        bool   `json:"cache"`          // reg.WithCache on the client under test
	CacheCount   int    `json:"cache_count"`    // cache entry limit
	TagDelete    bool   `json:"tag_delete"`     // registry supports DELETE by tag
	HeadNoDigest bool   `json:"head_no_digest"` // manifest HEAD without Docker-Content-Digest
	Sha512Absent bool   `json:"sha512_absent"`  // the subject that does not exist has a sha512 digest
	// dimensions added by the generator-domain audit (zero values = the original behaviour)
	External      bool `json:"external,omitempty"`       // artifacts live in a separate repository / layout; lists use WithReferrerSource
	LinkAbs       bool `json:"link_abs,omitempty"`       // reg-api paging: the Link header carries an absolute URL
	CacheShort    bool `json:"cache_short,omitempty"`    // cache entries expire after 1ms (expiry / prune paths)
	ReqConcurrent int  `json:"req_concurrent,omitempty"` // config.Host.ReqConcurrent of the client under test (0 = default)
}

type env struct {
	sys    Sys
	m      *rm.Model
	h      *rm.Host
	dir    string // layout directory of the subjects (base image, multi-platform index)
	artDir string // layout directory the artifacts are pushed to (== dir unless External)
	srcDir string // source layout holding every pool artifact tagged (only when some artifact is pushed from a fetched object)
	tmp    string
	main   *regclient.RegClient
	// arm: called (without the model lock) on every request arrival while set; used to cancel a context mid-operation
	hookMu sync.Mutex
	hook   func()
}

// artRepo is the repository artifacts are pushed to.
func (e *env) artRepo() string {
	if e.sys.External {
		return extRepo
	}
	return repoName
}

// linkAbs rewrites a path-only Link target into an absolute URL (registries differ in which form they send).
type linkAbs struct{ rt http.RoundTripper }

func (l linkAbs) RoundTrip(req *http.Request) (*http.Response, error) {
	resp, err := l.rt.RoundTrip(req)
	if err == nil && resp != nil {
		if v := resp.Header.Get("Link"); strings.HasPrefix(v, "</") {
			resp.Header.Set("Link", "<"+req.URL.Scheme+"://"+req.URL.Host+v[1:])
		}
	}
	return resp, err
}

func initLayout(dir string, blobs [][]byte, index string) error {
	if err := os.MkdirAll(filepath.Join(dir, "blobs", "sha256"), 0o755); err != nil {
		return err
	}
	if err := os.WriteFile(filepath.Join(dir, "oci-layout"), []byte(`{"imageLayoutVersion":"1.0.0"}`), 0o644); err != nil {
		return err
	}
	for _, b := range blobs {
		if err := writeBlobFile(dir, b); err != nil {
			return err
		}
	}
	return os.WriteFile(filepath.Join(dir, "index.json"), []byte(index), 0o644)
}

func (e *env) isReg() bool { return e.sys.Kind != "ocidir" }

func writeBlobFile(dir string, b []byte) error {
	d := rm.Digest("sha256", b)
	p := filepath.Join(dir, "blobs", "sha256", d[len("sha256:"):])
	return os.WriteFile(p, b, 0o644)
}

const (
	aRefName = "org.opencontainers.image.ref.name"
	aSrcNote = "org.example.index-entry-note"
)

// buildSource writes a source layout that holds every pool artifact, each tagged "src<i>" by an index entry that
// also carries another annotation (what a manifest read from there has on its DESCRIPTOR, not in its body).
func (e *env) buildSource(u *universe) error {
	if e.tmp == "" {
		tmp, err := os.MkdirTemp("", "c10")
		if err != nil {
			return err
		}
		e.tmp = tmp
	}
	e.srcDir = filepath.Join(e.tmp, "source")
	entries := []string{}
	for _, alg := range []string{"sha256", "sha512"} {
		if err := os.MkdirAll(filepath.Join(e.srcDir, "blobs", alg), 0o755); err != nil {
			return err
		}
	}
	for _, a := range u.arts {
		alg, hx, _ := cut(a.objDigest)
		if err := os.WriteFile(filepath.Join(e.srcDir, "blobs", alg, hx), a.body, 0o644); err != nil {
			return err
		}
		entries = append(entries, descJSON(a.mediaType, a.objDigest, len(a.body),
			fmt.Sprintf(`,"annotations":{%s:%s,%s:"from the source index"}`, jstr(aRefName), jstr(fmt.Sprintf("src%d", a.idx)), jstr(aSrcNote))))
	}
	if err := os.WriteFile(filepath.Join(e.srcDir, "oci-layout"), []byte(`{"imageLayoutVersion":"1.0.0"}`), 0o644); err != nil {
		return err
	}
	idx := fmt.Sprintf(`{"schemaVersion":2,"mediaType":%s,"manifests":[%s]}`, jstr(rm.MTOCIIndex), strings.Join(entries, ","))
	return os.WriteFile(filepath.Join(e.srcDir, "index.json"), []byte(idx), 0o644)
}

func setup(sys Sys) (*env, error) {
	e := &env{sys: sys}
	blobs := [][]byte{baseConfig, baseLayer, emptyJSON}
	blobs = append(blobs, payloads...)
	refName := func(t string) string { return `,"annotations":{"org.opencontainers.image.ref.name":"` + t + `"}` }
	if sys.Kind == "ocidir" {
		tmp, err := os.MkdirTemp("", "c10")
		if err != nil {
			return nil, err
		}
		e.tmp = tmp
		e.dir = filepath.Join(tmp, "layout")
		e.artDir = e.dir
		idx := fmt.Sprintf(`{"schemaVersion":2,"mediaType":%s,"manifests":[%s,%s,%s]}`, jstr(rm.MTOCIIndex),
			descJSON(rm.MTOCIManifest, baseDigest, len(baseManifest), refName(baseTag)),
			descJSON(rm.MTOCIManifest, baseDigest, len(baseManifest), refName(latestTag)),
			descJSON(rm.MTOCIIndex, multiDigest, len(multiIndex), refName(multiTag)))
		if err := initLayout(e.dir, append(append([][]byte{}, blobs...), baseManifest, armManifest, multiIndex), idx); err != nil {
			return nil, err
		}
		if sys.External {
			e.artDir = filepath.Join(tmp, "refs")
			empty := fmt.Sprintf(`{"schemaVersion":2,"mediaType":%s,"manifests":[]}`, jstr(rm.MTOCIIndex))
			if err := initLayout(e.artDir, blobs, empty); err != nil {
				return nil, err
			}
		}
	} else {
		e.m = rm.New()
		e.m.Cap = 40000
		e.m.OnArrive = func(*rm.Entry) {
			e.hookMu.Lock()
			f := e.hook
			e.hookMu.Unlock()
			if f != nil {
				f()
			}
		}
		e.h = e.m.AddHost(hostName)
		e.h.Feat = rm.Features{
			TagDelete:    sys.TagDelete,
			HeadNoDigest: sys.HeadNoDigest,
		}
		if sys.Kind == "reg-api" {
			e.h.Feat.Referrers = true
			e.h.Feat.ReferrersPage = sys.PageSize
			e.h.Feat.ReferrersFilter = sys.ServerFilter
		}
		r := e.h.Repo(repoName)
		ar := e.h.Repo(e.artRepo())
		for _, b := range blobs {
			r.Blobs[rm.Digest("sha256", b)] = b
			ar.Blobs[rm.Digest("sha256", b)] = b
		}
		r.Manifests[baseDigest] = &rm.Manifest{MediaType: rm.MTOCIManifest, Body: baseManifest}
		r.Manifests[armDigest] = &rm.Manifest{MediaType: rm.MTOCIManifest, Body: armManifest}
		r.Manifests[multiDigest] = &rm.Manifest{MediaType: rm.MTOCIIndex, Body: multiIndex}
		r.Tags[baseTag] = baseDigest
		r.Tags[latestTag] = baseDigest
		r.Tags[multiTag] = multiDigest
	}
	e.main = e.newClient(true)
	return e, nil
}

func (e *env) close() {
	if e.tmp != "" {
		os.RemoveAll(e.tmp)
	}
}

// newClient builds a client; the client under test honours the cache setting,
// observers never cache.
func (e *env) newClient(underTest bool) *regclient.RegClient {
	if !e.isReg() {
		return regclient.New()
	}
	conf := rcutil.Conf{}
	if underTest && e.sys.Cache {
		n := e.sys.CacheCount
		if n <= 0 {
			n = 1
		}
		// the timeout is beyond any case's run time (watchdog 120 s); an expiry would only turn a cache hit into a
		// miss, which a correct client answers identically, so it cannot create a false alarm (the same argument
		// makes the 1ms variant sound: whichever entries have expired, the answers must be right)
		to := 3 * time.Minute
		if e.sys.CacheShort {
			to = time.Millisecond
		}
		conf.RegOpts = append(conf.RegOpts, reg.WithCache(to, n))
	}
	if e.sys.LinkAbs {
		conf.RegOpts = append(conf.RegOpts, reg.WithHTTPClient(&http.Client{Transport: linkAbs{e.m}}))
	}
	if underTest && e.sys.ReqConcurrent > 0 {
		h := *config.HostNewName(hostName)
		h.ReqConcurrent = int64(e.sys.ReqConcurrent)
		conf.Hosts = []config.Host{h}
	}
	return rcutil.New(e.m, conf)
}

// refName builds a reference in the subjects' repository (art=false) or in the artifacts' repository (art=true);
// suffix is ":tag", "@digest", ":tag@digest" or "" (default tag).
func (e *env) refName(art bool, suffix string) (ref.Ref, error) {
	if e.isReg() {
		repo := repoName
		if art {
			repo = e.artRepo()
		}
		return ref.New(hostName + "/" + repo + suffix)
	}
	dir := e.dir
	if art {
		dir = e.artDir
	}
	return ref.New("ocidir://" + dir + suffix)
}

// refTag / refDigest address artifacts (pushes, deletes).
func (e *env) refTag(tag string) (ref.Ref, error)  { return e.refName(true, ":"+tag) }
func (e *env) refDigest(d string) (ref.Ref, error) { return e.refName(true, "@"+d) }

// raw is a consistent snapshot of what the oracle needs from raw storage.
type rawEntry struct {
	Type  string
	Annot map[string]string
}

type rawSubject struct {
	referrers map[string]rawEntry // stored manifests whose subject is this digest
	hasTag    bool                // a fallback tag exists
	tagErr    string              // the tag exists but is not a readable index
	tagList   []string            // digests listed by the fallback index (document order)
}

type rawState struct {
	stored map[string]bool // pool artifacts present in storage (by digest)
	subj   [3]rawSubject
}

func (e *env) view() audit.View {
	if e.isReg() {
		return audit.RepoView{R: e.h.Repos[e.artRepo()]}
	}
	return audit.OpenLayout(e.artDir)
}

// rawTag resolves a tag of the artifacts' repository from raw storage ("" if absent).
func (e *env) rawTag(tag string) string {
	if e.isReg() {
		e.m.Lock()
		defer e.m.Unlock()
	}
	d, _ := e.view().Tag(tag)
	return d
}

// snapshot reads raw storage (model maps under the model lock, or plain files).
func (e *env) snapshot(u *universe) rawState {
	if e.isReg() {
		e.m.Lock()
		defer e.m.Unlock()
	}
	v := e.view()
	st := rawState{stored: map[string]bool{}}
	for _, a := range u.arts {
		if _, _, ok := v.Get(a.digest); ok {
			st.stored[a.digest] = true
		}
	}
	tags := v.Tags()
	for i, s := range u.subjects {
		rs := rawSubject{referrers: map[string]rawEntry{}}
		for _, d := range audit.RawReferrers(v, s) {
			at, _ := d["artifactType"].(string)
			ann, _ := d["annotations"].(map[string]string)
			rs.referrers[d["digest"].(string)] = rawEntry{Type: at, Annot: ann}
		}
		for _, t := range tags {
			if !fallbackTagMatches(t, s) {
				continue
			}
			rs.hasTag = true
			fd, _ := v.Tag(t)
			body, _, ok := v.Get(fd)
			if !ok {
				rs.tagErr = fmt.Sprintf("fallback tag %s points at %s which is not stored", t, fd)
				break
			}
			var idx struct {
				Manifests []struct {
					Digest string `json:"digest"`
				} `json:"manifests"`
			}
			if err := json.Unmarshal(body, &idx); err != nil {
				rs.tagErr = fmt.Sprintf("fallback tag %s: index %s does not parse: %v", t, fd, err)
				break
			}
			for _, md := range idx.Manifests {
				rs.tagList = append(rs.tagList, md.Digest)
			}
			break
		}
		st.subj[i] = rs
	}
	return st
}

// repairFallback rewrites the fallback tags of a no-API registry from the
// stored manifests (what a correct client would have left). Only used to keep
// searching behind a known, recorded defect.
func (e *env) repairFallback(u *universe) {
	if e.sys.Kind != "reg-fallback" {
		return
	}
	e.m.Lock()
	defer e.m.Unlock()
	r := e.h.Repo(e.artRepo())
	for _, s := range u.subjects {
		for _, t := range sortedTags(r) {
			if fallbackTagMatches(t, s) {
				delete(r.Tags, t)
			}
		}
		descs := rm.ReferrerDescs(r, s)
		if len(descs) == 0 {
			continue
		}
		body, _ := json.Marshal(map[string]any{"schemaVersion": 2, "mediaType": rm.MTOCIIndex, "manifests": descs})
		d := rm.Digest("sha256", body)
		r.Manifests[d] = &rm.Manifest{MediaType: rm.MTOCIIndex, Body: body}
		alg, hx, _ := cut(s)
		if len(hx) > 64 {
			hx = hx[:64]
		}
		r.Tags[alg+"-"+hx] = d
	}
}

func cut(d string) (string, string, bool) {
	for i := 0; i < len(d); i++ {
		if d[i] == ':' {
			return d[:i], d[i+1:], true
		}
	}
	return d, "", false
}

func sortedTags(r *rm.Repo) []string {
	out := make([]string, 0, len(r.Tags))
	for t := range r.Tags {
		out = append(out, t)
	}
	sort.Strings(out)
	return out
}

func (e *env) setDelays(plan []int) {
	if !e.isReg() {
		return
	}
	e.m.Lock()
	e.h.Delays = nil
	for _, us := range plan {
		e.h.Delays = append(e.h.Delays, time.Duration(us)*time.Microsecond)
	}
	e.m.Unlock()
}
