package c10

// The systems under which histories run: a model registry with / without the
// referrers API (paged, server-side filtering) and an OCI layout directory.
// Set-up and every raw observation bypass regclient.

import (
	"encoding/json"
	"fmt"
	"os"
	"path/filepath"
	"sort"
	"time"

	"github.com/regclient/regclient"
	"github.com/regclient/regclient/scheme/reg"
	"github.com/regclient/regclient/types/ref"
	"github.com/regclient/regclient/zz_verif/audit"
	"github.com/regclient/regclient/zz_verif/rcutil"
	rm "github.com/regclient/regclient/zz_verif/regmodel"
)

// Sys is the configuration part of a case.
type Sys struct {
	Kind         string `json:"kind"`           // reg-api | reg-fallback | ocidir
	PageSize     int    `json:"page_size"`      // reg-api: referrers API page size (0 = unpaged)
	ServerFilter bool   `json:"server_filter"`  // reg-api: server applies the artifactType filter
	Cache        bool   `json:"cache"`          // reg.WithCache on the client under test
	CacheCount   int    `json:"cache_count"`    // cache entry limit
	TagDelete    bool   `json:"tag_delete"`     // registry supports DELETE by tag
	HeadNoDigest bool   `json:"head_no_digest"` // manifest HEAD without Docker-Content-Digest
	Sha512Absent bool   `json:"sha512_absent"`  // the subject that does not exist has a sha512 digest
}

type env struct {
	sys  Sys
	m    *rm.Model
	h    *rm.Host
	dir  string // layout directory
	tmp  string
	main *regclient.RegClient
}

func (e *env) isReg() bool { return e.sys.Kind != "ocidir" }

func writeBlobFile(dir string, b []byte) error {
	d := rm.Digest("sha256", b)
	p := filepath.Join(dir, "blobs", "sha256", d[len("sha256:"):])
	return os.WriteFile(p, b, 0o644)
}

func setup(sys Sys) (*env, error) {
	e := &env{sys: sys}
	blobs := [][]byte{baseConfig, baseLayer, emptyJSON}
	blobs = append(blobs, payloads...)
	if sys.Kind == "ocidir" {
		tmp, err := os.MkdirTemp("", "c10")
		if err != nil {
			return nil, err
		}
		e.tmp = tmp
		e.dir = filepath.Join(tmp, "layout")
		if err := os.MkdirAll(filepath.Join(e.dir, "blobs", "sha256"), 0o755); err != nil {
			return nil, err
		}
		if err := os.WriteFile(filepath.Join(e.dir, "oci-layout"), []byte(`{"imageLayoutVersion":"1.0.0"}`), 0o644); err != nil {
			return nil, err
		}
		for _, b := range append(blobs, baseManifest) {
			if err := writeBlobFile(e.dir, b); err != nil {
				return nil, err
			}
		}
		idx := fmt.Sprintf(`{"schemaVersion":2,"mediaType":%s,"manifests":[%s]}`, jstr(rm.MTOCIIndex),
			descJSON(rm.MTOCIManifest, baseDigest, len(baseManifest), `,"annotations":{"org.opencontainers.image.ref.name":"`+baseTag+`"}`))
		if err := os.WriteFile(filepath.Join(e.dir, "index.json"), []byte(idx), 0o644); err != nil {
			return nil, err
		}
	} else {
		e.m = rm.New()
		e.m.Cap = 40000
		e.h = e.m.AddHost(hostName)
		e.h.Feat = rm.Features{
			TagDelete:    sys.TagDelete,
			HeadNoDigest: sys.HeadNoDigest,
		}
		if sys.Kind == "reg-api" {
			e.h.Feat.Referrers = true
			e.h.Feat.ReferrersPage = sys.PageSize
			e.h.Feat.ReferrersFilter = sys.ServerFilter
		}
		r := e.h.Repo(repoName)
		for _, b := range blobs {
			r.Blobs[rm.Digest("sha256", b)] = b
		}
		r.Manifests[baseDigest] = &rm.Manifest{MediaType: rm.MTOCIManifest, Body: baseManifest}
		r.Tags[baseTag] = baseDigest
	}
	e.main = e.newClient(true)
	return e, nil
}

func (e *env) close() {
	if e.tmp != "" {
		os.RemoveAll(e.tmp)
	}
}

// newClient builds a client; the client under test honours the cache setting,
// observers never cache.
func (e *env) newClient(underTest bool) *regclient.RegClient {
	if !e.isReg() {
		return regclient.New()
	}
	conf := rcutil.Conf{}
	if underTest && e.sys.Cache {
		n := e.sys.CacheCount
		if n <= 0 {
			n = 1
		}
		// the timeout is beyond any case's run time (watchdog 120 s); an expiry would only turn a cache hit into a
		// miss, which a correct client answers identically, so it cannot create a false alarm
		conf.RegOpts = []reg.Opts{reg.WithCache(3*time.Minute, n)}
	}
	return rcutil.New(e.m, conf)
}

func (e *env) refTag(tag string) (ref.Ref, error) {
	if e.isReg() {
		return ref.New(hostName + "/" + repoName + ":" + tag)
	}
	return ref.New("ocidir://" + e.dir + ":" + tag)
}

func (e *env) refDigest(d string) (ref.Ref, error) {
	if e.isReg() {
		return ref.New(hostName + "/" + repoName + "@" + d)
	}
	return ref.New("ocidir://" + e.dir + "@" + d)
}

// raw is a consistent snapshot of what the oracle needs from raw storage.
type rawEntry struct {
	Type  string
	Annot map[string]string
}

type rawSubject struct {
	referrers map[string]rawEntry // stored manifests whose subject is this digest
	hasTag    bool                // a fallback tag exists
	tagErr    string              // the tag exists but is not a readable index
	tagList   []string            // digests listed by the fallback index (document order)
}

type rawState struct {
	stored map[string]bool // pool artifacts present in storage (by digest)
	subj   [3]rawSubject
}

func (e *env) view() audit.View {
	if e.isReg() {
		return audit.RepoView{R: e.h.Repos[repoName]}
	}
	return audit.OpenLayout(e.dir)
}

// snapshot reads raw storage (model maps under the model lock, or plain files).
func (e *env) snapshot(u *universe) rawState {
	if e.isReg() {
		e.m.Lock()
		defer e.m.Unlock()
	}
	v := e.view()
	st := rawState{stored: map[string]bool{}}
	for _, a := range u.arts {
		if _, _, ok := v.Get(a.digest); ok {
			st.stored[a.digest] = true
		}
	}
	tags := v.Tags()
	for i, s := range u.subjects {
		rs := rawSubject{referrers: map[string]rawEntry{}}
		for _, d := range audit.RawReferrers(v, s) {
			at, _ := d["artifactType"].(string)
			ann, _ := d["annotations"].(map[string]string)
			rs.referrers[d["digest"].(string)] = rawEntry{Type: at, Annot: ann}
		}
		for _, t := range tags {
			if !fallbackTagMatches(t, s) {
				continue
			}
			rs.hasTag = true
			fd, _ := v.Tag(t)
			body, _, ok := v.Get(fd)
			if !ok {
				rs.tagErr = fmt.Sprintf("fallback tag %s points at %s which is not stored", t, fd)
				break
			}
			var idx struct {
				Manifests []struct {
					Digest string `json:"digest"`
				} `json:"manifests"`
			}
			if err := json.Unmarshal(body, &idx); err != nil {
				rs.tagErr = fmt.Sprintf("fallback tag %s: index %s does not parse: %v", t, fd, err)
				break
			}
			for _, md := range idx.Manifests {
				rs.tagList = append(rs.tagList, md.Digest)
			}
			break
		}
		st.subj[i] = rs
	}
	return st
}

// repairFallback rewrites the fallback tags of a no-API registry from the
// stored manifests (what a correct client would have left). Only used to keep
// searching behind a known, recorded defect.
func (e *env) repairFallback(u *universe) {
	if e.sys.Kind != "reg-fallback" {
		return
	}
	e.m.Lock()
	defer e.m.Unlock()
	r := e.h.Repo(repoName)
	for _, s := range u.subjects {
		for _, t := range sortedTags(r) {
			if fallbackTagMatches(t, s) {
				delete(r.Tags, t)
			}
		}
		descs := rm.ReferrerDescs(r, s)
		if len(descs) == 0 {
			continue
		}
		body, _ := json.Marshal(map[string]any{"schemaVersion": 2, "mediaType": rm.MTOCIIndex, "manifests": descs})
		d := rm.Digest("sha256", body)
		r.Manifests[d] = &rm.Manifest{MediaType: rm.MTOCIIndex, Body: body}
		alg, hx, _ := cut(s)
		if len(hx) > 64 {
			hx = hx[:64]
		}
		r.Tags[alg+"-"+hx] = d
	}
}

func cut(d string) (string, string, bool) {
	for i := 0; i < len(d); i++ {
		if d[i] == ':' {
			return d[:i], d[i+1:], true
		}
	}
	return d, "", false
}

func sortedTags(r *rm.Repo) []string {
	out := make([]string, 0, len(r.Tags))
	for t := range r.Tags {
		out = append(out, t)
	}
	sort.Strings(out)
	return out
}

func (e *env) setDelays(plan []int) {
	if !e.isReg() {
		return
	}
	e.m.Lock()
	e.h.Delays = nil
	for _, us := range plan {
		e.h.Delays = append(e.h.Delays, time.Duration(us)*time.Microsecond)
	}
	e.m.Unlock()
}
