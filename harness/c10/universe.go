package c10

// The artifact universe: small pools of subjects, artifact types, annotation
// sets and payloads, and a hand-written serialiser for the three manifest
// kinds that can carry a subject. Nothing here uses regclient's types.

import (
	"fmt"
	"sort"
	"strings"

	rm "github.com/regclient/regclient/zz_verif/regmodel"
)

const (
	hostName = "reg.example.test"
	repoName = "proj/app"
	baseTag  = "v1"

	aFmt     = "org.example.fmt"
	aExtra   = "org.example.extra"
	aCreated = "org.opencontainers.image.created"
	aAbsent  = "org.example.absent"
)

// artifact types (index 0..2); typeUnknown is only ever used in filters.
var artTypes = []string{
	"application/vnd.example.sbom.v1",
	"application/vnd.example.sig.v1+json",
	"application/vnd.example.attestation",
}

const typeUnknown = "application/vnd.example.unknown"

// annotation sets (index 0 = none)
var annotSets = []map[string]string{
	nil,
	{aFmt: "json", aCreated: "2020-01-02T03:04:05Z"},
	{aFmt: "yaml", aCreated: "2021-02-03T04:05:06Z"},
	{aFmt: "json", aExtra: ""},
	{}, // "annotations":{} (present but empty)
	{aFmt: "js\"on/ü", aCreated: "2022-03-04T05:06:07Z"},
}

// annotation filters (index 0 = none). Documented semantics
// (descriptor.MatchOpt): every listed key must be present with that value; an
// empty value only requires the key.
var annotFilters = []map[string]string{
	nil,
	{aFmt: "json"},
	{aFmt: ""},
	{aFmt: "toml"},
	{aFmt: "json", aCreated: "2020-01-02T03:04:05Z"},
	{aExtra: ""},
	{}, // a non-nil empty map: selects everything
}

// sort options (index 0 = none): annotation, descending
var sortOpts = []struct {
	Annot string
	Desc  bool
}{{"", false}, {aCreated, false}, {aCreated, true}, {aAbsent, false}}

var payloads = [][]byte{[]byte("payload-zero"), []byte("payload-one\n"), []byte("payload-two\n\n")}

var emptyJSON = []byte("{}")

func jstr(s string) string { return fmt.Sprintf("%q", s) }

func mapJSON(m map[string]string) string {
	ks := make([]string, 0, len(m))
	for k := range m {
		ks = append(ks, k)
	}
	sort.Strings(ks)
	parts := make([]string, 0, len(ks))
	for _, k := range ks {
		parts = append(parts, jstr(k)+":"+jstr(m[k]))
	}
	return "{" + strings.Join(parts, ",") + "}"
}

func descJSON(mt, dig string, size int, extra string) string {
	return fmt.Sprintf(`{"mediaType":%s,"digest":%s,"size":%d%s}`, jstr(mt), jstr(dig), size, extra)
}

// base image (the subject that exists), stored raw at set-up
var (
	baseConfig   = []byte(`{"architecture":"amd64","os":"linux","rootfs":{"type":"layers","diff_ids":[]},"config":{}}`)
	baseLayer    = []byte("base-layer-bytes")
	baseManifest []byte
	baseDigest   string
	// a second platform image and a multi-platform index {linux/amd64: base image, linux/arm64: armManifest} (tag "multi")
	armManifest []byte
	armDigest   string
	multiIndex  []byte
	multiDigest string
)

const (
	multiTag  = "multi"
	latestTag = "latest" // the base image also carries the default tag
	sharedTag = "shared" // a tag several artifacts are pushed to (the tag moves)
	extRepo   = "proj/refs"
	platAMD64 = "linux/amd64"
	platARM64 = "linux/arm64"
	strayTag  = "zz" // a tag that never exists, used in tag+digest references
)

func init() {
	baseManifest = []byte(fmt.Sprintf(`{"schemaVersion":2,"mediaType":%s,"config":%s,"layers":[%s]}`,
		jstr(rm.MTOCIManifest),
		descJSON(rm.MTOCIConfig, rm.Digest("sha256", baseConfig), len(baseConfig), ""),
		descJSON(rm.MTOCILayer, rm.Digest("sha256", baseLayer), len(baseLayer), "")))
	baseDigest = rm.Digest("sha256", baseManifest)
	armManifest = []byte(fmt.Sprintf(`{"schemaVersion":2,"mediaType":%s,"config":%s,"layers":[%s]}`,
		jstr(rm.MTOCIManifest),
		descJSON(rm.MTOCIConfig, rm.Digest("sha256", baseConfig), len(baseConfig), ""),
		descJSON(rm.MTOCILayer, rm.Digest("sha256", payloads[0]), len(payloads[0]), "")))
	armDigest = rm.Digest("sha256", armManifest)
	multiIndex = []byte(fmt.Sprintf(`{"schemaVersion":2,"mediaType":%s,"manifests":[%s,%s]}`, jstr(rm.MTOCIIndex),
		descJSON(rm.MTOCIManifest, baseDigest, len(baseManifest), `,"platform":{"architecture":"amd64","os":"linux"}`),
		descJSON(rm.MTOCIManifest, armDigest, len(armManifest), `,"platform":{"architecture":"arm64","os":"linux"}`)))
	multiDigest = rm.Digest("sha256", multiIndex)
}

// Art is one artifact of the case's pool (plain data).
type Art struct {
	Kind    string `json:"kind"`    // image | artifact | index
	Subject int    `json:"subject"` // 0 existing image, 1 a digest that is not stored, 2 = artifact 0 of the pool (itself a referrer of subject 0)
	Type    int    `json:"type"`    // index into artTypes; -1 = no artifact type (index kind only)
	TypeIn  string `json:"type_in"` // image kind: "field" (artifactType field, empty config) | "config" (config.mediaType carries the type)
	Annot   int    `json:"annot"`   // index into annotSets
	Payload int    `json:"payload"` // 0..2, distinguishes otherwise equal artifacts
	ByTag   bool   `json:"by_tag"`  // pushed to tag "art<i>" instead of by digest
	Child   bool   `json:"child"`   // digest push with WithManifestChild (as regctl artifact put does)
	// dimensions added by the generator-domain audit (zero values = the original behaviour)
	Shared bool `json:"shared,omitempty"` // with ByTag: pushed to the tag "shared" that other artifacts use too
	Sha512 bool `json:"sha512,omitempty"` // the manifest object is built under sha512 (pushed by digest)
	// Obj: how the manifest OBJECT handed to ManifestPut is obtained: "" built from the raw body | "desc" built with
	// manifest.WithDesc from a descriptor that carries annotations (ref.name and another key) and a foreign
	// artifactType, as an annotated index entry would | "get-tag" / "get-digest" read with ManifestGet (by tag / by
	// digest) from a source layout in which the artifact is tagged (its index entry carries ref.name and another key)
	Obj            string `json:"obj,omitempty"`
	OtherAlg       bool   `json:"other_alg,omitempty"`       // pushed to a digest reference of the OTHER algorithm over the same bytes (sha256 object -> @sha512:..., sha512 object -> @sha256:...): the reference's digest is what the manifest is stored under
	PartialSubject bool   `json:"partial_subject,omitempty"` // subject descriptor carries only the digest
	NoMediaType    bool   `json:"no_media_type,omitempty"`   // image kind: body without the optional mediaType field
}

// resolved artifact
type rart struct {
	Art
	idx       int
	body      []byte
	digest    string // the digest the manifest is stored and listed under (= the digest of the push reference)
	objDigest string // the digest the pushed manifest object carries (differs from digest with OtherAlg)
	mediaType string
	subject   string // subject digest
	expType   string // artifact type a referrers listing must show
	expAnnot  map[string]string
	tag       string // "" when pushed by digest
}

type universe struct {
	subjects [3]string // digests of the three subjects
	arts     []*rart
	byDigest map[string]*rart // first artifact of the pool with that digest
}

func absentDigest(sha512 bool) string {
	if sha512 {
		return rm.Digest("sha512", []byte("no such manifest"))
	}
	return rm.Digest("sha256", []byte("no such manifest"))
}

func norm(i, n int) int {
	if n <= 0 {
		return 0
	}
	i %= n
	if i < 0 {
		i += n
	}
	return i
}

// build resolves the pool. Artifact 0 always names subject 0 (it is subject 2);
// out-of-range indexes are folded so that every Case value is meaningful.
func build(arts []Art, sha512Absent bool) *universe {
	u := &universe{byDigest: map[string]*rart{}}
	u.subjects[0] = baseDigest
	u.subjects[1] = absentDigest(sha512Absent)
	for i, a := range arts {
		r := &rart{Art: a, idx: i}
		sub := norm(a.Subject, 3)
		if i == 0 {
			sub = 0
		}
		r.Art.Subject = sub
		var sdesc string
		switch sub {
		case 0:
			r.subject = baseDigest
			sdesc = descJSON(rm.MTOCIManifest, baseDigest, len(baseManifest), "")
		case 1:
			r.subject = u.subjects[1]
			sdesc = descJSON(rm.MTOCIManifest, u.subjects[1], 321, "")
		case 2:
			r.subject = u.arts[0].digest
			sdesc = descJSON(u.arts[0].mediaType, u.arts[0].digest, len(u.arts[0].body), "")
		}
		if a.PartialSubject {
			sdesc = `{"digest":` + jstr(r.subject) + `}`
		}
		ann := annotSets[norm(a.Annot, len(annotSets))]
		r.expAnnot = ann
		annJSON := ""
		if ann != nil {
			annJSON = `,"annotations":` + mapJSON(ann)
		}
		pl := payloads[norm(a.Payload, len(payloads))]
		ldesc := descJSON(rm.MTOCILayer, rm.Digest("sha256", pl), len(pl), "")
		ty := ""
		if a.Type >= 0 {
			ty = artTypes[norm(a.Type, len(artTypes))]
		}
		switch a.Kind {
		case "artifact":
			if ty == "" {
				ty = artTypes[0]
			}
			r.mediaType = rm.MTOCIArtifact
			r.expType = ty
			r.body = []byte(fmt.Sprintf(`{"mediaType":%s,"artifactType":%s,"blobs":[%s],"subject":%s%s}`,
				jstr(rm.MTOCIArtifact), jstr(ty), ldesc, sdesc, annJSON))
		case "index":
			r.mediaType = rm.MTOCIIndex
			r.expType = ty // may be empty: an index without artifactType has none
			at := ""
			if ty != "" {
				at = `"artifactType":` + jstr(ty) + ","
			}
			entries := ""
			switch norm(a.Payload, 3) {
			case 1:
				entries = descJSON(rm.MTOCIManifest, baseDigest, len(baseManifest), "")
			case 2:
				entries = descJSON(rm.MTOCIManifest, baseDigest, len(baseManifest), `,"platform":{"architecture":"arm64","os":"linux"}`)
			}
			r.body = []byte(fmt.Sprintf(`{"schemaVersion":2,"mediaType":%s,%s"manifests":[%s],"subject":%s%s}`,
				jstr(rm.MTOCIIndex), at, entries, sdesc, annJSON))
		default: // image
			r.Art.Kind = "image"
			if ty == "" {
				ty = artTypes[0]
			}
			r.mediaType = rm.MTOCIManifest
			r.expType = ty
			var head string
			if a.TypeIn == "config" {
				// no artifactType field: the config media type is the artifact type
				head = `"config":` + descJSON(ty, rm.Digest("sha256", emptyJSON), len(emptyJSON), "")
			} else {
				head = `"artifactType":` + jstr(ty) + `,"config":` + descJSON(rm.MTOCIEmpty, rm.Digest("sha256", emptyJSON), len(emptyJSON), "")
			}
			mtField := `"mediaType":` + jstr(rm.MTOCIManifest) + ","
			if a.NoMediaType {
				mtField = "" // OCI image manifest without the optional mediaType field
			}
			r.body = []byte(fmt.Sprintf(`{"schemaVersion":2,%s%s,"layers":[%s],"subject":%s%s}`,
				mtField, head, ldesc, sdesc, annJSON))
		}
		r.digest = rm.Digest("sha256", r.body)
		if a.Sha512 {
			r.digest = rm.Digest("sha512", r.body)
		}
		r.objDigest = r.digest
		if a.OtherAlg {
			if a.Sha512 {
				r.digest = rm.Digest("sha256", r.body)
			} else {
				r.digest = rm.Digest("sha512", r.body)
			}
		}
		if a.ByTag && !a.Sha512 && !a.OtherAlg { // a tag push with a non-canonical digest is marked experimental in the client: not generated
			r.tag = fmt.Sprintf("art%d", i)
			if a.Shared {
				r.tag = sharedTag
			}
		}
		u.arts = append(u.arts, r)
		if _, dup := u.byDigest[r.digest]; !dup {
			u.byDigest[r.digest] = r
		}
		if i == 0 {
			u.subjects[2] = r.digest
		}
	}
	return u
}

// fallbackTagMatches tells whether tag is the referrers fallback tag of the
// subject digest: "<alg>-<hex>", where long hex strings may be truncated by the
// client (the spec truncates the whole tag to 128 characters, the client the
// hex part to 64).
func fallbackTagMatches(tag, subject string) bool {
	alg, hx, ok := strings.Cut(subject, ":")
	if !ok {
		return false
	}
	rest, ok := strings.CutPrefix(tag, alg+"-")
	if !ok || len(rest) < 32 || len(rest) > len(hx) {
		return false
	}
	if len(rest) < len(hx) && len(hx) <= 64 {
		return false // sha256 is never truncated
	}
	return strings.HasPrefix(hx, rest)
}
