// Package c10 decides C10: the referrers of a subject are exactly the live
// manifests that name it. Generated histories (plain data) of put / referrer
// aware delete / list / concurrent batches are interpreted against the real
// client and a reference model subject -> set{(digest, artifactType,
// annotations)}; after every step the client's answers and raw storage are
// compared with the model.
package c10

import (
	"context"
	"encoding/json"
	"fmt"
	"os"
	"runtime"
	"runtime/debug"
	"sort"
	"strings"
	"sync"
	"testing"
	"time"

	godigest "github.com/opencontainers/go-digest"
	"pgregory.net/rapid"

	"github.com/regclient/regclient"
	"github.com/regclient/regclient/scheme"
	"github.com/regclient/regclient/types/descriptor"
	"github.com/regclient/regclient/types/manifest"
	"github.com/regclient/regclient/types/ref"
	"github.com/regclient/regclient/types/referrer"
	"github.com/regclient/regclient/zz_verif/evid"
)

const prop = "C10"

func TestMain(m *testing.M) {
	code := m.Run()
	evid.Flush(code)
	os.Exit(code)
}

// ---------------------------------------------------------------- case data

// Filter selects a referrers listing variant.
type Filter struct {
	Type       int  `json:"type"`       // 0 none, 1 a type no artifact has, 2..4 artTypes[Type-2]
	Annot      int  `json:"annot"`      // index into annotFilters (0 none)
	Sort       int  `json:"sort"`       // index into sortOpts (0 none)
	Deprecated bool `json:"deprecated"` // use WithReferrerAT/Annotations/Sort instead of WithReferrerMatchOpt
}

// BOp is one member of a concurrent batch.
type BOp struct {
	Op      string `json:"op"` // put | delete
	Art     int    `json:"art"`
	Del     string `json:"del,omitempty"` // check | manifest | both
	StartUs int    `json:"start_us"`      // start offset of this member
	RefForm string `json:"ref_form,omitempty"`
}

// Op is one step of a history.
type Op struct {
	Op      string `json:"op"` // put | delete | list | batch
	Art     int    `json:"art"`
	Del     string `json:"del,omitempty"`   // delete: check (WithManifestCheckReferrers) | manifest (WithManifest(m)) | both
	Subject int    `json:"subject"`         // list: 0..2; batch: the one subject of the batch
	ByTag   bool   `json:"by_tag"`          // list: ask with a tag reference when the subject currently has one
	Filter  Filter `json:"filter"`          // list
	Look    bool   `json:"look"`            // after the step, also list all subjects through the client under test
	Batch   []BOp  `json:"batch,omitempty"` // batch
	// dimensions added by the generator-domain audit (zero values = the original behaviour)
	RefForm  string `json:"ref_form,omitempty"`  // list: "tag+digest" | "default" (default tag; subject 0 only); delete: "tag+digest"
	Platform int    `json:"platform,omitempty"`  // list of subject 0: ask for the multi-platform index with WithReferrerPlatform (1 linux/amd64 = subject 0, 2 linux/arm64 = an image nobody names)
	Ctx      string `json:"ctx,omitempty"`       // "" live | cancelled | expired (context already done when the call is made) | midflight (list only: cancelled when the CancelAt-th request of the call arrives)
	CancelAt int    `json:"cancel_at,omitempty"` // midflight: 1..
	Mixed    bool   `json:"mixed,omitempty"`     // batch: members may name different subjects
}

// Case is one generated history with its configuration.
type Case struct {
	Sys     Sys   `json:"sys"`
	Delays  []int `json:"delays_us"` // latency plan (µs, cyclic per request) in force during concurrent batches
	Procs   int   `json:"procs"`     // GOMAXPROCS while the case runs (0 = unchanged)
	Arts    []Art `json:"arts"`
	History []Op  `json:"history"`
	// ColdStart: the client under test is not asked anything before the first step (its feature detection and
	// caches are still empty when the history begins)
	ColdStart bool `json:"cold_start,omitempty"`
	// LookForm: the reference form in which the client under test is asked after the steps ("" digest | tag |
	// tag+digest | default). It stays the same for the whole history, so the same question in the same form is
	// asked before and after every mutation (a cached answer is keyed by what the client derives from that form);
	// half of the generated list steps use it too.
	LookForm string `json:"look_form,omitempty"`
}

// ---------------------------------------------------------------- generator

var delayTable = []int{0, 50, 300, 2000}

func genArt(t *rapid.T, i int, subjW []int) Art {
	a := Art{}
	a.Kind = rapid.SampledFrom([]string{"image", "image", "artifact", "index"}).Draw(t, "kind")
	a.Subject = subjW[rapid.IntRange(0, len(subjW)-1).Draw(t, "subject")]
	if i == 0 {
		a.Subject = 0
	}
	a.Type = rapid.IntRange(0, len(artTypes)-1).Draw(t, "type")
	if a.Kind == "index" && rapid.IntRange(0, 3).Draw(t, "untyped") == 0 {
		a.Type = -1
	}
	a.TypeIn = "field"
	if a.Kind == "image" && rapid.Bool().Draw(t, "type_in_config") {
		a.TypeIn = "config"
	}
	a.Annot = rapid.IntRange(0, len(annotSets)-1).Draw(t, "annot")
	a.Payload = rapid.IntRange(0, len(payloads)-1).Draw(t, "payload")
	switch rapid.IntRange(0, 4).Draw(t, "push_style") {
	case 1:
		a.ByTag = true
	case 2:
		a.Child = true
	case 4:
		a.ByTag, a.Shared = true, true
	}
	a.Sha512 = rapid.IntRange(0, 5).Draw(t, "art_sha512") == 0
	a.OtherAlg = rapid.IntRange(0, 5).Draw(t, "art_other_alg") == 0
	a.Obj = rapid.SampledFrom([]string{"", "", "desc", "", "get-tag", "", "get-digest", ""}).Draw(t, "art_obj")
	a.PartialSubject = rapid.IntRange(0, 5).Draw(t, "partial_subject") == 0
	if a.Kind == "image" {
		a.NoMediaType = rapid.IntRange(0, 5).Draw(t, "no_media_type") == 0
	}
	return a
}

func genFilter(t *rapid.T) Filter {
	f := Filter{}
	switch rapid.IntRange(0, 5).Draw(t, "filter_kind") {
	case 0, 1: // none
	case 2:
		f.Type = rapid.IntRange(1, len(artTypes)+1).Draw(t, "ftype")
	case 3:
		f.Annot = rapid.IntRange(1, len(annotFilters)-1).Draw(t, "fannot")
	case 4:
		f.Sort = rapid.IntRange(1, len(sortOpts)-1).Draw(t, "fsort")
	case 5:
		f.Type = rapid.IntRange(0, len(artTypes)+1).Draw(t, "ftype")
		f.Annot = rapid.IntRange(0, len(annotFilters)-1).Draw(t, "fannot")
		f.Sort = rapid.IntRange(0, len(sortOpts)-1).Draw(t, "fsort")
	}
	if f.Type != 0 || f.Annot != 0 || f.Sort != 0 {
		f.Deprecated = rapid.IntRange(0, 3).Draw(t, "deprecated") == 0
	}
	return f
}

var delModes = []string{"check", "manifest", "both", "fetched"}

var ctxKinds = []string{"cancelled", "expired", "midflight"}

// gen draws a case. conc selects the concurrency-focused distribution (more
// batches, mostly registries without the referrers API).
func gen(t *rapid.T, conc bool) Case {
	c := Case{}
	kinds := []string{"reg-fallback", "reg-api", "ocidir", "reg-api", "reg-fallback", "reg-api", "ocidir", "reg-fallback"}
	if conc {
		kinds = []string{"reg-fallback", "reg-fallback", "reg-fallback", "ocidir", "reg-fallback", "reg-api", "reg-fallback", "reg-fallback"}
	}
	c.Sys.Kind = rapid.SampledFrom(kinds).Draw(t, "system")
	if c.Sys.Kind == "reg-api" {
		c.Sys.PageSize = rapid.SampledFrom([]int{0, 1, 2, 1, 3}).Draw(t, "page")
		c.Sys.ServerFilter = rapid.Bool().Draw(t, "server_filter")
		if c.Sys.PageSize > 0 {
			c.Sys.LinkAbs = rapid.IntRange(0, 2).Draw(t, "link_abs") == 0
		}
	}
	if c.Sys.Kind != "ocidir" {
		c.Sys.Cache = rapid.Bool().Draw(t, "cache")
		if c.Sys.Cache {
			c.Sys.CacheCount = rapid.SampledFrom([]int{50, 1, 2}).Draw(t, "cache_count")
			c.Sys.CacheShort = rapid.IntRange(0, 5).Draw(t, "cache_short") == 0
		}
		c.Sys.ReqConcurrent = rapid.SampledFrom([]int{0, 0, 1, 0, 2}).Draw(t, "req_concurrent")
		c.Sys.TagDelete = rapid.Bool().Draw(t, "tag_delete")
		c.Sys.HeadNoDigest = rapid.IntRange(0, 3).Draw(t, "head_no_digest") == 0
	}
	c.Sys.Sha512Absent = rapid.IntRange(0, 4).Draw(t, "sha512_absent") == 0
	c.Sys.External = rapid.IntRange(0, 4).Draw(t, "external") == 0

	subjW := []int{0, 0, 0, 1, 2, 0, 2, 0}
	if conc {
		subjW = []int{0, 0, 0, 0, 0, 2, 0, 1}
	}
	nArts := rapid.IntRange(2, 7).Draw(t, "n_arts")
	if conc {
		nArts = rapid.IntRange(3, 7).Draw(t, "n_arts")
	}
	for i := 0; i < nArts; i++ {
		c.Arts = append(c.Arts, genArt(t, i, subjW))
	}
	u := build(c.Arts, c.Sys.Sha512Absent)

	nd := rapid.IntRange(1, 6).Draw(t, "n_delays")
	for i := 0; i < nd; i++ {
		c.Delays = append(c.Delays, rapid.SampledFrom(delayTable).Draw(t, "delay"))
	}
	c.Procs = rapid.SampledFrom([]int{0, 1, 2, 4}).Draw(t, "procs")
	c.ColdStart = rapid.Bool().Draw(t, "cold_start")
	c.LookForm = rapid.SampledFrom([]string{"", "tag+digest", "tag", "default", "tag+digest", ""}).Draw(t, "look_form")

	// symbolic state, only used to bias choices (the interpreter makes every op total)
	stored := map[string]bool{}
	pick := func(want bool, label string) int {
		cand := []int{}
		for i, a := range u.arts {
			if stored[a.digest] == want {
				cand = append(cand, i)
			}
		}
		if len(cand) == 0 || rapid.IntRange(0, 4).Draw(t, label+"_any") == 0 {
			return rapid.IntRange(0, nArts-1).Draw(t, label)
		}
		return cand[rapid.IntRange(0, len(cand)-1).Draw(t, label)]
	}
	maxLen := 14
	batchW := 1
	if conc {
		maxLen = 9
		batchW = 5
	}
	n := rapid.IntRange(1, maxLen).Draw(t, "n_ops")
	for k := 0; k < n; k++ {
		op := Op{Look: rapid.Bool().Draw(t, "look")}
		w := rapid.IntRange(0, 8+batchW).Draw(t, "op_kind")
		// a call made with a context that is already done (or, for lists, that is cancelled while the call runs)
		doneCtx := rapid.IntRange(0, 11).Draw(t, "done_ctx") == 0
		switch {
		case w <= 3:
			op.Op = "put"
			op.Art = pick(false, "put_art")
			if doneCtx {
				op.Ctx = rapid.SampledFrom(ctxKinds[:2]).Draw(t, "ctx")
				if c.Sys.Kind == "ocidir" { // layouts do not look at the context: the put happens
					stored[u.arts[op.Art].digest] = true
				}
			} else {
				stored[u.arts[op.Art].digest] = true
			}
		case w <= 6:
			op.Op = "delete"
			op.Art = pick(true, "del_art")
			op.Del = rapid.SampledFrom(delModes).Draw(t, "del_mode")
			if rapid.IntRange(0, 4).Draw(t, "del_ref_form") == 0 {
				op.RefForm = "tag+digest"
			}
			if doneCtx {
				op.Ctx = rapid.SampledFrom(ctxKinds[:2]).Draw(t, "ctx")
				if c.Sys.Kind == "ocidir" {
					delete(stored, u.arts[op.Art].digest)
				}
			} else {
				delete(stored, u.arts[op.Art].digest)
			}
		case w <= 8:
			op.Op = "list"
			op.Subject = rapid.SampledFrom([]int{0, 0, 2, 1}).Draw(t, "list_subject")
			op.ByTag = rapid.Bool().Draw(t, "list_by_tag")
			op.Filter = genFilter(t)
			switch rapid.IntRange(0, 7).Draw(t, "list_ref_form") {
			case 0:
				op.RefForm = "tag+digest"
			case 1:
				op.RefForm = "default"
			case 2, 3, 4, 5:
				// the form the case keeps asking in
				op.RefForm = c.LookForm
				if c.LookForm == "tag" {
					op.RefForm, op.ByTag = "", true
				}
			}
			if op.Subject == 0 && rapid.IntRange(0, 3).Draw(t, "list_platform_on") == 0 {
				op.Platform = rapid.IntRange(1, 2).Draw(t, "list_platform")
			}
			if doneCtx || rapid.IntRange(0, 7).Draw(t, "list_ctx") == 0 {
				op.Ctx = rapid.SampledFrom(ctxKinds).Draw(t, "ctx")
				if op.Ctx == "midflight" {
					op.CancelAt = rapid.IntRange(1, 4).Draw(t, "cancel_at")
				}
			}
		default:
			op.Op = "batch"
			op.Subject = rapid.SampledFrom([]int{0, 0, 0, 2, 1}).Draw(t, "batch_subject")
			op.Mixed = rapid.IntRange(0, 4).Draw(t, "batch_mixed") == 0
			cand := []int{}
			seen := map[string]bool{}
			for i, a := range u.arts {
				if (op.Mixed || a.Art.Subject == op.Subject) && !seen[a.digest] {
					seen[a.digest] = true
					cand = append(cand, i)
				}
			}
			if len(cand) == 0 {
				cand = []int{0}
				op.Subject = 0
			}
			perm := rapid.Permutation(cand).Draw(t, "batch_arts")
			size := rapid.IntRange(2, 4).Draw(t, "batch_size")
			if size > len(perm) {
				size = len(perm)
			}
			for _, ai := range perm[:size] {
				b := BOp{Art: ai, StartUs: rapid.SampledFrom([]int{0, 0, 100, 400}).Draw(t, "start")}
				isStored := stored[u.arts[ai].digest]
				flip := rapid.IntRange(0, 5).Draw(t, "batch_flip") == 0
				if isStored != flip {
					b.Op = "delete"
					b.Del = rapid.SampledFrom(delModes).Draw(t, "del_mode")
					if rapid.IntRange(0, 4).Draw(t, "del_ref_form") == 0 {
						b.RefForm = "tag+digest"
					}
				} else {
					b.Op = "put"
				}
				op.Batch = append(op.Batch, b)
			}
			for _, b := range op.Batch {
				if b.Op == "put" {
					stored[u.arts[b.Art].digest] = true
				} else {
					delete(stored, u.arts[b.Art].digest)
				}
			}
		}
		c.History = append(c.History, op)
	}
	return c
}

// ---------------------------------------------------------------- reference model

type model struct {
	u      *universe
	stored map[string]bool // digests of pool artifacts currently stored
}

// referrers returns the model's referrer set of a subject digest.
func (md *model) referrers(subject string) map[string]*rart {
	out := map[string]*rart{}
	for d := range md.stored {
		a := md.u.byDigest[d]
		if a.subject == subject {
			out[d] = a
		}
	}
	return out
}

func annotMatch(have, want map[string]string) bool {
	for k, v := range want {
		hv, ok := have[k]
		if !ok || (v != "" && v != hv) {
			return false
		}
	}
	return true
}

// typeName returns the artifact type a filter asks for ("" = no type filter).
func (f Filter) typeName() string {
	t := norm(f.Type, len(artTypes)+2)
	switch t {
	case 0:
		return ""
	case 1:
		return typeUnknown
	}
	return artTypes[t-2]
}

// matches implements the documented filter semantics.
func (f Filter) matches(a *rart) bool {
	if want := f.typeName(); want != "" && a.expType != want {
		return false
	}
	return annotMatch(a.expAnnot, annotFilters[norm(f.Annot, len(annotFilters))])
}

func (f Filter) none() bool { return f.typeName() == "" && norm(f.Annot, len(annotFilters)) == 0 }

func (f Filter) opts() []scheme.ReferrerOpts {
	mo := descriptor.MatchOpt{ArtifactType: f.typeName()}
	if af := annotFilters[norm(f.Annot, len(annotFilters))]; af != nil {
		mo.Annotations = map[string]string{}
		for k, v := range af {
			mo.Annotations[k] = v
		}
	}
	so := sortOpts[norm(f.Sort, len(sortOpts))]
	mo.SortAnnotation, mo.SortDesc = so.Annot, so.Desc
	if !f.Deprecated {
		if f.none() && so.Annot == "" {
			return nil
		}
		return []scheme.ReferrerOpts{scheme.WithReferrerMatchOpt(mo)}
	}
	var out []scheme.ReferrerOpts
	if mo.ArtifactType != "" {
		out = append(out, scheme.WithReferrerAT(mo.ArtifactType))
	}
	if mo.Annotations != nil {
		out = append(out, scheme.WithReferrerAnnotations(mo.Annotations))
	}
	if so.Annot != "" {
		out = append(out, scheme.WithReferrerSort(so.Annot, so.Desc))
	}
	return out
}

func (f Filter) String() string {
	s := []string{}
	if tn := f.typeName(); tn != "" {
		s = append(s, "artifactType="+tn)
	}
	if a := norm(f.Annot, len(annotFilters)); a != 0 {
		s = append(s, "annotations="+mapJSON(annotFilters[a]))
	}
	if so := norm(f.Sort, len(sortOpts)); so != 0 {
		s = append(s, fmt.Sprintf("sort=%s desc=%v", sortOpts[so].Annot, sortOpts[so].Desc))
	}
	if len(s) == 0 {
		return "no filter"
	}
	return strings.Join(s, ",")
}

// ---------------------------------------------------------------- interpreter / oracle

type run struct {
	c    Case
	e    *env
	u    *universe
	md   *model
	ev   *evid.Collector
	ctx  context.Context
	step int
	desc string // description of the current step
	// evidence
	classes        map[string]bool
	twoLive        bool // at some point two live artifacts named one subject
	liveDeletes    int  // deletes of a stored artifact
	batches        int  // concurrent batches with >= 2 members
	watchdog       bool
	lastMainList   [3]int // step of the last list through the client under test per subject (-1 none)
	lastMutation   [3]int
	tagOwner       map[string]string // artifact tags that currently resolve -> digest
	everStored     map[string]bool
	otherAlgStored map[string]bool // stored identities whose last push used a reference of another algorithm than the object
	doneCalls      int             // calls made so far through the client under test with a cancelled / expired context
}

func (r *run) class(s string) { r.classes[s] = true }

func eqAnnot(a, b map[string]string) bool {
	if len(a) != len(b) {
		return false
	}
	for k, v := range a {
		if w, ok := b[k]; !ok || w != v {
			return false
		}
	}
	return true
}

func short(d string) string {
	if i := strings.IndexByte(d, ':'); i >= 0 && len(d) > i+9 {
		return d[i+1 : i+9]
	}
	return d
}

func (r *run) names(ds []string) string {
	out := []string{}
	for _, d := range ds {
		if a := r.u.byDigest[d]; a != nil {
			out = append(out, fmt.Sprintf("art%d(%s)", a.idx, short(d)))
		} else {
			out = append(out, short(d))
		}
	}
	return "[" + strings.Join(out, " ") + "]"
}

// compareList judges one answer of ReferrerList against the model. who says
// through which client / reference form the question was asked.
func (r *run) compareList(who string, label string, subject string, f Filter, descs []descriptor.Descriptor) *evid.Violation {
	all := r.md.referrers(subject)
	want := map[string]*rart{}
	for d, a := range all {
		if f.matches(a) {
			want[d] = a
		}
	}
	got := map[string]int{}
	order := []string{}
	for _, d := range descs {
		ds := d.Digest.String()
		if got[ds] == 0 {
			order = append(order, ds)
		}
		got[ds]++
	}
	sort.Strings(order)
	where := fmt.Sprintf("step %d (%s): ReferrerList(%s = %s, %s) %s on %s", r.step, r.desc, label, short(subject), f, who, r.sysDesc())
	wantKeys := []string{}
	for d := range want {
		wantKeys = append(wantKeys, d)
	}
	sort.Strings(wantKeys)
	for _, d := range order {
		if got[d] > 1 {
			return evid.V("list-entry-duplicated", "%s lists %s %d times; answer %s, model %s", where, r.names([]string{d}), got[d], r.names(order), r.names(wantKeys))
		}
	}
	for _, d := range order {
		if _, ok := want[d]; ok {
			continue
		}
		if a, live := all[d]; live {
			return evid.V("filter-selects-nonmatching", "%s returns %s (type %q, annotations %s) which does not match the filter; answer %s, model %s",
				where, r.names([]string{d}), a.expType, mapJSON(a.expAnnot), r.names(order), r.names(wantKeys))
		}
		if a := r.objectDigestOf(d); a != nil {
			return evid.V(sigObjDigest, "%s returns %s, the digest carried by the manifest object that was pushed for art%d, but the push reference named it by the other algorithm and it is stored as %s: the listed digest is not a stored manifest (and the stored one is not listed); answer %s, model %s",
				where, d, a.idx, a.digest, r.names(order), r.names(wantKeys))
		}
		return evid.V("list-entry-leftover", "%s returns %s which is not a stored manifest naming the subject; answer %s, model %s",
			where, r.names([]string{d}), r.names(order), r.names(wantKeys))
	}
	for _, d := range wantKeys {
		if got[d] == 0 {
			if f.none() {
				return evid.V("list-entry-lost", "%s does not return %s which is stored and names the subject; answer %s, model %s",
					where, r.names([]string{d}), r.names(order), r.names(wantKeys))
			}
			return evid.V("filter-drops-matching", "%s does not return %s (type %q, annotations %s) which is stored, names the subject and matches the filter; answer %s, model %s",
				where, r.names([]string{d}), want[d].expType, mapJSON(want[d].expAnnot), r.names(order), r.names(wantKeys))
		}
	}
	for _, d := range descs {
		a := want[d.Digest.String()]
		if d.ArtifactType != a.expType {
			return evid.V("list-artifact-type-wrong", "%s: entry %s (%s manifest, type carried in %s) has artifactType %q, expected %q",
				where, r.names([]string{a.digest}), a.Art.Kind, a.Art.TypeIn, d.ArtifactType, a.expType)
		}
		if !eqAnnot(d.Annotations, a.expAnnot) {
			return evid.V("list-annotations-wrong", "%s: entry %s has annotations %s, expected %s",
				where, r.names([]string{a.digest}), mapJSON(d.Annotations), mapJSON(a.expAnnot))
		}
	}
	return nil
}

func (r *run) sysDesc() string {
	s := r.c.Sys
	ext := ""
	if s.External {
		ext = ", artifacts in a separate repository (WithReferrerSource)"
	}
	switch s.Kind {
	case "ocidir":
		return "an OCI layout" + ext
	case "reg-api":
		return fmt.Sprintf("a registry with the referrers API (page size %d, server filter %v, client cache %v%s)", s.PageSize, s.ServerFilter, s.Cache, ext)
	}
	return fmt.Sprintf("a registry without the referrers API (tag delete %v, client cache %v%s)", s.TagDelete, s.Cache, ext)
}

// ask describes one referrers question.
type ask struct {
	si       int    // subject 0..2
	byTag    bool   // tag reference when the subject currently has one
	form     string // "" | tag+digest | default
	platform int    // 0 | 1 amd64 | 2 arm64 (subject 0 only)
	f        Filter
	ctx      string // "" | cancelled | expired | midflight
	cancelAt int
}

// subjectRef returns the reference used to ask for a subject's referrers, a label for messages and the digest
// whose referrers the answer must be.
func (r *run) subjectRef(q ask) (ref.Ref, string, string, []scheme.ReferrerOpts, error) {
	si := q.si
	subject := r.u.subjects[si]
	label := fmt.Sprintf("subject %d", si)
	var opts []scheme.ReferrerOpts
	if r.c.Sys.External {
		src, err := r.e.refName(true, "")
		if err != nil {
			return ref.Ref{}, "", "", nil, err
		}
		opts = append(opts, scheme.WithReferrerSource(src))
	}
	// the subject's own tag, if it has one right now (subject 2 lives in the artifacts' repository: its tag
	// cannot be resolved in the subjects' repository when the two differ)
	tag := ""
	if si == 0 {
		tag = baseTag
	} else if a := r.u.arts[0]; si == 2 && a.tag != "" && !r.c.Sys.External && r.e.rawTag(a.tag) == a.digest {
		// which manifest a tag names right now is read from raw storage: after a batch that pushed several artifacts
		// to the shared tag the last writer is a matter of schedule (and not what this property is about)
		tag = a.tag
	}
	if si == 0 && q.platform != 0 {
		// the multi-platform index, resolved to one platform by the client
		plat := platAMD64
		if norm(q.platform, 3) == 2 {
			plat, subject = platARM64, armDigest
			label = "linux/arm64 image of the index"
		} else {
			label = "subject 0 as linux/amd64 image of the index"
		}
		opts = append(opts, scheme.WithReferrerPlatform(plat))
		r.class("list:platform")
		suffix := "@" + multiDigest
		switch {
		case q.form == "tag+digest":
			suffix = ":" + multiTag + "@" + multiDigest
		case q.byTag:
			suffix = ":" + multiTag
		}
		rf, err := r.e.refName(false, suffix)
		return rf, label + " (" + suffix + ")", subject, opts, err
	}
	suffix := "@" + subject
	switch {
	case q.form == "default" && si == 0:
		suffix = "" // the default tag
		if !r.e.isReg() {
			suffix = "" // ocidir://dir (tag and digest empty: the layout's default tag)
		}
		r.class("list:ref-default-tag")
	case q.form == "tag+digest":
		t := tag
		if t == "" {
			t = strayTag
		}
		suffix = ":" + t + "@" + subject
		r.class("list:ref-tag+digest")
	case q.byTag && tag != "":
		suffix = ":" + tag
		r.class("list:by-tag")
	}
	rf, err := r.e.refName(false, suffix)
	if suffix == "" || suffix[0] != '@' {
		label += " (" + suffix + ")"
	}
	return rf, label, subject, opts, err
}

func trimStack(st string) string {
	if i := strings.Index(st, "panic("); i >= 0 {
		st = st[i:]
	}
	if len(st) > 1800 {
		st = st[:1800]
	}
	return st
}

// callCtx returns the context a call is made with.
func (r *run) callCtx(kind string) (context.Context, context.CancelFunc) {
	switch kind {
	case "cancelled":
		ctx, cancel := context.WithCancel(r.ctx)
		cancel()
		return ctx, cancel
	case "expired":
		return context.WithDeadline(r.ctx, time.Now().Add(-time.Second))
	}
	return context.WithCancel(r.ctx)
}

// list asks through a client and judges the answer.
func (r *run) list(rc *regclient.RegClient, who string, q ask) *evid.Violation {
	rf, label, subject, opts, err := r.subjectRef(q)
	if err != nil {
		return evid.V("harness-ref", "cannot build subject ref: %v", err)
	}
	f := q.f
	ctx, cancel := r.callCtx(q.ctx)
	defer cancel()
	if q.ctx == "midflight" && r.e.isReg() {
		n := 0
		at := q.cancelAt
		if at < 1 {
			at = 1
		}
		r.e.hookMu.Lock()
		r.e.hook = func() {
			n++
			if n == at {
				cancel()
			}
		}
		r.e.hookMu.Unlock()
		defer func() { r.e.hookMu.Lock(); r.e.hook = nil; r.e.hookMu.Unlock() }()
	}
	var rl referrer.ReferrerList
	st := ""
	panicked := func() (p any) {
		defer func() {
			if p = recover(); p != nil {
				st = string(debug.Stack())
			}
		}()
		rl, err = rc.ReferrerList(ctx, rf, append(opts, f.opts()...)...)
		return nil
	}()
	if panicked != nil {
		ctxNote := "a live context"
		if q.ctx != "" {
			ctxNote = "a context that is " + q.ctx
			if q.ctx == "midflight" {
				ctxNote = fmt.Sprintf("a context cancelled when request %d of the call arrives", q.cancelAt)
			}
		}
		return evid.V("list-panics", "step %d (%s): ReferrerList(%s, %s) %s on %s with %s panics: %v\n%s", r.step, r.desc, label, f, who, r.sysDesc(), ctxNote, panicked, trimStack(st))
	}
	if q.ctx != "" {
		if rc == r.e.main {
			r.doneCalls++
		}
		r.class("ctx:list-" + q.ctx)
		if err != nil {
			// a call whose context ended may fail; what it must not do is change later answers
			if r.ctx.Err() != nil {
				r.watchdog = true
			}
			r.class("ctx:list-failed")
			return nil
		}
		// it answered nevertheless (layouts, cached answers, cancellation after the last request): the answer counts
		r.class("ctx:list-answered")
	}
	var v *evid.Violation
	if err != nil {
		if r.ctx.Err() != nil {
			r.watchdog = true
			return nil
		}
		v = evid.V("list-error", "step %d (%s): ReferrerList(%s, %s) %s on %s failed: %v", r.step, r.desc, label, f, who, r.sysDesc(), err)
	} else {
		v = r.compareList(who, label, subject, f, rl.Descriptors)
	}
	if v != nil && rc == r.e.main && r.doneCalls > 0 && r.c.Sys.Kind == "reg-api" && (v.Sig == "filter-drops-matching" || v.Sig == "list-entry-lost") {
		// entries missing from an answer of a client that earlier made a call with a done context, on a registry
		// with the referrers API (the fresh client sees them): one signature with or without a filter / cache
		v.Sig = "list-entry-lost-after-call-with-done-context"
		v.Msg += fmt.Sprintf(" [%d earlier call(s) through this client were made with a cancelled / expired context]", r.doneCalls)
	} else if v != nil && rc == r.e.main && f.none() {
		// the same question through a fresh client is asked after every step: a failure that only the
		// client under test shows is a property of its state (cache, feature detection)
		switch {
		case r.c.Sys.Cache:
			v.Sig += "-client-under-test-cached"
		default:
			v.Sig += "-client-under-test"
		}
	}
	if v == nil && rc == r.e.main && q.platform == 0 {
		r.lastMainList[q.si] = r.step
	}
	return v
}

// verify compares raw storage and the clients' answers with the model.
func (r *run) verify(mainToo bool) *evid.Violation {
	st := r.e.snapshot(r.u)
	// (a) raw storage agrees with the model: what a successful put stored is there, what a successful delete removed is gone
	for _, a := range r.u.arts {
		if r.u.byDigest[a.digest] != a {
			continue
		}
		if r.md.stored[a.digest] && !st.stored[a.digest] {
			return evid.V("stored-manifest-missing", "step %d (%s): %s was pushed successfully and not deleted, but is absent from raw storage of %s", r.step, r.desc, r.names([]string{a.digest}), r.sysDesc())
		}
		if !r.md.stored[a.digest] && st.stored[a.digest] {
			return evid.V("deleted-manifest-still-stored", "step %d (%s): %s was deleted successfully (or never pushed), but is present in raw storage of %s", r.step, r.desc, r.names([]string{a.digest}), r.sysDesc())
		}
	}
	for si, s := range r.u.subjects {
		want := r.md.referrers(s)
		rs := st.subj[si]
		// harness consistency: the independent raw scan must agree with the model's subject/type/annotation bookkeeping
		if len(rs.referrers) != len(want) {
			return evid.V("harness-raw-scan-disagrees", "step %d: raw scan finds %d referrers of subject %d, model %d", r.step, len(rs.referrers), si, len(want))
		}
		for d, a := range want {
			re, ok := rs.referrers[d]
			if !ok || re.Type != a.expType || !eqAnnot(re.Annot, a.expAnnot) {
				return evid.V("harness-raw-scan-disagrees", "step %d: raw scan of subject %d disagrees with the model about %s: %+v vs type %q annotations %v", r.step, si, short(d), re, a.expType, a.expAnnot)
			}
		}
		if len(want) >= 2 {
			r.twoLive = true
		}
		// (b) the client-managed fallback tag lists exactly the model's digests
		if r.c.Sys.Kind != "reg-api" {
			if rs.tagErr != "" {
				return evid.V("fallback-tag-unreadable", "step %d (%s): %s on %s", r.step, r.desc, rs.tagErr, r.sysDesc())
			}
			cnt := map[string]int{}
			for _, d := range rs.tagList {
				cnt[d]++
			}
			wk := []string{}
			for d := range want {
				wk = append(wk, d)
			}
			sort.Strings(wk)
			where := fmt.Sprintf("step %d (%s): raw fallback tag of subject %d (%s) on %s lists %s, model %s", r.step, r.desc, si, short(s), r.sysDesc(), r.names(rs.tagList), r.names(wk))
			for _, d := range rs.tagList {
				if cnt[d] > 1 {
					return evid.V("fallback-tag-entry-duplicated", "%s: %s appears %d times", where, r.names([]string{d}), cnt[d])
				}
				if a := r.objectDigestOf(d); a != nil {
					if _, ok := want[d]; !ok {
						return evid.V(sigObjDigest, "%s: %s is the digest carried by the manifest object pushed for art%d, but the push reference named it by the other algorithm and it is stored as %s: the listed digest is not a stored manifest (and the stored one is not listed)", where, d, a.idx, a.digest)
					}
				}
				if _, ok := want[d]; !ok {
					return evid.V("fallback-tag-entry-leftover", "%s: %s is not a stored manifest naming the subject", where, r.names([]string{d}))
				}
			}
			for _, d := range wk {
				if cnt[d] == 0 {
					return evid.V("fallback-tag-entry-lost", "%s: %s is stored and names the subject but is not listed", where, r.names([]string{d}))
				}
			}
			if len(want) == 0 && rs.hasTag {
				r.class("raw:empty-fallback-index-kept")
			}
		}
	}
	// (c) any client asking now gets exactly the model's set (fresh client, no cache)
	obs := r.e.newClient(false)
	for si := range r.u.subjects {
		if v := r.list(obs, "through a fresh client", ask{si: si}); v != nil {
			return v
		}
	}
	// (d) so does the client under test (cached answers included)
	if mainToo {
		for si := range r.u.subjects {
			if r.lastMainList[si] >= 0 && r.lastMutation[si] > r.lastMainList[si] && r.c.Sys.Cache {
				r.class("cache:list-mutate-list")
				if r.c.LookForm != "" {
					r.class("cache:list-mutate-list:" + r.c.LookForm + ":" + r.c.Sys.Kind)
				}
			}
			if v := r.list(r.e.main, "through the client under test", ask{si: si, form: r.c.LookForm, byTag: r.c.LookForm == "tag"}); v != nil {
				return v
			}
		}
	}
	return nil
}

const sigObjDigest = "referrer-recorded-under-object-digest-not-reference-digest"

// objectDigestOf returns the pool artifact whose pushed manifest object carries digest d while it is stored under
// the (different) digest of its push reference.
func (r *run) objectDigestOf(d string) *rart {
	for _, a := range r.u.arts {
		if a.objDigest == d && a.digest != d {
			if _, plain := r.u.byDigest[d]; !plain {
				return a
			}
		}
	}
	return nil
}

func (r *run) mutated(a *rart) {
	for si, s := range r.u.subjects {
		if a.subject == s {
			r.lastMutation[si] = r.step
		}
	}
}

// newManifest builds the manifest object identified by the digest want (a.objDigest for a push, a.digest - what
// the manifest is stored under - when the object accompanies a delete of that reference).
func (r *run) newManifest(a *rart, want string) (manifest.Manifest, error) {
	return r.newManifestObj(nil, a, want, "")
}

// newManifestObj: obj selects how the object is obtained (Art.Obj); descriptor annotations are not part of the
// manifest - whatever the object's descriptor carries, the artifact's annotations are those of its body.
func (r *run) newManifestObj(rc *regclient.RegClient, a *rart, want string, obj string) (manifest.Manifest, error) {
	var m manifest.Manifest
	var err error
	switch obj {
	case "get-tag", "get-digest":
		suffix := fmt.Sprintf(":src%d", a.idx)
		if obj == "get-digest" {
			suffix = "@" + want
		}
		var rf ref.Ref
		if rf, err = ref.New("ocidir://" + r.e.srcDir + suffix); err == nil {
			m, err = rc.ManifestGet(r.ctx, rf)
		}
	default:
		opts := []manifest.Opts{manifest.WithRaw(append([]byte{}, a.body...))}
		d := descriptor.Descriptor{MediaType: a.mediaType, Digest: godigest.Digest(want), Size: int64(len(a.body))}
		if obj == "desc" {
			d.Annotations = map[string]string{aRefName: "some-tag", aSrcNote: "from a descriptor"}
			d.ArtifactType = typeUnknown
		}
		if obj == "desc" || strings.HasPrefix(want, "sha512:") {
			// the descriptor's digest selects the algorithm the manifest is identified by
			opts = append(opts, manifest.WithDesc(d))
		}
		m, err = manifest.New(opts...)
	}
	if err == nil && m.GetDescriptor().Digest.String() != want {
		return nil, fmt.Errorf("manifest.New computes digest %s, harness %s", m.GetDescriptor().Digest, want)
	}
	return m, err
}

func (r *run) doPut(ctx context.Context, rc *regclient.RegClient, a *rart) error {
	m, err := r.newManifestObj(rc, a, a.objDigest, a.Art.Obj)
	if err != nil {
		return fmt.Errorf("harness: manifest.New: %w", err)
	}
	var rf ref.Ref
	var opts []regclient.ManifestOpts
	if a.tag != "" {
		rf, err = r.e.refTag(a.tag)
	} else {
		rf, err = r.e.refDigest(a.digest)
		if a.Art.Child {
			opts = append(opts, regclient.WithManifestChild())
		}
	}
	if err != nil {
		return fmt.Errorf("harness: ref: %w", err)
	}
	return rc.ManifestPut(ctx, rf, m, opts...)
}

func (r *run) doDelete(ctx context.Context, rc *regclient.RegClient, a *rart, mode string, form string) error {
	rf, err := r.e.refDigest(a.digest)
	if form == "tag+digest" {
		// the digest is what is deleted; the tag part of such a reference is ignored
		t := a.tag
		if t == "" {
			t = strayTag
		}
		rf, err = r.e.refName(true, ":"+t+"@"+a.digest)
	}
	if err != nil {
		return fmt.Errorf("harness: ref: %w", err)
	}
	var opts []regclient.ManifestOpts
	if mode == "fetched" {
		// WithManifest(m) with the manifest as the client itself returns it
		m, err := rc.ManifestGet(ctx, rf)
		if err != nil {
			return fmt.Errorf("ManifestGet before delete: %w", err)
		}
		return rc.ManifestDelete(ctx, rf, regclient.WithManifest(m))
	}
	if mode != "manifest" {
		opts = append(opts, regclient.WithManifestCheckReferrers())
	}
	if mode == "manifest" || mode == "both" {
		// the manifest that is being deleted: the object identified by the digest of the reference
		m, err := r.newManifest(a, a.digest)
		if err != nil {
			return fmt.Errorf("harness: manifest.New: %w", err)
		}
		opts = append(opts, regclient.WithManifest(m))
	}
	return rc.ManifestDelete(ctx, rf, opts...)
}

// artClasses labels the audit dimensions of an artifact that is being pushed.
func (r *run) artClasses(a *rart) {
	if a.Art.Sha512 {
		r.class("art:sha512-digest")
	}
	switch a.Art.Obj {
	case "desc", "get-tag", "get-digest":
		r.class("obj:" + a.Art.Obj)
		if len(a.expAnnot) == 0 {
			r.class("obj:descriptor-annotated-artifact-without-annotations")
		} else {
			r.class("obj:descriptor-annotated-artifact-with-annotations")
		}
	}
	if a.Art.OtherAlg {
		if a.Art.Sha512 {
			r.class("art:sha512-object-pushed-to-sha256-ref")
		} else {
			r.class("art:sha256-object-pushed-to-sha512-ref")
		}
	}
	if a.Art.PartialSubject {
		r.class("art:partial-subject-descriptor")
	}
	if a.Art.NoMediaType && a.Art.Kind == "image" {
		r.class("art:no-mediatype-field")
	}
	if a.tag == sharedTag {
		r.class("art:shared-tag")
		if d, ok := r.tagOwner[sharedTag]; ok && d != a.digest {
			r.class("art:shared-tag-moves")
		}
	}
	switch norm(a.Art.Annot, len(annotSets)) {
	case 4:
		r.class("art:annotations-empty-object")
	case 5:
		r.class("art:annotations-escapes")
	}
}

func (r *run) art(i int) *rart {
	a := r.u.arts[norm(i, len(r.u.arts))]
	return a
}

func delMode(s string) string {
	switch s {
	case "manifest", "both", "fetched":
		return s
	}
	return "check"
}

// applyPut / applyDelete update the model after a successful operation.
func (r *run) applyPut(a *rart) {
	r.md.stored[a.digest] = true
	r.otherAlgStored[a.digest] = a.digest != a.objDigest
	if a.tag != "" {
		r.tagOwner[a.tag] = a.digest // the tag now names this manifest (a shared tag moves)
	}
	r.mutated(a)
}

func (r *run) applyDelete(a *rart) {
	delete(r.md.stored, a.digest)
	// a manifest delete removes every tag pointing at it
	for t, d := range r.tagOwner {
		if d == a.digest {
			delete(r.tagOwner, t)
		}
	}
	r.mutated(a)
}

func (r *run) stepSeq(op Op) *evid.Violation {
	switch op.Op {
	case "put":
		a := r.art(op.Art)
		r.desc = fmt.Sprintf("put art%d %s subject %d", a.idx, a.Art.Kind, a.Art.Subject)
		switch {
		case r.md.stored[a.digest]:
			r.class("op:put-repush")
		case r.everStored[a.digest]:
			r.class("op:put-after-delete")
		default:
			r.class("op:put-new")
		}
		r.class("art:" + a.Art.Kind)
		r.class(fmt.Sprintf("subject:%d", a.Art.Subject))
		r.artClasses(a)
		if op.Ctx == "cancelled" || op.Ctx == "expired" {
			// a push made with a context that is already done: it either happens (layouts ignore the context) or fails
			// having sent nothing; verify() then holds the client to the unchanged model
			ctx, cancel := r.callCtx(op.Ctx)
			err := r.doPut(ctx, r.e.main, a)
			cancel()
			r.doneCalls++
			r.class("ctx:put-" + op.Ctx)
			r.desc += " with a " + op.Ctx + " context"
			if err == nil {
				r.everStored[a.digest] = true
				r.applyPut(a)
			}
			return nil
		}
		if err := r.doPut(r.ctx, r.e.main, a); err != nil {
			if r.ctx.Err() != nil {
				r.watchdog = true
				return nil
			}
			return evid.V("put-error", "step %d (%s): ManifestPut of a valid %s manifest with a subject failed on %s: %v", r.step, r.desc, a.Art.Kind, r.sysDesc(), err)
		}
		r.everStored[a.digest] = true
		r.applyPut(a)
	case "delete":
		a := r.art(op.Art)
		mode := delMode(op.Del)
		r.desc = fmt.Sprintf("delete art%d (%s) subject %d", a.idx, mode, a.Art.Subject)
		live := r.md.stored[a.digest]
		if live {
			r.class("op:delete-live")
			r.class("delete-mode:" + mode)
			if a.digest != a.objDigest || r.otherAlgStored[a.digest] {
				r.class("op:delete-live-pushed-under-other-algorithm")
			}
			if len(r.md.referrers(a.subject)) == 1 {
				r.class("op:delete-last-referrer")
			}
			if a.idx == 0 && len(r.md.referrers(a.digest)) > 0 {
				r.class("op:delete-subject-that-has-referrers")
			}
		} else {
			r.class("op:delete-absent")
		}
		if op.RefForm == "tag+digest" {
			r.class("delete:ref-tag+digest")
		}
		if op.Ctx == "cancelled" || op.Ctx == "expired" {
			ctx, cancel := r.callCtx(op.Ctx)
			err := r.doDelete(ctx, r.e.main, a, mode, op.RefForm)
			cancel()
			r.doneCalls++
			r.class("ctx:delete-" + op.Ctx)
			r.desc += " with a " + op.Ctx + " context"
			if err == nil && live {
				r.liveDeletes++
				r.applyDelete(a)
			}
			return nil
		}
		err := r.doDelete(r.ctx, r.e.main, a, mode, op.RefForm)
		if r.ctx.Err() != nil {
			r.watchdog = true
			return nil
		}
		if live {
			if err != nil {
				return evid.V("delete-error", "step %d (%s): referrer-aware ManifestDelete of a stored manifest failed on %s: %v", r.step, r.desc, r.sysDesc(), err)
			}
			r.liveDeletes++
			r.applyDelete(a)
		} else if err == nil {
			r.class("delete-absent-returned-nil")
		}
	case "list":
		si := norm(op.Subject, 3)
		r.desc = fmt.Sprintf("list subject %d", si)
		f := op.Filter
		if f.typeName() != "" {
			r.class("list:filter-type")
		}
		if norm(f.Annot, len(annotFilters)) != 0 {
			r.class("list:filter-annotations")
		}
		if norm(f.Sort, len(sortOpts)) != 0 {
			r.class("list:sort")
		}
		if f.Deprecated {
			r.class("list:deprecated-options")
		}
		if r.lastMainList[si] >= 0 && r.lastMutation[si] > r.lastMainList[si] && r.c.Sys.Cache {
			r.class("cache:list-mutate-list")
		}
		q := ask{si: si, byTag: op.ByTag, form: op.RefForm, f: f, ctx: op.Ctx, cancelAt: op.CancelAt}
		if si == 0 {
			q.platform = norm(op.Platform, 3)
		}
		if v := r.list(r.e.main, "through the client under test", q); v != nil {
			return v
		}
	}
	return nil
}

// zoneSig names the failure zone of a concurrent batch.
func (r *run) zoneSig(hasDelete bool) string {
	z := "puts-only"
	if hasDelete {
		z = "with-delete"
	}
	return "concurrent-" + r.c.Sys.Kind + "-" + z
}

func (r *run) stepBatch(op Op) *evid.Violation {
	si := norm(op.Subject, 3)
	subject := r.u.subjects[si]
	// members: distinct artifacts naming the batch's one subject
	type member struct {
		b    BOp
		a    *rart
		live bool
		err  error
	}
	var ms []*member
	seen := map[string]bool{}
	for _, b := range op.Batch {
		a := r.art(b.Art)
		if (!op.Mixed && a.subject != subject) || seen[a.digest] || len(ms) >= 4 {
			continue
		}
		seen[a.digest] = true
		if b.Op != "delete" {
			b.Op = "put"
		}
		b.Del = delMode(b.Del)
		ms = append(ms, &member{b: b, a: a, live: r.md.stored[a.digest]})
	}
	if len(ms) == 0 {
		r.desc = "empty batch"
		return nil
	}
	nDel, nPut, nLiveDel := 0, 0, 0
	parts := []string{}
	for _, m := range ms {
		if m.b.Op == "delete" {
			nDel++
			if m.live {
				nLiveDel++
			}
			parts = append(parts, fmt.Sprintf("delete art%d(%s)", m.a.idx, m.b.Del))
		} else {
			nPut++
			parts = append(parts, fmt.Sprintf("put art%d", m.a.idx))
		}
	}
	r.desc = fmt.Sprintf("concurrent batch on subject %d {%s}", si, strings.Join(parts, " || "))
	if len(ms) >= 2 {
		r.batches++
		r.class(fmt.Sprintf("batch:size-%d", len(ms)))
		switch {
		case nLiveDel >= 2:
			r.class("batch:delete+delete")
		}
		if nLiveDel >= 1 && nPut >= 1 {
			r.class("batch:delete+put")
		}
		if nPut >= 2 {
			r.class("batch:put+put")
		}
		if r.c.Sys.Kind == "reg-fallback" && nLiveDel >= 1 {
			r.class("batch:fallback-with-live-delete")
		}
		r.class("batch:" + r.c.Sys.Kind)
		subs := map[string]bool{}
		for _, m := range ms {
			subs[m.a.subject] = true
		}
		if len(subs) > 1 {
			r.class("batch:mixed-subjects")
		}
	}
	r.e.setDelays(r.c.Delays)
	start := make(chan struct{})
	var wg sync.WaitGroup
	for _, m := range ms {
		wg.Add(1)
		go func(m *member) {
			defer wg.Done()
			<-start
			if m.b.StartUs > 0 {
				time.Sleep(time.Duration(m.b.StartUs) * time.Microsecond)
			}
			if m.b.Op == "delete" {
				m.err = r.doDelete(r.ctx, r.e.main, m.a, m.b.Del, m.b.RefForm)
			} else {
				m.err = r.doPut(r.ctx, r.e.main, m.a)
			}
		}(m)
	}
	close(start)
	done := make(chan struct{})
	go func() { wg.Wait(); close(done) }()
	select {
	case <-done:
	case <-time.After(90 * time.Second):
		r.watchdog = true
		return nil
	}
	r.e.setDelays(nil)
	if r.ctx.Err() != nil {
		r.watchdog = true
		return nil
	}
	zone := r.zoneSig(nDel > 0)
	// the unique result of the commuting operations
	for _, m := range ms {
		if m.b.Op == "put" {
			if m.err != nil {
				return evid.V(zone, "step %d (%s): ManifestPut of art%d failed on %s: %v", r.step, r.desc, m.a.idx, r.sysDesc(), m.err)
			}
			r.everStored[m.a.digest] = true
			r.applyPut(m.a)
		} else if m.live {
			if m.err != nil {
				return evid.V(zone, "step %d (%s): referrer-aware ManifestDelete of stored art%d failed on %s: %v", r.step, r.desc, m.a.idx, r.sysDesc(), m.err)
			}
			r.liveDeletes++
			r.applyDelete(m.a)
		}
	}
	if v := r.verify(true); v != nil {
		// membership failures (an entry lost, left over or duplicated in the list or in the fallback tag) right
		// after a batch - the state was verified before it - are attributed to the batch's zone; anything
		// else (types, annotations, filters, harness) keeps its own signature
		if (strings.HasPrefix(v.Sig, "list-entry-") || strings.HasPrefix(v.Sig, "fallback-tag-entry-")) && !strings.HasSuffix(v.Sig, "-after-call-with-done-context") {
			v.Msg = "[" + v.Sig + "] " + v.Msg
			v.Sig = zone
		}
		return v
	}
	return nil
}

func check(c Case, ev *evid.Collector) *evid.Violation {
	if len(c.Arts) == 0 {
		ev.Case(false, "", "degenerate:no-artifacts")
		return nil
	}
	u := build(c.Arts, c.Sys.Sha512Absent)
	switch c.Sys.Kind {
	case "reg-api", "reg-fallback", "ocidir":
	default:
		return evid.V("harness-setup", "unknown system %q", c.Sys.Kind)
	}
	e, err := setup(c.Sys)
	if err != nil {
		return evid.V("harness-setup", "%v", err)
	}
	defer e.close()
	for _, a := range u.arts {
		if strings.HasPrefix(a.Art.Obj, "get-") {
			if err := e.buildSource(u); err != nil {
				return evid.V("harness-setup", "%v", err)
			}
			break
		}
	}
	if c.Procs > 0 {
		prev := runtime.GOMAXPROCS(c.Procs)
		defer runtime.GOMAXPROCS(prev)
	}
	ctx, cancel := context.WithTimeout(context.Background(), 120*time.Second)
	defer cancel()
	r := &run{c: c, e: e, u: u, md: &model{u: u, stored: map[string]bool{}}, ev: ev, ctx: ctx, classes: map[string]bool{},
		otherAlgStored: map[string]bool{}, tagOwner: map[string]string{}, everStored: map[string]bool{}}
	for i := range r.lastMainList {
		r.lastMainList[i] = -1
		r.lastMutation[i] = -1
	}
	r.class("sys:" + c.Sys.Kind)
	if c.Sys.Cache {
		r.class("sys:cache")
	}
	if c.Sys.Kind == "reg-api" {
		if c.Sys.PageSize > 0 {
			r.class(fmt.Sprintf("sys:paged-%d", c.Sys.PageSize))
		}
		if c.Sys.ServerFilter {
			r.class("sys:server-filter")
		}
	}
	if c.Sys.Kind != "ocidir" {
		if !c.Sys.TagDelete {
			r.class("sys:no-tag-delete")
		}
		if c.Sys.HeadNoDigest {
			r.class("sys:head-no-digest")
		}
	}
	if c.Sys.Sha512Absent {
		r.class("sys:sha512-absent-subject")
	}
	if c.Sys.External {
		r.class("sys:external-referrer-repo")
	}
	if c.Sys.LinkAbs {
		r.class("sys:link-absolute-url")
	}
	if c.Sys.CacheShort {
		r.class("sys:cache-expires-1ms")
	}
	if c.Sys.ReqConcurrent > 0 && c.Sys.Kind != "ocidir" {
		r.class(fmt.Sprintf("sys:req-concurrent-%d", c.Sys.ReqConcurrent))
	}

	var viol *evid.Violation
	r.step = -1
	r.desc = "initial state"
	viol = r.verify(!c.ColdStart)
	if c.ColdStart {
		r.class("sys:cold-start")
	}
	if c.LookForm != "" {
		r.class("look-form:" + c.LookForm)
	}
	for i := 0; viol == nil && i < len(c.History) && !r.watchdog; i++ {
		op := c.History[i]
		r.step = i
		var v *evid.Violation
		if op.Op == "batch" {
			v = r.stepBatch(op)
		} else {
			v = r.stepSeq(op)
			if v == nil && !r.watchdog {
				// after a call with a done context the client under test is always asked too
				v = r.verify(op.Look || op.Ctx != "")
			}
		}
		if v != nil && !r.watchdog && strings.HasPrefix(v.Sig, "concurrent-") && ev.IsKnown(v.Sig) {
			// a recorded defect of concurrent updates: count it, put the system back into the state a correct
			// client would have left (fallback tags rebuilt from the stored manifests, fresh client) and go on
			ev.Report(v, c)
			r.class("known-defect-repaired:" + v.Sig)
			if e.sys.Kind != "reg-fallback" {
				break
			}
			e.repairFallback(u)
			st := e.snapshot(u)
			r.md.stored = map[string]bool{}
			for d := range st.stored {
				r.md.stored[d] = true
			}
			e.main = e.newClient(true)
			for i := range r.lastMainList {
				r.lastMainList[i] = -1
			}
			if v2 := r.verify(true); v2 != nil {
				return evid.V("harness-repair", "state after repair is inconsistent: %v", v2)
			}
			continue
		}
		viol = v
	}

	nt := (r.twoLive && r.liveDeletes >= 1) || r.batches >= 1
	cl := make([]string, 0, len(r.classes))
	for k := range r.classes {
		cl = append(cl, k)
	}
	sort.Strings(cl)
	if r.watchdog {
		cl = append(cl, "outcome:watchdog")
		nt = false
	}
	key, _ := json.Marshal(c)
	ev.Case(nt, string(key), cl...)
	ev.Sample(c)
	if e.m != nil && e.m.CapHit() {
		return evid.V("harness-request-cap", "request cap hit after %d requests", e.m.Requests())
	}
	if r.watchdog {
		return &evid.Violation{Sig: sigWatchdog, Msg: "wall-clock watchdog fired (inconclusive)"}
	}
	return viol
}

const sigWatchdog = "inconclusive-watchdog"

// ---------------------------------------------------------------- tests

// tolerated reads VERIF_C10_TOLERATE (comma separated signatures). It is a triage aid for whoever works on this
// check: a listed signature is counted as class "tolerated:<sig>" instead of failing, so that one can look behind an
// open finding without touching known_findings.jsonl. run.py never sets it.
func tolerated(sig string) bool {
	for _, s := range strings.Split(os.Getenv("VERIF_C10_TOLERATE"), ",") {
		if s != "" && s == sig {
			return true
		}
	}
	return false
}

func runCase(t interface {
	Fatalf(string, ...any)
}, c Case, ev *evid.Collector) {
	v := evid.Guard(func() *evid.Violation { return check(c, ev) })
	if v != nil && tolerated(v.Sig) {
		ev.Class("tolerated:" + v.Sig)
		return
	}
	if v != nil && v.Sig == sigWatchdog {
		// inconclusive: fail without a failure record
		t.Fatalf("%v", v)
	}
	if ev.Report(v, c) {
		t.Fatalf("%v", v)
	}
}

func TestVerifProp(t *testing.T) {
	ev := evid.For(prop)
	rapid.Check(t, func(rt *rapid.T) {
		c := gen(rt, false)
		runCase(rt, c, ev)
	})
}

// TestVerifConc is the concurrency-focused job (built with -race in the thorough tier).
func TestVerifConc(t *testing.T) {
	ev := evid.For(prop)
	rapid.Check(t, func(rt *rapid.T) {
		c := gen(rt, true)
		runCase(rt, c, ev)
	})
}

func hasBatch(c Case) bool {
	for _, op := range c.History {
		if op.Op == "batch" {
			return true
		}
	}
	return false
}

// replay runs a saved case; schedule-dependent cases (those with a concurrent
// batch) are repeated.
func replay(t *testing.T, c Case, ev *evid.Collector, reps int) bool {
	if !hasBatch(c) {
		reps = 1
	}
	for i := 0; i < reps; i++ {
		v := evid.Guard(func() *evid.Violation { return check(c, ev) })
		if v != nil && v.Sig == sigWatchdog {
			t.Errorf("%v", v)
			return true
		}
		if v != nil {
			if tolerated(v.Sig) {
				ev.Class("tolerated:" + v.Sig)
				return true
			}
			if ev.Report(v, c) {
				t.Errorf("repetition %d: %v", i, v)
			}
			return true
		}
	}
	return false
}

func TestVerifReplayDir(t *testing.T) {
	ev := evid.For(prop)
	for _, f := range evid.ReplayFiles() {
		var c Case
		if err := evid.LoadCaseFile(f, &c); err != nil {
			t.Fatalf("%s: %v", f, err)
		}
		replay(t, c, ev, 200)
	}
}

func TestVerifReplay(t *testing.T) {
	ev := evid.For(prop)
	var c Case
	ok, err := evid.LoadReplay(&c)
	if !ok {
		t.Skip("no VERIF_REPLAY")
	}
	if err != nil {
		t.Fatal(err)
	}
	if !replay(t, c, ev, 300) {
		t.Logf("case passed")
	}
}
