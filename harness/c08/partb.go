package c08

// Part B: schedules of concurrent copies and closes through one client.

import (
	"bytes"
	"context"
	"encoding/json"
	"fmt"
	"os"
	"path/filepath"
	"runtime"
	"sort"
	"strings"
	"sync"
	"time"

	"github.com/opencontainers/go-digest"

	"github.com/regclient/regclient"
	"github.com/regclient/regclient/types"
	"github.com/regclient/regclient/types/descriptor"
	"github.com/regclient/regclient/types/ref"
	"github.com/regclient/regclient/zz_verif/audit"
	"github.com/regclient/regclient/zz_verif/evid"
	"github.com/regclient/regclient/zz_verif/imggen"
	"github.com/regclient/regclient/zz_verif/rcutil"
	rm "github.com/regclient/regclient/zz_verif/regmodel"
)

var sentinel = []byte("c08 sentinel: a blob nobody references")

var delayTable = []time.Duration{0, 50 * time.Microsecond, 300 * time.Microsecond, 2 * time.Millisecond}

type copyState struct {
	started  bool
	done     bool
	err      error
	seen     map[string]bool // digest files seen at this copy's own source requests
	atReturn map[string]bool // closure below its tag at the instant it returned nil
	atTag    map[string]bool // closure below its tag right after the tag was written (still inside the copy)
	seen2    map[string]bool // RefTgt == 2: digest files of the second layout seen at this copy's own instants
	atRet2   map[string]bool // RefTgt == 2: what the second layout reached (below its entries) when the copy returned nil
	requests int
	late     int // events observed after the copy had returned
	cancel   context.CancelFunc
	blobReqs int
}

// candidate is a violation observed from inside copy number `copy`; it is classified when all copies have returned.
type candidate struct {
	copy int
	late bool // observed after ImageCopy had returned (the event came from a goroutine the copy left behind)
	sig  string
	msg  string
}

// sigStray is the known finding: ImageCopy with referrers / digest-tags that fails can return (and release its GC
// lock) while goroutines it started are still copying blobs into the layout.
const sigStray = "gc-ran-while-failed-copy-still-writing"

func (e *envB) addCand(i int, late bool, sig, msg string) {
	for _, c := range e.cands {
		if c.copy == i && c.sig == sig {
			return
		}
	}
	if len(e.cands) < 40 {
		e.cands = append(e.cands, candidate{copy: i, late: late, sig: sig, msg: msg})
	}
}

type envB struct {
	c    *CaseB
	tmp  string
	tgt  string
	tgtS string // spelling of the layout path in every reference
	// the second layout: target of referrers of copies with RefTgt == 2
	tgt2      string
	tgt2S     string
	src2S     string // a layout holding the whole graph (ImageWithReferrerSrc)
	closeRef2 ref.Ref
	m         *rm.Model
	rc        *regclient.RegClient

	closeRef ref.Ref
	closeAt  map[int]bool

	mu            sync.Mutex
	copies        []*copyState
	seenAll       map[string]bool
	reqs          int // source requests observed so far
	inflight      int
	maxInflight   int
	closesInCopy  int
	failWhileBusy int
	cands         []candidate
	closeErrs     []string
	finished      bool
	deadCtxCloses int
	closes2       int
}

// diag describes the layout at the instant a disappearance is noticed (message only).
func (e *envB) diag(gone []string) string {
	var sb strings.Builder
	sb.WriteString("\n  diagnosis:")
	for _, d := range head(gone, 4) {
		if !strings.Contains(d, ":") {
			continue
		}
		_, err := os.Stat(filepath.Join(e.tgt, "blobs", digestKey(d)))
		fmt.Fprintf(&sb, " stat(%.19s)=%v;", d, err)
	}
	v := reach(e.tgt)
	tags := []string{}
	for _, en := range v.entries {
		n, _ := audit.TagOf(en)
		tags = append(tags, fmt.Sprintf("%s=%.19s", n, en.Digest))
	}
	fmt.Fprintf(&sb, " index.json entries now: %v;", tags)
	for _, d := range head(gone, 4) {
		_, in := v.info[d]
		fmt.Fprintf(&sb, " reachable(%.19s)=%v;", d, in)
	}
	st := []string{}
	for j, cs := range e.copies {
		st = append(st, fmt.Sprintf("#%d started=%v done=%v err=%v", j, cs.started, cs.done, cs.err != nil))
	}
	fmt.Fprintf(&sb, " copies: %v; closes from inside copies so far: %d", st, e.closesInCopy)
	return sb.String()
}

func (e *envB) hasIndex2() bool {
	_, err := os.Stat(filepath.Join(e.tgt2, "index.json"))
	return err == nil
}

func (e *envB) hasIndex() bool {
	_, err := os.Stat(filepath.Join(e.tgt, "index.json"))
	return err == nil
}

func short(err error) string {
	if err == nil {
		return ""
	}
	s := err.Error()
	if len(s) > 160 {
		s = s[:160] + "…"
	}
	return s
}

func copyRepo(i int) string { return fmt.Sprintf("proj/c%d", i) }
func copyTag(i int) string  { return fmt.Sprintf("c%d", i) }

func setupB(c *CaseB) (*envB, error) {
	e := &envB{c: c, seenAll: map[string]bool{}, closeAt: map[int]bool{}}
	tmp, err := os.MkdirTemp("", "c08b")
	if err != nil {
		return nil, err
	}
	e.tmp = tmp
	e.tgt = filepath.Join(tmp, "tgt")
	g := c.Graph
	e.m = rm.New()
	e.m.Cap = 20000
	h := e.m.AddHost(srcHost)
	h.Feat = rm.Features{Referrers: c.RefAPI, TagDelete: true}
	for _, i := range c.Delays {
		h.Delays = append(h.Delays, delayTable[((i%len(delayTable))+len(delayTable))%len(delayTable)])
	}
	ext := e.m.AddExternal(extHost)
	g.PutExternal(ext)
	for i := range c.Copies {
		g.PutRegistry(h, copyRepo(i), !c.RefAPI, nil)
		e.copies = append(e.copies, &copyState{seen: map[string]bool{}})
		if f := c.Copies[i].Fault; f != nil && f.Kind == "wrong-bytes" {
			// this copy's own repository serves other bytes for one blob: the push of it fails on the digest, part-way
			nN := len(g.Nodes)
			corruptBlob(e.m, copyRepo(i), g, ((c.Copies[i].Node%nN)+nN)%nN, f.Nth)
		}
	}
	pre := c.Pre
	if err := writePre(g, e.tgt, pre, nil, false); err != nil {
		return nil, err
	}
	for _, k := range c.CloseAt {
		e.closeAt[k] = true
	}
	e.tgt2 = filepath.Join(tmp, "tgt2")
	pre2 := c.Pre2
	if pre2 == "" {
		pre2 = "absent"
	}
	if err := writePre(g, e.tgt2, pre2, nil, false); err != nil {
		return nil, err
	}
	src2 := filepath.Join(tmp, "src2")
	for i, cp := range c.Copies {
		if cp.RefSrc == 2 {
			g.PutRegistry(h, copyRepo(i)+"rs", !c.RefAPI, nil)
		}
		if cp.RefSrc == 1 && e.src2S == "" {
			if err := g.PutLayout(src2, imggen.LayoutStyle{UntaggedAll: true}, nil); err != nil {
				return nil, err
			}
			e.src2S = spell(src2, c.PathForm)
		}
		e.copies[i].seen2 = map[string]bool{}
	}
	e.tgt2S = spell(e.tgt2, c.PathForm)
	if e.closeRef2, err = ref.New("ocidir://" + e.tgt2S + ":c0"); err != nil {
		return nil, err
	}
	e.tgtS = spell(e.tgt, c.PathForm)
	e.closeRef, err = ref.New("ocidir://" + e.tgtS + ":c0")
	if err != nil {
		return nil, err
	}
	e.rc = rcutil.New(e.m, rcutil.Conf{})
	return e, nil
}

// onArrive observes the layout from inside a source request. The request is
// issued by ImageCopy number i itself (each copy reads its own repository), so
// copy i provably is in progress for as long as this callback runs.
func (e *envB) onArrive(en *rm.Entry) {
	if en.Host != srcHost || !strings.HasPrefix(en.Repo, "proj/c") {
		return
	}
	var i int
	if _, err := fmt.Sscanf(en.Repo, "proj/c%d", &i); err != nil || i < 0 || i >= len(e.copies) {
		return
	}
	e.observe(i, "its source request "+en.Method+" "+en.Path, false)
}

// onDone implements the fault kind cancel: the context of copy i ends right after its Nth blob request was answered, so
// the body breaks off while the blob is being written.
func (e *envB) onDone(en *rm.Entry) {
	if en.Host != srcHost || en.Class != "blob-get" || !strings.HasPrefix(en.Repo, "proj/c") {
		return
	}
	var i int
	if _, err := fmt.Sscanf(en.Repo, "proj/c%d", &i); err != nil || i < 0 || i >= len(e.copies) {
		return
	}
	f := e.c.Copies[i].Fault
	if f == nil || f.Kind != "cancel" {
		return
	}
	e.mu.Lock()
	cs := e.copies[i]
	hit := cs.blobReqs == f.Nth%3
	cs.blobReqs++
	cancel := cs.cancel
	e.mu.Unlock()
	if hit && cancel != nil {
		cancel()
	}
}

// callback is the progress callback of copy i: every event but "active" is
// delivered synchronously by a goroutine ImageCopy waits for, i.e. while copy i
// is in progress. The "finished" event of the top manifest (instance "") comes
// right after the tag was written.
func (e *envB) callback(i int) func(kind types.CallbackKind, instance string, state types.CallbackState, cur, total int64) {
	return func(kind types.CallbackKind, instance string, state types.CallbackState, cur, total int64) {
		if state == types.CallbackActive {
			return
		}
		e.observe(i, fmt.Sprintf("its progress callback %s %q %d", kind, instance, state), kind == types.CallbackManifest && instance == "" && state == types.CallbackFinished)
	}
}

// observe runs at an instant at which copy i provably is in progress.
func (e *envB) observe(i int, what string, tagWritten bool) {
	e.mu.Lock()
	defer e.mu.Unlock()
	if e.finished {
		return
	}
	k := e.reqs
	e.reqs++
	cs := e.copies[i]
	cs.requests++
	late := cs.done
	if late {
		// ImageCopy #i has returned already, yet here is one of its goroutines, still copying
		cs.late++
		if os.Getenv("VERIF_DEBUG") != "" {
			fmt.Fprintf(os.Stderr, "late event of copy %d (returned %v): %s\n", i, cs.err, what)
		}
	}
	files := listDigestFiles(e.tgt)
	{
		gone := []string{}
		for d := range cs.seen {
			if !files[d] && !present(e.tgt, d) {
				gone = append(gone, d)
			}
		}
		if len(gone) > 0 {
			sort.Strings(gone)
			e.addCand(i, late, "file-disappeared-during-copy", fmt.Sprintf("while ImageCopy #%d (node %d -> tag %s) was in progress, %d file(s) under blobs/ that were there at an earlier instant of the same copy are gone at %s: %v%s",
				i, e.c.Copies[i].Node, copyTag(i), len(gone), what, head(gone, 4), e.diag(gone)))
		}
	}
	for d := range files {
		cs.seen[d] = true
		e.seenAll[d] = true
	}
	into2 := e.c.Copies[i].Referrers && e.c.Copies[i].RefTgt == 2
	var files2 map[string]bool
	if into2 {
		// this copy writes its referrers into the second layout: it is a copy in progress into that layout too
		files2 = listDigestFiles(e.tgt2)
		gone := []string{}
		for d := range cs.seen2 {
			if !files2[d] && !present(e.tgt2, d) {
				gone = append(gone, d)
			}
		}
		if len(gone) > 0 {
			sort.Strings(gone)
			e.addCand(i, late, "file-disappeared-during-copy-referrer-target-layout", fmt.Sprintf("while ImageCopy #%d (node %d -> tag %s, referrers into the SECOND layout) was in progress, %d file(s) under blobs/ of that second layout that were there at an earlier instant of the same copy are gone at %s: %v",
				i, e.c.Copies[i].Node, copyTag(i), len(gone), what, head(gone, 4)))
		}
		for d := range files2 {
			cs.seen2[d] = true
		}
	}
	if tagWritten {
		if cs.atTag == nil {
			cs.atTag = map[string]bool{}
		}
		for d := range reachFrom(e.tgt, copyTag(i)) {
			cs.atTag[d] = true
		}
	}
	if e.closeAt[k] || (e.c.CloseEvery > 0 && k%e.c.CloseEvery == 0) {
		hadIndex := e.hasIndex()
		ck := 0
		if n := len(e.c.CloseCtx); n > 0 {
			ck = e.c.CloseCtx[e.closesInCopy%n]
		}
		cctx, ccancel := mkCtx(ck)
		cerr := e.rc.Close(cctx, e.closeRef)
		ccancel()
		after := listDigestFiles(e.tgt)
		e.closesInCopy++
		if ck%4 != 0 {
			e.deadCtxCloses++
		}
		if cerr != nil && hadIndex && !(ck%4 != 0 && ctxError(cerr)) {
			e.closeErrs = append(e.closeErrs, cerr.Error())
		}
		gone := []string{}
		for d := range files {
			if !after[d] && !present(e.tgt, d) {
				gone = append(gone, d)
			}
		}
		if e.c.CloseBoth {
			// the second layout is closed from the same instant
			had2 := e.hasIndex2()
			c2ctx, c2cancel := mkCtx(ck)
			cerr2 := e.rc.Close(c2ctx, e.closeRef2)
			c2cancel()
			e.closes2++
			if cerr2 != nil && had2 && !(ck%4 != 0 && ctxError(cerr2)) {
				e.closeErrs = append(e.closeErrs, "second layout: "+cerr2.Error())
			}
			if into2 {
				after2 := listDigestFiles(e.tgt2)
				gone2 := []string{}
				for d := range files2 {
					if !after2[d] && !present(e.tgt2, d) {
						gone2 = append(gone2, d)
					}
				}
				if len(gone2) > 0 {
					sort.Strings(gone2)
					e.addCand(i, late, "close-during-copy-removed-files-referrer-target-layout", fmt.Sprintf("Close of the SECOND layout called while ImageCopy #%d (node %d -> tag %s, ImageWithReferrerTgt = that second layout) was in progress (from inside %s) removed %d file(s) under its blobs/: %v (Close returned %v)",
						i, e.c.Copies[i].Node, copyTag(i), what, len(gone2), head(gone2, 4), cerr2))
				}
			}
		}
		if len(gone) > 0 {
			sort.Strings(gone)
			e.addCand(i, late, "close-during-copy-removed-files", fmt.Sprintf("Close(target) called while ImageCopy #%d (node %d -> tag %s) was in progress (from inside %s, %d copies running) removed %d file(s) under blobs/: %v (Close returned %v)",
				i, e.c.Copies[i].Node, copyTag(i), what, e.inflight, len(gone), head(gone, 4), cerr))
		}
	}
}

func (e *envB) runCopy(ctx context.Context, i int) {
	cp := e.c.Copies[i]
	g := e.c.Graph
	n := g.Nodes[cp.Node]
	src, err := ref.New(srcHost + "/" + copyRepo(i) + "@" + n.Digest)
	if err != nil {
		panic(fmt.Sprintf("harness: source ref: %v", err))
	}
	tgt, err := ref.New("ocidir://" + e.tgtS + ":" + copyTag(i))
	if err != nil {
		panic(fmt.Sprintf("harness: target ref: %v", err))
	}
	e.mu.Lock()
	e.copies[i].started = true
	e.inflight++
	if e.inflight > e.maxInflight {
		e.maxInflight = e.inflight
	}
	e.mu.Unlock()
	cctx, cancel := context.WithTimeout(ctx, 60*time.Second)
	e.mu.Lock()
	e.copies[i].cancel = cancel
	e.mu.Unlock()
	opts := append(copyOpts(cp.Platforms, cp.Referrers, cp.DigestTags, cp.Force, false, false), regclient.ImageWithCallback(e.callback(i)))
	if cp.Referrers {
		mk := func(s string) ref.Ref {
			r, err := ref.New(s)
			if err != nil {
				panic(fmt.Sprintf("harness: referrer ref %q: %v", s, err))
			}
			return r
		}
		switch cp.RefTgt {
		case 1: // the main layout again, named by another reference (same path)
			opts = append(opts, regclient.ImageWithReferrerTgt(mk("ocidir://"+e.tgtS+":rt"+fmt.Sprint(i))))
		case 2:
			opts = append(opts, regclient.ImageWithReferrerTgt(mk("ocidir://"+e.tgt2S+":rt"+fmt.Sprint(i))))
		case 3:
			opts = append(opts, regclient.ImageWithReferrerTgt(mk(srcHost+"/"+copyRepo(i)+"rt:rt")))
		}
		switch {
		case cp.RefSrc == 1 && e.src2S != "":
			opts = append(opts, regclient.ImageWithReferrerSrc(mk("ocidir://"+e.src2S+":v1")))
		case cp.RefSrc == 2:
			opts = append(opts, regclient.ImageWithReferrerSrc(mk(srcHost+"/"+copyRepo(i)+"rs:v1")))
		}
	}
	cerr := e.rc.ImageCopy(cctx, src, tgt, opts...)
	cancel()
	var atReturn, atRet2 map[string]bool
	if cerr == nil {
		atReturn = reachFrom(e.tgt, copyTag(i))
		if cp.Referrers && cp.RefTgt == 2 {
			// what the second layout reaches below its entries (the fallback indexes themselves are replaced as referrers are added)
			r2 := reach(e.tgt2)
			atRet2 = map[string]bool{}
			top := map[string]bool{}
			for _, en := range r2.entries {
				top[en.Digest] = true
			}
			for d := range r2.info {
				if !top[d] {
					atRet2[d] = true
				}
			}
		}
	}
	files := listDigestFiles(e.tgt)
	e.mu.Lock()
	e.inflight--
	if cerr != nil && e.inflight > 0 {
		e.failWhileBusy++
	}
	cs := e.copies[i]
	if os.Getenv("VERIF_DEBUG") != "" {
		fmt.Fprintf(os.Stderr, "copy %d returned %v\n", i, cerr)
	}
	cs.done, cs.err, cs.atReturn, cs.atRet2 = true, cerr, atReturn, atRet2
	for d := range files {
		e.seenAll[d] = true
	}
	e.mu.Unlock()
}

func checkB(cs Case, ev *evid.Collector) *evid.Violation {
	c := cs.B
	if c == nil || c.Graph == nil || len(c.Graph.Nodes) == 0 || len(c.Copies) == 0 {
		return &evid.Violation{Sig: "harness-bad-case", Msg: "part B case without graph / copies"}
	}
	g := c.Graph
	nN := len(g.Nodes)
	for i := range c.Copies {
		c.Copies[i].Node = ((c.Copies[i].Node % nN) + nN) % nN
	}
	e, err := setupB(c)
	if err != nil {
		return &evid.Violation{Sig: "harness-setup", Msg: err.Error()}
	}
	if probeKeep {
		probeDir = e.tgt2
	} else {
		defer os.RemoveAll(e.tmp)
	}
	procs := c.Procs
	if procs <= 0 {
		procs = 4
	}
	prev := runtime.GOMAXPROCS(procs)
	defer runtime.GOMAXPROCS(prev)

	for i, cp := range c.Copies {
		addFault(e.m, cp.Fault, "/"+copyRepo(i)+"/")
	}
	e.m.Lock()
	e.m.OnArrive = e.onArrive
	e.m.OnDone = e.onDone
	e.m.Unlock()

	ctx := context.Background()
	var wg sync.WaitGroup
	ran := map[int]bool{}
	for _, steps := range c.Workers {
		steps := steps
		for _, st := range steps {
			if st.Kind == "copy" && st.Copy >= 0 && st.Copy < len(c.Copies) {
				if ran[st.Copy] {
					return &evid.Violation{Sig: "harness-bad-case", Msg: "copy scheduled twice"}
				}
				ran[st.Copy] = true
			}
		}
		wg.Add(1)
		go func() {
			defer wg.Done()
			for _, st := range steps {
				switch st.Kind {
				case "copy":
					if st.Copy >= 0 && st.Copy < len(c.Copies) {
						e.runCopy(ctx, st.Copy)
					}
				case "close":
					// a layout that so far only received blobs (e.g. from a copy that failed) has no index.json; Close fails on
					// reading it and nothing is asserted about that (see Part A)
					hadIndex := e.hasIndex()
					cref := e.closeRef
					if st.Layout == 1 {
						cref = e.closeRef2
						hadIndex = e.hasIndex2()
					}
					cctx, ccancel := mkCtx(st.Ctx)
					err := e.rc.Close(cctx, cref)
					ccancel()
					if st.Ctx%4 != 0 {
						e.mu.Lock()
						e.deadCtxCloses++
						e.mu.Unlock()
					}
					if err != nil && hadIndex && !(st.Ctx%4 != 0 && ctxError(err)) {
						e.mu.Lock()
						e.closeErrs = append(e.closeErrs, err.Error())
						e.mu.Unlock()
					}
				case "pause":
					time.Sleep(time.Duration(st.PauseUs) * time.Microsecond)
				}
			}
		}()
	}
	doneCh := make(chan struct{})
	go func() { wg.Wait(); close(doneCh) }()
	watchdog := false
	select {
	case <-doneCh:
	case <-time.After(150 * time.Second):
		watchdog = true
	}
	e.m.Lock()
	e.m.OnArrive = nil
	e.m.OnDone = nil
	e.m.Unlock()

	classes := []string{"B:pre:" + c.Pre, fmt.Sprintf("B:workers:%d", len(c.Workers)), fmt.Sprintf("B:copies:%d", len(c.Copies))}
	for _, l := range g.Labels {
		classes = append(classes, "graph:"+l)
	}
	if watchdog || e.m.CapHit() {
		if e.mu.TryLock() {
			e.finished = true
			e.mu.Unlock()
		}
		classes = append(classes, "B:watchdog-or-cap")
		ev.Case(false, "", classes...)
		return nil
	}
	// From here on events are ignored: a goroutine left behind by a failed copy (sigStray) must neither change what is
	// judged below nor block on the harness lock while it holds a write slot of the layout.
	e.mu.Lock()
	e.finished = true
	e.mu.Unlock()
	nOK, nFail := 0, 0
	for _, s := range e.copies {
		if s.done && s.err == nil {
			nOK++
		} else if s.done {
			nFail++
		}
	}
	if e.maxInflight >= 2 {
		classes = append(classes, "B:overlap>=2")
	}
	if e.closesInCopy > 0 {
		classes = append(classes, "B:close-inside-copy")
	}
	if nFail > 0 {
		classes = append(classes, "B:some-copy-failed")
	}
	if e.failWhileBusy > 0 {
		classes = append(classes, "B:copy-failed-while-another-running")
	}
	if nOK >= 2 {
		classes = append(classes, "B:>=2-copies-ok")
	}
	if e.deadCtxCloses > 0 {
		classes = append(classes, "B:close-with-dead-context")
	}
	for i := range c.Copies {
		if c.Copies[i].Referrers && c.Copies[i].RefTgt != 0 {
			classes = append(classes, fmt.Sprintf("B:referrer-tgt:%d", c.Copies[i].RefTgt))
		}
		if c.Copies[i].Referrers && c.Copies[i].RefSrc != 0 {
			classes = append(classes, fmt.Sprintf("B:referrer-src:%d", c.Copies[i].RefSrc))
		}
	}
	if e.closes2 > 0 {
		classes = append(classes, "B:second-layout-closed-from-inside-copies")
	}
	nt := e.maxInflight >= 2 && e.closesInCopy > 0
	key, _ := json.Marshal(struct {
		W  [][]StepB
		C  []CopyB
		E  int
		A  []int
		X  []int
		D  []int
		P  int
		Pr string
	}{c.Workers, c.Copies, c.CloseEvery, c.CloseAt, c.CloseCtx, c.Delays, c.Procs, c.Pre})
	ev.Case(nt, g.Shape()+"|"+string(key), classes...)
	ev.Sample(map[string]any{"part": "B", "shape": g.Shape(), "copies": c.Copies, "workers": c.Workers, "close_every": c.CloseEvery, "ok": nOK, "failed": nFail,
		"max_inflight": e.maxInflight, "closes_inside_copy": e.closesInCopy, "requests": e.reqs})

	report := func(v *evid.Violation) *evid.Violation {
		if v == nil {
			return nil
		}
		if ev.IsKnown(v.Sig) {
			ev.Report(v, cs)
			return nil
		}
		return v
	}
	// A copy with the referrers / digest-tags option that fails may return while goroutines it started still copy
	// blobs (known finding sigStray): what such a copy observed is attributed to that finding, everything else is judged
	// as observed.
	strayPossible := false
	stray := func(i int) bool {
		return e.copies[i].done && e.copies[i].err != nil && (c.Copies[i].Referrers || c.Copies[i].DigestTags)
	}
	for i := range e.copies {
		if stray(i) {
			strayPossible = true
		}
		if e.copies[i].late > 0 {
			ev.Class("B:event-after-copy-returned")
		}
	}
	for _, cd := range e.cands {
		v := &evid.Violation{Sig: cd.sig, Msg: cd.msg}
		// (what a copy observed in its separate referrer target layout is reported as such: on a tree that does not lock that
		// layout every copy shows it, failed or not)
		if stray(cd.copy) && (cd.late || !strings.HasSuffix(cd.sig, "-referrer-target-layout")) {
			v = evid.V(sigStray, "ImageCopy #%d (node %d -> tag %s, referrers=%v digest-tags=%v) failed with %q; it returned - releasing its GC lock - while goroutines it had started were still copying blobs into the layout (event observed after the return: %v), and a collection ran beside them. Observation: %s",
				cd.copy, c.Copies[cd.copy].Node, copyTag(cd.copy), c.Copies[cd.copy].Referrers, c.Copies[cd.copy].DigestTags, short(e.copies[cd.copy].err), cd.late, cd.msg)
		} else if cd.late {
			v.Sig = "event-of-returned-copy-" + cd.sig
		}
		if v := report(v); v != nil {
			return v
		}
	}
	if len(e.closeErrs) > 0 {
		v := evid.V("close-returned-error", "Close(target) returned an error during the concurrent run: %v", head(e.closeErrs, 3))
		if strayPossible && strings.Contains(e.closeErrs[0], "failed to delete") {
			v = evid.V(sigStray, "a copy with referrers / digest-tags failed and returned while its goroutines were still writing; a Close after its return ran a collection beside them and failed on a temp file that was renamed under it: %v", head(e.closeErrs, 3))
		}
		if v := report(v); v != nil {
			return v
		}
	}
	// everybody is done: push an unreferenced blob through the client (so that a collection certainly is due:
	// modified + no copy in flight), a final Close, then the end-state clauses
	pctx, pcancel := context.WithTimeout(ctx, 30*time.Second)
	_, perr := e.rc.BlobPut(pctx, e.closeRef, descriptor.Descriptor{Digest: digest.Digest(rm.Digest("sha256", sentinel)), Size: int64(len(sentinel))}, bytes.NewReader(sentinel))
	pcancel()
	beforeFinal := takeSnap(e.tgt)
	rb := reach(e.tgt)
	rb.resolveEdges()
	cerr := e.rc.Close(ctx, e.closeRef)
	end := takeSnap(e.tgt)
	if cerr != nil && beforeFinal.index != "" {
		if v := report(evid.V("close-returned-error", "final Close(target) returned %v", cerr)); v != nil {
			return v
		}
	}
	if beforeFinal.index != end.index {
		if v := report(evid.V("close-changed-index", "final Close changed index.json")); v != nil {
			return v
		}
	}
	has := func(d string) bool { _, ok := end.recheck(e.tgt, digestKey(d)); return ok }
	// what a successful copy had put below its tag - right after it wrote the tag, and when it returned - is still there
	// (tags are distinct and nothing deletes: below a tag content only stays or grows)
	for i, s := range e.copies {
		if !s.done || s.err != nil {
			continue
		}
		need := map[string]bool{}
		for d := range s.atTag {
			need[d] = true
		}
		for d := range s.atReturn {
			need[d] = true
		}
		for _, d := range sortedKeys(need) {
			if !has(d) {
				when := "when it returned"
				if s.atTag[d] {
					when = "right after it wrote the tag"
				}
				if v := report(evid.V("copied-content-lost-after-concurrent-closes", "ImageCopy #%d (node %d -> tag %s) returned nil and %s was below its tag %s, but the file is gone after all copies and closes finished (%d copies, %d closes from inside copies)",
					i, c.Copies[i].Node, copyTag(i), d, when, len(c.Copies), e.closesInCopy)); v != nil {
					return v
				}
			}
		}
	}
	// reachable before the final close -> still there
	for _, d := range rb.sorted() {
		k := digestKey(d)
		bh, listed := beforeFinal.files[k]
		if h, ok := end.recheck(e.tgt, k); !ok || (listed && h != bh) {
			ed := rb.edgeOf(d)
			if v := report(evid.V("gc-removed-reachable-"+ed.sig(), "final Close after the concurrent run removed/altered %s which index.json reaches: %s", d, ed.detail)); v != nil {
				return v
			}
		}
	}
	// a failed copy released its lock, so did every other: the final Close collects
	modified := perr == nil
	if strayPossible {
		// goroutines left behind by a failed copy may still add files: the completeness clause cannot be judged
		ev.Class("B:final-clause-skipped-possible-stray-writers")
		modified = false
	}
	if modified && cerr == nil {
		leftTmp, leftDig := []string{}, []string{}
		for _, k := range sortedKeys(end.files) {
			d := keyDigest(k)
			if d == "" {
				leftTmp = append(leftTmp, k)
			} else if _, in := rb.info[d]; !in {
				leftDig = append(leftDig, k)
			}
		}
		// (the harness plants nothing in Part B: whatever else lies anywhere under the layout was left by the client)
		leftTmp = append(leftTmp, sortedKeys(end.other)...)
		if len(leftDig)+len(leftTmp) > 0 {
			if v := report(evid.V("final-close-did-not-collect", "all %d copies returned (%d failed) and the layout was modified, but Close afterwards left %d unreachable file(s) %v and %d temporary file(s) %v under blobs/ (a GC lock that was not released keeps the collector off for good)",
				len(c.Copies), nFail, len(leftDig), head(leftDig, 3), len(leftTmp), head(leftTmp, 3))); v != nil {
				return v
			}
		}
		ev.Class("B:final-close-collected")
	}
	// ---- the second layout (target of the referrers of copies with ImageWithReferrerTgt) ----
	uses2 := false
	for i := range c.Copies {
		if c.Copies[i].Referrers && c.Copies[i].RefTgt == 2 {
			uses2 = true
		}
	}
	if !uses2 && e.closes2 == 0 {
		return nil
	}
	p2ctx, p2cancel := context.WithTimeout(ctx, 30*time.Second)
	_, perr2 := e.rc.BlobPut(p2ctx, e.closeRef2, descriptor.Descriptor{Digest: digest.Digest(rm.Digest("sha256", sentinel)), Size: int64(len(sentinel))}, bytes.NewReader(sentinel))
	p2cancel()
	before2 := takeSnap(e.tgt2)
	rb2 := reach(e.tgt2)
	rb2.resolveEdges()
	cerr2 := e.rc.Close(ctx, e.closeRef2)
	end2 := takeSnap(e.tgt2)
	if cerr2 != nil && before2.index != "" {
		if v := report(evid.V("close-returned-error", "final Close of the second layout returned %v", cerr2)); v != nil {
			return v
		}
	}
	for i, s := range e.copies {
		if !s.done || s.err != nil {
			continue
		}
		for _, d := range sortedKeys(s.atRet2) {
			if _, ok := end2.recheck(e.tgt2, digestKey(d)); !ok {
				if v := report(evid.V("copied-content-lost-after-concurrent-closes-referrer-target-layout", "ImageCopy #%d (node %d, ImageWithReferrerTgt = second layout) returned nil and %s was reachable in the second layout at that instant, but the file is gone after all copies and closes finished",
					i, c.Copies[i].Node, d)); v != nil {
					return v
				}
			}
		}
	}
	for _, d := range rb2.sorted() {
		k := digestKey(d)
		bh, listed := before2.files[k]
		if h, ok := end2.recheck(e.tgt2, k); !ok || (listed && h != bh) {
			ed := rb2.edgeOf(d)
			if v := report(evid.V("gc-removed-reachable-"+ed.sig(), "final Close of the second layout removed/altered %s which its index.json reaches: %s", d, ed.detail)); v != nil {
				return v
			}
		}
	}
	if uses2 {
		ev.Class("B:copy-with-referrer-target-second-layout")
	}
	if perr2 == nil && cerr2 == nil && !strayPossible {
		leftTmp, leftDig := []string{}, []string{}
		for _, k := range sortedKeys(end2.files) {
			d := keyDigest(k)
			if d == "" {
				if strings.HasSuffix(k, ".tmp") {
					leftTmp = append(leftTmp, k)
				}
			} else if _, in := rb2.info[d]; !in {
				leftDig = append(leftDig, k)
			}
		}
		leftTmp = append(leftTmp, sortedKeys(end2.other)...)
		if len(leftDig)+len(leftTmp) > 0 {
			if v := report(evid.V("final-close-did-not-collect-referrer-target-layout", "all %d copies returned and a blob was pushed into the second layout (the target of ImageWithReferrerTgt), but Close of it afterwards left %d unreachable file(s) %v and %d temporary file(s) %v under blobs/ (a GC lock on that layout that was never released keeps its collector off for good)",
				len(c.Copies), len(leftDig), head(leftDig, 3), len(leftTmp), head(leftTmp, 3))); v != nil {
				return v
			}
		}
		ev.Class("B:final-close-of-second-layout-collected")
	}
	return nil
}

var _ = imggen.DefaultOptions

// probeKeep / probeDir: debugging aid (a probe test keeps the second layout of the last case).
var (
	probeKeep bool
	probeDir  string
)
