package c08

// Part A: sequential histories on one client, judged at every Close.

import (
	"bytes"
	"context"
	"crypto/sha512"
	"encoding/hex"
	"encoding/json"
	"fmt"
	"io"
	"os"
	"path/filepath"
	"sort"
	"strings"
	"sync"
	"sync/atomic"
	"time"

	"github.com/opencontainers/go-digest"

	"github.com/regclient/regclient"
	"github.com/regclient/regclient/scheme"
	"github.com/regclient/regclient/scheme/ocidir"
	"github.com/regclient/regclient/types"
	"github.com/regclient/regclient/types/descriptor"
	"github.com/regclient/regclient/types/manifest"
	"github.com/regclient/regclient/types/ref"
	"github.com/regclient/regclient/zz_verif/evid"
	"github.com/regclient/regclient/zz_verif/imggen"
	"github.com/regclient/regclient/zz_verif/rcutil"
	rm "github.com/regclient/regclient/zz_verif/regmodel"
)

// layoutAPI is the part of the client the histories use; implemented by the
// RegClient (GC enabled) and by the bare ocidir scheme (GC enabled / disabled).
type layoutAPI interface {
	BlobPut(ctx context.Context, r ref.Ref, d descriptor.Descriptor, rdr io.Reader) error
	ManifestPut(ctx context.Context, r ref.Ref, m manifest.Manifest, child bool) error
	ManifestDelete(ctx context.Context, r ref.Ref, opt int, m manifest.Manifest) error
	TagDelete(ctx context.Context, r ref.Ref) error
	BlobDelete(ctx context.Context, r ref.Ref, d descriptor.Descriptor) error
	Close(ctx context.Context, r ref.Ref) error
}

type rcAPI struct{ rc *regclient.RegClient }

func (a rcAPI) BlobPut(ctx context.Context, r ref.Ref, d descriptor.Descriptor, rdr io.Reader) error {
	_, err := a.rc.BlobPut(ctx, r, d, rdr)
	return err
}
func (a rcAPI) ManifestPut(ctx context.Context, r ref.Ref, m manifest.Manifest, child bool) error {
	if child {
		return a.rc.ManifestPut(ctx, r, m, regclient.WithManifestChild())
	}
	return a.rc.ManifestPut(ctx, r, m)
}
func (a rcAPI) ManifestDelete(ctx context.Context, r ref.Ref, opt int, m manifest.Manifest) error {
	switch {
	case opt == 1:
		return a.rc.ManifestDelete(ctx, r, regclient.WithManifestCheckReferrers())
	case opt == 2 && m != nil:
		return a.rc.ManifestDelete(ctx, r, regclient.WithManifest(m))
	}
	return a.rc.ManifestDelete(ctx, r)
}
func (a rcAPI) TagDelete(ctx context.Context, r ref.Ref) error { return a.rc.TagDelete(ctx, r) }
func (a rcAPI) Close(ctx context.Context, r ref.Ref) error     { return a.rc.Close(ctx, r) }
func (a rcAPI) BlobDelete(ctx context.Context, r ref.Ref, d descriptor.Descriptor) error {
	return a.rc.BlobDelete(ctx, r, d)
}

type odAPI struct{ o *ocidir.OCIDir }

func (a odAPI) BlobPut(ctx context.Context, r ref.Ref, d descriptor.Descriptor, rdr io.Reader) error {
	_, err := a.o.BlobPut(ctx, r, d, rdr)
	return err
}
func (a odAPI) ManifestPut(ctx context.Context, r ref.Ref, m manifest.Manifest, child bool) error {
	if child {
		return a.o.ManifestPut(ctx, r, m, scheme.WithManifestChild())
	}
	return a.o.ManifestPut(ctx, r, m)
}
func (a odAPI) ManifestDelete(ctx context.Context, r ref.Ref, opt int, m manifest.Manifest) error {
	switch {
	case opt == 1:
		return a.o.ManifestDelete(ctx, r, scheme.WithManifestCheckReferrers())
	case opt == 2 && m != nil:
		return a.o.ManifestDelete(ctx, r, scheme.WithManifest(m))
	}
	return a.o.ManifestDelete(ctx, r)
}
func (a odAPI) TagDelete(ctx context.Context, r ref.Ref) error { return a.o.TagDelete(ctx, r) }
func (a odAPI) Close(ctx context.Context, r ref.Ref) error     { return a.o.Close(ctx, r) }
func (a odAPI) BlobDelete(ctx context.Context, r ref.Ref, d descriptor.Descriptor) error {
	return a.o.BlobDelete(ctx, r, d)
}

type envA struct {
	cs             Case
	c              *CaseA
	ev             *evid.Collector
	tmp            string
	tgt            string
	srcDir         string
	m              *rm.Model
	planted        map[string]bool // files the harness itself left outside the algorithm directories (nothing is claimed about them)
	signedDigest   string
	closeRefForm   int
	closeRefDigest string
	tgtS           string // how every reference spells the target layout path (absolute, relative, ./relative)
	srcS           string
	rc             *regclient.RegClient // the client instance running the current operation
	api            layoutAPI
	rcs            [2]*regclient.RegClient
	apis           [2]layoutAPI
	dues           [2]bool
	cur            int
	gc             bool
	due            bool // the harness knows the layout was modified through the current client since its last collection
	blobs          []string
	classes        map[string]bool
	cmu            sync.Mutex
	tainted        bool // a copy with referrers / digest-tags failed: goroutines it left behind may still be writing (known finding sigStray)
	nt             bool
	everR          map[string]bool // digests that index.json reached at some earlier point of the history
	trace          []string
	watchdog       bool
}

func (e *envA) class(s string) {
	e.cmu.Lock()
	e.classes[s] = true
	e.cmu.Unlock()
}

func tagName(i int) string {
	switch i {
	case 3:
		return "v1"
	case 4:
		return "latest" // spelled by leaving the tag out of the reference
	}
	return fmt.Sprintf("t%d", i)
}

// use switches to one of the two client instances (they are used one after the other, never at the same time).
func (e *envA) use(k int) {
	k = ((k % 2) + 2) % 2
	e.dues[e.cur] = e.due
	e.cur = k
	e.due, e.rc, e.api = e.dues[k], e.rcs[k], e.apis[k]
}

const emptyIndex = `{"schemaVersion":2,"mediaType":"` + rm.MTOCIIndex + `","manifests":[]}`

func writePre(g *imggen.Graph, dir, pre string, keepList []string, all bool) error {
	return writePreStyled(g, dir, pre, keepList, imggen.LayoutStyle{UntaggedAll: all})
}

func writePreStyled(g *imggen.Graph, dir, pre string, keepList []string, st imggen.LayoutStyle) error {
	switch pre {
	case "absent":
		return nil
	case "empty":
		if err := os.MkdirAll(filepath.Join(dir, "blobs", "sha256"), 0o777); err != nil {
			return err
		}
		if err := os.WriteFile(filepath.Join(dir, "oci-layout"), []byte(`{"imageLayoutVersion":"1.0.0"}`), 0o666); err != nil {
			return err
		}
		return os.WriteFile(filepath.Join(dir, "index.json"), []byte(emptyIndex), 0o666)
	case "graph":
		return g.PutLayout(dir, st, nil)
	case "graph-partial":
		keep := map[string]bool{}
		for _, d := range keepList {
			keep[d] = true
		}
		return g.PutLayout(dir, st, func(d string) bool { return keep[d] })
	}
	return fmt.Errorf("unknown pre-state %q", pre)
}

func fullName(on bool) string {
	if on {
		return "docker.io/library/app"
	}
	return ""
}

// spell returns the path string the references use: absolute, relative to the working directory, or ./relative.
// Every reference of a case uses the same spelling (the client keys its dirty flag and its GC lock by the string).
func spell(dir string, form int) string {
	if form == 0 {
		return dir
	}
	cwd, err := os.Getwd()
	if err != nil {
		return dir
	}
	rel, err := filepath.Rel(cwd, dir)
	if err != nil || strings.HasPrefix(rel, "..") || filepath.IsAbs(rel) {
		return dir
	}
	if form == 2 {
		rel = "./" + rel
	}
	if r, err := ref.New("ocidir://" + rel + ":t0"); err != nil || r.Path != rel {
		return dir
	}
	return rel
}

// restylePre rewrites the raw index.json of the pre-state the way other tools leave it: one entry listed twice, or no
// entry carrying a tag.
func restylePre(dir string, dup, untagged bool) error {
	if !dup && !untagged {
		return nil
	}
	p := filepath.Join(dir, "index.json")
	b, err := os.ReadFile(p)
	if err != nil {
		return nil
	}
	var idx map[string]any
	if err := json.Unmarshal(b, &idx); err != nil {
		return err
	}
	ms, _ := idx["manifests"].([]any)
	if untagged {
		for _, m := range ms {
			if mm, ok := m.(map[string]any); ok {
				delete(mm, "annotations")
			}
		}
	}
	if dup && len(ms) > 0 {
		ms = append(ms, ms[len(ms)/2])
	}
	idx["manifests"] = ms
	nb, err := json.Marshal(idx)
	if err != nil {
		return err
	}
	return os.WriteFile(p, nb, 0o666)
}

func setupA(cs Case, ev *evid.Collector) (*envA, error) {
	c := cs.A
	e := &envA{cs: cs, c: c, ev: ev, classes: map[string]bool{}, everR: map[string]bool{}, planted: map[string]bool{}}
	tmp, err := os.MkdirTemp("", "c08a")
	if err != nil {
		return nil, err
	}
	e.tmp = tmp
	e.tgt = filepath.Join(tmp, "tgt")
	e.srcDir = filepath.Join(tmp, "src")
	g := c.Graph
	e.blobs = sortedBlobDigests(g)
	e.m = rm.New()
	h := e.m.AddHost(srcHost)
	h.Feat = rm.Features{Referrers: c.RefAPI, TagDelete: true}
	ext := e.m.AddExternal(extHost)
	g.PutExternal(ext)
	g.PutRegistry(h, srcRepo, !c.RefAPI, nil)
	if err := g.PutLayout(e.srcDir, imggen.LayoutStyle{UntaggedAll: true}, nil); err != nil {
		return nil, err
	}
	if err := writePreStyled(g, e.tgt, c.Pre, c.Keep, imggen.LayoutStyle{UntaggedAll: c.PreAll, FullName: fullName(c.PreFullName), Containerd: c.PreContainerd}); err != nil {
		return nil, err
	}
	if err := restylePre(e.tgt, c.PreDup, c.PreUntagged); err != nil {
		return nil, err
	}
	e.tgtS, e.srcS = spell(e.tgt, c.PathForm), spell(e.srcDir, c.PathForm)
	e.newClient()
	for d := range reach(e.tgt).info {
		e.everR[d] = true
	}
	return e, nil
}

func (e *envA) newClient() {
	for k := 0; k < 2; k++ {
		switch e.c.System {
		case "rc":
			e.rcs[k] = rcutil.New(e.m, rcutil.Conf{})
			e.apis[k] = rcAPI{e.rcs[k]}
			e.gc = true
		case "scheme-gc":
			e.apis[k] = odAPI{ocidir.New()}
			e.gc = true
		default:
			e.apis[k] = odAPI{ocidir.New(ocidir.WithGC(false))}
			e.gc = false
		}
		e.dues[k] = false
	}
	e.due = false
	e.rc, e.api = e.rcs[e.cur], e.apis[e.cur]
}

func (e *envA) close() { os.RemoveAll(e.tmp) }

func (e *envA) tgtRef(tag int, dig string) ref.Ref { return e.tgtRefD(tag, dig, false) }

// tgtRefD builds a reference to the target layout: by digest (tag < 0), by tag, by tag@digest, or without a tag
// (tag 4: the default tag).
func (e *envA) tgtRefD(tag int, dig string, withDigest bool) ref.Ref {
	s := "ocidir://" + e.tgtS
	switch {
	case tag < 0:
		s += "@" + dig
	case tag == 4:
		if withDigest && dig != "" {
			s += ":latest@" + dig
		}
	default:
		s += ":" + tagName(tag)
		if withDigest && dig != "" {
			s += "@" + dig
		}
	}
	r, err := ref.New(s)
	if err != nil {
		panic(fmt.Sprintf("harness: cannot build target ref %q: %v", s, err))
	}
	return r
}

func nodeManifest(n *imggen.Node) (manifest.Manifest, error) {
	return manifest.New(manifest.WithRaw(n.Body), manifest.WithDesc(descriptor.Descriptor{
		MediaType: n.MediaType, Digest: digest.Digest(n.Digest), Size: int64(len(n.Body))}))
}

// pushNode pushes a node's closure bottom-up through the layout API.
func (e *envA) pushNode(ctx context.Context, id int, tgt ref.Ref, child, skipBlobs, skipChildren bool, depth int) (anyOK bool) {
	g := e.c.Graph
	n := g.Nodes[id]
	if !skipChildren && depth < 8 {
		for _, cid := range n.Children {
			if e.pushNode(ctx, cid, e.tgtRef(-1, g.Nodes[cid].Digest), true, skipBlobs, false, depth+1) {
				anyOK = true
			}
		}
	}
	if !skipBlobs {
		for _, bd := range n.Blobs {
			b := g.Blobs[bd]
			if b == nil {
				continue
			}
			if err := e.api.BlobPut(ctx, tgt, descriptor.Descriptor{MediaType: "application/octet-stream", Digest: digest.Digest(bd), Size: int64(len(b.Data))}, bytes.NewReader(b.Data)); err == nil {
				anyOK = true
			}
		}
	}
	m, err := nodeManifest(n)
	if err != nil {
		e.class("A:manifest-new-error")
		return anyOK
	}
	if err := e.api.ManifestPut(ctx, tgt, m, child); err == nil {
		anyOK = true
	}
	return anyOK
}

func (e *envA) readIndexBytes() string {
	b, _ := os.ReadFile(filepath.Join(e.tgt, "index.json"))
	return string(b)
}

func firstTagOf(g *imggen.Graph, id int) string {
	tags := []string{}
	for t, n := range g.Tags {
		if n == id {
			tags = append(tags, t)
		}
	}
	sort.Strings(tags)
	if len(tags) == 0 {
		return ""
	}
	return tags[0]
}

func copyOpts(platforms []string, referrers, digestTags, force, external, child bool) []regclient.ImageOpts {
	var out []regclient.ImageOpts
	if len(platforms) > 0 {
		out = append(out, regclient.ImageWithPlatforms(platforms))
	}
	if referrers {
		out = append(out, regclient.ImageWithReferrers())
	}
	if digestTags {
		out = append(out, regclient.ImageWithDigestTags())
	}
	if force {
		out = append(out, regclient.ImageWithForceRecursive())
	}
	if external {
		out = append(out, regclient.ImageWithIncludeExternal())
	}
	if child {
		out = append(out, regclient.ImageWithChild())
	}
	return out
}

// failingReader delivers data up to failAt and then fails.
type failingReader struct {
	data   []byte
	pos    int
	failAt int
	err    error
	onFail func()
}

func (r *failingReader) Read(p []byte) (int, error) {
	if r.pos >= r.failAt {
		if r.onFail != nil {
			r.onFail()
		}
		return 0, r.err
	}
	n := copy(p, r.data[r.pos:r.failAt])
	r.pos += n
	return n, nil
}

// closureBlobs lists the blob digests below a node (sorted, unique).
func closureBlobs(g *imggen.Graph, id int) []string {
	seen := map[string]bool{}
	for _, ni := range g.ManifestClosure(id) {
		for _, b := range g.Nodes[ni].Blobs {
			if _, ok := g.Blobs[b]; ok {
				seen[b] = true
			}
		}
	}
	return sortedKeys(seen)
}

// corruptBlob makes the source repository serve other bytes (same length) for the n-th blob below a node and returns
// the function that puts the right bytes back.
func corruptBlob(m *rm.Model, repo string, g *imggen.Graph, id, n int) func() {
	bl := closureBlobs(g, id)
	if len(bl) == 0 {
		return func() {}
	}
	d := bl[n%len(bl)]
	m.Lock()
	defer m.Unlock()
	r := m.Hosts[srcHost].Repos[repo]
	if r == nil {
		return func() {}
	}
	orig, ok := r.Blobs[d]
	if !ok || len(orig) == 0 {
		return func() {}
	}
	bad := append([]byte{}, orig...)
	bad[len(bad)/2] ^= 0x5a
	r.Blobs[d] = bad
	return func() {
		m.Lock()
		r.Blobs[d] = orig
		m.Unlock()
	}
}

func addFault(m *rm.Model, f *FaultSpec, pathHas string) {
	if f == nil || f.Kind == "wrong-bytes" || f.Kind == "cancel" {
		return
	}
	ft := rm.NewFault(f.Kind)
	ft.Host, ft.Class, ft.Nth, ft.Times, ft.Status, ft.At, ft.PathHas = srcHost, f.Class, f.Nth, f.Times, f.Status, f.At, pathHas
	m.AddFault(ft)
}

// doCopy runs one ImageCopy into the layout. With CloseEvery > 0 the target is
// closed from inside every k-th source request, i.e. at instants at which the
// copy provably is in progress (the request is issued by ImageCopy itself).
func (e *envA) doCopy(ctx context.Context, op Op) *evid.Violation {
	g := e.c.Graph
	n := g.Nodes[op.Node]
	srcTag := ""
	if op.SrcByTag {
		srcTag = firstTagOf(g, op.Node)
	}
	var srcS string
	switch op.From {
	case "layout":
		srcS = "ocidir://" + e.srcS
	case "self":
		// a copy inside the target layout (re-tag): by another tag of the layout, or by the node's digest
		srcS = "ocidir://" + e.tgtS
		if op.SrcByTag {
			srcTag = tagName((op.Tag + 5) % 4)
		} else {
			srcTag = ""
		}
	default:
		srcS = srcHost + "/" + srcRepo
	}
	if srcTag != "" {
		srcS += ":" + srcTag
	} else {
		srcS += "@" + n.Digest
	}
	src, err := ref.New(srcS)
	if err != nil {
		panic(fmt.Sprintf("harness: source ref %q: %v", srcS, err))
	}
	tgt := e.tgtRefD(op.Tag, n.Digest, op.WithDigest)
	addFault(e.m, op.Fault, "")
	restore := func() {}
	if op.Fault != nil && op.Fault.Kind == "wrong-bytes" && op.From == "reg" {
		restore = corruptBlob(e.m, srcRepo, g, op.Node, op.Fault.Nth)
	}
	cctx, cancel := context.WithTimeout(ctx, 60*time.Second)
	var blobReqs atomic.Int32
	faultHook := func(en *rm.Entry) {
		// fault kind cancel: the copy's context ends when its Nth blob request arrives, the body breaks off mid-stream
		if op.Fault != nil && op.Fault.Kind == "cancel" && en.Host == srcHost && en.Class == "blob-get" {
			if int(blobReqs.Add(1))-1 == op.Fault.Nth%3 {
				cancel()
			}
		}
	}
	if op.Fault != nil && op.Fault.Kind == "cancel" && op.From == "reg" {
		// (after the request was answered: the response body is what breaks off)
		e.m.Lock()
		e.m.OnDone = faultHook
		e.m.Unlock()
	}
	var mu sync.Mutex
	var viol *evid.Violation
	var finished atomic.Bool
	// the first source request of a copy fetches the top manifest; with a second one it may have started on the content
	firstSeq := e.m.Requests() + 1
	k := 0
	opts := copyOpts(op.Platforms, op.Referrers, op.DigestTags, op.Force, op.External, op.Child)
	// sawWork: the copy got as far as starting to copy something below the top manifest (a copy that fails before that,
	// e.g. because the source does not exist, has started no goroutine it could leave behind)
	var sawWork atomic.Bool
	if op.From == "reg" {
		e.m.Lock()
		e.m.OnArrive = func(en *rm.Entry) {
			if en.Host == srcHost && en.Seq >= firstSeq {
				sawWork.Store(true)
			}
		}
		e.m.Unlock()
	} else {
		sawWork.Store(true)
	}
	if op.CloseEvery > 0 {
		closeRef := e.tgtRef(0, "")
		// tick is called at instants at which this ImageCopy provably is in progress: from inside one of its own source
		// requests and from inside its progress callback (both are invoked synchronously by goroutines ImageCopy waits for).
		tick := func(what string) {
			if finished.Load() {
				// ImageCopy has returned: an event from a goroutine it left behind (see sigStray); nothing is done here
				return
			}
			mu.Lock()
			defer mu.Unlock()
			k++
			if k%op.CloseEvery != 0 {
				return
			}
			before := listDigestFiles(e.tgt)
			cerr := e.rc.Close(context.Background(), closeRef)
			after := listDigestFiles(e.tgt)
			e.class("A:close-inside-copy")
			if viol != nil {
				return
			}
			gone := []string{}
			for d := range before {
				if !after[d] && !present(e.tgt, d) {
					gone = append(gone, d)
				}
			}
			sort.Strings(gone)
			if len(gone) > 0 && e.gc {
				viol = evid.V("close-during-copy-removed-files", "Close(target) called while ImageCopy of %s into the same layout was in progress (instant #%d: %s) removed %d file(s) under blobs/: %v (Close returned %v)",
					n.Digest, k, what, len(gone), head(gone, 4), cerr)
			}
		}
		e.m.Lock()
		e.m.OnArrive = func(en *rm.Entry) {
			if en.Host == srcHost {
				if en.Seq >= firstSeq {
					sawWork.Store(true)
				}
				tick("inside its source request " + en.Method + " " + en.Path)
			}
		}
		e.m.Unlock()
		opts = append(opts, regclient.ImageWithCallback(func(kind types.CallbackKind, instance string, state types.CallbackState, cur, total int64) {
			// "active" comes from a ticker goroutine that may outlive the copy by an instant; every other event is synchronous
			if state != types.CallbackActive {
				tick(fmt.Sprintf("inside its progress callback %s %q state %d", kind, instance, int(state)))
			}
		}))
	}
	bf, bi := listDigestFiles(e.tgt), e.readIndexBytes()
	t0 := time.Now()
	cerr := e.rc.ImageCopy(cctx, src, tgt, opts...)
	finished.Store(true)
	restore()
	if cctx.Err() == context.DeadlineExceeded && time.Since(t0) > 50*time.Second {
		e.watchdog = true
	}
	cancel()
	e.m.Lock()
	e.m.OnArrive = nil
	e.m.OnDone = nil
	e.m.Faults = nil
	e.m.Unlock()
	af, ai := listDigestFiles(e.tgt), e.readIndexBytes()
	newFile := false
	for d := range af {
		if !bf[d] {
			newFile = true
		}
	}
	if newFile || (cerr == nil && ai != bi) {
		e.due = true
	}
	var srcViol *evid.Violation
	if op.From == "layout" {
		// regctl image copy closes the source reference too: a layout that was only read loses nothing
		sb := takeSnap(e.srcDir)
		serr := e.rc.Close(context.Background(), src)
		sa := takeSnap(e.srcDir)
		e.class("A:close-of-source-layout")
		for _, k := range sortedKeys(sb.files) {
			if h, ok := sa.recheck(e.srcDir, k); !ok || h != sb.files[k] {
				srcViol = evid.V("close-of-read-only-source-removed-files", "Close of the SOURCE layout reference of an ImageCopy (the layout was only read through this client) removed/changed blobs/%s (Close returned %v)", k, serr)
				break
			}
		}
		if srcViol == nil && sb.index != sa.index {
			srcViol = evid.V("close-of-read-only-source-removed-files", "Close of the source layout reference of an ImageCopy changed its index.json")
		}
	}
	if cerr != nil {
		e.class("A:copy-error")
		if newFile {
			e.class("A:copy-error-after-writing")
		}
	} else {
		e.class("A:copy-ok")
		if len(op.Platforms) > 0 {
			e.class("A:copy-sparse-ok")
		}
		if op.Referrers {
			e.class("A:copy-with-referrers-ok")
		}
	}
	mu.Lock()
	defer mu.Unlock()
	if cerr != nil && (op.Referrers || op.DigestTags) && op.From != "self" && sawWork.Load() {
		// known finding sigStray: this copy may have returned while goroutines it started still copy blobs. From here on
		// the completeness clause cannot be judged in this history, and what its own events observed belongs to that finding.
		e.tainted = true
		e.class("A:failed-copy-with-referrers-may-have-left-writers")
		if viol != nil {
			viol = evid.V(sigStray, "ImageCopy of %s with referrers=%v digest-tags=%v failed (%s) and events of it observed a collection: %s", n.Digest, op.Referrers, op.DigestTags, short(cerr), viol.Msg)
		}
	}
	if viol == nil {
		viol = srcViol
	}
	return viol
}

func head(s []string, n int) []string {
	if len(s) > n {
		return append(append([]string{}, s[:n]...), fmt.Sprintf("… (%d more)", len(s)-n))
	}
	return s
}

// report handles a violation found mid-history: a known signature is counted and
// the history continues behind it; anything else ends the case.
func (e *envA) report(v *evid.Violation) *evid.Violation {
	if v == nil {
		return nil
	}
	if e.ev.IsKnown(v.Sig) {
		e.ev.Report(v, e.cs)
		e.class("A:known:" + v.Sig)
		return nil
	}
	v.Msg += "\nhistory so far: " + strings.Join(e.trace, " | ")
	return v
}

// closeRef is the reference a Close is called with: every form names the same layout path.
func (e *envA) closeRef() ref.Ref {
	form, dig := e.closeRefForm, e.closeRefDigest
	e.closeRefForm = 0
	if dig == "" {
		form = 0
	}
	if form != 0 {
		e.class(fmt.Sprintf("A:close-ref-form:%d", form))
	}
	switch form {
	case 1:
		return e.tgtRef(-1, dig)
	case 2:
		return e.tgtRefD(0, dig, true)
	case 3:
		return e.tgtRef(4, "")
	}
	return e.tgtRef(0, "")
}

// closeAndJudge is the oracle: it is evaluated around every Close.
func (e *envA) closeAndJudge(ctxKind int, step string) *evid.Violation {
	ctx, cancelCtx := mkCtx(ctxKind)
	defer cancelCtx()
	live := ctxKind%4 == 0
	e.class("A:close-ctx:" + ctxName(ctxKind))
	before := takeSnap(e.tgt)
	rb := reach(e.tgt)
	rb.resolveEdges()
	cerr := e.api.Close(ctx, e.closeRef())
	after := takeSnap(e.tgt)
	wasDue := e.due

	// the index and the marker are not the collector's to touch
	if before.index != after.index {
		if v := e.report(evid.V("close-changed-index", "%s: Close changed index.json (%d -> %d bytes)", step, len(before.index), len(after.index))); v != nil {
			return v
		}
	}
	if before.marker != after.marker {
		if v := e.report(evid.V("close-changed-oci-layout", "%s: Close changed the oci-layout file", step)); v != nil {
			return v
		}
	}
	// (1) never removes reachable: every digest of R present and intact before is present and intact after
	for _, d := range rb.sorted() {
		if strings.HasPrefix(d, "sha512:") {
			e.class("A:close-with-reachable-sha512-object")
		}
		if d == e.signedDigest {
			e.class("A:close-with-reachable-signed-schema1")
		}
		k := digestKey(d)
		h, ok := after.recheck(e.tgt, k)
		if bh, listed := before.files[k]; ok && (!listed || h == bh) {
			// (not listed before: the walk read it by path, so it was there; only its presence can be compared)
			continue
		}
		ed := rb.edgeOf(d)
		what := "removed"
		if ok {
			what = "altered"
		}
		sig := "gc-removed-reachable-" + ed.sig()
		if ed.nomt {
			sig = "gc-removed-content-of-nested-manifest-without-mediatype"
		}
		if !e.gc {
			sig = "gc-disabled-close-removed-file"
		}
		msg := fmt.Sprintf("%s: Close (system %s, collection due=%v, returned %v) %s %s which index.json reaches: %s edge; %s", step, e.c.System, wasDue, cerr, what, d, ed.sig(), ed.detail)
		if v := e.report(&evid.Violation{Sig: sig, Msg: msg}); v != nil {
			return v
		}
	}
	// (3) with GC disabled nothing is removed at all
	if !e.gc {
		for _, k := range sortedKeys(before.files) {
			if h, ok := after.recheck(e.tgt, k); !ok || h != before.files[k] {
				if v := e.report(evid.V("gc-disabled-close-removed-file", "%s: Close on a scheme created with WithGC(false) removed/changed blobs/%s", step, k)); v != nil {
					return v
				}
			}
		}
		if cerr != nil && !(!live && ctxError(cerr)) {
			if v := e.report(evid.V("close-returned-error", "%s: Close (GC disabled) returned %v", step, cerr)); v != nil {
				return v
			}
		}
		e.class("A:close-gc-off")
		return nil
	}
	if cerr != nil && !live && ctxError(cerr) {
		// a Close that gives up because its context is dead may skip the collection: it stays due
		e.class("A:close-dead-ctx-returned-ctx-error")
		return nil
	}
	if !live {
		// Close returned nil with a dead context: whether it collected or skipped is its choice (the statement only says
		// what a collection that does run removes); the harness no longer knows whether one is due
		e.class("A:close-dead-ctx-returned-nil")
		if cerr == nil {
			e.due = false
			return nil
		}
	}
	if cerr != nil {
		// A layout that only ever received blobs has no index.json yet; Close then fails on reading it. The statement
		// does not promise that Close succeeds there (nothing is reachable, nothing is asserted, the collection stays due).
		if before.index == "" {
			e.class("A:close-error-no-index-yet")
			return nil
		}
		e.class("A:close-error")
		v := evid.V("close-returned-error", "%s: Close on a valid layout returned %v (collection due=%v)", step, cerr, wasDue)
		if e.tainted && strings.Contains(cerr.Error(), "failed to delete") {
			v = evid.V(sigStray, "%s: an earlier ImageCopy with referrers / digest-tags failed and returned while its goroutines were still writing; this Close ran a collection beside them and failed on a temp file that was renamed under it: %v", step, cerr)
		}
		if v := e.report(v); v != nil {
			return v
		}
		return nil
	}
	if !wasDue {
		e.class("A:close-not-due")
		return nil
	}
	if e.tainted {
		e.class("A:close-due-not-judged-possible-stray-writers")
		e.due = false
		return nil
	}
	// (2) a collection was due (modified through this client since the last collection, no copy in flight):
	// what is left under blobs/ is exactly R
	e.class("A:close-due")
	for k := range before.files {
		if strings.HasSuffix(k, ".tmp") && !e.planted[k] {
			e.class("A:due-close-with-temp-file-left-by-a-really-failed-push")
		}
	}
	for rel := range before.other {
		if !e.planted[rel] {
			e.class("A:due-close-with-client-file-outside-algorithm-directories")
		}
	}
	becameUnreachable := 0
	for k := range before.files {
		if d := keyDigest(k); d != "" && e.everR[d] {
			if _, in := rb.info[d]; !in {
				becameUnreachable++
			}
		}
	}
	if becameUnreachable > 0 {
		// the non-trivial rule: this Close follows a delete or an overwrite that made reachable content unreachable
		e.class("A:close-due-after-something-became-unreachable")
		if len(rb.info) > 0 {
			e.nt = true
		}
	}
	leftTmp, leftDig := []string{}, []string{}
	for _, k := range sortedKeys(after.files) {
		d := keyDigest(k)
		if d == "" {
			if strings.HasSuffix(k, ".tmp") {
				leftTmp = append(leftTmp, k)
			} else {
				// neither a digest nor a temporary file (e.g. notes.txt left by somebody): the statement claims nothing about it
				e.class("A:unclaimed-non-digest-file-present-after-collection")
			}
			continue
		}
		if _, in := rb.info[d]; !in {
			leftDig = append(leftDig, k)
		}
	}
	// ... and nothing else the client created lies anywhere under the layout (a temporary file of a push that failed
	// part-way is a leftover temporary file wherever it was staged)
	for _, rel := range sortedKeys(after.other) {
		if e.planted[rel] {
			continue
		}
		leftTmp = append(leftTmp, rel)
	}
	e.due = false
	if len(leftDig) > 0 {
		if v := e.report(evid.V("gc-left-unreachable-content", "%s: the layout was modified through this client since the last collection and no copy is in flight, Close returned nil, but %d file(s) that index.json does not reach are still under blobs/: %v (reachable set has %d digests)", step, len(leftDig), head(leftDig, 4), len(rb.info))); v != nil {
			return v
		}
	}
	if len(leftTmp) > 0 {
		if v := e.report(evid.V("gc-left-temporary-file", "%s: the layout was modified through this client since the last collection and no copy is in flight, Close returned nil, but leftover temporary file(s) of the client are still in the layout: %v", step, head(leftTmp, 4))); v != nil {
			return v
		}
	}
	return nil
}

func sortedKeys[V any](m map[string]V) []string {
	out := make([]string, 0, len(m))
	for k := range m {
		out = append(out, k)
	}
	sort.Strings(out)
	return out
}

func (e *envA) plantTmp(i int, op Op) {
	dir := filepath.Join(e.tgt, "blobs", "sha256")
	if err := os.MkdirAll(dir, 0o777); err != nil {
		return
	}
	n := e.c.Graph.Nodes[op.Node]
	switch op.Name {
	case 0: // what BlobPut leaves behind when it is interrupted
		os.WriteFile(filepath.Join(dir, fmt.Sprintf("%d%d.tmp", 1000000+i, op.Node)), []byte("partial blob"), 0o666)
		e.planted[fmt.Sprintf("sha256/%d%d.tmp", 1000000+i, op.Node)] = true
	case 1: // what ManifestPut leaves behind
		os.WriteFile(filepath.Join(dir, fmt.Sprintf("%s.%d.tmp", n.Digest[strings.IndexByte(n.Digest, ':')+1:], 3000+i)), n.Body, 0o666)
		e.planted[fmt.Sprintf("sha256/%s.%d.tmp", n.Digest[strings.IndexByte(n.Digest, ':')+1:], 3000+i)] = true
	case 2: // empty temp file
		os.WriteFile(filepath.Join(dir, fmt.Sprintf("%d.tmp", 77000+i)), nil, 0o666)
		e.planted[fmt.Sprintf("sha256/%d.tmp", 77000+i)] = true
	case 4: // an unreferenced object under another algorithm directory
		data := []byte(fmt.Sprintf("unreferenced-sha384-%d", i))
		sum := sha512.Sum384(data)
		d2 := filepath.Join(e.tgt, "blobs", "sha384")
		if os.MkdirAll(d2, 0o777) == nil {
			os.WriteFile(filepath.Join(d2, hex.EncodeToString(sum[:])), data, 0o666)
		}
	case 5: // a file directly in blobs/ (the collector only looks into the algorithm directories; nothing is claimed about it)
		os.WriteFile(filepath.Join(e.tgt, "blobs", "README.txt"), []byte("left by another tool"), 0o666)
		e.planted["blobs/README.txt"] = true
	case 6: // a file in the algorithm directory that is neither a digest nor a temporary file (nothing is claimed about it)
		os.WriteFile(filepath.Join(dir, "notes.txt"), []byte("left by another tool"), 0o666)
	default: // a valid blob nobody references, stored by another tool
		data := []byte(fmt.Sprintf("unreferenced-%d-%d", i, op.Node))
		os.WriteFile(filepath.Join(dir, strings.TrimPrefix(rm.Digest("sha256", data), "sha256:")), data, 0o666)
	}
}

func checkA(cs Case, ev *evid.Collector) *evid.Violation {
	c := cs.A
	if c == nil || c.Graph == nil || len(c.Graph.Nodes) == 0 {
		return &evid.Violation{Sig: "harness-bad-case", Msg: "part A case without graph"}
	}
	e, err := setupA(cs, ev)
	if err != nil {
		return &evid.Violation{Sig: "harness-setup", Msg: err.Error()}
	}
	defer e.close()
	ctx := context.Background()
	g := c.Graph
	nN := len(g.Nodes)
	e.class("A:system:" + c.System)
	e.class("A:pre:" + c.Pre)
	e.class(fmt.Sprintf("A:path-form:%d(spelled-relative=%v)", c.PathForm, e.tgtS != e.tgt))
	if c.PreFullName {
		e.class("A:pre-foreign:full-name")
	}
	if c.PreDup {
		e.class("A:pre-foreign:duplicate-entry")
	}
	if c.PreUntagged {
		e.class("A:pre-foreign:untagged-only")
	}
	signed := ""
	for _, nd := range g.Nodes {
		if nd.MediaType == rm.MTDocker1Sig {
			signed = nd.Digest
		}
	}
	e.signedDigest = signed
	for _, l := range g.Labels {
		e.class("graph:" + l)
	}
	finish := func(v *evid.Violation) *evid.Violation {
		cl := sortedKeys(e.classes)
		key, _ := json.Marshal(c.Ops)
		ev.Case(e.nt && !e.watchdog, c.System+"|"+c.Pre+"|"+g.Shape()+"|"+string(key), cl...)
		ev.Sample(map[string]any{"part": "A", "system": c.System, "pre": c.Pre, "shape": g.Shape(), "trace": e.trace})
		return v
	}
	for i, op := range c.Ops {
		op.Node = ((op.Node % nN) + nN) % nN
		n := g.Nodes[op.Node]
		step := fmt.Sprintf("step %d (%s, context %s, client %d)", i, op.Kind, ctxName(op.Ctx), op.Client)
		e.class("A:op:" + op.Kind)
		e.use(op.Client)
		if op.Client%2 != 0 {
			e.class("A:op-by-second-client")
			e.trace = append(e.trace, "client=1")
		}
		if op.WithDigest {
			e.class("A:target-ref-tag+digest")
		}
		if op.Tag == 4 && op.Kind != "close" && op.Kind != "tmp" && op.Kind != "reopen" {
			e.class("A:target-ref-default-tag")
		}
		ctx, cancelOp := context.WithCancel(context.Background())
		if op.Kind != "close" && op.Ctx%4 != 0 {
			cancelOp()
			ctx, cancelOp = mkCtx(op.Ctx)
			e.class("A:op-with-dead-context")
			e.trace = append(e.trace, "ctx="+ctxName(op.Ctx))
		}
		switch op.Kind {
		case "copy":
			if c.System != "rc" {
				// the bare scheme has no ImageCopy: the closure is pushed by hand instead
				e.trace = append(e.trace, fmt.Sprintf("%d:push(copy) n%d->%s", i, op.Node, tagName(op.Tag)))
				if e.pushNode(ctx, op.Node, e.tgtRefD(op.Tag, n.Digest, op.WithDigest), op.Child, false, false, 0) {
					e.due = true
				}
				break
			}
			e.trace = append(e.trace, fmt.Sprintf("%d:copy n%d(%s) from %s ->%s plat=%v ref=%v dt=%v force=%v child=%v fault=%v closeEvery=%d", i, op.Node, n.Kind, op.From, tagName(op.Tag), op.Platforms, op.Referrers, op.DigestTags, op.Force, op.Child, op.Fault != nil, op.CloseEvery))
			if v := e.report(e.doCopy(ctx, op)); v != nil {
				return finish(v)
			}
			if e.watchdog {
				e.class("A:watchdog")
				saveWatchdog(cs)
				return finish(nil)
			}
		case "push":
			e.trace = append(e.trace, fmt.Sprintf("%d:push n%d(%s)->%s child=%v skipBlobs=%v skipChildren=%v", i, op.Node, n.Kind, tagName(op.Tag), op.Child, op.SkipBlobs, op.SkipChildren))
			if e.pushNode(ctx, op.Node, e.tgtRefD(op.Tag, n.Digest, op.WithDigest), op.Child, op.SkipBlobs, op.SkipChildren, 0) {
				e.due = true
			}
			if n.Subject != "" {
				e.class("A:referrer-pushed")
			}
		case "manifest":
			e.trace = append(e.trace, fmt.Sprintf("%d:manifest n%d(%s)->%s child=%v", i, op.Node, n.Kind, tagName(op.Tag), op.Child))
			if m, err := nodeManifest(n); err == nil {
				if err := e.api.ManifestPut(ctx, e.tgtRefD(op.Tag, n.Digest, op.WithDigest), m, op.Child); err == nil {
					e.due = true
				}
			}
		case "blob":
			if len(e.blobs) == 0 {
				break
			}
			bd := e.blobs[((op.Blob%len(e.blobs))+len(e.blobs))%len(e.blobs)]
			b := g.Blobs[bd]
			e.trace = append(e.trace, fmt.Sprintf("%d:blob %.19s bad=%d", i, bd, op.Bad))
			desc := descriptor.Descriptor{Digest: digest.Digest(bd), Size: int64(len(b.Data))}
			var rdr io.Reader = bytes.NewReader(b.Data)
			bctx, bcancel := context.WithCancel(ctx)
			switch op.Bad {
			case 1: // other bytes than the declared digest names
				other := append([]byte{}, b.Data...)
				if len(other) == 0 {
					other = []byte("x")
					desc.Size = 1
				} else {
					other[len(other)/2] ^= 0x5a
				}
				rdr = bytes.NewReader(other)
			case 2: // the reader fails mid-stream
				rdr = &failingReader{data: b.Data, failAt: len(b.Data) / 2, err: io.ErrUnexpectedEOF}
			case 3: // the context is cancelled while the body is being read
				rdr = &failingReader{data: b.Data, failAt: len(b.Data) / 2, err: context.Canceled, onFail: bcancel}
			case 4: // the declared size is wrong
				desc.Size = int64(len(b.Data)) + 1
			}
			err := e.api.BlobPut(bctx, e.tgtRef(0, ""), desc, rdr)
			bcancel()
			if err == nil {
				e.due = true
			} else if op.Bad != 0 {
				e.class("A:blob-push-failed-part-way")
			}
		case "import":
			tgtI := e.tgtRefD(op.Tag, n.Digest, op.WithDigest)
			if c.System != "rc" {
				if e.pushNode(ctx, op.Node, tgtI, false, false, false, 0) {
					e.due = true
				}
				break
			}
			// what `regctl image export | regctl image import ocidir://...` does: no GC lock is involved
			srcI, err := ref.New(srcHost + "/" + srcRepo + "@" + n.Digest)
			if err != nil {
				break
			}
			bf, bi := listDigestFiles(e.tgt), e.readIndexBytes()
			var buf bytes.Buffer
			ierr := e.rc.ImageExport(ctx, srcI, &buf)
			if ierr == nil {
				ierr = e.rc.ImageImport(ctx, tgtI, bytes.NewReader(buf.Bytes()))
			}
			af, ai := listDigestFiles(e.tgt), e.readIndexBytes()
			newFile := false
			for d := range af {
				if !bf[d] {
					newFile = true
				}
			}
			if newFile || (ierr == nil && ai != bi) {
				e.due = true
			}
			e.trace = append(e.trace, fmt.Sprintf("%d:import n%d(%s)->%s=%v", i, op.Node, n.Kind, tagName(op.Tag), ierr == nil))
			if ierr == nil {
				e.class("A:import-ok")
			}
		case "blobdel":
			if len(e.blobs) == 0 {
				break
			}
			bd := e.blobs[((op.Blob%len(e.blobs))+len(e.blobs))%len(e.blobs)]
			err := e.api.BlobDelete(ctx, e.tgtRef(0, ""), descriptor.Descriptor{Digest: digest.Digest(bd)})
			e.trace = append(e.trace, fmt.Sprintf("%d:blobdel %.19s=%v", i, bd, err == nil))
			if err == nil {
				// (the blob is gone by the caller's own hand, not by a Close; the dirty flag is not set by it)
				e.class("A:blobdel-ok")
			}
		case "tagdel":
			name := tagName(op.Tag)
			if op.TagKind == 1 {
				// the tag regclient keeps the referrers of n under: <alg>-<first 64 hex digits>
				alg, hx, _ := strings.Cut(n.Digest, ":")
				if len(hx) > 64 {
					hx = hx[:64]
				}
				name = alg + "-" + hx
			}
			rs := "ocidir://" + e.tgtS + ":" + name
			if op.TagKind != 1 && op.Tag == 4 {
				rs = "ocidir://" + e.tgtS // no tag in the reference at all
			}
			r, err := ref.New(rs)
			if err != nil {
				break
			}
			err = e.api.TagDelete(ctx, r)
			e.trace = append(e.trace, fmt.Sprintf("%d:tagdel %.26s=%v", i, name, err == nil))
			if err == nil {
				e.due = true
				e.class("A:tagdel-ok")
			}
		case "mandel":
			var m manifest.Manifest
			if op.DelOpt == 2 {
				m, _ = nodeManifest(n)
			}
			err := e.api.ManifestDelete(ctx, e.tgtRef(-1, n.Digest), op.DelOpt, m)
			e.trace = append(e.trace, fmt.Sprintf("%d:mandel n%d(%s) opt%d=%v", i, op.Node, n.Kind, op.DelOpt, err == nil))
			if err == nil {
				e.due = true
				e.class("A:mandel-ok")
				if n.Subject != "" {
					e.class("A:referrer-deleted")
				}
			}
		case "tmp":
			e.trace = append(e.trace, fmt.Sprintf("%d:tmp%d", i, op.Name))
			e.plantTmp(i, op)
		case "reopen":
			e.trace = append(e.trace, fmt.Sprintf("%d:reopen", i))
			e.newClient()
		case "close":
			e.trace = append(e.trace, fmt.Sprintf("%d:close(due=%v,ctx=%s)", i, e.due, ctxName(op.Ctx)))
			e.closeRefForm, e.closeRefDigest = op.CloseRef, n.Digest
			if v := e.closeAndJudge(op.Ctx, step); v != nil {
				cancelOp()
				return finish(v)
			}
		default:
			return finish(&evid.Violation{Sig: "harness-bad-case", Msg: "unknown op " + op.Kind})
		}
		cancelOp()
		if op.Kind != "close" && op.Kind != "tmp" && op.Kind != "reopen" {
			for d := range reach(e.tgt).info {
				e.everR[d] = true
			}
		}
	}
	e.use(0)
	// every history ends with a push of a blob nobody references followed by a Close: a collection certainly is due then
	if err := e.api.BlobPut(ctx, e.tgtRef(0, ""), descriptor.Descriptor{Digest: digest.Digest(rm.Digest("sha256", sentinel)), Size: int64(len(sentinel))}, bytes.NewReader(sentinel)); err == nil {
		e.due = true
	}
	e.trace = append(e.trace, fmt.Sprintf("sentinel blob; final close(due=%v)", e.due))
	return finish(e.closeAndJudge(0, "final close"))
}

// saveWatchdog keeps a case whose copy ran into the wall-clock watchdog (inconclusive, never a violation) for inspection.
func saveWatchdog(cs Case) {
	out := os.Getenv("VERIF_OUT")
	if out == "" {
		return
	}
	b, err := json.Marshal(cs)
	if err != nil {
		return
	}
	os.WriteFile(filepath.Join(out, fmt.Sprintf("watchdog-%s-%d.json", os.Getenv("VERIF_SHARD"), time.Now().UnixNano()%1000000)), b, 0o644)
}
