package c08

// Part A: sequential histories on one client, judged at every Close.

import (
	"bytes"
	"context"
	"encoding/json"
	"fmt"
	"io"
	"os"
	"path/filepath"
	"sort"
	"strings"
	"sync"
	"sync/atomic"
	"time"

	"github.com/opencontainers/go-digest"

	"github.com/regclient/regclient"
	"github.com/regclient/regclient/scheme"
	"github.com/regclient/regclient/scheme/ocidir"
	"github.com/regclient/regclient/types"
	"github.com/regclient/regclient/types/descriptor"
	"github.com/regclient/regclient/types/manifest"
	"github.com/regclient/regclient/types/ref"
	"github.com/regclient/regclient/zz_verif/evid"
	"github.com/regclient/regclient/zz_verif/imggen"
	"github.com/regclient/regclient/zz_verif/rcutil"
	rm "github.com/regclient/regclient/zz_verif/regmodel"
)

// layoutAPI is the part of the client the histories use; implemented by the
// RegClient (GC enabled) and by the bare ocidir scheme (GC enabled / disabled).
type layoutAPI interface {
	BlobPut(ctx context.Context, r ref.Ref, d descriptor.Descriptor, rdr io.Reader) error
	ManifestPut(ctx context.Context, r ref.Ref, m manifest.Manifest, child bool) error
	ManifestDelete(ctx context.Context, r ref.Ref, opt int, m manifest.Manifest) error
	TagDelete(ctx context.Context, r ref.Ref) error
	Close(ctx context.Context, r ref.Ref) error
}

type rcAPI struct{ rc *regclient.RegClient }

func (a rcAPI) BlobPut(ctx context.Context, r ref.Ref, d descriptor.Descriptor, rdr io.Reader) error {
	_, err := a.rc.BlobPut(ctx, r, d, rdr)
	return err
}
func (a rcAPI) ManifestPut(ctx context.Context, r ref.Ref, m manifest.Manifest, child bool) error {
	if child {
		return a.rc.ManifestPut(ctx, r, m, regclient.WithManifestChild())
	}
	return a.rc.ManifestPut(ctx, r, m)
}
func (a rcAPI) ManifestDelete(ctx context.Context, r ref.Ref, opt int, m manifest.Manifest) error {
	switch {
	case opt == 1:
		return a.rc.ManifestDelete(ctx, r, regclient.WithManifestCheckReferrers())
	case opt == 2 && m != nil:
		return a.rc.ManifestDelete(ctx, r, regclient.WithManifest(m))
	}
	return a.rc.ManifestDelete(ctx, r)
}
func (a rcAPI) TagDelete(ctx context.Context, r ref.Ref) error { return a.rc.TagDelete(ctx, r) }
func (a rcAPI) Close(ctx context.Context, r ref.Ref) error     { return a.rc.Close(ctx, r) }

type odAPI struct{ o *ocidir.OCIDir }

func (a odAPI) BlobPut(ctx context.Context, r ref.Ref, d descriptor.Descriptor, rdr io.Reader) error {
	_, err := a.o.BlobPut(ctx, r, d, rdr)
	return err
}
func (a odAPI) ManifestPut(ctx context.Context, r ref.Ref, m manifest.Manifest, child bool) error {
	if child {
		return a.o.ManifestPut(ctx, r, m, scheme.WithManifestChild())
	}
	return a.o.ManifestPut(ctx, r, m)
}
func (a odAPI) ManifestDelete(ctx context.Context, r ref.Ref, opt int, m manifest.Manifest) error {
	switch {
	case opt == 1:
		return a.o.ManifestDelete(ctx, r, scheme.WithManifestCheckReferrers())
	case opt == 2 && m != nil:
		return a.o.ManifestDelete(ctx, r, scheme.WithManifest(m))
	}
	return a.o.ManifestDelete(ctx, r)
}
func (a odAPI) TagDelete(ctx context.Context, r ref.Ref) error { return a.o.TagDelete(ctx, r) }
func (a odAPI) Close(ctx context.Context, r ref.Ref) error     { return a.o.Close(ctx, r) }

type envA struct {
	cs       Case
	c        *CaseA
	ev       *evid.Collector
	tmp      string
	tgt      string
	srcDir   string
	m        *rm.Model
	rc       *regclient.RegClient
	api      layoutAPI
	gc       bool
	due      bool // the harness knows the layout was modified through this client since the last collection
	blobs    []string
	classes  map[string]bool
	cmu      sync.Mutex
	tainted  bool // a copy with referrers / digest-tags failed: goroutines it left behind may still be writing (known finding sigStray)
	nt       bool
	everR    map[string]bool // digests that index.json reached at some earlier point of the history
	trace    []string
	watchdog bool
}

func (e *envA) class(s string) {
	e.cmu.Lock()
	e.classes[s] = true
	e.cmu.Unlock()
}

func tagName(i int) string {
	if i == 3 {
		return "v1"
	}
	return fmt.Sprintf("t%d", i)
}

const emptyIndex = `{"schemaVersion":2,"mediaType":"` + rm.MTOCIIndex + `","manifests":[]}`

func writePre(g *imggen.Graph, dir, pre string, keepList []string, all bool) error {
	switch pre {
	case "absent":
		return nil
	case "empty":
		if err := os.MkdirAll(filepath.Join(dir, "blobs", "sha256"), 0o777); err != nil {
			return err
		}
		if err := os.WriteFile(filepath.Join(dir, "oci-layout"), []byte(`{"imageLayoutVersion":"1.0.0"}`), 0o666); err != nil {
			return err
		}
		return os.WriteFile(filepath.Join(dir, "index.json"), []byte(emptyIndex), 0o666)
	case "graph":
		return g.PutLayout(dir, imggen.LayoutStyle{UntaggedAll: all}, nil)
	case "graph-partial":
		keep := map[string]bool{}
		for _, d := range keepList {
			keep[d] = true
		}
		return g.PutLayout(dir, imggen.LayoutStyle{UntaggedAll: all}, func(d string) bool { return keep[d] })
	}
	return fmt.Errorf("unknown pre-state %q", pre)
}

func setupA(cs Case, ev *evid.Collector) (*envA, error) {
	c := cs.A
	e := &envA{cs: cs, c: c, ev: ev, classes: map[string]bool{}, everR: map[string]bool{}}
	tmp, err := os.MkdirTemp("", "c08a")
	if err != nil {
		return nil, err
	}
	e.tmp = tmp
	e.tgt = filepath.Join(tmp, "tgt")
	e.srcDir = filepath.Join(tmp, "src")
	g := c.Graph
	e.blobs = sortedBlobDigests(g)
	e.m = rm.New()
	h := e.m.AddHost(srcHost)
	h.Feat = rm.Features{Referrers: c.RefAPI, TagDelete: true}
	ext := e.m.AddExternal(extHost)
	g.PutExternal(ext)
	g.PutRegistry(h, srcRepo, !c.RefAPI, nil)
	if err := g.PutLayout(e.srcDir, imggen.LayoutStyle{UntaggedAll: true}, nil); err != nil {
		return nil, err
	}
	if err := writePre(g, e.tgt, c.Pre, c.Keep, c.PreAll); err != nil {
		return nil, err
	}
	e.newClient()
	for d := range reach(e.tgt).info {
		e.everR[d] = true
	}
	return e, nil
}

func (e *envA) newClient() {
	switch e.c.System {
	case "rc":
		e.rc = rcutil.New(e.m, rcutil.Conf{})
		e.api = rcAPI{e.rc}
		e.gc = true
	case "scheme-gc":
		e.api = odAPI{ocidir.New()}
		e.gc = true
	default:
		e.api = odAPI{ocidir.New(ocidir.WithGC(false))}
		e.gc = false
	}
	e.due = false
}

func (e *envA) close() { os.RemoveAll(e.tmp) }

func (e *envA) tgtRef(tag int, dig string) ref.Ref {
	var r ref.Ref
	var err error
	if tag < 0 {
		r, err = ref.New("ocidir://" + e.tgt + "@" + dig)
	} else {
		r, err = ref.New("ocidir://" + e.tgt + ":" + tagName(tag))
	}
	if err != nil {
		panic(fmt.Sprintf("harness: cannot build target ref: %v", err))
	}
	return r
}

func nodeManifest(n *imggen.Node) (manifest.Manifest, error) {
	return manifest.New(manifest.WithRaw(n.Body), manifest.WithDesc(descriptor.Descriptor{
		MediaType: n.MediaType, Digest: digest.Digest(n.Digest), Size: int64(len(n.Body))}))
}

// pushNode pushes a node's closure bottom-up through the layout API.
func (e *envA) pushNode(ctx context.Context, id int, tgt ref.Ref, child, skipBlobs, skipChildren bool, depth int) (anyOK bool) {
	g := e.c.Graph
	n := g.Nodes[id]
	if !skipChildren && depth < 8 {
		for _, cid := range n.Children {
			if e.pushNode(ctx, cid, e.tgtRef(-1, g.Nodes[cid].Digest), true, skipBlobs, false, depth+1) {
				anyOK = true
			}
		}
	}
	if !skipBlobs {
		for _, bd := range n.Blobs {
			b := g.Blobs[bd]
			if b == nil {
				continue
			}
			if err := e.api.BlobPut(ctx, tgt, descriptor.Descriptor{MediaType: "application/octet-stream", Digest: digest.Digest(bd), Size: int64(len(b.Data))}, bytes.NewReader(b.Data)); err == nil {
				anyOK = true
			}
		}
	}
	m, err := nodeManifest(n)
	if err != nil {
		e.class("A:manifest-new-error")
		return anyOK
	}
	if err := e.api.ManifestPut(ctx, tgt, m, child); err == nil {
		anyOK = true
	}
	return anyOK
}

func (e *envA) readIndexBytes() string {
	b, _ := os.ReadFile(filepath.Join(e.tgt, "index.json"))
	return string(b)
}

func firstTagOf(g *imggen.Graph, id int) string {
	tags := []string{}
	for t, n := range g.Tags {
		if n == id {
			tags = append(tags, t)
		}
	}
	sort.Strings(tags)
	if len(tags) == 0 {
		return ""
	}
	return tags[0]
}

func copyOpts(platforms []string, referrers, digestTags, force, external, child bool) []regclient.ImageOpts {
	var out []regclient.ImageOpts
	if len(platforms) > 0 {
		out = append(out, regclient.ImageWithPlatforms(platforms))
	}
	if referrers {
		out = append(out, regclient.ImageWithReferrers())
	}
	if digestTags {
		out = append(out, regclient.ImageWithDigestTags())
	}
	if force {
		out = append(out, regclient.ImageWithForceRecursive())
	}
	if external {
		out = append(out, regclient.ImageWithIncludeExternal())
	}
	if child {
		out = append(out, regclient.ImageWithChild())
	}
	return out
}

func addFault(m *rm.Model, f *FaultSpec, pathHas string) {
	if f == nil {
		return
	}
	ft := rm.NewFault(f.Kind)
	ft.Host, ft.Class, ft.Nth, ft.Times, ft.Status, ft.At, ft.PathHas = srcHost, f.Class, f.Nth, f.Times, f.Status, f.At, pathHas
	m.AddFault(ft)
}

// doCopy runs one ImageCopy into the layout. With CloseEvery > 0 the target is
// closed from inside every k-th source request, i.e. at instants at which the
// copy provably is in progress (the request is issued by ImageCopy itself).
func (e *envA) doCopy(ctx context.Context, op Op) *evid.Violation {
	g := e.c.Graph
	n := g.Nodes[op.Node]
	srcTag := ""
	if op.SrcByTag {
		srcTag = firstTagOf(g, op.Node)
	}
	var srcS string
	switch op.From {
	case "layout":
		srcS = "ocidir://" + e.srcDir
	case "self":
		// a copy inside the target layout (re-tag): by another tag of the layout, or by the node's digest
		srcS = "ocidir://" + e.tgt
		if op.SrcByTag {
			srcTag = tagName((op.Tag + 5) % 4)
		} else {
			srcTag = ""
		}
	default:
		srcS = srcHost + "/" + srcRepo
	}
	if srcTag != "" {
		srcS += ":" + srcTag
	} else {
		srcS += "@" + n.Digest
	}
	src, err := ref.New(srcS)
	if err != nil {
		panic(fmt.Sprintf("harness: source ref %q: %v", srcS, err))
	}
	tgt := e.tgtRef(op.Tag, n.Digest)
	addFault(e.m, op.Fault, "")
	var mu sync.Mutex
	var viol *evid.Violation
	var finished atomic.Bool
	// the first source request of a copy fetches the top manifest; with a second one it may have started on the content
	firstSeq := e.m.Requests() + 1
	k := 0
	opts := copyOpts(op.Platforms, op.Referrers, op.DigestTags, op.Force, op.External, op.Child)
	// sawWork: the copy got as far as starting to copy something below the top manifest (a copy that fails before that,
	// e.g. because the source does not exist, has started no goroutine it could leave behind)
	var sawWork atomic.Bool
	if op.From == "reg" {
		e.m.Lock()
		e.m.OnArrive = func(en *rm.Entry) {
			if en.Host == srcHost && en.Seq >= firstSeq {
				sawWork.Store(true)
			}
		}
		e.m.Unlock()
	} else {
		sawWork.Store(true)
	}
	if op.CloseEvery > 0 {
		closeRef := e.tgtRef(0, "")
		// tick is called at instants at which this ImageCopy provably is in progress: from inside one of its own source
		// requests and from inside its progress callback (both are invoked synchronously by goroutines ImageCopy waits for).
		tick := func(what string) {
			if finished.Load() {
				// ImageCopy has returned: an event from a goroutine it left behind (see sigStray); nothing is done here
				return
			}
			mu.Lock()
			defer mu.Unlock()
			k++
			if k%op.CloseEvery != 0 {
				return
			}
			before := listDigestFiles(e.tgt)
			cerr := e.rc.Close(context.Background(), closeRef)
			after := listDigestFiles(e.tgt)
			e.class("A:close-inside-copy")
			if viol != nil {
				return
			}
			gone := []string{}
			for d := range before {
				if !after[d] && !present(e.tgt, d) {
					gone = append(gone, d)
				}
			}
			sort.Strings(gone)
			if len(gone) > 0 && e.gc {
				viol = evid.V("close-during-copy-removed-files", "Close(target) called while ImageCopy of %s into the same layout was in progress (instant #%d: %s) removed %d file(s) under blobs/: %v (Close returned %v)",
					n.Digest, k, what, len(gone), head(gone, 4), cerr)
			}
		}
		e.m.Lock()
		e.m.OnArrive = func(en *rm.Entry) {
			if en.Host == srcHost {
				if en.Seq >= firstSeq {
					sawWork.Store(true)
				}
				tick("inside its source request " + en.Method + " " + en.Path)
			}
		}
		e.m.Unlock()
		opts = append(opts, regclient.ImageWithCallback(func(kind types.CallbackKind, instance string, state types.CallbackState, cur, total int64) {
			// "active" comes from a ticker goroutine that may outlive the copy by an instant; every other event is synchronous
			if state != types.CallbackActive {
				tick(fmt.Sprintf("inside its progress callback %s %q state %d", kind, instance, int(state)))
			}
		}))
	}
	bf, bi := listDigestFiles(e.tgt), e.readIndexBytes()
	cctx, cancel := context.WithTimeout(ctx, 60*time.Second)
	t0 := time.Now()
	cerr := e.rc.ImageCopy(cctx, src, tgt, opts...)
	finished.Store(true)
	if cctx.Err() == context.DeadlineExceeded && time.Since(t0) > 50*time.Second {
		e.watchdog = true
	}
	cancel()
	e.m.Lock()
	e.m.OnArrive = nil
	e.m.Faults = nil
	e.m.Unlock()
	af, ai := listDigestFiles(e.tgt), e.readIndexBytes()
	newFile := false
	for d := range af {
		if !bf[d] {
			newFile = true
		}
	}
	if newFile || (cerr == nil && ai != bi) {
		e.due = true
	}
	if cerr != nil {
		e.class("A:copy-error")
		if newFile {
			e.class("A:copy-error-after-writing")
		}
	} else {
		e.class("A:copy-ok")
		if len(op.Platforms) > 0 {
			e.class("A:copy-sparse-ok")
		}
		if op.Referrers {
			e.class("A:copy-with-referrers-ok")
		}
	}
	mu.Lock()
	defer mu.Unlock()
	if cerr != nil && (op.Referrers || op.DigestTags) && op.From != "self" && sawWork.Load() {
		// known finding sigStray: this copy may have returned while goroutines it started still copy blobs. From here on
		// the completeness clause cannot be judged in this history, and what its own events observed belongs to that finding.
		e.tainted = true
		e.class("A:failed-copy-with-referrers-may-have-left-writers")
		if viol != nil {
			viol = evid.V(sigStray, "ImageCopy of %s with referrers=%v digest-tags=%v failed (%s) and events of it observed a collection: %s", n.Digest, op.Referrers, op.DigestTags, short(cerr), viol.Msg)
		}
	}
	return viol
}

func head(s []string, n int) []string {
	if len(s) > n {
		return append(append([]string{}, s[:n]...), fmt.Sprintf("… (%d more)", len(s)-n))
	}
	return s
}

// report handles a violation found mid-history: a known signature is counted and
// the history continues behind it; anything else ends the case.
func (e *envA) report(v *evid.Violation) *evid.Violation {
	if v == nil {
		return nil
	}
	if e.ev.IsKnown(v.Sig) {
		e.ev.Report(v, e.cs)
		e.class("A:known:" + v.Sig)
		return nil
	}
	v.Msg += "\nhistory so far: " + strings.Join(e.trace, " | ")
	return v
}

// closeAndJudge is the oracle: it is evaluated around every Close.
func (e *envA) closeAndJudge(ctxKind int, step string) *evid.Violation {
	ctx, cancelCtx := mkCtx(ctxKind)
	defer cancelCtx()
	live := ctxKind%4 == 0
	e.class("A:close-ctx:" + ctxName(ctxKind))
	before := takeSnap(e.tgt)
	rb := reach(e.tgt)
	rb.resolveEdges()
	cerr := e.api.Close(ctx, e.tgtRef(0, ""))
	after := takeSnap(e.tgt)
	wasDue := e.due

	// the index and the marker are not the collector's to touch
	if before.index != after.index {
		if v := e.report(evid.V("close-changed-index", "%s: Close changed index.json (%d -> %d bytes)", step, len(before.index), len(after.index))); v != nil {
			return v
		}
	}
	if before.marker != after.marker {
		if v := e.report(evid.V("close-changed-oci-layout", "%s: Close changed the oci-layout file", step)); v != nil {
			return v
		}
	}
	// (1) never removes reachable: every digest of R present and intact before is present and intact after
	for _, d := range rb.sorted() {
		if strings.HasPrefix(d, "sha512:") {
			e.class("A:close-with-reachable-sha512-object")
		}
		k := digestKey(d)
		h, ok := after.recheck(e.tgt, k)
		if bh, listed := before.files[k]; ok && (!listed || h == bh) {
			// (not listed before: the walk read it by path, so it was there; only its presence can be compared)
			continue
		}
		ed := rb.edgeOf(d)
		what := "removed"
		if ok {
			what = "altered"
		}
		sig := "gc-removed-reachable-" + ed.sig()
		if ed.nomt {
			sig = "gc-removed-content-of-nested-manifest-without-mediatype"
		}
		if !e.gc {
			sig = "gc-disabled-close-removed-file"
		}
		msg := fmt.Sprintf("%s: Close (system %s, collection due=%v, returned %v) %s %s which index.json reaches: %s edge; %s", step, e.c.System, wasDue, cerr, what, d, ed.sig(), ed.detail)
		if v := e.report(&evid.Violation{Sig: sig, Msg: msg}); v != nil {
			return v
		}
	}
	// (3) with GC disabled nothing is removed at all
	if !e.gc {
		for _, k := range sortedKeys(before.files) {
			if h, ok := after.recheck(e.tgt, k); !ok || h != before.files[k] {
				if v := e.report(evid.V("gc-disabled-close-removed-file", "%s: Close on a scheme created with WithGC(false) removed/changed blobs/%s", step, k)); v != nil {
					return v
				}
			}
		}
		if cerr != nil && !(!live && ctxError(cerr)) {
			if v := e.report(evid.V("close-returned-error", "%s: Close (GC disabled) returned %v", step, cerr)); v != nil {
				return v
			}
		}
		e.class("A:close-gc-off")
		return nil
	}
	if cerr != nil && !live && ctxError(cerr) {
		// a Close that gives up because its context is dead may skip the collection: it stays due
		e.class("A:close-dead-ctx-returned-ctx-error")
		return nil
	}
	if !live {
		// Close returned nil with a dead context: whether it collected or skipped is its choice (the statement only says
		// what a collection that does run removes); the harness no longer knows whether one is due
		e.class("A:close-dead-ctx-returned-nil")
		if cerr == nil {
			e.due = false
			return nil
		}
	}
	if cerr != nil {
		// A layout that only ever received blobs has no index.json yet; Close then fails on reading it. The statement
		// does not promise that Close succeeds there (nothing is reachable, nothing is asserted, the collection stays due).
		if before.index == "" {
			e.class("A:close-error-no-index-yet")
			return nil
		}
		e.class("A:close-error")
		v := evid.V("close-returned-error", "%s: Close on a valid layout returned %v (collection due=%v)", step, cerr, wasDue)
		if e.tainted && strings.Contains(cerr.Error(), "failed to delete") {
			v = evid.V(sigStray, "%s: an earlier ImageCopy with referrers / digest-tags failed and returned while its goroutines were still writing; this Close ran a collection beside them and failed on a temp file that was renamed under it: %v", step, cerr)
		}
		if v := e.report(v); v != nil {
			return v
		}
		return nil
	}
	if !wasDue {
		e.class("A:close-not-due")
		return nil
	}
	if e.tainted {
		e.class("A:close-due-not-judged-possible-stray-writers")
		e.due = false
		return nil
	}
	// (2) a collection was due (modified through this client since the last collection, no copy in flight):
	// what is left under blobs/ is exactly R
	e.class("A:close-due")
	becameUnreachable := 0
	for k := range before.files {
		if d := keyDigest(k); d != "" && e.everR[d] {
			if _, in := rb.info[d]; !in {
				becameUnreachable++
			}
		}
	}
	if becameUnreachable > 0 {
		// the non-trivial rule: this Close follows a delete or an overwrite that made reachable content unreachable
		e.class("A:close-due-after-something-became-unreachable")
		if len(rb.info) > 0 {
			e.nt = true
		}
	}
	leftTmp, leftDig := []string{}, []string{}
	for _, k := range sortedKeys(after.files) {
		d := keyDigest(k)
		if d == "" {
			leftTmp = append(leftTmp, k)
			continue
		}
		if _, in := rb.info[d]; !in {
			leftDig = append(leftDig, k)
		}
	}
	e.due = false
	if len(leftDig) > 0 {
		if v := e.report(evid.V("gc-left-unreachable-content", "%s: the layout was modified through this client since the last collection and no copy is in flight, Close returned nil, but %d file(s) that index.json does not reach are still under blobs/: %v (reachable set has %d digests)", step, len(leftDig), head(leftDig, 4), len(rb.info))); v != nil {
			return v
		}
	}
	if len(leftTmp) > 0 {
		if v := e.report(evid.V("gc-left-temporary-file", "%s: the layout was modified through this client since the last collection and no copy is in flight, Close returned nil, but leftover temporary file(s) are still under blobs/: %v", step, head(leftTmp, 4))); v != nil {
			return v
		}
	}
	return nil
}

func sortedKeys[V any](m map[string]V) []string {
	out := make([]string, 0, len(m))
	for k := range m {
		out = append(out, k)
	}
	sort.Strings(out)
	return out
}

func (e *envA) plantTmp(i int, op Op) {
	dir := filepath.Join(e.tgt, "blobs", "sha256")
	if err := os.MkdirAll(dir, 0o777); err != nil {
		return
	}
	n := e.c.Graph.Nodes[op.Node]
	switch op.Name {
	case 0: // what BlobPut leaves behind when it is interrupted
		os.WriteFile(filepath.Join(dir, fmt.Sprintf("%d%d.tmp", 1000000+i, op.Node)), []byte("partial blob"), 0o666)
	case 1: // what ManifestPut leaves behind
		os.WriteFile(filepath.Join(dir, fmt.Sprintf("%s.%d.tmp", strings.TrimPrefix(n.Digest, "sha256:"), 3000+i)), n.Body, 0o666)
	case 2: // empty temp file
		os.WriteFile(filepath.Join(dir, fmt.Sprintf("%d.tmp", 77000+i)), nil, 0o666)
	default: // a valid blob nobody references, stored by another tool
		data := []byte(fmt.Sprintf("unreferenced-%d-%d", i, op.Node))
		os.WriteFile(filepath.Join(dir, strings.TrimPrefix(rm.Digest("sha256", data), "sha256:")), data, 0o666)
	}
}

func checkA(cs Case, ev *evid.Collector) *evid.Violation {
	c := cs.A
	if c == nil || c.Graph == nil || len(c.Graph.Nodes) == 0 {
		return &evid.Violation{Sig: "harness-bad-case", Msg: "part A case without graph"}
	}
	e, err := setupA(cs, ev)
	if err != nil {
		return &evid.Violation{Sig: "harness-setup", Msg: err.Error()}
	}
	defer e.close()
	ctx := context.Background()
	g := c.Graph
	nN := len(g.Nodes)
	e.class("A:system:" + c.System)
	e.class("A:pre:" + c.Pre)
	for _, l := range g.Labels {
		e.class("graph:" + l)
	}
	finish := func(v *evid.Violation) *evid.Violation {
		cl := sortedKeys(e.classes)
		key, _ := json.Marshal(c.Ops)
		ev.Case(e.nt && !e.watchdog, c.System+"|"+c.Pre+"|"+g.Shape()+"|"+string(key), cl...)
		ev.Sample(map[string]any{"part": "A", "system": c.System, "pre": c.Pre, "shape": g.Shape(), "trace": e.trace})
		return v
	}
	for i, op := range c.Ops {
		op.Node = ((op.Node % nN) + nN) % nN
		n := g.Nodes[op.Node]
		step := fmt.Sprintf("step %d (%s, context %s)", i, op.Kind, ctxName(op.Ctx))
		e.class("A:op:" + op.Kind)
		ctx, cancelOp := context.WithCancel(context.Background())
		if op.Kind != "close" && op.Ctx%4 != 0 {
			cancelOp()
			ctx, cancelOp = mkCtx(op.Ctx)
			e.class("A:op-with-dead-context")
			e.trace = append(e.trace, "ctx="+ctxName(op.Ctx))
		}
		switch op.Kind {
		case "copy":
			if c.System != "rc" {
				// the bare scheme has no ImageCopy: the closure is pushed by hand instead
				e.trace = append(e.trace, fmt.Sprintf("%d:push(copy) n%d->%s", i, op.Node, tagName(op.Tag)))
				if e.pushNode(ctx, op.Node, e.tgtRef(op.Tag, n.Digest), op.Child, false, false, 0) {
					e.due = true
				}
				break
			}
			e.trace = append(e.trace, fmt.Sprintf("%d:copy n%d(%s) from %s ->%s plat=%v ref=%v dt=%v force=%v child=%v fault=%v closeEvery=%d", i, op.Node, n.Kind, op.From, tagName(op.Tag), op.Platforms, op.Referrers, op.DigestTags, op.Force, op.Child, op.Fault != nil, op.CloseEvery))
			if v := e.report(e.doCopy(ctx, op)); v != nil {
				return finish(v)
			}
			if e.watchdog {
				e.class("A:watchdog")
				saveWatchdog(cs)
				return finish(nil)
			}
		case "push":
			e.trace = append(e.trace, fmt.Sprintf("%d:push n%d(%s)->%s child=%v skipBlobs=%v skipChildren=%v", i, op.Node, n.Kind, tagName(op.Tag), op.Child, op.SkipBlobs, op.SkipChildren))
			if e.pushNode(ctx, op.Node, e.tgtRef(op.Tag, n.Digest), op.Child, op.SkipBlobs, op.SkipChildren, 0) {
				e.due = true
			}
			if n.Subject != "" {
				e.class("A:referrer-pushed")
			}
		case "manifest":
			e.trace = append(e.trace, fmt.Sprintf("%d:manifest n%d(%s)->%s child=%v", i, op.Node, n.Kind, tagName(op.Tag), op.Child))
			if m, err := nodeManifest(n); err == nil {
				if err := e.api.ManifestPut(ctx, e.tgtRef(op.Tag, n.Digest), m, op.Child); err == nil {
					e.due = true
				}
			}
		case "blob":
			if len(e.blobs) == 0 {
				break
			}
			bd := e.blobs[((op.Blob%len(e.blobs))+len(e.blobs))%len(e.blobs)]
			b := g.Blobs[bd]
			e.trace = append(e.trace, fmt.Sprintf("%d:blob %.19s", i, bd))
			if err := e.api.BlobPut(ctx, e.tgtRef(0, ""), descriptor.Descriptor{Digest: digest.Digest(bd), Size: int64(len(b.Data))}, bytes.NewReader(b.Data)); err == nil {
				e.due = true
			}
		case "tagdel":
			name := tagName(op.Tag)
			if op.TagKind == 1 {
				// the tag regclient keeps the referrers of n under: <alg>-<first 64 hex digits>
				alg, hx, _ := strings.Cut(n.Digest, ":")
				if len(hx) > 64 {
					hx = hx[:64]
				}
				name = alg + "-" + hx
			}
			r, err := ref.New("ocidir://" + e.tgt + ":" + name)
			if err != nil {
				break
			}
			err = e.api.TagDelete(ctx, r)
			e.trace = append(e.trace, fmt.Sprintf("%d:tagdel %.26s=%v", i, name, err == nil))
			if err == nil {
				e.due = true
				e.class("A:tagdel-ok")
			}
		case "mandel":
			var m manifest.Manifest
			if op.DelOpt == 2 {
				m, _ = nodeManifest(n)
			}
			err := e.api.ManifestDelete(ctx, e.tgtRef(-1, n.Digest), op.DelOpt, m)
			e.trace = append(e.trace, fmt.Sprintf("%d:mandel n%d(%s) opt%d=%v", i, op.Node, n.Kind, op.DelOpt, err == nil))
			if err == nil {
				e.due = true
				e.class("A:mandel-ok")
				if n.Subject != "" {
					e.class("A:referrer-deleted")
				}
			}
		case "tmp":
			e.trace = append(e.trace, fmt.Sprintf("%d:tmp%d", i, op.Name))
			e.plantTmp(i, op)
		case "reopen":
			e.trace = append(e.trace, fmt.Sprintf("%d:reopen", i))
			e.newClient()
		case "close":
			e.trace = append(e.trace, fmt.Sprintf("%d:close(due=%v,ctx=%s)", i, e.due, ctxName(op.Ctx)))
			if v := e.closeAndJudge(op.Ctx, step); v != nil {
				cancelOp()
				return finish(v)
			}
		default:
			return finish(&evid.Violation{Sig: "harness-bad-case", Msg: "unknown op " + op.Kind})
		}
		cancelOp()
		if op.Kind != "close" && op.Kind != "tmp" && op.Kind != "reopen" {
			for d := range reach(e.tgt).info {
				e.everR[d] = true
			}
		}
	}
	// every history ends with a push of a blob nobody references followed by a Close: a collection certainly is due then
	if err := e.api.BlobPut(ctx, e.tgtRef(0, ""), descriptor.Descriptor{Digest: digest.Digest(rm.Digest("sha256", sentinel)), Size: int64(len(sentinel))}, bytes.NewReader(sentinel)); err == nil {
		e.due = true
	}
	e.trace = append(e.trace, fmt.Sprintf("sentinel blob; final close(due=%v)", e.due))
	return finish(e.closeAndJudge(0, "final close"))
}

// saveWatchdog keeps a case whose copy ran into the wall-clock watchdog (inconclusive, never a violation) for inspection.
func saveWatchdog(cs Case) {
	out := os.Getenv("VERIF_OUT")
	if out == "" {
		return
	}
	b, err := json.Marshal(cs)
	if err != nil {
		return
	}
	os.WriteFile(filepath.Join(out, fmt.Sprintf("watchdog-%s-%d.json", os.Getenv("VERIF_SHARD"), time.Now().UnixNano()%1000000)), b, 0o644)
}
