package c08

import (
	"os"
	"testing"

	"pgregory.net/rapid"

	"github.com/regclient/regclient/zz_verif/evid"
)

func TestMain(m *testing.M) {
	code := m.Run()
	evid.Flush(code)
	os.Exit(code)
}

// check is a pure function of the case and the code under test (Part B: of the
// case, the code under test and the scheduler; its oracles hold on every schedule).
func check(c Case, ev *evid.Collector) *evid.Violation {
	switch c.Part {
	case "A":
		return checkA(c, ev)
	case "B":
		return checkB(c, ev)
	}
	return &evid.Violation{Sig: "harness-bad-case", Msg: "unknown part " + c.Part}
}

// TestVerifProp: Part A, sequential histories.
func TestVerifProp(t *testing.T) {
	ev := evid.For(prop)
	rapid.Check(t, func(rt *rapid.T) {
		c := genA(rt)
		v := evid.Guard(func() *evid.Violation { return check(c, ev) })
		if ev.Report(v, c) {
			rt.Fatalf("%v", v)
		}
	})
}

// TestVerifConc: Part B, concurrent copies and closes.
func TestVerifConc(t *testing.T) {
	ev := evid.For(prop)
	rapid.Check(t, func(rt *rapid.T) {
		c := genB(rt)
		v := evid.Guard(func() *evid.Violation { return check(c, ev) })
		if ev.Report(v, c) {
			rt.Fatalf("%v", v)
		}
	})
}

func reps(c Case, replayDir bool) int {
	if c.Part == "B" {
		if replayDir {
			return 40
		}
		return 300
	}
	return 2
}

func TestVerifReplayDir(t *testing.T) {
	ev := evid.For(prop)
	for _, f := range evid.ReplayFiles() {
		var c Case
		if err := evid.LoadCaseFile(f, &c); err != nil {
			t.Fatalf("%s: %v", f, err)
		}
		for i := 0; i < reps(c, true); i++ {
			v := evid.Guard(func() *evid.Violation { return check(c, ev) })
			if ev.Report(v, c) {
				t.Errorf("%s: %v", f, v)
				break
			}
		}
	}
}

func TestVerifReplay(t *testing.T) {
	ev := evid.For(prop)
	var c Case
	ok, err := evid.LoadReplay(&c)
	if !ok {
		t.Skip("no VERIF_REPLAY")
	}
	if err != nil {
		t.Fatal(err)
	}
	for i := 0; i < reps(c, false); i++ {
		v := evid.Guard(func() *evid.Violation { return check(c, ev) })
		if ev.Report(v, c) {
			t.Fatalf("run %d: %v", i, v)
		}
	}
}
