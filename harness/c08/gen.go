// Package c08 decides C08: garbage collection of an OCI layout (Close) never
// removes content that a tag or index entry reaches, removes unreachable content
// and leftover temporary files when a collection does run, and never runs while
// an image copy into the same layout is in progress.
//
// Part A (TestVerifProp): generated histories on one client, sequential.
// Part B (TestVerifConc): generated schedules of concurrent copies and closes.
package c08

import (
	"encoding/base64"
	"fmt"
	"sort"
	"strings"

	"pgregory.net/rapid"

	"github.com/regclient/regclient/zz_verif/imggen"
	rm "github.com/regclient/regclient/zz_verif/regmodel"
)

const (
	prop    = "C08"
	srcHost = "src.example.test"
	extHost = "ext.example.test"
	srcRepo = "proj/src"
)

// Case is the union record that is generated, saved and replayed.
type Case struct {
	Part string `json:"part"` // A | B
	A    *CaseA `json:"a,omitempty"`
	B    *CaseB `json:"b,omitempty"`
}

// FaultSpec is one fault injected at the source registry during one copy.
type FaultSpec struct {
	Class  string `json:"class"` // blob-get | manifest-get | blob-head | manifest-head
	Nth    int    `json:"nth"`
	Kind   string `json:"kind"` // status | truncate | reset-before | wrong-bytes (the source serves other bytes for the Nth blob of the closure: digest mismatch while the blob is being written) | cancel (the copy's context is cancelled on arrival of its Nth blob request: the body breaks off mid-stream)
	Status int    `json:"status,omitempty"`
	At     int    `json:"at,omitempty"`
	Times  int    `json:"times"` // 1 = transient (the retry succeeds), -1 = persistent
}

// Op is one step of a Part-A history.
type Op struct {
	Kind string `json:"kind"` // copy | import | push | manifest | blob | blobdel | tagdel | mandel | tmp | close | reopen
	Node int    `json:"node"`
	Blob int    `json:"blob,omitempty"`
	Bad  int    `json:"bad,omitempty"` // blob: 0 a good push; a push that fails part-way for real: 1 other bytes than the declared digest, 2 the reader fails mid-stream, 3 the context is cancelled mid-body, 4 wrong declared size
	Tag  int    `json:"tag"`           // -1 = by digest, 0..2 = t0..t2, 3 = v1, 4 = no tag in the reference (the default tag "latest")
	// copy
	From       string     `json:"from,omitempty"` // reg | layout | self (re-tag inside the target layout)
	SrcByTag   bool       `json:"src_by_tag,omitempty"`
	Child      bool       `json:"child,omitempty"`
	Platforms  []string   `json:"platforms,omitempty"`
	Referrers  bool       `json:"referrers,omitempty"`
	DigestTags bool       `json:"digest_tags,omitempty"`
	Force      bool       `json:"force,omitempty"`
	External   bool       `json:"external,omitempty"`
	Fault      *FaultSpec `json:"fault,omitempty"`
	CloseEvery int        `json:"close_every,omitempty"` // Close(target) from inside every k-th source request / progress callback of the copy (0 = never)
	// push
	SkipBlobs    bool `json:"skip_blobs,omitempty"`
	SkipChildren bool `json:"skip_children,omitempty"`
	// mandel
	DelOpt int `json:"del_opt,omitempty"` // 0 plain, 1 check-referrers, 2 with-manifest
	// tagdel
	TagKind int `json:"tag_kind,omitempty"` // 0 the tag, 1 the referrers fallback tag of Node
	// tmp
	Name int `json:"name,omitempty"`
	// reference forms
	WithDigest bool `json:"with_digest,omitempty"` // copy / push / manifest into a tag: the target reference is tag@digest
	CloseRef   int  `json:"close_ref,omitempty"`   // close: 0 path:t0, 1 path@digest(Node), 2 path:t0@digest(Node), 3 bare path (default tag)
	Client     int  `json:"client,omitempty"`      // which of the two client instances runs the operation (sequentially; 0 | 1)
	// Ctx is the state of the context the operation is called with: 0 live, 1 already cancelled, 2 deadline already
	// expired, 3 cancelled by another goroutine while the call runs (what `defer rc.Close(ctx, r)` sees after ctrl-c / a timeout)
	Ctx int `json:"ctx,omitempty"`
}

// CaseA is one sequential history.
type CaseA struct {
	System string        `json:"system"` // rc (RegClient, GC on) | scheme-gc (ocidir.New()) | scheme-nogc (ocidir.New(WithGC(false)))
	Graph  *imggen.Graph `json:"graph"`
	RefAPI bool          `json:"ref_api"` // source registry implements the referrers API
	Pre    string        `json:"pre"`     // absent | empty | graph | graph-partial
	Keep   []string      `json:"keep,omitempty"`
	PreAll bool          `json:"pre_all,omitempty"` // pre-state lists every stored manifest as an untagged entry
	// pre-state written "by another tool": ref.name is a full image name, io.containerd.image.name is set, one entry is
	// listed twice, no entry carries a tag at all
	PreFullName   bool `json:"pre_full_name,omitempty"`
	PreContainerd bool `json:"pre_containerd,omitempty"`
	PreDup        bool `json:"pre_dup,omitempty"`
	PreUntagged   bool `json:"pre_untagged,omitempty"`
	PathForm      int  `json:"path_form,omitempty"` // how every reference spells the layout path: 0 absolute, 1 relative to the cwd, 2 ./relative
	Ops           []Op `json:"ops"`
}

// StepB is one step of a Part-B worker.
type StepB struct {
	Kind    string `json:"kind"` // copy | close | pause
	Copy    int    `json:"copy,omitempty"`
	PauseUs int    `json:"pause_us,omitempty"`
	Ctx     int    `json:"ctx,omitempty"`    // close: context state (see Op.Ctx)
	Layout  int    `json:"layout,omitempty"` // close: 0 the main layout, 1 the second (referrer target) layout
}

// CopyB is one copy of a Part-B schedule (copy i reads repository proj/c<i> and writes tag c<i>).
type CopyB struct {
	Node       int        `json:"node"`
	Platforms  []string   `json:"platforms,omitempty"`
	Referrers  bool       `json:"referrers,omitempty"`
	DigestTags bool       `json:"digest_tags,omitempty"`
	Force      bool       `json:"force,omitempty"`
	Fault      *FaultSpec `json:"fault,omitempty"`
	// with Referrers: ImageWithReferrerTgt = 0 none | 1 the main layout under another reference form (same path) | 2 the
	// SECOND layout | 3 a registry repository; ImageWithReferrerSrc = 0 none | 1 another layout holding the referrers | 2 a
	// registry repository holding them
	RefTgt int `json:"ref_tgt,omitempty"`
	RefSrc int `json:"ref_src,omitempty"`
}

// CaseB is one concurrent schedule.
type CaseB struct {
	Graph      *imggen.Graph `json:"graph"`
	RefAPI     bool          `json:"ref_api"`
	Pre        string        `json:"pre"` // absent | empty | graph
	Copies     []CopyB       `json:"copies"`
	Workers    [][]StepB     `json:"workers"`
	CloseEvery int           `json:"close_every"` // Close(target) from inside every k-th source request (0 = off)
	CloseAt    []int         `json:"close_at,omitempty"`
	PathForm   int           `json:"path_form,omitempty"`  // see CaseA.PathForm
	Pre2       string        `json:"pre2,omitempty"`       // pre-state of the second layout: absent | empty | graph
	CloseBoth  bool          `json:"close_both,omitempty"` // closes issued from inside copies also close the second layout
	CloseCtx   []int         `json:"close_ctx,omitempty"`  // context states of the closes issued from inside copies (cyclic; empty = live)
	Delays     []int         `json:"delays,omitempty"`
	Procs      int           `json:"procs"`
}

// closeCtxChoices: ~30 % of the closes run with a dead / dying context.
var closeCtxChoices = []int{0, 0, 0, 0, 0, 0, 0, 1, 2, 3}

var platformChoices = [][]string{
	{"linux/amd64"},
	{"linux/arm64"},
	{"linux/amd64", "linux/arm/v7"},
	{"linux/arm64", ""},
	{""},
	{"windows/amd64"},
}

// ---- graph ------------------------------------------------------------------------------------

func descJSON(mt, dig string, size int) string {
	return fmt.Sprintf(`{"mediaType":%q,"digest":%q,"size":%d}`, mt, dig, size)
}

func sortedBlobDigests(g *imggen.Graph) []string {
	out := make([]string, 0, len(g.Blobs))
	for d := range g.Blobs {
		out = append(out, d)
	}
	sort.Strings(out)
	return out
}

func addBlob(g *imggen.Graph, data []byte) string { return addBlobAlg(g, data, "sha256") }

func addBlobAlg(g *imggen.Graph, data []byte, alg string) string {
	d := rm.Digest(alg, data)
	if _, ok := g.Blobs[d]; !ok {
		g.Blobs[d] = &imggen.Blob{Digest: d, Data: data}
	}
	return d
}

func addNode(g *imggen.Graph, n *imggen.Node, alg string) int {
	n.Digest = rm.Digest(alg, n.Body)
	for _, o := range g.Nodes {
		if o.Digest == n.Digest {
			return o.ID
		}
	}
	n.ID = len(g.Nodes)
	g.Nodes = append(g.Nodes, n)
	return n.ID
}

// pickBlob returns a blob of the graph (shared with whatever already uses it) or a new one.
func pickBlob(t *rapid.T, g *imggen.Graph, label, alg string) string {
	pool := sortedBlobDigests(g)
	if len(pool) > 0 && rapid.IntRange(0, 1).Draw(t, label+"_reuse") == 0 {
		return rapid.SampledFrom(pool).Draw(t, label+"_pick")
	}
	return addBlobAlg(g, rapid.SliceOfN(rapid.Byte(), 1, 24).Draw(t, label+"_data"), alg)
}

// genExtras appends nodes the image generator does not produce by itself:
// sibling images re-using blobs of the graph (different images sharing layers)
// and referrers of arbitrary nodes (image / artifact manifest with blobs[] / index
// with a subject, referrers of referrers, subjects that are stored nowhere).
func genExtras(t *rapid.T, g *imggen.Graph) {
	n := rapid.IntRange(0, 4).Draw(t, "x_n")
	labels := map[string]bool{}
	for i := 0; i < n; i++ {
		l := fmt.Sprintf("x%d", i)
		kind := rapid.SampledFrom([]string{"sibling", "sibling", "sibling", "ref-image", "ref-image", "ref-artifact", "ref-artifact", "ref-index", "ref-index", "signed-schema1"}).Draw(t, l+"_kind")
		if kind == "signed-schema1" {
			addSignedSchema1(g)
			labels["x-signed-schema1"] = true
			continue
		}
		// some of the extra objects (the manifest itself and the new blobs it names) are addressed by sha512 digests
		alg := "sha256"
		if rapid.IntRange(0, 3).Draw(t, l+"_sha512") == 0 {
			alg = "sha512"
			labels["x-sha512"] = true
		}
		subject, subjDesc := "", ""
		if kind != "sibling" {
			si := rapid.IntRange(-1, len(g.Nodes)-1).Draw(t, l+"_subj")
			if si < 0 {
				subject = rm.Digest("sha256", []byte(fmt.Sprintf("absent-subject-%d", i)))
				subjDesc = descJSON(rm.MTOCIManifest, subject, 321)
				labels["x-absent-subject"] = true
			} else {
				s := g.Nodes[si]
				subject = s.Digest
				subjDesc = descJSON(s.MediaType, s.Digest, len(s.Body))
				if s.Subject != "" {
					labels["x-referrer-of-referrer"] = true
				}
				if strings.HasPrefix(s.Digest, "sha512:") {
					// regclient keeps these under the truncated fallback tag sha512-<first 64 hex digits>
					labels["x-referrer-of-sha512-subject"] = true
				}
			}
		}
		at := rapid.SampledFrom([]string{"application/vnd.example.sbom", "application/vnd.example.sig"}).Draw(t, l+"_at")
		node := &imggen.Node{Subject: subject}
		switch kind {
		case "sibling", "ref-image":
			node.Kind, node.MediaType = "image", rm.MTOCIManifest
			cfg := []byte(fmt.Sprintf(`{"architecture":"amd64","os":"linux","config":{"Env":["X=%d"]},"rootfs":{"type":"layers","diff_ids":[]}}`,
				rapid.IntRange(0, 3).Draw(t, l+"_cfg")))
			cmt := rm.MTOCIConfig
			if kind == "ref-image" {
				cfg, cmt = []byte("{}"), rm.MTOCIEmpty
			}
			cd := addBlobAlg(g, cfg, alg)
			node.Blobs = append(node.Blobs, cd)
			layers := []string{}
			nl := rapid.IntRange(0, 3).Draw(t, l+"_nl")
			for j := 0; j < nl; j++ {
				d := pickBlob(t, g, fmt.Sprintf("%s_l%d", l, j), alg)
				layers = append(layers, descJSON(rm.MTOCILayerGzip, d, len(g.Blobs[d].Data)))
				node.Blobs = append(node.Blobs, d)
			}
			body := `{"schemaVersion":2,"mediaType":"` + rm.MTOCIManifest + `"`
			if kind == "ref-image" {
				body += `,"artifactType":"` + at + `"`
				node.ArtType = at
			}
			body += `,"config":` + descJSON(cmt, cd, len(cfg)) + `,"layers":[` + strings.Join(layers, ",") + `]`
			if subject != "" {
				body += `,"subject":` + subjDesc
			}
			body += `}`
			node.Body = []byte(body)
			labels["x-"+kind] = true
		case "ref-artifact":
			node.Kind, node.MediaType, node.ArtType = "artifact", rm.MTOCIArtifact, at
			bl := []string{}
			nb := rapid.IntRange(0, 2).Draw(t, l+"_nb")
			for j := 0; j < nb; j++ {
				d := pickBlob(t, g, fmt.Sprintf("%s_b%d", l, j), alg)
				bl = append(bl, descJSON("application/octet-stream", d, len(g.Blobs[d].Data)))
				node.Blobs = append(node.Blobs, d)
			}
			node.Body = []byte(`{"mediaType":"` + rm.MTOCIArtifact + `","artifactType":"` + at + `","blobs":[` + strings.Join(bl, ",") + `],"subject":` + subjDesc + `}`)
			labels["x-ref-artifact"] = true
		case "ref-index":
			node.Kind, node.MediaType, node.ArtType = "index", rm.MTOCIIndex, at
			ents := []string{}
			// The entries are fresh images nobody else lists: an index referrer that lists its own subject (or
			// something leading back to it) makes ImageCopy with referrers wait on itself forever, which is not
			// this property's business (seen while building this check; such cycles are not generated).
			ne := rapid.IntRange(0, 2).Draw(t, l+"_ne")
			for j := 0; j < ne; j++ {
				cfg := []byte(fmt.Sprintf(`{"architecture":"arm64","os":"linux","config":{"Env":["RI=%d.%d"]},"rootfs":{"type":"layers","diff_ids":[]}}`, i, j))
				cd := addBlob(g, cfg)
				child := &imggen.Node{Kind: "image", MediaType: rm.MTOCIManifest, Blobs: []string{cd}}
				layers := []string{}
				nl := rapid.IntRange(0, 2).Draw(t, fmt.Sprintf("%s_e%d_nl", l, j))
				for k := 0; k < nl; k++ {
					d := pickBlob(t, g, fmt.Sprintf("%s_e%d_l%d", l, j, k), alg)
					layers = append(layers, descJSON(rm.MTOCILayerGzip, d, len(g.Blobs[d].Data)))
					child.Blobs = append(child.Blobs, d)
				}
				child.Body = []byte(`{"schemaVersion":2,"mediaType":"` + rm.MTOCIManifest + `","config":` + descJSON(rm.MTOCIConfig, cd, len(cfg)) + `,"layers":[` + strings.Join(layers, ",") + `]}`)
				ci := addNode(g, child, alg)
				c := g.Nodes[ci]
				ents = append(ents, descJSON(c.MediaType, c.Digest, len(c.Body)))
				node.Children = append(node.Children, ci)
			}
			node.Body = []byte(`{"schemaVersion":2,"mediaType":"` + rm.MTOCIIndex + `","artifactType":"` + at + `","manifests":[` + strings.Join(ents, ",") + `],"subject":` + subjDesc + `}`)
			labels["x-ref-index"] = true
		}
		addNode(g, node, alg)
	}
	for l := range labels {
		g.Labels = append(g.Labels, l)
	}
	sort.Strings(g.Labels)
}

// addSignedSchema1 adds the fixed signed (pretty-JWS) Docker schema1 manifest: stored under the digest of its payload,
// its layers are named by fsLayers[].blobSum.
func addSignedSchema1(g *imggen.Graph) int {
	body, err := base64.StdEncoding.DecodeString(signedSchema1B64)
	if err != nil {
		panic(err)
	}
	n := &imggen.Node{Kind: "schema1", MediaType: rm.MTDocker1Sig, Body: body,
		Blobs: []string{addBlob(g, signedLayerA), addBlob(g, signedLayerB)}}
	n.Digest = rm.ManifestDigest("sha256", rm.MTDocker1Sig, body)
	for _, o := range g.Nodes {
		if o.Digest == n.Digest {
			return o.ID
		}
	}
	n.ID = len(g.Nodes)
	g.Nodes = append(g.Nodes, n)
	return n.ID
}

func genGraph(t *rapid.T, noMediaType bool) *imggen.Graph {
	o := imggen.DefaultOptions()
	o.ExtHost = extHost
	o.NoMediaType = noMediaType && rapid.IntRange(0, 2).Draw(t, "g_nomt") == 0
	o.Sha512 = rapid.IntRange(0, 2).Draw(t, "g_sha512") == 0
	g := imggen.Gen(t, o)
	genExtras(t, g)
	return g
}

func genFault(t *rapid.T, label string) *FaultSpec {
	f := &FaultSpec{
		Class: rapid.SampledFrom([]string{"blob-get", "blob-get", "blob-get", "manifest-get", "manifest-get", "manifest-head"}).Draw(t, label+"_class"),
		Nth:   rapid.SampledFrom([]int{0, 0, 1, 1, 2, 3, 5}).Draw(t, label+"_nth"),
		Kind:  rapid.SampledFrom([]string{"status", "status", "status", "truncate", "reset-before", "wrong-bytes", "wrong-bytes", "cancel"}).Draw(t, label+"_kind"),
		Times: rapid.SampledFrom([]int{-1, -1, -1, 1}).Draw(t, label+"_times"),
	}
	switch f.Kind {
	case "status":
		f.Status = rapid.SampledFrom([]int{404, 500, 403}).Draw(t, label+"_status")
	case "truncate":
		f.At = rapid.IntRange(0, 5).Draw(t, label+"_at")
		// a body that is truncated again and again makes the reader wait for its own throttle slot (known finding of C01,
		// intact-read-blocks-on-own-throttle-slot): only single truncations (the range resume succeeds) are generated
		f.Times = 1
	}
	return f
}

// ---- Part A --------------------------------------------------------------------------------------

func genOp(t *rapid.T, nNodes, nBlobs int, system string) Op {
	kind := rapid.SampledFrom([]string{"copy", "copy", "copy", "copy", "copy", "copy", "copy", "copy", "import", "push", "push", "push", "push", "push", "push",
		"manifest", "manifest", "blob", "blob", "blobdel", "tagdel", "tagdel", "tagdel", "tagdel", "mandel", "mandel", "mandel", "mandel", "tmp", "tmp",
		"close", "close", "close", "close", "close", "close", "close", "close", "reopen", "reopen"}).Draw(t, "kind")
	op := Op{Kind: kind, Node: rapid.IntRange(0, nNodes-1).Draw(t, "node"), Tag: rapid.IntRange(-1, 4).Draw(t, "tag")}
	op.Client = rapid.SampledFrom([]int{0, 0, 0, 1}).Draw(t, "client")
	switch kind {
	case "copy":
		op.From = rapid.SampledFrom([]string{"reg", "reg", "reg", "reg", "layout", "layout", "self"}).Draw(t, "from")
		op.SrcByTag = rapid.IntRange(0, 3).Draw(t, "srcbytag") == 0
		op.Child = rapid.IntRange(0, 7).Draw(t, "child") == 0
		if rapid.IntRange(0, 3).Draw(t, "sparse") == 0 {
			op.Platforms = rapid.SampledFrom(platformChoices).Draw(t, "platforms")
		}
		op.Force = rapid.IntRange(0, 4).Draw(t, "force") == 0
		op.External = rapid.IntRange(0, 4).Draw(t, "external") == 0
		if op.From == "reg" && rapid.IntRange(0, 2).Draw(t, "hasfault") == 0 {
			op.Fault = genFault(t, "fault")
		} else {
			// a failing copy with these options may return while child goroutines still run (not this property's business)
			op.Referrers = rapid.IntRange(0, 2).Draw(t, "referrers") == 0
			op.DigestTags = rapid.IntRange(0, 3).Draw(t, "digesttags") == 0
		}
		op.CloseEvery = rapid.SampledFrom([]int{0, 0, 1, 2, 3, 5}).Draw(t, "closeevery")
	case "push":
		op.Child = rapid.IntRange(0, 7).Draw(t, "child") == 0
		op.SkipBlobs = rapid.IntRange(0, 5).Draw(t, "skipblobs") == 0
		op.SkipChildren = rapid.IntRange(0, 5).Draw(t, "skipchildren") == 0
	case "manifest":
		op.Child = rapid.IntRange(0, 3).Draw(t, "child") == 0
	case "blob":
		if nBlobs > 0 {
			op.Blob = rapid.IntRange(0, nBlobs-1).Draw(t, "blob")
		}
		op.Bad = rapid.SampledFrom([]int{0, 0, 0, 0, 1, 2, 3, 4}).Draw(t, "bad")
	case "tagdel":
		op.TagKind = rapid.SampledFrom([]int{0, 0, 0, 1}).Draw(t, "tagkind")
		if op.Tag < 0 {
			op.Tag = 0
		}
	case "mandel":
		op.DelOpt = rapid.IntRange(0, 2).Draw(t, "delopt")
	case "blobdel":
		if nBlobs > 0 {
			op.Blob = rapid.IntRange(0, nBlobs-1).Draw(t, "blob")
		}
	case "tmp":
		op.Name = rapid.IntRange(0, 6).Draw(t, "name")
	case "close":
		op.CloseRef = rapid.SampledFrom([]int{0, 0, 0, 1, 2, 3}).Draw(t, "closeref")
	}
	switch kind {
	case "copy", "import", "push", "manifest":
		op.WithDigest = op.Tag >= 0 && rapid.IntRange(0, 5).Draw(t, "withdigest") == 0
	}
	switch kind {
	case "close":
		// ~30 % of the closes run with a context that is (or becomes) dead
		op.Ctx = rapid.SampledFrom([]int{0, 0, 0, 0, 0, 0, 0, 1, 2, 3}).Draw(t, "ctx")
	case "copy", "import", "push", "manifest", "blob", "blobdel", "tagdel", "mandel":
		op.Ctx = rapid.SampledFrom([]int{0, 0, 0, 0, 0, 0, 0, 0, 0, 0, 0, 0, 0, 0, 0, 0, 1, 2, 3}).Draw(t, "ctx")
	}
	return op
}

func genA(t *rapid.T) Case {
	c := &CaseA{}
	c.System = rapid.SampledFrom([]string{"rc", "rc", "rc", "rc", "scheme-gc", "scheme-nogc"}).Draw(t, "system")
	c.Graph = genGraph(t, true)
	c.RefAPI = rapid.Bool().Draw(t, "refapi")
	c.Pre = rapid.SampledFrom([]string{"absent", "absent", "empty", "graph", "graph-partial"}).Draw(t, "pre")
	if c.Pre == "graph-partial" {
		for _, d := range c.Graph.AllDigests() {
			if rapid.IntRange(0, 3).Draw(t, "keep") != 0 {
				c.Keep = append(c.Keep, d)
			}
		}
	}
	if c.Pre == "graph" || c.Pre == "graph-partial" {
		c.PreAll = rapid.IntRange(0, 3).Draw(t, "preall") == 0
		c.PreFullName = rapid.IntRange(0, 4).Draw(t, "prefullname") == 0
		c.PreContainerd = c.PreFullName && rapid.Bool().Draw(t, "prectrd")
		c.PreDup = rapid.IntRange(0, 4).Draw(t, "predup") == 0
		c.PreUntagged = !c.PreFullName && rapid.IntRange(0, 7).Draw(t, "preuntagged") == 0
	}
	c.PathForm = rapid.SampledFrom([]int{0, 0, 0, 1, 2}).Draw(t, "pathform")
	nN, nB := len(c.Graph.Nodes), len(c.Graph.Blobs)
	n := rapid.IntRange(1, 14).Draw(t, "nops")
	for i := 0; i < n; i++ {
		c.Ops = append(c.Ops, genOp(t, nN, nB, c.System))
	}
	return Case{Part: "A", A: c}
}

// ---- Part B --------------------------------------------------------------------------------------

func genB(t *rapid.T) Case {
	c := &CaseB{}
	// bodies without a mediaType field are left to Part A (known finding gc-removed-content-of-nested-manifest-without-mediatype)
	c.Graph = genGraph(t, false)
	c.RefAPI = rapid.Bool().Draw(t, "refapi")
	c.Pre = rapid.SampledFrom([]string{"absent", "empty", "graph"}).Draw(t, "pre")
	nN := len(c.Graph.Nodes)
	nC := rapid.IntRange(2, 5).Draw(t, "ncopies")
	nW := rapid.IntRange(2, 4).Draw(t, "nworkers")
	c.Workers = make([][]StepB, nW)
	pauses := []int{0, 0, 100, 500, 2000}
	for i := 0; i < nC; i++ {
		l := fmt.Sprintf("c%d", i)
		cp := CopyB{Node: rapid.IntRange(0, nN-1).Draw(t, l+"_node")}
		// prefer the big nodes: the root and its neighbours
		if rapid.IntRange(0, 2).Draw(t, l+"_root") == 0 {
			cp.Node = c.Graph.Root
		}
		if rapid.IntRange(0, 4).Draw(t, l+"_sparse") == 0 {
			cp.Platforms = rapid.SampledFrom(platformChoices).Draw(t, l+"_platforms")
		}
		cp.Force = rapid.IntRange(0, 4).Draw(t, l+"_force") == 0
		if rapid.IntRange(0, 2).Draw(t, l+"_hasfault") == 0 {
			cp.Fault = genFault(t, l+"_fault")
			// a failing copy with the referrers option is the trigger of the known finding gc-ran-while-failed-copy-still-writing
			// (kept rare: behind it the completeness clause of the final Close cannot be judged)
			cp.Referrers = rapid.IntRange(0, 5).Draw(t, l+"_faultref") == 0
		} else {
			cp.Referrers = rapid.IntRange(0, 2).Draw(t, l+"_referrers") == 0
			if cp.Referrers {
				cp.RefTgt = rapid.SampledFrom([]int{0, 0, 1, 2, 2, 2, 3}).Draw(t, l+"_reftgt")
				cp.RefSrc = rapid.SampledFrom([]int{0, 0, 0, 1, 2}).Draw(t, l+"_refsrc")
			}
			cp.DigestTags = rapid.IntRange(0, 4).Draw(t, l+"_digesttags") == 0
		}
		c.Copies = append(c.Copies, cp)
		w := rapid.IntRange(0, nW-1).Draw(t, l+"_worker")
		if p := rapid.SampledFrom(pauses).Draw(t, l+"_pause"); p > 0 {
			c.Workers[w] = append(c.Workers[w], StepB{Kind: "pause", PauseUs: p})
		}
		c.Workers[w] = append(c.Workers[w], StepB{Kind: "copy", Copy: i})
		if rapid.IntRange(0, 3).Draw(t, l+"_close") != 0 {
			c.Workers[w] = append(c.Workers[w], StepB{Kind: "close", Ctx: rapid.SampledFrom(closeCtxChoices).Draw(t, l+"_closectx"), Layout: rapid.SampledFrom([]int{0, 0, 0, 1}).Draw(t, l+"_closelayout")})
		}
	}
	// a worker that only closes (regbot-style housekeeping running beside the copies)
	for w := range c.Workers {
		if len(c.Workers[w]) == 0 {
			nc := rapid.IntRange(1, 4).Draw(t, fmt.Sprintf("w%d_nclose", w))
			for j := 0; j < nc; j++ {
				c.Workers[w] = append(c.Workers[w], StepB{Kind: "pause", PauseUs: rapid.SampledFrom(pauses[1:]).Draw(t, fmt.Sprintf("w%d_p%d", w, j))},
					StepB{Kind: "close", Ctx: rapid.SampledFrom(closeCtxChoices).Draw(t, fmt.Sprintf("w%d_c%d", w, j)), Layout: rapid.SampledFrom([]int{0, 0, 1}).Draw(t, fmt.Sprintf("w%d_l%d", w, j))})
			}
		}
	}
	c.CloseEvery = rapid.SampledFrom([]int{0, 1, 1, 2, 3, 5}).Draw(t, "closeevery")
	nca := rapid.IntRange(0, 4).Draw(t, "ncloseat")
	for j := 0; j < nca; j++ {
		c.CloseAt = append(c.CloseAt, rapid.IntRange(0, 80).Draw(t, "closeat"))
	}
	ncc := rapid.IntRange(0, 4).Draw(t, "nclosectx")
	for j := 0; j < ncc; j++ {
		c.CloseCtx = append(c.CloseCtx, rapid.SampledFrom(closeCtxChoices).Draw(t, "closectx"))
	}
	nd := rapid.IntRange(0, 6).Draw(t, "ndelays")
	for j := 0; j < nd; j++ {
		c.Delays = append(c.Delays, rapid.IntRange(0, len(delayTable)-1).Draw(t, "delay"))
	}
	c.Procs = rapid.SampledFrom([]int{1, 2, 4, 16}).Draw(t, "procs")
	c.PathForm = rapid.SampledFrom([]int{0, 0, 0, 1, 2}).Draw(t, "pathform")
	c.Pre2 = rapid.SampledFrom([]string{"absent", "empty", "graph"}).Draw(t, "pre2")
	c.CloseBoth = rapid.Bool().Draw(t, "closeboth")
	return Case{Part: "B", B: c}
}
