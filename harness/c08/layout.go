package c08

// Raw observation of a layout directory: file snapshots and the independent
// reachability computation (audit walker over the raw index.json). Nothing in
// this file goes through regclient.

import (
	"context"
	"crypto/sha256"
	"encoding/hex"
	"errors"
	"fmt"
	"os"
	"path/filepath"
	"regexp"
	"runtime"
	"sort"
	"strings"
	"time"

	"github.com/regclient/regclient/zz_verif/audit"
	rm "github.com/regclient/regclient/zz_verif/regmodel"
)

// snap is the content of blobs/<alg>/* plus the two root files.
type snap struct {
	other  map[string]bool   // every other regular file anywhere under the layout (relative path), except index.json and oci-layout
	files  map[string]string // "<alg>/<name>" -> sha256 of the file content
	index  string            // bytes of index.json ("" if absent)
	marker string            // bytes of oci-layout
}

func fileHash(p string) (string, bool) {
	b, err := os.ReadFile(p)
	if err != nil {
		return "", false
	}
	s := sha256.Sum256(b)
	return hex.EncodeToString(s[:]), true
}

func takeSnap(dir string) snap {
	s := snap{files: map[string]string{}, other: map[string]bool{}}
	filepath.WalkDir(dir, func(p string, d os.DirEntry, err error) error {
		if err != nil || d.IsDir() {
			return nil
		}
		rel, rerr := filepath.Rel(dir, p)
		if rerr != nil || rel == "index.json" || rel == "oci-layout" {
			return nil
		}
		// blobs/<alg>/<name> is listed in files
		if parts := strings.Split(filepath.ToSlash(rel), "/"); len(parts) == 3 && parts[0] == "blobs" {
			return nil
		}
		s.other[filepath.ToSlash(rel)] = true
		return nil
	})
	if b, err := os.ReadFile(filepath.Join(dir, "index.json")); err == nil {
		s.index = string(b)
	}
	if b, err := os.ReadFile(filepath.Join(dir, "oci-layout")); err == nil {
		s.marker = string(b)
	}
	algs, _ := os.ReadDir(filepath.Join(dir, "blobs"))
	for _, a := range algs {
		if !a.IsDir() {
			continue
		}
		fs, _ := os.ReadDir(filepath.Join(dir, "blobs", a.Name()))
		for _, f := range fs {
			if f.IsDir() {
				continue
			}
			if h, ok := fileHash(filepath.Join(dir, "blobs", a.Name(), f.Name())); ok {
				s.files[a.Name()+"/"+f.Name()] = h
			}
		}
	}
	return s
}

func isHexName(s string) bool {
	if len(s) < 32 {
		return false
	}
	for i := 0; i < len(s); i++ {
		c := s[i]
		if !(c >= '0' && c <= '9' || c >= 'a' && c <= 'f') {
			return false
		}
	}
	return true
}

// keyDigest converts "<alg>/<hex>" to "<alg>:<hex>" ("" for names that are not digests).
func keyDigest(k string) string {
	alg, name, ok := strings.Cut(k, "/")
	if !ok || !isHexName(name) {
		return ""
	}
	return alg + ":" + name
}

func digestKey(d string) string { return strings.Replace(d, ":", "/", 1) }

// listDigestFiles lists only the names (cheap; used by the Part-B observers).
func listDigestFiles(dir string) map[string]bool {
	out := map[string]bool{}
	algs, _ := os.ReadDir(filepath.Join(dir, "blobs"))
	for _, a := range algs {
		if !a.IsDir() {
			continue
		}
		fs, _ := os.ReadDir(filepath.Join(dir, "blobs", a.Name()))
		for _, f := range fs {
			if isHexName(f.Name()) {
				out[a.Name()+":"+f.Name()] = true
			}
		}
	}
	return out
}

// present tells whether the file of a digest exists, by path lookup. A directory listing that runs while another
// goroutine replaces a file by rename(tmp, name) - what every manifest put of an existing digest does - can miss that
// name although it resolves at every instant (observed on this tmpfs: 1 listing in 1.3 million); a name missing from a
// listing therefore only counts as gone when the path does not resolve either.
func present(dir, digest string) bool {
	if !strings.Contains(digest, ":") {
		return false
	}
	_, err := os.Lstat(filepath.Join(dir, "blobs", digestKey(digest)))
	return err == nil
}

// recheck completes a snapshot entry that the listing may have missed: the file is read by path.
func (s snap) recheck(dir, key string) (string, bool) {
	if h, ok := s.files[key]; ok {
		return h, true
	}
	h, ok := fileHash(filepath.Join(dir, "blobs", key))
	if ok {
		s.files[key] = h
	}
	return h, ok
}

// mkCtx builds the context an operation is called with (see Op.Ctx).
func mkCtx(kind int) (context.Context, context.CancelFunc) {
	switch kind {
	case 1:
		ctx, cancel := context.WithCancel(context.Background())
		cancel()
		return ctx, cancel
	case 2:
		return context.WithDeadline(context.Background(), time.Unix(1, 0))
	case 3:
		ctx, cancel := context.WithCancel(context.Background())
		go func() {
			runtime.Gosched()
			cancel()
		}()
		return ctx, cancel
	}
	return context.WithCancel(context.Background())
}

func ctxName(kind int) string {
	return [...]string{"live", "cancelled", "expired", "cancelled-concurrently"}[((kind%4)+4)%4]
}

// ctxError tells whether an error is what a dead context legitimately produces.
func ctxError(err error) bool {
	return errors.Is(err, context.Canceled) || errors.Is(err, context.DeadlineExceeded)
}

// reachInfo tells how a digest was first reached.
type reachInfo struct {
	entry  int    // index.json entry (position) the walk started from
	parent string // digest of the manifest naming it ("" = the entry itself)
}

// reachSet is R: every digest reachable from index.json that is present and intact.
type reachSet struct {
	info    map[string]reachInfo
	entries []audit.IndexEntry
	view    *audit.LayoutView
	edges   map[string]edge // filled by resolveEdges (before the layout is touched again)
}

// resolveEdges classifies every digest of R while the files naming them are still there.
func (r *reachSet) resolveEdges() {
	r.edges = map[string]edge{}
	for d := range r.info {
		r.edges[d] = r.computeEdge(d)
	}
}

func (r *reachSet) edgeOf(d string) edge {
	if e, ok := r.edges[d]; ok {
		return e
	}
	return r.computeEdge(d)
}

// reach computes R from the raw index.json: entries -> manifests -> nested
// manifests -> config / layers / blobs[] / fsLayers; referrers are reached through
// their tagged fallback index (an ordinary entry). `subject` fields are not
// followed (the statement does not call a subject reachable). Missing objects
// (sparse copies) simply end the walk there.
func reach(dir string) *reachSet {
	v := audit.OpenLayout(dir)
	r := &reachSet{info: map[string]reachInfo{}, entries: v.Entries, view: v}
	if v.IdxErr != nil {
		return r
	}
	for i, e := range v.Entries {
		if e.Digest == "" {
			continue
		}
		if e.MediaType == "" || rm.IsManifestType(e.MediaType) {
			res := audit.ClosureEx(v, e.Digest, e.MediaType, audit.Opts{IncludeExternal: true})
			ds := make([]string, 0, len(res.Content))
			for d := range res.Content {
				ds = append(ds, d)
			}
			sort.Strings(ds)
			for _, d := range ds {
				if _, seen := r.info[d]; !seen {
					r.info[d] = reachInfo{entry: i, parent: res.Parent[d]}
				}
			}
			continue
		}
		// blob-typed top-level entry
		if data, _, ok := v.Get(e.Digest); ok && rm.ValidDigest(e.Digest) && rm.Digest(rm.AlgOf(e.Digest), data) == e.Digest {
			if _, seen := r.info[e.Digest]; !seen {
				r.info[e.Digest] = reachInfo{entry: i}
			}
		}
	}
	return r
}

// reachFrom computes the closure below one tag of the layout (present and intact objects only).
func reachFrom(dir, tag string) map[string]bool {
	v := audit.OpenLayout(dir)
	out := map[string]bool{}
	for _, e := range v.Entries {
		if n, ok := audit.TagOf(e); ok && n == tag && e.Digest != "" {
			res := audit.ClosureEx(v, e.Digest, e.MediaType, audit.Opts{IncludeExternal: true})
			for d := range res.Content {
				out[d] = true
			}
		}
	}
	return out
}

func (r *reachSet) sorted() []string {
	out := make([]string, 0, len(r.info))
	for d := range r.info {
		out = append(out, d)
	}
	sort.Strings(out)
	return out
}

var fallbackTagRE = regexp.MustCompile(`^sha(256|512)-[0-9a-f]{32,}$`)

// edge describes, for signatures and messages, through which kind of edge a
// reachable digest hangs in the graph.
type edge struct {
	label    string // index-entry | nested-manifest | config | layer | artifact-blob | blob-entry
	referrer bool   // reached through a referrers fallback tag
	nomt     bool   // named by a manifest whose type cannot be told from its body (no mediaType field, not schema1, no layers, no manifests) and that is not itself an index.json entry: its type is only stated by the descriptor that names it
	detail   string
}

func (r *reachSet) computeEdge(d string) edge {
	in, ok := r.info[d]
	if !ok {
		return edge{label: "unknown"}
	}
	var e edge
	if in.entry < len(r.entries) {
		if n, has := audit.TagOf(r.entries[in.entry]); has && fallbackTagRE.MatchString(n) {
			e.referrer = true
		}
		n, _ := audit.TagOf(r.entries[in.entry])
		e.detail = fmt.Sprintf("index.json entry #%d (tag %q, %s)", in.entry, n, r.entries[in.entry].MediaType)
	}
	if in.parent == "" {
		e.label = "index-entry"
		return e
	}
	pb, _, ok := r.view.Get(in.parent)
	if !ok {
		e.label = "unknown"
		return e
	}
	pm, err := rm.ParseManifest(pb)
	if err != nil {
		e.label = "unknown"
		return e
	}
	e.detail += fmt.Sprintf(", named by %s (mediaType in body %q)", in.parent, pm.MediaType)
	typed := pm.MediaType != "" || pm.SchemaV == 1
	for _, rf := range pm.Refs {
		if rf.Kind == "layer" || rf.Kind == "manifest" || (rf.Kind == "blob" && pm.IsIndex) {
			typed = true
		}
	}
	for _, te := range r.entries {
		if te.Digest == in.parent && te.MediaType != "" {
			typed = true
		}
	}
	e.nomt = !typed
	for _, rf := range pm.Refs {
		if rf.Digest != d {
			continue
		}
		switch rf.Kind {
		case "manifest":
			e.label = "nested-manifest"
		case "config":
			e.label = "config"
		case "layer":
			e.label = "layer"
		case "blob":
			if pm.IsIndex {
				e.label = "blob-entry"
			} else {
				e.label = "artifact-blob"
			}
		}
		return e
	}
	e.label = "unknown"
	return e
}

func (e edge) sig() string {
	s := e.label
	if e.referrer {
		s = "referrer-" + s
	}
	return s
}
