package c09

// docker.go: Docker-format archives built by the harness (clause 4): the
// legacy `docker save` layout (<id>/layer.tar, <id>/json, <id>/VERSION,
// <cfg>.json, repositories, manifest.json), the content-addressed layout
// without an OCI index (manifest.json naming blobs/sha256/...), and the
// OCI-flavoured `docker save` of Docker >= 25 (oci-layout + index.json +
// manifest.json + blobs/sha256/...). Layers are real tar streams, stored
// uncompressed, gzip- or zstd-compressed.

import (
	"archive/tar"
	"bytes"
	"compress/gzip"
	"encoding/json"
	"fmt"
	"io"
	"strings"

	"github.com/klauspost/compress/zstd"

	"github.com/regclient/regclient/zz_verif/audit"
	"github.com/regclient/regclient/zz_verif/evid"
	rm "github.com/regclient/regclient/zz_verif/regmodel"
)

// DFile is one file of a layer.
type DFile struct {
	Name string `json:"name"`
	Data []byte `json:"data"`
}

// DLayer is one layer of a Docker-format image.
type DLayer struct {
	Files  []DFile `json:"files"`
	Comp   string  `json:"comp"`            // none | gzip | zstd (how the layer stream is stored in the archive)
	SameAs int     `json:"same_as"`         // >= 0: byte-identical duplicate of that earlier layer of the same image
	Split  []int   `json:"split,omitempty"` // Comp gzip: stored as len+1 gzip members cut at these offsets of the tar stream (mod length+1)
}

// DImage is one image of the archive.
type DImage struct {
	RepoTags     []string `json:"repo_tags"`
	CfgSeed      int      `json:"cfg_seed"`
	Layers       []DLayer `json:"layers"`
	LayerSources bool     `json:"layer_sources"`
}

// DockerCase is a Docker-format archive plus the import selection.
type DockerCase struct {
	Style  string   `json:"style"` // legacy | blobs | oci
	Images []DImage `json:"images"`
	Pick   int      `json:"pick"`
	ByName bool     `json:"by_name"`
	Name   int      `json:"name"`   // which RepoTag of the picked image names it
	DupAs  string   `json:"dup_as"` // legacy style duplicates: symlink | copy | same-path
}

// built is the materialised archive and what it holds per image.
type built struct {
	entries []tarEntry
	cfg     [][]byte   // per image: config bytes
	layers  [][][]byte // per image, per layer: uncompressed tar stream
}

func layerTar(files []DFile) []byte {
	var buf bytes.Buffer
	tw := tar.NewWriter(&buf)
	for _, f := range files {
		_ = tw.WriteHeader(&tar.Header{Name: f.Name, Typeflag: tar.TypeReg, Mode: 0o644, Size: int64(len(f.Data)), ModTime: fixedTime, Format: tar.FormatUSTAR})
		_, _ = tw.Write(f.Data)
	}
	_ = tw.Close()
	return buf.Bytes()
}

func compress(b []byte, comp string, split []int) []byte {
	switch comp {
	case "gzip":
		return gzipMembers(b, split)
	case "zstd":
		var buf bytes.Buffer
		zw, _ := zstd.NewWriter(&buf)
		_, _ = zw.Write(b)
		_ = zw.Close()
		return buf.Bytes()
	}
	return b
}

func tagPart(repoTag string) string {
	i := strings.LastIndex(repoTag, ":")
	return repoTag[i+1:]
}

func hexOf(d string) string { return d[strings.Index(d, ":")+1:] }

// resolve returns the effective layer spec (following SameAs).
func (im DImage) resolve(i int) DLayer {
	l := im.Layers[i]
	for n := 0; l.SameAs >= 0 && l.SameAs < i && n < 8; n++ {
		i = l.SameAs
		l = im.Layers[i]
	}
	return l
}

func (dc DockerCase) build() built {
	var b built
	have := map[string]bool{}
	add := func(e tarEntry) {
		key := strings.TrimSuffix(e.Name, "/")
		if have[key] {
			return
		}
		have[key] = true
		b.entries = append(b.entries, e)
	}
	addBlob := func(data []byte) string {
		d := rm.Digest("sha256", data)
		add(tarEntry{Name: "blobs/", Type: tar.TypeDir})
		add(tarEntry{Name: "blobs/sha256/", Type: tar.TypeDir})
		add(tarEntry{Name: blobPath(d), Type: tar.TypeReg, Data: data})
		return d
	}
	type mj struct {
		Config       string
		RepoTags     []string
		Layers       []string
		LayerSources map[string]map[string]any `json:",omitempty"`
	}
	var manifestJSON []mj
	var idxEntries []string
	repos := map[string]map[string]string{}
	for j, im := range dc.Images {
		var uncompressed [][]byte
		var stored [][]byte
		diffIDs := []string{}
		for i := range im.Layers {
			l := im.resolve(i)
			u := layerTar(l.Files)
			uncompressed = append(uncompressed, u)
			stored = append(stored, compress(u, l.Comp, l.Split))
			diffIDs = append(diffIDs, fmt.Sprintf("%q", rm.Digest("sha256", u)))
		}
		cfg := []byte(fmt.Sprintf(`{"architecture":"amd64","os":"linux","config":{"Env":["SEED=%d","IMG=%d"],"Cmd":["/bin/true"]},"created":"2024-01-02T03:04:05Z","history":[{"created":"2024-01-02T03:04:05Z","created_by":"c09"}],"rootfs":{"type":"layers","diff_ids":[%s]}}`,
			im.CfgSeed, j, strings.Join(diffIDs, ",")))
		b.cfg = append(b.cfg, cfg)
		b.layers = append(b.layers, uncompressed)
		m := mj{RepoTags: im.RepoTags, Layers: []string{}}
		switch dc.Style {
		case "legacy":
			cd := rm.Digest("sha256", cfg)
			m.Config = hexOf(cd) + ".json"
			add(tarEntry{Name: m.Config, Type: tar.TypeReg, Data: cfg})
			ids := make([]string, len(im.Layers))
			top := ""
			for i := range im.Layers {
				id := hexOf(rm.Digest("sha256", []byte(fmt.Sprintf("chain-%d-%d-%d", im.CfgSeed, j, i))))
				ids[i] = id
				sa := im.Layers[i].SameAs
				dup := sa >= 0 && sa < i
				if dup && dc.DupAs == "same-path" {
					m.Layers = append(m.Layers, m.Layers[sa])
					ids[i] = ids[sa]
					continue
				}
				add(tarEntry{Name: id + "/", Type: tar.TypeDir})
				add(tarEntry{Name: id + "/VERSION", Type: tar.TypeReg, Data: []byte("1.0")})
				add(tarEntry{Name: id + "/json", Type: tar.TypeReg, Data: []byte(fmt.Sprintf(`{"id":%q,"created":"2024-01-02T03:04:05Z"}`, id))})
				if dup && dc.DupAs == "symlink" {
					add(tarEntry{Name: id + "/layer.tar", Type: tar.TypeSymlink, Link: "../" + ids[sa] + "/layer.tar"})
				} else {
					add(tarEntry{Name: id + "/layer.tar", Type: tar.TypeReg, Data: stored[i]})
				}
				m.Layers = append(m.Layers, id+"/layer.tar")
				top = id
			}
			for _, rt := range im.RepoTags {
				k := strings.LastIndex(rt, ":")
				if repos[rt[:k]] == nil {
					repos[rt[:k]] = map[string]string{}
				}
				repos[rt[:k]][rt[k+1:]] = top
			}
		default: // blobs, oci
			cd := addBlob(cfg)
			m.Config = blobPath(cd)
			var layerDescs []string
			for i := range im.Layers {
				ld := addBlob(stored[i])
				m.Layers = append(m.Layers, blobPath(ld))
				mt := rm.MTOCILayer
				switch im.resolve(i).Comp {
				case "gzip":
					mt = rm.MTOCILayerGzip
				case "zstd":
					mt = rm.MTOCILayerZstd
				}
				layerDescs = append(layerDescs, fmt.Sprintf(`{"mediaType":%q,"digest":%q,"size":%d}`, mt, ld, len(stored[i])))
				if im.LayerSources {
					if m.LayerSources == nil {
						m.LayerSources = map[string]map[string]any{}
					}
					m.LayerSources[ld] = map[string]any{"mediaType": mt, "digest": ld, "size": len(stored[i])}
				}
			}
			if dc.Style == "oci" {
				body := []byte(fmt.Sprintf(`{"schemaVersion":2,"mediaType":%q,"config":{"mediaType":%q,"digest":%q,"size":%d},"layers":[%s]}`,
					rm.MTOCIManifest, rm.MTOCIConfig, cd, len(cfg), strings.Join(layerDescs, ",")))
				md := addBlob(body)
				for _, rt := range im.RepoTags {
					idxEntries = append(idxEntries, fmt.Sprintf(`{"mediaType":%q,"digest":%q,"size":%d,"annotations":{"io.containerd.image.name":%q,%q:%q}}`,
						rm.MTOCIManifest, md, len(body), "docker.io/"+rt, annRefName, tagPart(rt)))
				}
			}
		}
		manifestJSON = append(manifestJSON, m)
	}
	mb, _ := json.Marshal(manifestJSON)
	add(tarEntry{Name: "manifest.json", Type: tar.TypeReg, Data: mb})
	if dc.Style == "legacy" {
		rb, _ := json.Marshal(repos)
		add(tarEntry{Name: "repositories", Type: tar.TypeReg, Data: rb})
	}
	if dc.Style == "oci" {
		add(tarEntry{Name: "index.json", Type: tar.TypeReg, Data: []byte(`{"schemaVersion":2,"mediaType":"` + rm.MTOCIIndex + `","manifests":[` + strings.Join(idxEntries, ",") + `]}`)})
		add(tarEntry{Name: "oci-layout", Type: tar.TypeReg, Data: []byte(`{"imageLayoutVersion":"1.0.0"}`)})
	}
	return b
}

// decompressAs decodes a layer blob according to its declared media type.
func decompressAs(mt string, b []byte) ([]byte, error) {
	switch {
	case strings.HasSuffix(mt, "gzip"):
		zr, err := gzip.NewReader(bytes.NewReader(b))
		if err != nil {
			return nil, fmt.Errorf("declared %s but not a gzip stream: %w", mt, err)
		}
		return io.ReadAll(zr)
	case strings.HasSuffix(mt, "zstd"):
		zr, err := zstd.NewReader(bytes.NewReader(b))
		if err != nil {
			return nil, fmt.Errorf("declared %s but not a zstd stream: %w", mt, err)
		}
		defer zr.Close()
		return io.ReadAll(zr)
	}
	return b, nil
}

// verifyDocker is oracle (4): the image at the target has the archive's config
// bytes and, layer by layer, the archive's (uncompressed) layer stream.
func verifyDocker(tv audit.View, tag string, cfg []byte, layers [][]byte) *evid.Violation {
	d, ok := tv.Tag(tag)
	if !ok {
		return evid.V("docker-target-tag-absent", "import returned nil but target tag %q does not exist (tags %v)", tag, tv.Tags())
	}
	body, _, ok := tv.Get(d)
	if !ok {
		return evid.V("docker-target-manifest-absent", "target tag %q names %s which is not stored", tag, d)
	}
	pm, err := rm.ParseManifest(body)
	if err != nil {
		return evid.V("docker-target-manifest-unparsable", "manifest %s at the target does not parse: %v", d, err)
	}
	var cd *rm.DescRef
	var lds []rm.DescRef
	for i, rf := range pm.Refs {
		switch rf.Kind {
		case "config":
			cd = &pm.Refs[i]
		case "layer":
			lds = append(lds, rf)
		}
	}
	if cd == nil {
		return evid.V("docker-target-no-config", "imported manifest has no config: %s", body)
	}
	got, _, ok := tv.Get(cd.Digest)
	if !ok {
		return evid.V("docker-config-blob-absent", "config blob %q named by the imported manifest is absent at the target (manifest %s)", cd.Digest, body)
	}
	if !bytes.Equal(got, cfg) {
		return evid.V("docker-config-differs", "config at the target (%d bytes) differs from the archive's config (%d bytes)", len(got), len(cfg))
	}
	if cd.Size != int64(len(got)) {
		return evid.V("docker-config-size-wrong", "config descriptor size %d, blob has %d bytes", cd.Size, len(got))
	}
	if len(lds) != len(layers) {
		return evid.V("docker-layer-count-differs", "imported manifest has %d layers, the archive's image has %d (manifest %s)", len(lds), len(layers), body)
	}
	for i, ld := range lds {
		if !rm.ValidDigest(ld.Digest) {
			return evid.V("docker-layer-descriptor-empty", "layer %d of the imported manifest has no valid digest (%q): %s", i, ld.Digest, body)
		}
		lb, _, ok := tv.Get(ld.Digest)
		if !ok {
			return evid.V("docker-layer-blob-absent", "layer %d blob %s absent at the target", i, ld.Digest)
		}
		if ld.Size != int64(len(lb)) {
			return evid.V("docker-layer-size-wrong", "layer %d descriptor size %d, blob has %d bytes", i, ld.Size, len(lb))
		}
		u, err := decompressAs(ld.MediaType, lb)
		if err != nil {
			return evid.V("docker-layer-mediatype-contradicts-content", "layer %d (%s): %v", i, ld.Digest, err)
		}
		if !bytes.Equal(u, layers[i]) {
			return evid.V("docker-layer-differs", "layer %d at the target, uncompressed per its media type %s (%d bytes), differs from the archive's layer stream (%d bytes)", i, ld.MediaType, len(u), len(layers[i]))
		}
	}
	return nil
}
