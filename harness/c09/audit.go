package c09

// audit.go: oracle (1) — the archive written by ImageExport is a well-formed
// OCI image layout (archive/tar + encoding/json + crypto only), and oracle (2)
// — raw target storage holds the source closure after an import.

import (
	"bytes"
	"encoding/json"
	"sort"
	"strings"

	"github.com/regclient/regclient/zz_verif/audit"
	"github.com/regclient/regclient/zz_verif/evid"
	rm "github.com/regclient/regclient/zz_verif/regmodel"
)

const (
	annRefName = "org.opencontainers.image.ref.name"
)

// archView is an audit.View over the blobs/<alg>/<hex> members of an archive.
type archView struct {
	blobs map[string][]byte
}

func (v archView) Get(d string) ([]byte, string, bool) {
	b, ok := v.blobs[d]
	return b, "", ok
}
func (v archView) Tag(string) (string, bool) { return "", false }
func (v archView) Tags() []string            { return nil }
func (v archView) Digests() []string {
	out := make([]string, 0, len(v.blobs))
	for d := range v.blobs {
		out = append(out, d)
	}
	sort.Strings(out)
	return out
}

// want describes what the archive must name.
type want struct {
	RootDigest string
	RootMT     string
	RootBody   []byte
	Tag        string            // ref.name annotation required on the index entry
	NoIndexTag bool              // the source reference had no tag: the index annotation is not judged (Tag still applies to RepoTags)
	Single     bool              // root is a single image (manifest.json required)
	SrcClosure map[string][]byte // closure computed from raw source storage
}

type idxEntry struct {
	MediaType   string            `json:"mediaType"`
	Digest      string            `json:"digest"`
	Size        int64             `json:"size"`
	Annotations map[string]string `json:"annotations"`
}

func sortedKeys[V any](m map[string]V) []string {
	out := make([]string, 0, len(m))
	for k := range m {
		out = append(out, k)
	}
	sort.Strings(out)
	return out
}

// auditArchive is oracle (1). artifactKids names digests that are referenced
// only from a manifest of the (experimental) OCI artifact manifest type that is
// itself an index entry: those get their own signature.
func auditArchive(es []tarEntry, w want, underArtifactEntry func(parent string) bool) *evid.Violation {
	files, _ := regular(es)
	// oci-layout
	lb, ok := files["oci-layout"]
	if !ok {
		return evid.V("archive-oci-layout-missing", "the archive has no oci-layout member")
	}
	var lay struct {
		V string `json:"imageLayoutVersion"`
	}
	if err := json.Unmarshal(lb, &lay); err != nil || lay.V != "1.0.0" {
		return evid.V("archive-oci-layout-invalid", "oci-layout is %q (err %v), want imageLayoutVersion 1.0.0", lb, err)
	}
	// index.json
	ib, ok := files["index.json"]
	if !ok {
		return evid.V("archive-index-missing", "the archive has no index.json member")
	}
	var idx struct {
		SchemaVersion int        `json:"schemaVersion"`
		Manifests     []idxEntry `json:"manifests"`
	}
	if err := json.Unmarshal(ib, &idx); err != nil {
		return evid.V("archive-index-invalid", "index.json does not parse: %v (%q)", err, ib)
	}
	if idx.SchemaVersion != 2 {
		return evid.V("archive-index-invalid", "index.json schemaVersion %d, want 2", idx.SchemaVersion)
	}
	var root *idxEntry
	for i := range idx.Manifests {
		if idx.Manifests[i].Digest == w.RootDigest {
			root = &idx.Manifests[i]
		}
	}
	if root == nil {
		return evid.V("archive-index-lacks-exported-digest", "index.json does not name the exported digest %s: %s", w.RootDigest, ib)
	}
	if got := root.Annotations[annRefName]; got != w.Tag && !w.NoIndexTag {
		return evid.V("archive-index-tag-wrong", "index.json entry of %s carries ref.name %q, the export tag is %q", w.RootDigest, got, w.Tag)
	}
	if root.MediaType != w.RootMT {
		return evid.V("archive-index-mediatype-wrong", "index.json entry of %s has media type %q, the source manifest is %q", w.RootDigest, root.MediaType, w.RootMT)
	}
	if root.Size != int64(len(w.RootBody)) {
		return evid.V("archive-index-size-wrong", "index.json entry of %s has size %d, the source manifest has %d bytes", w.RootDigest, root.Size, len(w.RootBody))
	}
	// every member under a digest name has that digest
	view := archView{blobs: map[string][]byte{}}
	for _, n := range sortedKeys(files) {
		parts := strings.Split(n, "/")
		if len(parts) != 3 || parts[0] != "blobs" {
			continue
		}
		d := parts[1] + ":" + parts[2]
		if !rm.ValidDigest(d) {
			continue
		}
		data := files[n]
		if rm.Digest(parts[1], data) != d {
			if pl, isJWS := rm.JWSPayload(data); isJWS && rm.Digest(parts[1], pl) == d {
				view.blobs[d] = data
				continue
			}
			return evid.V("archive-blob-digest-mismatch", "archive member %s (%d bytes) does not have that digest (has %s)", n, len(data), rm.Digest(parts[1], data))
		}
		view.blobs[d] = data
	}
	// closure from the index complete inside the archive
	res := audit.ClosureEx(view, w.RootDigest, w.RootMT, audit.Opts{})
	for _, p := range res.Problems {
		if p.What == "missing" && underArtifactEntry != nil && underArtifactEntry(p.Via) {
			return evid.V("archive-lacks-blobs-of-artifact-manifest-entry", "export returned nil but the archive lacks %s, referenced by %s, an index entry of the OCI artifact manifest type "+
				"(exported as an opaque blob, its blobs[] are not followed): closure from index.json incomplete", p.Digest, p.Via)
		}
		return evid.V("archive-closure-"+p.What, "closure from index.json inside the archive: %s", p)
	}
	for _, d := range sortedKeys(w.SrcClosure) {
		got, ok := view.blobs[d]
		if !ok {
			return evid.V("archive-closure-missing", "%s of the source closure is not in the archive", d)
		}
		if !bytes.Equal(got, w.SrcClosure[d]) {
			return evid.V("archive-closure-differs", "%s differs between source and archive", d)
		}
	}
	// Docker-loadable manifest for a single image
	if w.Single {
		mb, ok := files["manifest.json"]
		if !ok {
			return evid.V("archive-docker-manifest-missing", "single image exported but the archive has no manifest.json")
		}
		var dm []struct {
			Config   string
			RepoTags []string
			Layers   []string
		}
		if err := json.Unmarshal(mb, &dm); err != nil || len(dm) != 1 {
			return evid.V("archive-docker-manifest-invalid", "manifest.json does not parse as a one-element array: %v (%q)", err, mb)
		}
		pm, err := rm.ParseManifest(w.RootBody)
		if err != nil {
			return &evid.Violation{Sig: "harness-root-unparsable", Msg: err.Error()}
		}
		var cfg *rm.DescRef
		var layers []rm.DescRef
		for i, rf := range pm.Refs {
			switch rf.Kind {
			case "config":
				cfg = &pm.Refs[i]
			case "layer":
				layers = append(layers, rf)
			}
		}
		if cfg != nil {
			cb, ok := files[pathClean(dm[0].Config)]
			if !ok {
				return evid.V("archive-docker-manifest-config-path-missing", "manifest.json Config %q is not a member of the archive", dm[0].Config)
			}
			if rm.Digest(rm.AlgOf(cfg.Digest), cb) != cfg.Digest {
				return evid.V("archive-docker-manifest-config-wrong", "manifest.json Config %q is not the image's config %s", dm[0].Config, cfg.Digest)
			}
		}
		if len(dm[0].Layers) != len(layers) {
			return evid.V("archive-docker-manifest-layers-wrong", "manifest.json lists %d layers, the image has %d", len(dm[0].Layers), len(layers))
		}
		for i, lp := range dm[0].Layers {
			lb, ok := files[pathClean(lp)]
			if !ok {
				return evid.V("archive-docker-manifest-layer-path-missing", "manifest.json Layers[%d] %q is not a member of the archive", i, lp)
			}
			if rm.Digest(rm.AlgOf(layers[i].Digest), lb) != layers[i].Digest {
				return evid.V("archive-docker-manifest-layers-wrong", "manifest.json Layers[%d] %q is not the image's layer %d (%s)", i, lp, i, layers[i].Digest)
			}
		}
		if len(dm[0].RepoTags) == 0 {
			return evid.V("archive-docker-manifest-no-repotag", "manifest.json has no RepoTags: docker load would leave the image unnamed")
		}
		for _, rt := range dm[0].RepoTags {
			// (a source ref with tag and digest yields "name:tag@digest"; whether docker accepts that is not judged)
			if !strings.HasSuffix(rt, ":"+w.Tag) && !strings.Contains(rt, ":"+w.Tag+"@") {
				return evid.V("archive-docker-manifest-repotag-wrong", "manifest.json RepoTags entry %q does not end in the export tag %q", rt, w.Tag)
			}
		}
	}
	return nil
}

func pathClean(p string) string {
	p = strings.TrimPrefix(p, "./")
	return strings.TrimSuffix(p, "/")
}

// expect is what must hold at an import target.
type expect struct {
	Tag        string // "" = imported by digest only
	RootDigest string
	Required   map[string][]byte // digest -> bytes
	Manifests  map[string]string // digest -> media type (subset of Required that are manifests)
}

// verifyTarget is oracle (2): raw target storage against the expectation.
func verifyTarget(tv audit.View, isReg bool, layoutDir string, x expect, stage string) *evid.Violation {
	if x.Tag != "" {
		d, ok := tv.Tag(x.Tag)
		if !ok {
			return evid.V("target-tag-absent", "%s: import returned nil but target tag %q does not exist (tags: %v)", stage, x.Tag, tv.Tags())
		}
		if d != x.RootDigest {
			return evid.V("target-tag-wrong-digest", "%s: target tag %q resolves to %s, the source digest is %s", stage, x.Tag, d, x.RootDigest)
		}
	}
	if _, _, ok := tv.Get(x.RootDigest); !ok {
		return evid.V("target-root-manifest-absent", "%s: top-level manifest %s absent at the target", stage, x.RootDigest)
	}
	for _, d := range sortedKeys(x.Required) {
		got, mt, ok := tv.Get(d)
		wantMT, isM := x.Manifests[d]
		kind := "blob"
		if isM {
			kind = "manifest"
		}
		if !ok {
			return evid.V("target-closure-"+kind+"-missing", "%s: %s %s of the source closure is absent at the target", stage, kind, d)
		}
		if !bytes.Equal(got, x.Required[d]) {
			return evid.V("target-closure-"+kind+"-differs", "%s: %s %s differs at the target (%d vs %d bytes)", stage, kind, d, len(got), len(x.Required[d]))
		}
		if isM && isReg {
			if mt == "" {
				return evid.V("target-manifest-stored-as-blob", "%s: manifest %s (%s) exists at the target only as a blob, not as a manifest", stage, d, wantMT)
			}
			if wantMT != "" && mt != wantMT {
				return evid.V("target-manifest-mediatype-differs", "%s: manifest %s stored with media type %q, source has %q", stage, d, mt, wantMT)
			}
		}
	}
	if !isReg {
		probs, _ := audit.LayoutProblems(layoutDir)
		keep := probs[:0]
		for _, p := range probs {
			// "at most one entry per tag" is C06's statement
			if !strings.Contains(p, "entries for tag") {
				keep = append(keep, p)
			}
		}
		if len(keep) > 0 {
			return evid.V("target-layout-invalid", "%s: %v", stage, keep)
		}
	}
	return nil
}

func short(err error) string {
	if err == nil {
		return "<nil>"
	}
	s := err.Error()
	if len(s) > 300 {
		s = s[:300] + "…"
	}
	return s
}
