package c09

// variant.go: metamorphic transformations of an archive. Every variant holds
// the same files under the same names as far as a tar extractor is concerned
// (order, "./" prefixes, missing directory members, members replaced by
// symlinks / hard links to a moved copy, unrelated extra members, outer gzip),
// or is a multi-image archive that contains the exported image unchanged.

import (
	"archive/tar"
	"encoding/json"
	"fmt"
	"path"
	"sort"
	"strings"

	rm "github.com/regclient/regclient/zz_verif/regmodel"
)

// Link replaces one regular member by a link to a moved copy.
type Link struct {
	Pick  int    `json:"pick"`           // index into the regular members (mod n)
	Hard  bool   `json:"hard"`           // hard link (Linkname relative to the archive root) instead of a symlink
	Style string `json:"style"`          // where the copy goes: root (moved/<base>) | sibling (<dir>/<base>.data) | updir (<parent>/moved/<base>)
	Chain bool   `json:"chain"`          // symlink -> symlink (alias/<base>) -> moved/<base>; root style only
	Hops  int    `json:"hops,omitempty"` // Chain: further intermediate symlinks (alias2/<base>, ...)
}

// Multi turns the archive into a two-image archive (a small decoy image is added).
type Multi struct {
	DecoyFirst bool   `json:"decoy_first"`
	By         string `json:"by"` // name (ImageWithImportName) | tag (tag of the target ref) | digest (digest of the target ref)
	PickDecoy  bool   `json:"pick_decoy"`
	FullNames  bool   `json:"full_names,omitempty"` // every ref.name annotation holds a full image name (registry/repo:tag) instead of the bare tag
}

const fullNamePrefix = "registry.example.org/app:"

// Variant is one metamorphic transformation (all parts optional).
type Variant struct {
	Keys       []int  `json:"keys,omitempty"` // member i gets sort key Keys[i mod len]; stable sort
	DotSlash   bool   `json:"dot_slash,omitempty"`
	DropDirs   bool   `json:"drop_dirs,omitempty"`
	Links      []Link `json:"links,omitempty"`
	Extra      bool   `json:"extra,omitempty"`
	Gzip       bool   `json:"gzip,omitempty"`
	TarFormat  int    `json:"tar_format,omitempty"`  // header format of every member: 0 PAX, 1 chosen by archive/tar (USTAR where it fits), 2 GNU
	DupMembers []int  `json:"dup_members,omitempty"` // these regular members (index mod n) occur a second time with identical content
	GzSplit    []int  `json:"gz_split,omitempty"`    // Gzip: the outer stream is written as len+1 gzip members cut at these offsets (mod length+1)
	Multi      *Multi `json:"multi,omitempty"`
}

// link feature classes
const (
	fLinkPlain  = "link-rootrel" // symlink climbing exactly to the archive root / hard link into another top-level directory
	fLinkDirRel = "link-dirrel"  // symlink target relative to the link's own directory (not via the root) / hard link target sharing a leading directory with the link
	fLinkChain  = "link-chain"
)

func depthOf(name string) int {
	d := path.Dir(name)
	if d == "." {
		return 0
	}
	return strings.Count(d, "/") + 1
}

func (l Link) feature(name string) string {
	if l.Chain && !l.Hard {
		return fLinkChain
	}
	if depthOf(name) == 0 || l.Style == "root" || l.Style == "" {
		return fLinkPlain
	}
	return fLinkDirRel
}

// features lists the transformation classes present in v (given the member
// names of the archive it applies to), in a fixed order.
func (v Variant) features(regNames []string) []string {
	var fs []string
	if len(v.Keys) > 0 {
		fs = append(fs, "shuffle")
	}
	if v.DotSlash {
		fs = append(fs, "dotslash")
	}
	if v.DropDirs {
		fs = append(fs, "dropdirs")
	}
	seen := map[string]bool{}
	for _, l := range v.Links {
		if len(regNames) == 0 {
			break
		}
		f := l.feature(regNames[mod(l.Pick, len(regNames))])
		if !seen[f] {
			seen[f] = true
		}
	}
	for _, f := range []string{fLinkPlain, fLinkDirRel, fLinkChain} {
		if seen[f] {
			fs = append(fs, f)
		}
	}
	if v.Extra {
		fs = append(fs, "extra")
	}
	if v.TarFormat != 0 {
		fs = append(fs, fmt.Sprintf("tarformat%d", v.TarFormat))
	}
	if len(v.DupMembers) > 0 {
		fs = append(fs, "dupmember")
	}
	if v.Gzip && len(v.GzSplit) > 0 {
		fs = append(fs, "gzip-multimember")
	} else if v.Gzip {
		fs = append(fs, "gzip")
	}
	if v.Multi != nil {
		fs = append(fs, v.Multi.feature())
	}
	return fs
}

func (m *Multi) feature() string {
	if m.FullNames {
		return "multi-fullname-" + m.By
	}
	return "multi-" + m.By
}

func mod(a, n int) int {
	a %= n
	if a < 0 {
		a += n
	}
	return a
}

// restrict returns v with only (keep=true) or without (keep=false) feature f.
func (v Variant) restrict(f string, keep bool, regNames []string) Variant {
	out := Variant{}
	sel := func(name string) bool { return (name == f) == keep }
	if sel("shuffle") {
		out.Keys = v.Keys
	}
	if sel("dotslash") {
		out.DotSlash = v.DotSlash
	}
	if sel("dropdirs") {
		out.DropDirs = v.DropDirs
	}
	for _, l := range v.Links {
		if len(regNames) == 0 {
			break
		}
		if sel(l.feature(regNames[mod(l.Pick, len(regNames))])) {
			out.Links = append(out.Links, l)
		}
	}
	if sel("extra") {
		out.Extra = v.Extra
	}
	if v.TarFormat != 0 && sel(fmt.Sprintf("tarformat%d", v.TarFormat)) {
		out.TarFormat = v.TarFormat
	}
	if sel("dupmember") {
		out.DupMembers = v.DupMembers
	}
	if v.Gzip && len(v.GzSplit) > 0 {
		if sel("gzip-multimember") {
			out.Gzip, out.GzSplit = true, v.GzSplit
		}
	} else if sel("gzip") {
		out.Gzip = v.Gzip
	}
	if v.Multi != nil && sel(v.Multi.feature()) {
		out.Multi = v.Multi
	}
	return out
}

// the decoy image of multi-image archives (constant content)
var (
	decoyCfg   = []byte(`{"architecture":"amd64","os":"linux","config":{"Env":["DECOY=1"]},"rootfs":{"type":"layers","diff_ids":["sha256:5f70bf18a086007016e948b04aed3b82103a36bea41755b6cddfaf10ace3c6ef"]}}`)
	decoyLayer = []byte("c09 decoy layer bytes (not a real tar, like every other generated layer)")
	decoyBody  []byte
	decoyDig   string
)

const decoyTag = "decoy"

func init() {
	decoyBody = []byte(fmt.Sprintf(`{"schemaVersion":2,"mediaType":%q,"config":{"mediaType":%q,"digest":%q,"size":%d},"layers":[{"mediaType":%q,"digest":%q,"size":%d}]}`,
		rm.MTOCIManifest, rm.MTOCIConfig, rm.Digest("sha256", decoyCfg), len(decoyCfg), rm.MTOCILayerGzip, rm.Digest("sha256", decoyLayer), len(decoyLayer)))
	decoyDig = rm.Digest("sha256", decoyBody)
}

func decoyContent() map[string][]byte {
	return map[string][]byte{decoyDig: decoyBody, rm.Digest("sha256", decoyCfg): decoyCfg, rm.Digest("sha256", decoyLayer): decoyLayer}
}

func blobPath(d string) string { return "blobs/" + strings.Replace(d, ":", "/", 1) }

// regNamesOf lists the names (cleaned) of the regular members in order.
func regNamesOf(es []tarEntry) []string {
	var out []string
	for _, e := range es {
		if e.Type == tar.TypeReg {
			out = append(out, e.clean())
		}
	}
	return out
}

// apply builds the variant archive. The second result names the members that
// were replaced by links (for the evidence sample).
func (v Variant) apply(src []tarEntry) ([]tarEntry, error) {
	es := make([]tarEntry, 0, len(src)+8)
	for _, e := range src {
		e.Name = e.clean()
		if e.Type == tar.TypeDir {
			e.Name += "/"
		}
		es = append(es, e)
	}
	have := map[string]bool{}
	for _, e := range es {
		have[strings.TrimSuffix(e.Name, "/")] = true
	}
	nOrig := len(es) // links pick among the original members only (so that a pick means the same with and without Multi)
	addDirs := func(name string) {
		d := path.Dir(name)
		var parts []string
		for d != "." && d != "/" {
			parts = append([]string{d}, parts...)
			d = path.Dir(d)
		}
		for _, p := range parts {
			if !have[p] {
				have[p] = true
				es = append(es, tarEntry{Name: p + "/", Type: tar.TypeDir})
			}
		}
	}
	// multi-image: add the decoy and list it in index.json
	if v.Multi != nil {
		for i := range es {
			if es[i].Type != tar.TypeReg || es[i].Name != "index.json" {
				continue
			}
			var idx map[string]json.RawMessage
			if err := json.Unmarshal(es[i].Data, &idx); err != nil {
				return nil, fmt.Errorf("index.json: %w", err)
			}
			var ents []json.RawMessage
			if err := json.Unmarshal(idx["manifests"], &ents); err != nil {
				return nil, fmt.Errorf("index.json manifests: %w", err)
			}
			dtag := decoyTag
			if v.Multi.FullNames {
				dtag = fullNamePrefix + decoyTag
				for k := range ents {
					var ent map[string]json.RawMessage
					var ann map[string]string
					if json.Unmarshal(ents[k], &ent) != nil || json.Unmarshal(ent["annotations"], &ann) != nil || ann[annRefName] == "" {
						continue
					}
					ann[annRefName] = fullNamePrefix + ann[annRefName]
					ent["annotations"], _ = json.Marshal(ann)
					ents[k], _ = json.Marshal(ent)
				}
			}
			de := json.RawMessage(fmt.Sprintf(`{"mediaType":%q,"digest":%q,"size":%d,"annotations":{%q:%q}}`, rm.MTOCIManifest, decoyDig, len(decoyBody), annRefName, dtag))
			if v.Multi.DecoyFirst {
				ents = append([]json.RawMessage{de}, ents...)
			} else {
				ents = append(ents, de)
			}
			nb, _ := json.Marshal(ents)
			idx["manifests"] = nb
			// keep a stable key order
			keys := sortedKeys(idx)
			var sb strings.Builder
			sb.WriteString("{")
			for k, key := range keys {
				if k > 0 {
					sb.WriteString(",")
				}
				kb, _ := json.Marshal(key)
				sb.Write(kb)
				sb.WriteString(":")
				sb.Write(idx[key])
			}
			sb.WriteString("}")
			es[i].Data = []byte(sb.String())
		}
		dc := decoyContent()
		for _, d := range sortedKeys(dc) {
			p := blobPath(d)
			if have[p] {
				continue
			}
			addDirs(p)
			have[p] = true
			es = append(es, tarEntry{Name: p, Type: tar.TypeReg, Data: dc[d]})
		}
	}
	// links
	var regIdx []int
	for i, e := range es[:nOrig] {
		if e.Type == tar.TypeReg {
			regIdx = append(regIdx, i)
		}
	}
	linked := map[int]bool{}
	for _, l := range v.Links {
		if len(regIdx) == 0 {
			break
		}
		i := regIdx[mod(l.Pick, len(regIdx))]
		if linked[i] {
			continue
		}
		name := es[i].Name
		dir, base := path.Dir(name), path.Base(name)
		depth := depthOf(name)
		style := l.Style
		if depth == 0 && style == "updir" {
			style = "root"
		}
		if l.Chain && !l.Hard {
			style = "root"
		}
		var copyAt, symTarget string
		switch style {
		case "sibling":
			copyAt = path.Join(dir, base+".data")
			symTarget = base + ".data"
		case "updir":
			copyAt = path.Join(path.Dir(dir), "moved", base)
			symTarget = "../moved/" + base
		default:
			copyAt = path.Join("moved", base)
			symTarget = strings.Repeat("../", depth) + "moved/" + base
		}
		if have[copyAt] {
			continue
		}
		linked[i] = true
		addDirs(copyAt)
		have[copyAt] = true
		es = append(es, tarEntry{Name: copyAt, Type: tar.TypeReg, Data: es[i].Data})
		switch {
		case l.Hard:
			es[i] = tarEntry{Name: name, Type: tar.TypeLink, Link: copyAt}
		case l.Chain:
			alias := path.Join("alias", base)
			if have[alias] {
				es[i] = tarEntry{Name: name, Type: tar.TypeSymlink, Link: symTarget}
				break
			}
			addDirs(alias)
			have[alias] = true
			next := "../moved/" + base
			for h := l.Hops; h > 0; h-- {
				an := path.Join(fmt.Sprintf("alias%d", h+1), base)
				if have[an] {
					continue
				}
				addDirs(an)
				have[an] = true
				es = append(es, tarEntry{Name: an, Type: tar.TypeSymlink, Link: next})
				next = "../" + an
			}
			es = append(es, tarEntry{Name: alias, Type: tar.TypeSymlink, Link: next})
			es[i] = tarEntry{Name: name, Type: tar.TypeSymlink, Link: strings.Repeat("../", depth) + "alias/" + base}
		default:
			es[i] = tarEntry{Name: name, Type: tar.TypeSymlink, Link: symTarget}
		}
	}
	if v.Extra {
		addDirs("docs/README.txt")
		es = append(es, tarEntry{Name: "docs/README.txt", Type: tar.TypeReg, Data: []byte("unrelated member\n")})
		es = append(es, tarEntry{Name: "dangling", Type: tar.TypeSymlink, Link: "docs/absent"})
		es = append(es, tarEntry{Name: "repositories", Type: tar.TypeReg, Data: []byte("{}")})
	}
	if len(v.DupMembers) > 0 {
		var regs []int
		for i, e := range es {
			if e.Type == tar.TypeReg {
				regs = append(regs, i)
			}
		}
		done := map[int]bool{}
		for _, pk := range v.DupMembers {
			if len(regs) == 0 {
				break
			}
			i := regs[mod(pk, len(regs))]
			if !done[i] {
				done[i] = true
				es = append(es, es[i])
			}
		}
	}
	if v.DropDirs {
		keep := es[:0]
		for _, e := range es {
			if e.Type != tar.TypeDir {
				keep = append(keep, e)
			}
		}
		es = keep
	}
	if len(v.Keys) > 0 {
		type keyed struct {
			k int
			e tarEntry
		}
		ks := make([]keyed, len(es))
		for i, e := range es {
			ks[i] = keyed{v.Keys[i%len(v.Keys)], e}
		}
		sort.SliceStable(ks, func(a, b int) bool { return ks[a].k < ks[b].k })
		for i := range ks {
			es[i] = ks[i].e
		}
	}
	// a hard link must follow the member it links to (tar semantics)
	for changed, guard := true, 0; changed && guard < len(es)+2; guard++ {
		changed = false
		pos := map[string]int{}
		for i, e := range es {
			if e.Type == tar.TypeReg {
				pos[e.Name] = i
			}
		}
		for i, e := range es {
			if e.Type != tar.TypeLink {
				continue
			}
			if p, ok := pos[e.Link]; ok && p > i {
				// move the link to just after its target
				moved := append([]tarEntry{}, es[:i]...)
				moved = append(moved, es[i+1:p+1]...)
				moved = append(moved, e)
				moved = append(moved, es[p+1:]...)
				es = moved
				changed = true
				break
			}
		}
	}
	if v.DotSlash {
		for i := range es {
			es[i].Name = "./" + es[i].Name
		}
	}
	return es, nil
}

// linkDepth returns the longest chain of links (symlink targets resolved
// relative to the link's directory, hard link targets relative to the root)
// that ends at a regular member.
func linkDepth(es []tarEntry) int {
	typ := map[string]byte{}
	tgt := map[string]string{}
	for _, e := range es {
		n := e.clean()
		typ[n] = e.Type
		switch e.Type {
		case tar.TypeSymlink:
			tgt[n] = path.Join(path.Dir(n), e.Link)
		case tar.TypeLink:
			tgt[n] = path.Clean(e.Link)
		}
	}
	max := 0
	for n := range tgt {
		d, cur := 0, n
		for d < 16 {
			t, isLink := tgt[cur]
			if !isLink {
				break
			}
			d++
			cur = t
		}
		if typ[cur] == tar.TypeReg && d > max {
			max = d
		}
	}
	return max
}
