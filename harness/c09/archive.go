// Package c09 decides C09: export then import reproduces the image; the
// archive is a valid OCI layout; Docker-format archives import to an image
// whose config and uncompressed layers equal the archive's.
//
// archive.go: a plain in-memory model of a tar archive (archive/tar +
// compress/gzip only) used to audit what ImageExport wrote, to build the
// metamorphic variants and to build Docker-format archives.
package c09

import (
	"archive/tar"
	"bytes"
	"compress/gzip"
	"fmt"
	"io"
	"path"
	"sort"
	"time"
)

// tarEntry is one archive member.
type tarEntry struct {
	Name string
	Type byte // tar.TypeReg | tar.TypeDir | tar.TypeSymlink | tar.TypeLink
	Link string
	Data []byte
}

func (e tarEntry) clean() string { return path.Clean(e.Name) }

var fixedTime = time.Unix(1_700_000_000, 0).UTC()

// parseTar reads a (possibly gzip-compressed) tar stream.
func parseTar(raw []byte) (es []tarEntry, gz bool, err error) {
	var rd io.Reader = bytes.NewReader(raw)
	if len(raw) >= 2 && raw[0] == 0x1f && raw[1] == 0x8b {
		gz = true
		zr, err := gzip.NewReader(bytes.NewReader(raw))
		if err != nil {
			return nil, gz, fmt.Errorf("gzip header: %w", err)
		}
		all, err := io.ReadAll(zr)
		if err != nil {
			return nil, gz, fmt.Errorf("gzip stream: %w", err)
		}
		rd = bytes.NewReader(all)
	}
	tr := tar.NewReader(rd)
	for {
		h, err := tr.Next()
		if err == io.EOF {
			return es, gz, nil
		}
		if err != nil {
			return nil, gz, fmt.Errorf("tar entry %d: %w", len(es), err)
		}
		e := tarEntry{Name: h.Name, Type: h.Typeflag, Link: h.Linkname}
		if h.Typeflag == tar.TypeReg || h.Typeflag == 0 {
			e.Type = tar.TypeReg
			b, err := io.ReadAll(tr)
			if err != nil {
				return nil, gz, fmt.Errorf("tar entry %q: %w", h.Name, err)
			}
			if int64(len(b)) != h.Size {
				return nil, gz, fmt.Errorf("tar entry %q: header size %d, content %d", h.Name, h.Size, len(b))
			}
			e.Data = b
		}
		es = append(es, e)
	}
}

// gzipMembers compresses b as a gzip stream of len(split)+1 members (RFC 1952
// section 2.2: a gzip file is a series of members): b is cut at the offsets
// split[i] mod (len(b)+1), each part is written by its own gzip.Writer and the
// members are concatenated. Equal offsets (or 0 / len(b)) give empty members.
// Without split the result is an ordinary single-member stream.
func gzipMembers(b []byte, split []int) []byte {
	cuts := []int{}
	for _, o := range split {
		cuts = append(cuts, mod(o, len(b)+1))
	}
	sort.Ints(cuts)
	cuts = append(cuts, len(b))
	var buf bytes.Buffer
	prev := 0
	for _, c := range cuts {
		zw := gzip.NewWriter(&buf)
		_, _ = zw.Write(b[prev:c])
		_ = zw.Close()
		prev = c
	}
	return buf.Bytes()
}

// buildTarFmt is buildTar with a header format (0 PAX, 1 chosen by archive/tar, 2 GNU) and
// the outer gzip stream optionally written as several members.
func buildTarFmt(es []tarEntry, gz bool, split []int, format int) ([]byte, error) {
	f := tar.FormatPAX
	switch format {
	case 1:
		f = tar.FormatUnknown
	case 2:
		f = tar.FormatGNU
	}
	if !gz || len(split) == 0 {
		return buildTarF(es, gz, f)
	}
	plain, err := buildTarF(es, false, f)
	if err != nil {
		return nil, err
	}
	return gzipMembers(plain, split), nil
}

// buildTar serialises entries in the given order (PAX headers).
func buildTar(es []tarEntry, gz bool) ([]byte, error) { return buildTarF(es, gz, tar.FormatPAX) }

func buildTarF(es []tarEntry, gz bool, format tar.Format) ([]byte, error) {
	var buf bytes.Buffer
	var w io.Writer = &buf
	var zw *gzip.Writer
	if gz {
		zw = gzip.NewWriter(&buf)
		w = zw
	}
	tw := tar.NewWriter(w)
	for _, e := range es {
		h := &tar.Header{Name: e.Name, Typeflag: e.Type, ModTime: fixedTime, Format: format}
		switch e.Type {
		case tar.TypeDir:
			h.Mode = 0o755
		case tar.TypeSymlink, tar.TypeLink:
			h.Mode = 0o777
			h.Linkname = e.Link
		default:
			h.Mode = 0o644
			h.Size = int64(len(e.Data))
		}
		if err := tw.WriteHeader(h); err != nil {
			return nil, fmt.Errorf("write header %q: %w", e.Name, err)
		}
		if e.Type == tar.TypeReg {
			if _, err := tw.Write(e.Data); err != nil {
				return nil, err
			}
		}
	}
	if err := tw.Close(); err != nil {
		return nil, err
	}
	if zw != nil {
		if err := zw.Close(); err != nil {
			return nil, err
		}
	}
	return buf.Bytes(), nil
}

// regular returns the regular files of an archive by cleaned name (last one
// wins, as on extraction) and the number of names that occur more than once.
func regular(es []tarEntry) (files map[string][]byte, dups int) {
	files = map[string][]byte{}
	for _, e := range es {
		if e.Type != tar.TypeReg {
			continue
		}
		n := e.clean()
		if _, ok := files[n]; ok {
			dups++
		}
		files[n] = e.Data
	}
	return files, dups
}
