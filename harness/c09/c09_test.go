package c09

import (
	"bytes"
	"context"
	"errors"
	"fmt"
	"io"
	"os"
	"path/filepath"
	"strings"
	"sync/atomic"
	"testing"
	"time"

	"pgregory.net/rapid"

	"github.com/regclient/regclient"
	"github.com/regclient/regclient/scheme/reg"
	"github.com/regclient/regclient/types/ref"
	"github.com/regclient/regclient/zz_verif/audit"
	"github.com/regclient/regclient/zz_verif/copysc"
	"github.com/regclient/regclient/zz_verif/evid"
	"github.com/regclient/regclient/zz_verif/imggen"
	"github.com/regclient/regclient/zz_verif/rcutil"
	rm "github.com/regclient/regclient/zz_verif/regmodel"
)

const prop = "C09"

// watchdogs counts imports / exports that ran into the 60 s wall-clock budget or
// the model's request cap: inconclusive, never a violation.
var watchdogs atomic.Int64

func TestMain(m *testing.M) {
	code := m.Run()
	evid.Flush(code)
	os.Exit(code)
}

// ---------------------------------------------------------------------------
// Case

// Pre is the state of every import target before the import.
type Pre struct {
	Keep     []string `json:"keep,omitempty"` // digests of the graph already present at the target
	StaleTag bool     `json:"stale_tag,omitempty"`
	Complete bool     `json:"complete,omitempty"` // the whole graph is already there and the target tag already names the image
}

// Case is one generated scenario. Kind "roundtrip": export of Graph from the
// source, audit of the archive, import of the archive and of every variant
// into fresh targets. Kind "docker": a Docker-format archive is imported.
type Case struct {
	Kind      string        `json:"kind"`
	Graph     *imggen.Graph `json:"graph,omitempty"`
	SrcKind   string        `json:"src_kind,omitempty"` // reg | layout
	TgtKind   string        `json:"tgt_kind"`           // reg | layout
	SrcFeat   copysc.Feat   `json:"src_feat"`
	TgtFeat   copysc.Feat   `json:"tgt_feat"`
	SrcByDig  bool          `json:"src_by_dig,omitempty"` // source ref carries tag and digest
	Gzip      bool          `json:"gzip,omitempty"`       // ImageWithExportCompress
	ExportRef int           `json:"export_ref,omitempty"` // index into exportRefs (0 = no override)
	TgtTag    string        `json:"tgt_tag"`
	TgtByDig  bool          `json:"tgt_by_dig,omitempty"` // base import: target ref is repo@digest
	// SrcForm: further forms of the source reference: "digest" (repo@digest, no tag), "default" (no tag, no digest:
	// the default tag latest), "child" (tag of the index + digest of one of its images: what `regctl image export --platform` passes)
	SrcForm     string `json:"src_form,omitempty"`
	SrcChild    int    `json:"src_child,omitempty"`
	TgtForm     string `json:"tgt_form,omitempty"`     // "tag+digest" | "default" (no tag, no digest)
	SrcRedirect bool   `json:"src_redirect,omitempty"` // source registry answers blob GETs with a redirect to a storage host
	TgtChunk    int    `json:"tgt_chunk,omitempty"`    // reg.WithBlobSize(chunk, chunk) of the importing client (0 = defaults)
	Reimport    bool   `json:"reimport,omitempty"`     // the archive is imported a second time into the same target
	// probes: an extra export / import under a context or writer fault; only a nil return is judged
	ExportProbe string      `json:"export_probe,omitempty"` // cancelled | cancel-at | writer-fail
	ImportProbe string      `json:"import_probe,omitempty"` // cancelled | cancel-at
	ProbeAt     int         `json:"probe_at,omitempty"`
	Pre         Pre         `json:"pre"`
	Variants    []Variant   `json:"variants,omitempty"`
	Docker      *DockerCase `json:"docker,omitempty"`
	DockerVar   *Variant    `json:"docker_var,omitempty"` // order / prefix / directory / link / outer gzip variation of the Docker archive
}

const (
	hostA   = "a.example.test"
	hostB   = "b.example.test"
	hostExt = "ext.example.test"
	repoSrc = "proj/src"
	srcTag  = "v1"
)

// exportRefs: override name -> tag the index must then carry
var exportRefs = []struct{ Ref, Tag string }{
	{"", srcTag},
	{"registry.example.org/exp/name:exptag", "exptag"},
	{"localhost:5000/x:1.2.3", "1.2.3"},
	{"exp/name", "latest"},
	{"ocidir://exp/dir:ltag", "ltag"},
}

func genFeat(t *rapid.T, label string) copysc.Feat {
	return copysc.Feat{
		MountGrant:   rapid.Bool().Draw(t, label+"_mount"),
		AnonMount:    rapid.SampledFrom([]int{0, 0, 201, 405}).Draw(t, label+"_anon"),
		HeadNoDigest: rapid.IntRange(0, 3).Draw(t, label+"_hnd") == 0,
		Referrers:    rapid.Bool().Draw(t, label+"_refapi"),
		TagDelete:    rapid.Bool().Draw(t, label+"_tagdel"),
		LocStyle:     rapid.IntRange(0, 3).Draw(t, label+"_loc"),
	}
}

func genVariant(t *rapid.T, label string, allowMulti bool) Variant {
	var v Variant
	if rapid.IntRange(0, 2).Draw(t, label+"_shuf") != 0 {
		v.Keys = rapid.SliceOfN(rapid.IntRange(0, 9), 1, 12).Draw(t, label+"_keys")
	}
	v.DotSlash = rapid.IntRange(0, 3).Draw(t, label+"_dot") == 0
	v.DropDirs = rapid.IntRange(0, 2).Draw(t, label+"_dirs") == 0
	nl := rapid.SampledFrom([]int{0, 0, 1, 1, 2, 4}).Draw(t, label+"_nlinks")
	for i := 0; i < nl; i++ {
		l := Link{
			Pick:  rapid.IntRange(0, 40).Draw(t, label+"_lpick"),
			Hard:  rapid.IntRange(0, 2).Draw(t, label+"_lhard") == 0,
			Style: rapid.SampledFrom([]string{"root", "root", "sibling", "updir"}).Draw(t, label+"_lstyle"),
		}
		if !l.Hard && l.Style == "root" {
			l.Chain = rapid.IntRange(0, 3).Draw(t, label+"_lchain") == 0
			if l.Chain {
				l.Hops = rapid.IntRange(0, 2).Draw(t, label+"_lhops")
			}
		}
		v.Links = append(v.Links, l)
	}
	v.Extra = rapid.IntRange(0, 3).Draw(t, label+"_extra") == 0
	v.TarFormat = rapid.SampledFrom([]int{0, 0, 1, 2}).Draw(t, label+"_tarfmt")
	if rapid.IntRange(0, 4).Draw(t, label+"_dup") == 0 {
		v.DupMembers = rapid.SliceOfN(rapid.IntRange(0, 40), 1, 3).Draw(t, label+"_dupmembers")
	}
	v.Gzip = rapid.IntRange(0, 2).Draw(t, label+"_gz") == 0
	if v.Gzip && rapid.Bool().Draw(t, label+"_gzmulti") {
		// multi-member outer gzip (cat a.gz b.gz, bgzip, ...); equal offsets / 0 give empty members
		v.GzSplit = rapid.SliceOfN(rapid.IntRange(0, 6000), 1, 3).Draw(t, label+"_gzsplit")
	}
	if allowMulti && rapid.IntRange(0, 2).Draw(t, label+"_multi") == 0 {
		v.Multi = &Multi{
			DecoyFirst: rapid.Bool().Draw(t, label+"_mfirst"),
			By:         rapid.SampledFrom([]string{"name", "tag", "digest"}).Draw(t, label+"_mby"),
			FullNames:  rapid.IntRange(0, 3).Draw(t, label+"_mfull") == 0,
			PickDecoy:  rapid.IntRange(0, 3).Draw(t, label+"_mdecoy") == 0,
		}
	}
	return v
}

func genRoundTrip(t *rapid.T) Case {
	c := Case{Kind: "roundtrip"}
	gopt := imggen.DefaultOptions()
	gopt.ExtHost = hostExt
	// content ImageExport documents / signals as unsupported is kept to a minority of the cases
	gopt.Schema1 = rapid.IntRange(0, 4).Draw(t, "allow_schema1") == 0
	gopt.Artifacts = rapid.IntRange(0, 2).Draw(t, "allow_artifacts") == 0
	gopt.Foreign = rapid.IntRange(0, 4).Draw(t, "allow_foreign") == 0
	gopt.Sha512 = true      // blobs and manifests named by sha512 digests (blobs/sha512/<hex> members, sha512 descriptors)
	gopt.NoMediaType = true // OCI image manifests without the optional mediaType field (as C03; the type then comes from the listing descriptor)
	c.Graph = imggen.Gen(t, gopt)
	c.SrcKind = rapid.SampledFrom([]string{"reg", "layout"}).Draw(t, "src_kind")
	c.TgtKind = rapid.SampledFrom([]string{"reg", "reg", "layout"}).Draw(t, "tgt_kind")
	c.SrcFeat = genFeat(t, "src")
	c.TgtFeat = genFeat(t, "tgt")
	c.TgtFeat.Validate = rapid.Bool().Draw(t, "tgt_validate")
	c.SrcByDig = rapid.IntRange(0, 3).Draw(t, "src_by_dig") == 0
	c.Gzip = rapid.IntRange(0, 2).Draw(t, "gzip") == 0
	if rapid.IntRange(0, 2).Draw(t, "has_export_ref") == 0 {
		c.ExportRef = rapid.IntRange(1, len(exportRefs)-1).Draw(t, "export_ref")
	}
	c.TgtTag = rapid.SampledFrom([]string{"v1", "imported", "latest"}).Draw(t, "tgt_tag")
	c.TgtByDig = rapid.IntRange(0, 9).Draw(t, "tgt_by_dig") == 0
	if !c.SrcByDig {
		c.SrcForm = rapid.SampledFrom([]string{"", "", "", "", "digest", "default", "child", "child"}).Draw(t, "src_form")
		c.SrcChild = rapid.IntRange(0, 7).Draw(t, "src_child")
	}
	if !c.TgtByDig {
		c.TgtForm = rapid.SampledFrom([]string{"", "", "", "", "", "tag+digest", "default"}).Draw(t, "tgt_form")
	}
	c.SrcRedirect = rapid.IntRange(0, 4).Draw(t, "src_redirect") == 0
	c.TgtChunk = rapid.SampledFrom([]int{0, 0, 0, 64, 512}).Draw(t, "tgt_chunk")
	c.Reimport = rapid.IntRange(0, 5).Draw(t, "reimport") == 0
	if rapid.IntRange(0, 5).Draw(t, "has_export_probe") == 0 {
		c.ExportProbe = rapid.SampledFrom([]string{"cancelled", "cancel-at", "writer-fail", "writer-fail"}).Draw(t, "export_probe")
	}
	if rapid.IntRange(0, 7).Draw(t, "has_import_probe") == 0 {
		c.ImportProbe = rapid.SampledFrom([]string{"cancelled", "cancel-at", "cancel-at"}).Draw(t, "import_probe")
	}
	c.ProbeAt = rapid.IntRange(0, 4000).Draw(t, "probe_at")
	switch rapid.IntRange(0, 6).Draw(t, "pre_mode") {
	case 6:
		c.Pre.Complete = true
	case 0, 1, 2:
	case 3, 4:
		for _, d := range c.Graph.AllDigests() {
			if rapid.IntRange(0, 2).Draw(t, "keep") == 0 {
				c.Pre.Keep = append(c.Pre.Keep, d)
			}
		}
	case 5:
		c.Pre.StaleTag = true
		for _, d := range c.Graph.AllDigests() {
			if rapid.IntRange(0, 4).Draw(t, "keep") == 0 {
				c.Pre.Keep = append(c.Pre.Keep, d)
			}
		}
	}
	nv := rapid.SampledFrom([]int{0, 1, 1, 2, 2, 3}).Draw(t, "nvariants")
	for i := 0; i < nv; i++ {
		c.Variants = append(c.Variants, genVariant(t, fmt.Sprintf("v%d", i), true))
	}
	return c
}

var fileNames = []string{"etc/a.conf", "bin/tool", "data.bin", "usr/share/doc/readme", ".wh.gone"}

func genDocker(t *rapid.T) Case {
	c := Case{Kind: "docker"}
	c.TgtKind = rapid.SampledFrom([]string{"reg", "reg", "layout"}).Draw(t, "tgt_kind")
	c.TgtFeat = genFeat(t, "tgt")
	c.TgtFeat.Validate = rapid.Bool().Draw(t, "tgt_validate")
	c.TgtTag = rapid.SampledFrom([]string{"imported", "latest", "v1"}).Draw(t, "tgt_tag")
	dc := &DockerCase{Style: rapid.SampledFrom([]string{"legacy", "blobs", "oci"}).Draw(t, "style")}
	dc.DupAs = rapid.SampledFrom([]string{"symlink", "copy", "same-path"}).Draw(t, "dup_as")
	ni := rapid.SampledFrom([]int{1, 1, 2, 3}).Draw(t, "nimages")
	names := []string{"busybox", "example.com/app", "localhost:5000/x/y"}
	tags := []string{"latest", "v1", "v2", "1.0", "edge", "t6"}
	for j := 0; j < ni; j++ {
		im := DImage{CfgSeed: rapid.IntRange(0, 999).Draw(t, "cfg_seed")}
		nt := rapid.IntRange(1, 2).Draw(t, "ntags")
		for k := 0; k < nt; k++ {
			im.RepoTags = append(im.RepoTags, names[rapid.IntRange(0, len(names)-1).Draw(t, "rt_name")]+":"+tags[j*2+k])
		}
		nl := rapid.IntRange(0, 3).Draw(t, "nlayers")
		for i := 0; i < nl; i++ {
			l := DLayer{SameAs: -1, Comp: rapid.SampledFrom([]string{"none", "none", "gzip", "gzip", "zstd"}).Draw(t, "comp")}
			if l.Comp == "gzip" && rapid.Bool().Draw(t, "gz_multi") {
				// 2-4 gzip members (eStargz, bgzip, cat a.gz b.gz); equal offsets / 0 give empty members
				l.Split = rapid.SliceOfN(rapid.IntRange(0, 2600), 1, 3).Draw(t, "gz_split")
			}
			if i > 0 && rapid.IntRange(0, 4).Draw(t, "dup") == 0 {
				l.SameAs = rapid.IntRange(0, i-1).Draw(t, "same_as")
			}
			nf := rapid.IntRange(0, 3).Draw(t, "nfiles")
			for f := 0; f < nf; f++ {
				df := DFile{Name: rapid.SampledFrom(fileNames).Draw(t, "fname"), Data: rapid.SliceOfN(rapid.Byte(), 0, 48).Draw(t, "fdata")}
				if rapid.IntRange(0, 11).Draw(t, "fbig") == 0 {
					df.Big = rapid.SampledFrom([]int{32767, 32768, 32769, 70000}).Draw(t, "fbigsize")
				}
				l.Files = append(l.Files, df)
			}
			im.Layers = append(im.Layers, l)
		}
		im.LayerSources = rapid.IntRange(0, 2).Draw(t, "layer_sources") == 0
		im.Sha512 = rapid.IntRange(0, 3).Draw(t, "img_sha512") == 0
		dc.Images = append(dc.Images, im)
	}
	dc.Pick = rapid.IntRange(0, ni-1).Draw(t, "pick")
	dc.ByName = rapid.Bool().Draw(t, "by_name")
	dc.Name = rapid.IntRange(0, 1).Draw(t, "name_idx")
	dc.PathDot = rapid.IntRange(0, 3).Draw(t, "path_dot") == 0
	c.TgtChunk = rapid.SampledFrom([]int{0, 0, 0, 64, 512, 32768}).Draw(t, "tgt_chunk")
	c.Reimport = rapid.IntRange(0, 5).Draw(t, "reimport") == 0
	c.Docker = dc
	if rapid.IntRange(0, 2).Draw(t, "docker_variant") != 0 {
		v := genVariant(t, "dv", false)
		c.DockerVar = &v
	}
	if rapid.IntRange(0, 3).Draw(t, "pre_stale") == 0 {
		c.Pre.StaleTag = true
	}
	return c
}

// ---------------------------------------------------------------------------
// environment

type endpoint struct {
	kind string
	host *rm.Host
	repo string
	dir  string
}

func (e endpoint) view() audit.View {
	if e.kind == "layout" {
		return audit.OpenLayout(e.dir)
	}
	return audit.RepoView{R: e.host.Repos[e.repo]}
}

func (e endpoint) name() string {
	if e.kind == "layout" {
		return "ocidir://" + e.dir
	}
	return e.host.Name + "/" + e.repo
}

type env struct {
	rootID int // node the case exports (the graph root, or one of its images for SrcForm child)
	c      Case
	m      *rm.Model
	ha, hb *rm.Host
	tmp    string
	nTgt   int
}

var staleBody = []byte(`{"schemaVersion":2,"mediaType":"application/vnd.oci.image.manifest.v1+json","config":{"mediaType":"application/vnd.oci.empty.v1+json","digest":"sha256:44136fa355b3678a1146ad16f7e8649e94fb4fc21fe77e8310c060f61caaff8a","size":2,"data":"e30="},"layers":[],"annotations":{"stale":"yes"}}`)

const emptyJSONDigest = "sha256:44136fa355b3678a1146ad16f7e8649e94fb4fc21fe77e8310c060f61caaff8a"

func newEnv(c Case) (*env, error) {
	e := &env{c: c, m: rm.New()}
	tmp, err := os.MkdirTemp("", "c09")
	if err != nil {
		return nil, err
	}
	e.tmp = tmp
	e.m.Cap = 60000 // one case runs several imports against the same model (small upload chunks multiply the requests)
	e.ha = e.m.AddHost(hostA)
	e.hb = e.m.AddHost(hostB)
	e.ha.Feat = c.SrcFeat.Features()
	e.hb.Feat = c.TgtFeat.Features()
	return e, nil
}

func (e *env) close() { os.RemoveAll(e.tmp) }

// newTarget creates a fresh import target holding the pre-state (plus seed:
// extra digests of the graph to pre-populate) and, if stale, the tag pointing
// at unrelated content.
func (e *env) newTarget(tag string, seed map[string]bool, validate bool) (endpoint, error) {
	e.nTgt++
	c := e.c
	var ep endpoint
	if c.TgtKind == "layout" {
		ep = endpoint{kind: "layout", dir: filepath.Join(e.tmp, fmt.Sprintf("tgt%d", e.nTgt))}
	} else {
		name := hostB
		if !validate && c.TgtFeat.Validate {
			// attribution re-run on a non-validating twin of the target registry
			name = "bnv.example.test"
			if _, ok := e.m.Hosts[name]; !ok {
				h := e.m.AddHost(name)
				f := c.TgtFeat
				f.Validate = false
				h.Feat = f.Features()
			}
		}
		ep = endpoint{kind: "reg", host: e.m.Hosts[name], repo: fmt.Sprintf("proj/tgt%d", e.nTgt)}
	}
	keep := map[string]bool{}
	for _, d := range c.Pre.Keep {
		keep[d] = true
	}
	for d := range seed {
		keep[d] = true
	}
	kf := func(d string) bool { return keep[d] }
	g := c.Graph
	stale := c.Pre.StaleTag && tag != ""
	complete := c.Pre.Complete && g != nil
	preTags := map[string]int{}
	if complete {
		kf = nil
		if tag != "" {
			preTags[tag] = e.rootID
		}
	}
	if ep.kind == "reg" {
		r := ep.host.Repo(ep.repo)
		if g != nil && (len(keep) > 0 || complete) {
			pg := *g
			pg.Tags = preTags
			pg.PutRegistry(ep.host, ep.repo, false, kf)
		}
		if stale {
			d := rm.Digest("sha256", staleBody)
			r.Manifests[d] = &rm.Manifest{MediaType: rm.MTOCIManifest, Body: staleBody}
			r.Blobs[emptyJSONDigest] = []byte("{}")
			r.Tags[tag] = d
		}
		return ep, nil
	}
	if len(keep) == 0 && !stale && !complete {
		return ep, nil // the directory does not exist yet
	}
	st := imggen.LayoutStyle{UntaggedAll: true}
	if stale {
		st.Extra = []imggen.ExtraEntry{{Tag: tag, MediaType: rm.MTOCIManifest, Body: staleBody, Blobs: map[string][]byte{emptyJSONDigest: []byte("{}")}}}
	}
	pg := imggen.Graph{Blobs: map[string]*imggen.Blob{}, Tags: map[string]int{}}
	if g != nil {
		pg = *g
		pg.Tags = preTags
		nodes := make([]*imggen.Node, len(g.Nodes))
		for i, n := range g.Nodes {
			cp := *n
			cp.Subject = "" // no referrers fallback entries in the pre-state
			nodes[i] = &cp
		}
		pg.Nodes = nodes
	}
	if err := pg.PutLayout(ep.dir, st, kf); err != nil {
		return ep, err
	}
	return ep, nil
}

// failWriter accepts left bytes and then fails (disk full, closed pipe).
type failWriter struct {
	w    io.Writer
	left int
}

var errWriter = errors.New("c09: output writer failed")

func (f *failWriter) Write(p []byte) (int, error) {
	if len(p) <= f.left {
		f.left -= len(p)
		return f.w.Write(p)
	}
	n, _ := f.w.Write(p[:f.left])
	f.left = 0
	return n, errWriter
}

// selection is how one import addresses its target and picks an image.
type selection struct {
	tag  string // tag of the target ref ("" none)
	dig  string // digest of the target ref ("" none)
	name string // ImageWithImportName ("" none)
	// expect: tag the target must resolve afterwards when it differs from tag ("-" = none is asserted):
	// a registry ref without tag and digest means the default tag latest
	expect string
}

// expectTag is the tag that must name the image after the import ("" none).
func (s selection) expectTag() string {
	switch s.expect {
	case "":
		if s.dig != "" {
			return "" // a ref with a digest is resolved by the digest
		}
		return s.tag
	case "-":
		return ""
	}
	return s.expect
}

// outcome of one import + verification
type outcome struct {
	v            *evid.Violation
	inconclusive bool
	importErr    error
	ep           endpoint
}

type runner struct {
	e        *env
	c        Case
	ev       *evid.Collector
	seed     map[string]bool // digests pre-populated at every target (work-around of a known finding)
	validate bool            // targets validate manifest references (when the case asks for it)
	classes  map[string]bool
	imports  int
	chunk    int       // reg.WithBlobSize of the importing client
	reuse    *endpoint // next import goes into this existing target instead of a fresh one
	cancelAt int       // next import: -1 live context, 0 cancelled before the call, k cancelled when the k-th request reaches the target
	probeErr error     // set when the import under cancellation failed (not judged)
}

// importVerify imports archive into a fresh target and verifies it with vf.
func (rt *runner) importVerify(archive []byte, sel selection, stage string, vf func(ep endpoint, stage string) *evid.Violation) outcome {
	rt.imports++
	var ep endpoint
	var err error
	if rt.reuse != nil {
		ep, rt.reuse = *rt.reuse, nil
	} else {
		ep, err = rt.e.newTarget(sel.expectTag(), rt.seed, rt.validate)
		if err != nil {
			return outcome{v: &evid.Violation{Sig: "harness-setup", Msg: err.Error()}}
		}
	}
	s := ep.name()
	if sel.tag != "" {
		s += ":" + sel.tag
	}
	if sel.dig != "" {
		s += "@" + sel.dig
	}
	tr, err := ref.New(s)
	if err != nil {
		return outcome{v: &evid.Violation{Sig: "harness-setup", Msg: fmt.Sprintf("ref %q: %v", s, err)}}
	}
	conf := rcutil.Conf{}
	if rt.chunk > 0 {
		conf.RegOpts = append(conf.RegOpts, reg.WithBlobSize(int64(rt.chunk), int64(rt.chunk)))
	}
	rc := rcutil.New(rt.e.m, conf)
	ctx, cancel := context.WithTimeout(context.Background(), 60*time.Second)
	defer cancel()
	probing := rt.cancelAt >= 0
	if probing {
		k, n := rt.cancelAt, 0
		rt.cancelAt = -1
		if k == 0 || ep.kind != "reg" {
			cancel()
		} else {
			host := ep.host.Name
			rt.e.m.OnArrive = func(en *rm.Entry) {
				if en.Host == host {
					if n++; n == k {
						cancel()
					}
				}
			}
			defer func() { rt.e.m.OnArrive = nil }()
		}
	}
	var opts []regclient.ImageOpts
	if sel.name != "" {
		opts = append(opts, regclient.ImageWithImportName(sel.name))
	}
	err = rc.ImageImport(ctx, tr, bytes.NewReader(archive), opts...)
	if !probing && ctx.Err() == context.DeadlineExceeded {
		return outcome{inconclusive: true}
	}
	if rt.e.m.CapHit() {
		return outcome{inconclusive: true}
	}
	if probing && err != nil {
		rt.probeErr = err
		return outcome{} // an import that reports the cancellation is not judged
	}
	if probing {
		// the verification below must not run under the cancelled context
		var c2 context.CancelFunc
		ctx, c2 = context.WithTimeout(context.Background(), 60*time.Second)
		defer c2()
	}
	if err != nil {
		return outcome{importErr: err, ep: ep, v: evid.V("import-error", "%s: ImageImport(%s) failed: %s", stage, s, short(err))}
	}
	if v := vf(ep, stage+"/after-import"); v != nil {
		return outcome{v: v, ep: ep}
	}
	if ep.kind == "layout" && sel.tag != "" {
		if err := rc.Close(ctx, tr); err != nil {
			return outcome{v: evid.V("close-error", "%s: Close(target) failed: %v", stage, err)}
		}
		if v := vf(ep, stage+"/after-close"); v != nil {
			v.Sig = "after-close-" + v.Sig
			return outcome{v: v, ep: ep}
		}
	}
	return outcome{ep: ep}
}

// untypedBody tells whether a manifest body is an image manifest whose type can only
// come from the descriptor that lists it: no mediaType field and no layers (with a
// layer the type is detectable from the layer media type).
func untypedBody(body []byte) bool {
	pm, err := rm.ParseManifest(body)
	if err != nil || pm.MediaType != "" || pm.IsIndex || pm.SchemaV != 2 {
		return false
	}
	for _, rf := range pm.Refs {
		if rf.Kind == "layer" {
			return false
		}
	}
	return true
}

func closureNodes(g *imggen.Graph, rootID int) []*imggen.Node {
	var out []*imggen.Node
	for _, id := range g.ManifestClosure(rootID) {
		out = append(out, g.Nodes[id])
	}
	return out
}

func check(c Case, ev *evid.Collector) *evid.Violation {
	switch c.Kind {
	case "roundtrip":
		return checkRoundTrip(c, ev)
	case "docker":
		return checkDocker(c, ev)
	}
	return &evid.Violation{Sig: "harness-unknown-kind", Msg: c.Kind}
}

// attribution is the outcome of looking for the transformation responsible for
// a failing variant.
type attribution struct {
	culprit      string          // generator feature to strip ("" = none found)
	label        string          // name used in the signature (link-depth3 is derived from the archive)
	needed       bool            // the transformation does not fail alone; removing it repairs the variant
	v            *evid.Violation // failure of the deciding run
	graph        *evid.Violation // set instead when a graph / target level cause was diagnosed
	inconclusive bool
}

func (a attribution) sig() string {
	if a.needed && a.label != fLinkDirRel && a.label != "link-depth3" {
		return "variant-combination-with-" + a.label + "-" + a.v.Sig
	}
	return variantSig(a.label, a.v.Sig)
}

func (a attribution) describe() string {
	if a.needed {
		return fmt.Sprintf("transformation %q (which does not fail alone, but whose removal repairs the variant)", a.label)
	}
	return fmt.Sprintf("transformation %q", a.label)
}

// attribute re-runs a failing variant with single transformations (phase 1:
// one that fails alone) and with single transformations removed (phase 2: one
// whose removal repairs it; links first).
func attribute(cur Variant, o outcome, names []string, base []tarEntry, try func(Variant, string) outcome, qualify func(outcome) *evid.Violation,
	diagnose func(func() outcome, outcome) (*evid.Violation, bool), label string) attribution {
	fs := cur.features(names)
	var a attribution
	depthLabel := func(v Variant, f string) string {
		if strings.HasPrefix(f, "link-") {
			if es, err := v.apply(base); err == nil && linkDepth(es) >= 3 {
				return "link-depth3"
			}
		}
		return f
	}
	if len(fs) == 1 {
		a.culprit, a.v, a.label = fs[0], qualify(o), depthLabel(cur, fs[0])
		return a
	}
	for _, f := range fs {
		only := cur.restrict(f, true, names)
		o2 := try(only, label+" only "+f)
		if o2.inconclusive {
			a.inconclusive = true
			return a
		}
		if o2.v == nil {
			continue
		}
		if diagnose != nil {
			// a graph / target level cause that this transformation merely exposes?
			if dv, ok := diagnose(func() outcome { return try(only, label+" only "+f) }, o2); ok {
				dv.Msg = label + " only " + f + ": " + dv.Msg
				a.graph = dv
				return a
			}
		}
		a.culprit, a.v, a.label = f, qualify(o2), depthLabel(only, f)
		return a
	}
	var order []string
	for _, f := range fs {
		if strings.HasPrefix(f, "link-") {
			order = append(order, f)
		}
	}
	for _, f := range fs {
		if !strings.HasPrefix(f, "link-") {
			order = append(order, f)
		}
	}
	for _, f := range order {
		o2 := try(cur.restrict(f, false, names), label+" without "+f)
		if o2.inconclusive {
			a.inconclusive = true
			return a
		}
		if o2.v == nil {
			a.culprit, a.v, a.label, a.needed = f, qualify(o), depthLabel(cur, f), true
			return a
		}
	}
	return a
}

// variantSig names the failure of a variant attributed to one transformation.
// The two link-resolution defects show as an import error or (when index.json /
// the manifest is behind the link and the Docker fall-back takes over) as a
// different digest at the target: one signature per root cause.
func variantSig(label, kind string) string {
	switch label {
	case fLinkDirRel:
		return "variant-link-dirrel-import-error"
	case "link-depth3":
		return "variant-link-depth3-not-followed"
	}
	return "variant-" + label + "-" + kind
}

func variantKey(vs []Variant, names []string) string {
	var parts []string
	for _, v := range vs {
		parts = append(parts, strings.Join(v.features(names), "+"))
	}
	return strings.Join(parts, "|")
}

func checkRoundTrip(c Case, ev *evid.Collector) *evid.Violation {
	e, err := newEnv(c)
	if err != nil {
		return &evid.Violation{Sig: "harness-setup", Msg: err.Error()}
	}
	defer e.close()
	g := c.Graph
	rootID := g.Root
	srcForm := c.SrcForm
	if srcForm == "child" {
		// what `regctl image export --platform` does: the tag of the index plus the digest of one of its images
		var cands []int
		for _, id := range g.ManifestClosure(g.Root) {
			if id != g.Root && g.Nodes[id].Kind == "image" {
				cands = append(cands, id)
			}
		}
		if len(cands) == 0 {
			srcForm = ""
		} else {
			rootID = cands[mod(c.SrcChild, len(cands))]
		}
	}
	e.rootID = rootID
	root := g.Nodes[rootID]
	// ---- source: always complete and spec conformant
	ext := e.m.AddExternal(hostExt)
	g.PutExternal(ext)
	sg := g
	if srcForm == "default" {
		// a reference without tag and digest means the tag latest
		cp := *g
		cp.Tags = map[string]int{"latest": g.Root}
		for t, id := range g.Tags {
			cp.Tags[t] = id
		}
		sg = &cp
	}
	var src endpoint
	if c.SrcKind == "layout" {
		src = endpoint{kind: "layout", dir: filepath.Join(e.tmp, "src")}
		if err := sg.PutLayout(src.dir, imggen.LayoutStyle{}, nil); err != nil {
			return &evid.Violation{Sig: "harness-setup", Msg: err.Error()}
		}
	} else {
		src = endpoint{kind: "reg", host: e.ha, repo: repoSrc}
		sg.PutRegistry(e.ha, repoSrc, !e.ha.Feat.Referrers, nil)
		if c.SrcRedirect {
			st := e.m.AddStorage("store.example.test", e.ha)
			e.ha.Feat.BlobRedirect = st.Name
		}
	}
	cl := audit.ClosureEx(src.view(), root.Digest, root.MediaType, audit.Opts{})
	if len(cl.Problems) > 0 {
		return &evid.Violation{Sig: "harness-source-incomplete", Msg: fmt.Sprint(cl.Problems)}
	}
	// ---- domain: what ImageExport signals as unsupported
	unsupported := []string{}
	hasIndex, hasBlobEntry := false, false
	blobEntry := map[string]bool{}
	for _, n := range closureNodes(g, rootID) {
		switch n.Kind {
		case "schema1":
			unsupported = append(unsupported, "schema1")
		case "artifact":
			unsupported = append(unsupported, "artifact-manifest")
		case "index":
			hasIndex = true
			for _, d := range n.Blobs {
				hasBlobEntry = true
				blobEntry[d] = true
			}
		}
		if len(n.Foreign) > 0 {
			unsupported = append(unsupported, "foreign-layer")
		}
	}
	supported := len(unsupported) == 0
	classes := map[string]bool{"kind:roundtrip": true, "src:" + c.SrcKind: true, "tgt:" + c.TgtKind: true, "root:" + root.Kind: true}
	for _, l := range g.Labels {
		classes["graph:"+l] = true
	}
	for _, u := range unsupported {
		classes["unsupported:"+u] = true
	}
	if supported {
		classes["domain:supported"] = true
	}
	if hasBlobEntry {
		classes["closure:blob-entry"] = true
	}
	if c.Gzip {
		classes["opt:export-compress"] = true
	}
	if c.ExportRef != 0 {
		classes["opt:export-ref"] = true
	}
	if c.SrcByDig {
		classes["opt:src-tag+digest"] = true
	}
	if c.TgtByDig {
		classes["opt:tgt-by-digest"] = true
	}
	if srcForm != "" {
		classes["opt:src-"+srcForm] = true
	}
	if c.TgtForm != "" {
		classes["opt:tgt-"+c.TgtForm] = true
	}
	if c.SrcRedirect && c.SrcKind == "reg" {
		classes["src:blob-redirect"] = true
	}
	if c.TgtChunk > 0 && c.TgtKind == "reg" {
		classes[fmt.Sprintf("tgt:chunk=%d", c.TgtChunk)] = true
	}
	if c.Pre.Complete {
		classes["pre:complete"] = true
	}
	for _, l := range []string{"sha512-blob", "sha512-manifest"} {
		if g.HasLabel(l) {
			classes["graph:"+l] = true
		}
	}
	if strings.HasPrefix(root.Digest, "sha512:") {
		classes["root:sha512"] = true
	}
	if c.TgtFeat.Validate && c.TgtKind == "reg" {
		classes["tgt:validating"] = true
	}
	if len(c.Pre.Keep) > 0 {
		classes["pre:partial"] = true
	}
	if c.Pre.StaleTag {
		classes["pre:stale-tag"] = true
	}
	nt := hasIndex || g.HasLabel("shared-blob") || g.HasLabel("duplicate-layer") || hasBlobEntry || len(c.Variants) > 0
	vkey := variantKey(c.Variants, nil) // refined with the link classes once the archive's members are known
	finish := func(outcomeClass string, counted bool) {
		classes["outcome:"+outcomeClass] = true
		ev.Case(counted && nt, g.Shape()+"|"+c.SrcKind+">"+c.TgtKind+fmt.Sprintf("|gz%v,er%d,sd%v,td%v,p%d%v%v,sf%s%d,tf%s,rd%v,ch%d,ri%v,xp%s,ip%s", c.Gzip, c.ExportRef, c.SrcByDig, c.TgtByDig, len(c.Pre.Keep), c.Pre.StaleTag, c.Pre.Complete,
			srcForm, rootID, c.TgtForm, c.SrcRedirect, c.TgtChunk, c.Reimport, c.ExportProbe, c.ImportProbe)+"|"+vkey,
			sortedKeys(classes)...)
	}
	// ---- export
	ss := src.name() + ":" + srcTag
	expTag, tagKnown := srcTag, true
	switch {
	case c.SrcByDig || srcForm == "child":
		ss += "@" + root.Digest
	case srcForm == "digest":
		ss = src.name() + "@" + root.Digest
		expTag, tagKnown = "latest", false // no tag to name in the index; the Docker manifest "defaults to latest"
	case srcForm == "default":
		ss = src.name()
		// ref.New gives a registry reference the tag latest; an ocidir reference stays without tag (the layout
		// is read at latest, what the index then carries as ref.name is not documented and not judged)
		expTag, tagKnown = "latest", c.SrcKind == "reg"
	}
	sr, err := ref.New(ss)
	if err != nil {
		return &evid.Violation{Sig: "harness-setup", Msg: err.Error()}
	}
	var xo []regclient.ImageOpts
	if c.Gzip {
		xo = append(xo, regclient.ImageWithExportCompress())
	}
	if c.ExportRef > 0 && c.ExportRef < len(exportRefs) {
		er, err := ref.New(exportRefs[c.ExportRef].Ref)
		if err != nil {
			return &evid.Violation{Sig: "harness-setup", Msg: err.Error()}
		}
		xo = append(xo, regclient.ImageWithExportRef(er))
		expTag, tagKnown = exportRefs[c.ExportRef].Tag, true
	}
	rcx := rcutil.New(e.m, rcutil.Conf{})
	ctx, cancel := context.WithTimeout(context.Background(), 60*time.Second)
	defer cancel()
	var buf bytes.Buffer
	err = rcx.ImageExport(ctx, sr, &buf, xo...)
	if ctx.Err() == context.DeadlineExceeded || e.m.CapHit() {
		watchdogs.Add(1)
		finish("watchdog", false)
		return nil
	}
	if err != nil {
		if !supported {
			finish("export-error-unsupported", false)
			return nil
		}
		if c.SrcKind == "layout" && strings.Contains(err.Error(), "unsupported media type") {
			for _, n := range closureNodes(g, rootID) {
				if n.ID != root.ID && n.Kind == "image" && untypedBody(n.Body) {
					v := evid.V("export-layout-nested-manifest-without-mediatype", "ImageExport(%s) from an OCI layout fails on the nested image manifest %s, which has no mediaType field and no layers "+
						"(legal OCI; its type is given by the index descriptor that lists it): %s", ss, n.Digest, short(err))
					finish("export-error", true)
					if ev.IsKnown(v.Sig) {
						ev.Report(v, c)
						return nil
					}
					return v
				}
			}
		}
		finish("export-error", false)
		return evid.V("export-error", "ImageExport(%s) of a graph without schema1 / artifact-manifest / foreign-layer content failed: %s", ss, short(err))
	}
	_ = rcx.Close(ctx, sr)
	raw := buf.Bytes()
	entries, gz, err := parseTar(raw)
	if err != nil {
		finish("archive-unreadable", false)
		return evid.V("archive-unreadable", "the stream written by ImageExport is not a readable tar archive: %v", err)
	}
	vkey = variantKey(c.Variants, regNamesOf(entries))
	if gz {
		classes["archive:gzip"] = true
	} else {
		classes["archive:plain"] = true
	}
	ev.Sample(map[string]any{"kind": c.Kind, "shape": g.Shape(), "src": c.SrcKind, "tgt": c.TgtKind, "gzip": c.Gzip, "export_ref": exportRefs[c.ExportRef%len(exportRefs)].Ref,
		"members": len(entries), "archive_bytes": len(raw), "variants": variantKey(c.Variants, regNamesOf(entries)), "unsupported": unsupported, "pre_keep": len(c.Pre.Keep)})
	// ---- oracle (1): archive audit
	w := want{RootDigest: root.Digest, RootMT: root.MediaType, RootBody: root.Body, Tag: expTag, NoIndexTag: !tagKnown, Single: root.Kind == "image", SrcClosure: cl.Content}
	underArtifact := func(parent string) bool {
		n := g.ByDigest(parent)
		return n != nil && n.Kind == "artifact"
	}
	if v := auditArchive(entries, w, underArtifact); v != nil {
		finish("archive-audit-failed", true)
		if ev.IsKnown(v.Sig) {
			ev.Report(v, c)
			return nil
		}
		return v
	}
	// ---- probes of the export: the same export under a context / writer fault. An export that reports the
	// fault is not judged; one that returns nil must have written the same well-formed archive.
	if c.ExportProbe != "" && !strings.Contains(os.Getenv("VERIF_C09_NOPROBE"), c.ExportProbe) {
		classes["probe:export-"+c.ExportProbe] = true
		pctx, pcancel := context.WithTimeout(context.Background(), 60*time.Second)
		var out io.Writer
		var pbuf bytes.Buffer
		out = &pbuf
		switch c.ExportProbe {
		case "cancelled":
			pcancel()
		case "cancel-at":
			if c.SrcKind != "reg" {
				pcancel()
				break
			}
			k, n := 1+c.ProbeAt%12, 0
			e.m.OnArrive = func(en *rm.Entry) {
				if en.Host == hostA || en.Host == "store.example.test" {
					if n++; n == k {
						pcancel()
					}
				}
			}
		case "writer-fail":
			out = &failWriter{w: &pbuf, left: c.ProbeAt % (len(raw) + 1)}
		}
		perr := rcutil.New(e.m, rcutil.Conf{}).ImageExport(pctx, sr, out, xo...)
		e.m.OnArrive = nil
		pcancel()
		if perr == nil {
			classes["probe:export-returned-nil"] = true
			pes, _, err := parseTar(pbuf.Bytes())
			var pv *evid.Violation
			if err != nil {
				pv = evid.V("archive-unreadable", "not a readable tar archive: %v", err)
			} else {
				pv = auditArchive(pes, w, underArtifact)
			}
			if pv != nil {
				finish("export-probe-failed", true)
				what := map[string]string{"cancelled": "a context that was already cancelled", "cancel-at": "a context cancelled while it ran",
					"writer-fail": fmt.Sprintf("an output writer that accepts %d of the archive's %d bytes and then returns an error", c.ProbeAt%(len(raw)+1), len(raw))}[c.ExportProbe]
				sig := "export-nil-under-" + c.ExportProbe + "-" + pv.Sig
				if c.ExportProbe == "writer-fail" {
					sig = "export-nil-although-writer-failed" // one cause, whatever the truncated output then lacks
				}
				return evid.V(sig, "ImageExport(%s) with %s returned nil, but what it wrote (%d bytes) is not the archive: %s", ss, what, pbuf.Len(), pv.Msg)
			}
		}
	}
	// ---- oracle (2): base import
	rt := &runner{e: e, c: c, ev: ev, validate: true, classes: classes, cancelAt: -1}
	if c.TgtKind == "reg" {
		rt.chunk = c.TgtChunk
	}
	// a digest that is (also) named as a foreign layer is not judged at the target: BlobHead of such a
	// descriptor is answered by the external URL and the import rightly does not push foreign layers
	required := map[string][]byte{}
	for d, b := range cl.Content {
		required[d] = b
	}
	for _, n := range closureNodes(g, rootID) {
		for _, d := range n.Foreign {
			delete(required, d)
		}
	}
	x := expect{RootDigest: root.Digest, Required: required, Manifests: cl.Manifests}
	verifyMain := func(tag string) func(ep endpoint, stage string) *evid.Violation {
		return func(ep endpoint, stage string) *evid.Violation {
			xx := x
			xx.Tag = tag
			return verifyTarget(ep.view(), ep.kind == "reg", ep.dir, xx, stage)
		}
	}
	baseSel := selection{tag: c.TgtTag}
	switch {
	case c.TgtByDig:
		baseSel = selection{dig: root.Digest}
	case c.TgtForm == "tag+digest":
		baseSel = selection{tag: c.TgtTag, dig: root.Digest}
	case c.TgtForm == "default" && c.TgtKind == "reg":
		baseSel = selection{expect: "latest"} // ref.New: a registry reference without tag and digest names latest
	case c.TgtForm == "default":
		baseSel = selection{expect: "-"} // an ocidir reference stays without tag; which tag the layout then gets is not judged
	}
	// ---- probe of the import: the same import under a cancelled context; only a nil return is judged
	if c.ImportProbe != "" {
		classes["probe:import-"+c.ImportProbe] = true
		rt.cancelAt = 0
		if c.ImportProbe == "cancel-at" {
			rt.cancelAt = 1 + c.ProbeAt%16
		}
		rt.probeErr = nil
		o := rt.importVerify(raw, baseSel, "import under "+c.ImportProbe, verifyMain(baseSel.expectTag()))
		rt.cancelAt = -1
		if o.inconclusive {
			watchdogs.Add(1)
			finish("watchdog", false)
			return nil
		}
		if rt.probeErr == nil {
			classes["probe:import-returned-nil"] = true
		}
		if o.v != nil {
			finish("import-probe-failed", true)
			return evid.V("import-nil-under-"+c.ImportProbe+"-"+o.v.Sig, "ImageImport returned nil although its context was cancelled, and the target is not complete: %s", o.v.Msg)
		}
	}
	tolerate := func(o outcome) bool { return !supported && o.importErr != nil }
	// diagnose attributes an import error to a graph / target level cause by
	// re-running the same import on a fresh target with the cause neutralised:
	// "seed" = the blob-typed index entries pre-exist at the target, "novalidate"
	// = the target registry does not reject manifests with absent references.
	// The neutraliser of the reported cause stays applied for the rest of the case.
	preKept := map[string]bool{}
	for _, d := range c.Pre.Keep {
		preKept[d] = true
	}
	diagnose := func(run func() outcome, o outcome) (*evid.Violation, bool) {
		if o.importErr == nil {
			return o.v, false
		}
		seeds := map[string]bool{}
		for d := range blobEntry {
			if !preKept[d] && !rt.seed[d] && len(g.Blobs[d].Data) > 0 {
				seeds[d] = true
			}
		}
		canSeed := len(seeds) > 0
		canNoVal := rt.validate && c.TgtFeat.Validate && c.TgtKind == "reg"
		saveSeed, saveVal := rt.seed, rt.validate
		with := func(seed, noval bool) bool {
			rt.seed, rt.validate = saveSeed, saveVal
			if seed {
				rt.seed = map[string]bool{}
				for d := range saveSeed {
					rt.seed[d] = true
				}
				for d := range seeds {
					rt.seed[d] = true
				}
			}
			if noval {
				rt.validate = false
			}
			o2 := run()
			return o2.v == nil && !o2.inconclusive
		}
		culprit, both := "", false
		switch {
		case canSeed && with(true, false):
			culprit = "seed"
		case canNoVal && with(false, true):
			culprit = "novalidate"
		case canSeed && canNoVal && with(true, true):
			culprit, both = "seed", true
		}
		rt.seed, rt.validate = saveSeed, saveVal
		extra := ""
		if both {
			extra = " and the target registry does not validate manifest references (a second cause, judged separately)"
		}
		switch culprit {
		case "seed":
			rt.seed = map[string]bool{}
			for d := range saveSeed {
				rt.seed[d] = true
			}
			for d := range seeds {
				rt.seed[d] = true
			}
			return evid.V("import-blob-typed-index-entry-fails", "ImageImport fails on an archive whose index has blob-typed entries %v (non-empty, not yet at the target): %s; "+
				"the same import succeeds once those blobs pre-exist at the target%s", sortedKeys(seeds), short(o.importErr), extra), true
		case "novalidate":
			rt.validate = false
			// which PUT was rejected, and what was absent at that instant (from the model's log)
			rejected, missing := "", []string{}
			if o.ep.kind == "reg" {
				for _, en := range e.m.Entries() {
					if en.Host == o.ep.host.Name && en.Repo == o.ep.repo && en.Class == "manifest-put" && en.Status == 400 && len(en.Missing) > 0 {
						rejected, missing = en.Ref, en.Missing
					}
				}
			}
			// the known shape: a nested index is PUT before a child manifest that another index lists too
			parents := map[string]map[string]bool{}
			for _, n := range closureNodes(g, rootID) {
				for _, cid := range n.Children {
					cd := g.Nodes[cid].Digest
					if parents[cd] == nil {
						parents[cd] = map[string]bool{}
					}
					parents[cd][n.Digest] = true
				}
			}
			shared := rejected != root.Digest && strings.Contains(rejected, ":")
			if rn := g.ByDigest(rejected); rn == nil || rn.Kind != "index" {
				shared = false
			}
			for _, md := range missing {
				if len(parents[md]) < 2 {
					shared = false
				}
			}
			if shared {
				return evid.V("import-manifest-pushed-before-its-references", "ImageImport into a registry that rejects manifests whose references are absent fails: %s; "+
					"the same import into a non-validating registry succeeds: the nested index %s is pushed before %v, which another index lists as well (pushes run in reverse discovery order, not dependency order)", short(o.importErr), rejected, missing), true
			}
			return evid.V("import-push-order-rejected-by-validating-registry", "ImageImport into a registry that rejects manifests whose references are absent fails: %s; "+
				"the same import into a non-validating registry succeeds: %s was pushed while %v was still absent", short(o.importErr), rejected, missing), true
		}
		return o.v, false
	}
	for round := 0; ; round++ {
		run := func() outcome { return rt.importVerify(raw, baseSel, "base", verifyMain(baseSel.expectTag())) }
		o := run()
		if o.inconclusive {
			watchdogs.Add(1)
			finish("watchdog", false)
			return nil
		}
		if o.v == nil {
			if c.Reimport {
				// the same archive once more into the same target
				classes["opt:reimport"] = true
				ep := o.ep
				rt.reuse = &ep
				o2 := run()
				if o2.inconclusive {
					watchdogs.Add(1)
					finish("watchdog", false)
					return nil
				}
				if o2.v != nil && !tolerate(o2) {
					finish("reimport-failed", true)
					return evid.V("reimport-"+o2.v.Sig, "importing the same archive a second time into the same target: %s", o2.v.Msg)
				}
			}
			break
		}
		if tolerate(o) {
			finish("import-error-unsupported", false)
			return nil
		}
		v, attributed := diagnose(run, o)
		if attributed && ev.IsKnown(v.Sig) && round < 4 {
			ev.Report(v, c)
			classes["known:"+v.Sig] = true
			continue // keep searching behind the known finding with its trigger neutralised
		}
		finish("base-import-failed", true)
		return v
	}
	// ---- oracle (3): every metamorphic variant imports to the same result
	names := regNamesOf(entries)
	for vi, v0 := range c.Variants {
		cur := v0
		for _, f := range cur.features(names) {
			classes["variant:"+f] = true
		}
		try := func(v Variant, label string) outcome {
			es, err := v.apply(entries)
			if err != nil {
				return outcome{v: &evid.Violation{Sig: "harness-variant", Msg: err.Error()}}
			}
			vraw, err := buildTarFmt(es, v.Gzip, v.GzSplit, v.TarFormat)
			if err != nil {
				return outcome{v: &evid.Violation{Sig: "harness-variant", Msg: err.Error()}}
			}
			sel := selection{tag: c.TgtTag}
			vf := verifyMain(sel.tag)
			if m := v.Multi; m != nil {
				ann, dig := expTag, root.Digest
				if m.PickDecoy {
					ann, dig = decoyTag, decoyDig
				}
				by := m.By
				if !m.PickDecoy && !tagKnown && by != "digest" {
					by = "digest" // the exported entry carries no known ref.name to select by
				}
				if m.FullNames {
					// ref.name holds a full image name (as skopeo / other tools write it): selectable by that name
					ann = fullNamePrefix + ann
					if by == "tag" {
						by = "name"
					}
				}
				switch by {
				case "name":
					sel = selection{tag: c.TgtTag, name: ann}
				case "tag":
					sel = selection{tag: ann}
				default:
					sel = selection{dig: dig}
				}
				if m.PickDecoy {
					tag := sel.tag
					vf = func(ep endpoint, stage string) *evid.Violation {
						return verifyTarget(ep.view(), ep.kind == "reg", ep.dir, expect{Tag: tag, RootDigest: decoyDig, Required: decoyContent(), Manifests: map[string]string{decoyDig: rm.MTOCIManifest}}, stage)
					}
				} else {
					vf = verifyMain(sel.tag)
				}
			}
			o := rt.importVerify(vraw, sel, label, vf)
			if m := v.Multi; m != nil && m.By == "digest" && !m.PickDecoy && o.importErr != nil && untypedBody(root.Body) {
				o.v = evid.V("import-by-digest-manifest-without-mediatype", "%s: selecting %s by the digest of the target ref in a multi-image archive; the manifest has no mediaType field and no layers, "+
					"its type is given by the index.json descriptor: %s", label, root.Digest, short(o.importErr))
			}
			return o
		}
		for round := 0; ; round++ {
			label := fmt.Sprintf("variant %d [%s]", vi, strings.Join(cur.features(names), "+"))
			o := try(cur, label)
			if o.inconclusive {
				watchdogs.Add(1)
				finish("watchdog", false)
				return nil
			}
			if o.v == nil {
				break
			}
			if tolerate(o) {
				classes["outcome:variant-import-error-unsupported"] = true
				break
			}
			if dv, attributed := diagnose(func() outcome { return try(cur, label) }, o); attributed {
				if ev.IsKnown(dv.Sig) && round < 8 {
					ev.Report(dv, c)
					classes["known:"+dv.Sig] = true
					continue
				}
				finish("variant-failed", true)
				dv.Msg = label + ": " + dv.Msg
				return dv
			}
			at := attribute(cur, o, names, entries, try, func(o outcome) *evid.Violation { return o.v }, diagnose, label)
			if at.inconclusive {
				watchdogs.Add(1)
				finish("watchdog", false)
				return nil
			}
			if at.graph != nil {
				if ev.IsKnown(at.graph.Sig) && round < 8 {
					ev.Report(at.graph, c)
					classes["known:"+at.graph.Sig] = true
					continue
				}
				finish("variant-failed", true)
				return at.graph
			}
			if at.culprit == "" {
				finish("variant-failed", true)
				if len(cur.features(names)) == 0 {
					return evid.V("variant-identity-"+o.v.Sig, "re-serialised archive without any transformation: %s", o.v.Msg)
				}
				return evid.V("variant-combination-"+o.v.Sig, "variant with transformations %v (none of which fails alone, none of which repairs it when removed): %s", cur.features(names), o.v.Msg)
			}
			nv := evid.V(at.sig(), "the exported archive imports correctly, its variant with %s does not: %s", at.describe(), at.v.Msg)
			if ev.IsKnown(nv.Sig) && round < 8 {
				ev.Report(nv, c)
				classes["known:"+nv.Sig] = true
				cur = cur.restrict(at.culprit, false, names)
				continue
			}
			finish("variant-failed", true)
			return nv
		}
	}
	classes[fmt.Sprintf("imports:%d", min(rt.imports, 6))] = true
	finish("success", true)
	return nil
}

func checkDocker(c Case, ev *evid.Collector) *evid.Violation {
	e, err := newEnv(c)
	if err != nil {
		return &evid.Violation{Sig: "harness-setup", Msg: err.Error()}
	}
	defer e.close()
	dc := c.Docker
	if dc == nil || len(dc.Images) == 0 {
		return &evid.Violation{Sig: "harness-setup", Msg: "docker case without images"}
	}
	b := dc.build()
	pick := mod(dc.Pick, len(dc.Images))
	// selection
	sel := selection{tag: c.TgtTag}
	entriesInIndex := 0
	for _, im := range dc.Images {
		entriesInIndex += len(im.RepoTags)
	}
	pim := dc.Images[pick]
	rtag := pim.RepoTags[mod(dc.Name, len(pim.RepoTags))]
	switch dc.Style {
	case "oci":
		if entriesInIndex > 1 {
			// index.json has several entries: select by ref.name (the tag part), through the option or the target tag
			if dc.ByName {
				sel.name = tagPart(rtag)
			} else {
				sel.tag = tagPart(rtag)
			}
		}
	default:
		if dc.ByName {
			sel.name = rtag
		} else {
			pick = 0 // manifest.json: the first image is imported unless a name is given
			pim = dc.Images[0]
		}
	}
	classes := map[string]bool{"kind:docker": true, "docker:" + dc.Style: true, "tgt:" + c.TgtKind: true, fmt.Sprintf("docker:images=%d", len(dc.Images)): true}
	dupPath := false
	seenPath := map[string]bool{}
	for i := range pim.Layers {
		l := pim.resolve(i)
		classes["docker:layer-"+l.Comp] = true
		if l.Comp == "gzip" && len(l.Split) > 0 {
			classes["docker:layer-gzip-multimember"] = true
		}
		key := fmt.Sprintf("%d", i)
		sa := pim.Layers[i].SameAs
		if sa >= 0 && sa < i {
			classes["docker:duplicate-layer"] = true
			if dc.Style != "legacy" || dc.DupAs == "same-path" {
				dupPath = true
			} else {
				classes["docker:dup-"+dc.DupAs] = true
			}
		}
		seenPath[key] = true
	}
	if dc.Style != "legacy" {
		// content addressed: identical layer streams share a path even without SameAs
		seen := map[string]bool{}
		for i := range pim.Layers {
			k := string(compress(b.layers[pick][i], pim.resolve(i).Comp, pim.resolve(i).Split))
			if seen[k] {
				dupPath = true
			}
			seen[k] = true
		}
	}
	if dupPath {
		classes["docker:duplicate-layer-same-path"] = true
	}
	if sel.name != "" {
		classes["docker:select-by-name"] = true
	}
	if pim.LayerSources && dc.Style != "legacy" {
		classes["docker:layer-sources"] = true
	}
	if c.TgtFeat.Validate && c.TgtKind == "reg" {
		classes["tgt:validating"] = true
	}
	if c.Pre.StaleTag {
		classes["pre:stale-tag"] = true
	}
	names := regNamesOf(b.entries)
	vkey := ""
	if c.DockerVar != nil {
		vkey = strings.Join(c.DockerVar.features(names), "+")
		for _, f := range c.DockerVar.features(names) {
			classes["variant:"+f] = true
		}
	}
	shape := fmt.Sprintf("%s|i%d|p%d|n%v|", dc.Style, len(dc.Images), pick, sel.name != "")
	for _, l := range pim.Layers {
		shape += fmt.Sprintf("%s%d.%d.m%d,", l.Comp[:1], len(l.Files), l.SameAs, len(l.Split))
	}
	finish := func(outcomeClass string, counted bool) {
		classes["outcome:"+outcomeClass] = true
		ev.Case(counted && len(pim.Layers) > 0, shape+"|"+dc.DupAs+"|"+c.TgtKind+"|"+vkey, sortedKeys(classes)...)
	}
	ev.Sample(map[string]any{"kind": c.Kind, "style": dc.Style, "images": len(dc.Images), "pick": pick, "select_name": sel.name, "select_tag": sel.tag, "layers": len(pim.Layers), "variant": vkey, "members": len(b.entries)})
	rt := &runner{e: e, c: c, ev: ev, validate: true, classes: classes, cancelAt: -1}
	if c.TgtKind == "reg" && c.TgtChunk > 0 {
		rt.chunk = c.TgtChunk
		for _, im := range dc.Images {
			for _, l := range im.Layers {
				for _, f := range l.Files {
					if f.Big > 0 && rt.chunk < 4096 {
						rt.chunk = 4096 // keep the request count of a 70 kB layer bounded
					}
				}
			}
		}
		classes[fmt.Sprintf("tgt:chunk=%d", rt.chunk)] = true
	}
	if dc.PathDot {
		classes["docker:manifest-paths-dot-slash"] = true
	}
	if pim.Sha512 && dc.Style != "legacy" {
		classes["docker:sha512-blobs"] = true
	}
	for _, l := range pim.Layers {
		for _, f := range l.Files {
			if f.Big > 0 {
				classes["docker:big-file"] = true
			}
		}
	}
	vf := func(tag string) func(ep endpoint, stage string) *evid.Violation {
		return func(ep endpoint, stage string) *evid.Violation {
			v := verifyDocker(ep.view(), tag, b.cfg[pick], b.layers[pick])
			if v != nil {
				v.Msg = stage + ": " + v.Msg
				if dupPath && dc.Style != "oci" {
					v.Sig = "docker-duplicate-layer-path-" + strings.TrimPrefix(v.Sig, "docker-")
				}
				return v
			}
			if ep.kind == "layout" {
				probs, _ := audit.LayoutProblems(ep.dir)
				for _, p := range probs {
					if !strings.Contains(p, "entries for tag") {
						return evid.V("target-layout-invalid", "%s: %v", stage, probs)
					}
				}
			}
			return nil
		}
	}
	// qualify names a failure; variant=true keeps plain import errors under the same
	// signature as the round-trip variants (one defect = one signature)
	qualify := func(o outcome, variant bool) *evid.Violation {
		v := o.v
		if o.importErr != nil && !variant {
			v = evid.V("docker-import-error", "%s (style %s)", v.Msg, dc.Style)
			if dupPath && dc.Style != "oci" {
				v.Sig = "docker-duplicate-layer-path-import-error"
			}
		}
		return v
	}
	raw, err := buildTar(b.entries, false)
	if err != nil {
		return &evid.Violation{Sig: "harness-docker-build", Msg: err.Error()}
	}
	o := rt.importVerify(raw, sel, "docker base", vf(sel.tag))
	if o.inconclusive {
		watchdogs.Add(1)
		finish("watchdog", false)
		return nil
	}
	if o.v != nil {
		finish("docker-base-failed", true)
		return qualify(o, false)
	}
	if c.Reimport {
		classes["opt:reimport"] = true
		ep := o.ep
		rt.reuse = &ep
		o2 := rt.importVerify(raw, sel, "docker base, second import into the same target", vf(sel.tag))
		if o2.inconclusive {
			watchdogs.Add(1)
			finish("watchdog", false)
			return nil
		}
		if o2.v != nil {
			finish("reimport-failed", true)
			v := qualify(o2, false)
			v.Sig = "reimport-" + v.Sig
			return v
		}
	}
	if c.DockerVar != nil {
		cur := *c.DockerVar
		try := func(v Variant, label string) outcome {
			es, err := v.apply(b.entries)
			if err != nil {
				return outcome{v: &evid.Violation{Sig: "harness-variant", Msg: err.Error()}}
			}
			vraw, err := buildTarFmt(es, v.Gzip, v.GzSplit, v.TarFormat)
			if err != nil {
				return outcome{v: &evid.Violation{Sig: "harness-variant", Msg: err.Error()}}
			}
			return rt.importVerify(vraw, sel, label, vf(sel.tag))
		}
		for round := 0; ; round++ {
			fs := cur.features(names)
			o := try(cur, fmt.Sprintf("docker variant [%s]", strings.Join(fs, "+")))
			if o.inconclusive {
				watchdogs.Add(1)
				finish("watchdog", false)
				return nil
			}
			if o.v == nil {
				break
			}
			at := attribute(cur, o, names, b.entries, try, func(o outcome) *evid.Violation { return qualify(o, true) }, nil, "docker variant")
			if at.inconclusive {
				watchdogs.Add(1)
				finish("watchdog", false)
				return nil
			}
			if at.culprit == "" {
				finish("variant-failed", true)
				return evid.V("variant-combination-"+qualify(o, true).Sig, "docker archive variant with transformations %v (none of which fails alone, none of which repairs it when removed): %s", fs, o.v.Msg)
			}
			nv := evid.V(at.sig(), "the Docker-format archive (%s) imports correctly, its variant with %s does not: %s", dc.Style, at.describe(), at.v.Msg)
			if ev.IsKnown(nv.Sig) && round < 8 {
				ev.Report(nv, c)
				classes["known:"+nv.Sig] = true
				cur = cur.restrict(at.culprit, false, names)
				continue
			}
			finish("variant-failed", true)
			return nv
		}
	}
	finish("success", true)
	return nil
}

// ---------------------------------------------------------------------------
// tests

func inconclusive(t *testing.T) {
	if n := watchdogs.Load(); n > 0 {
		// no failure record is written: run.py reports the run as inconclusive (exit 2)
		t.Errorf("inconclusive: %d operations hit the wall-clock watchdog / request cap", n)
	}
}

func TestVerifProp(t *testing.T) {
	ev := evid.For(prop)
	rapid.Check(t, func(rt *rapid.T) {
		c := genRoundTrip(rt)
		v := evid.Guard(func() *evid.Violation { return check(c, ev) })
		if ev.Report(v, c) {
			rt.Fatalf("%v", v)
		}
	})
	inconclusive(t)
}

func TestVerifDocker(t *testing.T) {
	ev := evid.For(prop)
	rapid.Check(t, func(rt *rapid.T) {
		c := genDocker(rt)
		v := evid.Guard(func() *evid.Violation { return check(c, ev) })
		if ev.Report(v, c) {
			rt.Fatalf("%v", v)
		}
	})
	inconclusive(t)
}

func TestVerifReplayDir(t *testing.T) {
	ev := evid.For(prop)
	for _, f := range evid.ReplayFiles() {
		var c Case
		if err := evid.LoadCaseFile(f, &c); err != nil {
			t.Fatalf("%s: %v", f, err)
		}
		v := evid.Guard(func() *evid.Violation { return check(c, ev) })
		if ev.Report(v, c) {
			t.Errorf("%s: %v", f, v)
		}
	}
}

func TestVerifReplay(t *testing.T) {
	ev := evid.For(prop)
	var c Case
	ok, err := evid.LoadReplay(&c)
	if !ok {
		t.Skip("no VERIF_REPLAY")
	}
	if err != nil {
		t.Fatal(err)
	}
	for i := 0; i < 3; i++ {
		v := evid.Guard(func() *evid.Violation { return check(c, ev) })
		if ev.Report(v, c) {
			t.Fatalf("%v", v)
		}
	}
}
