// Command crashrun is a ptrace supervisor for the C07 check (DESIGN.md §2.4).
//
// It starts a driver process, follows every thread of it, decodes the
// file-system mutating system calls that touch one directory tree (the OCI
// layout under test), numbers them globally across threads and either lists
// them (count mode, -k 0) or delivers SIGKILL to the whole thread group on
// ENTRY to the k-th one, i.e. with exactly k-1 of them applied (kill mode).
//
// Counting starts only after the driver has written a line beginning with
// "START-VICTIM" to its stdout (fd 1): everything before that is pre-history.
//
// Only package syscall is used. linux/amd64 only.
//
//	crashrun -dir <layout> -k <n> -report <file> -- <driver> <args...>
//
// The driver inherits stdin/stdout/stderr. The report file receives one JSON
// object per line: {"n":..,"tid":..,"kind":..,"path":..,"path2":..,"flags":..,"len":..}
// for every counted call and finally {"end":true,"killed":bool,"count":N,...}.
package main

import (
	"bufio"
	"encoding/json"
	"flag"
	"fmt"
	"os"
	"os/exec"
	"path/filepath"
	"runtime"
	"strings"
	"syscall"
)

const (
	sysWrite         = 1
	sysOpen          = 2
	sysClose         = 3
	sysPwrite64      = 18
	sysWritev        = 20
	sysDup           = 32
	sysDup2          = 33
	sysSendfile      = 40
	sysFcntl         = 72
	sysTruncate      = 76
	sysFtruncate     = 77
	sysRename        = 82
	sysMkdir         = 83
	sysRmdir         = 84
	sysCreat         = 85
	sysLink          = 86
	sysUnlink        = 87
	sysSymlink       = 88
	sysOpenat        = 257
	sysMkdirat       = 258
	sysUnlinkat      = 263
	sysRenameat      = 264
	sysLinkat        = 265
	sysSymlinkat     = 266
	sysSplice        = 275
	sysFallocate     = 285
	sysDup3          = 292
	sysPwritev       = 296
	sysRenameat2     = 316
	sysCopyFileRange = 326
	sysPwritev2      = 328
	sysOpenat2       = 437

	atFDCWD = -100

	ptraceOExitKill = 0x100000
	marker          = "START-VICTIM"
)

type call struct {
	N     int    `json:"n"`
	Tid   int    `json:"tid"`
	Kind  string `json:"kind"` // open | write | rename | unlink | mkdir | ftruncate | link
	Path  string `json:"path"` // relative to the layout dir ("." = the dir itself)
	Path2 string `json:"path2,omitempty"`
	Flags string `json:"flags,omitempty"`
	Len   int64  `json:"len,omitempty"`
}

type endRec struct {
	End      bool   `json:"end"`
	Killed   bool   `json:"killed"`
	KilledAt int    `json:"killed_at,omitempty"`
	Count    int    `json:"count"`
	Marker   bool   `json:"marker_seen"`
	Exit     int    `json:"exit_code"`
	Signal   string `json:"signal,omitempty"`
	Threads  int    `json:"threads"`
	Stops    int    `json:"syscall_stops"`
	Note     string `json:"note,omitempty"`
}

// pending is the per-thread syscall-entry record waiting for its exit stop.
type pending struct {
	nr      uint64
	path    string
	trackFD bool // on success the returned fd is a layout file opened for writing
	dupOf   uint64
	isDup   bool
}

func peekStr(tid int, addr uintptr) string {
	if addr == 0 {
		return ""
	}
	var out []byte
	buf := make([]byte, 64)
	for len(out) < 8192 {
		// do not cross a page boundary in one read: the tail may be unmapped
		room := 4096 - int((addr+uintptr(len(out)))&4095)
		b := buf
		if room < len(b) {
			b = b[:room]
		}
		n, err := syscall.PtracePeekData(tid, addr+uintptr(len(out)), b)
		for i := 0; i < n; i++ {
			if b[i] == 0 {
				return string(out)
			}
			out = append(out, b[i])
		}
		if err != nil || n <= 0 {
			break
		}
	}
	return string(out)
}

func peekBytes(tid int, addr uintptr, n int) []byte {
	if addr == 0 || n <= 0 {
		return nil
	}
	b := make([]byte, n)
	m, err := syscall.PtracePeekData(tid, addr, b)
	if err != nil || m <= 0 {
		return nil
	}
	return b[:m]
}

func openFlags(fl uint64) string {
	var s []string
	switch fl & 3 {
	case syscall.O_WRONLY:
		s = append(s, "O_WRONLY")
	case syscall.O_RDWR:
		s = append(s, "O_RDWR")
	default:
		s = append(s, "O_RDONLY")
	}
	for _, f := range []struct {
		v uint64
		n string
	}{{syscall.O_CREAT, "O_CREAT"}, {syscall.O_EXCL, "O_EXCL"}, {syscall.O_TRUNC, "O_TRUNC"}, {syscall.O_APPEND, "O_APPEND"}} {
		if fl&f.v != 0 {
			s = append(s, f.n)
		}
	}
	return strings.Join(s, "|")
}

func main() {
	k := flag.Int("k", 0, "kill on entry to the k-th mutating call after the marker (0 = count only)")
	dir := flag.String("dir", "", "absolute path of the layout directory")
	report := flag.String("report", "", "report file")
	flag.Parse()
	if *dir == "" || *report == "" || flag.NArg() < 1 {
		fmt.Fprintln(os.Stderr, "usage: crashrun -dir D -k N -report F -- cmd args...")
		os.Exit(64)
	}
	root := filepath.Clean(*dir)
	rf, err := os.Create(*report)
	if err != nil {
		fmt.Fprintln(os.Stderr, "crashrun:", err)
		os.Exit(65)
	}
	rw := bufio.NewWriter(rf)
	emit := func(v any) {
		b, _ := json.Marshal(v)
		rw.Write(b)
		rw.WriteByte('\n')
	}
	finish := func(e endRec) {
		e.End = true
		emit(e)
		rw.Flush()
		rf.Close()
		os.Exit(0)
	}

	// all ptrace requests must come from the thread that is the tracer
	runtime.LockOSThread()
	cmd := exec.Command(flag.Arg(0), flag.Args()[1:]...)
	cmd.Stdin, cmd.Stdout, cmd.Stderr = os.Stdin, os.Stdout, os.Stderr
	cmd.SysProcAttr = &syscall.SysProcAttr{Ptrace: true}
	if err := cmd.Start(); err != nil {
		fmt.Fprintln(os.Stderr, "crashrun: start:", err)
		os.Exit(66)
	}
	pid := cmd.Process.Pid
	var ws syscall.WaitStatus
	if _, err := syscall.Wait4(pid, &ws, 0, nil); err != nil || !ws.Stopped() {
		fmt.Fprintln(os.Stderr, "crashrun: initial wait:", err, ws)
		os.Exit(67)
	}
	opts := syscall.PTRACE_O_TRACECLONE | syscall.PTRACE_O_TRACEFORK | syscall.PTRACE_O_TRACEVFORK |
		syscall.PTRACE_O_TRACESYSGOOD | ptraceOExitKill
	if err := syscall.PtraceSetOptions(pid, opts); err != nil {
		fmt.Fprintln(os.Stderr, "crashrun: setoptions:", err)
		os.Exit(68)
	}
	cwd, _ := os.Getwd()

	// resolve a (dirfd, path) pair of the tracee to a clean absolute path
	resolve := func(dirfd int64, p string) string {
		if p == "" {
			return ""
		}
		if !filepath.IsAbs(p) {
			base := cwd
			if int32(dirfd) != atFDCWD {
				if l, err := os.Readlink(fmt.Sprintf("/proc/%d/fd/%d", pid, int32(dirfd))); err == nil {
					base = l
				}
			} else if l, err := os.Readlink(fmt.Sprintf("/proc/%d/cwd", pid)); err == nil {
				base = l
			}
			p = filepath.Join(base, p)
		}
		return filepath.Clean(p)
	}
	under := func(p string) bool { return p == root || strings.HasPrefix(p, root+"/") }
	rel := func(p string) string {
		if p == root {
			return "."
		}
		if strings.HasPrefix(p, root+"/") {
			return p[len(root)+1:]
		}
		return p
	}

	inSys := map[int]*pending{} // tid -> entry record (nil = in user mode)
	known := map[int]bool{pid: true}
	fds := map[uint64]string{} // fd -> layout path, for files opened for writing
	count := 0
	counting := false
	threads := 1
	stops := 0
	end := endRec{}

	_ = syscall.PtraceSyscall(pid, 0)
	for {
		tid, err := syscall.Wait4(-1, &ws, syscall.WALL, nil)
		if err != nil {
			if err == syscall.EINTR {
				continue
			}
			end.Note = "wait4: " + err.Error()
			break
		}
		if ws.Exited() || ws.Signaled() {
			delete(inSys, tid)
			if tid == pid {
				if ws.Exited() {
					end.Exit = ws.ExitStatus()
				} else {
					end.Exit = -1
					end.Signal = ws.Signal().String()
				}
				break
			}
			continue
		}
		if !ws.Stopped() {
			continue
		}
		sig := ws.StopSignal()
		if !known[tid] {
			known[tid] = true
			threads++
			if sig == syscall.SIGSTOP {
				// initial stop of a freshly cloned thread: swallow
				_ = syscall.PtraceSyscall(tid, 0)
				continue
			}
		}
		if sig == syscall.SIGTRAP|0x80 {
			stops++
			var regs syscall.PtraceRegs
			if err := syscall.PtraceGetRegs(tid, &regs); err != nil {
				// thread vanished (exit_group / kill): nothing to decode
				_ = syscall.PtraceSyscall(tid, 0)
				continue
			}
			p := inSys[tid]
			const enosys = ^uint64(38) + 1 // -ENOSYS: value of rax at every syscall-entry stop
			if p != nil && regs.Rax == enosys && regs.Orig_rax != p.nr {
				// an exit stop was lost (should not happen); treat this as a new entry
				p = nil
			}
			if p != nil {
				// ---- syscall exit ----
				ret := int64(regs.Rax)
				if ret >= 0 {
					if p.trackFD {
						fds[uint64(ret)] = p.path
					} else if p.isDup {
						if pth, ok := fds[p.dupOf]; ok {
							fds[uint64(ret)] = pth
						}
					} else if p.nr == sysOpen || p.nr == sysOpenat || p.nr == sysOpenat2 || p.nr == sysCreat {
						// a read-only open may reuse an fd number
						delete(fds, uint64(ret))
					}
				}
				inSys[tid] = nil
				_ = syscall.PtraceSyscall(tid, 0)
				continue
			}
			if regs.Rax != enosys {
				// an exit stop whose entry was not seen (cannot be decoded): skip it
				_ = syscall.PtraceSyscall(tid, 0)
				continue
			}
			// ---- syscall entry ----
			p = &pending{nr: regs.Orig_rax}
			var c *call
			switch regs.Orig_rax {
			case sysOpenat, sysOpen, sysCreat:
				var pth string
				var fl uint64
				switch regs.Orig_rax {
				case sysOpenat:
					pth = resolve(int64(regs.Rdi), peekStr(tid, uintptr(regs.Rsi)))
					fl = regs.Rdx
				case sysOpen:
					pth = resolve(atFDCWD, peekStr(tid, uintptr(regs.Rdi)))
					fl = regs.Rsi
				default:
					pth = resolve(atFDCWD, peekStr(tid, uintptr(regs.Rdi)))
					fl = syscall.O_CREAT | syscall.O_WRONLY | syscall.O_TRUNC
				}
				if under(pth) && fl&(syscall.O_CREAT|syscall.O_TRUNC|syscall.O_WRONLY|syscall.O_RDWR) != 0 &&
					fl&syscall.O_DIRECTORY == 0 {
					p.trackFD, p.path = true, pth
					c = &call{Kind: "open", Path: rel(pth), Flags: openFlags(fl)}
				}
			case sysOpenat2:
				pth := resolve(int64(regs.Rdi), peekStr(tid, uintptr(regs.Rsi)))
				if under(pth) {
					// flags live in struct open_how; treat conservatively as a mutating open
					p.trackFD, p.path = true, pth
					c = &call{Kind: "open", Path: rel(pth), Flags: "openat2"}
				}
			case sysWrite, sysPwrite64, sysWritev, sysPwritev, sysPwritev2:
				if pth, ok := fds[regs.Rdi]; ok {
					c = &call{Kind: "write", Path: rel(pth), Len: int64(regs.Rdx)}
				} else if regs.Orig_rax == sysWrite && regs.Rdi == 1 && !counting {
					b := peekBytes(tid, uintptr(regs.Rsi), len(marker))
					if string(b) == marker {
						counting = true
						end.Marker = true
					}
				}
			case sysSendfile: // out_fd is arg 1
				if pth, ok := fds[regs.Rdi]; ok {
					c = &call{Kind: "write", Path: rel(pth), Len: int64(regs.R10), Flags: "sendfile"}
				}
			case sysCopyFileRange, sysSplice: // fd_out is arg 3
				if pth, ok := fds[regs.Rdx]; ok {
					c = &call{Kind: "write", Path: rel(pth), Len: int64(regs.R8), Flags: "copy"}
				}
			case sysFtruncate, sysFallocate:
				if pth, ok := fds[regs.Rdi]; ok {
					c = &call{Kind: "ftruncate", Path: rel(pth), Len: int64(regs.Rsi)}
				}
			case sysTruncate:
				if pth := resolve(atFDCWD, peekStr(tid, uintptr(regs.Rdi))); under(pth) {
					c = &call{Kind: "ftruncate", Path: rel(pth), Len: int64(regs.Rsi)}
				}
			case sysClose:
				delete(fds, regs.Rdi)
			case sysDup:
				p.isDup, p.dupOf = true, regs.Rdi
			case sysDup2, sysDup3:
				p.isDup, p.dupOf = true, regs.Rdi
				if regs.Rdi != regs.Rsi {
					delete(fds, regs.Rsi)
				}
			case sysFcntl:
				if regs.Rsi == syscall.F_DUPFD || regs.Rsi == syscall.F_DUPFD_CLOEXEC {
					p.isDup, p.dupOf = true, regs.Rdi
				}
			case sysRenameat, sysRenameat2:
				a := resolve(int64(regs.Rdi), peekStr(tid, uintptr(regs.Rsi)))
				b := resolve(int64(regs.Rdx), peekStr(tid, uintptr(regs.R10)))
				if under(a) || under(b) {
					c = &call{Kind: "rename", Path: rel(a), Path2: rel(b)}
				}
			case sysRename:
				a := resolve(atFDCWD, peekStr(tid, uintptr(regs.Rdi)))
				b := resolve(atFDCWD, peekStr(tid, uintptr(regs.Rsi)))
				if under(a) || under(b) {
					c = &call{Kind: "rename", Path: rel(a), Path2: rel(b)}
				}
			case sysLinkat, sysSymlinkat, sysLink, sysSymlink:
				var b string
				switch regs.Orig_rax {
				case sysLinkat:
					b = resolve(int64(regs.Rdx), peekStr(tid, uintptr(regs.R10)))
				case sysSymlinkat:
					b = resolve(int64(regs.Rsi), peekStr(tid, uintptr(regs.Rdx)))
				default:
					b = resolve(atFDCWD, peekStr(tid, uintptr(regs.Rsi)))
				}
				if under(b) {
					c = &call{Kind: "link", Path: rel(b)}
				}
			case sysUnlinkat:
				if a := resolve(int64(regs.Rdi), peekStr(tid, uintptr(regs.Rsi))); under(a) {
					c = &call{Kind: "unlink", Path: rel(a)}
					if regs.Rdx&0x200 != 0 {
						c.Flags = "AT_REMOVEDIR"
					}
				}
			case sysUnlink, sysRmdir:
				if a := resolve(atFDCWD, peekStr(tid, uintptr(regs.Rdi))); under(a) {
					c = &call{Kind: "unlink", Path: rel(a)}
				}
			case sysMkdirat:
				if a := resolve(int64(regs.Rdi), peekStr(tid, uintptr(regs.Rsi))); under(a) {
					c = &call{Kind: "mkdir", Path: rel(a)}
				}
			case sysMkdir:
				if a := resolve(atFDCWD, peekStr(tid, uintptr(regs.Rdi))); under(a) {
					c = &call{Kind: "mkdir", Path: rel(a)}
				}
			}
			if c != nil && counting {
				count++
				c.N, c.Tid = count, tid
				emit(c)
				if *k > 0 && count == *k {
					// the thread is in syscall-entry stop: a fatal signal makes the
					// kernel abort the call, so exactly k-1 mutations are applied
					_ = syscall.Kill(pid, syscall.SIGKILL)
					end.Killed, end.KilledAt = true, count
					for {
						t, err := syscall.Wait4(-1, &ws, syscall.WALL, nil)
						if err != nil {
							if err == syscall.EINTR {
								continue
							}
							break
						}
						if t == pid && (ws.Exited() || ws.Signaled()) {
							break
						}
					}
					end.Exit = -1
					end.Signal = "killed"
					end.Count, end.Threads, end.Stops = count, threads, stops
					finish(end)
				}
			}
			inSys[tid] = p
			_ = syscall.PtraceSyscall(tid, 0)
			continue
		}
		if sig == syscall.SIGTRAP {
			// PTRACE_EVENT_* stop (clone/fork) or an exec trap: never forwarded
			_ = syscall.PtraceSyscall(tid, 0)
			continue
		}
		// a real signal (SIGURG preemption, SIGCHLD, SIGPIPE, ...): deliver it
		_ = syscall.PtraceSyscall(tid, int(sig))
	}
	end.Count, end.Threads, end.Stops = count, threads, stops
	finish(end)
}
