// Package c04 decides C04: copy writes children before parents, the tag last;
// failure never moves the tag.
package c04

import (
	"context"
	"fmt"
	"os"
	"path/filepath"
	"sort"
	"strings"
	"sync"
	"syscall"
	"testing"
	"time"

	"pgregory.net/rapid"

	"github.com/regclient/regclient/zz_verif/audit"
	"github.com/regclient/regclient/zz_verif/copysc"
	"github.com/regclient/regclient/zz_verif/evid"
	rm "github.com/regclient/regclient/zz_verif/regmodel"
)

const prop = "C04"

func TestMain(m *testing.M) {
	code := m.Run()
	evid.Flush(code)
	os.Exit(code)
}

// Case is a copy scenario plus a fault / cancel / death plan.
type Case struct {
	Base   copysc.Case `json:"base"`
	Kinds  []string    `json:"kinds"`   // fault kinds applied (one faulted run per position x kind)
	PosSel []int       `json:"pos_sel"` // position selectors, mapped to k = sel mod N (N = requests of the fault-free run)
	Second *Second     `json:"second,omitempty"`
	AllPos bool        `json:"all_pos"` // thorough: every position
	// every position when the fault-free run has at most this many requests (contention template)
	AllPosMax int `json:"all_pos_max,omitempty"`
}

// Second is the second fault of a double-fault plan.
type Second struct {
	Kind string `json:"kind"`
	Sel  int    `json:"sel"`
}

var allKinds = []string{"status-500", "status-502", "status-429", "status-404", "status-401", "reset-before", "truncate", "stall-cancel", "cancel", "death"}

func gen(t *rapid.T) Case {
	o := copysc.DefaultGen()
	o.Pairings = []string{"same-reg", "two-reg", "two-reg", "reg-layout", "reg-layout", "layout-reg", "two-layout", "same-repo"}
	o.Obstruct = true // a layout target where the top-level manifest cannot be written: the copy fails, the tag must not have moved
	var c Case
	// a third of the cases aims at contention between the per-child goroutines: nested indexes whose parts
	// share blobs and child manifests, small images, a latency plan, and every request position of small runs
	contention := rapid.IntRange(0, 2).Draw(t, "contention") == 0
	if contention {
		o.Img.Contention = true
		o.Img.MaxLayers, o.Img.MaxEntries, o.Img.MaxDepth = 2, 3, 2
		o.Img.Schema1, o.Img.Foreign = false, false
	}
	c.Base = copysc.Gen(t, o)
	c.Base.TgtFeat.Validate = false // let a premature manifest be written so it is observed, not rejected
	c.Base.SrcFeat.Validate = false
	if contention {
		c.AllPosMax = 90
		if c.Base.Procs == 1 {
			c.Base.Procs = 4
		}
		if len(c.Base.Delays) == 0 {
			n := rapid.IntRange(2, 6).Draw(t, "c_ndelays")
			for i := 0; i < n; i++ {
				c.Base.Delays = append(c.Base.Delays, rapid.IntRange(0, len(copysc.DelayTable)-1).Draw(t, "c_delay"))
			}
		}
		c.Kinds = []string{rapid.SampledFrom([]string{"status-404", "status-401", "status-500", "reset-before", "truncate", "cancel"}).Draw(t, "c_kind")}
		for i := 0; i < 6; i++ {
			c.PosSel = append(c.PosSel, rapid.IntRange(0, 9999).Draw(t, "pos"))
		}
		return c
	}
	nk := rapid.IntRange(1, 3).Draw(t, "nkinds")
	for i := 0; i < nk; i++ {
		c.Kinds = append(c.Kinds, rapid.SampledFrom(allKinds).Draw(t, "kind"))
	}
	np := rapid.IntRange(3, 8).Draw(t, "npos")
	for i := 0; i < np; i++ {
		c.PosSel = append(c.PosSel, rapid.IntRange(0, 9999).Draw(t, "pos"))
	}
	if rapid.IntRange(0, 3).Draw(t, "double") == 0 {
		c.Second = &Second{Kind: rapid.SampledFrom(allKinds[:7]).Draw(t, "kind2"), Sel: rapid.IntRange(0, 9999).Draw(t, "pos2")}
	}
	return c
}

var knownManifestTypes = map[string]bool{rm.MTDocker1: true, rm.MTDocker1Sig: true, rm.MTDocker2: true, rm.MTDocker2List: true, rm.MTOCIManifest: true, rm.MTOCIIndex: true}

// contentClosure is the content the statement requires to be present when the
// requested tag / top-level digest is written (referrers and digest tags that
// the copy may defer on loops are deliberately left out).
func contentClosure(e *copysc.Env) map[string][]byte {
	ao := audit.Opts{IncludeExternal: e.C.Opts.IncludeExternal}
	ao.Exempt = func(d string, root bool) int { return e.ExemptLevel(d) }
	r := audit.ClosureEx(e.SrcView(), e.RootDig, e.C.Graph.Nodes[e.C.Graph.Root].MediaType, ao)
	e.LastParent = r.Parent
	return r.Content
}

// run is one execution (fault-free when kind == "").
type run struct {
	e        *copysc.Env
	kind     string
	k        int
	second   *Second
	k2       int
	mu       sync.Mutex
	viol     *evid.Violation
	closure  map[string][]byte
	cancel   context.CancelFunc
	frozenAt int
}

func (r *run) setViol(v *evid.Violation) {
	r.mu.Lock()
	if r.viol == nil {
		r.viol = v
	}
	r.mu.Unlock()
}

// missingRefs lists the non-foreign references of a manifest body absent from has().
func missingRefs(body []byte, has func(string) bool) []string {
	pm, err := rm.ParseManifest(body)
	if err != nil {
		return nil
	}
	var out []string
	for _, rf := range pm.Refs {
		if rf.Digest == "" || len(rf.URLs) > 0 {
			continue
		}
		if !has(rf.Digest) {
			out = append(out, rf.Digest)
		}
	}
	return out
}

func blobPath(dir, d string) string {
	alg, hx, _ := strings.Cut(d, ":")
	return filepath.Join(dir, "blobs", alg, hx)
}

func ctimeOf(p string) (int64, bool) {
	var st syscall.Stat_t
	if err := syscall.Stat(p, &st); err != nil {
		return 0, false
	}
	return st.Ctim.Sec*1e9 + st.Ctim.Nsec, true
}

// confirmMissing filters out references that were in fact published before the manifest.
func confirmMissing(dir, manifest string, miss []string) []string {
	mt, ok := ctimeOf(blobPath(dir, manifest))
	if !ok {
		return nil
	}
	var out []string
	for _, c := range miss {
		ct, exists := ctimeOf(blobPath(dir, c))
		if !exists || ct > mt {
			out = append(out, c)
		}
	}
	return out
}

func looksLikeManifest(b []byte) bool {
	if len(b) == 0 || b[0] != '{' {
		return false
	}
	s := string(b)
	return strings.Contains(s, `"schemaVersion"`) || strings.Contains(s, `"mediaType"`) && (strings.Contains(s, `"layers"`) || strings.Contains(s, `"manifests"`) || strings.Contains(s, `"blobs"`))
}

// layoutState audits a layout target exactly as it is now.
func (r *run) layoutState(when string) {
	e := r.e
	dir := e.Tgt.Dir
	// The audit runs while the client may be writing. The index is read BEFORE the blobs are
	// listed: everything published before the index was written is then in the listing (or is
	// confirmed through its ctime below), so no correct run can look like a violation.
	var lv *audit.LayoutView
	var idxCtime int64
	for try := 0; try < 5; try++ {
		c1, ok1 := ctimeOf(filepath.Join(dir, "index.json"))
		lv = audit.OpenLayout(dir)
		c2, ok2 := ctimeOf(filepath.Join(dir, "index.json"))
		if ok1 == ok2 && c1 == c2 {
			idxCtime = c1
			break
		}
		lv = nil
	}
	files := map[string][]byte{}
	for _, alg := range []string{"sha256", "sha512"} {
		ents, _ := os.ReadDir(filepath.Join(dir, "blobs", alg))
		for _, f := range ents {
			if strings.Contains(f.Name(), ".") {
				continue // temp file
			}
			b, err := os.ReadFile(filepath.Join(dir, "blobs", alg, f.Name()))
			if err == nil {
				files[alg+":"+f.Name()] = b
			}
		}
	}
	has := func(d string) bool { _, ok := files[d]; return ok }
	// children first: every manifest file that this copy wrote has all its references
	digs := make([]string, 0, len(files))
	for d := range files {
		digs = append(digs, d)
	}
	sort.Strings(digs)
	for _, d := range digs {
		if e.PreHas[d] {
			continue
		}
		n := e.C.Graph.ByDigest(d)
		if n == nil && !looksLikeManifest(files[d]) {
			continue
		}
		if n == nil {
			// e.g. a referrers fallback index written by the client
			if _, err := rm.ParseManifest(files[d]); err != nil {
				continue
			}
		}
		if miss := missingRefs(files[d], has); len(miss) > 0 {
			// The directory listing is not atomic: a child published before the manifest can be
			// missed by a listing that still sees the manifest. A reference counts as missing only
			// if its file does not exist now, or was published (renamed into place: ctime) after
			// the manifest file.
			miss = confirmMissing(dir, d, miss)
			if len(miss) == 0 {
				continue
			}
			sig := "layout-manifest-before-children"
			if n != nil && !knownManifestTypes[n.MediaType] {
				sig = "unknown-type-index-entry-error-swallowed"
			}
			r.setViol(evid.V(sig, "%s (%s@%d): manifest file %s was written to the target layout while %v it references is not there", when, r.kind, r.k, d, miss))
			return
		}
	}
	// tag invariant
	if lv == nil {
		return // index kept changing under the audit
	}
	if lv.IdxErr != nil {
		// the audit may race with the client creating the file: only content that was read and does not parse counts
		if strings.Contains(lv.IdxErr.Error(), "not valid JSON") {
			r.setViol(evid.V("layout-index-unreadable", "%s: %v", when, lv.IdxErr))
		}
		return
	}
	if e.C.TgtByDigest {
		return
	}
	td, ok := lv.Tag(e.TgtTag)
	// content counts as present when it is in the listing, or exists and was published no later
	// than the index that was read
	hasAtIndex := func(d string) bool {
		if has(d) {
			return true
		}
		ct, exists := ctimeOf(blobPath(dir, d))
		return exists && ct <= idxCtime
	}
	r.tagInvariant(when, td, ok, hasAtIndex)
}

func (r *run) tagInvariant(when string, td string, ok bool, has func(string) bool) {
	e := r.e
	if !ok {
		if e.PreTag != "" {
			r.setViol(evid.V("tag-removed", "%s (%s@%d): target tag %q existed before the copy (%s) and is gone", when, r.kind, r.k, e.TgtTag, e.PreTag))
		}
		return
	}
	if td == e.PreTag {
		return
	}
	if td == e.RootDig && e.Tgt.Kind == "layout" {
		// the tag names the source's top-level manifest: that manifest itself must be a regular file by now
		if fi, err := os.Stat(blobPath(e.Tgt.Dir, e.RootDig)); err != nil || !fi.Mode().IsRegular() {
			r.setViol(evid.V("tag-written-before-manifest", "%s (%s@%d): target tag %q already resolves to the source digest %s but that manifest is not a file of the target layout (copy outcome judged separately)", when, r.kind, r.k, e.TgtTag, e.RootDig))
			return
		}
	}
	if td != e.RootDig {
		r.setViol(evid.V("tag-moved-elsewhere", "%s (%s@%d): target tag %q resolves to %s, neither the previous value %q nor the source digest %s", when, r.kind, r.k, e.TgtTag, td, e.PreTag, e.RootDig))
		return
	}
	for d := range r.closure {
		if d == e.RootDig {
			continue
		}
		if !has(d) {
			sig := "tag-written-before-content"
			if e.UnderUnknownEntry(d, r.manifests()) {
				sig = "unknown-type-index-entry-error-swallowed"
			}
			r.setViol(evid.V(sig, "%s (%s@%d): target tag %q already resolves to the source digest but %s of its closure is not at the target", when, r.kind, r.k, e.TgtTag, d))
			return
		}
	}
}

func (r *run) manifests() map[string]string {
	out := map[string]string{}
	for _, n := range r.e.C.Graph.Nodes {
		out[n.Digest] = n.MediaType
	}
	return out
}

// regState audits a registry target under the model lock (called with the lock NOT held).
func (r *run) regState(when string) {
	e := r.e
	e.M.Lock()
	defer e.M.Unlock()
	repo := e.Tgt.Host.Repos[e.Tgt.Repo]
	if repo == nil {
		return
	}
	has := func(d string) bool { return repo.Present(d) }
	for _, d := range copysc.SortedKeys(repo.Manifests) {
		if e.PreHas[d] {
			continue
		}
		if miss := missingRefs(repo.Manifests[d].Body, has); len(miss) > 0 {
			r.setViol(evid.V("manifest-before-children", "%s (%s@%d): manifest %s is stored at the target while %v it references is not", when, r.kind, r.k, d, miss))
			return
		}
	}
	if e.C.TgtByDigest {
		return
	}
	td, ok := repo.Tags[e.TgtTag]
	r.tagInvariant(when, td, ok, has)
}

func (r *run) state(when string) {
	if r.e.Tgt.Kind == "layout" {
		r.layoutState(when)
	} else {
		r.regState(when)
	}
}

// exec performs the run and judges it.
func (r *run) exec() (cerr error, timedOut bool, requests int) {
	e := r.e
	r.closure = contentClosure(e)
	ctx, cancel := context.WithCancel(context.Background())
	r.cancel = cancel
	defer cancel()
	add := func(kind string, k int) {
		switch {
		case strings.HasPrefix(kind, "status-"):
			f := rm.NewFault("status")
			fmt.Sscanf(kind, "status-%d", &f.Status)
			f.AtSeq = k + e.WarmRequests
			if f.Status == 401 {
				f.Challenge = `Basic realm="injected"`
			}
			e.M.AddFault(f)
		case kind == "reset-before":
			f := rm.NewFault("reset-before")
			f.AtSeq = k + e.WarmRequests
			e.M.AddFault(f)
		case kind == "truncate":
			f := rm.NewFault("truncate")
			f.AtSeq = k + e.WarmRequests
			f.At = 1
			e.M.AddFault(f)
		case kind == "stall-cancel":
			f := rm.NewFault("stall")
			f.AtSeq = k + e.WarmRequests
			f.At = 0
			e.M.AddFault(f)
		}
	}
	if r.kind != "" {
		add(r.kind, r.k)
	}
	if r.second != nil {
		add(r.second.Kind, r.k2)
	}
	var once sync.Once
	e.M.OnArrive = func(x *rm.Entry) {
		// the instant the requested tag / top-level digest is written at a registry target
		if e.Tgt.Kind == "reg" && x.Class == "manifest-put" && x.Host == e.Tgt.Host.Name && x.Repo == e.Tgt.Repo &&
			((!e.C.TgtByDigest && x.Ref == e.TgtTag) || (e.C.TgtByDigest && x.Ref == e.RootDig)) {
			e.M.Lock()
			repo := e.Tgt.Host.Repos[e.Tgt.Repo]
			var miss []string
			for d := range r.closure {
				if d != e.RootDig && (repo == nil || !repo.Present(d)) {
					miss = append(miss, d)
				}
			}
			e.M.Unlock()
			if len(miss) > 0 {
				sort.Strings(miss)
				sig := "tag-written-before-content"
				if e.UnderUnknownEntry(miss[0], r.manifests()) {
					sig = "unknown-type-index-entry-error-swallowed"
				}
				r.setViol(evid.V(sig, "%s@%d: the requested reference %s is being written (request #%d) while %v of its closure is not at the target", r.kind, r.k, x.Ref, x.Seq, miss))
			}
		}
		// layout targets are audited at every source request
		if e.Tgt.Kind == "layout" && e.Src.Kind == "reg" {
			r.layoutState(fmt.Sprintf("at request #%d", x.Seq))
		}
		if x.Seq == r.k+e.WarmRequests {
			switch r.kind {
			case "cancel":
				once.Do(cancel)
			case "death":
				// process death: the target exactly as it is now is what survives
				r.state(fmt.Sprintf("frozen at request #%d", x.Seq))
				r.frozenAt = x.Seq
				once.Do(cancel)
			case "stall-cancel":
				time.AfterFunc(15*time.Millisecond, func() { once.Do(cancel) })
			}
		}
	}
	cerr, timedOut = e.Copy(ctx)
	e.M.OnArrive = nil
	requests = e.M.Requests() - e.WarmRequests
	if timedOut {
		return
	}
	// children first, judged by the model at the instant of every manifest PUT
	if e.Tgt.Kind == "reg" {
		for _, x := range e.M.Entries() {
			if x.Class == "manifest-put" && x.Applied && x.Host == e.Tgt.Host.Name && x.Repo == e.Tgt.Repo && len(x.Missing) > 0 {
				r.setViol(evid.V("manifest-before-children", "%s@%d: manifest PUT #%d %s was accepted while %v it references was not at the target (copy returned %v)", r.kind, r.k, x.Seq, x.Ref, x.Missing, cerr))
				break
			}
		}
	}
	r.state("after return")
	if r.viol != nil && os.Getenv("VERIF_DEBUG") != "" {
		fmt.Fprintf(os.Stderr, "==== %v\ncopy returned: %v\n%s", r.viol, cerr, e.DumpLog())
		if e.Tgt.Kind == "layout" {
			filepath.Walk(e.Tgt.Dir, func(p string, fi os.FileInfo, err error) error {
				if err == nil && !fi.IsDir() {
					fmt.Fprintf(os.Stderr, "  file %s %d\n", strings.TrimPrefix(p, e.Tgt.Dir), fi.Size())
				}
				return nil
			})
			b, _ := os.ReadFile(filepath.Join(e.Tgt.Dir, "index.json"))
			fmt.Fprintf(os.Stderr, "  index.json: %s\n", b)
		}
	}
	return
}

func check(c *Case, ev *evid.Collector) *evid.Violation {
	base := c.Base
	g := base.Graph
	classes := []string{"pairing:" + base.Pairing, "pre:" + base.Pre.Mode}
	if c.AllPosMax > 0 {
		classes = append(classes, "template:contention")
	}
	classes = append(classes, base.ClientClasses()...)
	for _, l := range g.Labels {
		classes = append(classes, "graph:"+l)
	}
	// fault-free run: counts the requests and must satisfy the ordering clauses too
	e0, err := copysc.Setup(base)
	if err != nil {
		return &evid.Violation{Sig: "harness-setup", Msg: err.Error()}
	}
	r0 := &run{e: e0, k: -1}
	cerr, timedOut, n := r0.exec()
	e0.Close()
	if timedOut {
		ev.Case(false, "", append(classes, "outcome:watchdog")...)
		return nil
	}
	if r0.viol != nil {
		ev.Case(true, g.Shape()+"|clean", classes...)
		return r0.viol
	}
	if cerr != nil || n == 0 {
		ev.Case(false, "", append(classes, "outcome:clean-run-error-or-no-requests")...)
		return nil
	}
	positions := map[int]bool{}
	if c.AllPos || n <= c.AllPosMax || evid.Tier() == "thorough" && n <= 150 {
		for k := 0; k < n; k++ {
			positions[k] = true
		}
		ev.Add("graphs_with_all_positions", 1)
	} else {
		for _, s := range c.PosSel {
			positions[s%n] = true
		}
	}
	ks := make([]int, 0, len(positions))
	for k := range positions {
		ks = append(ks, k)
	}
	sort.Ints(ks)
	runs, ntRuns := 0, 0
	for _, kind := range c.Kinds {
		for _, k := range ks {
			e, err := copysc.Setup(base)
			if err != nil {
				return &evid.Violation{Sig: "harness-setup", Msg: err.Error()}
			}
			r := &run{e: e, kind: kind, k: k}
			if c.Second != nil {
				r.second = c.Second
				r.k2 = c.Second.Sel % n
			}
			cerr, timedOut, _ := r.exec()
			// non-trivial: the fault hit after something was written and the copy did not complete
			wrote := false
			for _, x := range e.M.Entries() {
				if x.Seq >= e.WarmRequests && x.Seq < k+e.WarmRequests && x.Applied && x.Mutating() {
					wrote = true
				}
			}
			if e.Tgt.Kind == "layout" && k > 2 {
				wrote = true
			}
			e.Close()
			runs++
			ev.Class("fault:" + kind)
			if timedOut {
				ev.Class("outcome:watchdog")
				continue
			}
			if cerr != nil {
				ev.Class("outcome:copy-failed")
				if wrote {
					ntRuns++
					ev.Case(true, fmt.Sprintf("%s|%s|%s|%d/%d", g.Shape(), base.Pairing, kind, k, n), "nt-run")
				} else {
					ev.Case(false, "")
				}
			} else {
				ev.Class("outcome:copy-succeeded-despite-fault")
				ev.Case(false, "")
			}
			if r.viol != nil {
				// pin the failing fault so that the saved case replays it in every tier
				c.Kinds, c.PosSel, c.AllPos, c.AllPosMax = []string{kind}, []int{k}, false, 0
				return r.viol
			}
		}
	}
	ev.Case(ntRuns > 0, fmt.Sprintf("%s|%s|%v|%v", g.Shape(), base.Pairing, c.Kinds, ks), classes...)
	ev.Sample(map[string]any{"pairing": base.Pairing, "pre": base.Pre.Mode, "shape": g.Shape(), "clean_requests": n, "kinds": c.Kinds, "positions": ks, "second": c.Second, "faulted_runs": runs})
	return nil
}

func TestVerifProp(t *testing.T) {
	ev := evid.For(prop)
	rapid.Check(t, func(rt *rapid.T) {
		c := gen(rt)
		v := evid.Guard(func() *evid.Violation { return check(&c, ev) })
		if ev.Report(v, c) {
			rt.Fatalf("%v", v)
		}
	})
}

func TestVerifReplayDir(t *testing.T) {
	ev := evid.For(prop)
	for _, f := range evid.ReplayFiles() {
		var c Case
		if err := evid.LoadCaseFile(f, &c); err != nil {
			t.Fatalf("%s: %v", f, err)
		}
		for i := 0; i < 30; i++ {
			v := evid.Guard(func() *evid.Violation { return check(&c, ev) })
			if ev.Report(v, c) {
				t.Errorf("%s: %v", f, v)
				break
			}
		}
	}
}

func TestVerifReplay(t *testing.T) {
	ev := evid.For(prop)
	var c Case
	ok, err := evid.LoadReplay(&c)
	if !ok {
		t.Skip("no VERIF_REPLAY")
	}
	if err != nil {
		t.Fatal(err)
	}
	for i := 0; i < 200; i++ {
		v := evid.Guard(func() *evid.Violation { return check(&c, ev) })
		if ev.Report(v, c) {
			t.Fatalf("%v", v)
		}
	}
}
