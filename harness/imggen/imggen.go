// Package imggen generates image graphs (blobs, images, indexes, artifacts,
// tags, referrers, digest-tags) as plain data and materialises them raw into a
// regmodel host or an OCI layout directory. Manifests are serialised by a small
// JSON writer of its own (never through regclient types) and digests are
// computed with crypto/* directly.
package imggen

import (
	"encoding/base64"
	"encoding/json"
	"fmt"
	"os"
	"path/filepath"
	"sort"
	"strings"

	"pgregory.net/rapid"

	rm "github.com/regclient/regclient/zz_verif/regmodel"
)

// Blob is a content-addressed blob.
type Blob struct {
	Digest string `json:"digest"`
	Data   []byte `json:"data"`
}

// Node is one manifest of the graph.
type Node struct {
	ID        int               `json:"id"`
	Kind      string            `json:"kind"` // image | index | artifact | schema1
	MediaType string            `json:"media_type"`
	Body      []byte            `json:"body"`
	Digest    string            `json:"digest"`
	Children  []int             `json:"children,omitempty"` // index entries that are manifests (node ids)
	Blobs     []string          `json:"blobs,omitempty"`    // digests of blobs that must exist beside it
	Foreign   []string          `json:"foreign,omitempty"`  // digests of foreign layers (have urls)
	Subject   string            `json:"subject,omitempty"`  // subject digest ("" none)
	ArtType   string            `json:"art_type,omitempty"` // artifact type as a referrers response reports it
	Annot     map[string]string `json:"annot,omitempty"`
}

// Graph is a generated repository content.
type Graph struct {
	Blobs    map[string]*Blob  `json:"blobs"`
	Nodes    []*Node           `json:"nodes"`
	Tags     map[string]int    `json:"tags"`               // tag -> node id
	Root     int               `json:"root"`               // node id of the image under test
	External map[string][]byte `json:"external,omitempty"` // url path -> bytes (foreign layers)
	ExtHost  string            `json:"ext_host,omitempty"`
	Labels   []string          `json:"labels"`
}

// Options steer the generator.
type Options struct {
	MaxDepth    int  // index nesting depth (0 = images only)
	Schema1     bool // allow schema1 images
	Artifacts   bool // allow artifact manifests / referrers
	Foreign     bool // allow foreign layers
	BlobEntries bool // allow blob-typed index entries
	InlineData  bool // allow inline data fields
	Referrers   bool // generate referrers of closure nodes
	DigestTags  bool // generate digest tags (sha256-<hex>.suffix)
	Sha512      bool // allow sha512 descriptors
	Contention  bool // bias towards graphs whose parts share content: nested indexes with >=2 entries, blobs and child manifests reused with probability 3/4 and 1/2
	NoMediaType bool // allow bodies without mediaType field
	ExtraTags   bool // extra tags on nodes
	ExtHost     string
	MaxLayers   int
	MaxEntries  int
}

// DefaultOptions enables everything.
func DefaultOptions() Options {
	return Options{MaxDepth: 3, Schema1: true, Artifacts: true, Foreign: true, BlobEntries: true, InlineData: true,
		Referrers: true, DigestTags: true, Sha512: false, ExtraTags: true, ExtHost: "ext.example.test", MaxLayers: 4, MaxEntries: 4}
}

type gen struct {
	t    *rapid.T
	g    *Graph
	opt  Options
	pool []string // blob digests available for reuse
	lab  map[string]bool
}

func (gn *gen) label(s string) { gn.lab[s] = true }

func (gn *gen) blob(data []byte) string {
	alg := "sha256"
	if gn.opt.Sha512 && rapid.IntRange(0, 5).Draw(gn.t, "blob_alg") == 0 {
		alg = "sha512"
		gn.label("sha512-blob")
	}
	d := rm.Digest(alg, data)
	if _, ok := gn.g.Blobs[d]; !ok {
		gn.g.Blobs[d] = &Blob{Digest: d, Data: data}
		gn.pool = append(gn.pool, d)
	}
	return d
}

func (gn *gen) newBlobData(label string) []byte {
	t := gn.t
	switch rapid.IntRange(0, 9).Draw(t, label+"_kind") {
	case 0:
		gn.label("empty-blob")
		return []byte{}
	case 1:
		n := rapid.IntRange(200, 600).Draw(t, label+"_big")
		b := make([]byte, n)
		seed := rapid.IntRange(0, 255).Draw(t, label+"_seed")
		for i := range b {
			b[i] = byte(seed + i*7)
		}
		return b
	default:
		return rapid.SliceOfN(rapid.Byte(), 1, 40).Draw(t, label)
	}
}

// layerBlob returns a new or reused blob digest.
func (gn *gen) layerBlob(label string) string {
	reuse := 3
	if gn.opt.Contention {
		reuse = 0 // IntRange(0, 3) != 0: 3/4
	}
	if len(gn.pool) > 0 && (rapid.IntRange(0, 3).Draw(gn.t, label+"_reuse") == 0) != (reuse == 0) {
		gn.label("shared-blob")
		return rapid.SampledFrom(gn.pool).Draw(gn.t, label+"_pick")
	}
	return gn.blob(gn.newBlobData(label))
}

// ---- tiny JSON writer with style choices ------------------------------------

type kv struct {
	k string
	v string // raw JSON
}

type style struct {
	shuffle bool
	ws      int // 0 compact, 1 space after separators, 2 indented
	unknown bool
}

func (gn *gen) style() style {
	return style{
		shuffle: rapid.IntRange(0, 3).Draw(gn.t, "st_shuffle") == 0,
		ws:      rapid.IntRange(0, 2).Draw(gn.t, "st_ws"),
		unknown: rapid.IntRange(0, 5).Draw(gn.t, "st_unknown") == 0,
	}
}

func jstr(s string) string {
	b, _ := json.Marshal(s)
	return string(b)
}

func (gn *gen) obj(st style, pairs []kv) string {
	if st.unknown {
		pairs = append(pairs, kv{"x-verif-unknown", `{"a":[1,2,{"b":null}],"c":"é"}`})
	}
	if st.shuffle && len(pairs) > 1 {
		perm := rapid.Permutation(pairs).Draw(gn.t, "st_perm")
		pairs = perm
	}
	var sb strings.Builder
	sep, colon, open, close := ",", ":", "{", "}"
	switch st.ws {
	case 1:
		sep, colon = ", ", ": "
	case 2:
		sep, colon, open, close = ",\n  ", ": ", "{\n  ", "\n}"
	}
	sb.WriteString(open)
	for i, p := range pairs {
		if i > 0 {
			sb.WriteString(sep)
		}
		sb.WriteString(jstr(p.k))
		sb.WriteString(colon)
		sb.WriteString(p.v)
	}
	sb.WriteString(close)
	return sb.String()
}

func arr(items []string) string { return "[" + strings.Join(items, ",") + "]" }

func mapJSON(m map[string]string) string {
	keys := make([]string, 0, len(m))
	for k := range m {
		keys = append(keys, k)
	}
	sort.Strings(keys)
	parts := make([]string, 0, len(keys))
	for _, k := range keys {
		parts = append(parts, jstr(k)+":"+jstr(m[k]))
	}
	return "{" + strings.Join(parts, ",") + "}"
}

// desc builds a descriptor object.
func (gn *gen) desc(mt, dig string, size int, extra ...kv) string {
	pairs := []kv{{"mediaType", jstr(mt)}, {"digest", jstr(dig)}, {"size", fmt.Sprint(size)}}
	pairs = append(pairs, extra...)
	return gn.obj(style{}, pairs)
}

func (gn *gen) annotations(label string) map[string]string {
	if rapid.IntRange(0, 2).Draw(gn.t, label+"_has") != 0 {
		return nil
	}
	n := rapid.IntRange(1, 2).Draw(gn.t, label+"_n")
	m := map[string]string{}
	for i := 0; i < n; i++ {
		k := rapid.SampledFrom([]string{"org.example.a", "org.example.b", "org.opencontainers.image.created", "k"}).Draw(gn.t, label+"_k")
		m[k] = rapid.SampledFrom([]string{"v1", "v2", "2024-01-02T03:04:05Z", "é\"q"}).Draw(gn.t, label+"_v")
	}
	return m
}

var platforms = []string{
	`{"architecture":"amd64","os":"linux"}`,
	`{"architecture":"arm64","os":"linux"}`,
	`{"architecture":"arm","os":"linux","variant":"v7"}`,
	`{"architecture":"arm","os":"linux","variant":"v6"}`,
	`{"architecture":"ppc64le","os":"linux"}`,
	`{"architecture":"amd64","os":"windows","os.version":"10.0.17763.1"}`,
	`{"architecture":"amd64","os":"windows","os.version":"10.0.20348.2"}`,
	`{"architecture":"unknown","os":"unknown"}`,
}

func configJSON(arch, osn string, nLayers int, seed int) []byte {
	diff := make([]string, nLayers)
	for i := range diff {
		diff[i] = jstr(rm.Digest("sha256", []byte(fmt.Sprintf("diff-%d-%d", seed, i))))
	}
	return []byte(fmt.Sprintf(`{"architecture":%s,"os":%s,"config":{"Env":["SEED=%d"]},"rootfs":{"type":"layers","diff_ids":%s}}`,
		jstr(arch), jstr(osn), seed, arr(diff)))
}

func (gn *gen) add(n *Node) int {
	n.ID = len(gn.g.Nodes)
	if n.Digest == "" {
		alg := "sha256"
		if gn.opt.Sha512 && n.Kind != "schema1" && rapid.IntRange(0, 5).Draw(gn.t, "manifest_alg") == 0 {
			alg = "sha512"
			gn.label("sha512-manifest")
		}
		n.Digest = rm.ManifestDigest(alg, n.MediaType, n.Body)
	}
	// identical manifests collapse to one node
	for _, o := range gn.g.Nodes {
		if o.Digest == n.Digest {
			return o.ID
		}
	}
	gn.g.Nodes = append(gn.g.Nodes, n)
	return n.ID
}

// image generates an OCI or Docker schema2 image.
func (gn *gen) image(label string, subject string) int {
	t := gn.t
	docker := rapid.IntRange(0, 2).Draw(t, label+"_docker") == 0
	if subject != "" {
		docker = false
	}
	mtM, mtC, mtL := rm.MTOCIManifest, rm.MTOCIConfig, rm.MTOCILayerGzip
	if docker {
		mtM, mtC, mtL = rm.MTDocker2, rm.MTDockerConfig, rm.MTDockerLayer
		gn.label("docker2")
	}
	n := &Node{Kind: "image", MediaType: mtM, Subject: subject}
	nL := rapid.IntRange(0, gn.opt.MaxLayers).Draw(t, label+"_nlayers")
	seed := rapid.IntRange(0, 1000).Draw(t, label+"_cfgseed")
	var cfgDesc string
	emptyCfg := !docker && rapid.IntRange(0, 6).Draw(t, label+"_emptycfg") == 0
	if emptyCfg {
		d := gn.blob([]byte("{}"))
		extra := []kv{}
		if gn.opt.InlineData && rapid.Bool().Draw(t, label+"_cfgdata") {
			extra = append(extra, kv{"data", jstr("e30=")})
			gn.label("inline-data")
		}
		cfgDesc = gn.desc(rm.MTOCIEmpty, d, 2, extra...)
		n.Blobs = append(n.Blobs, d)
		n.ArtType = rm.MTOCIEmpty
	} else {
		cfg := configJSON("amd64", "linux", nL, seed)
		d := gn.blob(cfg)
		cfgDesc = gn.desc(mtC, d, len(cfg))
		n.Blobs = append(n.Blobs, d)
		n.ArtType = mtC
	}
	layers := []string{}
	for i := 0; i < nL; i++ {
		if gn.opt.Foreign && rapid.IntRange(0, 9).Draw(t, label+"_foreign") == 0 {
			data := gn.newBlobData(label + "_fl")
			d := rm.Digest("sha256", data)
			path := "/ext/" + strings.Replace(d, ":", "-", 1)
			gn.g.External[path] = data
			mt := "application/vnd.oci.image.layer.nondistributable.v1.tar+gzip"
			if docker {
				mt = rm.MTDockerForeig
			}
			layers = append(layers, gn.desc(mt, d, len(data), kv{"urls", arr([]string{jstr("https://" + gn.opt.ExtHost + path)})}))
			n.Foreign = append(n.Foreign, d)
			gn.label("foreign-layer")
			continue
		}
		d := gn.layerBlob(label + "_layer")
		b := gn.g.Blobs[d]
		extra := []kv{}
		if gn.opt.InlineData && !docker && len(b.Data) < 64 && rapid.IntRange(0, 7).Draw(t, label+"_ldata") == 0 {
			extra = append(extra, kv{"data", jstr(base64.StdEncoding.EncodeToString(b.Data))})
			gn.label("inline-data")
		}
		if a := gn.annotations(label + "_lann"); a != nil && !docker {
			extra = append(extra, kv{"annotations", mapJSON(a)})
		}
		lmt := mtL
		if gn.opt.Foreign && rapid.IntRange(0, 11).Draw(t, label+"_lforeignmt") == 0 {
			// a layer of a non-distributable media type WITHOUT urls that the source itself hosts (what a registry
			// holds after such a layer was pushed with --include-external): it is ordinary content of the image
			lmt = "application/vnd.oci.image.layer.nondistributable.v1.tar+gzip"
			if docker {
				lmt = rm.MTDockerForeig
			}
			gn.label("foreign-type-layer-hosted-by-source")
		}
		layers = append(layers, gn.desc(lmt, d, len(b.Data), extra...))
		n.Blobs = append(n.Blobs, d)
	}
	for i, a := range n.Blobs {
		for _, b := range n.Blobs[:i] {
			if a == b {
				gn.label("duplicate-layer")
			}
		}
	}
	pairs := []kv{{"schemaVersion", "2"}}
	if !(gn.opt.NoMediaType && !docker && rapid.IntRange(0, 5).Draw(t, label+"_nomt") == 0) {
		pairs = append(pairs, kv{"mediaType", jstr(mtM)})
	} else {
		gn.label("no-mediatype")
	}
	if !docker && subject == "" && emptyCfg && rapid.Bool().Draw(t, label+"_at") {
		at := rapid.SampledFrom([]string{"application/vnd.example.sbom", "application/vnd.example.sig"}).Draw(t, label+"_atv")
		pairs = append(pairs, kv{"artifactType", jstr(at)})
		n.ArtType = at
	}
	if subject != "" {
		at := rapid.SampledFrom([]string{"", "application/vnd.example.sbom", "application/vnd.example.sig"}).Draw(t, label+"_atv")
		if at != "" {
			pairs = append(pairs, kv{"artifactType", jstr(at)})
			n.ArtType = at
		}
	}
	pairs = append(pairs, kv{"config", cfgDesc}, kv{"layers", arr(layers)})
	if subject != "" {
		sd := gn.subjectDesc(subject)
		pairs = append(pairs, kv{"subject", sd})
	}
	if !docker {
		if a := gn.annotations(label + "_ann"); a != nil {
			pairs = append(pairs, kv{"annotations", mapJSON(a)})
			n.Annot = a
		}
	}
	n.Body = []byte(gn.obj(gn.style(), pairs))
	return gn.add(n)
}

func (gn *gen) subjectDesc(subject string) string {
	for _, o := range gn.g.Nodes {
		if o.Digest == subject {
			return gn.desc(o.MediaType, o.Digest, len(o.Body))
		}
	}
	return gn.desc(rm.MTOCIManifest, subject, 123)
}

// artifact generates an OCI artifact manifest (the deprecated artifact media type).
func (gn *gen) artifact(label string, subject string) int {
	t := gn.t
	n := &Node{Kind: "artifact", MediaType: rm.MTOCIArtifact, Subject: subject}
	at := rapid.SampledFrom([]string{"application/vnd.example.sbom", "application/vnd.example.sig"}).Draw(t, label+"_at")
	n.ArtType = at
	nb := rapid.IntRange(0, 2).Draw(t, label+"_nb")
	blobs := []string{}
	for i := 0; i < nb; i++ {
		d := gn.layerBlob(label + "_b")
		blobs = append(blobs, gn.desc("application/octet-stream", d, len(gn.g.Blobs[d].Data)))
		n.Blobs = append(n.Blobs, d)
	}
	pairs := []kv{{"mediaType", jstr(rm.MTOCIArtifact)}, {"artifactType", jstr(at)}, {"blobs", arr(blobs)}}
	if subject != "" {
		pairs = append(pairs, kv{"subject", gn.subjectDesc(subject)})
	}
	if a := gn.annotations(label + "_ann"); a != nil {
		pairs = append(pairs, kv{"annotations", mapJSON(a)})
		n.Annot = a
	}
	n.Body = []byte(gn.obj(gn.style(), pairs))
	gn.label("artifact")
	return gn.add(n)
}

// schema1 generates an unsigned Docker schema1 manifest.
func (gn *gen) schema1(label string) int {
	t := gn.t
	n := &Node{Kind: "schema1", MediaType: rm.MTDocker1}
	nL := rapid.IntRange(1, 3).Draw(t, label+"_nl")
	fs, hist := []string{}, []string{}
	for i := 0; i < nL; i++ {
		d := gn.layerBlob(label + "_l")
		fs = append(fs, `{"blobSum":`+jstr(d)+`}`)
		hist = append(hist, `{"v1Compatibility":`+jstr(fmt.Sprintf(`{"id":"%d","created":"2020-01-01T00:00:00Z"}`, i))+`}`)
		n.Blobs = append(n.Blobs, d)
	}
	name := rapid.SampledFrom([]string{"library/x", "proj/img"}).Draw(t, label+"_name")
	pairs := []kv{{"schemaVersion", "1"}, {"name", jstr(name)}, {"tag", jstr("latest")}, {"architecture", jstr("amd64")},
		{"fsLayers", arr(fs)}, {"history", arr(hist)}}
	n.Body = []byte(gn.obj(style{ws: rapid.IntRange(0, 2).Draw(t, label+"_ws")}, pairs))
	gn.label("schema1")
	return gn.add(n)
}

// manifest generates any single (non-index) manifest.
func (gn *gen) manifest(label string) int {
	k := rapid.IntRange(0, 11).Draw(gn.t, label+"_mk")
	switch {
	case k == 0 && gn.opt.Schema1:
		return gn.schema1(label)
	case k == 1 && gn.opt.Artifacts:
		return gn.artifact(label, "")
	default:
		return gn.image(label, "")
	}
}

// index generates an OCI index / Docker manifest list.
func (gn *gen) index(label string, depth int) int {
	t := gn.t
	docker := rapid.IntRange(0, 3).Draw(t, label+"_docker") == 0
	mt := rm.MTOCIIndex
	if docker {
		mt = rm.MTDocker2List
		gn.label("docker-list")
	}
	n := &Node{Kind: "index", MediaType: mt}
	minE := 0
	if gn.opt.Contention {
		minE = min(2, gn.opt.MaxEntries)
	}
	ne := rapid.IntRange(minE, gn.opt.MaxEntries).Draw(t, label+"_ne")
	entries := []string{}
	for i := 0; i < ne; i++ {
		el := fmt.Sprintf("%s_e%d", label, i)
		if gn.opt.BlobEntries && !docker && rapid.IntRange(0, 9).Draw(t, el+"_blob") == 0 {
			d := gn.layerBlob(el + "_bd")
			bmt := rapid.SampledFrom([]string{rm.MTOCILayerGzip, "application/vnd.example.unknown", "application/octet-stream"}).Draw(t, el+"_bmt")
			entries = append(entries, gn.desc(bmt, d, len(gn.g.Blobs[d].Data)))
			n.Blobs = append(n.Blobs, d)
			gn.label("blob-entry")
			continue
		}
		var cid int
		nestP, reuseP := 4, 6
		if gn.opt.Contention {
			nestP, reuseP = 1, 1
		}
		if depth > 1 && !docker && rapid.IntRange(0, nestP).Draw(t, el+"_nest") == 0 {
			cid = gn.index(el, depth-1)
			gn.label("nested-index")
		} else if len(gn.g.Nodes) > 0 && rapid.IntRange(0, reuseP).Draw(t, el+"_reuse") == 0 {
			cid = rapid.IntRange(0, len(gn.g.Nodes)-1).Draw(t, el+"_reusei")
			if gn.g.Nodes[cid].Subject != "" || (docker && gn.g.Nodes[cid].MediaType != rm.MTDocker2) {
				cid = gn.image(el, "")
			} else {
				gn.label("shared-manifest")
			}
		} else if docker {
			cid = gn.image(el, "")
		} else {
			cid = gn.manifest(el)
		}
		c := gn.g.Nodes[cid]
		if docker && c.MediaType != rm.MTDocker2 {
			// docker lists hold docker images only; keep whatever was generated but as an OCI index instead
			mt = rm.MTOCIIndex
			n.MediaType = mt
			docker = false
		}
		extra := []kv{}
		if rapid.IntRange(0, 4).Draw(t, el+"_plat") != 0 {
			extra = append(extra, kv{"platform", rapid.SampledFrom(platforms).Draw(t, el+"_platv")})
		}
		if a := gn.annotations(el + "_dann"); a != nil && !docker {
			extra = append(extra, kv{"annotations", mapJSON(a)})
		}
		entries = append(entries, gn.desc(c.MediaType, c.Digest, len(c.Body), extra...))
		dup := false
		for _, x := range n.Children {
			if x == cid {
				dup = true
			}
		}
		if !dup {
			n.Children = append(n.Children, cid)
		}
	}
	pairs := []kv{{"schemaVersion", "2"}, {"mediaType", jstr(mt)}, {"manifests", arr(entries)}}
	if !docker {
		if a := gn.annotations(label + "_ann"); a != nil {
			pairs = append(pairs, kv{"annotations", mapJSON(a)})
			n.Annot = a
		}
	}
	n.Body = []byte(gn.obj(gn.style(), pairs))
	gn.label("has-index")
	return gn.add(n)
}

// Gen draws a graph.
func Gen(t *rapid.T, opt Options) *Graph {
	g := &Graph{Blobs: map[string]*Blob{}, Tags: map[string]int{}, External: map[string][]byte{}, ExtHost: opt.ExtHost}
	gn := &gen{t: t, g: g, opt: opt, lab: map[string]bool{}}
	// some unrelated content first (so that reuse has something to pick from)
	if rapid.IntRange(0, 3).Draw(t, "pre") == 0 {
		id := gn.image("pre", "")
		g.Tags["other"] = id
	}
	if opt.MaxDepth > 0 && (opt.Contention || rapid.IntRange(0, 2).Draw(t, "rootkind") != 0) {
		g.Root = gn.index("root", opt.MaxDepth)
	} else {
		g.Root = gn.manifest("root")
	}
	g.Tags["v1"] = g.Root
	if opt.ExtraTags && rapid.IntRange(0, 3).Draw(t, "extratag") == 0 {
		g.Tags["v1-alias"] = g.Root
	}
	closure := g.ManifestClosure(g.Root)
	if opt.Referrers && opt.Artifacts && rapid.IntRange(0, 2).Draw(t, "hasref") == 0 {
		nr := rapid.IntRange(1, 3).Draw(t, "nref")
		for i := 0; i < nr; i++ {
			subj := g.Nodes[rapid.SampledFrom(closure).Draw(t, fmt.Sprintf("refsubj%d", i))].Digest
			var id int
			if rapid.Bool().Draw(t, fmt.Sprintf("refkind%d", i)) {
				id = gn.image(fmt.Sprintf("ref%d", i), subj)
			} else {
				id = gn.artifact(fmt.Sprintf("ref%d", i), subj)
			}
			gn.label("referrers")
			// referrer of a referrer
			if rapid.IntRange(0, 4).Draw(t, fmt.Sprintf("refref%d", i)) == 0 {
				gn.artifact(fmt.Sprintf("refref%d", i), g.Nodes[id].Digest)
				gn.label("referrer-of-referrer")
			}
		}
	}
	if opt.DigestTags && rapid.IntRange(0, 3).Draw(t, "hasdt") == 0 {
		nd := rapid.IntRange(1, 2).Draw(t, "ndt")
		for i := 0; i < nd; i++ {
			tgt := g.Nodes[rapid.SampledFrom(closure).Draw(t, fmt.Sprintf("dtsubj%d", i))]
			if rm.AlgOf(tgt.Digest) != "sha256" {
				continue // "<alg>-<hex>.suffix" of a sha512 digest exceeds the length of a tag
			}
			// what the digest tag names: usually an image of its own, sometimes a manifest the same copy also
			// reaches by digest - a referrer of the target (tools that write both the subject field and the
			// legacy tag) or one of the target index's own children
			id := -1
			switch rapid.IntRange(0, 3).Draw(t, fmt.Sprintf("dtwhat%d", i)) {
			case 0:
				for _, n := range g.Nodes {
					if n.Subject == tgt.Digest {
						id = n.ID
						gn.label("digest-tag-names-referrer")
						break
					}
				}
			case 1:
				if len(tgt.Children) > 0 {
					id = tgt.Children[rapid.IntRange(0, len(tgt.Children)-1).Draw(t, fmt.Sprintf("dtchild%d", i))]
					gn.label("digest-tag-names-own-child")
				}
			}
			if id < 0 {
				id = gn.image(fmt.Sprintf("dt%d", i), "")
			}
			suffix := rapid.SampledFrom([]string{".sig", ".att", ".sbom"}).Draw(t, fmt.Sprintf("dtsuf%d", i))
			g.Tags[strings.Replace(tgt.Digest, ":", "-", 1)+suffix] = id
			gn.label("digest-tags")
		}
	}
	for l := range gn.lab {
		g.Labels = append(g.Labels, l)
	}
	sort.Strings(g.Labels)
	return g
}

// Node lookup by digest (nil if absent).
func (g *Graph) ByDigest(d string) *Node {
	for _, n := range g.Nodes {
		if n.Digest == d {
			return n
		}
	}
	return nil
}

// ManifestClosure returns the node ids reachable from id through index entries (incl. id), in DFS order.
func (g *Graph) ManifestClosure(id int) []int {
	seen := map[int]bool{}
	var out []int
	var walk func(int)
	walk = func(i int) {
		if seen[i] {
			return
		}
		seen[i] = true
		out = append(out, i)
		for _, c := range g.Nodes[i].Children {
			walk(c)
		}
	}
	walk(id)
	return out
}

// Referrers returns the node ids whose subject is digest d.
func (g *Graph) Referrers(d string) []int {
	var out []int
	for _, n := range g.Nodes {
		if n.Subject == d {
			out = append(out, n.ID)
		}
	}
	return out
}

// HasLabel tells whether the generator recorded a label.
func (g *Graph) HasLabel(l string) bool {
	for _, x := range g.Labels {
		if x == l {
			return true
		}
	}
	return false
}

// Shape is a compact signature of the graph (for distinctness keys).
func (g *Graph) Shape() string {
	var sb strings.Builder
	for _, n := range g.Nodes {
		fmt.Fprintf(&sb, "%s%d.%d.%d;", n.Kind[:2], len(n.Children), len(n.Blobs), len(n.Foreign))
	}
	fmt.Fprintf(&sb, "t%d;r%d;%s", len(g.Tags), g.Root, strings.Join(g.Labels, ","))
	return sb.String()
}

// PutRegistry materialises the whole graph raw into a model repository.
// fallbackReferrers writes the referrers fallback tag indexes (needed when the
// host does not implement the referrers API). keep (optional) selects which
// digests to store (nil = all).
func (g *Graph) PutRegistry(h *rm.Host, repo string, fallbackReferrers bool, keep func(digest string) bool) {
	r := h.Repo(repo)
	for d, b := range g.Blobs {
		if keep == nil || keep(d) {
			r.Blobs[d] = b.Data
		}
	}
	for _, n := range g.Nodes {
		if keep == nil || keep(n.Digest) {
			r.Manifests[n.Digest] = &rm.Manifest{MediaType: n.MediaType, Body: n.Body}
		}
	}
	for t, id := range g.Tags {
		d := g.Nodes[id].Digest
		if keep == nil || keep(d) {
			r.Tags[t] = d
		}
	}
	if fallbackReferrers {
		for subj, body := range g.FallbackIndexes() {
			d := rm.Digest("sha256", body)
			r.Manifests[d] = &rm.Manifest{MediaType: rm.MTOCIIndex, Body: body}
			r.Tags[rm.FallbackTag(subj)] = d
		}
	}
}

// FallbackIndexes returns subject digest -> referrers fallback index body.
func (g *Graph) FallbackIndexes() map[string][]byte {
	bySubj := map[string][]*Node{}
	for _, n := range g.Nodes {
		if n.Subject != "" {
			bySubj[n.Subject] = append(bySubj[n.Subject], n)
		}
	}
	out := map[string][]byte{}
	for subj, ns := range bySubj {
		entries := []string{}
		for _, n := range ns {
			pairs := []kv{{"mediaType", jstr(n.MediaType)}, {"digest", jstr(n.Digest)}, {"size", fmt.Sprint(len(n.Body))}}
			if n.ArtType != "" {
				pairs = append(pairs, kv{"artifactType", jstr(n.ArtType)})
			}
			if len(n.Annot) > 0 {
				pairs = append(pairs, kv{"annotations", mapJSON(n.Annot)})
			}
			parts := []string{}
			for _, p := range pairs {
				parts = append(parts, jstr(p.k)+":"+p.v)
			}
			entries = append(entries, "{"+strings.Join(parts, ",")+"}")
		}
		out[subj] = []byte(`{"schemaVersion":2,"mediaType":"` + rm.MTOCIIndex + `","manifests":` + arr(entries) + `}`)
	}
	return out
}

// PutExternal stores the foreign layer bodies on an external model host.
func (g *Graph) PutExternal(h *rm.Host) {
	for p, b := range g.External {
		h.Files[p] = b
	}
}

// LayoutStyle selects how index.json entries are written.
type LayoutStyle struct {
	FullName    string // when set, ref.name is "<FullName>:<tag>" (other tools' style) instead of the bare tag
	Containerd  bool   // add io.containerd.image.name
	UntaggedAll bool   // also list every stored manifest that has no tagged entry as an untagged entry
	Extra       []ExtraEntry
}

// ExtraEntry is an additional tagged manifest written into a layout; it
// replaces any generated entry with the same tag.
type ExtraEntry struct {
	Tag       string
	MediaType string
	Body      []byte
	Blobs     map[string][]byte
}

// PutLayout writes the graph raw as an OCI layout directory: oci-layout,
// index.json and blobs/<alg>/<hex>. Only tagged nodes (plus referrers via
// their fallback tags) become index entries.
func (g *Graph) PutLayout(dir string, st LayoutStyle, keep func(digest string) bool) error {
	if err := os.MkdirAll(filepath.Join(dir, "blobs", "sha256"), 0o777); err != nil {
		return err
	}
	write := func(d string, data []byte) error {
		alg, hx, _ := strings.Cut(d, ":")
		p := filepath.Join(dir, "blobs", alg)
		if err := os.MkdirAll(p, 0o777); err != nil {
			return err
		}
		return os.WriteFile(filepath.Join(p, hx), data, 0o666)
	}
	for d, b := range g.Blobs {
		if keep == nil || keep(d) {
			if err := write(d, b.Data); err != nil {
				return err
			}
		}
	}
	for _, n := range g.Nodes {
		if keep == nil || keep(n.Digest) {
			if err := write(n.Digest, n.Body); err != nil {
				return err
			}
		}
	}
	entries := []string{}
	tags := make([]string, 0, len(g.Tags))
	for t := range g.Tags {
		tags = append(tags, t)
	}
	sort.Strings(tags)
	replaced := map[string]bool{}
	for _, x := range st.Extra {
		replaced[x.Tag] = true
	}
	listed := map[string]bool{}
	for _, t := range tags {
		n := g.Nodes[g.Tags[t]]
		if keep != nil && !keep(n.Digest) {
			continue
		}
		if replaced[t] {
			continue
		}
		listed[n.Digest] = true
		name := t
		if st.FullName != "" {
			name = st.FullName + ":" + t
		}
		ann := map[string]string{"org.opencontainers.image.ref.name": name}
		if st.Containerd {
			ann["io.containerd.image.name"] = "docker.io/" + st.FullName + ":" + t
		}
		entries = append(entries, fmt.Sprintf(`{"mediaType":%s,"digest":%s,"size":%d,"annotations":%s}`, jstr(n.MediaType), jstr(n.Digest), len(n.Body), mapJSON(ann)))
	}
	fb := g.FallbackIndexes()
	subjs := make([]string, 0, len(fb))
	for s := range fb {
		subjs = append(subjs, s)
	}
	sort.Strings(subjs)
	for _, subj := range subjs {
		body := fb[subj]
		d := rm.Digest("sha256", body)
		if err := write(d, body); err != nil {
			return err
		}
		ann := map[string]string{"org.opencontainers.image.ref.name": rm.FallbackTag(subj)}
		entries = append(entries, fmt.Sprintf(`{"mediaType":%s,"digest":%s,"size":%d,"annotations":%s}`, jstr(rm.MTOCIIndex), jstr(d), len(body), mapJSON(ann)))
	}
	for _, x := range st.Extra {
		d := rm.Digest("sha256", x.Body)
		if err := write(d, x.Body); err != nil {
			return err
		}
		for bd, b := range x.Blobs {
			if err := write(bd, b); err != nil {
				return err
			}
		}
		listed[d] = true
		entries = append(entries, fmt.Sprintf(`{"mediaType":%s,"digest":%s,"size":%d,"annotations":%s}`, jstr(x.MediaType), jstr(d), len(x.Body),
			mapJSON(map[string]string{"org.opencontainers.image.ref.name": x.Tag})))
	}
	if st.UntaggedAll {
		for _, n := range g.Nodes {
			if (keep == nil || keep(n.Digest)) && !listed[n.Digest] {
				listed[n.Digest] = true
				entries = append(entries, fmt.Sprintf(`{"mediaType":%s,"digest":%s,"size":%d}`, jstr(n.MediaType), jstr(n.Digest), len(n.Body)))
			}
		}
	}
	if err := os.WriteFile(filepath.Join(dir, "oci-layout"), []byte(`{"imageLayoutVersion":"1.0.0"}`), 0o666); err != nil {
		return err
	}
	idx := `{"schemaVersion":2,"mediaType":"` + rm.MTOCIIndex + `","manifests":` + arr(entries) + `}`
	return os.WriteFile(filepath.Join(dir, "index.json"), []byte(idx), 0o666)
}

// AllDigests returns every blob and manifest digest of the graph, sorted.
func (g *Graph) AllDigests() []string {
	out := []string{}
	for d := range g.Blobs {
		out = append(out, d)
	}
	for _, n := range g.Nodes {
		if _, dup := g.Blobs[n.Digest]; !dup {
			out = append(out, n.Digest)
		}
	}
	sort.Strings(out)
	return out
}
