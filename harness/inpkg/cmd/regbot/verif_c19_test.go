//go:build c19

package main

// C19 — a dry run of the scripting tool changes nothing. See /verif/DESIGN.md
// "### C19". Generator, world, monitor and oracle are in
// /verif/harness/c19 (package zz_verif/c19); this file adds the driver that
// needs package main — the real `regbot once [--dry-run] -c <yaml>` cobra
// command against the model registries served over loopback — and the tests.

import (
	"bufio"
	"bytes"
	"context"
	"encoding/json"
	"fmt"
	"io"
	"net/http"
	"net/http/httptest"
	"net/url"
	"os"
	"path/filepath"
	"sort"
	"strings"
	"sync"
	"sync/atomic"
	"testing"
	"time"

	"pgregory.net/rapid"

	"github.com/regclient/regclient/zz_verif/c19"
	"github.com/regclient/regclient/zz_verif/evid"
	rm "github.com/regclient/regclient/zz_verif/regmodel"
)

const c19Prop = "C19"

func TestMain(m *testing.M) {
	// hermetic: no user docker config, no credential helpers
	if home, err := os.MkdirTemp("", "c19-home-"); err == nil {
		os.Setenv("HOME", home)
		os.Setenv("DOCKER_CONFIG", filepath.Join(home, "docker"))
	}
	code := m.Run()
	evid.Flush(code)
	os.Exit(code)
}

// ---------------------------------------------------------------- loopback

var (
	c19Mu      sync.Mutex
	c19Servers = map[string]*httptest.Server{}
	c19Model   atomic.Pointer[http.RoundTripper]
)

// c19Server returns the process-wide loopback server that stands for one model
// host: every request becomes a RoundTrip on the current model with the model
// host name as URL host.
func c19Server(name string) *httptest.Server {
	c19Mu.Lock()
	defer c19Mu.Unlock()
	if s, ok := c19Servers[name]; ok {
		return s
	}
	s := httptest.NewServer(http.HandlerFunc(func(w http.ResponseWriter, r *http.Request) {
		m := c19Model.Load()
		if m == nil {
			http.Error(w, "no model", http.StatusServiceUnavailable)
			return
		}
		body, err := io.ReadAll(r.Body)
		if err != nil {
			http.Error(w, err.Error(), http.StatusBadRequest)
			return
		}
		u := &url.URL{Scheme: "http", Host: name, Path: r.URL.Path, RawQuery: r.URL.RawQuery}
		req, err := http.NewRequestWithContext(r.Context(), r.Method, u.String(), bytes.NewReader(body))
		if err != nil {
			http.Error(w, err.Error(), http.StatusBadRequest)
			return
		}
		req.Header = r.Header.Clone()
		resp, err := (*m).RoundTrip(req)
		if err != nil {
			http.Error(w, err.Error(), http.StatusBadGateway)
			return
		}
		defer resp.Body.Close()
		for k, vs := range resp.Header {
			for _, v := range vs {
				w.Header().Add(k, v)
			}
		}
		w.WriteHeader(resp.StatusCode)
		if r.Method != "HEAD" {
			_, _ = io.Copy(w, resp.Body)
		}
	}))
	c19Servers[name] = s
	return s
}

// c19Cobra drives the real cobra command. stderr (where rootPreRun points the
// logger) is a file for the duration of the command.
func c19Cobra(ctx context.Context, w *c19.World, c c19.Case, dry bool) (out c19.CobraOut, infra error) {
	addr := map[string]string{}
	for _, hc := range c.Hosts {
		addr[hc.Name] = strings.TrimPrefix(c19Server(hc.Name).URL, "http://")
	}
	addr[c19.ProbeHost] = strings.TrimPrefix(c19Server(c19.ProbeHost).URL, "http://")
	rt := w.Transport()
	c19Model.Store(&rt)
	defer func() {
		c19Model.Store(nil)
		c19Mu.Lock()
		for _, s := range c19Servers {
			s.CloseClientConnections()
		}
		c19Mu.Unlock()
	}()
	conf := filepath.Join(w.Scratch, "regbot.yml")
	if err := os.WriteFile(conf, []byte(c19.ConfigYAML(c, w.Root, addr)), 0o600); err != nil {
		return out, err
	}
	logPath := filepath.Join(w.Scratch, "stderr.log")
	lf, err := os.Create(logPath)
	if err != nil {
		return out, err
	}
	confArg := conf
	savedIn := os.Stdin
	if c.Conf.Stdin {
		in, err := os.Open(conf)
		if err != nil {
			return out, err
		}
		defer in.Close()
		os.Stdin = in
		confArg = "-"
	}
	defer func() { os.Stdin = savedIn }()
	verb := c.Verbosity
	if verb == "" {
		verb = "info"
	}
	// the spellings / orders of the same command line
	var args []string
	switch c.Conf.ArgStyle {
	case 1:
		args = []string{"--logopt", "json", "-v", verb, "once"}
		if dry {
			args = append(args, "--dry-run")
		}
		args = append(args, "--config", confArg)
	case 2:
		args = []string{"once", "--config=" + confArg, "--verbosity=" + verb, "--logopt=json"}
		if dry {
			args = append(args, "--dry-run=true")
		} else {
			args = append(args, "--dry-run=false")
		}
	default:
		args = []string{"once", "-c", confArg, "--logopt", "json", "-v", verb}
		if dry {
			args = append(args, "--dry-run")
		}
	}
	_ = rm.MTOCIIndex
	saved := os.Stderr
	os.Stderr = lf
	func() {
		defer func() {
			if p := recover(); p != nil {
				out.Panic = fmt.Sprint(p)
			}
		}()
		cmd, opts := NewRootCmd()
		cmd.SetArgs(args)
		cmd.SetOut(io.Discard)
		cmd.SetErr(io.Discard)
		cctx, cancel := context.WithTimeout(ctx, 170*time.Second)
		defer cancel()
		out.CmdErr = cmd.ExecuteContext(cctx)
		// white box: the command returned, no script is running any more, so the
		// throttle loadConf built must have every slot free
		if opts.throttle != nil && opts.conf != nil {
			out.ThrottleMax = opts.conf.Defaults.Parallel
			if out.ThrottleMax <= 0 {
				out.ThrottleMax = 1
			}
			out.ThrottleFree = c19.Drain(opts.throttle, out.ThrottleMax)
		}
	}()
	os.Stderr = saved
	lf.Close()
	f, err := os.Open(logPath)
	if err != nil {
		return out, err
	}
	defer f.Close()
	sc := bufio.NewScanner(f)
	sc.Buffer(make([]byte, 1<<20), 64<<20)
	for sc.Scan() {
		var m map[string]any
		if json.Unmarshal(sc.Bytes(), &m) != nil {
			continue
		}
		rec := c19.LogRec{Attrs: map[string]string{}}
		for k, v := range m {
			s, ok := v.(string)
			if !ok {
				s = fmt.Sprint(v)
			}
			switch k {
			case "level":
				rec.Level = s
			case "msg":
				rec.Msg = s
			case "time":
			default:
				rec.Attrs[k] = s
			}
		}
		out.Recs = append(out.Recs, rec)
	}
	return out, sc.Err()
}

// ---------------------------------------------------------------- tests

// c19Eval runs the check; harness failures are inconclusive (test failure
// without a failure record), never violations.
func c19Eval(t interface{ Fatalf(string, ...any) }, c c19.Case, ev *evid.Collector) *evid.Violation {
	var infra *c19.Infra
	v := evid.Guard(func() *evid.Violation {
		vv, inf := c19.Check(c, ev, c19Cobra)
		infra = inf
		return vv
	})
	if infra != nil {
		evid.Flush(2)
		if infra.Err == c19.ErrWatchdog {
			// a stuck run leaves goroutines behind and shrinking it would take the
			// watchdog time over and over: stop this shard (exit 2 = inconclusive)
			b, _ := json.Marshal(c)
			fmt.Fprintf(os.Stderr, "INCONCLUSIVE %v; case: %s\n", infra, b)
			os.Exit(2)
		}
		t.Fatalf("INCONCLUSIVE harness failure (not a violation): %v", infra)
	}
	return v
}

func TestVerifProp(t *testing.T) {
	ev := evid.For(c19Prop)
	rapid.Check(t, func(rt *rapid.T) {
		c := c19.Gen(rt)
		v := c19Eval(rt, c, ev)
		if ev.Report(v, c) {
			rt.Fatalf("%v", v)
		}
	})
}

func TestVerifReplayDir(t *testing.T) {
	ev := evid.For(c19Prop)
	for _, f := range evid.ReplayFiles() {
		var c c19.Case
		if err := evid.LoadCaseFile(f, &c); err != nil {
			t.Fatalf("%s: %v", f, err)
		}
		v := c19Eval(t, c, ev)
		if ev.Report(v, c) {
			t.Errorf("%s: %v", f, v)
		}
	}
}

func TestVerifReplay(t *testing.T) {
	ev := evid.For(c19Prop)
	var c c19.Case
	ok, err := evid.LoadReplay(&c)
	if !ok {
		t.Skip("no VERIF_REPLAY")
	}
	if err != nil {
		t.Fatal(err)
	}
	// the replay reports what it finds even when the signature is a known finding
	vv, inf := c19.Check(c, nil, c19Cobra)
	if inf != nil {
		t.Fatalf("INCONCLUSIVE harness failure (not a violation): %v", inf)
	}
	if vv != nil {
		t.Logf("replay outcome: %v", vv)
	}
	v := c19Eval(t, c, ev)
	if v == nil && vv != nil && ev.IsKnown(vv.Sig) {
		t.Logf("signature %s is listed as a known finding", vv.Sig)
	}
	if ev.Report(v, c) {
		t.Fatalf("%v", v)
	}
}

// TestVerifSanity checks the harness itself so that a silent break of the
// generator or the monitor cannot turn the property run vacuous. Failures here
// are inconclusive (no failure record is written), not violations.
//
//  1. the set of Lua functions a live sandbox registers equals the table the
//     generator was written from (a new binding must be added to the generator);
//  2. the listing oracle sees creations, removals, content changes and
//     same-bytes rewrites;
//  3. generated scripts run in NORMAL mode: statements labelled read-only change
//     nothing, and every mutating binding does change a registry / a layout in a
//     good share of the statements that call it (so the dry-run clause is not
//     satisfied trivially by calls that would not have done anything anyway).
func TestVerifSanity(t *testing.T) {
	ev := evid.For(c19Prop)
	// 1
	got, err := c19.EnumBindings()
	if err != nil {
		t.Fatalf("INCONCLUSIVE: enumeration script failed: %v", err)
	}
	have := map[string]bool{}
	for _, b := range got {
		have[b] = true
		if _, ok := c19.Bindings[b]; !ok {
			t.Errorf("INCONCLUSIVE: the sandbox registers %q which the generator does not know", b)
		}
	}
	for b := range c19.Bindings {
		if !have[b] {
			t.Errorf("INCONCLUSIVE: the generator knows %q which the sandbox does not register", b)
		}
	}
	ev.Set("sandbox_bindings_enumerated", fmt.Sprint(len(got)))
	// 2
	c19SnapshotSelfTest(t)
	if t.Failed() {
		return
	}
	// 3
	reached := map[string]int{}
	effective := map[string]int{}
	called := map[string]int{}
	nCases := 0
	rapid.Check(t, func(rt *rapid.T) {
		nCases++
		c := c19.Gen(rt)
		c.Mode, c.ReadOnly = "direct", false
		w, err := c19.Setup(c)
		if w != nil {
			defer w.Close()
		}
		if err != nil {
			rt.Fatalf("INCONCLUSIVE: setup: %v", err)
		}
		obs, err := c19.Run(w, c, false, nil)
		if err != nil {
			rt.Fatalf("INCONCLUSIVE: run: %v", err)
		}
		hit := map[[2]int]bool{}
		for _, o := range obs.Offenses {
			hit[[2]int{o.Script, o.Stmt}] = true
		}
		for si, s := range c.Scripts {
			last := obs.ProbeReached[si] // (the probes do not depend on the log level)
			for k, st := range s.Stmts {
				if k > last {
					break
				}
				for _, cl := range st.Calls {
					called[cl]++
				}
				if st.Mut == "" {
					if hit[[2]int{si, k}] {
						rt.Fatalf("INCONCLUSIVE: a statement the generator labels read-only changed state in a normal run:\n%s\noffenses: %+v", st.Lua, obs.Offenses)
					}
					continue
				}
				reached[st.Mut]++
				if hit[[2]int{si, k}] {
					effective[st.Mut]++
				}
				for _, a := range st.Args {
					if strings.HasSuffix(a, ":target-digest=matching") {
						reached[a]++
						if hit[[2]int{si, k}] {
							effective[a]++
						}
					}
				}
			}
		}
	})
	keys := []string{}
	for k := range reached {
		keys = append(keys, k)
	}
	sort.Strings(keys)
	for _, k := range keys {
		ev.Add("sanity_normal_run_reached:"+k, reached[k])
		ev.Add("sanity_normal_run_changed_state:"+k, effective[k])
		t.Logf("normal run: %-18s reached %4d  changed state %4d", k, reached[k], effective[k])
	}
	for _, b := range []string{"image.copy", "tag.delete", "manifest:delete", "manifest.put", "blob.put", "image.importTar",
		"manifest.put:target-digest=matching", "image.copy:target-digest=matching"} {
		if effective[b] == 0 && reached[b] >= 12 {
			t.Errorf("INCONCLUSIVE: no generated %s statement changed state in a normal run (%d reached): the generator is too weak", b, reached[b])
		}
	}
	for b := range c19.Bindings {
		if b != "log" && called[b] == 0 && nCases >= 250 {
			t.Errorf("INCONCLUSIVE: binding %s was never called by a generated statement that ran", b)
		}
	}
}

func c19SnapshotSelfTest(t *testing.T) {
	w := &c19.World{}
	root, err := os.MkdirTemp("", "c19-self-")
	if err != nil {
		t.Fatalf("INCONCLUSIVE: %v", err)
	}
	defer os.RemoveAll(root)
	w.Root, w.LayRoot = root, filepath.Join(root, "lay")
	must := func(err error) {
		if err != nil {
			t.Fatalf("INCONCLUSIVE: %v", err)
		}
	}
	must(os.MkdirAll(filepath.Join(w.LayRoot, "l", "blobs"), 0o777))
	must(os.WriteFile(filepath.Join(w.LayRoot, "l", "index.json"), []byte("abc"), 0o666))
	must(os.WriteFile(filepath.Join(w.LayRoot, "l", "blobs", "x"), []byte("xyz"), 0o666))
	must(os.WriteFile(filepath.Join(w.LayRoot, "l", "blobs", "y"), []byte("xyz"), 0o666))
	must(w.Age())
	a, err := w.Snapshot(nil)
	must(err)
	if b, _ := w.Snapshot(a); len(c19.Diff(a, b)) != 0 {
		t.Fatalf("INCONCLUSIVE: listing not stable: %v", c19.Diff(a, b))
	}
	must(os.WriteFile(filepath.Join(w.LayRoot, "l", "index.json"), []byte("abc"), 0o666)) // same bytes
	must(os.WriteFile(filepath.Join(w.LayRoot, "l", "blobs", "x"), []byte("xyZ"), 0o666)) // same size
	must(os.Remove(filepath.Join(w.LayRoot, "l", "blobs", "y")))
	must(os.MkdirAll(filepath.Join(w.LayRoot, "n"), 0o777))
	b, err := w.Snapshot(a)
	must(err)
	want := map[string]string{"l/index.json": "rewritten-identical", "l/blobs/x": "content-modified", "l/blobs/y": "removed", "n": "created"}
	gotm := map[string]string{}
	for _, ch := range c19.Diff(a, b) {
		gotm[ch.Path] = ch.What
	}
	for p, wv := range want {
		if gotm[p] != wv {
			t.Fatalf("INCONCLUSIVE: listing oracle: %s reported as %q, want %q (all: %v)", p, gotm[p], wv, gotm)
		}
	}
	if len(gotm) != len(want) {
		t.Fatalf("INCONCLUSIVE: listing oracle reported extra differences: %v", gotm)
	}
}
