//go:build c20

package main

// C20 — remote or archive content never causes writes outside the chosen
// directory. See /verif/DESIGN.md "### C20".
//
// Every test flushes the evidence shard itself (no TestMain is defined so that
// the file can never clash with another TestMain in this package).

import (
	"bytes"
	"context"
	"encoding/json"
	"fmt"
	"os"
	"path/filepath"
	"sort"
	"strings"
	"sync"
	"testing"

	"pgregory.net/rapid"

	"github.com/regclient/regclient"
	"github.com/regclient/regclient/pkg/archive"
	"github.com/regclient/regclient/scheme/ocidir"
	"github.com/regclient/regclient/types"
	"github.com/regclient/regclient/types/blob"
	"github.com/regclient/regclient/types/ref"
	"github.com/regclient/regclient/zz_verif/evid"
)

const c20Prop = "C20"

var c20EnvOnce sync.Once

// c20Env makes the in-process regctl hermetic: no user config, no docker creds.
func c20Env() {
	c20EnvOnce.Do(func() {
		home, err := os.MkdirTemp("", "c20-home-")
		if err != nil {
			panic(err)
		}
		os.Setenv("HOME", home)
		os.Setenv("REGCTL_CONFIG", filepath.Join(home, "regctl-config.json"))
		os.Setenv("DOCKER_CONFIG", filepath.Join(home, "docker"))
	})
}

// c20Run carries the state of one check evaluation.
type c20Run struct {
	c      c20Case
	g      *c20Guard
	ev     *evid.Collector
	snap   c20Snap
	labels []string
	viol   *evid.Violation // first violation that is not a known finding
}

func (r *c20Run) label(l string) { r.labels = append(r.labels, l) }

// spell renders a designated directory the way the case's path form says the
// user wrote it (relative forms are relative to the working directory, which
// c20Check has set to G).
func (r *c20Run) spell(abs string) string {
	switch r.c.PathForm {
	case "slash":
		return abs + "/"
	case "rel", "reldot":
		rel, err := filepath.Rel(r.g.G, abs)
		c20Must(err)
		if r.c.PathForm == "reldot" {
			return "./" + rel
		}
		return rel
	}
	return abs
}

// fail records a violation; known findings are counted and the run goes on.
func (r *c20Run) fail(v *evid.Violation) {
	if r.ev.IsKnown(v.Sig) {
		r.ev.Report(v, r.c)
		r.label("known:" + v.Sig)
		return
	}
	if r.viol == nil {
		r.viol = v
	}
}

// begin takes the "before" listing (after ageing every mtime).
func (r *c20Run) begin() {
	r.g.age()
	r.snap = r.g.snapshot()
}

// step applies the listing oracle to everything that happened since the
// previous listing and attributes it to opName.
func (r *c20Run) step(opName, detail string) {
	after := r.g.snapshot()
	effs := r.g.diff(r.snap, after)
	r.snap = after
	if len(effs) == 0 {
		return
	}
	// one violation per effect kind, worst first
	seen := map[string]bool{}
	worst := c20Worst(effs)
	for _, e := range append([]c20Effect{worst}, effs...) {
		k := e.Kind
		if k == "modified-outside" && (seen["removed-outside"] || seen["created-outside"]) {
			continue // parent directory mtime of a removal / creation already reported
		}
		if seen[k] {
			continue
		}
		seen[k] = true
		r.fail(evid.V(opName+"-"+k, "%s: %s\nguard=%s allowed=%v\nall differences:\n%s", opName, detail, r.g.G, r.g.Allowed, c20EffString(effs)))
	}
}

// returned applies the read oracle to bytes handed back by an operation.
func (r *c20Run) returned(opName, detail string, outs ...[]byte) {
	for _, b := range outs {
		if bytes.Contains(b, []byte(c20Marker)) {
			r.fail(evid.V(opName+"-secret-returned", "%s: %s returned %d bytes that contain the content of a secret file outside the designated directory", opName, detail, len(b)))
			return
		}
	}
}

func c20Literal(s string) bool {
	return s != "" && !strings.HasPrefix(s, "$") && !strings.HasPrefix(s, "#")
}

// ------------------------------------------------------------------- surfaces

func (r *c20Run) runExtract() {
	x := r.c.Extract
	g := r.g
	dst := g.Out
	if x.Sub != "" {
		dst = filepath.Join(g.Out, x.Sub)
		c20Must(os.MkdirAll(dst, 0o755))
		g.Allowed = []string{dst}
	}
	var data []byte
	if len(x.Raw) > 0 {
		data = x.Raw
	} else {
		ents := make([]c20TarEnt, len(x.Ents))
		for i, e := range x.Ents {
			e.Name, e.Link = g.expand(e.Name), g.expand(e.Link)
			ents[i] = e
		}
		data = c20BuildTar(ents, x.Gzip)
		if x.Zstd && !x.Gzip {
			data = c20Zstd(data)
		}
	}
	var topts []archive.TarOpts
	if x.TarOpt {
		topts = append(topts, archive.TarCompressGzip)
	}
	r.begin()
	err, pan := c20Call(func() error { return archive.Extract(context.Background(), r.spell(dst), bytes.NewReader(data), topts...) })
	r.outcome("archive-extract", err, pan)
	if _, e := os.Lstat(filepath.Join(dst, "ctl")); e == nil {
		r.label("extract:control-file-written")
	}
	r.step("archive-extract", fmt.Sprintf("archive.Extract(%q, tar%s) err=%v", r.spell(dst), c20EntNames(x.Ents), err))
	if x.ReadFile != "" {
		name := g.expand(x.ReadFile)
		var got []byte
		err, pan := c20Call(func() error {
			tr := blob.NewTarReader(blob.WithReader(bytes.NewReader(data)))
			_, rd, err := tr.ReadFile(name)
			if err != nil {
				return err
			}
			got = c20ReadAll(rd)
			return nil
		})
		r.outcome("tar-readfile", err, pan)
		r.returned("tar-readfile", fmt.Sprintf("ReadFile(%q)", name), got)
		r.step("tar-readfile", fmt.Sprintf("BTarReader.ReadFile(%q)", name))
	}
}

func c20EntNames(ents []c20TarEnt) string {
	var sb strings.Builder
	sb.WriteString("[")
	for i, e := range ents {
		if i > 0 {
			sb.WriteString(", ")
		}
		n, l := e.Name, e.Link
		if len(n) > 80 {
			n = n[:80] + "…"
		}
		if len(l) > 80 {
			l = l[:80] + "…"
		}
		fmt.Fprintf(&sb, "%s %q", e.Type, n)
		if l != "" {
			fmt.Fprintf(&sb, "->%q", l)
		}
	}
	sb.WriteString("]")
	return sb.String()
}

// c20Call runs f, converting a panic into a string (a panic is an error
// outcome for this property, not an effect on the file system).
func c20Call(f func() error) (err error, panicked string) {
	defer func() {
		if p := recover(); p != nil {
			if inf, ok := p.(c20Infra); ok {
				panic(inf)
			}
			panicked = fmt.Sprint(p)
		}
	}()
	return f(), ""
}

func (r *c20Run) outcome(op string, err error, panicked string) {
	switch {
	case panicked != "":
		r.label("op:" + op + ":panic")
	case err != nil:
		r.label("op:" + op + ":error")
	default:
		r.label("op:" + op + ":ok")
	}
}

func (r *c20Run) runLayout() {
	l := r.c.Lay
	g := r.g
	w := c20BuildWorld(g, l.Spec)
	w.cancelled = r.c.Ctx == "cancelled"
	if !l.Empty {
		w.materialise(g.Out)
	}
	rc := regclient.New()
	var o *ocidir.OCIDir
	if l.NoGC {
		o = ocidir.New(ocidir.WithGC(false))
	} else {
		o = ocidir.New()
	}
	r.begin()
	for i, op := range l.Ops {
		res := w.runOp(op, r.spell(g.Out), rc, o)
		name := strings.ReplaceAll(op.Op, ".", "-")
		if op.Op == "manifest.delete" && op.Man != "" {
			name += "-withmanifest"
		}
		if res.Skipped {
			r.label("op-skipped:" + op.Op)
		} else {
			r.outcome(name, res.Err, res.Panicked)
		}
		detail := fmt.Sprintf("op #%d %s via %s ref{how=%s tag=%q digest=%q} desc.digest=%q man=%q/%s flag=%v -> err=%v panic=%q",
			i, op.Op, op.Via, op.Ref.How, g.expand(op.Ref.Tag), w.digest(op.Ref.Dig), w.digest(op.Desc.Dig), op.Man, op.ManHow, op.Flag, res.Err, res.Panicked)
		r.returned(name, detail, res.Out...)
		if res.Err != nil {
			r.returned(name+"-error-text", detail, []byte(res.Err.Error()))
		}
		// a head/get that succeeds through a literal (non-token) digest and reports the
		// size of a secret file has opened a path outside the layout
		if res.Err == nil && (c20Literal(op.Ref.Dig) || c20Literal(op.Desc.Dig)) && !(op.Op == "blob.head" && op.Desc.Size != 0) {
			for _, sz := range res.Sizes {
				if sz == c20SecretSize || sz == c20SecretManSize {
					r.fail(evid.V(name+"-outside-stat", "%s reported size %d, the size of a secret file outside the layout", detail, sz))
				}
			}
		}
		r.step(name, detail)
	}
}

// mkRefOn builds a registry reference from untrusted tag / digest strings.
func (w *c20World) mkRegRef(host, repo string, s c20RefSpec) (ref.Ref, error) {
	base, err := ref.New(host + "/" + repo)
	if err != nil {
		return base, err
	}
	tag, dig := w.g.expand(s.Tag), w.digest(s.Dig)
	switch s.How {
	case "settag":
		return base.SetTag(tag), nil
	case "setdigest":
		return base.SetDigest(dig), nil
	case "adddigest":
		return base.SetTag(tag).AddDigest(dig), nil
	case "struct":
		return ref.Ref{Scheme: "reg", Reference: host + "/" + repo, Registry: host, Repository: repo, Tag: tag, Digest: dig}, nil
	case "parse":
		str := host + "/" + repo
		if tag != "" {
			str += ":" + tag
		}
		if dig != "" {
			str += "@" + dig
		}
		return ref.New(str)
	}
	return base.SetTag("latest"), nil
}

func (r *c20Run) runCopy() {
	c := r.c.Copy
	g := r.g
	w := c20BuildWorld(g, c.Spec)
	w.cancelled = r.c.Ctx == "cancelled"
	reg := c20Registry()
	rc := regclient.New(reg.rcOpts()...)
	var src ref.Ref
	var err error
	if c.Src == "ocidir" {
		w.materialise(g.Src)
		g.Allowed = append(g.Allowed, g.Src)
		src, err = w.mkRef(r.spell(g.Src), c.SrcRef)
	} else {
		repo := reg.addRepo(&c20Repo{w: w, anyBlob: c.AnyBlob, hdrDig: g.expand(c.HdrDig)})
		defer reg.remove(repo)
		src, err = w.mkRegRef(reg.host, repo, c.SrcRef)
	}
	if err != nil {
		r.label("op-skipped:copy-src-ref")
		r.begin()
		return
	}
	if c.DstPop {
		c20BuildWorld(g, c20Layout{}).materialise(g.Out)
	}
	dst, err := w.mkRef(r.spell(g.Out), c.DstRef)
	if err != nil {
		r.label("op-skipped:copy-dst-ref")
		r.begin()
		return
	}
	name := map[string]string{"copy": "image-copy", "export-import": "export-import", "blobcopy": "blob-copy"}[c.Mode] + "-from-" + c.Src
	detail := fmt.Sprintf("%s src=%s{tag=%q digest=%q} dst{how=%s tag=%q digest=%q} desc=%q", c.Mode, c.Src, src.Tag, src.Digest, c.DstRef.How, dst.Tag, dst.Digest, w.digest(c.Desc.Dig))
	r.begin()
	var outs [][]byte
	ctx, cancel := w.ctx()
	defer cancel()
	cb := func(kind types.CallbackKind, instance string, state types.CallbackState, cur, total int64) {}
	err, pan := c20Call(func() error {
		switch c.Mode {
		case "copy":
			var opts []regclient.ImageOpts
			if c.Refs {
				opts = append(opts, regclient.ImageWithReferrers())
			}
			if c.DigTags {
				opts = append(opts, regclient.ImageWithDigestTags())
			}
			if c.Force {
				opts = append(opts, regclient.ImageWithForceRecursive())
			}
			if c.Platforms {
				opts = append(opts, regclient.ImageWithPlatforms([]string{"linux/amd64"}))
			}
			if c.Child {
				opts = append(opts, regclient.ImageWithChild())
			}
			if c.Fast {
				opts = append(opts, regclient.ImageWithFastCheck())
			}
			if c.Callback {
				opts = append(opts, regclient.ImageWithCallback(cb))
			}
			return rc.ImageCopy(ctx, src, dst, opts...)
		case "export-import":
			var buf bytes.Buffer
			var eo []regclient.ImageOpts
			if c.ExportGz {
				eo = append(eo, regclient.ImageWithExportCompress())
			}
			if err := c20Export(rc, ctx, src, &buf, eo); err != nil {
				outs = append(outs, buf.Bytes())
				return err
			}
			outs = append(outs, buf.Bytes())
			return rc.ImageImport(ctx, dst, bytes.NewReader(buf.Bytes()))
		default:
			if c.Callback {
				return rc.BlobCopy(ctx, src, dst, w.mkDesc(c.Desc), regclient.BlobWithCallback(cb))
			}
			return rc.BlobCopy(ctx, src, dst, w.mkDesc(c.Desc))
		}
	})
	r.outcome(name, err, pan)
	r.returned(name, detail, outs...)
	r.step(name, fmt.Sprintf("%s -> err=%v panic=%q", detail, err, pan))
	_, _ = c20Call(func() error { _ = rc.Close(ctx, dst); return rc.Close(ctx, src) })
	r.step(name+"-close", detail)
}

func (r *c20Run) runImport() {
	im := r.c.Import
	g := r.g
	w := c20BuildWorld(g, im.Spec)
	w.cancelled = r.c.Ctx == "cancelled"
	var ents []c20TarEnt
	extra := make([]c20TarEnt, len(im.Extra))
	for i, e := range im.Extra {
		e.Name, e.Link = w.expandTokens(e.Name), w.expandTokens(e.Link)
		extra[i] = e
	}
	if im.ExtraFirst {
		ents = append(ents, extra...)
	}
	add := func(name string, body []byte) {
		ents = append(ents, c20TarEnt{Name: im.Prefix + name, Type: "reg", Mode: 0o644, Body: string(body), Fmt: "pax"})
	}
	if !im.OmitLayout {
		add("oci-layout", []byte(`{"imageLayoutVersion":"1.0.0"}`))
	}
	if !im.OmitIndex {
		add("index.json", w.indexJSON())
	}
	if im.Docker != nil {
		dm := []map[string]any{{"Config": w.expandTokens(im.Docker.Config), "RepoTags": im.Docker.RepoTags, "Layers": func() []string {
			out := []string{}
			for _, l := range im.Docker.Layers {
				out = append(out, w.expandTokens(l))
			}
			return out
		}()}}
		b, err := json.Marshal(dm)
		c20Must(err)
		add("manifest.json", b)
		// docker style members for benign names
		add("cfg.json", c20BlobC)
		add("layer.tar", c20BuildTar([]c20TarEnt{{Name: "etc/c20", Type: "reg", Size: 9, Mode: 0o644}}, false))
	}
	for _, d := range w.sortedDigests() {
		if len(w.blobs[d]) == 0 {
			continue
		}
		add(filepath.ToSlash(c20BlobPath(d)), w.blobs[d])
	}
	if im.Reverse {
		// blobs first, index.json / oci-layout last: the importer has to rescan the archive
		for i, j := 0, len(ents)-1; i < j; i, j = i+1, j-1 {
			ents[i], ents[j] = ents[j], ents[i]
		}
	}
	if !im.ExtraFirst {
		ents = append(ents, extra...)
	}
	data := c20BuildTar(ents, im.Gzip)
	if im.Zstd && !im.Gzip {
		data = c20Zstd(data)
	}
	if im.DstPop {
		w.materialise(g.Out)
	}
	dst, err := w.mkRef(r.spell(g.Out), im.Ref)
	if err != nil {
		r.label("op-skipped:import-ref")
		r.begin()
		return
	}
	rc := regclient.New()
	var opts []regclient.ImageOpts
	if im.ImportName != "" {
		opts = append(opts, regclient.ImageWithImportName(g.expand(im.ImportName)))
	}
	r.begin()
	ctx, cancel := w.ctx()
	defer cancel()
	err, pan := c20Call(func() error { return rc.ImageImport(ctx, dst, bytes.NewReader(data), opts...) })
	r.outcome("image-import", err, pan)
	detail := fmt.Sprintf("ImageImport(ref{how=%s tag=%q digest=%q}, tar of %d members, docker=%v) -> err=%v panic=%q", im.Ref.How, dst.Tag, dst.Digest, len(ents), im.Docker != nil, err, pan)
	if err != nil {
		r.returned("image-import-error-text", detail, []byte(err.Error()))
	}
	r.step("image-import", detail)
	_, _ = c20Call(func() error { return rc.Close(ctx, dst) })
	r.step("image-import-close", detail)
}

func (r *c20Run) runArtifact() {
	a := r.c.Art
	g := r.g
	c20Env()
	w := c20BuildWorld(g, a.Spec)
	var refStr string
	var rcOpts []regclient.Opt
	if a.Src == "ocidir" {
		w.materialise(g.Src)
		g.Allowed = append(g.Allowed, g.Src)
		refStr = "ocidir://" + r.spell(g.Src) + ":" + a.Tag
		if r.c.PathForm == "slash" {
			refStr = "ocidir://" + g.Src + ":" + a.Tag // "dir/:tag" is not a reference
		}
	} else {
		reg := c20Registry()
		repo := reg.addRepo(&c20Repo{w: w, anyBlob: true, anyMan: a.ArtMan + 1, hdrDig: g.expand(a.HdrDig)})
		defer reg.remove(repo)
		refStr = reg.host + "/" + repo + ":" + a.Tag
		rcOpts = reg.rcOpts()
	}
	args := []string{"artifact", "get", refStr, "--output", r.spell(g.Out)}
	if a.Subject {
		args = []string{"artifact", "get", "--subject", refStr, "--output", r.spell(g.Out)}
	}
	name := "artifact-get"
	if a.StripDirs {
		args = append(args, "--strip-dirs")
		name += "-stripdirs"
	}
	if a.ConfigFile {
		args = append(args, "--config-file", filepath.Join(r.spell(g.Out), "cfg.json"))
	}
	if a.Platform {
		args = append(args, "--platform", "linux/amd64")
	}
	if a.FileMT {
		args = append(args, "--file-media-type", c20MTLayer)
	}
	if a.Filter != "" {
		args = append(args, "--file", g.expand(a.Filter))
	}
	r.begin()
	buf := new(bytes.Buffer)
	err, pan := c20Call(func() error {
		cmd, ro := NewRootCmd()
		if rcOpts != nil {
			ro.rcOpts = rcOpts
		}
		cmd.SetOut(buf)
		cmd.SetErr(buf)
		cmd.SetArgs(args)
		return cmd.Execute()
	})
	r.outcome(name, err, pan)
	var titles []string
	for _, l := range a.Spec.Mans[a.ArtMan].Layers {
		t := g.expand(l.Title)
		if len(t) > 80 {
			t = t[:80] + "…"
		}
		if l.NoTitle {
			t = "<none>"
		}
		if l.Unpack {
			t += " (unpack)"
		}
		titles = append(titles, t)
	}
	detail := fmt.Sprintf("regctl %s  layer titles=%q -> err=%v panic=%q", strings.Join(args, " "), titles, err, pan)
	r.returned(name, detail, buf.Bytes())
	r.step(name, detail)
}

// ---------------------------------------------------------------------- check

// c20Strings collects every generated string of a case (for the
// non-triviality rule).
func c20Strings(v any, out *[]string) {
	switch x := v.(type) {
	case map[string]any:
		keys := make([]string, 0, len(x))
		for k := range x {
			keys = append(keys, k)
		}
		sort.Strings(keys)
		for _, k := range keys {
			if k == "classes" || k == "raw" {
				continue
			}
			c20Strings(x[k], out)
		}
	case []any:
		for _, e := range x {
			c20Strings(e, out)
		}
	case string:
		*out = append(*out, x)
	}
}

func c20Check(c c20Case, ev *evid.Collector) (v *evid.Violation) {
	g := c20NewGuard(c.PrePop)
	defer g.Close()
	r := &c20Run{c: c, g: g, ev: ev}
	if c.PathForm == "rel" || c.PathForm == "reldot" {
		// relative spellings are relative to the working directory
		if cwd, err := os.Getwd(); err == nil {
			c20Must(os.Chdir(g.G))
			defer func() { _ = os.Chdir(cwd) }()
		} else {
			panic(c20Infra{err})
		}
	}
	defer func() {
		// evidence: exactly one Case per evaluation
		nt := false
		var strs []string
		if b, err := json.Marshal(c); err == nil {
			var generic any
			if json.Unmarshal(b, &generic) == nil {
				c20Strings(generic, &strs)
			}
		}
		for _, s := range strs {
			if c20IsNT(s) {
				nt = true
				break
			}
		}
		if c.Extract != nil && len(c.Extract.Raw) > 0 {
			nt = true
		}
		cls := append([]string{}, c.Classes...)
		sort.Strings(cls)
		key := c.Surface + "|" + strings.Join(cls, ",")
		if len(cls) == 0 {
			key = c.Surface + "|" + strings.Join(strs, "\x01")
		}
		labels := []string{"surface:" + c.Surface}
		seen := map[string]bool{}
		for _, cl := range c.Classes {
			if i := strings.LastIndex(cl, "|"); i >= 0 {
				l := "class:" + cl[i+1:]
				if !seen[l] {
					seen[l] = true
					labels = append(labels, l)
				}
				l = "target:" + cl[:i]
				if !seen[l] {
					seen[l] = true
					labels = append(labels, l)
				}
			}
		}
		labels = append(labels, r.labels...)
		ev.Case(nt, key, labels...)
		ev.Sample(c)
	}()
	switch c.Surface {
	case "extract":
		if c.Extract == nil {
			return nil
		}
		r.runExtract()
	case "layout":
		if c.Lay == nil {
			return nil
		}
		r.runLayout()
	case "copy":
		if c.Copy == nil {
			return nil
		}
		r.runCopy()
	case "import":
		if c.Import == nil {
			return nil
		}
		r.runImport()
	case "artifact":
		if c.Art == nil || len(c.Art.Spec.Mans) == 0 || c.Art.ArtMan < 0 || c.Art.ArtMan >= len(c.Art.Spec.Mans) {
			return nil
		}
		r.runArtifact()
	}
	return r.viol
}

// c20Guarded runs the check; a harness failure (c20Infra) is reported as an
// inconclusive test failure, never as a violation.
func c20Guarded(t interface{ Fatalf(string, ...any) }, c c20Case, ev *evid.Collector) *evid.Violation {
	var infra *c20Infra
	v := evid.Guard(func() *evid.Violation {
		defer func() {
			if p := recover(); p != nil {
				if inf, ok := p.(c20Infra); ok {
					infra = &inf
					return
				}
				panic(p)
			}
		}()
		return c20Check(c, ev)
	})
	if infra != nil {
		evid.Flush(2)
		t.Fatalf("INCONCLUSIVE harness failure (not a violation): %v", infra.err)
	}
	return v
}

// ---------------------------------------------------------------------- tests

func TestVerifProp(t *testing.T) {
	ev := evid.For(c20Prop)
	defer evid.Flush(0)
	c20Env()
	rapid.Check(t, func(rt *rapid.T) {
		c := c20GenCase(rt)
		v := c20Guarded(rt, c, ev)
		if ev.Report(v, c) {
			rt.Fatalf("%v", v)
		}
	})
}

// TestVerifReplayDir runs every committed replay case (plain regression form).
func TestVerifReplayDir(t *testing.T) {
	ev := evid.For(c20Prop)
	defer evid.Flush(0)
	c20Env()
	for _, f := range evid.ReplayFiles() {
		var c c20Case
		if err := evid.LoadCaseFile(f, &c); err != nil {
			t.Fatalf("%s: %v", f, err)
		}
		v := c20Guarded(t, c, ev)
		if ev.Report(v, c) {
			t.Errorf("%s: %v", f, v)
		}
	}
}

func TestVerifReplay(t *testing.T) {
	ev := evid.For(c20Prop)
	defer evid.Flush(0)
	c20Env()
	var c c20Case
	ok, err := evid.LoadReplay(&c)
	if !ok {
		t.Skip("no VERIF_REPLAY")
	}
	if err != nil {
		t.Fatal(err)
	}
	v := c20Guarded(t, c, ev)
	if v != nil {
		t.Logf("replay outcome: %v", v)
	}
	if ev.Report(v, c) {
		t.Fatalf("%v", v)
	}
}

// TestVerifSanity checks the harness itself (so that a silent break of the
// fake registry, the tar writer or the listing oracle cannot turn the property
// run vacuous). Failures here are inconclusive, not violations.
func TestVerifSanity(t *testing.T) {
	ev := evid.For(c20Prop)
	defer evid.Flush(0)
	c20Env()
	_ = ev
	// 1. the oracle sees removal, creation, modification, links outside G/out
	{
		g := c20NewGuard(true)
		before := g.snapshot()
		c20Must(os.Remove(filepath.Join(g.G, "victim")))
		c20WriteFile(filepath.Join(g.G, "other", "new"), []byte("x"))
		c20WriteFile(filepath.Join(g.G, "victim.txt"), []byte("victim text file\n"))
		c20Must(os.Symlink("../victim", filepath.Join(g.Out, "lnk")))
		c20Must(os.Link(filepath.Join(g.G, "out.bak"), filepath.Join(g.Out, "hl")))
		c20WriteFile(filepath.Join(g.Out, "copy"), c20Secret(c20SecretSize))
		c20WriteFile(filepath.Join(g.Out, "fine"), []byte("fine"))
		effs := g.diff(before, g.snapshot())
		got := map[string]bool{}
		for _, e := range effs {
			got[e.Kind+" "+e.Path] = true
		}
		for _, want := range []string{"removed-outside a/b/c/d/e/f/G/victim", "created-outside a/b/c/d/e/f/G/other/new", "modified-outside a/b/c/d/e/f/G/victim.txt",
			"link-created a/b/c/d/e/f/G/out/lnk", "link-created a/b/c/d/e/f/G/out/hl", "secret-copied a/b/c/d/e/f/G/out/copy", "modified-outside a/b/c/d/e/f/G/out.bak"} {
			if !got[want] {
				t.Errorf("oracle self-test: missing effect %q in\n%s", want, c20EffString(effs))
			}
		}
		for k := range got {
			if strings.HasSuffix(k, "/out/fine") {
				t.Errorf("oracle self-test: change inside G/out flagged: %s", k)
			}
		}
		g.Close()
	}
	// 2. no-op: nothing differs
	{
		g := c20NewGuard(true)
		a := g.snapshot()
		if effs := g.diff(a, g.snapshot()); len(effs) != 0 {
			t.Errorf("oracle self-test: idle arena differs:\n%s", c20EffString(effs))
		}
		g.Close()
	}
	// 3. benign cases really do their work on every surface
	run := func(c c20Case, expectFiles []string, expectLabels ...string) {
		g := c20NewGuard(c.PrePop)
		defer g.Close()
		r := &c20Run{c: c, g: g, ev: ev}
		if c.PathForm == "rel" || c.PathForm == "reldot" {
			cwd, err := os.Getwd()
			c20Must(err)
			c20Must(os.Chdir(g.G))
			defer func() { _ = os.Chdir(cwd) }()
		}
		switch c.Surface {
		case "extract":
			r.runExtract()
		case "artifact":
			r.runArtifact()
		case "layout":
			r.runLayout()
		case "copy":
			r.runCopy()
		case "import":
			r.runImport()
		}
		if r.viol != nil {
			t.Errorf("sanity %s: benign case reported %v", c.Surface, r.viol)
		}
		for _, f := range expectFiles {
			if _, err := os.Stat(filepath.Join(g.Out, f)); err != nil {
				t.Errorf("sanity %s: expected %s in G/out: %v (labels %v)", c.Surface, f, err, r.labels)
			}
		}
		have := strings.Join(r.labels, " ")
		for _, l := range expectLabels {
			if !strings.Contains(have, l) {
				t.Errorf("sanity %s: expected label %q, have %v", c.Surface, l, r.labels)
			}
		}
	}
	run(c20Case{Surface: "extract", Extract: &c20Extract{Ents: []c20TarEnt{{Name: "ctl", Type: "reg", Size: 9}, {Name: "d/", Type: "dir", Mode: 0o755}, {Name: "d/x", Type: "reg", Size: 3, Fmt: "raw"},
		{Name: strings.Repeat("n", 120), Type: "reg", Size: 1, Fmt: "raw"}, {Name: strings.Repeat("g", 130), Type: "reg", Size: 1, Fmt: "gnu"}}}},
		[]string{"ctl", "d/x", strings.Repeat("n", 120), strings.Repeat("g", 130)}, ":ok")
	artSpec := c20Layout{
		Blobs: []c20Blob{{Data: "hello"}, {Tar: []c20TarEnt{{Name: "inner.txt", Type: "reg", Size: 5}}, Gzip: true}},
		Mans:  []c20Man{{Kind: "artifact", Config: c20Desc{Dig: "$E"}, Layers: []c20Desc{{Dig: "$B0", Title: "sub/file.txt"}, {Dig: "$B1", Title: "unp", Unpack: true}}}},
		Index: []c20Desc{{Dig: "#0", Tag: "t"}},
	}
	run(c20Case{Surface: "artifact", Art: &c20Art{Spec: artSpec, Src: "reg", Tag: "t"}}, []string{"sub/file.txt", "unp/inner.txt"}, ":ok")
	run(c20Case{Surface: "artifact", Art: &c20Art{Spec: artSpec, Src: "ocidir", Tag: "t", StripDirs: true}}, []string{"file.txt", "inner.txt"}, ":ok")
	imgSpec := c20Layout{
		Mans:  []c20Man{{Kind: "image", Config: c20Desc{Dig: "$C"}, Layers: []c20Desc{{Dig: "$L1"}, {Dig: "$L2"}}}, {Kind: "index", Children: []c20Desc{{Dig: "#0"}}}},
		Index: []c20Desc{{Dig: "#1", Tag: "v1"}},
	}
	for _, src := range []string{"ocidir", "reg"} {
		for _, mode := range []string{"copy", "export-import"} {
			run(c20Case{Surface: "copy", Copy: &c20Copy{Spec: imgSpec, Src: src, Mode: mode, SrcRef: c20RefSpec{How: "settag", Tag: "v1"}, DstRef: c20RefSpec{How: "settag", Tag: "copied"}}},
				[]string{"index.json", "oci-layout", "blobs/sha256/" + strings.TrimPrefix(c20Dig(c20BlobL1), "sha256:")}, ":ok")
		}
	}
	run(c20Case{Surface: "import", Import: &c20Import{Spec: imgSpec, Ref: c20RefSpec{How: "settag", Tag: "v1"}}},
		[]string{"index.json", "blobs/sha256/" + strings.TrimPrefix(c20Dig(c20BlobL2), "sha256:")}, ":ok")
	run(c20Case{Surface: "import", Import: &c20Import{Spec: imgSpec, OmitLayout: true, OmitIndex: true, Docker: &c20Docker{Config: "cfg.json", Layers: []string{"layer.tar"}, RepoTags: []string{"x:latest"}},
		Ref: c20RefSpec{How: "settag", Tag: "v1"}}}, []string{"index.json"}, ":ok")
	// 3b. the same for the dimensions added by the generator-domain audit
	run(c20Case{Surface: "extract", PathForm: "rel", Extract: &c20Extract{Zstd: true, TarOpt: true, Ents: []c20TarEnt{{Name: "ctl", Type: "reg", Size: 513},
		{Name: "ignored", Link: "../victim", Type: "xglobal"}, {Name: "big", Type: "reg", Size: 32769}}}}, []string{"ctl", "big"}, ":ok")
	run(c20Case{Surface: "extract", PathForm: "slash", Extract: &c20Extract{Sub: "dir", Ents: []c20TarEnt{{Name: "ctl", Type: "reg", Size: 1}}}}, []string{"dir/ctl"}, ":ok")
	for _, src := range []string{"reg", "ocidir"} {
		for _, api := range []bool{false, true} {
			for _, form := range []string{"", "reldot"} {
				subjSpec := c20Layout{
					Algo:  map[bool]string{false: "", true: "sha512"}[api],
					Blobs: []c20Blob{{Data: "hello"}, {Tar: []c20TarEnt{{Name: "inner.txt", Type: "reg", Size: 5}}, Zstd: true}},
					Mans: []c20Man{{Kind: "image", Config: c20Desc{Dig: "$C"}, Layers: []c20Desc{{Dig: "$L1"}}},
						{Kind: "artifact", Config: c20Desc{Dig: "$E"}, Subject: &c20Desc{Dig: "#0"}, Layers: []c20Desc{{Dig: "$B0", Title: "sub/file.txt", Inline: true}, {Dig: "$B1", Title: "unp", Unpack: true}}}},
					Index:     []c20Desc{{Dig: "#0", Tag: "t"}},
					Referrers: &c20Referrers{Subject: "#0", API: api, List: []c20Desc{{Dig: "#1"}}},
				}
				run(c20Case{Surface: "artifact", PathForm: form, Art: &c20Art{Spec: subjSpec, Src: src, Tag: "t", Subject: true, ArtMan: 1}}, []string{"sub/file.txt", "unp/inner.txt"}, ":ok")
			}
		}
	}
	ociArtSpec := c20Layout{
		Blobs: []c20Blob{{Data: "hello"}},
		Mans:  []c20Man{{Kind: "ociartifact", Layers: []c20Desc{{Dig: "$B0", Title: "oa.txt"}}}, {Kind: "index", Children: []c20Desc{{Dig: "#0"}}}},
		Index: []c20Desc{{Dig: "#1", Tag: "t"}},
	}
	run(c20Case{Surface: "artifact", Art: &c20Art{Spec: ociArtSpec, Src: "reg", Tag: "t", Platform: true, FileMT: true}}, []string{"oa.txt"}, ":ok")
	img512 := c20Layout{
		Algo: "sha512",
		Mans: []c20Man{{Kind: "image", Config: c20Desc{Dig: "$C"}, Layers: []c20Desc{{Dig: "$L1", Inline: true}, {Dig: "$L2"}}},
			{Kind: "artifact", Config: c20Desc{Dig: "$E"}, Subject: &c20Desc{Dig: "#0"}, Layers: []c20Desc{{Dig: "$E"}}},
			{Kind: "index", Children: []c20Desc{{Dig: "#0"}}}},
		Index:     []c20Desc{{Dig: "#2", Tag: "v1"}},
		Referrers: &c20Referrers{Subject: "#2", API: true, List: []c20Desc{{Dig: "#1"}}},
	}
	l1of512 := filepath.ToSlash(c20BlobPath(c20Dig512(c20BlobL1)))
	for _, src := range []string{"ocidir", "reg"} {
		for _, form := range []string{"slash", "rel"} {
			run(c20Case{Surface: "copy", PathForm: form, Copy: &c20Copy{Spec: img512, Src: src, Mode: "copy", Refs: true, Platforms: true, Callback: true, Fast: true,
				SrcRef: c20RefSpec{How: "settag", Tag: "v1"}, DstRef: c20RefSpec{How: "settag", Tag: "copied"}}}, []string{"index.json", l1of512}, ":ok")
			run(c20Case{Surface: "copy", PathForm: form, Copy: &c20Copy{Spec: img512, Src: src, Mode: "export-import", ExportGz: true,
				SrcRef: c20RefSpec{How: "settag", Tag: "v1"}, DstRef: c20RefSpec{How: "settag", Tag: "copied"}}}, []string{"index.json", l1of512}, ":ok")
		}
	}
	run(c20Case{Surface: "import", PathForm: "reldot", Import: &c20Import{Spec: img512, Reverse: true, Zstd: true, Ref: c20RefSpec{How: "settag", Tag: "v1"}}},
		[]string{"index.json", l1of512}, ":ok")
	{
		// a cancelled context is really handed over: a copy from the registry fails under it
		// (ocidir's own operations mostly ignore the context and succeed)
		c := c20Case{Surface: "copy", Ctx: "cancelled", Copy: &c20Copy{Spec: imgSpec, Src: "reg", Mode: "copy",
			SrcRef: c20RefSpec{How: "settag", Tag: "v1"}, DstRef: c20RefSpec{How: "settag", Tag: "copied"}}}
		g := c20NewGuard(false)
		r := &c20Run{c: c, g: g, ev: ev}
		r.runCopy()
		if r.viol != nil || !strings.Contains(strings.Join(r.labels, " "), "image-copy-from-reg:error") {
			t.Errorf("sanity cancelled context: labels %v viol %v", r.labels, r.viol)
		}
		g.Close()
	}
	for _, form := range []string{"slash", "reldot"} {
		c := c20Case{Surface: "layout", PathForm: form, Lay: &c20Lay{Spec: img512, Empty: form == "reldot", Ops: []c20Op{
			{Op: "blob.put", Via: "oci", Body: "c20-put-body", Reader: "blob", SizeHow: "exact"},
			{Op: "blob.put", Via: "rc", Body: "c20-put-body-two", Reader: "plain", Prefer512: true},
			{Op: "blob.put", Via: "rc", Body: "c20-put-body-3", Reader: "blob-nodesc"},
			{Op: "manifest.put", Via: "rc", Man: "#0", ManHow: "raw", Ref: c20RefSpec{How: "settag", Tag: "again"}},
			{Op: "manifest.get", Via: "rc", Ref: c20RefSpec{How: "settag", Tag: "again"}, Platform: true},
			{Op: "manifest.head", Via: "rc", Ref: c20RefSpec{How: "settag", Tag: "again"}, Platform: true, Flag: true},
			{Op: "referrer.list", Via: "rc", Ref: c20RefSpec{How: "settag", Tag: "again"}, Flag: true, Tag2: "preference"},
			{Op: "close", Via: "rc"},
		}}}
		g := c20NewGuard(false)
		r := &c20Run{c: c, g: g, ev: ev}
		cwd, err := os.Getwd()
		c20Must(err)
		if form == "reldot" {
			c20Must(os.Chdir(g.G))
		}
		r.runLayout()
		_ = os.Chdir(cwd)
		if r.viol != nil {
			t.Errorf("sanity layout(%s): benign ops reported %v", form, r.viol)
		}
		for _, l := range r.labels {
			if strings.HasSuffix(l, ":error") || strings.HasSuffix(l, ":panic") || strings.HasPrefix(l, "op-skipped") {
				t.Errorf("sanity layout(%s): a benign operation did not succeed: labels %v", form, r.labels)
				break
			}
		}
		g.Close()
	}
	var ops []c20Op
	for _, via := range []string{"rc", "oci"} {
		ops = append(ops,
			c20Op{Op: "blob.get", Via: via, Desc: c20Desc{Dig: "$L1"}},
			c20Op{Op: "blob.head", Via: via, Desc: c20Desc{Dig: "$L2"}},
			c20Op{Op: "manifest.get", Via: via, Ref: c20RefSpec{How: "settag", Tag: "v1"}},
			c20Op{Op: "manifest.head", Via: via, Ref: c20RefSpec{How: "setdigest", Dig: "#0"}},
			c20Op{Op: "tag.list", Via: via},
			c20Op{Op: "referrer.list", Via: via, Ref: c20RefSpec{How: "setdigest", Dig: "#0"}},
			c20Op{Op: "blob.put", Via: via, Body: "c20-put-body"},
			c20Op{Op: "manifest.put", Via: via, Man: "#0", ManHow: "raw", Ref: c20RefSpec{How: "settag", Tag: "again"}},
			c20Op{Op: "tag.delete", Via: via, Ref: c20RefSpec{How: "settag", Tag: "again"}},
			c20Op{Op: "close", Via: via},
		)
	}
	ops = append(ops, c20Op{Op: "image.config", Via: "rc", Ref: c20RefSpec{How: "settag", Tag: "v1"}},
		c20Op{Op: "image.export", Via: "rc", Ref: c20RefSpec{How: "settag", Tag: "v1"}},
		c20Op{Op: "image.copy", Via: "rc", Ref: c20RefSpec{How: "settag", Tag: "v1"}, Tag2: "v9"},
		c20Op{Op: "manifest.delete", Via: "rc", Ref: c20RefSpec{How: "setdigest", Dig: "#1"}},
		c20Op{Op: "manifest.delete", Via: "oci", Ref: c20RefSpec{How: "setdigest", Dig: "#0"}, Man: "#0", ManHow: "raw"},
		c20Op{Op: "blob.delete", Via: "oci", Desc: c20Desc{Dig: "$L1"}})
	{
		c := c20Case{Surface: "layout", Lay: &c20Lay{Spec: imgSpec, Ops: ops}}
		g := c20NewGuard(false)
		r := &c20Run{c: c, g: g, ev: ev}
		r.runLayout()
		if r.viol != nil {
			t.Errorf("sanity layout: benign ops reported %v", r.viol)
		}
		for _, l := range r.labels {
			if strings.HasSuffix(l, ":error") || strings.HasSuffix(l, ":panic") || strings.HasPrefix(l, "op-skipped") {
				t.Errorf("sanity layout: a benign operation did not succeed: labels %v", r.labels)
				break
			}
		}
		g.Close()
	}
	// 4. reads really return file content (so that the read oracle can fire)
	{
		g := c20NewGuard(false)
		w := c20BuildWorld(g, imgSpec)
		w.materialise(g.Out)
		res := w.runOp(c20Op{Op: "blob.get", Via: "oci", Desc: c20Desc{Dig: "$L1"}}, g.Out, regclient.New(), ocidir.New())
		if res.Err != nil || len(res.Out) != 1 || !bytes.Equal(res.Out[0], c20BlobL1) {
			t.Errorf("sanity read: blob.get returned %q err=%v", res.Out, res.Err)
		}
		g.Close()
	}
}

// FuzzVerifExtract: native coverage-guided fuzzing over structured tar members
// (three members with raw names / link names / types, or a raw archive) for
// archive.Extract with the same oracle.
func FuzzVerifExtract(f *testing.F) {
	ev := evid.For(c20Prop)
	defer evid.Flush(0)
	types := []string{"reg", "dir", "sym", "hard", "char", "block", "fifo", "rega", "cont"}
	fmts := []string{"pax", "gnu", "ustar", "raw"}
	seeds := [][3]string{
		{"../victim", "", "reg"}, {"../../victim", "", "reg"}, {"/../victim", "", "reg"}, {"a/../../victim", "", "reg"},
		{"lnk", "../victim", "sym"}, {"lnk", "..", "sym"}, {"hl", "../secret", "hard"}, {"hl", "/etc/passwd", "hard"},
		{"..", "", "dir"}, {"../newdir/", "", "dir"}, {"x\x00/../victim", "", "reg"}, {"..\\victim", "", "reg"},
		{strings.Repeat("a", 255), "", "reg"}, {strings.Repeat("../", 6) + "victim", "", "reg"}, {"dir/../../victim", "", "reg"},
		{"exist.txt/../../victim", "", "reg"}, {"./../victim", "", "rega"}, {"fifo", "", "fifo"}, {"dev", "", "char"},
	}
	for i, s := range seeds {
		t := 0
		for j, n := range types {
			if n == s[2] {
				t = j
			}
		}
		f.Add(s[0], s[1], byte(t), "lnk/x", "", byte(0), "d/", "", byte(1), byte(i), []byte{})
	}
	f.Add("", "", byte(0), "", "", byte(0), "", "", byte(0), byte(0), c20BuildTar([]c20TarEnt{{Name: strings.Repeat("../", 3) + strings.Repeat("p", 120), Type: "reg", Size: 3, Fmt: "raw"},
		{Name: strings.Repeat("g", 130) + "/../../victim", Type: "reg", Size: 3, Fmt: "gnu"}, {Name: "s", Link: "../victim", Type: "sym"}}, false))
	n := 0
	f.Fuzz(func(t *testing.T, n1, l1 string, t1 byte, n2, l2 string, t2 byte, n3, l3 string, t3 byte, flags byte, raw []byte) {
		if len(n1)+len(l1)+len(n2)+len(l2)+len(n3)+len(l3) > 20000 || len(raw) > 1<<16 {
			return
		}
		x := &c20Extract{Gzip: flags&1 != 0}
		if flags&2 != 0 {
			x.Sub = "dir"
		}
		if len(raw) >= 512 {
			x.Raw = raw
		} else {
			for i, e := range []struct {
				n, l string
				t    byte
			}{{n1, l1, t1}, {n2, l2, t2}, {n3, l3, t3}} {
				x.Ents = append(x.Ents, c20TarEnt{Name: e.n, Link: e.l, Type: types[int(e.t)%len(types)], Size: 5, Mode: 0o755,
					Fmt: fmts[(int(flags)>>(2+i))%len(fmts)]})
			}
		}
		c := c20Case{Surface: "extract", PrePop: flags&128 == 0, Extract: x}
		v := c20Guarded(t, c, ev)
		n++
		if n%256 == 0 {
			evid.Flush(0)
		}
		if ev.Report(v, c) {
			evid.Flush(1)
			t.Fatalf("%v", v)
		}
	})
}

func c20Export(rc *regclient.RegClient, ctx context.Context, src ref.Ref, buf *bytes.Buffer, opts []regclient.ImageOpts) error {
	return rc.ImageExport(ctx, src, buf, opts...)
}
