//go:build verif && c15

package main

// C15, CLI engine: cmd/regctl/ref.go is one of C15's anchor files. `regctl ref <string> --format ...` is executed
// through NewRootCmd for the strings of the C15 generator (grammar, single grammar-leaving mutations incl. outer
// whitespace, arbitrary bytes) and judged against the same hand-written recogniser as the library check: the
// command accepts exactly the strings of the grammar, reports the fields the grammar gives them, and its default
// output (the common name) re-parses to the same components.

import (
	"bytes"
	"fmt"
	"os"
	"runtime/debug"
	"strings"
	"testing"

	"pgregory.net/rapid"

	"github.com/regclient/regclient/types/ref"
	"github.com/regclient/regclient/zz_verif/c15"
	"github.com/regclient/regclient/zz_verif/evid"
)

const c15Prop = "C15"

func TestMain(m *testing.M) {
	code := m.Run()
	evid.Flush(code)
	os.Exit(code)
}

const c15Sep = "\x1f"

var c15Format = `{{.Scheme}}` + c15Sep + `{{.Registry}}` + c15Sep + `{{.Repository}}` + c15Sep + `{{.Tag}}` + c15Sep + `{{.Digest}}` + c15Sep + `{{.Path}}`

func c15Run(args ...string) (out string, err error, pan string) {
	buf, ebuf := new(bytes.Buffer), new(bytes.Buffer)
	defer func() {
		if r := recover(); r != nil {
			pan = fmt.Sprintf("%v\n%s", r, debug.Stack())
		}
		out = buf.String()
	}()
	cmd, _ := NewRootCmd()
	cmd.SetOut(buf)
	cmd.SetErr(ebuf)
	cmd.SetArgs(args)
	err = cmd.Execute()
	return
}

func c15Check(c c15.Case, ev *evid.Collector) *evid.Violation {
	want := c15.Recognise(c.Input)
	cls := "cli-rejected"
	if want.OK {
		cls = "cli-accepted:" + want.Scheme
	}
	ev.Case(want.OK || strings.HasPrefix(c.Origin, "mutation:"), "cli|"+c.Input, "cli-origin:"+c.Origin, cls)
	out, err, pan := c15Run("ref", "--format", c15Format, "--", c.Input)
	if pan != "" {
		return evid.V("cli-panic", "regctl ref %q panicked: %s", c.Input, pan)
	}
	if want.OK != (err == nil) {
		if err == nil {
			return evid.V("cli-accepts-outside-grammar", "`regctl ref %q` succeeded and printed %q, but the string is outside the reference grammar (%s)", c.Input, out, want.Why)
		}
		return evid.V("cli-rejects-inside-grammar", "`regctl ref %q` failed (%v) but the grammar parses it as %+v", c.Input, err, want)
	}
	if err != nil {
		return nil
	}
	got := strings.Split(strings.TrimSuffix(out, "\n"), c15Sep)
	exp := []string{want.Scheme, want.Registry, want.Repository, want.Tag, want.Digest, want.Path}
	if len(got) != len(exp) {
		return evid.V("cli-output-malformed", "`regctl ref %q --format <fields>` printed %q", c.Input, out)
	}
	for i := range exp {
		if got[i] != exp[i] {
			return evid.V("cli-fields-differ", "`regctl ref %q` reports fields %q, the reference grammar gives %q", c.Input, got, exp)
		}
	}
	// default output: the common name, which re-parses to the same components
	cn, err, pan := c15Run("ref", "--", c.Input)
	if pan != "" || err != nil {
		return evid.V("cli-default-format-fails", "`regctl ref %q` with the default format: err=%v panic=%s", c.Input, err, pan)
	}
	cn = strings.TrimSuffix(cn, "\n")
	r2, err := ref.New(cn)
	if err != nil {
		if want.Scheme == "ocifile" {
			return nil // CommonName of an ocifile reference is a separate, library-level matter (judged by the library job)
		}
		return evid.V("cli-common-name-does-not-reparse", "`regctl ref %q` printed %q, which does not parse: %v", c.Input, cn, err)
	}
	if r2.Scheme != want.Scheme || r2.Registry != want.Registry || r2.Repository != want.Repository || r2.Tag != want.Tag || r2.Digest != want.Digest || r2.Path != want.Path {
		return evid.V("cli-roundtrip-differs", "`regctl ref %q` printed %q, which re-parses to {scheme=%q reg=%q repo=%q tag=%q dig=%q path=%q}, not to %+v", c.Input, cn, r2.Scheme, r2.Registry, r2.Repository, r2.Tag, r2.Digest, r2.Path, want)
	}
	return nil
}

func TestVerifCLI(t *testing.T) {
	ev := evid.For(c15Prop)
	rapid.Check(t, func(rt *rapid.T) {
		c := c15.Gen(rt)
		v := evid.Guard(func() *evid.Violation { return c15Check(c, ev) })
		if ev.Report(v, c) {
			rt.Fatalf("%v", v)
		}
	})
}

// TestVerifCLIReplayDir replays saved cases of both engines through the CLI (a case is just an input string).
func TestVerifCLIReplayDir(t *testing.T) {
	ev := evid.For(c15Prop)
	for _, f := range evid.ReplayFiles() {
		var c c15.Case
		if err := evid.LoadCaseFile(f, &c); err != nil {
			t.Fatalf("%s: %v", f, err)
		}
		v := evid.Guard(func() *evid.Violation { return c15Check(c, ev) })
		if ev.Report(v, c) {
			t.Errorf("%s: %v", f, v)
		}
	}
}

// TestVerifReplay replays one saved case (VERIF_REPLAY) through the CLI engine.
func TestVerifReplay(t *testing.T) {
	ev := evid.For(c15Prop)
	var c c15.Case
	ok, err := evid.LoadReplay(&c)
	if !ok {
		t.Skip("no VERIF_REPLAY")
	}
	if err != nil {
		t.Fatal(err)
	}
	v := evid.Guard(func() *evid.Violation { return c15Check(c, ev) })
	if ev.Report(v, c) {
		t.Fatalf("%v", v)
	}
}
