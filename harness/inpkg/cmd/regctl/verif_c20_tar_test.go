//go:build c20

package main

// C20 tar construction: archive/tar where it accepts the header, a hand-written
// ustar/PAX block writer where it does not (NUL bytes, over-long fields, raw
// names), so that hostile names reach the reader exactly as generated.

import (
	"archive/tar"
	"bytes"
	"compress/gzip"
	"fmt"
	"strings"
)

// c20TarEnt is one generated tar member.
type c20TarEnt struct {
	Name string `json:"name"`
	Link string `json:"link,omitempty"`
	Type string `json:"type"`           // reg dir sym hard char block fifo rega cont
	Size int    `json:"size,omitempty"` // payload bytes for reg/rega/cont
	Mode int64  `json:"mode,omitempty"`
	Fmt  string `json:"fmt,omitempty"` // pax gnu ustar raw ("" = pax)
	Body string `json:"body,omitempty"` // explicit payload (overrides Size)
}

var c20TypeFlag = map[string]byte{
	"reg": tar.TypeReg, "dir": tar.TypeDir, "sym": tar.TypeSymlink, "hard": tar.TypeLink,
	"char": tar.TypeChar, "block": tar.TypeBlock, "fifo": tar.TypeFifo, "rega": tar.TypeRegA, "cont": tar.TypeCont,
	"xglobal": tar.TypeXGlobalHeader, // PAX global header: its path / linkpath records carry Name / Link
}

func (e c20TarEnt) payload() []byte {
	if e.Body != "" {
		return []byte(e.Body)
	}
	switch e.Type {
	case "reg", "rega", "cont", "":
	case "xglobal":
		rec := c20PaxRecord("path", e.Name)
		if e.Link != "" {
			rec += c20PaxRecord("linkpath", e.Link)
		}
		return []byte(rec)
	default:
		return nil
	}
	if e.Size <= 0 {
		return nil
	}
	return []byte(strings.Repeat("c20data.", e.Size/8+1)[:e.Size])
}

func c20Octal(b []byte, v int64) {
	s := fmt.Sprintf("%0*o", len(b)-1, v)
	if len(s) > len(b)-1 {
		s = s[len(s)-(len(b)-1):]
	}
	copy(b, s)
	b[len(b)-1] = 0
}

// c20RawHeader writes one 512-byte ustar header with the given raw field bytes.
func c20RawHeader(w *bytes.Buffer, name, link string, flag byte, size int64, mode int64) {
	var blk [512]byte
	copy(blk[0:100], name)
	c20Octal(blk[100:108], mode&0o7777777)
	c20Octal(blk[108:116], 0)
	c20Octal(blk[116:124], 0)
	c20Octal(blk[124:136], size)
	c20Octal(blk[136:148], 1000000000)
	blk[156] = flag
	copy(blk[157:257], link)
	copy(blk[257:263], "ustar\x00")
	copy(blk[263:265], "00")
	for i := 148; i < 156; i++ {
		blk[i] = ' '
	}
	sum := 0
	for _, c := range blk {
		sum += int(c)
	}
	copy(blk[148:156], fmt.Sprintf("%06o\x00 ", sum))
	w.Write(blk[:])
}

func c20Pad(w *bytes.Buffer, n int) {
	if r := n % 512; r != 0 {
		w.Write(make([]byte, 512-r))
	}
}

func c20PaxRecord(k, v string) string {
	// "<len> k=v\n" where len counts itself
	body := " " + k + "=" + v + "\n"
	n := len(body) + 1
	for {
		s := fmt.Sprintf("%d", n)
		if len(s)+len(body) == n {
			return s + body
		}
		n = len(s) + len(body)
	}
}

// c20RawEntry emits a member without archive/tar's validation: long or odd
// names travel in a PAX extended header (or GNU L/K records for fmt=gnu), the
// ustar fields carry the raw (possibly truncated) bytes.
func c20RawEntry(w *bytes.Buffer, e c20TarEnt) {
	flag, ok := c20TypeFlag[e.Type]
	if !ok {
		flag = tar.TypeReg
	}
	data := e.payload()
	if e.Type == "xglobal" {
		c20RawHeader(w, "pax_global_header", "", flag, int64(len(data)), 0o644)
		w.Write(data)
		c20Pad(w, len(data))
		return
	}
	if len(e.Name) > 100 || len(e.Link) > 100 {
		if e.Fmt == "gnu" {
			if len(e.Name) > 100 {
				c20RawHeader(w, "././@LongLink", "", 'L', int64(len(e.Name)+1), 0o644)
				w.WriteString(e.Name + "\x00")
				c20Pad(w, len(e.Name)+1)
			}
			if len(e.Link) > 100 {
				c20RawHeader(w, "././@LongLink", "", 'K', int64(len(e.Link)+1), 0o644)
				w.WriteString(e.Link + "\x00")
				c20Pad(w, len(e.Link)+1)
			}
		} else {
			rec := ""
			if len(e.Name) > 100 {
				rec += c20PaxRecord("path", e.Name)
			}
			if len(e.Link) > 100 {
				rec += c20PaxRecord("linkpath", e.Link)
			}
			c20RawHeader(w, "PaxHeaders.0/x", "", 'x', int64(len(rec)), 0o644)
			w.WriteString(rec)
			c20Pad(w, len(rec))
		}
	}
	name, link := e.Name, e.Link
	if len(name) > 100 {
		name = name[:100]
	}
	if len(link) > 100 {
		link = link[:100]
	}
	c20RawHeader(w, name, link, flag, int64(len(data)), e.Mode)
	w.Write(data)
	c20Pad(w, len(data))
}

// c20BuildTar serialises the members. Each member is first offered to
// archive/tar (own writer, so a refusal leaves no half-written state); a member
// it refuses is written by the raw block writer. The result is always a
// syntactically terminated archive; whether the reader accepts each member is
// up to the reader.
func c20BuildTar(ents []c20TarEnt, gz bool) []byte {
	var buf bytes.Buffer
	for _, e := range ents {
		flag, ok := c20TypeFlag[e.Type]
		if !ok {
			flag = tar.TypeReg
		}
		data := e.payload()
		if e.Fmt != "raw" && e.Type != "xglobal" {
			var one bytes.Buffer
			tw := tar.NewWriter(&one)
			h := &tar.Header{Name: e.Name, Linkname: e.Link, Typeflag: flag, Mode: e.Mode, Size: int64(len(data))}
			switch e.Fmt {
			case "gnu":
				h.Format = tar.FormatGNU
			case "ustar":
				h.Format = tar.FormatUSTAR
			default:
				h.Format = tar.FormatPAX
			}
			err := tw.WriteHeader(h)
			if err != nil && h.Format != tar.FormatPAX {
				one.Reset()
				tw = tar.NewWriter(&one)
				h.Format = tar.FormatUnknown
				err = tw.WriteHeader(h)
			}
			if err == nil && len(data) > 0 {
				_, err = tw.Write(data)
			}
			if err == nil {
				err = tw.Flush()
			}
			if err == nil {
				buf.Write(one.Bytes())
				continue
			}
			// archive/tar refuses the member: fall through to the raw writer
		}
		c20RawEntry(&buf, e)
	}
	buf.Write(make([]byte, 1024))
	if !gz {
		return buf.Bytes()
	}
	var zb bytes.Buffer
	zw := gzip.NewWriter(&zb)
	_, _ = zw.Write(buf.Bytes())
	_ = zw.Close()
	return zb.Bytes()
}
