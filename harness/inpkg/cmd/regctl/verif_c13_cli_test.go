//go:build verif && c13

package main

// C13, CLI engine: `regctl image mod <src> [--create X] [--replace] <option flags>`
// executed through NewRootCmd against the in-process model registry / OCI
// layouts of the C13 harness. The generator, the flag syntax and the oracle live
// in zz_verif/c13 (cli.go); this file only supplies the runner, because
// package main cannot be imported. See /verif/DESIGN.md "### C13".

import (
	"bytes"
	"context"
	"fmt"
	"os"
	"path/filepath"
	"runtime/debug"
	"sort"
	"sync"
	"sync/atomic"
	"testing"

	"pgregory.net/rapid"

	"github.com/regclient/regclient"
	"github.com/regclient/regclient/zz_verif/c13"
	"github.com/regclient/regclient/zz_verif/evid"
)

const c13Prop = "C13"

var c13EnvOnce sync.Once

// c13Env makes the in-process regctl hermetic: no user config, no docker creds.
func c13Env() {
	c13EnvOnce.Do(func() {
		home, err := os.MkdirTemp("", "c13-home-")
		if err != nil {
			panic(err)
		}
		os.Setenv("HOME", home)
		os.Setenv("REGCTL_CONFIG", filepath.Join(home, "regctl-config.json"))
		os.Setenv("DOCKER_CONFIG", filepath.Join(home, "docker"))
	})
}

func c13Run(ctx context.Context, args []string, rcOpts []regclient.Opt) (stdout string, err error, pan string) {
	buf, ebuf := new(bytes.Buffer), new(bytes.Buffer)
	defer func() {
		if r := recover(); r != nil {
			pan = fmt.Sprintf("%v\n%s", r, debug.Stack())
		}
		stdout = buf.String()
	}()
	cmd, ro := NewRootCmd()
	ro.rcOpts = rcOpts
	cmd.SetOut(buf)
	cmd.SetErr(ebuf)
	cmd.SetArgs(args)
	err = cmd.ExecuteContext(ctx)
	return
}

var c13Watchdogs atomic.Int64

func c13Check(c c13.Case, ev *evid.Collector) *evid.Violation {
	res := c13.CheckCLI(c, c13Run)
	ev.Case(res.NT, res.Key, res.Classes...)
	ev.Sample(res.Sample)
	if res.Status == "watchdog" {
		c13Watchdogs.Add(1)
	}
	if res.Sig != "" {
		return &evid.Violation{Sig: res.Sig, Msg: res.Msg}
	}
	return nil
}

func TestVerifC13CLI(t *testing.T) {
	c13Env()
	ev := evid.For(c13Prop)
	defer evid.Flush(0)
	rapid.Check(t, func(rt *rapid.T) {
		c := c13.GenCLI(rt)
		v := evid.Guard(func() *evid.Violation { return c13Check(c, ev) })
		if ev.Report(v, c) {
			rt.Fatalf("%v", v)
		}
	})
	if n := c13Watchdogs.Load(); n > 0 {
		t.Errorf("inconclusive: %d regctl runs hit the wall-clock watchdog", n)
	}
}

// TestVerifC13CLIReplayDir replays the saved CLI cases (replays/C13cli/*.json; also a
// single file named by VERIF_C13CLI_REPLAY).
func TestVerifC13CLIReplayDir(t *testing.T) {
	c13Env()
	ev := evid.For(c13Prop)
	defer evid.Flush(0)
	files, _ := filepath.Glob(filepath.Join(os.Getenv("VERIF_DIR"), "replays", "C13cli", "*.json"))
	sort.Strings(files)
	if f := os.Getenv("VERIF_C13CLI_REPLAY"); f != "" {
		files = []string{f}
	}
	for _, f := range files {
		var c c13.Case
		if err := evid.LoadCaseFile(f, &c); err != nil {
			t.Fatalf("%s: %v", f, err)
		}
		v := evid.Guard(func() *evid.Violation { return c13Check(c, ev) })
		if ev.Report(v, c) {
			t.Errorf("%s: %v", f, v)
		}
	}
}

// TestVerifReplay replays one saved CLI case (VERIF_REPLAY; run.py --replay routes the
// failure files of the cli / clireplay jobs to this package).
func TestVerifReplay(t *testing.T) {
	c13Env()
	ev := evid.For(c13Prop)
	defer evid.Flush(0)
	var c c13.Case
	ok, err := evid.LoadReplay(&c)
	if !ok {
		t.Skip("no VERIF_REPLAY")
	}
	if err != nil {
		t.Fatal(err)
	}
	if !c.CLI {
		t.Skip("not a CLI case")
	}
	for i := 0; i < 3; i++ {
		v := evid.Guard(func() *evid.Violation { return c13Check(c, ev) })
		if ev.Report(v, c) {
			t.Fatalf("%v", v)
		}
	}
}
