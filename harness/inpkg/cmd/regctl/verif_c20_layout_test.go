//go:build c20

package main

// C20 world building: turns a c20Layout spec into bytes (manifests, blobs,
// index.json), writes it as an OCI layout directory or serves it from an
// in-process fake registry, and interprets layout operations.

import (
	"bytes"
	"context"
	"crypto/sha256"
	"crypto/sha512"
	"encoding/hex"
	"encoding/json"
	"fmt"
	"io"
	"net/http"
	"net/http/httptest"
	"net/url"
	"os"
	"path/filepath"
	"sort"
	"strings"
	"sync"
	"time"

	"github.com/opencontainers/go-digest"

	"github.com/regclient/regclient"
	"github.com/regclient/regclient/config"
	"github.com/regclient/regclient/pkg/archive"
	"github.com/regclient/regclient/scheme"
	"github.com/regclient/regclient/scheme/ocidir"
	"github.com/regclient/regclient/types/descriptor"
	"github.com/regclient/regclient/types/blob"
	"github.com/regclient/regclient/types/manifest"
	"github.com/regclient/regclient/types/platform"
	"github.com/regclient/regclient/types/referrer"
	"github.com/regclient/regclient/types/ref"
)

const (
	c20MTManifest  = "application/vnd.oci.image.manifest.v1+json"
	c20MTIndex     = "application/vnd.oci.image.index.v1+json"
	c20MTDManifest = "application/vnd.docker.distribution.manifest.v2+json"
	c20MTDList     = "application/vnd.docker.distribution.manifest.list.v2+json"
	c20MTConfig    = "application/vnd.oci.image.config.v1+json"
	c20MTDConfig   = "application/vnd.docker.container.image.v1+json"
	c20MTLayer     = "application/vnd.oci.image.layer.v1.tar+gzip"
	c20MTDLayer    = "application/vnd.docker.image.rootfs.diff.tar.gzip"
	c20MTEmpty     = "application/vnd.oci.empty.v1+json"
	c20MTArtifact  = "application/vnd.example.c20+type"
	c20MTSchema1     = "application/vnd.docker.distribution.manifest.v1+json"
	c20MTOCIArtifact = "application/vnd.oci.artifact.manifest.v1+json"
	c20AnnotTitle  = "org.opencontainers.image.title"
	c20AnnotUnpack = "io.deis.oras.content.unpack"
	c20AnnotRef    = "org.opencontainers.image.ref.name"
)

var (
	c20BlobC  = []byte(`{"architecture":"amd64","os":"linux","rootfs":{"type":"layers","diff_ids":[]},"config":{}}`)
	c20BlobL1 = []byte("c20-layer-one-content")
	c20BlobL2 = []byte("c20-layer-two-content-longer")
	c20BlobE  = []byte("{}")
)

func c20Dig(b []byte) string {
	h := sha256.Sum256(b)
	return "sha256:" + hex.EncodeToString(h[:])
}

func c20Dig512(b []byte) string {
	h := sha512.Sum512(b)
	return "sha512:" + hex.EncodeToString(h[:])
}

type c20JPlatform struct {
	Architecture string `json:"architecture"`
	OS           string `json:"os"`
}

type c20JDesc struct {
	MediaType   string            `json:"mediaType,omitempty"`
	Digest      string            `json:"digest"`
	Size        int64             `json:"size"`
	Annotations map[string]string `json:"annotations,omitempty"`
	Platform    *c20JPlatform     `json:"platform,omitempty"`
	Data        []byte            `json:"data,omitempty"`
	ArtifactTyp string            `json:"artifactType,omitempty"`
}

type c20JMan struct {
	SchemaVersion int               `json:"schemaVersion"`
	MediaType     string            `json:"mediaType,omitempty"`
	ArtifactType  string            `json:"artifactType,omitempty"`
	Config        *c20JDesc         `json:"config,omitempty"`
	Layers        []c20JDesc        `json:"layers,omitempty"`
	Blobs         []c20JDesc        `json:"blobs,omitempty"` // OCI artifact manifest
	Manifests     []c20JDesc        `json:"manifests,omitempty"`
	Subject       *c20JDesc         `json:"subject,omitempty"`
	Annotations   map[string]string `json:"annotations,omitempty"`
}

// c20JSchema1 is an (unsigned) docker schema 1 manifest.
type c20JSchema1 struct {
	SchemaVersion int                 `json:"schemaVersion"`
	Name          string              `json:"name"`
	Tag           string              `json:"tag"`
	Architecture  string              `json:"architecture"`
	FSLayers      []map[string]string `json:"fsLayers"`
	History       []map[string]string `json:"history"`
}

type c20Known struct {
	Digest string
	Size   int64
	MT     string
}

type c20Built struct {
	Digest string
	Body   []byte
	MT     string
}

// c20World is the byte-level realisation of a layout spec for one guard.
type c20World struct {
	g     *c20Guard
	tok   map[string]c20Known
	blobs map[string][]byte // digest -> bytes (blobs and manifests)
	mans  []c20Built
	index []c20JDesc
	tags  map[string]int // tag -> manifest number (entries that resolve to a built manifest)
	algo  string         // sha256 | sha512: algorithm of every digest of the world
	// referrers response (spec.Referrers): subject digest, the list as a built index, and
	// whether the registry offers it through the referrers API (else only the fallback tag)
	refSubject string
	refList    *c20Built
	refAPI     bool
	cancelled  bool // operations get an already cancelled context
}

func (w *c20World) dig(b []byte) string {
	if w.algo == "sha512" {
		return c20Dig512(b)
	}
	return c20Dig(b)
}

// blobPath is where a digest of the world lives below a layout directory.
func c20BlobPath(d string) string {
	i := strings.IndexByte(d, ':')
	return filepath.Join("blobs", d[:i], d[i+1:])
}

func (w *c20World) addBlob(tok string, b []byte, mt string) {
	d := w.dig(b)
	w.blobs[d] = b
	w.tok[tok] = c20Known{Digest: d, Size: int64(len(b)), MT: mt}
}

// expandTokens replaces $C/$L1/… tokens embedded in names ("blobs/sha256/$C").
func (w *c20World) expandTokens(s string) string {
	if strings.Contains(s, "$") {
		for _, t := range []string{"$L1", "$L2", "$C", "$E"} {
			if k, ok := w.tok[t]; ok {
				s = strings.ReplaceAll(s, "sha256/"+t, strings.Replace(k.Digest, ":", "/", 1))
			}
		}
	}
	return w.g.expand(s)
}

// digest resolves a digest token or literal.
func (w *c20World) digest(s string) string {
	if k, ok := w.tok[s]; ok {
		return k.Digest
	}
	return w.g.expand(s)
}

func (w *c20World) jdesc(d c20Desc, defMT string) c20JDesc {
	out := c20JDesc{Digest: w.digest(d.Dig), Size: d.Size, MediaType: d.MT}
	if k, ok := w.tok[d.Dig]; ok {
		out.Size = k.Size
		if out.MediaType == "" {
			out.MediaType = k.MT
		}
	}
	if out.MediaType == "" {
		out.MediaType = defMT
	}
	ann := map[string]string{}
	if d.Tag != "" {
		ann[c20AnnotRef] = w.g.expand(d.Tag)
	}
	if !d.NoTitle && (d.Title != "" || d.EmptyTitle) {
		ann[c20AnnotTitle] = w.g.expand(d.Title)
	}
	if d.Inline {
		// inline data: the real bytes for known content, arbitrary bytes next to a hostile digest
		if b, ok := w.blobs[out.Digest]; ok {
			out.Data = b
		} else {
			out.Data = []byte("c20-inline-data")
			if out.Size == 0 {
				out.Size = int64(len(out.Data))
			}
		}
	}
	if d.Unpack {
		ann[c20AnnotUnpack] = "true"
	}
	if len(ann) > 0 {
		out.Annotations = ann
	}
	return out
}

func c20BuildWorld(g *c20Guard, spec c20Layout) *c20World {
	w := &c20World{g: g, tok: map[string]c20Known{}, blobs: map[string][]byte{}, tags: map[string]int{}, algo: spec.Algo}
	w.addBlob("$C", c20BlobC, c20MTConfig)
	w.addBlob("$L1", c20BlobL1, c20MTLayer)
	w.addBlob("$L2", c20BlobL2, c20MTLayer)
	w.addBlob("$E", c20BlobE, c20MTEmpty)
	w.tok["$MISSING"] = c20Known{Digest: w.dig([]byte("c20-missing")), Size: 11, MT: c20MTLayer}
	for i, b := range spec.Blobs {
		var data []byte
		if len(b.Tar) > 0 {
			ents := make([]c20TarEnt, len(b.Tar))
			for j, e := range b.Tar {
				e.Name, e.Link = g.expand(e.Name), g.expand(e.Link)
				ents[j] = e
			}
			data = c20BuildTar(ents, b.Gzip)
			if b.Zstd {
				data = c20Zstd(c20BuildTar(ents, false))
			}
		} else {
			data = []byte(b.Data)
		}
		w.addBlob(fmt.Sprintf("$B%d", i), data, c20MTLayer)
	}
	for i, m := range spec.Mans {
		jm := c20JMan{SchemaVersion: 2}
		lmt, cmt := c20MTLayer, c20MTConfig
		var body []byte
		switch m.Kind {
		case "schema1":
			// docker schema 1: the layer digests travel as fsLayers[].blobSum
			s1 := c20JSchema1{SchemaVersion: 1, Name: "c20/x", Tag: "t", Architecture: "amd64", FSLayers: []map[string]string{}, History: []map[string]string{}}
			for _, l := range m.Layers {
				s1.FSLayers = append(s1.FSLayers, map[string]string{"blobSum": w.digest(l.Dig)})
				s1.History = append(s1.History, map[string]string{"v1Compatibility": "{}"})
			}
			jm.MediaType = c20MTSchema1
			var err error
			body, err = json.Marshal(s1)
			c20Must(err)
		case "ociartifact":
			// OCI artifact manifest (image-spec 1.1 rc): blobs instead of config + layers
			jm.SchemaVersion = 0
			jm.MediaType = c20MTOCIArtifact
			jm.ArtifactType = c20MTArtifact
			for _, l := range m.Layers {
				jm.Blobs = append(jm.Blobs, w.jdesc(l, lmt))
			}
		case "index":
			jm.MediaType = c20MTIndex
			if m.Docker {
				jm.MediaType = c20MTDList
			}
			for _, c := range m.Children {
				jd := w.jdesc(c, c20MTManifest)
				jd.Platform = &c20JPlatform{Architecture: "amd64", OS: "linux"}
				jm.Manifests = append(jm.Manifests, jd)
			}
		default:
			jm.MediaType = c20MTManifest
			if m.Docker {
				jm.MediaType, lmt, cmt = c20MTDManifest, c20MTDLayer, c20MTDConfig
			}
			if m.Kind == "artifact" {
				jm.ArtifactType = c20MTArtifact
			}
			cfg := m.Config
			if m.Docker && cfg.MT == "" {
				cfg.MT = cmt
			}
			jc := w.jdesc(cfg, cmt)
			jm.Config = &jc
			jm.Layers = []c20JDesc{}
			for _, l := range m.Layers {
				if m.Docker && l.MT == "" {
					l.MT = lmt
				}
				jm.Layers = append(jm.Layers, w.jdesc(l, lmt))
			}
		}
		if m.Subject != nil && !m.Docker {
			js := w.jdesc(*m.Subject, c20MTManifest)
			jm.Subject = &js
		}
		if body == nil {
			var err error
			body, err = json.Marshal(jm)
			c20Must(err)
			if m.Kind == "ociartifact" {
				body = bytes.Replace(body, []byte(`"schemaVersion":0,`), nil, 1)
			}
		}
		d := w.dig(body)
		w.blobs[d] = body
		w.tok[fmt.Sprintf("#%d", i)] = c20Known{Digest: d, Size: int64(len(body)), MT: jm.MediaType}
		w.mans = append(w.mans, c20Built{Digest: d, Body: body, MT: jm.MediaType})
	}
	for _, e := range spec.Index {
		jd := w.jdesc(e, c20MTManifest)
		w.index = append(w.index, jd)
		if strings.HasPrefix(e.Dig, "#") && e.Tag != "" {
			var k int
			if _, err := fmt.Sscanf(e.Dig, "#%d", &k); err == nil && k < len(w.mans) {
				if _, dup := w.tags[e.Tag]; !dup {
					w.tags[e.Tag] = k
				}
			}
		}
	}
	if r := spec.Referrers; r != nil {
		// the referrers response for one subject: an index of descriptors, reachable through the
		// fallback tag <alg>-<hex> (index.json entry / registry tag) and optionally the referrers API
		w.refSubject = w.digest(r.Subject)
		idx := c20JMan{SchemaVersion: 2, MediaType: c20MTIndex, Manifests: []c20JDesc{}}
		for _, e := range r.List {
			jd := w.jdesc(e, c20MTManifest)
			jd.ArtifactTyp = c20MTArtifact
			idx.Manifests = append(idx.Manifests, jd)
		}
		body, err := json.Marshal(idx)
		c20Must(err)
		d := w.dig(body)
		w.blobs[d] = body
		w.refList = &c20Built{Digest: d, Body: body, MT: c20MTIndex}
		w.refAPI = r.API
		if _, ok := w.tok[r.Subject]; ok {
			// referrer.FallbackTag: "%.32s-%.64s" of algorithm and hex
			i := strings.IndexByte(w.refSubject, ':')
			alg, hx := w.refSubject[:i], w.refSubject[i+1:]
			if len(hx) > 64 {
				hx = hx[:64]
			}
			tag := alg + "-" + hx
			w.mans = append(w.mans, *w.refList)
			w.tags[tag] = len(w.mans) - 1
			w.index = append(w.index, c20JDesc{MediaType: c20MTIndex, Digest: d, Size: int64(len(body)), Annotations: map[string]string{c20AnnotRef: tag}})
		}
	}
	return w
}

func (w *c20World) indexJSON() []byte {
	idx := c20JMan{SchemaVersion: 2, MediaType: c20MTIndex, Manifests: w.index}
	if idx.Manifests == nil {
		idx.Manifests = []c20JDesc{}
	}
	b, err := json.Marshal(idx)
	c20Must(err)
	return b
}

// materialise writes the world as an OCI layout directory.
func (w *c20World) materialise(dir string) {
	c20WriteFile(filepath.Join(dir, "oci-layout"), []byte(`{"imageLayoutVersion":"1.0.0"}`))
	c20WriteFile(filepath.Join(dir, "index.json"), w.indexJSON())
	c20Must(os.MkdirAll(filepath.Join(dir, "blobs", "sha256"), 0o755))
	for d, b := range w.blobs {
		c20WriteFile(filepath.Join(dir, c20BlobPath(d)), b)
	}
}

func (w *c20World) sortedDigests() []string {
	ks := make([]string, 0, len(w.blobs))
	for d := range w.blobs {
		ks = append(ks, d)
	}
	sort.Strings(ks)
	return ks
}

// ---------------------------------------------------------------- fake registry

type c20Repo struct {
	w       *c20World
	anyBlob bool
	anyMan  int    // 1+k: unknown manifest references are answered with manifest k
	hdrDig  string // when set: every Docker-Content-Digest header carries this (hostile) value
}

type c20Reg struct {
	mu    sync.Mutex
	repos map[string]*c20Repo
	ts    *httptest.Server
	host  string
	n     int
}

var (
	c20RegOnce sync.Once
	c20RegInst *c20Reg
)

func c20Registry() *c20Reg {
	c20RegOnce.Do(func() {
		r := &c20Reg{repos: map[string]*c20Repo{}}
		r.ts = httptest.NewServer(r)
		u, _ := url.Parse(r.ts.URL)
		r.host = u.Host
		c20RegInst = r
	})
	return c20RegInst
}

func (r *c20Reg) add(w *c20World, anyBlob bool) string {
	return r.addRepo(&c20Repo{w: w, anyBlob: anyBlob})
}

func (r *c20Reg) addRepo(repo *c20Repo) string {
	r.mu.Lock()
	defer r.mu.Unlock()
	r.n++
	name := fmt.Sprintf("c20/r%d", r.n)
	r.repos[name] = repo
	return name
}

func (r *c20Reg) remove(name string) {
	r.mu.Lock()
	delete(r.repos, name)
	r.mu.Unlock()
}

func (r *c20Reg) rcOpts() []regclient.Opt {
	return []regclient.Opt{
		regclient.WithConfigHost(config.Host{Name: r.host, TLS: config.TLSDisabled}),
		regclient.WithRetryDelay(time.Millisecond, 5*time.Millisecond),
		regclient.WithRetryLimit(2),
	}
}

func c20NotFound(rw http.ResponseWriter) {
	rw.Header().Set("Content-Type", "application/json")
	rw.WriteHeader(http.StatusNotFound)
	_, _ = rw.Write([]byte(`{"errors":[{"code":"NOT_FOUND","message":"not found"}]}`))
}

func (r *c20Reg) ServeHTTP(rw http.ResponseWriter, req *http.Request) {
	p := req.URL.Path
	if p == "/v2/" || p == "/v2" {
		rw.WriteHeader(http.StatusOK)
		return
	}
	if !strings.HasPrefix(p, "/v2/") || (req.Method != http.MethodGet && req.Method != http.MethodHead) {
		c20NotFound(rw)
		return
	}
	p = p[len("/v2/"):]
	kind, at := "", -1
	for _, k := range []string{"/manifests/", "/blobs/", "/referrers/", "/tags/"} {
		if i := strings.Index(p, k); i >= 0 && (at < 0 || i < at) {
			kind, at = k, i
		}
	}
	if at < 0 {
		c20NotFound(rw)
		return
	}
	name, rest := p[:at], p[at+len(kind):]
	r.mu.Lock()
	repo := r.repos[name]
	r.mu.Unlock()
	if repo == nil {
		c20NotFound(rw)
		return
	}
	w := repo.w
	send := func(mt, dig string, body []byte) {
		if mt != "" {
			rw.Header().Set("Content-Type", mt)
		}
		if repo.hdrDig != "" {
			dig = repo.hdrDig
		}
		if !strings.ContainsAny(dig, "\x00\r\n") {
			rw.Header().Set("Docker-Content-Digest", dig)
		}
		rw.Header().Set("Content-Length", fmt.Sprintf("%d", len(body)))
		rw.WriteHeader(http.StatusOK)
		if req.Method == http.MethodGet {
			_, _ = rw.Write(body)
		}
	}
	switch kind {
	case "/manifests/":
		if k, ok := w.tags[rest]; ok {
			send(w.mans[k].MT, w.mans[k].Digest, w.mans[k].Body)
			return
		}
		for _, m := range w.mans {
			if m.Digest == rest {
				send(m.MT, m.Digest, m.Body)
				return
			}
		}
		if repo.anyMan > 0 && repo.anyMan <= len(w.mans) {
			m := w.mans[repo.anyMan-1]
			send(m.MT, m.Digest, m.Body)
			return
		}
		c20NotFound(rw)
	case "/referrers/":
		if w.refAPI && w.refList != nil && rest == w.refSubject {
			send(c20MTIndex, w.refList.Digest, w.refList.Body)
			return
		}
		c20NotFound(rw)
	case "/blobs/":
		if b, ok := w.blobs[rest]; ok {
			send("application/octet-stream", rest, b)
			return
		}
		if repo.anyBlob {
			b := []byte("c20-filler-blob-for-unknown-digest")
			send("application/octet-stream", w.dig(b), b)
			return
		}
		c20NotFound(rw)
	case "/tags/":
		tl := struct {
			Name string   `json:"name"`
			Tags []string `json:"tags"`
		}{Name: name}
		for t := range w.tags {
			tl.Tags = append(tl.Tags, t)
		}
		sort.Strings(tl.Tags)
		b, _ := json.Marshal(tl)
		rw.Header().Set("Content-Type", "application/json")
		rw.WriteHeader(http.StatusOK)
		_, _ = rw.Write(b)
	default:
		c20NotFound(rw)
	}
}

// --------------------------------------------------------------- op interpreter

// c20Res is what an operation handed back to its caller.
type c20Res struct {
	Out      [][]byte // every byte string returned by a read
	Sizes    []int64  // sizes reported by head-like operations
	Err      error
	Panicked string
	Skipped  bool
}

func c20Ctx() (context.Context, context.CancelFunc) {
	return context.WithTimeout(context.Background(), 20*time.Second)
}

// ctx: live (with a generous deadline) or, for the context-state dimension,
// cancelled before the operation starts.
func (w *c20World) ctx() (context.Context, context.CancelFunc) {
	ctx, cancel := c20Ctx()
	if w.cancelled {
		cancel()
	}
	return ctx, cancel
}

// mkRef builds a reference to the layout at dir the way an application would
// from untrusted tag / digest strings.
func (w *c20World) mkRef(dir string, s c20RefSpec) (ref.Ref, error) {
	base, err := ref.New("ocidir://" + dir)
	if err != nil {
		return base, err
	}
	tag, dig := w.g.expand(s.Tag), w.digest(s.Dig)
	switch s.How {
	case "settag":
		return base.SetTag(tag), nil
	case "setdigest":
		return base.SetDigest(dig), nil
	case "adddigest":
		return base.SetTag(tag).AddDigest(dig), nil
	case "struct":
		return ref.Ref{Scheme: "ocidir", Reference: "ocidir://" + dir, Path: dir, Tag: tag, Digest: dig,
			Repository: w.g.expand(s.Repo), Registry: w.g.expand(s.Registry)}, nil
	case "parse":
		str := "ocidir://" + dir
		if tag != "" {
			str += ":" + tag
		}
		if dig != "" {
			str += "@" + dig
		}
		r, err := ref.New(str)
		if err != nil {
			return r, err
		}
		if r.Path != dir {
			return r, fmt.Errorf("parsed path differs from the designated directory")
		}
		return r, nil
	}
	return base, nil
}

func (w *c20World) mkDesc(d c20Desc) descriptor.Descriptor {
	jd := w.jdesc(d, "")
	return descriptor.Descriptor{MediaType: jd.MediaType, Digest: digest.Digest(jd.Digest), Size: jd.Size}
}

// mkManifest builds the manifest value handed to ManifestPut / WithManifest.
func (w *c20World) mkManifest(op c20Op) (manifest.Manifest, error) {
	var k int
	if _, err := fmt.Sscanf(op.Man, "#%d", &k); err != nil || k >= len(w.mans) {
		return nil, fmt.Errorf("no such manifest %q", op.Man)
	}
	b := w.mans[k]
	switch op.ManHow {
	case "desc-hostile":
		d := w.mkDesc(op.Desc)
		d.MediaType = b.MT
		return manifest.New(manifest.WithDesc(d), manifest.WithRaw(b.Body))
	case "head-only":
		d := w.mkDesc(op.Desc)
		d.MediaType = b.MT
		return manifest.New(manifest.WithDesc(d))
	}
	return manifest.New(manifest.WithRaw(b.Body), manifest.WithDesc(descriptor.Descriptor{MediaType: b.MT}))
}

func c20ReadAll(r io.Reader) []byte {
	b, _ := io.ReadAll(io.LimitReader(r, 4<<20))
	return b
}

// runOp executes one layout operation against the layout at dir.
func (w *c20World) runOp(op c20Op, dir string, rc *regclient.RegClient, o *ocidir.OCIDir) (res c20Res) {
	defer func() {
		if p := recover(); p != nil {
			if inf, ok := p.(c20Infra); ok {
				panic(inf)
			}
			res.Panicked = fmt.Sprint(p)
		}
	}()
	ctx, cancel := w.ctx()
	defer cancel()
	r, err := w.mkRef(dir, op.Ref)
	if err != nil {
		return c20Res{Err: err, Skipped: true}
	}
	oci := op.Via == "oci"
	d := w.mkDesc(op.Desc)
	switch op.Op {
	case "blob.get", "blob.getconfig":
		if op.Op == "blob.getconfig" && !oci {
			c, err := rc.BlobGetOCIConfig(ctx, r, d)
			if err != nil {
				return c20Res{Err: err}
			}
			b, _ := c.RawBody()
			return c20Res{Out: [][]byte{b}}
		}
		var rd io.ReadCloser
		if oci {
			rd, err = o.BlobGet(ctx, r, d)
		} else {
			rd, err = rc.BlobGet(ctx, r, d)
		}
		if err != nil {
			return c20Res{Err: err}
		}
		b := c20ReadAll(rd)
		_ = rd.Close()
		return c20Res{Out: [][]byte{b}}
	case "blob.head":
		var sz int64
		if oci {
			br, err := o.BlobHead(ctx, r, d)
			if err != nil {
				return c20Res{Err: err}
			}
			sz = br.GetDescriptor().Size
		} else {
			br, err := rc.BlobHead(ctx, r, d)
			if err != nil {
				return c20Res{Err: err}
			}
			sz = br.GetDescriptor().Size
		}
		return c20Res{Sizes: []int64{sz}}
	case "blob.mount":
		tgt, _ := w.mkRef(dir, c20RefSpec{How: "settag", Tag: "mounted"})
		if oci {
			return c20Res{Err: o.BlobMount(ctx, r, tgt, d)}
		}
		return c20Res{Err: rc.BlobMount(ctx, r, tgt, d)}
	case "blob.delete":
		if oci {
			return c20Res{Err: o.BlobDelete(ctx, r, d)}
		}
		return c20Res{Err: rc.BlobDelete(ctx, r, d)}
	case "blob.put":
		if op.Desc.Dig == "" {
			d = descriptor.Descriptor{}
		}
		body := []byte(op.Body)
		switch op.SizeHow {
		case "exact":
			d.Size = int64(len(body))
		case "off":
			d.Size = int64(len(body)) + 1
		}
		if op.Prefer512 {
			_ = d.DigestAlgoPrefer(digest.SHA512)
		}
		var rdr io.Reader = bytes.NewReader(body)
		switch op.Reader {
		case "blob":
			// what BlobCopy / ImageCopy hand over: a blob reader that carries the same descriptor
			rdr = blob.NewReader(blob.WithDesc(d), blob.WithReader(bytes.NewReader(body)))
		case "blob-nodesc":
			rdr = blob.NewReader(blob.WithReader(bytes.NewReader(body)))
		case "plain":
			rdr = io.MultiReader(bytes.NewReader(body)) // neither Seeker nor blob reader
		}
		if oci {
			_, err = o.BlobPut(ctx, r, d, rdr)
		} else {
			_, err = rc.BlobPut(ctx, r, d, rdr)
		}
		return c20Res{Err: err}
	case "manifest.get":
		var m manifest.Manifest
		if oci {
			m, err = o.ManifestGet(ctx, r)
		} else if op.Platform {
			mo := []regclient.ManifestOpts{regclient.WithManifestPlatform(platform.Platform{OS: "linux", Architecture: "amd64"})}
			if op.Flag {
				mo = append(mo, regclient.WithManifestDesc(d))
			}
			m, err = rc.ManifestGet(ctx, r, mo...)
		} else if op.Flag {
			m, err = rc.ManifestGet(ctx, r, regclient.WithManifestDesc(d))
		} else {
			m, err = rc.ManifestGet(ctx, r)
		}
		if err != nil {
			return c20Res{Err: err}
		}
		b, _ := m.RawBody()
		return c20Res{Out: [][]byte{b}, Sizes: []int64{m.GetDescriptor().Size}}
	case "manifest.head":
		var m manifest.Manifest
		if oci {
			m, err = o.ManifestHead(ctx, r)
		} else if op.Platform {
			mo := []regclient.ManifestOpts{regclient.WithManifestPlatform(platform.Platform{OS: "linux", Architecture: "amd64"})}
			if op.Flag {
				mo = append(mo, regclient.WithManifestRequireDigest())
			}
			m, err = rc.ManifestHead(ctx, r, mo...)
		} else if op.Flag {
			m, err = rc.ManifestHead(ctx, r, regclient.WithManifestRequireDigest())
		} else {
			m, err = rc.ManifestHead(ctx, r)
		}
		if err != nil {
			return c20Res{Err: err}
		}
		b, _ := m.RawBody()
		return c20Res{Out: [][]byte{b}, Sizes: []int64{m.GetDescriptor().Size}}
	case "manifest.put":
		m, err := w.mkManifest(op)
		if err != nil {
			return c20Res{Err: err}
		}
		if oci {
			var so []scheme.ManifestOpts
			if op.Flag {
				so = append(so, scheme.WithManifestChild())
			}
			return c20Res{Err: o.ManifestPut(ctx, r, m, so...)}
		}
		var mo []regclient.ManifestOpts
		if op.Flag {
			mo = append(mo, regclient.WithManifestChild())
		}
		return c20Res{Err: rc.ManifestPut(ctx, r, m, mo...)}
	case "manifest.delete":
		var m manifest.Manifest
		if op.Man != "" {
			m, err = w.mkManifest(op)
			if err != nil {
				return c20Res{Err: err}
			}
		}
		if oci {
			var so []scheme.ManifestOpts
			if m != nil {
				so = append(so, scheme.WithManifest(m))
			}
			if op.Flag {
				so = append(so, scheme.WithManifestCheckReferrers())
			}
			return c20Res{Err: o.ManifestDelete(ctx, r, so...)}
		}
		var mo []regclient.ManifestOpts
		if m != nil {
			mo = append(mo, regclient.WithManifest(m))
		}
		if op.Flag {
			mo = append(mo, regclient.WithManifestCheckReferrers())
		}
		return c20Res{Err: rc.ManifestDelete(ctx, r, mo...)}
	case "tag.delete":
		if oci {
			return c20Res{Err: o.TagDelete(ctx, r)}
		}
		return c20Res{Err: rc.TagDelete(ctx, r)}
	case "tag.list":
		if oci {
			tl, err := o.TagList(ctx, r)
			if err != nil {
				return c20Res{Err: err}
			}
			b, _ := tl.RawBody()
			return c20Res{Out: [][]byte{b}}
		}
		tl, err := rc.TagList(ctx, r)
		if err != nil {
			return c20Res{Err: err}
		}
		b, _ := tl.RawBody()
		return c20Res{Out: [][]byte{b}}
	case "referrer.list":
		var ro []scheme.ReferrerOpts
		if op.Flag {
			// referrers kept in another repository: here a second reference to the same directory
			src, _ := w.mkRef(dir, c20RefSpec{How: "settag", Tag: "v1"})
			ro = append(ro, scheme.WithReferrerSource(src))
		}
		if op.Platform {
			ro = append(ro, scheme.WithReferrerPlatform("linux/amd64"))
		}
		if op.Tag2 != "" {
			ro = append(ro, scheme.WithReferrerMatchOpt(descriptor.MatchOpt{ArtifactType: c20MTArtifact, SortAnnotation: w.g.expand(op.Tag2)}))
		}
		var rl referrer.ReferrerList
		if oci {
			rl, err = o.ReferrerList(ctx, r, ro...)
		} else {
			rl, err = rc.ReferrerList(ctx, r, ro...)
		}
		if err != nil {
			return c20Res{Err: err}
		}
		if rl.Manifest != nil {
			b, _ := rl.Manifest.RawBody()
			return c20Res{Out: [][]byte{b}}
		}
		return c20Res{}
	case "image.config":
		c, err := rc.ImageConfig(ctx, r)
		if err != nil {
			return c20Res{Err: err}
		}
		b, _ := c.RawBody()
		return c20Res{Out: [][]byte{b}}
	case "image.export":
		var buf bytes.Buffer
		err := rc.ImageExport(ctx, r, &buf)
		return c20Res{Out: [][]byte{buf.Bytes()}, Err: err}
	case "image.copy":
		tgt, _ := w.mkRef(dir, c20RefSpec{How: "settag", Tag: op.Tag2})
		var io2 []regclient.ImageOpts
		if op.Flag {
			io2 = append(io2, regclient.ImageWithReferrers())
		}
		if op.Platform {
			io2 = append(io2, regclient.ImageWithPlatforms([]string{"linux/amd64"}))
		}
		return c20Res{Err: rc.ImageCopy(ctx, r, tgt, io2...)}
	case "close":
		if oci {
			return c20Res{Err: o.Close(ctx, r)}
		}
		return c20Res{Err: rc.Close(ctx, r)}
	}
	return c20Res{Err: fmt.Errorf("unknown op %q", op.Op), Skipped: true}
}

// c20Zstd compresses with the repository's own zstd writer.
func c20Zstd(b []byte) []byte {
	rc, err := archive.Compress(bytes.NewReader(b), archive.CompressZstd)
	c20Must(err)
	out, err := io.ReadAll(rc)
	c20Must(err)
	_ = rc.Close()
	return out
}
