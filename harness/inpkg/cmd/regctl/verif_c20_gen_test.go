//go:build c20

package main

// C20 case types and generators (the only place randomness enters).

import (
	"strings"

	"pgregory.net/rapid"
)

// ------------------------------------------------------------------ case types

type c20Case struct {
	Surface string      `json:"surface"` // extract | import | artifact | layout | copy
	PrePop  bool        `json:"prepop,omitempty"`
	Extract *c20Extract `json:"extract,omitempty"`
	Import  *c20Import  `json:"import,omitempty"`
	Art     *c20Art     `json:"art,omitempty"`
	Lay     *c20Lay     `json:"lay,omitempty"`
	Copy    *c20Copy    `json:"copy,omitempty"`
	// PathForm: how the designated directory is spelled to the code under test:
	// "" absolute | "slash" absolute with trailing "/" | "rel" relative to the working
	// directory (= G) | "reldot" "./"-relative.
	PathForm string `json:"path_form,omitempty"`
	// Ctx: "" live context | "cancelled" the context is already cancelled when the operation starts
	Ctx string `json:"ctx,omitempty"`
	// Classes are the hostile-string classes drawn for this case, as
	// "<operation>|<class>" (evidence only; the verdict never reads them).
	Classes []string `json:"classes,omitempty"`
}

type c20Extract struct {
	Ents []c20TarEnt `json:"ents"`
	Gzip bool        `json:"gzip,omitempty"`
	Zstd bool        `json:"zstd,omitempty"`
	// TarOpt passes archive.TarCompressGzip (a Tar() option that Extract accepts and ignores)
	TarOpt bool   `json:"tar_opt,omitempty"`
	Sub    string `json:"sub,omitempty"` // extract into G/out/<sub> (pre-created) instead of G/out
	// ReadFile additionally runs blob.BTarReader.ReadFile(<name>) over the archive
	ReadFile string `json:"read_file,omitempty"`
	// Raw, when set, is the archive verbatim (native fuzzing only)
	Raw []byte `json:"raw,omitempty"`
}

// c20Desc is a descriptor whose digest is a token ("$C", "$L1", "$L2", "$E",
// "$MISSING", "$Bk" = Spec.Blobs[k], "#k" = Spec.Mans[k]) or a literal
// (hostile) string in which ${G} is replaced by the guard directory.
type c20Desc struct {
	Dig     string `json:"dig"`
	MT      string `json:"mt,omitempty"`
	Size    int64  `json:"size,omitempty"`
	Tag     string `json:"tag,omitempty"`   // org.opencontainers.image.ref.name (index.json entries)
	Title   string `json:"title,omitempty"` // org.opencontainers.image.title
	NoTitle bool   `json:"no_title,omitempty"`
	Unpack  bool   `json:"unpack,omitempty"` // io.deis.oras.content.unpack=true
	// EmptyTitle: the title annotation is present with the empty string
	EmptyTitle bool `json:"empty_title,omitempty"`
	// Inline: the descriptor carries a data field (the real bytes, or arbitrary bytes next to a hostile digest)
	Inline bool `json:"inline,omitempty"`
}

type c20Man struct {
	Kind     string    `json:"kind"` // image | artifact | index | ociartifact (blobs[]) | schema1 (fsLayers[])
	Docker   bool      `json:"docker,omitempty"`
	Config   c20Desc   `json:"config"`
	Layers   []c20Desc `json:"layers,omitempty"`
	Subject  *c20Desc  `json:"subject,omitempty"`
	Children []c20Desc `json:"children,omitempty"`
}

type c20Blob struct {
	Data string      `json:"data,omitempty"`
	Tar  []c20TarEnt `json:"tar,omitempty"`
	Gzip bool        `json:"gzip,omitempty"`
	Zstd bool        `json:"zstd,omitempty"`
}

// c20Referrers is a referrers response for one subject (fallback tag and/or API).
type c20Referrers struct {
	Subject string    `json:"subject"` // "#k" or a literal digest
	List    []c20Desc `json:"list"`
	API     bool      `json:"api,omitempty"` // the registry also answers /referrers/<digest>
}

// c20Layout is the content of a layout directory / fake registry repository.
type c20Layout struct {
	Blobs []c20Blob `json:"blobs,omitempty"`
	Mans  []c20Man  `json:"mans,omitempty"`
	Index []c20Desc `json:"index,omitempty"` // index.json entries
	// Algo: "" sha256 | "sha512": digest algorithm of all content (blobs/<algo>/…)
	Algo      string        `json:"algo,omitempty"`
	Referrers *c20Referrers `json:"referrers,omitempty"`
}

type c20RefSpec struct {
	How string `json:"how"` // none settag setdigest adddigest struct parse
	Tag string `json:"tag,omitempty"`
	Dig string `json:"dig,omitempty"`
	// struct only: further untrusted fields of a hand-built ref.Ref
	Repo     string `json:"repo,omitempty"`
	Registry string `json:"registry,omitempty"`
}

type c20Op struct {
	Op     string     `json:"op"`
	Via    string     `json:"via"` // rc | oci
	Ref    c20RefSpec `json:"ref"`
	Desc   c20Desc    `json:"desc,omitempty"`
	Man    string     `json:"man,omitempty"`     // "#k": manifest handed to put / WithManifest
	ManHow string     `json:"man_how,omitempty"` // raw | desc-hostile | head-only
	Body   string     `json:"body,omitempty"`
	Flag   bool       `json:"flag,omitempty"` // op specific option (child / check-referrers / require-digest / with-desc)
	Tag2   string     `json:"tag2,omitempty"`
	// blob.put: how the content is handed over and what the descriptor says about it
	Reader    string `json:"reader,omitempty"`   // "" bytes.Reader | blob (blob.Reader, same descriptor) | blob-nodesc | plain (no Seek)
	SizeHow   string `json:"size_how,omitempty"` // "" as drawn | exact | off (by one)
	Prefer512 bool   `json:"prefer512,omitempty"`
	// manifest.get / manifest.head / referrer.list / image.copy: platform option
	Platform bool `json:"platform,omitempty"`
}

type c20Lay struct {
	Spec c20Layout `json:"spec"`
	NoGC bool      `json:"no_gc,omitempty"`
	// Empty: the layout directory starts empty (no oci-layout, index.json, blobs)
	Empty bool    `json:"empty,omitempty"`
	Ops   []c20Op `json:"ops"`
}

type c20Copy struct {
	Spec    c20Layout  `json:"spec"`
	Src     string     `json:"src"`  // ocidir | reg
	Mode    string     `json:"mode"` // copy | export-import | blobcopy
	SrcRef  c20RefSpec `json:"src_ref"`
	DstRef  c20RefSpec `json:"dst_ref"`
	Desc    c20Desc    `json:"desc,omitempty"`
	AnyBlob bool       `json:"any_blob,omitempty"` // registry answers unknown blob digests with filler bytes
	Refs    bool       `json:"refs,omitempty"`     // ImageWithReferrers
	DigTags bool       `json:"dig_tags,omitempty"` // ImageWithDigestTags
	Force   bool       `json:"force,omitempty"`    // ImageWithForceRecursive
	DstPop  bool       `json:"dst_pop,omitempty"`  // target layout already holds the valid content
	// further library options of ImageCopy / ImageExport
	Platforms bool `json:"platforms,omitempty"` // ImageWithPlatforms(linux/amd64)
	Child     bool `json:"child,omitempty"`     // ImageWithChild
	Fast      bool `json:"fast,omitempty"`      // ImageWithFastCheck
	Callback  bool `json:"callback,omitempty"`  // ImageWithCallback / BlobWithCallback
	ExportGz  bool `json:"export_gz,omitempty"` // ImageWithExportCompress
	// HdrDig: the registry sends this (hostile) value as Docker-Content-Digest on every response
	HdrDig string `json:"hdr_dig,omitempty"`
}

type c20Docker struct {
	Config   string   `json:"config"`
	Layers   []string `json:"layers,omitempty"`
	RepoTags []string `json:"repo_tags,omitempty"`
}

type c20Import struct {
	Spec       c20Layout   `json:"spec"`
	Docker     *c20Docker  `json:"docker,omitempty"`
	Extra      []c20TarEnt `json:"extra,omitempty"`
	ExtraFirst bool        `json:"extra_first,omitempty"`
	OmitLayout bool        `json:"omit_layout,omitempty"`
	OmitIndex  bool        `json:"omit_index,omitempty"`
	Prefix     string      `json:"prefix,omitempty"` // "", "./", "/"
	Gzip       bool        `json:"gzip,omitempty"`
	Zstd       bool        `json:"zstd,omitempty"`
	Reverse    bool        `json:"reverse,omitempty"` // blobs first, index.json and oci-layout last
	Ref        c20RefSpec  `json:"ref"`
	ImportName string      `json:"import_name,omitempty"`
	DstPop     bool        `json:"dst_pop,omitempty"`
}

type c20Art struct {
	Spec       c20Layout `json:"spec"`
	Src        string    `json:"src"` // reg | ocidir
	Tag        string    `json:"tag"`
	StripDirs  bool      `json:"strip_dirs,omitempty"`
	ConfigFile bool      `json:"config_file,omitempty"` // --config-file G/out/cfg.json
	Filter     string    `json:"filter,omitempty"`      // --file <title>
	// ArtMan is the number of the artifact manifest in Spec.Mans
	ArtMan int `json:"art_man,omitempty"`
	// Subject: regctl artifact get --subject <ref> (referrers lookup, then SetDigest of the first descriptor)
	Subject  bool   `json:"subject,omitempty"`
	Platform bool   `json:"platform,omitempty"` // --platform linux/amd64
	FileMT   bool   `json:"file_mt,omitempty"`  // --file-media-type <layer media type>
	HdrDig   string `json:"hdr_dig,omitempty"`
}

// ----------------------------------------------------------------- generators

type c20Gen struct {
	t       *rapid.T
	classes []string
	// embedded is set while drawing digests that are stored *inside* manifests.
	// Those never lack the ':' separator: go-digest panics on such a value, copy
	// walks nested manifests in goroutines of the code under test, and a panic
	// there kills the test process (inconclusive) instead of yielding a verdict.
	// Colon-less digests stay in every directly called operation.
	embedded bool
}

func (g *c20Gen) note(op, class string) {
	g.classes = append(g.classes, op+"|"+class)
}

func (g *c20Gen) pick(label string, n int) int { return rapid.IntRange(0, n-1).Draw(g.t, label) }
func (g *c20Gen) chance(label string, oneIn int) bool {
	return rapid.IntRange(0, oneIn-1).Draw(g.t, label) == 0
}
func (g *c20Gen) from(label string, xs ...string) string {
	return rapid.SampledFrom(xs).Draw(g.t, label)
}

// ups draws a number of "../" segments, weighted towards the small counts
// that land inside the guard directory.
func (g *c20Gen) ups() int {
	return rapid.SampledFrom([]int{1, 1, 1, 2, 2, 2, 3, 3, 3, 4, 4, 5, 6}).Draw(g.t, "ups")
}

func (g *c20Gen) tail() string {
	return g.from("tail", "victim", "victim", "victim", "secret", "secret", "secret", "secret.json", "secret.json", "secret.json",
		"victimdir/f", "victimdir/f", "emptydir", "victim.txt", "victimdir", "other/a", "other/new", "newfile", "outx/file", "out.bak", "out/../victim")
}

var c20HexA = strings.Repeat("a", 64)

// hostilePath draws one string from the hostile name grammar and its class.
func (g *c20Gen) hostilePath() (string, string) {
	switch g.pick("pathkind", 17) {
	case 16:
		// longer than the 100 byte ustar name field: the ../ part travels in the prefix field
		// (or a PAX / GNU long-name record), the decoy name in the name field
		return strings.Repeat("../", g.ups()) + strings.Repeat("p", g.pick("splitlen", 3)+97) + "/../" + g.tail(), "ustar-split"
	case 0:
		return g.from("benign", "a.txt", "d/e.txt", "x", "dir2/", "f.tar", "sub/deep/er/file", "ctl"), "benign"
	case 1, 2, 3:
		return strings.Repeat("../", g.ups()) + g.tail(), "dots"
	case 4:
		pre := g.from("pre", "a/", "a/b/", "./", "dir/", "exist.txt/", "x/./", "dir/sub/")
		depth := strings.Count(strings.ReplaceAll(pre, "./", ""), "/")
		if strings.HasPrefix(pre, "x/./") {
			depth = 1
		}
		return pre + strings.Repeat("../", depth+g.ups()) + g.tail(), "mid-dots"
	case 5:
		return c20GToken + "/" + g.tail(), "abs-G"
	case 6:
		return c20GToken + "/out/" + strings.Repeat("../", g.ups()) + g.tail(), "abs-G-dots"
	case 7:
		return g.from("lead", "/", "//", "/./", "/../") + strings.Repeat("../", g.ups()) + g.tail(), "abs-dots"
	case 8:
		s := strings.Repeat("../", g.ups()) + g.tail()
		switch g.pick("bs", 3) {
		case 0:
			return strings.ReplaceAll(s, "/", "\\"), "backslash"
		case 1:
			return strings.Replace(s, "/", "\\", 1), "backslash"
		default:
			return "..\\" + s, "backslash"
		}
	case 9:
		s := strings.Repeat("../", g.ups()) + g.tail()
		pos := rapid.IntRange(0, len(s)).Draw(g.t, "nulpos")
		return s[:pos] + "\x00" + s[pos:], "nul"
	case 10:
		switch g.pick("long", 6) {
		case 0:
			return strings.Repeat("a", 255), "long-255"
		case 1:
			return strings.Repeat("a", 256), "long-256"
		case 2:
			return strings.Repeat("../", g.ups()) + strings.Repeat("b", 255), "long-255"
		case 3:
			return strings.Repeat("c", 300) + "/" + strings.Repeat("../", 1+g.ups()) + g.tail(), "long-256"
		case 4:
			return strings.Repeat("d/", 2047) + "ff", "long-4096"
		default:
			return strings.Repeat("../", g.ups()) + strings.Repeat("e", 4096), "long-4096"
		}
	case 11:
		return g.from("collide", "exist.txt", "exist.txt/x", "dir", "dir/f", "dir/sub", "dir/sub/../../../victim",
			"exist.txt/../../victim", "dir/../../secret", "oci-layout", "index.json", "blobs", "blobs/sha256"), "collide"
	case 12:
		return g.from("dotnames", ".", "..", "", "/", "//", "./", "../", ".../victim", "..../victim", "...", "../.", "./..", "../..", "../../"), "dotnames"
	case 13:
		return g.from("encoded", "..%2fvictim", "%2e%2e/victim", "..%00/victim", "‥/victim", "..／victim", "．．/victim",
			"..%252fvictim", "..;/victim", "..\t/victim", " ../victim", "../ victim", "~/victim", "$HOME/victim", "${G}/../G/victim"), "encoded"
	case 14:
		return strings.Repeat("../", g.ups()) + g.tail() + "/", "dots-trailing-slash"
	default:
		// an up/down walk that ends exactly next to a decoy through a directory that exists
		return g.from("walk", "../out/../victim", "../other/../victim", "../victimdir/../secret", "../out/../out/../victim",
			"../../G/victim", "../../../f/G/secret", "./../victimdir/f", "../emptydir/new"), "walk"
	}
}

// isNT reports the property's non-triviality rule for one string.
func c20IsNT(s string) bool {
	return strings.Contains(s, "..") || strings.HasPrefix(s, "/") || strings.HasPrefix(s, c20GToken) ||
		strings.Contains(s, "\x00") || len(s) > 255
}

func (g *c20Gen) path(op string) string {
	s, cl := g.hostilePath()
	g.note(op, cl)
	return s
}

// digest draws a digest string: tokens for existing content, or hostile forms.
func (g *c20Gen) digest(op string, nmans, nblobs int) string {
	valid := func() string {
		xs := []string{"$C", "$L1", "$L2", "$E"}
		for i := 0; i < nmans; i++ {
			xs = append(xs, "#"+string(rune('0'+i)))
		}
		for i := 0; i < nblobs; i++ {
			xs = append(xs, "$B"+string(rune('0'+i)))
		}
		return rapid.SampledFrom(xs).Draw(g.t, "validdig")
	}
	switch g.pick("digkind", 16) {
	case 14:
		// exactly as many ../ as it takes to leave <layout>/blobs/<alg>/ for the guard directory
		g.note(op, "dig:enc-exact")
		return g.from("exactalg", "sha256", "sha256", "sha512", "sha384") + ":../../../" + g.tail()
	case 15:
		g.note(op, "dig:alg-exact")
		return g.from("algexact", "../..:", "sha256/../../..:", "../../victimdir/..:") + g.tail()
	case 0, 1:
		g.note(op, "dig:valid")
		return valid()
	case 2:
		g.note(op, "dig:missing")
		return "$MISSING"
	case 3, 4, 5, 6:
		p, cl := g.hostilePath()
		g.note(op, "dig:enc:"+cl)
		return g.from("alg", "sha256", "sha256", "sha256", "sha512", "sha384", "blake3", "SHA256", "sha256+b64", "md5") + ":" + p
	case 7:
		g.note(op, "dig:enc-hex-dots")
		return "sha256:" + c20HexA + "/" + strings.Repeat("../", 1+g.ups()) + g.tail()
	case 8, 9:
		// algorithm part walks up, encoded part names the decoy
		g.note(op, "dig:alg-dots")
		alg := strings.TrimSuffix(strings.Repeat("../", g.ups()), "/")
		if g.chance("algpre", 3) {
			alg = g.from("algprefix", "sha256/", "x/", "./") + alg
		}
		return alg + ":" + g.tail()
	case 10:
		p, cl := g.hostilePath()
		g.note(op, "dig:alg:"+cl)
		return p + ":" + g.from("enc", c20HexA, "f", "victim", "")
	case 11:
		p, cl := g.hostilePath()
		if g.embedded {
			g.note(op, "dig:colonfirst:"+cl)
			return ":" + p
		}
		g.note(op, "dig:nocolon:"+cl)
		return strings.ReplaceAll(p, ":", "")
	case 12:
		g.note(op, "dig:degenerate")
		if g.embedded {
			return g.from("degenerate", "", ":", "sha256:", ":abc", "sha256::", "sha256:"+c20HexA+":x", "sha256:"+strings.ToUpper(c20HexA),
				"sha256:"+c20HexA[:63], "sha256:"+c20HexA+"a", "sha512:"+c20HexA)
		}
		return g.from("degenerate", "", ":", "sha256:", ":abc", "sha256", "sha256::", "sha256:"+c20HexA+":x", "sha256:"+strings.ToUpper(c20HexA),
			"sha256:"+c20HexA[:63], "sha256:"+c20HexA+"a", "sha512:"+c20HexA)
	default:
		g.note(op, "dig:abs-G")
		return g.from("absform", "sha256:"+c20GToken+"/", c20GToken+"/:", "sha256:/"+c20GToken+"/../") + g.tail()
	}
}

func (g *c20Gen) tag(op string) string {
	switch g.pick("tagkind", 6) {
	case 0, 1:
		g.note(op, "tag:known")
		return g.from("knowntag", "v1", "v2", "t", "evil", "latest")
	case 2:
		g.note(op, "tag:missing")
		return "nosuchtag"
	default:
		p, cl := g.hostilePath()
		g.note(op, "tag:"+cl)
		return p
	}
}

func (g *c20Gen) refSpec(op string, nmans, nblobs int) c20RefSpec {
	r := c20RefSpec{How: g.from("refhow", "settag", "setdigest", "setdigest", "setdigest", "adddigest", "struct", "struct", "parse", "none")}
	switch r.How {
	case "settag":
		r.Tag = g.tag(op)
	case "setdigest":
		r.Dig = g.digest(op, nmans, nblobs)
	case "adddigest":
		r.Tag = g.tag(op)
		r.Dig = g.digest(op, nmans, nblobs)
	case "struct":
		if g.chance("structtag", 2) {
			r.Tag = g.tag(op)
		}
		r.Dig = g.digest(op, nmans, nblobs)
		if g.chance("structrepo", 2) {
			r.Repo, _ = g.hostilePath()
			r.Registry, _ = g.hostilePath()
		}
	case "parse":
		r.Tag = g.from("ptag", "v1", "v2", "t", "latest", "")
		if g.chance("pdig", 2) {
			r.Dig = g.from("pdigv", "$C", "$L1", "#0", "$MISSING")
		}
	}
	return r
}

func (g *c20Gen) tarEnt(op string) c20TarEnt {
	e := c20TarEnt{}
	e.Type = g.from("type", "reg", "reg", "reg", "reg", "dir", "dir", "sym", "sym", "hard", "hard", "char", "block", "fifo", "rega", "cont", "xglobal")
	e.Name = g.path(op + ":name:" + e.Type)
	if e.Type == "dir" && g.chance("dirslash", 2) && !strings.HasSuffix(e.Name, "/") {
		e.Name += "/"
	}
	switch e.Type {
	case "sym", "hard":
		if g.chance("linkbenign", 4) {
			e.Link = g.from("blink", "exist.txt", "dir", "ctl", ".")
		} else {
			e.Link = g.path(op + ":link:" + e.Type)
		}
	case "reg", "rega", "cont":
		e.Size = rapid.SampledFrom([]int{0, 1, 9, 40, 600, 511, 512, 513, 32769}).Draw(g.t, "size")
	}
	e.Mode = rapid.SampledFrom([]int64{0o644, 0o755, 0o777, 0, 0o4755, 0o1777, 0o200}).Draw(g.t, "mode")
	e.Fmt = g.from("fmt", "pax", "pax", "gnu", "ustar", "raw")
	return e
}

func (g *c20Gen) tarEnts(op string, min, max int) []c20TarEnt {
	n := rapid.IntRange(min, max).Draw(g.t, "nents")
	out := make([]c20TarEnt, 0, n+1)
	// benign control members first: they show the archive is being processed and
	// provide the parent directories that the benign / "mid-dots" names walk through
	out = append(out, c20TarEnt{Name: "ctl", Type: "reg", Size: 9, Mode: 0o644},
		c20TarEnt{Name: "a/b/", Type: "dir", Mode: 0o755}, c20TarEnt{Name: "d/", Type: "dir", Mode: 0o755})
	for i := 0; i < n; i++ {
		e := g.tarEnt(op)
		// follow-ups through a just-created name: "<linkname>/x" after a link entry
		if i > 0 && g.chance("through", 4) {
			prev := out[len(out)-1]
			e.Name = strings.TrimSuffix(prev.Name, "/") + "/" + g.from("thr", "x", "victim", "../victim", "f")
		}
		out = append(out, e)
	}
	return out
}

func (g *c20Gen) extract() *c20Extract {
	x := &c20Extract{Ents: g.tarEnts("extract", 1, 6), Gzip: g.chance("gz", 4), TarOpt: g.chance("taropt", 6)}
	if !x.Gzip && g.chance("zstd", 5) {
		x.Zstd = true
		g.note("dim", "compress:zstd")
	}
	if g.chance("sub", 4) {
		x.Sub = "dir"
	}
	if g.chance("readfile", 4) {
		x.ReadFile = g.path("tar.readfile")
	}
	return x
}

// desc draws a descriptor for a position inside a manifest / an operation.
func (g *c20Gen) desc(op string, nmans, nblobs int, hostileOneIn int) c20Desc {
	d := c20Desc{}
	if g.chance("hostiledesc", hostileOneIn) {
		d.Dig = g.digest(op, nmans, nblobs)
		d.Size = rapid.SampledFrom([]int64{0, 0, 7, c20SecretSize, c20SecretManSize, 12}).Draw(g.t, "dsize")
	} else {
		xs := []string{"$C", "$L1", "$L2", "$E"}
		for i := 0; i < nblobs; i++ {
			xs = append(xs, "$B"+string(rune('0'+i)))
		}
		d.Dig = rapid.SampledFrom(xs).Draw(g.t, "vdesc")
		g.note(op, "dig:valid")
	}
	if g.embedded && g.chance("inline", 8) {
		d.Inline = true
		g.note("dim", "desc:inline-data")
	}
	return d
}

// layout draws the content of a layout / repository.
func (g *c20Gen) layout(op string, hostileOneIn int) c20Layout {
	var l c20Layout
	g.embedded = true
	defer func() { g.embedded = false }()
	if g.chance("algo512", 5) {
		l.Algo = "sha512"
		g.note("dim", "algo:sha512")
	}
	nb := g.pick("nblobs", 3)
	for i := 0; i < nb; i++ {
		l.Blobs = append(l.Blobs, c20Blob{Data: "c20-extra-blob-" + string(rune('0'+i))})
	}
	nm := rapid.IntRange(1, 4).Draw(g.t, "nmans")
	for i := 0; i < nm; i++ {
		m := c20Man{Kind: g.from("mkind", "image", "image", "artifact", "index", "image", "index", "ociartifact", "schema1")}
		if i == 0 && m.Kind == "index" {
			m.Kind = "image"
		}
		m.Docker = g.chance("docker", 5)
		if m.Kind == "ociartifact" || m.Kind == "schema1" {
			m.Docker = false
			g.note("dim", "mankind:"+m.Kind)
		}
		switch m.Kind {
		case "index":
			nc := rapid.IntRange(1, 3).Draw(g.t, "nchildren")
			for j := 0; j < nc; j++ {
				if g.chance("hostilechild", hostileOneIn) {
					m.Children = append(m.Children, c20Desc{Dig: g.digest(op+":child", i, nb), MT: c20MTManifest})
				} else {
					m.Children = append(m.Children, c20Desc{Dig: "#" + string(rune('0'+g.pick("childk", i)))})
				}
			}
		default:
			m.Config = g.desc(op+":config", i, nb, hostileOneIn*2)
			if m.Config.Dig == "$L1" || m.Config.Dig == "$L2" {
				m.Config.Dig = "$C"
			}
			nl := rapid.IntRange(0, 3).Draw(g.t, "nlayers")
			for j := 0; j < nl; j++ {
				m.Layers = append(m.Layers, g.desc(op+":layer", i, nb, hostileOneIn))
			}
		}
		if m.Kind != "schema1" && g.chance("subject", 3) {
			s := c20Desc{MT: c20MTManifest}
			if i > 0 && g.chance("validsubject", 2) {
				s.Dig = "#" + string(rune('0'+g.pick("subjk", i)))
			} else {
				s.Dig = g.digest(op+":subject", i, nb)
			}
			m.Subject = &s
		}
		l.Mans = append(l.Mans, m)
	}
	// index.json entries
	tags := []string{"v1", "v2", "t", "latest"}
	for i := range l.Mans {
		if i == len(l.Mans)-1 || g.chance("tagged", 2) {
			l.Index = append(l.Index, c20Desc{Dig: "#" + string(rune('0'+i)), Tag: tags[i%len(tags)]})
		}
	}
	if g.chance("hostileindex", hostileOneIn) {
		n := rapid.IntRange(1, 2).Draw(g.t, "nhostileidx")
		for i := 0; i < n; i++ {
			e := c20Desc{Dig: g.digest(op+":index.json", nm, nb), MT: g.from("idxmt", c20MTManifest, c20MTIndex, "", c20MTLayer),
				Tag: g.from("idxtag", "evil", "evil", "v1", "", "latest", "docker.io/library/x:evil", "localhost:5000/c20/x:v1")}
			if g.chance("idxtaghostile", 4) {
				e.Tag = g.tag(op + ":index.json")
			}
			if g.chance("idxfirst", 2) {
				l.Index = append([]c20Desc{e}, l.Index...)
			} else {
				l.Index = append(l.Index, e)
			}
		}
	}
	// a referrers response (fallback tag, on a registry optionally the API) for one manifest
	if g.chance("referrers", 3) {
		r := &c20Referrers{Subject: "#" + string(rune('0'+g.pick("refsubj", nm))), API: g.chance("refapi", 2)}
		n := rapid.IntRange(1, 3).Draw(g.t, "nreferrers")
		for i := 0; i < n; i++ {
			if g.chance("hostilereferrer", 2) {
				r.List = append(r.List, c20Desc{Dig: g.digest(op+":referrer", nm, nb), MT: c20MTManifest})
			} else {
				r.List = append(r.List, c20Desc{Dig: "#" + string(rune('0'+g.pick("refk", nm)))})
			}
		}
		l.Referrers = r
		g.note("dim", "referrers:list")
	}
	return l
}

var c20LayoutOps = []string{"blob.get", "blob.get", "blob.head", "blob.delete", "blob.delete", "blob.put", "blob.getconfig",
	"manifest.get", "manifest.get", "manifest.head", "manifest.put", "manifest.delete", "manifest.delete", "manifest.delete",
	"tag.delete", "tag.list", "referrer.list", "image.config", "image.export", "image.copy", "close", "blob.mount"}

func (g *c20Gen) op(nmans, nblobs int) c20Op {
	o := c20Op{Op: rapid.SampledFrom(c20LayoutOps).Draw(g.t, "op"), Via: g.from("via", "rc", "oci")}
	o.Ref = g.refSpec(o.Op+":ref", nmans, nblobs)
	switch o.Op {
	case "blob.get", "blob.head", "blob.delete", "blob.getconfig", "blob.mount":
		o.Desc = g.desc(o.Op+":desc", nmans, nblobs, 1)
		if o.Desc.Size != 0 && g.chance("zerosize", 2) {
			o.Desc.Size = 0
		}
	case "blob.put":
		o.Desc = g.desc(o.Op+":desc", nmans, nblobs, 1)
		o.Body = g.from("body", "c20-put-body", "", "c20-put-body-two", strings.Repeat("c20-32k-", 4097))
		if g.chance("nodesc", 4) {
			o.Desc = c20Desc{}
		}
		o.Reader = g.from("reader", "", "blob", "blob", "blob-nodesc", "plain")
		o.SizeHow = g.from("sizehow", "", "", "exact", "off")
		o.Prefer512 = g.chance("prefer512", 5)
		g.note("dim", "blobput-reader:"+o.Reader)
	case "manifest.get", "manifest.head":
		o.Flag = g.chance("flag", 2)
		if o.Flag {
			o.Desc = g.desc(o.Op+":withdesc", nmans, nblobs, 1)
		}
		if g.chance("platform", 4) {
			o.Platform = true
			g.note("dim", "opt:manifest-platform")
		}
	case "manifest.put":
		o.Man = "#" + string(rune('0'+g.pick("mank", nmans)))
		o.ManHow = g.from("manhow", "raw", "raw", "desc-hostile", "head-only")
		if o.ManHow != "raw" {
			o.Desc = g.desc(o.Op+":mandesc", nmans, nblobs, 1)
		}
		o.Flag = g.chance("child", 3)
	case "manifest.delete":
		if g.chance("withmanifest", 2) {
			o.Man = "#" + string(rune('0'+g.pick("mank", nmans)))
			o.ManHow = g.from("manhow", "raw", "raw", "raw", "head-only")
			if o.ManHow != "raw" {
				o.Desc = g.desc(o.Op+":mandesc", nmans, nblobs, 1)
			}
		}
		o.Flag = g.chance("checkref", 2)
	case "image.copy":
		o.Tag2 = g.tag(o.Op + ":tgt")
		o.Flag = g.chance("refs", 2)
		o.Platform = g.chance("platform", 4)
	case "referrer.list":
		o.Flag = g.chance("refsource", 3)
		o.Platform = g.chance("platform", 4)
		if g.chance("sortannot", 4) {
			o.Tag2 = g.from("sortannot", "preference", "org.opencontainers.image.created", "../../victim")
		}
		if o.Flag || o.Platform || o.Tag2 != "" {
			g.note("dim", "opt:referrer-opts")
		}
	}
	return o
}

func (g *c20Gen) lay() *c20Lay {
	l := &c20Lay{Spec: g.layout("layout", 4), NoGC: g.chance("nogc", 4)}
	if g.chance("emptylayout", 10) {
		l.Empty = true
		g.note("dim", "layout:empty-dir")
	}
	n := rapid.IntRange(1, 5).Draw(g.t, "nops")
	for i := 0; i < n; i++ {
		l.Ops = append(l.Ops, g.op(len(l.Spec.Mans), len(l.Spec.Blobs)))
	}
	return l
}

func (g *c20Gen) copy() *c20Copy {
	c := &c20Copy{Spec: g.layout("copy", 2), Src: g.from("src", "ocidir", "reg"), Mode: g.from("mode", "copy", "copy", "export-import", "blobcopy")}
	nm, nb := len(c.Spec.Mans), len(c.Spec.Blobs)
	op := c.Mode + ":" + c.Src
	if g.chance("srchostile", 3) {
		c.SrcRef = g.refSpec(op+":srcref", nm, nb)
	} else {
		// mostly a tag that exists in the source
		tags := []string{"evil"}
		for _, e := range c.Spec.Index {
			if strings.HasPrefix(e.Dig, "#") && e.Tag != "" {
				tags = append([]string{e.Tag}, tags...)
			}
		}
		c.SrcRef = c20RefSpec{How: "settag", Tag: rapid.SampledFrom(tags).Draw(g.t, "srctag")}
	}
	if g.chance("dsthostile", 2) {
		c.DstRef = g.refSpec(op+":dstref", nm, nb)
	} else {
		c.DstRef = c20RefSpec{How: "settag", Tag: "copied"}
	}
	if c.Mode == "blobcopy" {
		c.Desc = g.desc(op+":desc", nm, nb, 1)
	}
	c.AnyBlob = g.chance("anyblob", 2)
	c.Refs = g.chance("refs", 2)
	c.DigTags = g.chance("digtags", 3)
	c.Force = g.chance("force", 3)
	c.DstPop = g.chance("dstpop", 3)
	c.Platforms = g.chance("platforms", 5)
	c.Child = g.chance("child", 6)
	c.Fast = g.chance("fast", 5)
	c.Callback = g.chance("callback", 4)
	c.ExportGz = g.chance("exportgz", 3)
	if c.Platforms || c.Child || c.Fast || c.Callback {
		g.note("dim", "opt:copy-more-options")
	}
	if c.Src == "reg" && g.chance("hdrdig", 4) {
		g.embedded = true
		c.HdrDig = g.digest(op+":header-digest", nm, nb)
		g.embedded = false
		g.note("dim", "registry:hostile-digest-header")
	}
	return c
}

func (g *c20Gen) imp() *c20Import {
	im := &c20Import{Spec: g.layout("import", 2), Gzip: g.chance("gz", 4), Prefix: g.from("prefix", "", "", "./", "/")}
	nm, nb := len(im.Spec.Mans), len(im.Spec.Blobs)
	if g.chance("docker", 2) {
		d := &c20Docker{Config: g.importPath("import:docker-config"), RepoTags: []string{g.from("repotag", "localhost/x:v1", "x:latest", "../../victim:latest")}}
		nl := rapid.IntRange(0, 3).Draw(g.t, "ndockerlayers")
		for i := 0; i < nl; i++ {
			d.Layers = append(d.Layers, g.importPath("import:docker-layer"))
		}
		im.Docker = d
		im.OmitLayout = g.chance("omitlayout", 2)
		im.OmitIndex = g.chance("omitindex", 3)
	}
	if g.chance("extra", 2) {
		im.Extra = g.tarEnts("import:extra", 1, 4)[3:]
		// make some extras shadow / alias the names the importer looks for
		for i := range im.Extra {
			if g.chance("alias", 3) {
				im.Extra[i].Name = g.from("aliasname", "index.json", "oci-layout", "manifest.json", "blobs/sha256/$C", "blobs/sha256/$L1",
					"blobs/sha256/../../../victim", "blobs/../../secret", "blobs/sha256")
			}
			if (im.Extra[i].Type == "sym" || im.Extra[i].Type == "hard") && g.chance("aliaslink", 3) {
				im.Extra[i].Link = g.from("aliaslink", "index.json", "blobs/sha256/$C", "../../../secret", "/"+c20GToken+"/secret", "blobs/sha256/$L1")
			}
		}
		im.ExtraFirst = g.chance("extrafirst", 2)
	}
	if g.chance("refhostile", 2) {
		im.Ref = g.refSpec("import:ref", nm, nb)
	} else {
		im.Ref = c20RefSpec{How: "settag", Tag: g.from("imptag", "v1", "v2", "t", "latest", "imported")}
	}
	if g.chance("importname", 3) {
		im.ImportName = g.tag("import:name")
	}
	im.DstPop = g.chance("dstpop", 4)
	if g.chance("reverse", 3) {
		im.Reverse = true
		g.note("dim", "import:members-reversed")
	}
	if !im.Gzip && g.chance("zstd", 6) {
		im.Zstd = true
		g.note("dim", "compress:zstd")
	}
	return im
}

// importPath: a docker manifest.json file reference (Config / Layers entry).
func (g *c20Gen) importPath(op string) string {
	if g.chance("benignref", 2) {
		g.note(op, "benign")
		return g.from("benignref", "blobs/sha256/$C", "blobs/sha256/$L1", "blobs/sha256/$L2", "cfg.json", "layer.tar")
	}
	return g.path(op)
}

func (g *c20Gen) art() *c20Art {
	a := &c20Art{Src: g.from("src", "reg", "reg", "ocidir"), Tag: "t", StripDirs: g.chance("strip", 2), ConfigFile: g.chance("cfgfile", 6)}
	var l c20Layout
	if g.chance("algo512", 6) {
		l.Algo = "sha512"
		g.note("dim", "algo:sha512")
	}
	a.Subject = g.chance("subjectroute", 4)
	if a.Subject {
		// the subject image comes first so that the artifact can name it
		l.Mans = append(l.Mans, c20Man{Kind: "image", Config: c20Desc{Dig: "$C"}, Layers: []c20Desc{{Dig: "$L1"}}})
		a.ArtMan = 1
		g.note("dim", "artifact:subject-route")
	}
	m := c20Man{Kind: "artifact", Config: c20Desc{Dig: "$E"}}
	if g.chance("ociartifact", 6) {
		m.Kind = "ociartifact"
		g.note("dim", "mankind:ociartifact")
	}
	if a.Subject {
		m.Subject = &c20Desc{Dig: "#0"}
	}
	if g.chance("hostilecfg", 6) {
		m.Config = c20Desc{Dig: g.digest("artifact:config", 0, 0)}
	}
	nl := rapid.IntRange(1, 4).Draw(g.t, "nlayers")
	for i := 0; i < nl; i++ {
		d := c20Desc{Dig: "$B" + string(rune('0'+i))}
		b := c20Blob{Data: "c20-artifact-layer-" + string(rune('0'+i))}
		op := "artifact"
		if a.StripDirs {
			op = "artifact+strip"
		}
		switch g.pick("titlekind", 9) {
		case 0:
			d.NoTitle = true
			g.note(op+":title", "absent")
		case 1:
			d.EmptyTitle = true
			g.note(op+":title", "empty")
		default:
			d.Title = g.path(op + ":title")
		}
		d.Unpack = g.chance("unpack", 3)
		if d.Unpack || strings.HasSuffix(d.Title, "/") || g.chance("tarblob", 4) {
			uop := op + ":unpack"
			b = c20Blob{Tar: g.tarEnts(uop, 1, 4)}
			switch g.pick("blobcomp", 5) {
			case 0, 1:
				b.Gzip = true
			case 2:
				b.Zstd = true
				g.note("dim", "compress:zstd")
			}
		}
		if g.chance("hostilelayerdig", 8) {
			d.Dig = g.digest(op+":layerdigest", 0, nl)
		}
		if g.chance("inline", 10) {
			d.Inline = true
			g.note("dim", "desc:inline-data")
		}
		l.Blobs = append(l.Blobs, b)
		m.Layers = append(m.Layers, d)
	}
	l.Mans = append(l.Mans, m)
	art := "#" + string(rune('0'+a.ArtMan))
	top := art
	if !a.Subject && g.chance("index", 4) {
		l.Mans = append(l.Mans, c20Man{Kind: "index", Children: []c20Desc{{Dig: art}}})
		top = "#" + string(rune('0'+a.ArtMan+1))
		a.Platform = g.chance("platform", 2)
	}
	if a.Subject {
		top = "#0"
		r := &c20Referrers{Subject: "#0", API: g.chance("refapi", 2)}
		// the first descriptor of the response is the one regctl sets as digest on the reference
		if g.chance("hostilereferrer", 2) {
			g.embedded = true
			r.List = append(r.List, c20Desc{Dig: g.digest("artifact:referrer-digest", 0, nl), MT: c20MTManifest})
			g.embedded = false
		}
		r.List = append(r.List, c20Desc{Dig: art})
		l.Referrers = r
	}
	l.Index = []c20Desc{{Dig: top, Tag: a.Tag}}
	if g.chance("filter", 8) {
		a.Filter = m.Layers[0].Title
	}
	a.FileMT = g.chance("filemt", 8)
	if a.Src == "reg" && g.chance("hdrdig", 5) {
		g.embedded = true
		a.HdrDig = g.digest("artifact:header-digest", 0, nl)
		g.embedded = false
		g.note("dim", "registry:hostile-digest-header")
	}
	a.Spec = l
	return a
}

func c20GenCase(t *rapid.T) c20Case {
	g := &c20Gen{t: t}
	c := c20Case{PrePop: rapid.IntRange(0, 2).Draw(t, "prepop") > 0}
	// (rapid favours small values: the broadest surface comes first)
	switch rapid.SampledFrom([]string{"layout", "artifact", "extract", "import", "copy", "layout", "artifact", "layout", "extract", "copy", "import", "layout"}).Draw(t, "surface") {
	case "extract":
		c.Surface, c.Extract = "extract", g.extract()
	case "artifact":
		c.Surface, c.Art = "artifact", g.art()
	case "layout":
		c.Surface, c.Lay = "layout", g.lay()
	case "copy":
		c.Surface, c.Copy = "copy", g.copy()
	default:
		c.Surface, c.Import = "import", g.imp()
	}
	c.PathForm = g.from("pathform", "", "", "", "", "slash", "rel", "reldot")
	if c.PathForm != "" {
		g.note("dim", "pathform:"+c.PathForm)
	}
	if c.Surface != "extract" && c.Surface != "artifact" && g.chance("cancelled", 10) {
		c.Ctx = "cancelled"
		g.note("dim", "ctx:cancelled")
	}
	c.Classes = g.classes
	return c
}
