//go:build c20

package main

// C20 guard directory: an arena that encloses the designated output directory
// G/out, decoy files, secrets and a few ancestor levels, plus the
// before/after listing oracle.

import (
	"bytes"
	"crypto/sha256"
	"encoding/hex"
	"fmt"
	"io/fs"
	"os"
	"path/filepath"
	"sort"
	"strings"
	"syscall"
	"time"
)

const (
	c20Marker        = "C20-SECRET-MARKER-7f3a9c1e5b2d4860-DO-NOT-LEAK"
	c20SecretSize    = 1337 // size of every raw secret file (no other file has it)
	c20SecretManSize = 2311 // size of G/secret.json (a well-formed OCI manifest carrying the marker)
	c20GToken        = "${G}"
)

// (deliberately not the mtime written into generated tar headers)
var c20Old = time.Date(2003, 3, 3, 3, 33, 33, 0, time.UTC)

// c20Guard describes one per-case arena.
//
//	arena/a/b/c/d/e/f/G/{out,victim,victim.txt,victimdir/f,emptydir,secret,secret.json,other/...,outx/file,out.bak}
//
// Every ancestor a..f also holds a victim and a secret so that any number of
// "../" segments (1..6 from anywhere below G/out/x/y/z) lands next to a decoy and
// never leaves the arena.
type c20Guard struct {
	Arena   string
	G       string
	Out     string
	Src     string
	Allowed []string // directories in which changes are legitimate
}

func c20Secret(size int) []byte {
	b := []byte(c20Marker + "\n")
	for len(b) < size {
		b = append(b, "s3cr3t-padding-"...)
	}
	return b[:size]
}

func c20SecretManifest() []byte {
	pre := `{"schemaVersion":2,"mediaType":"application/vnd.oci.image.manifest.v1+json","config":{"mediaType":"application/vnd.oci.empty.v1+json","digest":"sha256:44136fa355b3678a1146ad16f7e8649e94fb4fc21fe77e8310c060f61caaff8a","size":2},"layers":[],"annotations":{"secret":"` + c20Marker + `","pad":"`
	post := `"}}`
	pad := c20SecretManSize - len(pre) - len(post)
	return []byte(pre + strings.Repeat("p", pad) + post)
}

func c20Must(err error) {
	if err != nil {
		panic(c20Infra{err})
	}
}

// c20Infra marks a harness (not property) failure; converted to an
// inconclusive test failure, never to a violation.
type c20Infra struct{ err error }

func c20WriteFile(p string, b []byte) {
	c20Must(os.MkdirAll(filepath.Dir(p), 0o755))
	c20Must(os.WriteFile(p, b, 0o644))
}

// c20NewGuard builds the arena. prepop places ordinary files/dirs (no links)
// into G/out so that hostile names can collide with them.
func c20NewGuard(prepop bool) *c20Guard {
	arena, err := os.MkdirTemp("", "c20-")
	c20Must(err)
	g := &c20Guard{Arena: arena}
	p := arena
	for _, l := range []string{"a", "b", "c", "d", "e", "f"} {
		p = filepath.Join(p, l)
		c20WriteFile(filepath.Join(p, "victim"), []byte("victim at level "+l+"\n"))
		c20WriteFile(filepath.Join(p, "secret"), c20Secret(c20SecretSize))
	}
	g.G = filepath.Join(p, "G")
	g.Out = filepath.Join(g.G, "out")
	g.Src = filepath.Join(g.G, "src")
	c20Must(os.MkdirAll(g.Out, 0o755))
	c20WriteFile(filepath.Join(g.G, "victim"), []byte("victim file\n"))
	c20WriteFile(filepath.Join(g.G, "victim.txt"), []byte("victim text file\n"))
	c20WriteFile(filepath.Join(g.G, "victimdir", "f"), []byte("file in victim dir\n"))
	c20Must(os.MkdirAll(filepath.Join(g.G, "emptydir"), 0o755))
	c20WriteFile(filepath.Join(g.G, "secret"), c20Secret(c20SecretSize))
	c20WriteFile(filepath.Join(g.G, "secret.json"), c20SecretManifest())
	c20WriteFile(filepath.Join(g.G, "other", "a"), []byte("other a\n"))
	c20WriteFile(filepath.Join(g.G, "other", "sub", "b"), []byte("other sub b\n"))
	c20WriteFile(filepath.Join(g.G, "outx", "file"), []byte("prefix sibling\n"))
	c20WriteFile(filepath.Join(g.G, "out.bak"), []byte("backup sibling\n"))
	if prepop {
		c20WriteFile(filepath.Join(g.Out, "exist.txt"), []byte("pre-existing file\n"))
		c20WriteFile(filepath.Join(g.Out, "dir", "f"), []byte("pre-existing nested file\n"))
		c20Must(os.MkdirAll(filepath.Join(g.Out, "dir", "sub"), 0o755))
	}
	g.Allowed = []string{g.Out}
	g.age()
	return g
}

// age sets every mtime in the arena to a fixed old instant so that any later
// touch (even one that restores the same bytes) is visible.
func (g *c20Guard) age() {
	_ = filepath.WalkDir(g.Arena, func(p string, d fs.DirEntry, err error) error {
		if err == nil {
			_ = os.Chtimes(p, c20Old, c20Old)
		}
		return nil
	})
}

func (g *c20Guard) Close() {
	// directories extracted with mode 0 etc. must not block removal
	_ = filepath.WalkDir(g.Arena, func(p string, d fs.DirEntry, err error) error {
		if err == nil && d.IsDir() {
			_ = os.Chmod(p, 0o755)
		}
		return nil
	})
	_ = os.RemoveAll(g.Arena)
}

// expand replaces the ${G} token of generated strings.
func (g *c20Guard) expand(s string) string {
	if !strings.Contains(s, c20GToken) {
		return s
	}
	return strings.ReplaceAll(s, c20GToken, g.G)
}

type c20Ent struct {
	Mode   fs.FileMode
	Size   int64
	Mtime  int64
	Hash   string
	Link   string
	Nlink  uint64
	Marker bool
}

type c20Snap map[string]c20Ent

func (g *c20Guard) snapshot() c20Snap {
	s := c20Snap{}
	var walk func(dir string)
	walk = func(dir string) {
		ents, err := os.ReadDir(dir)
		if err != nil {
			// an unreadable directory is recorded through its own entry
			return
		}
		for _, de := range ents {
			p := filepath.Join(dir, de.Name())
			fi, err := os.Lstat(p)
			if err != nil {
				continue
			}
			e := c20Ent{Mode: fi.Mode(), Size: fi.Size(), Mtime: fi.ModTime().UnixNano()}
			if st, ok := fi.Sys().(*syscall.Stat_t); ok {
				e.Nlink = uint64(st.Nlink)
			}
			switch {
			case fi.Mode()&fs.ModeSymlink != 0:
				e.Link, _ = os.Readlink(p)
			case fi.Mode().IsRegular():
				if b, err := os.ReadFile(p); err == nil {
					h := sha256.Sum256(b)
					e.Hash = hex.EncodeToString(h[:8])
					e.Marker = bytes.Contains(b, []byte(c20Marker))
				} else {
					e.Hash = "unreadable"
				}
			case fi.IsDir():
				e.Size = 0 // directory sizes are file-system noise
				e.Nlink = 0
			}
			s[p] = e
			if fi.IsDir() {
				walk(p)
			}
		}
	}
	walk(g.Arena)
	return s
}

func c20Under(p string, roots []string) bool {
	for _, r := range roots {
		if p == r || strings.HasPrefix(p, r+string(filepath.Separator)) {
			return true
		}
	}
	return false
}

// c20Effect is one oracle finding.
type c20Effect struct {
	Kind string // removed-outside | created-outside | modified-outside | link-created | secret-copied
	Path string
	Info string
}

// diff applies the listing oracle between two snapshots.
//   - every difference must lie under an allowed root;
//   - no symlink, hardlink or special file appeared anywhere (also not inside
//     the allowed roots);
//   - no file under an allowed root gained the secret's bytes.
func (g *c20Guard) diff(before, after c20Snap) []c20Effect {
	var out []c20Effect
	paths := map[string]struct{}{}
	for p := range before {
		paths[p] = struct{}{}
	}
	for p := range after {
		paths[p] = struct{}{}
	}
	keys := make([]string, 0, len(paths))
	for p := range paths {
		keys = append(keys, p)
	}
	sort.Strings(keys)
	for _, p := range keys {
		b, inB := before[p]
		a, inA := after[p]
		rel, _ := filepath.Rel(g.Arena, p)
		if inA && (!inB || a != b) {
			if a.Mode&fs.ModeSymlink != 0 {
				out = append(out, c20Effect{"link-created", rel, "symlink -> " + a.Link})
			} else if a.Mode&(fs.ModeDevice|fs.ModeNamedPipe|fs.ModeSocket|fs.ModeCharDevice) != 0 {
				out = append(out, c20Effect{"link-created", rel, "special file " + a.Mode.String()})
			} else if a.Mode.IsRegular() && a.Nlink > 1 && (!inB || b.Nlink != a.Nlink) {
				out = append(out, c20Effect{"link-created", rel, fmt.Sprintf("hard link count %d", a.Nlink)})
			}
			if a.Marker && !(inB && b.Marker) && c20Under(p, g.Allowed) {
				out = append(out, c20Effect{"secret-copied", rel, "file now contains the bytes of the secret"})
			}
		}
		if c20Under(p, g.Allowed) {
			continue
		}
		switch {
		case inB && !inA:
			out = append(out, c20Effect{"removed-outside", rel, b.Mode.String()})
		case !inB && inA:
			out = append(out, c20Effect{"created-outside", rel, a.Mode.String()})
		case a != b:
			out = append(out, c20Effect{"modified-outside", rel, fmt.Sprintf("%+v -> %+v", b, a)})
		}
	}
	return out
}

// c20Worst picks the effect that names the violation: removal and creation
// outweigh the directory-mtime changes they imply.
func c20Worst(effs []c20Effect) c20Effect {
	rank := map[string]int{"removed-outside": 0, "created-outside": 1, "link-created": 2, "secret-copied": 3, "modified-outside": 4}
	best := effs[0]
	for _, e := range effs[1:] {
		if rank[e.Kind] < rank[best.Kind] {
			best = e
		}
	}
	return best
}

func c20EffString(effs []c20Effect) string {
	var sb strings.Builder
	for i, e := range effs {
		if i >= 12 {
			fmt.Fprintf(&sb, "  … %d more\n", len(effs)-i)
			break
		}
		fmt.Fprintf(&sb, "  %s %s (%s)\n", e.Kind, e.Path, e.Info)
	}
	return sb.String()
}
