//go:build c18

package main

// C18 — oracle: independent selection (whole-string allow-then-deny), expected
// target digests, closure audit, untouched comparison, backup and check-only
// clauses. Nothing here goes through regclient.

import (
	"bytes"
	"encoding/json"
	"fmt"
	"os"
	"path/filepath"
	"reflect"
	"regexp"
	"sort"
	"strings"
	"sync"

	"github.com/regclient/regclient/zz_verif/audit"
	"github.com/regclient/regclient/zz_verif/evid"
	"github.com/regclient/regclient/zz_verif/imggen"
	rm "github.com/regclient/regclient/zz_verif/regmodel"
)

// ------------------------------------------------------------------ snapshots

type c18RepoSnap struct {
	Tags  map[string]string
	Man   map[string]*rm.Manifest
	Blobs map[string][]byte
}

func (s *c18RepoSnap) empty() bool {
	return s == nil || (len(s.Tags) == 0 && len(s.Man) == 0 && len(s.Blobs) == 0)
}

func (s *c18RepoSnap) view() audit.RepoView {
	if s == nil {
		return audit.RepoView{}
	}
	return audit.RepoView{R: &rm.Repo{Blobs: s.Blobs, Manifests: s.Man, Tags: s.Tags}}
}

func (s *c18RepoSnap) has(d string) bool {
	if s == nil {
		return false
	}
	if _, ok := s.Man[d]; ok {
		return true
	}
	_, ok := s.Blobs[d]
	return ok
}

func (s *c18RepoSnap) tag(t string) (string, bool) {
	if s == nil {
		return "", false
	}
	d, ok := s.Tags[t]
	return d, ok
}

type c18HostSnap map[string]*c18RepoSnap

func c18Snapshot(m *rm.Model, h *rm.Host) c18HostSnap {
	m.Lock()
	defer m.Unlock()
	out := c18HostSnap{}
	for name, r := range h.Repos {
		s := &c18RepoSnap{Tags: map[string]string{}, Man: map[string]*rm.Manifest{}, Blobs: map[string][]byte{}}
		for k, v := range r.Tags {
			s.Tags[k] = v
		}
		for k, v := range r.Manifests {
			s.Man[k] = v
		}
		for k, v := range r.Blobs {
			s.Blobs[k] = v
		}
		out[name] = s
	}
	return out
}

// ------------------------------------------------------------ materialisation

func c18IsDigestTagName(t string) bool { return c18ReDigestTag.MatchString(t) }

var (
	c18ReFallback  = regexp.MustCompile(`^sha(256-[0-9a-f]{64}|512-[0-9a-f]{64}|512-[0-9a-f]{128})$`)
	c18ReDigestTag = regexp.MustCompile(`^sha(256|512)-[0-9a-f]{64}.+$`)
)

// c18PutGraph stores a pool image raw: the whole graph (all manifests, blobs and
// digest tags) or only the plain closure of its root.
func c18PutGraph(r *rm.Repo, g *imggen.Graph, full bool) {
	if full {
		for d, b := range g.Blobs {
			r.Blobs[d] = b.Data
		}
		for _, n := range g.Nodes {
			r.Manifests[n.Digest] = &rm.Manifest{MediaType: n.MediaType, Body: n.Body}
		}
		for t, id := range g.Tags {
			if c18IsDigestTagName(t) {
				r.Tags[t] = g.Nodes[id].Digest
			}
		}
		return
	}
	scratch := &rm.Repo{Blobs: map[string][]byte{}, Manifests: map[string]*rm.Manifest{}, Tags: map[string]string{}}
	c18PutGraph(scratch, g, true)
	root := g.Nodes[g.Root]
	res := audit.ClosureEx(audit.RepoView{R: scratch}, root.Digest, root.MediaType, audit.Opts{})
	for d, b := range res.Content {
		if mt, isM := res.Manifests[d]; isM {
			if sm, ok := scratch.Manifests[d]; ok {
				mt = sm.MediaType
			}
			r.Manifests[d] = &rm.Manifest{MediaType: mt, Body: b}
		} else {
			r.Blobs[d] = b
		}
	}
}

// c18Fallbacks (re)builds the referrers fallback tags of a repository on a host
// without the referrers API, from a raw scan of the stored manifests.
func c18Fallbacks(r *rm.Repo) {
	subj := map[string]bool{}
	for _, mf := range r.Manifests {
		pm, err := rm.ParseManifest(mf.Body)
		if err == nil && pm.Subject != nil && pm.Subject.Digest != "" {
			subj[pm.Subject.Digest] = true
		}
	}
	for _, s := range c18SortedKeys(subj) {
		descs := rm.ReferrerDescs(r, s)
		body := []byte(`{"schemaVersion":2,"mediaType":"` + rm.MTOCIIndex + `","manifests":` + c18JSON(descs) + `}`)
		d := rm.Digest("sha256", body)
		r.Manifests[d] = &rm.Manifest{MediaType: rm.MTOCIIndex, Body: body}
		r.Tags[rm.FallbackTag(s)] = d
	}
}

// ------------------------------------------------------------------ selection

var c18ReCache sync.Map

func c18Compile(expr string) *regexp.Regexp {
	if v, ok := c18ReCache.Load(expr); ok {
		re, _ := v.(*regexp.Regexp)
		return re
	}
	re, err := regexp.Compile(expr)
	if err != nil {
		re = nil
	}
	c18ReCache.Store(expr, re)
	return re
}

// c18Matches: whole = the documented semantics (the expression is bound to the
// beginning and the end of the string); !whole = textual concatenation of the
// anchors (used only to classify the known alternation defect).
func c18Matches(filter, s string, whole bool) bool {
	var re *regexp.Regexp
	if whole {
		re = c18Compile("^(?:" + filter + ")$")
	} else {
		re = c18Compile("^" + filter + "$")
	}
	if re == nil {
		if whole {
			panic(c18Infra{fmt.Errorf("generated filter %q does not compile", filter)})
		}
		return false
	}
	return re.MatchString(s)
}

// c18Select applies allow then deny.
func c18Select(allow, deny, in []string, whole bool) map[string]bool {
	out := map[string]bool{}
	for _, s := range in {
		ok := len(allow) == 0
		for _, f := range allow {
			if c18Matches(f, s, whole) {
				ok = true
			}
		}
		for _, f := range deny {
			if ok && c18Matches(f, s, whole) {
				ok = false
			}
		}
		if ok {
			out[s] = true
		}
	}
	return out
}

// ------------------------------------------------------- resolved expectation

type c18Opts struct {
	DigestTags, Referrers, FastCheck, Force bool
	MediaTypes                              []string
	Backup                                  []c18Part
	RefFilters                              []c18RefFilter
}

func c18Sel(e, d *bool) bool {
	if e != nil {
		return *e
	}
	return d != nil && *d
}

func c18Resolve(e c18Entry, d c18Defaults) c18Opts {
	o := c18Opts{
		DigestTags: c18Sel(e.Sw.DigestTags, d.Sw.DigestTags),
		Referrers:  c18Sel(e.Sw.Referrers, d.Sw.Referrers),
		FastCheck:  c18Sel(e.Sw.FastCheck, d.Sw.FastCheck),
		Force:      c18Sel(e.Sw.ForceRecursive, d.Sw.ForceRecursive),
	}
	switch {
	case len(e.MediaTypes) > 0:
		o.MediaTypes = e.MediaTypes
	case len(d.MediaTypes) > 0:
		o.MediaTypes = d.MediaTypes
	default:
		o.MediaTypes = c18BuiltinMediaTypes
	}
	o.Backup = e.Backup
	if len(o.Backup) == 0 {
		o.Backup = d.Backup
	}
	o.RefFilters = e.RefFilters
	if len(o.RefFilters) == 0 {
		o.RefFilters = d.RefFilters
	}
	return o
}

type c18K struct{ Host, Repo, Tag string }

func (k c18K) String() string { return k.Host + ":" + k.Repo + ":" + k.Tag }

type c18Exp struct {
	Entry     int
	Type      string
	SrcRepo   string
	SrcTag    string
	K         c18K
	SrcDigest string
	SrcMT     string
	SkipMT    bool            // media type not in the list: must stay as it was
	Accept    map[string]bool // acceptable digests at the target
	Platform  bool            // the configured platform applies (source is an index)
	NoCand    bool            // ... but no entry of that os/arch exists: not judged
	Divergent bool            // selection differs under textual anchoring (known defect class)
	Opt       c18Opts
	Src       *c18RepoSnap // raw source storage (registry repository or OCI layout) before the run
	Platforms []string     // `platforms:` list of the entry (index entries of other platforms are not copied)
}

// c18PlatformCandidates returns the digests of the top-level entries of an
// index whose os and architecture equal the configured platform.
func c18PlatformCandidates(body []byte, plat string) []string {
	// "os/arch[/variant][,osver=X]"
	osver := ""
	if i := strings.Index(plat, ",osver="); i >= 0 {
		osver = plat[i+len(",osver="):]
		plat = plat[:i]
	}
	parts := strings.Split(plat, "/")
	if len(parts) < 2 {
		return nil
	}
	pm, err := rm.ParseManifest(body)
	if err != nil {
		return nil
	}
	build := func(v string) string { // major.minor.build of a windows version
		f := strings.Split(v, ".")
		if len(f) > 3 {
			f = f[:3]
		}
		return strings.Join(f, ".")
	}
	out, exact, linuxSameArch := []string{}, []string{}, []string{}
	for _, rf := range pm.Refs {
		if rf.Platform == nil {
			continue
		}
		osn, _ := rf.Platform["os"].(string)
		arch, _ := rf.Platform["architecture"].(string)
		ov, _ := rf.Platform["os.version"].(string)
		if parts[0] == "windows" {
			// a windows host runs windows entries of its own build (major.minor.build) and, failing those, linux
			// entries of its architecture (types/platform Compatible); among several entries of its build the one
			// with exactly the configured version is the configured image
			switch {
			case osn == "windows" && arch == parts[1] && (osver == "" || build(ov) == build(osver)):
				out = append(out, rf.Digest)
				if osver != "" && ov == osver {
					exact = append(exact, rf.Digest)
				}
			case osn == "linux" && arch == parts[1]:
				linuxSameArch = append(linuxSameArch, rf.Digest)
			}
			continue
		}
		if osn == parts[0] && arch == parts[1] {
			out = append(out, rf.Digest)
		}
	}
	if parts[0] == "windows" {
		switch {
		case len(exact) > 0:
			return exact
		case len(out) > 0:
			return out
		}
		return linuxSameArch
	}
	return out
}

// c18PlatformString renders a descriptor's platform as os/arch[/variant] ("" when absent).
func c18PlatformString(p map[string]any) string {
	if p == nil {
		return ""
	}
	osn, _ := p["os"].(string)
	arch, _ := p["architecture"].(string)
	v, _ := p["variant"].(string)
	if osn == "" {
		return ""
	}
	s := osn + "/" + arch
	if v != "" {
		s += "/" + v
	}
	return s
}

func c18IsList(mt string) bool { return mt == rm.MTOCIIndex || mt == rm.MTDocker2List }

func c18Contains(l []string, s string) bool {
	for _, x := range l {
		if x == s {
			return true
		}
	}
	return false
}

// c18Expect computes, from the raw source snapshot, what every entry must
// mirror, plus the set of target keys / repositories whose selection differs
// under textual anchoring.
type c18Plan struct {
	Exps       map[c18K]*c18Exp
	ExemptKeys map[c18K]bool      // backup names of referrers fallback tags (not judged)
	DivKeys    map[c18K]bool      // not selected under the documented semantics but selected under textual anchoring
	DivRepos   map[[2]string]bool // (host, target repo) of a source repository selected only under textual anchoring
	Targeted   map[[2]string]bool // (host, repo) that some entry may legitimately write into
	DTRepos    map[[2]string]bool // targeted with digestTags on
	EntryRepo  map[int][][2]string
	Excluded   int  // source tags excluded by a tag or repository filter
	Conflict   bool // two entries expect different things of the same target tag (not generated)
	Labels     map[string]int
}

func c18Expect(c c18Case, srcPre, dirPre c18HostSnap, names c18Names) *c18Plan {
	p := &c18Plan{Exps: map[c18K]*c18Exp{}, ExemptKeys: map[c18K]bool{}, DivKeys: map[c18K]bool{}, DivRepos: map[[2]string]bool{}, Targeted: map[[2]string]bool{},
		DTRepos: map[[2]string]bool{}, EntryRepo: map[int][][2]string{}, Labels: map[string]int{}}
	for i, e := range c.Entries {
		opt := c18Resolve(e, c.Def)
		th := e.tgtHost()
		if e.TgtDir {
			th = "dir"
		}
		tgtRepoOf := func(r string) string {
			if e.TgtDir {
				return c18DirKey("tgt", r)
			}
			return r
		}
		srcSnap := func(r string) *c18RepoSnap {
			if e.SrcDir {
				return dirPre[c18DirKey("src", r)]
			}
			return srcPre[r]
		}
		// a tag mirrored only under textual anchoring drags its backup name along
		markDiv := func(k c18K) {
			p.DivKeys[k] = true
			if len(opt.Backup) > 0 {
				if bk, ok := c18BackupKey(c18EvalBackup(opt.Backup, names.name(k.Host), k.Repo, k.Tag, e.Type), k, names); ok {
					p.DivKeys[bk] = true
					if bk.Repo != k.Repo || bk.Host != k.Host {
						p.DivRepos[[2]string{bk.Host, bk.Repo}] = true
					}
				}
			}
		}
		addTag := func(srcRepo, srcTag, tgtRepo, tgtTag string, divergent bool, byDigest string) {
			rs := srcSnap(srcRepo)
			tgtRepo = tgtRepoOf(tgtRepo)
			d, ok := rs.tag(srcTag)
			if byDigest != "" {
				d, ok = byDigest, rs != nil && rs.Man[byDigest] != nil
			}
			if !ok {
				return
			}
			if c18ReFallback.MatchString(srcTag) {
				// the referrers fallback tag is an implementation detail of the referrers feature: neither
				// it nor its backup is judged
				p.Labels["exempt:fallback-tag-at-source"]++
				if len(opt.Backup) > 0 {
					k := c18K{th, tgtRepo, tgtTag}
					if bk, ok := c18BackupKey(c18EvalBackup(opt.Backup, names.name(k.Host), k.Repo, k.Tag, e.Type), k, names); ok {
						p.ExemptKeys[bk] = true
						p.Targeted[[2]string{bk.Host, bk.Repo}] = true
					}
				}
				return
			}
			mf := rs.Man[d]
			if mf == nil {
				return
			}
			x := &c18Exp{Entry: i, Type: e.Type, SrcRepo: srcRepo, SrcTag: srcTag, K: c18K{th, tgtRepo, tgtTag}, SrcDigest: d, SrcMT: mf.MediaType,
				Accept: map[string]bool{}, Divergent: divergent, Opt: opt, Src: rs, Platforms: e.Platforms}
			if !c18Contains(opt.MediaTypes, mf.MediaType) {
				x.SkipMT = true
			} else if e.Platform != "" && c18IsList(mf.MediaType) {
				x.Platform = true
				cands := c18PlatformCandidates(mf.Body, e.Platform)
				if len(cands) == 0 {
					x.NoCand = true
				}
				for _, cd := range cands {
					x.Accept[cd] = true
				}
			} else {
				x.Accept[d] = true
			}
			if old, dup := p.Exps[x.K]; dup && old.Entry != x.Entry && !reflect.DeepEqual(c.Entries[old.Entry], c.Entries[x.Entry]) {
				p.Conflict = true // only an exact duplicate of a step may write the same target
			}
			p.Exps[x.K] = x
		}
		doRepo := func(srcRepo, tgtRepo string, repoDiv bool) {
			key := [2]string{th, tgtRepoOf(tgtRepo)}
			p.Targeted[key] = true
			if opt.DigestTags {
				p.DTRepos[key] = true
			}
			p.EntryRepo[i] = append(p.EntryRepo[i], key)
			rs := srcSnap(srcRepo)
			if rs == nil {
				return
			}
			tags := c18SortedKeys(rs.Tags)
			selW := c18Select(e.TagsAllow, e.TagsDeny, tags, true)
			selB := c18Select(e.TagsAllow, e.TagsDeny, tags, false)
			for _, t := range tags {
				div := repoDiv || selW[t] != selB[t]
				if selW[t] {
					addTag(srcRepo, t, tgtRepo, t, div, "")
				} else {
					p.Excluded++
					if selB[t] {
						markDiv(c18K{th, tgtRepoOf(tgtRepo), t})
					}
				}
			}
		}
		switch e.Type {
		case "image":
			key := [2]string{th, tgtRepoOf(e.TgtRepo)}
			p.Targeted[key] = true
			if opt.DigestTags {
				p.DTRepos[key] = true
			}
			p.EntryRepo[i] = append(p.EntryRepo[i], key)
			byDigest := ""
			if e.SrcForm == "digest" || e.SrcForm == "tagdigest" {
				byDigest = c18EntryDigest(c, e) // the digest wins over the tag of a tag@digest reference
			}
			addTag(e.SrcRepo, e.SrcTag, e.TgtRepo, e.TgtTag, false, byDigest)
		case "repository":
			doRepo(e.SrcRepo, e.TgtRepo, false)
		case "registry":
			repos := c18SortedKeys(srcPre)
			selW := c18Select(e.ReposAllow, e.ReposDeny, repos, true)
			selB := c18Select(e.ReposAllow, e.ReposDeny, repos, false)
			for _, r := range repos {
				tr := r
				if e.TgtRepo != "" {
					tr = e.TgtRepo + "/" + r
				}
				switch {
				case selW[r]:
					doRepo(r, tr, selW[r] != selB[r])
				default:
					p.Excluded += len(srcPre[r].Tags)
					if selB[r] {
						p.DivRepos[[2]string{th, tr}] = true
						for t := range srcPre[r].Tags {
							markDiv(c18K{th, tr, t})
						}
					}
				}
			}
		}
	}
	return p
}

// ----------------------------------------------------------- backup templates

// c18EvalBackup is the harness's own evaluation of a backup template.
func c18EvalBackup(parts []c18Part, reg, repo, tag, typ string) string {
	var sb strings.Builder
	for _, p := range parts {
		switch p.K {
		case "lit":
			sb.WriteString(p.S)
		case "tag":
			sb.WriteString(tag)
		case "repo":
			sb.WriteString(repo)
		case "registry":
			sb.WriteString(reg)
		case "type":
			sb.WriteString(typ)
		case "uptype":
			sb.WriteString(strings.ToUpper(typ))
		case "lowtag":
			sb.WriteString(strings.ToLower(tag))
		}
	}
	return strings.TrimSpace(sb.String())
}

// c18BackupKey resolves the expanded backup string relative to the target tag.
func c18BackupKey(s string, k c18K, n c18Names) (c18K, bool) {
	if !strings.ContainsAny(s, ":/") {
		return c18K{k.Host, k.Repo, s}, true
	}
	i := strings.IndexByte(s, '/')
	if i < 0 {
		return c18K{}, false
	}
	reg, rest := s[:i], s[i+1:]
	j := strings.LastIndexByte(rest, ':')
	if j < 0 {
		return c18K{}, false
	}
	host := ""
	switch reg {
	case n.SrcName:
		host = "src"
	case n.TgtName:
		host = "tgt"
	default:
		return c18K{}, false
	}
	return c18K{host, rest[:j], rest[j+1:]}, true
}

// -------------------------------------------------------------------- judging

type c18StepCtx struct {
	C              c18Case
	Step           int
	Names          c18Names
	SrcPre, SrcPos c18HostSnap
	TgtPre, TgtPos c18HostSnap
	DirPre, DirPos c18HostSnap // OCI layouts, keyed "src/<repo>" / "tgt/<repo>"
	Log            []*rm.Entry
	Plan           *c18Plan
	ArtChild       map[string]bool // artifact manifests that are index entries (C03 known finding: not required)
	Labels         map[string]int
	Stats          c18Stats
}

type c18Stats struct {
	Selected, Excluded, Moved, Missing, Same, Backups, SkipMT, Divergent, PlatformApplied int
}

func (x *c18StepCtx) pre(host string) c18HostSnap {
	switch host {
	case "src":
		return x.SrcPre
	case "dir":
		return x.DirPre
	}
	return x.TgtPre
}

func (x *c18StepCtx) post(host string) c18HostSnap {
	switch host {
	case "src":
		return x.SrcPos
	case "dir":
		return x.DirPos
	}
	return x.TgtPos
}

func (x *c18StepCtx) addr(host string) string {
	switch host {
	case "src":
		return x.Names.SrcAddr
	case "dir":
		return "(no request log for a layout)"
	}
	return x.Names.TgtAddr
}

const c18SigAlt = "filter-top-level-alternation-not-anchored"

// c18SigStale: processRef keeps tgtMatches=true from the comparison with the
// source INDEX digest after it resolved the configured platform, so a target
// tag that holds the source's index is treated as "matches for platform".
const c18SigStale = "platform-target-holding-source-index-counts-as-match"

func (x *c18StepCtx) v(div bool, sig, format string, a ...any) *evid.Violation {
	msg := fmt.Sprintf("step %d (%s): ", x.Step, x.C.Steps[x.Step].Cmd) + fmt.Sprintf(format, a...)
	// only outcomes that textual anchoring explains are attributed to it: a tag that was (not) mirrored
	switch sig {
	case "selected-tag-missing-at-target", "selected-tag-not-updated", "unselected-tag-changed", "untouched-repository-changed":
	default:
		div = false
	}
	if div {
		return evid.V(c18SigAlt, "[selection of this tag/repository differs between whole-string matching and \"^\"+filter+\"$\": a top-level alternation is only anchored at its outer ends] %s: %s", sig, msg)
	}
	return evid.V(sig, "%s", msg)
}

func c18IsSrcRepo(c c18Case, name string) bool {
	for _, r := range c.Src {
		if r.Name == name {
			return true
		}
	}
	return false
}

// exemptLevel mirrors C03's treatment of manifests that already existed at the
// target ("trusted to be complete", see copysc.ExemptLevel).
func c18ExemptLevel(o c18Opts, pre *c18RepoSnap, preTag, root, d string) int {
	present := pre.has(d)
	if d == root {
		present = present && preTag == d
	}
	if !present {
		return 0
	}
	if o.FastCheck {
		return 2
	}
	if o.Force {
		return 0
	}
	if !o.Referrers && !o.DigestTags {
		return 2
	}
	return 1
}

// judgeOnce evaluates a successful one-shot run.
func (x *c18StepCtx) judgeOnce() []*evid.Violation {
	var vs []*evid.Violation
	p := x.Plan
	c := x.C
	if p.Conflict {
		panic(c18Infra{fmt.Errorf("generator produced two entries writing the same target tag")})
	}
	// --- every selected tag is mirrored, completely
	backups := map[c18K][]*c18Exp{}
	backupRepos := map[[2]string]bool{}
	keys := make([]c18K, 0, len(p.Exps))
	for k := range p.Exps {
		keys = append(keys, k)
	}
	sort.Slice(keys, func(i, j int) bool { return keys[i].String() < keys[j].String() })
	for _, k := range keys {
		e := p.Exps[k]
		preR, posR := x.pre(k.Host)[k.Repo], x.post(k.Host)[k.Repo]
		P, hadP := preR.tag(k.Tag)
		Q, hasQ := posR.tag(k.Tag)
		if e.Divergent {
			x.Stats.Divergent++
		}
		if e.SkipMT && c18ReDigestTag.MatchString(k.Tag) && p.DTRepos[[2]string{k.Host, k.Repo}] {
			x.Labels["exempt:digest-tag-at-target"]++
			continue
		}
		if e.SkipMT {
			x.Stats.SkipMT++
			if hadP != hasQ || P != Q {
				vs = append(vs, x.v(e.Divergent, "mediatype-excluded-tag-written", "source %s:%s has media type %s which is not in the entry's mediaTypes %v, but target %s changed from %q to %q",
					e.SrcRepo, e.SrcTag, e.SrcMT, e.Opt.MediaTypes, k, P, Q))
			}
			continue
		}
		if e.NoCand {
			x.Labels["platform:no-candidate-but-success(not judged)"]++
			continue
		}
		x.Stats.Selected++
		switch {
		case !hadP:
			x.Stats.Missing++
		case e.Accept[P]:
			x.Stats.Same++
		default:
			x.Stats.Moved++
		}
		if e.Platform {
			x.Stats.PlatformApplied++
		}
		acceptIndexToo := e.Platform && hadP && P == e.SrcDigest // target already held the source's index: either outcome is accepted
		if x.C.Steps[x.Step].Missing && hadP && hasQ && Q == P {
			// --missing: "Only copy tags that are missing on target"; a tag that exists there is left alone
			x.Labels["missing-flag:existing-tag-left-alone"]++
			continue
		}
		if !hasQ {
			vs = append(vs, x.v(e.Divergent, "selected-tag-missing-at-target", "entry %d (%s): source %s:%s (%s) is selected but target %s does not exist after the run", e.Entry, e.Type, e.SrcRepo, e.SrcTag, e.SrcDigest, k))
			continue
		}
		if !e.Accept[Q] && !(acceptIndexToo && Q == e.SrcDigest) {
			sig := "selected-tag-wrong-digest"
			switch {
			case e.Platform && Q == e.SrcDigest:
				sig = "platform-ignored-index-copied"
			case hadP && Q == P:
				sig = "selected-tag-not-updated"
			}
			vs = append(vs, x.v(e.Divergent, sig, "entry %d (%s, platform %q): source %s:%s is %s (acceptable at target: %v) but target %s resolves to %s (before the run: %q)",
				e.Entry, e.Type, c.Entries[e.Entry].Platform, e.SrcRepo, e.SrcTag, e.SrcDigest, c18SortedKeys(e.Accept), k, Q, P))
			continue
		}
		// closure, as in C03
		srcR := e.Src
		isDir := k.Host == "dir"
		rootMT := ""
		if mf := srcR.Man[Q]; mf != nil {
			rootMT = mf.MediaType
		}
		ao := audit.Opts{Referrers: e.Opt.Referrers, DigestTags: e.Opt.DigestTags}
		if e.Opt.Referrers && len(e.Opt.RefFilters) > 0 {
			// a referrer is wanted when any filter matches: artifactType equal (if given) and every annotation
			// present with the given value (any value when the filter's value is empty)
			fs := e.Opt.RefFilters
			ao.RefFilter = func(desc map[string]any) bool {
				at, _ := desc["artifactType"].(string)
				ann, _ := desc["annotations"].(map[string]string)
				for _, f := range fs {
					ok := f.ArtifactType == "" || f.ArtifactType == at
					for fk, fv := range f.Annotations {
						if dv, has := ann[fk]; !has || (fv != "" && fv != dv) {
							ok = false
						}
					}
					if ok {
						return true
					}
				}
				return false
			}
		}
		// `platforms:` copies an index with only the entries of the listed platforms: every digest that some index
		// of the source lists with another (or no) platform is not required
		platExcluded := map[string]bool{}
		if len(e.Platforms) > 0 && !e.Platform {
			for _, mf := range srcR.Man {
				if !c18IsList(mf.MediaType) {
					continue
				}
				pm, err := rm.ParseManifest(mf.Body)
				if err != nil {
					continue
				}
				for _, rf := range pm.Refs {
					if !c18Contains(e.Platforms, c18PlatformString(rf.Platform)) {
						platExcluded[rf.Digest] = true
					}
				}
			}
			if isDir {
				for d, b := range srcR.Blobs { // a layout snapshot keeps untagged manifests as plain files
					if len(b) == 0 || b[0] != '{' {
						continue
					}
					if pm, err := rm.ParseManifest(b); err == nil && pm.IsIndex {
						_ = d
						for _, rf := range pm.Refs {
							if !c18Contains(e.Platforms, c18PlatformString(rf.Platform)) {
								platExcluded[rf.Digest] = true
							}
						}
					}
				}
			}
			delete(platExcluded, Q)
		}
		ao.Exempt = func(d string, root bool) int {
			if (x.ArtChild[d] || platExcluded[d]) && d != Q {
				return 2
			}
			return c18ExemptLevel(e.Opt, preR, P, Q, d)
		}
		res := audit.ClosureEx(srcR.view(), Q, rootMT, ao)
		if len(res.Problems) > 0 {
			panic(c18Infra{fmt.Errorf("source closure of %s:%s has problems: %v", e.SrcRepo, e.SrcTag, res.Problems)})
		}
		for _, d := range c18SortedKeys(res.Content) {
			if x.ArtChild[d] && d != Q {
				x.Labels["exempt:artifact-index-entry"]++
				continue
			}
			if platExcluded[d] {
				x.Labels["exempt:index-entry-of-unlisted-platform"]++
				continue
			}
			want := res.Content[d]
			var got []byte
			ok := false
			if mf, isM := posR.Man[d]; isM {
				got, ok = mf.Body, true
			} else if b, isB := posR.Blobs[d]; isB {
				got, ok = b, true
			}
			kind := "blob"
			if _, isM := res.Manifests[d]; isM {
				kind = "manifest"
			}
			if !ok && isDir && preR.has(d) && ao.Exempt(d, false) > 0 {
				// as in C03: content that pre-existed in a layout and was trusted (not pushed again) may be
				// garbage to the layout's collector
				x.Labels["exempt:layout-trusted-content-collected"]++
				continue
			}
			if !ok {
				sig := "selected-tag-closure-" + kind + "-missing"
				if acceptIndexToo && Q == e.SrcDigest {
					sig = c18SigStale
				}
				vs = append(vs, x.v(e.Divergent, sig, "entry %d (platform %q): target %s resolves to %s (before the run: %s; source index: %s) but %s %s of its closure (referrers=%v digestTags=%v) is absent in the target repository",
					e.Entry, c.Entries[e.Entry].Platform, k, Q, P, e.SrcDigest, kind, d, e.Opt.Referrers, e.Opt.DigestTags))
				break
			}
			if !bytes.Equal(got, want) {
				vs = append(vs, x.v(e.Divergent, "selected-tag-closure-"+kind+"-differs", "entry %d: %s %s differs at the target", e.Entry, kind, d))
				break
			}
		}
		// observation only (NOT asserted: the statement speaks of tags and repositories that stay untouched, not of
		// additional untagged manifests in the target repository of a selected tag): a referrer the configured
		// referrerFilters exclude was copied nevertheless
		if ao.RefFilter != nil && e.Type == "image" && x.C.SrcFeat.Referrers && !x.C.Entries[e.Entry].SrcDir && !e.Opt.DigestTags {
			// (single tag, no fallback tags at the source, no digest tags: nothing else can have brought the manifest)
			all := ao
			all.RefFilter = nil
			resAll := audit.ClosureEx(srcR.view(), Q, rootMT, all)
			for _, d := range c18SortedKeys(resAll.Manifests) {
				if _, wanted := res.Content[d]; !wanted && posR.has(d) && !preR.has(d) {
					both := false
					for _, f := range e.Opt.RefFilters {
						both = both || (f.ArtifactType != "" && len(f.Annotations) > 0)
					}
					if both {
						x.Labels["observed(not asserted):filtered-out-referrer-copied/filter-with-artifactType+annotations"]++
					} else {
						x.Labels["observed(not asserted):filtered-out-referrer-copied/other"]++
					}
					break
				}
			}
		}
		// backup bookkeeping: the tag was overwritten
		if hadP && Q != P && len(e.Opt.Backup) > 0 && c18ReDigestTag.MatchString(k.Tag) && p.DTRepos[[2]string{k.Host, k.Repo}] {
			// a digest tag is also written as a side effect of the digestTags feature while another tag is copied
			// (ImageCopy has no notion of backups): not judged, like the other digest-tag clauses
			x.Labels["exempt:digest-tag-backup"]++
			if bk, ok := c18BackupKey(c18EvalBackup(e.Opt.Backup, x.Names.name(k.Host), k.Repo, k.Tag, e.Type), k, x.Names); ok {
				p.ExemptKeys[bk] = true // written when the tag's own step, not the side effect, got there first
				backupRepos[[2]string{bk.Host, bk.Repo}] = true
			}
		} else if hadP && Q != P && len(e.Opt.Backup) > 0 {
			s := c18EvalBackup(e.Opt.Backup, x.Names.name(k.Host), k.Repo, k.Tag, e.Type)
			bk, ok := c18BackupKey(s, k, x.Names)
			if !ok || bk == k {
				panic(c18Infra{fmt.Errorf("generated backup template expands to unusable name %q", s)})
			}
			if _, clash := p.Exps[bk]; clash {
				x.Labels["backup:name-is-also-a-mirrored-tag(not judged)"]++
			} else {
				backups[bk] = append(backups[bk], e)
				backupRepos[[2]string{bk.Host, bk.Repo}] = true
			}
		}
	}
	// --- backups: before a tag is overwritten, its previous image is available (complete) under the backup name.
	// Judged at the instant of the overwrite through the request log: several tags may share one backup name
	// (a constant template), later backups then legitimately replace earlier ones.
	bkeys := make([]c18K, 0, len(backups))
	for k := range backups {
		bkeys = append(bkeys, k)
	}
	sort.Slice(bkeys, func(i, j int) bool { return bkeys[i].String() < bkeys[j].String() })
	for _, bk := range bkeys {
		posB := x.post(bk.Host)[bk.Repo]
		for _, e := range backups[bk] {
			x.Stats.Backups++
			preR := x.pre(e.K.Host)[e.K.Repo]
			P, _ := preR.tag(e.K.Tag)
			Q, _ := x.post(e.K.Host)[e.K.Repo].tag(e.K.Tag)
			stale := e.Platform && P == e.SrcDigest
			// the previous image must have been complete (an index mirrored with a `platforms:` list is not: its
			// backup copy fails, which regsync only warns about by design)
			mt := ""
			if mf := preR.Man[P]; mf != nil {
				mt = mf.MediaType
			}
			res := audit.ClosureEx(preR.view(), P, mt, audit.Opts{})
			if len(res.Problems) > 0 {
				x.Labels["backup:previous-image-incomplete(not judged)"]++
				continue
			}
			if e.K.Host == "dir" {
				// a layout has no request log: judged on the final state, and only when the backup name is not shared
				if len(backups[bk]) > 1 || p.ExemptKeys[bk] {
					x.Labels["backup:layout-shared-backup-name(not judged)"]++
					continue
				}
				if B, _ := posB.tag(bk.Tag); B != P {
					vs = append(vs, x.v(e.Divergent, "overwritten-without-backup", "entry %d: layout tag %s was overwritten (%s -> %s) with backup template %q configured, but backup name %s resolves to %q after the run",
						e.Entry, e.K, P, Q, c18TemplateText(e.Opt.Backup, 0), bk, B))
					continue
				}
			}
			over := -1
			if e.K.Host == "dir" {
				over = 0
			}
			for _, le := range x.Log {
				if le.Class == "manifest-put" && le.Status == 201 && le.Host == x.addr(e.K.Host) && le.Repo == e.K.Repo && le.Ref == e.K.Tag {
					over = le.Seq
					break
				}
			}
			if over < 0 {
				x.Labels["backup:overwriting-request-not-found(not judged)"]++
				continue
			}
			held, heldBy := "", -1 // what the backup name resolved to when the overwrite arrived
			if d, ok := x.pre(bk.Host)[bk.Repo].tag(bk.Tag); ok {
				held = d
			}
			later := -1
			for _, le := range x.Log {
				if le.Class != "manifest-put" || le.Status != 201 || le.Host != x.addr(bk.Host) || le.Repo != bk.Repo || le.Ref != bk.Tag {
					continue
				}
				if le.Seq < over {
					held, heldBy = strings.TrimPrefix(le.Note, "stored "), le.Seq
				} else if later < 0 && le.Note == "stored "+P {
					later = le.Seq
				}
			}
			if e.K.Host == "dir" {
				held = P // established on the final state above
			}
			if held != P {
				sig := "overwritten-without-backup"
				switch {
				case stale:
					sig = c18SigStale
				case later >= 0:
					sig = "backup-not-before-overwrite"
				case heldBy >= 0:
					sig = "backup-holds-wrong-image"
				}
				vs = append(vs, x.v(e.Divergent, sig, "entry %d: target %s was overwritten (%s -> %s) by request #%d with backup template %q configured; at that instant backup name %s resolved to %q (written by request #%d, -1 = state before the run); a backup of the previous image was written by request #%d (-1 = never)",
					e.Entry, e.K, P, Q, over, c18TemplateText(e.Opt.Backup, 0), bk, held, heldBy, later))
				continue
			}
			if heldBy < 0 && e.K.Host != "dir" {
				x.Labels["backup:name-already-held-previous-image"]++
			}
			// completeness of the backed-up image (plain closure taken from the pre-run target repository)
			for _, d := range c18SortedKeys(res.Content) {
				if x.ArtChild[d] && d != P {
					continue
				}
				if !posB.has(d) {
					vs = append(vs, x.v(e.Divergent, "backup-incomplete", "backup %s held the previous image %s of %s but %s of its closure is absent in the backup repository", bk, P, e.K, d))
					break
				}
			}
		}
	}
	// --- nothing else is touched
	for _, host := range []string{"src", "tgt", "dir"} {
		pre, pos := x.pre(host), x.post(host)
		names := map[string]bool{}
		for n := range pre {
			names[n] = true
		}
		for n := range pos {
			names[n] = true
		}
		for _, rn := range c18SortedKeys(names) {
			if host == "src" && c18IsSrcRepo(c, rn) {
				continue // judged by the source clause
			}
			if host == "dir" && strings.HasPrefix(rn, "src/") {
				continue // judged by the source clause
			}
			key := [2]string{host, rn}
			preR, posR := pre[rn], pos[rn]
			repoDiv := p.DivRepos[key]
			if !p.Targeted[key] && !backupRepos[key] {
				if d := c18RepoDiff(preR, posR, true); d != "" {
					vs = append(vs, x.v(repoDiv, "untouched-repository-changed", "repository %s/%s is not the target of any selected source repository but changed: %s", host, rn, d))
				}
				continue
			}
			// targeted repository: nothing may disappear or change, tags outside the expectation stay
			if host != "dir" { // a layout's garbage collector legitimately removes unreferenced content
				if d := c18RepoDiff(preR, posR, false); d != "" {
					vs = append(vs, x.v(repoDiv, "target-content-removed", "repository %s/%s: %s", host, rn, d))
				}
			}
			tags := map[string]bool{}
			if preR != nil {
				for t := range preR.Tags {
					tags[t] = true
				}
			}
			if posR != nil {
				for t := range posR.Tags {
					tags[t] = true
				}
			}
			for _, t := range c18SortedKeys(tags) {
				k := c18K{host, rn, t}
				if _, isExp := p.Exps[k]; isExp {
					continue
				}
				if _, isBk := backups[k]; isBk {
					continue
				}
				if p.ExemptKeys[k] {
					continue
				}
				P, hadP := preR.tag(t)
				Q, hasQ := posR.tag(t)
				if hadP == hasQ && P == Q {
					if !p.DivKeys[k] {
						x.Stats.Excluded++
					}
					if host == "dir" && hadP && !c18ReFallback.MatchString(t) {
						// the image of an untouched layout tag must survive the garbage collection of the run
						mt := ""
						if mf := preR.Man[P]; mf != nil {
							mt = mf.MediaType
						}
						if res := audit.ClosureEx(preR.view(), P, mt, audit.Opts{}); len(res.Problems) == 0 {
							for _, d := range c18SortedKeys(res.Content) {
								if !posR.has(d) {
									vs = append(vs, x.v(false, "layout-unselected-tag-content-lost", "layout %s: tag %s (%s) was not selected and still resolves to the same digest, but %s of its image is gone after the run", rn, t, P, d))
									break
								}
							}
						}
					}
					continue
				}
				if c18ReFallback.MatchString(t) {
					x.Labels["exempt:fallback-tag-at-target"]++
					continue
				}
				if c18ReDigestTag.MatchString(t) && p.DTRepos[key] {
					x.Labels["exempt:digest-tag-at-target"]++
					continue
				}
				vs = append(vs, x.v(p.DivKeys[k] || repoDiv, "unselected-tag-changed", "target tag %s is not selected by any entry (filtered out, no source counterpart, or foreign) but changed from %q to %q", k, P, Q))
			}
		}
	}
	return vs
}

// c18RepoDiff compares two snapshots of a repository. exact: any difference;
// otherwise only removals / modifications of stored content (tags are judged
// separately).
func c18RepoDiff(pre, pos *c18RepoSnap, exact bool) string {
	if pre.empty() && pos.empty() {
		return ""
	}
	if pre == nil {
		pre = &c18RepoSnap{}
	}
	if pos == nil {
		pos = &c18RepoSnap{}
	}
	for _, d := range c18SortedKeys(pre.Man) {
		m, ok := pos.Man[d]
		if !ok {
			return "manifest " + d + " removed"
		}
		if !bytes.Equal(m.Body, pre.Man[d].Body) || m.MediaType != pre.Man[d].MediaType {
			return "manifest " + d + " modified"
		}
	}
	for _, d := range c18SortedKeys(pre.Blobs) {
		b, ok := pos.Blobs[d]
		if !ok {
			return "blob " + d + " removed"
		}
		if !bytes.Equal(b, pre.Blobs[d]) {
			return "blob " + d + " modified"
		}
	}
	if !exact {
		return ""
	}
	for _, t := range c18SortedKeys(pre.Tags) {
		if q, ok := pos.Tags[t]; !ok || q != pre.Tags[t] {
			return fmt.Sprintf("tag %s changed from %s to %q", t, pre.Tags[t], q)
		}
	}
	for _, t := range c18SortedKeys(pos.Tags) {
		if _, ok := pre.Tags[t]; !ok {
			return fmt.Sprintf("tag %s created (%s)", t, pos.Tags[t])
		}
	}
	for _, d := range c18SortedKeys(pos.Man) {
		if _, ok := pre.Man[d]; !ok {
			return "manifest " + d + " added"
		}
	}
	for _, d := range c18SortedKeys(pos.Blobs) {
		if _, ok := pre.Blobs[d]; !ok {
			return "blob " + d + " added"
		}
	}
	return ""
}

// judgeSource: the source population received no state-changing request and is unchanged.
func (x *c18StepCtx) judgeSource() []*evid.Violation {
	var vs []*evid.Violation
	for _, le := range x.Log {
		if le.Mutating() && le.Host == x.Names.SrcAddr && c18IsSrcRepo(x.C, le.Repo) {
			vs = append(vs, x.v(false, "source-received-write", "request #%d %s %s to the source repository %s (status %d)", le.Seq, le.Method, le.Path, le.Repo, le.Status))
			break
		}
	}
	for _, r := range x.C.Src {
		if d := c18RepoDiff(x.SrcPre[r.Name], x.SrcPos[r.Name], true); d != "" {
			vs = append(vs, x.v(false, "source-changed", "source repository %s: %s", r.Name, d))
		}
	}
	for _, rn := range c18SortedKeys(x.DirPre) {
		if !strings.HasPrefix(rn, "src/") {
			continue
		}
		if d := c18RepoDiff(x.DirPre[rn], x.DirPos[rn], true); d != "" {
			vs = append(vs, x.v(false, "source-changed", "source layout %s: %s", rn, d))
		}
	}
	return vs
}

// judgeCheck: a check-only run issues no state-changing request and changes nothing.
func (x *c18StepCtx) judgeCheck() []*evid.Violation {
	var vs []*evid.Violation
	for _, le := range x.Log {
		if le.Mutating() {
			host := "target"
			if le.Host == x.Names.SrcAddr {
				host = "source"
			}
			vs = append(vs, x.v(false, "check-run-issued-write", "check-only run sent request #%d %s %s (class %s, status %d, applied %v) to the %s registry", le.Seq, le.Method, le.Path, le.Class, le.Status, le.Applied, host))
			break
		}
	}
	for _, host := range []string{"src", "tgt", "dir"} {
		pre, pos := x.pre(host), x.post(host)
		names := map[string]bool{}
		for n := range pre {
			names[n] = true
		}
		for n := range pos {
			names[n] = true
		}
		for _, rn := range c18SortedKeys(names) {
			if d := c18RepoDiff(pre[rn], pos[rn], true); d != "" {
				vs = append(vs, x.v(false, "check-run-changed-state", "check-only run changed %s/%s: %s", host, rn, d))
			}
		}
	}
	return vs
}

// judgeRerun: an unchanged second run of entries without forceRecursive /
// referrers / digestTags sends no state-changing request to their targets.
func (x *c18StepCtx) judgeRerun() []*evid.Violation {
	var vs []*evid.Violation
	quiet := map[[2]string]int{}
	for i, e := range x.C.Entries {
		o := c18Resolve(e, x.C.Def)
		if o.Force || o.Referrers || o.DigestTags {
			continue
		}
		for _, key := range x.Plan.EntryRepo[i] {
			quiet[[2]string{x.addr(key[0]), key[1]}] = i
		}
	}
	for _, le := range x.Log {
		if !le.Mutating() {
			continue
		}
		if i, ok := quiet[[2]string{le.Host, le.Repo}]; ok {
			vs = append(vs, x.v(false, "unchanged-rerun-wrote", "second run with an unchanged source: entry %d (no forceRecursive/referrers/digestTags) sent request #%d %s %s (status %d)", i, le.Seq, le.Method, le.Path, le.Status))
			break
		}
	}
	return vs
}

// ----------------------------------------------------------------- OCI layouts

// c18WriteLayout writes a repository raw as an OCI layout directory: every blob
// and manifest as blobs/<alg>/<hex>, every tag as an index.json entry.
func c18WriteLayout(dir string, r *rm.Repo) error {
	if err := os.RemoveAll(dir); err != nil {
		return err
	}
	write := func(d string, data []byte) error {
		alg, hx, ok := strings.Cut(d, ":")
		if !ok {
			return fmt.Errorf("bad digest %q", d)
		}
		p := filepath.Join(dir, "blobs", alg)
		if err := os.MkdirAll(p, 0o777); err != nil {
			return err
		}
		return os.WriteFile(filepath.Join(p, hx), data, 0o666)
	}
	if err := os.MkdirAll(filepath.Join(dir, "blobs", "sha256"), 0o777); err != nil {
		return err
	}
	for d, b := range r.Blobs {
		if err := write(d, b); err != nil {
			return err
		}
	}
	for d, m := range r.Manifests {
		if err := write(d, m.Body); err != nil {
			return err
		}
	}
	entries := []any{}
	for _, t := range c18SortedKeys(r.Tags) {
		d := r.Tags[t]
		m := r.Manifests[d]
		if m == nil {
			continue
		}
		entries = append(entries, map[string]any{"mediaType": m.MediaType, "digest": d, "size": len(m.Body),
			"annotations": map[string]string{"org.opencontainers.image.ref.name": t}})
	}
	if err := os.WriteFile(filepath.Join(dir, "oci-layout"), []byte(`{"imageLayoutVersion":"1.0.0"}`), 0o666); err != nil {
		return err
	}
	idx := `{"schemaVersion":2,"mediaType":"` + rm.MTOCIIndex + `","manifests":` + c18JSON(entries) + `}`
	return os.WriteFile(filepath.Join(dir, "index.json"), []byte(idx), 0o666)
}

// c18ReadLayout snapshots a layout directory through plain file reads: tags
// from index.json, every stored file as a blob, and as a manifest when
// index.json names it or its body declares a manifest media type.
func c18ReadLayout(dir string) *c18RepoSnap {
	s := &c18RepoSnap{Tags: map[string]string{}, Man: map[string]*rm.Manifest{}, Blobs: map[string][]byte{}}
	algs, _ := os.ReadDir(filepath.Join(dir, "blobs"))
	for _, a := range algs {
		if !a.IsDir() {
			continue
		}
		fs, _ := os.ReadDir(filepath.Join(dir, "blobs", a.Name()))
		for _, f := range fs {
			b, err := os.ReadFile(filepath.Join(dir, "blobs", a.Name(), f.Name()))
			if err != nil {
				continue
			}
			d := a.Name() + ":" + f.Name()
			s.Blobs[d] = b
			if len(b) > 0 && b[0] == '{' {
				var hdr struct {
					MediaType string `json:"mediaType"`
				}
				if json.Unmarshal(b, &hdr) == nil && rm.IsManifestType(hdr.MediaType) {
					s.Man[d] = &rm.Manifest{MediaType: hdr.MediaType, Body: b}
				}
			}
		}
	}
	var idx struct {
		Manifests []struct {
			MediaType   string            `json:"mediaType"`
			Digest      string            `json:"digest"`
			Annotations map[string]string `json:"annotations"`
		} `json:"manifests"`
	}
	if b, err := os.ReadFile(filepath.Join(dir, "index.json")); err == nil && json.Unmarshal(b, &idx) == nil {
		for _, e := range idx.Manifests {
			if body, ok := s.Blobs[e.Digest]; ok {
				s.Man[e.Digest] = &rm.Manifest{MediaType: e.MediaType, Body: body}
			}
			if t := e.Annotations["org.opencontainers.image.ref.name"]; t != "" {
				s.Tags[t] = e.Digest
			}
		}
	}
	return s
}

// c18DirSnapshot snapshots every layout below root, keyed by its path relative to root.
func c18DirSnapshot(root string) c18HostSnap {
	out := c18HostSnap{}
	_ = filepath.WalkDir(root, func(p string, d os.DirEntry, err error) error {
		if err != nil || !d.IsDir() {
			return nil
		}
		if _, e1 := os.Stat(filepath.Join(p, "index.json")); e1 == nil {
			rel, _ := filepath.Rel(root, p)
			out[filepath.ToSlash(rel)] = c18ReadLayout(p)
			return filepath.SkipDir
		}
		if _, e2 := os.Stat(filepath.Join(p, "oci-layout")); e2 == nil {
			rel, _ := filepath.Rel(root, p)
			out[filepath.ToSlash(rel)] = c18ReadLayout(p)
			return filepath.SkipDir
		}
		return nil
	})
	return out
}
