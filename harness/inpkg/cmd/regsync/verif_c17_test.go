//go:build c17

package main

// C17 engine 4 - the regsync throttle (pqueue.Queue[throttle], defaults.parallel)
// as the real command uses it. See /verif/DESIGN.md "### C17" and
// /verif/harness/c17 (engines 1-3).
//
// White-box overlay test: `regsync once -c <generated yaml>` runs in-process
// through NewRootCmd against a regmodel registry exposed on loopback (regsync
// builds its own client from the YAML). The source repositories report pull
// rate limits (RateLimit-Remaining) per a generated plan, so that processRef
// takes its release / sleep / re-acquire path, and may fail the refreshing
// ManifestHead. Oracle: the command returns, and afterwards the command's own
// throttle has all `parallel` slots (TryAcquire on rootOpts.throttle).
//
// rateLimitRetryMin (a package variable, 5 minutes in production: the shortest
// `ratelimit.retry` a configuration can ask for) is lowered to 2 ms for the
// test process; nothing else of the command is changed.

import (
	"context"
	"encoding/json"
	"fmt"
	"io"
	"net/http"
	"net/http/httptest"
	"os"
	"path/filepath"
	"runtime"
	"sort"
	"strings"
	"sync"
	"sync/atomic"
	"testing"
	"time"

	"pgregory.net/rapid"

	"github.com/regclient/regclient/zz_verif/evid"
	rm "github.com/regclient/regclient/zz_verif/regmodel"
)

const c17Prop = "C17"

// c17Step is one sync entry.
type c17Step struct {
	Type       string `json:"type"`                  // image | repository
	Tags       int    `json:"tags"`                  // 1-2 tags in the source repository
	Min        int    `json:"min,omitempty"`         // ratelimit.min (0 = none)
	DefaultMin bool   `json:"default_min,omitempty"` // min comes from defaults instead of the entry
	Remain     []int  `json:"remain,omitempty"`      // RateLimit-Remaining reported by the k-th manifest HEAD of the source repository (beyond the list: 90)
	Fail       int    `json:"fail,omitempty"`        // k>0: the k-th manifest HEAD (0-based ordinal k) of the source repository answers 404
	TgtHas     bool   `json:"tgt_has,omitempty"`     // the target already holds the image (step returns before the throttle)
}

// c17SyncCase is the input of engine 4 (Engine == "regsync").
type c17SyncCase struct {
	Engine     string    `json:"engine"`
	Parallel   int       `json:"parallel"` // defaults.parallel: 0 (sequential, throttle of 1), 1..3
	AbortOnErr bool      `json:"abort_on_error,omitempty"`
	CancelAt   int       `json:"cancel_at,omitempty"` // k>0: the command's context is cancelled when the k-th request arrives
	Steps      []c17Step `json:"steps"`
}

var c17Srv struct {
	once  sync.Once
	srv   *httptest.Server
	addr  string
	cur   atomic.Pointer[c17World]
	reqs  atomic.Int64
	ready bool
}

type c17World struct {
	m      *rm.Model
	mu     sync.Mutex
	heads  map[string]int // source repo -> manifest HEADs seen
	steps  map[string]c17Step
	cancel context.CancelFunc
	at     int64
	n      atomic.Int64
	events map[string]int
}

func (w *c17World) event(l string) { w.mu.Lock(); w.events[l]++; w.mu.Unlock() }

func c17Handler() http.Handler {
	return http.HandlerFunc(func(rw http.ResponseWriter, r *http.Request) {
		w := c17Srv.cur.Load()
		if w == nil {
			http.Error(rw, "no world", http.StatusBadGateway)
			return
		}
		if n := w.n.Add(1); w.at > 0 && n == w.at {
			w.cancel()
		}
		// /v2/<repo>/manifests/<ref>
		if i := strings.Index(r.URL.Path, "/manifests/"); i > 4 && strings.HasPrefix(r.URL.Path, "/v2/src") {
			repo := r.URL.Path[4:i]
			remain := 90
			if r.Method == http.MethodHead {
				w.mu.Lock()
				k := w.heads[repo]
				w.heads[repo] = k + 1
				st := w.steps[repo]
				w.mu.Unlock()
				if st.Fail > 0 && k == st.Fail {
					w.event("sync:manifest-head-answered-404")
					rw.WriteHeader(http.StatusNotFound)
					return
				}
				if k < len(st.Remain) {
					remain = st.Remain[k]
				}
			}
			rw.Header().Set("RateLimit-Limit", "100;w=21600")
			rw.Header().Set("RateLimit-Remaining", fmt.Sprintf("%d;w=21600", remain))
		}
		r2 := r.Clone(r.Context())
		r2.RequestURI = ""
		r2.URL.Scheme = "http"
		r2.URL.Host = c17Srv.addr
		resp, err := w.m.RoundTrip(r2)
		if err != nil {
			http.Error(rw, "model transport error: "+err.Error(), http.StatusBadGateway)
			return
		}
		defer resp.Body.Close()
		for k, vs := range resp.Header {
			for _, v := range vs {
				rw.Header().Add(k, v)
			}
		}
		rw.WriteHeader(resp.StatusCode)
		_, _ = io.Copy(rw, resp.Body)
	})
}

func c17Server() string {
	c17Srv.once.Do(func() {
		// the shortest retry period a configuration can ask for: 5 minutes in production, 2 ms here
		rateLimitRetryMin = 2 * time.Millisecond
		if home, err := os.MkdirTemp("", "c17-home-"); err == nil {
			os.Setenv("HOME", home)
			os.Setenv("DOCKER_CONFIG", filepath.Join(home, "docker"))
		}
		c17Srv.srv = httptest.NewServer(c17Handler())
		c17Srv.addr = c17Srv.srv.Listener.Addr().String()
	})
	return c17Srv.addr
}

// c17PutImage stores a one-layer OCI image, distinct per (repo, tag).
func c17PutImage(rp *rm.Repo, seed, tag string) {
	cfg := []byte(fmt.Sprintf(`{"architecture":"amd64","os":"linux","config":{},"rootfs":{"type":"layers","diff_ids":[]},"seed":%q}`, seed))
	layer := []byte("layer of " + seed + strings.Repeat(".", 300))
	cd, ld := rm.Digest("sha256", cfg), rm.Digest("sha256", layer)
	rp.Blobs[cd], rp.Blobs[ld] = cfg, layer
	body := []byte(fmt.Sprintf(`{"schemaVersion":2,"mediaType":"application/vnd.oci.image.manifest.v1+json","config":{"mediaType":"application/vnd.oci.image.config.v1+json","digest":"%s","size":%d},"layers":[{"mediaType":"application/vnd.oci.image.layer.v1.tar+gzip","digest":"%s","size":%d}]}`,
		cd, len(cfg), ld, len(layer)))
	md := rm.Digest("sha256", body)
	rp.Manifests[md] = &rm.Manifest{MediaType: "application/vnd.oci.image.manifest.v1+json", Body: body}
	rp.Tags[tag] = md
}

func (c *c17SyncCase) normalise() {
	if c.Parallel < 0 {
		c.Parallel = 0
	}
	if c.Parallel > 3 {
		c.Parallel = 3
	}
	if len(c.Steps) > 4 {
		c.Steps = c.Steps[:4]
	}
	for i := range c.Steps {
		s := &c.Steps[i]
		if s.Type != "repository" {
			s.Type = "image"
		}
		if s.Tags < 1 {
			s.Tags = 1
		}
		if s.Tags > 2 {
			s.Tags = 2
		}
		if len(s.Remain) > 6 {
			s.Remain = s.Remain[:6]
		}
	}
}

func (c c17SyncCase) limit() int {
	if c.Parallel <= 0 {
		return 1
	}
	return c.Parallel
}

// c17Parked: goroutines that are inside a sync step (rootOpts.process) and how many of them are parked in the
// select of pqueue.Acquire.
func c17Parked() (n, parked int, dump string) {
	buf := make([]byte, 4<<20)
	buf = buf[:runtime.Stack(buf, true)]
	dump = string(buf)
	for _, g := range strings.Split(dump, "\n\n") {
		if !strings.Contains(g, "regsync.(*rootOpts).process(") {
			continue
		}
		n++
		nl := strings.IndexByte(g, '\n')
		if nl < 0 {
			continue
		}
		hdr := g[:nl]
		if i := strings.IndexByte(hdr, '['); i >= 0 && strings.HasPrefix(hdr[i+1:], "select") &&
			strings.Contains(g, "internal/pqueue.") && strings.Contains(g, ".Acquire(") {
			parked++
		}
	}
	return
}

type c17Outcome struct {
	v            *evid.Violation
	inconclusive string
	events       map[string]int
}

func c17Run(c c17SyncCase) c17Outcome {
	c.normalise()
	addr := c17Server()
	w := &c17World{m: rm.New(), heads: map[string]int{}, steps: map[string]c17Step{}, events: map[string]int{}, at: int64(c.CancelAt)}
	out := c17Outcome{events: w.events}
	h := w.m.AddHost(addr)
	var sb strings.Builder
	fmt.Fprintf(&sb, "version: 1\ncreds:\n  - registry: %q\n    tls: disabled\ndefaults:\n  parallel: %d\n  skipDockerConfig: true\n", addr, c.Parallel)
	defMin := 0
	for _, s := range c.Steps {
		if s.DefaultMin && s.Min > 0 {
			defMin = s.Min
		}
	}
	if defMin > 0 {
		fmt.Fprintf(&sb, "  ratelimit:\n    min: %d\n    retry: 1ms\n", defMin)
	}
	sb.WriteString("sync:\n")
	for i, s := range c.Steps {
		src, tgt := fmt.Sprintf("src%d", i), fmt.Sprintf("tgt%d", i)
		w.steps[src] = s
		for t := 0; t < s.Tags; t++ {
			tag := fmt.Sprintf("v%d", t+1)
			c17PutImage(h.Repo(src), src+tag, tag)
			if s.TgtHas {
				c17PutImage(h.Repo(tgt), src+tag, tag)
			}
		}
		if s.Type == "repository" {
			fmt.Fprintf(&sb, "  - source: %s/%s\n    target: %s/%s\n    type: repository\n", addr, src, addr, tgt)
		} else {
			fmt.Fprintf(&sb, "  - source: %s/%s:v1\n    target: %s/%s:v1\n    type: image\n", addr, src, addr, tgt)
		}
		if s.Min > 0 && !s.DefaultMin {
			fmt.Fprintf(&sb, "    ratelimit:\n      min: %d\n      retry: 1ms\n", s.Min)
		}
	}
	dir, err := os.MkdirTemp("", "c17sync")
	if err != nil {
		out.inconclusive = err.Error()
		return out
	}
	defer os.RemoveAll(dir)
	conf := filepath.Join(dir, "regsync.yml")
	if err := os.WriteFile(conf, []byte(sb.String()), 0o600); err != nil {
		out.inconclusive = err.Error()
		return out
	}
	ctx, cancel := context.WithCancel(context.Background())
	defer cancel()
	w.cancel = cancel
	c17Srv.cur.Store(w)

	cmd, opts := NewRootCmd()
	args := []string{"once", "-c", conf}
	if c.AbortOnErr {
		args = append(args, "--abort-on-error")
	}
	cmd.SetArgs(args)
	cmd.SetOut(io.Discard)
	cmd.SetErr(io.Discard)
	done := make(chan struct{})
	var cmdErr error
	go func() {
		defer close(done)
		cmdErr = cmd.ExecuteContext(ctx)
	}()

	// ---- oracle 1: the command returns
	returned := false
	wd := time.NewTimer(5 * time.Second)
	select {
	case <-done:
		returned = true
	case <-wd.C:
	}
	wd.Stop()
	if !returned {
		t0 := time.Now()
		same := 0
		for time.Since(t0) < 90*time.Second && !returned && same < 3 {
			select {
			case <-done:
				returned = true
				continue
			case <-time.After(150 * time.Millisecond):
			}
			if n, parked, _ := c17Parked(); n > 0 && n == parked {
				same++
			} else {
				same = 0
			}
		}
		if !returned {
			_, _, dump := c17Parked()
			if len(dump) > 5000 {
				dump = dump[:5000]
			}
			if same >= 3 {
				out.v = evid.V("regsync-steps-wait-for-throttle-nobody-holds", "`regsync once` (parallel %d, %d steps) does not return: every sync step still running is parked in the select of pqueue.Acquire on the command's throttle and no step is left to release a slot\nconfig:\n%s\n%s", c.Parallel, len(c.Steps), sb.String(), dump)
			} else {
				out.inconclusive = "regsync once did not return and is not provably stuck in the throttle\n" + dump
			}
			cancel()
			select {
			case <-done:
			case <-time.After(30 * time.Second):
				if out.inconclusive == "" {
					out.inconclusive = "regsync teardown did not finish"
				}
			}
			return out
		}
	}
	if cmdErr != nil {
		w.event("sync:command-returned-error")
	} else {
		w.event("sync:command-ok")
	}
	if ctx.Err() != nil {
		w.event("sync:context-cancelled-during-run")
	}
	w.mu.Lock()
	for repo, st := range w.steps {
		k := w.heads[repo]
		low := 0
		for i := 1; i < k && i < len(st.Remain); i++ {
			if st.Min > 0 && st.Remain[i] < st.Min {
				low++
			}
		}
		if low > 0 {
			w.events["sync:step-released-slept-reacquired"]++
		}
		if low > 1 {
			w.events["sync:step-looped-twice-or-more"]++
		}
	}
	w.mu.Unlock()

	// ---- oracle 2: the command's throttle has all its slots
	if opts.throttle == nil {
		w.event("sync:no-throttle-configured") // configuration was not loaded
		return out
	}
	lim := c.limit()
	var rels []func()
	for i := 0; i < lim+2; i++ {
		rel, err := opts.throttle.TryAcquire(context.Background(), throttle{})
		if err != nil || rel == nil {
			break
		}
		rels = append(rels, rel)
	}
	for _, rel := range rels {
		rel()
	}
	switch {
	case len(rels) < lim:
		out.v = evid.V("regsync-throttle-slot-kept-after-run", "`regsync once` returned (err=%v) but its throttle (parallel %d) has only %d free slots: a finished step kept a slot\nconfig:\n%s\nmanifest HEADs per source repository: %v", cmdErr, c.Parallel, len(rels), sb.String(), w.heads)
	case len(rels) > lim:
		out.v = evid.V("regsync-throttle-admits-more-than-parallel", "the throttle of `regsync once` (parallel %d) admitted %d holders", c.Parallel, len(rels))
	}
	return out
}

// ---------------------------------------------------------------- generator

func c17Gen(t *rapid.T) c17SyncCase {
	c := c17SyncCase{Engine: "regsync"}
	c.Parallel = rapid.SampledFrom([]int{1, 1, 1, 2, 2, 3, 0}).Draw(t, "parallel")
	c.AbortOnErr = rapid.IntRange(0, 3).Draw(t, "abort") == 2
	c.CancelAt = rapid.SampledFrom([]int{0, 0, 0, 0, 0, 0, 0, 0, 2, 4, 6, 9, 13}).Draw(t, "cancelat")
	n := rapid.IntRange(1, 4).Draw(t, "steps")
	for i := 0; i < n; i++ {
		s := c17Step{
			Type: rapid.SampledFrom([]string{"image", "image", "repository"}).Draw(t, "type"),
			Tags: rapid.IntRange(1, 2).Draw(t, "tags"),
		}
		if rapid.IntRange(0, 3).Draw(t, "hasmin") != 1 {
			s.Min = 10
			s.DefaultMin = rapid.IntRange(0, 3).Draw(t, "defmin") == 2
			s.Remain = rapid.SliceOfN(rapid.SampledFrom([]int{90, 90, 5, 5, 0, 10, 9}), 0, 5).Draw(t, "remain")
			s.Fail = rapid.SampledFrom([]int{0, 0, 0, 0, 1, 2, 3}).Draw(t, "fail")
		}
		s.TgtHas = rapid.IntRange(0, 7).Draw(t, "tgthas") == 3
		c.Steps = append(c.Steps, s)
	}
	return c
}

func c17Check(c c17SyncCase, ev *evid.Collector) (*evid.Violation, string) {
	o := c17Run(c)
	if o.inconclusive != "" {
		return o.v, o.inconclusive
	}
	labels := []string{"engine:regsync", fmt.Sprintf("sync:parallel=%d", c.Parallel), fmt.Sprintf("sync:steps=%d", len(c.Steps))}
	for k := range o.events {
		labels = append(labels, k)
	}
	sort.Strings(labels)
	kb, _ := json.Marshal(c)
	// non-trivial: a step went through release / sleep / re-acquire while the configuration has a second step
	ev.Case(o.events["sync:step-released-slept-reacquired"] > 0 && len(c.Steps) >= 2, string(kb), labels...)
	ev.Sample(c)
	return o.v, ""
}

func c17Fail(t interface{ Fatalf(string, ...any) }, msg string) {
	evid.Flush(3)
	t.Fatalf("INCONCLUSIVE (not a violation): %s", msg)
}

func TestVerifC17Sync(t *testing.T) {
	ev := evid.For(c17Prop)
	defer evid.Flush(0)
	rapid.Check(t, func(rt *rapid.T) {
		c := c17Gen(rt)
		var inc string
		v := evid.Guard(func() *evid.Violation { v, i := c17Check(c, ev); inc = i; return v })
		if ev.Report(v, c) {
			rt.Fatalf("%v", v)
		}
		if inc != "" {
			c17Fail(t, inc)
		}
	})
}

// TestVerifC17SyncReplayDir runs the saved engine-4 cases of replays/C17 (other engines' cases are skipped).
func TestVerifC17SyncReplayDir(t *testing.T) {
	ev := evid.For(c17Prop)
	defer evid.Flush(0)
	for _, f := range evid.ReplayFiles() {
		var c c17SyncCase
		if err := evid.LoadCaseFile(f, &c); err != nil || c.Engine != "regsync" {
			continue
		}
		for i := 0; i < 5; i++ {
			var inc string
			v := evid.Guard(func() *evid.Violation { v, i := c17Check(c, ev); inc = i; return v })
			if ev.Report(v, c) {
				t.Errorf("%s: %v", f, v)
				break
			}
			if inc != "" {
				c17Fail(t, inc)
			}
		}
	}
}

// TestVerifReplay re-runs one saved engine-4 case (VERIF_REPLAY; run.py --replay builds this package for failure
// files whose "job" is sync / syncreplay).
func TestVerifReplay(t *testing.T) {
	ev := evid.For(c17Prop)
	defer evid.Flush(0)
	var c c17SyncCase
	ok, err := evid.LoadReplay(&c)
	if !ok {
		t.Skip("no VERIF_REPLAY")
	}
	if err != nil {
		t.Fatal(err)
	}
	if c.Engine != "regsync" {
		t.Skipf("case of engine %q belongs to harness/c17", c.Engine)
	}
	for i := 0; i < 5; i++ {
		var inc string
		v := evid.Guard(func() *evid.Violation { v, i := c17Check(c, ev); inc = i; return v })
		if ev.Report(v, c) {
			t.Fatalf("%v", v)
		}
		if inc != "" {
			c17Fail(t, inc)
		}
	}
}
