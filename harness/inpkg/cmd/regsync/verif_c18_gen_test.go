//go:build c18

package main

// C18 — case record, generator and YAML renderer. See /verif/DESIGN.md "### C18".

import (
	"bytes"
	"encoding/json"
	"fmt"
	"sort"
	"strings"

	"pgregory.net/rapid"

	"github.com/regclient/regclient/zz_verif/imggen"
	rm "github.com/regclient/regclient/zz_verif/regmodel"
)

// ---------------------------------------------------------------- case record

// c18TagRef is one tag of a population: it points at the root of pool image Img.
type c18TagRef struct {
	Tag  string `json:"tag"`
	Img  int    `json:"img"`
	Full bool   `json:"full,omitempty"` // target only: whole graph (referrers, digest tags) instead of the root's closure
}

// c18Repo is one repository of a population.
type c18Repo struct {
	Host  string      `json:"host"` // "src" | "tgt"
	Name  string      `json:"name"`
	Tags  []c18TagRef `json:"tags"`
	Loose []int       `json:"loose,omitempty"` // pool images whose blobs (only) are already present
}

// c18Feat is the generated part of a registry feature set.
type c18Feat struct {
	Referrers    bool `json:"referrers"`
	TagPage      int  `json:"tag_page"`
	CatalogPage  int  `json:"catalog_page"`
	HeadNoDigest bool `json:"head_no_digest"`
	MountGrant   bool `json:"mount_grant"`
	AnonMount    int  `json:"anon_mount"`
	LocStyle     int  `json:"loc_style"`
	Validate     bool `json:"validate"`
	NoRepo404    bool `json:"no_repo_404"`
}

func (f c18Feat) features() rm.Features {
	return rm.Features{Referrers: f.Referrers, TagPage: f.TagPage, CatalogPage: f.CatalogPage, HeadNoDigest: f.HeadNoDigest,
		MountGrant: f.MountGrant, AnonMountStatus: f.AnonMount, LocStyle: f.LocStyle, ValidateManifest: f.Validate,
		TagListNoRepo404: f.NoRepo404, TagDelete: true}
}

// c18Part is one piece of a backup template.
// K: lit | tag | repo | registry | type | uptype | lowtag
type c18Part struct {
	K string `json:"k"`
	S string `json:"s,omitempty"`
}

// c18Sw are the tri-state switches (nil = not written to the YAML).
type c18Sw struct {
	DigestTags     *bool `json:"digest_tags,omitempty"`
	Referrers      *bool `json:"referrers,omitempty"`
	FastCheck      *bool `json:"fast_check,omitempty"`
	ForceRecursive *bool `json:"force_recursive,omitempty"`
}

type c18Entry struct {
	Type       string    `json:"type"` // image | repository | registry
	SrcRepo    string    `json:"src_repo,omitempty"`
	SrcTag     string    `json:"src_tag,omitempty"`
	SameHost   bool      `json:"same_host,omitempty"` // target lives on the source registry
	TgtRepo    string    `json:"tgt_repo,omitempty"`  // image / repository: target repository; registry: path prefix ("" = none)
	TgtTag     string    `json:"tgt_tag,omitempty"`
	TagsAllow  []string  `json:"tags_allow,omitempty"`
	TagsDeny   []string  `json:"tags_deny,omitempty"`
	ReposAllow []string  `json:"repos_allow,omitempty"`
	ReposDeny  []string  `json:"repos_deny,omitempty"`
	Platform   string    `json:"platform,omitempty"`
	Sw         c18Sw     `json:"sw"`
	MediaTypes []string  `json:"media_types,omitempty"`
	Backup     []c18Part `json:"backup,omitempty"`
	BackupFmt  int       `json:"backup_fmt,omitempty"` // 0 plain actions, 1 spaced actions, 2 printf, 3 blanks in the text, 4-7 blanks out of the expansion
	Interval   bool      `json:"interval,omitempty"`   // writes an (irrelevant for once/check) interval
	// dimensions added by the generator-domain audit
	Schedule     bool           `json:"schedule,omitempty"`      // writes an (irrelevant) cron schedule
	EmptyLists   bool           `json:"empty_lists,omitempty"`   // absent filter lists are written as explicit empty lists
	Platforms    []string       `json:"platforms,omitempty"`     // `platforms:` list (only these entries of an index are copied)
	RefFilters   []c18RefFilter `json:"ref_filters,omitempty"`   // referrerFilters
	RateLimitMin int            `json:"ratelimit_min,omitempty"` // ratelimit.min
	SrcForm      string         `json:"src_form,omitempty"`      // image: "" tag | digest | tagdigest | default (no tag = latest)
	TgtDefault   bool           `json:"tgt_default,omitempty"`   // image: target written without a tag (= latest)
	TgtTmpl      bool           `json:"tgt_tmpl,omitempty"`      // target's last path element rendered as a Go template
	SrcDir       bool           `json:"src_dir,omitempty"`       // source is an OCI layout (ocidir://)
	TgtDir       bool           `json:"tgt_dir,omitempty"`       // target is an OCI layout (ocidir://)
}

// c18RefFilter is one referrerFilters element.
type c18RefFilter struct {
	ArtifactType string            `json:"artifact_type,omitempty"`
	Annotations  map[string]string `json:"annotations,omitempty"`
}

// c18HostCfg are per-registry client settings written into creds.
type c18HostCfg struct {
	BlobChunk int `json:"blob_chunk,omitempty"`
	BlobMax   int `json:"blob_max,omitempty"`
}

type c18Defaults struct {
	Parallel   int       `json:"parallel"` // 0 = not written
	Sw         c18Sw     `json:"sw"`
	MediaTypes []string  `json:"media_types,omitempty"`
	Backup     []c18Part `json:"backup,omitempty"`
	BackupFmt  int       `json:"backup_fmt,omitempty"`
	// audit additions
	Cache        bool           `json:"cache,omitempty"` // cacheCount + cacheTime
	RefFilters   []c18RefFilter `json:"ref_filters,omitempty"`
	RateLimitMin int            `json:"ratelimit_min,omitempty"`
	Extension    bool           `json:"extension,omitempty"` // an x-* user extension field at top level
}

// c18Change is one change of the source population between two runs.
type c18Change struct {
	Op   string `json:"op"`             // move | add | delete
	Host string `json:"host,omitempty"` // "" = source population; "src" | "tgt" = drift of a target repository on that registry
	Repo string `json:"repo"`
	Tag  string `json:"tag"`
	Img  int    `json:"img"`
}

type c18Step struct {
	Cmd     string      `json:"cmd"` // once | check
	Changes []c18Change `json:"changes,omitempty"`
	Missing bool        `json:"missing,omitempty"` // once --missing
	Abort   bool        `json:"abort,omitempty"`   // --abort-on-error
}

type c18Style struct {
	Quote int  `json:"quote"` // 0 double quoted, 1 single quoted, 2 plain where safe
	Flow  bool `json:"flow"`  // flow sequences for filter lists
	Alias bool `json:"alias"` // registries get names with a hostname: entry pointing at loopback
}

type c18Case struct {
	Images  []*imggen.Graph `json:"images"`
	Src     []c18Repo       `json:"src"`
	Tgt     []c18Repo       `json:"tgt"`
	SrcFeat c18Feat         `json:"src_feat"`
	TgtFeat c18Feat         `json:"tgt_feat"`
	Def     c18Defaults     `json:"defaults"`
	Entries []c18Entry      `json:"entries"`
	Steps   []c18Step       `json:"steps"`
	Style   c18Style        `json:"style"`
	// audit additions
	SrcCfg      c18HostCfg `json:"src_cfg"`
	TgtCfg      c18HostCfg `json:"tgt_cfg"`
	RateHeaders bool       `json:"rate_headers,omitempty"` // the source registry sends RateLimit-* headers (plenty remaining)
}

// ------------------------------------------------------------------ constants

var c18RepoPool = []string{"proj/app", "proj/app-backup", "lib/base", "team-x/tool", "app", "proj/application", "lib/base/sub"}

var c18TagPool = []string{"v1", "v2", "v10", "v1-alpine", "v1.2", "v12", "latest", "edge", "3", "3.1", "3.10", "rc-v1", "v2-rc", "1", "v21", "alpine"}

var c18TagRegex = []string{
	`v1`, `latest`, `v[0-9]`, `v[0-9]+`, `v\d+`, `3\.\d+`, `3.\d+`, `.*`, `v.*`, `.*-alpine`, `(v1|v2)`, `v(1|2)0?`,
	`v1|v2`, `latest|edge`, `v1|3`, `3`, `v1.*`, `[^v].*`, `v1(-alpine)?`, `.*rc.*`, `^v1$|^v2$`, `v1|v2|3`, `(?:v1|edge)`,
	`[a-z]+`, `v1\.2`, `v1.2`, `(?i)V1`, `1|2`, `v2|alpine`, `edge|.*-rc`, `[0-9.]+`, `v1[0-9]`, `v\d|latest`, ``,
}

var c18RepoRegex = []string{
	`proj/.*`, `.*backup`, `lib/base|app`, `(proj|lib)/.*`, `team-x/.*`, `[a-z]+/[a-z]+`, `app`, `proj/app`, `.*`, `[a-z-]+`,
	`proj/app|lib/base`, `.*/.*`, `proj/app.*`, `lib/.*|team-x/tool`, `[a-z/]+`, `.*/base`,
}

var c18Platforms = []string{"linux/amd64", "linux/arm64", "linux/arm/v7", "linux/arm/v6", "linux/ppc64le"}

var c18MediaTypeSets = [][]string{
	{rm.MTOCIManifest, rm.MTOCIIndex},
	{rm.MTDocker2, rm.MTDocker2List},
	{rm.MTOCIManifest, rm.MTDocker2},
	{rm.MTOCIIndex, rm.MTDocker2List},
	{rm.MTDocker2, rm.MTDocker2List, rm.MTOCIManifest, rm.MTOCIIndex, rm.MTDocker1},
	{rm.MTDocker2, rm.MTDocker2List, rm.MTOCIManifest, rm.MTOCIIndex, rm.MTOCIArtifact},
	{rm.MTOCIManifest},
	{rm.MTOCIIndex},
}

var c18BuiltinMediaTypes = []string{rm.MTDocker2, rm.MTDocker2List, rm.MTOCIManifest, rm.MTOCIIndex}

// backup templates as part lists (all of them yield a name that is not in the tag pool)
var c18BackupTemplates = [][]c18Part{
	{{K: "lit", S: "bak-"}, {K: "tag"}},
	{{K: "tag"}, {K: "lit", S: "-old"}},
	{{K: "lit", S: "backup"}},
	{{K: "registry"}, {K: "lit", S: "/backups/"}, {K: "repo"}, {K: "lit", S: ":"}, {K: "tag"}},
	{{K: "registry"}, {K: "lit", S: "/"}, {K: "repo"}, {K: "lit", S: "-bak:"}, {K: "tag"}},
	{{K: "uptype"}, {K: "lit", S: "-"}, {K: "tag"}},
	{{K: "lit", S: "old."}, {K: "lowtag"}},
	{{K: "registry"}, {K: "lit", S: "/"}, {K: "repo"}, {K: "lit", S: ":prev-"}, {K: "tag"}},
}

// ------------------------------------------------------------------ generator

func c18ImgOptions() imggen.Options {
	// foreign layers are generated but never fetched (includeExternal is not set: the generated urls are https)
	return imggen.Options{MaxDepth: 2, Schema1: true, Artifacts: true, Foreign: true, BlobEntries: true, InlineData: true,
		Referrers: true, DigestTags: true, Sha512: true, ExtraTags: false, ExtHost: "ext.example.test", MaxLayers: 2, MaxEntries: 3}
}

// c18Pick draws n distinct elements of pool (n <= len(pool)).
func c18Pick(t *rapid.T, label string, pool []string, n int) []string {
	used := make([]bool, len(pool))
	out := []string{}
	for i := 0; i < n && i < len(pool); i++ {
		k := rapid.IntRange(0, len(pool)-1).Draw(t, label)
		for used[k] {
			k = (k + 1) % len(pool)
		}
		used[k] = true
		out = append(out, pool[k])
	}
	return out
}

// c18Bits draws n fair bits (rapid's integer generators are biased towards
// small values, which would distort the intended weights); 0 is the simplest value.
func c18Bits(t *rapid.T, label string, n int) int {
	v := 0
	for i := 0; i < n; i++ {
		if rapid.Bool().Draw(t, label) {
			v |= 1 << i
		}
	}
	return v
}

// c18Chance is true with probability eighths/8 (and shrinks towards false).
func c18Chance(t *rapid.T, label string, eighths int) bool {
	return c18Bits(t, label, 3) >= 8-eighths
}

// c18Tri: nil with nil8/8, true with true8/8, else false.
func c18Tri(t *rapid.T, label string, nil8, true8 int) *bool {
	k := c18Bits(t, label, 3)
	if k < nil8 {
		return nil
	}
	b := k < nil8+true8
	return &b
}

// c18Regex draws one filter expression from the small grammar.
func c18Regex(t *rapid.T, label string, curated []string, names []string, depth int) string {
	switch k := c18Bits(t, label+"_src", 3); {
	case k < 3:
		return rapid.SampledFrom(curated).Draw(t, label+"_cur")
	case k < 6 && len(names) > 0:
		a := rapid.SampledFrom(names).Draw(t, label+"_n1")
		switch rapid.IntRange(0, 7).Draw(t, label+"_form") {
		case 0:
			return a // literal (a '.' stays a wildcard, as a user would write it)
		case 1:
			return strings.ReplaceAll(a, ".", `\.`)
		case 2:
			return a + ".*"
		case 3:
			b := rapid.SampledFrom(names).Draw(t, label+"_n2")
			return a + "|" + b // top-level alternation of two existing names
		case 4:
			b := rapid.SampledFrom(names).Draw(t, label+"_n2")
			return "(" + a + "|" + b + ")"
		case 5:
			if len(a) > 1 {
				return a[:len(a)-1] + ".*"
			}
			return a + ".?"
		case 6:
			if len(a) > 1 {
				return ".*" + a[1:]
			}
			return ".*" + a
		default:
			if len(a) > 1 {
				return a[:1] + "[0-9a-z.-]*"
			}
			return a + "[0-9]*"
		}
	default:
		// grammar: seq ('|' seq)?
		s := c18RegexSeq(t, label, depth)
		if c18Chance(t, label+"_alt", 2) {
			s += "|" + c18RegexSeq(t, label, depth)
		}
		return s
	}
}

func c18RegexSeq(t *rapid.T, label string, depth int) string {
	n := rapid.IntRange(1, 3).Draw(t, label+"_len")
	var sb strings.Builder
	for i := 0; i < n; i++ {
		k := rapid.IntRange(0, 11).Draw(t, label+"_piece")
		p := ""
		switch k {
		case 0, 1, 2:
			p = rapid.SampledFrom([]string{"v", "1", "2", "0", "3", "-", "alpine", "rc", "latest", "edge", "proj", "lib", "app", "/", "base"}).Draw(t, label+"_lit")
		case 3:
			p = `[0-9]`
		case 4:
			p = `[0-9]+`
		case 5:
			p = `.*`
		case 6:
			p = `\d+`
		case 7:
			p = `.`
		case 8:
			p = `\.`
		case 9:
			p = `[a-z]+`
		case 10:
			if depth > 0 {
				p = "(" + c18RegexSeq(t, label, depth-1) + "|" + c18RegexSeq(t, label, depth-1) + ")"
			} else {
				p = `[a-z0-9]*`
			}
		default:
			p = rapid.SampledFrom([]string{"v", "1", "-alpine", "0"}).Draw(t, label+"_opt") + "?"
		}
		sb.WriteString(p)
	}
	return sb.String()
}

func c18FilterList(t *rapid.T, label string, curated, names []string) []string {
	n := rapid.SampledFrom([]int{0, 0, 1, 1, 1, 2}).Draw(t, label+"_n")
	out := []string{}
	for i := 0; i < n; i++ {
		out = append(out, c18Regex(t, label, curated, names, 1))
	}
	if len(out) == 0 {
		return nil
	}
	return out
}

func c18GenFeat(t *rapid.T, label string) c18Feat {
	return c18Feat{
		Referrers:    rapid.Bool().Draw(t, label+"_refapi"),
		TagPage:      rapid.SampledFrom([]int{0, 0, 1, 3}).Draw(t, label+"_tagpage"),
		CatalogPage:  rapid.SampledFrom([]int{0, 0, 1, 2}).Draw(t, label+"_catpage"),
		HeadNoDigest: c18Chance(t, label+"_hnd", 2),
		MountGrant:   rapid.Bool().Draw(t, label+"_mount"),
		AnonMount:    rapid.SampledFrom([]int{0, 0, 201, 405}).Draw(t, label+"_anon"),
		LocStyle:     rapid.IntRange(0, 3).Draw(t, label+"_loc"),
		NoRepo404:    c18Chance(t, label+"_norepo", 2),
	}
}

func c18GenBackup(t *rapid.T, label string, prob int) ([]c18Part, int) {
	if !c18Chance(t, label+"_has", prob) {
		return nil, 0
	}
	tp := rapid.SampledFrom(c18BackupTemplates).Draw(t, label+"_tmpl")
	return tp, c18Bits(t, label+"_fmt", 3)
}

func c18GenMediaTypes(t *rapid.T, label string, prob int) []string {
	if !c18Chance(t, label+"_has", prob) {
		return nil
	}
	return rapid.SampledFrom(c18MediaTypeSets).Draw(t, label+"_set")
}

// c18IndexPlatforms lists "os/arch[/variant]" of the root's entries when the root is an index.
func c18IndexPlatforms(g *imggen.Graph) []string {
	n := g.Nodes[g.Root]
	if n.Kind != "index" {
		return nil
	}
	pm, err := rm.ParseManifest(n.Body)
	if err != nil {
		return nil
	}
	out := []string{}
	for _, rf := range pm.Refs {
		if rf.Platform == nil {
			continue
		}
		osn, _ := rf.Platform["os"].(string)
		arch, _ := rf.Platform["architecture"].(string)
		v, _ := rf.Platform["variant"].(string)
		if osn == "windows" {
			// a windows entry is selected by its os version ("windows/amd64,osver=10.0.17763.1")
			if ov, _ := rf.Platform["os.version"].(string); ov != "" {
				out = append(out, osn+"/"+arch+",osver="+ov)
			}
			continue
		}
		if osn != "linux" {
			continue
		}
		p := osn + "/" + arch
		if v != "" {
			p += "/" + v
		}
		out = append(out, p)
	}
	return out
}

func c18Gen(t *rapid.T) c18Case {
	var c c18Case
	nImg := rapid.IntRange(2, 4).Draw(t, "nimg")
	for i := 0; i < nImg; i++ {
		c.Images = append(c.Images, imggen.Gen(t, c18ImgOptions()))
	}
	img := func(label string) int { return rapid.IntRange(0, nImg-1).Draw(t, label) }
	otherImg := func(label string, not int) int {
		k := rapid.IntRange(0, nImg-2).Draw(t, label)
		if k >= not {
			k++
		}
		return k
	}
	c.SrcFeat = c18GenFeat(t, "sf")
	c.TgtFeat = c18GenFeat(t, "tf")
	c.TgtFeat.Validate = c18Chance(t, "tf_validate", 3)
	c.Style = c18Style{Quote: rapid.IntRange(0, 2).Draw(t, "st_quote"), Flow: rapid.Bool().Draw(t, "st_flow"), Alias: c18Chance(t, "st_alias", 2)}

	// source population
	nRepo := rapid.IntRange(2, 3).Draw(t, "nrepo")
	for _, rn := range c18Pick(t, "repo", c18RepoPool, nRepo) {
		r := c18Repo{Host: "src", Name: rn}
		nTag := c18Bits(t, "ntag", 3)
		if nTag > 6 {
			nTag = 6
		}
		for _, tg := range c18Pick(t, "tag", c18TagPool, nTag) {
			r.Tags = append(r.Tags, c18TagRef{Tag: tg, Img: img("tagimg")})
		}
		c.Src = append(c.Src, r)
	}
	srcNames := []string{}
	for _, r := range c.Src {
		srcNames = append(srcNames, r.Name)
	}
	srcTags := func(repo string) []c18TagRef {
		for _, r := range c.Src {
			if r.Name == repo {
				return r.Tags
			}
		}
		return nil
	}
	platPool := []string{}
	for _, g := range c.Images {
		platPool = append(platPool, c18IndexPlatforms(g)...)
	}

	// defaults
	c.Def.Parallel = rapid.SampledFrom([]int{0, 1, 2, 3, 4}).Draw(t, "parallel")
	c.Def.Sw = c18Sw{DigestTags: c18Tri(t, "d_dt", 5, 2), Referrers: c18Tri(t, "d_ref", 5, 2), FastCheck: c18Tri(t, "d_fast", 6, 1), ForceRecursive: c18Tri(t, "d_force", 6, 1)}
	c.Def.MediaTypes = c18GenMediaTypes(t, "d_mt", 1)
	c.Def.Backup, c.Def.BackupFmt = c18GenBackup(t, "d_bak", 2)

	// entries; every entry writes into its own target name space
	nEnt := []int{1, 1, 2, 3}[c18Bits(t, "nentry", 2)]
	rootUsed := false
	for i := 0; i < nEnt; i++ {
		var e c18Entry
		switch k := c18Bits(t, "etype", 3); {
		case k < 4:
			e.Type = "repository"
		case k < 6:
			e.Type = "image"
		default:
			e.Type = "registry"
		}
		if e.Type != "registry" {
			e.SrcRepo = rapid.SampledFrom(srcNames).Draw(t, "esrc")
			if e.Type == "image" && len(srcTags(e.SrcRepo)) == 0 {
				for _, r := range c.Src {
					if len(r.Tags) > 0 {
						e.SrcRepo = r.Name
						break
					}
				}
			}
			if c18Bits(t, "eghost", 4) == 15 {
				e.SrcRepo = "ghost/none"
			}
			e.SameHost = c18Chance(t, "esame", 1)
			e.TgtRepo = fmt.Sprintf("e%d/%s", i, rapid.SampledFrom([]string{"mirror", "proj/app", "copy"}).Draw(t, "etgt"))
		} else if !rootUsed && rapid.Bool().Draw(t, "eroot") {
			rootUsed = true
			e.TgtRepo = ""
		} else {
			e.TgtRepo = fmt.Sprintf("r%d", i)
			if c18Chance(t, "edeep", 3) {
				e.TgtRepo += "/mirror"
			}
		}
		tags := []string{}
		for _, tr := range srcTags(e.SrcRepo) {
			tags = append(tags, tr.Tag)
		}
		if e.Type == "image" {
			if len(tags) > 0 && c18Bits(t, "etagmiss", 4) != 15 {
				e.SrcTag = rapid.SampledFrom(tags).Draw(t, "esrctag")
			} else {
				e.SrcTag = "absent"
			}
			e.TgtTag = e.SrcTag
			if c18Chance(t, "etgttag", 3) {
				e.TgtTag = rapid.SampledFrom(c18TagPool).Draw(t, "etgttagv")
			}
		}
		if e.Type == "registry" {
			all := []string{}
			for _, r := range c.Src {
				for _, tr := range r.Tags {
					all = append(all, tr.Tag)
				}
			}
			tags = all
			e.ReposAllow = c18FilterList(t, "ra", c18RepoRegex, srcNames)
			e.ReposDeny = c18FilterList(t, "rd", c18RepoRegex, srcNames)
		}
		// image entries carry (ignored) tag filters now and then
		if e.Type != "image" || c18Chance(t, "eimgfilter", 2) {
			e.TagsAllow = c18FilterList(t, "ta", c18TagRegex, tags)
			e.TagsDeny = c18FilterList(t, "td", c18TagRegex, tags)
		}
		if c18Chance(t, "eplat", 3) {
			// mostly a platform that every index among the entry's source images can serve
			// (otherwise the run fails with "platform not found" and only the source clause is judged)
			imgs := map[int]bool{}
			for _, r := range c.Src {
				if e.Type == "registry" || r.Name == e.SrcRepo {
					for _, tr := range r.Tags {
						if e.Type != "image" || tr.Tag == e.SrcTag {
							imgs[tr.Img] = true
						}
					}
				}
			}
			good := []string{}
			for _, p := range append(append([]string{}, platPool...), c18Platforms...) {
				ok := true
				for i := range c.Images {
					g := c.Images[i]
					if imgs[i] && g.Nodes[g.Root].Kind == "index" && !c18Contains(c18IndexPlatforms(g), p) {
						ok = false
					}
				}
				if ok {
					good = append(good, p)
				}
			}
			switch {
			case c18Chance(t, "eplatany", 1):
				e.Platform = rapid.SampledFrom(c18Platforms).Draw(t, "eplatv")
			case len(good) > 0:
				e.Platform = rapid.SampledFrom(good).Draw(t, "eplatv")
			}
		}
		e.Sw = c18Sw{DigestTags: c18Tri(t, "e_dt", 5, 2), Referrers: c18Tri(t, "e_ref", 5, 2), FastCheck: c18Tri(t, "e_fast", 6, 1), ForceRecursive: c18Tri(t, "e_force", 5, 2)}
		e.MediaTypes = c18GenMediaTypes(t, "e_mt", 2)
		e.Backup, e.BackupFmt = c18GenBackup(t, "e_bak", 3)
		e.Interval = c18Chance(t, "e_interval", 1)
		// --- dimensions added by the generator-domain audit (drawn last so that older draws keep their meaning)
		e.Schedule = c18Chance(t, "e_schedule", 1)
		e.EmptyLists = c18Chance(t, "e_emptylists", 1)
		if e.Platform == "" && c18Chance(t, "e_plats", 1) {
			pool := append(append([]string{}, platPool...), c18Platforms...)
			e.Platforms = c18Pick(t, "e_platsv", pool, rapid.IntRange(1, 2).Draw(t, "e_nplats"))
		}
		e.RefFilters = c18GenRefFilters(t, "e_rf", 2)
		if c18Chance(t, "e_rl", 1) {
			e.RateLimitMin = 10
		}
		if e.Type == "image" {
			switch c18Bits(t, "e_srcform", 3) {
			case 5:
				e.SrcForm = "digest"
			case 6:
				e.SrcForm = "tagdigest"
			case 7:
				if c18Contains(tags, "latest") {
					e.SrcForm, e.SrcTag = "default", "latest"
					if e.TgtTag == "absent" {
						e.TgtTag = "latest"
					}
				}
			}
			if e.SrcTag == "absent" {
				e.SrcForm = ""
			}
			if c18Chance(t, "e_tgtdefault", 1) {
				e.TgtDefault, e.TgtTag = true, "latest"
			}
		}
		if e.Type != "registry" {
			e.TgtTmpl = c18Chance(t, "e_tgttmpl", 1)
			switch c18Bits(t, "e_dir", 3) {
			case 5:
				e.TgtDir = true
			case 6:
				e.SrcDir = true
			case 7:
				e.SrcDir, e.TgtDir = true, true
			}
			if e.SrcRepo == "ghost/none" {
				e.SrcDir = false
			}
			if e.SrcDir || e.TgtDir {
				e.SameHost = false
			}
			if e.SrcDir {
				e.SrcForm = ""
			}
			if e.TgtDir {
				// a layout reference without a tag has an empty .Ref.Tag (its "latest" is implicit): not generated
				e.TgtDefault = false
				if e.TgtTag == "" {
					e.TgtTag = "latest"
				}
			}
		}
		c.Entries = append(c.Entries, e)
	}
	// sequential runs may list the same step twice (the second one has nothing left to do)
	if c.Def.Parallel == 0 && c18Chance(t, "dupentry", 1) {
		c.Entries = append(c.Entries, c.Entries[rapid.IntRange(0, len(c.Entries)-1).Draw(t, "dupwhich")])
	}
	// a target that validates references rejects the partial index a `platforms:` list produces (400, retried
	// with back-off for seconds): that combination only yields slow error runs
	for _, e := range c.Entries {
		if len(e.Platforms) > 0 {
			c.TgtFeat.Validate = false
			c.SrcFeat.Validate = false
		}
	}
	c.Def.Cache = c18Chance(t, "d_cache", 2)
	c.Def.RefFilters = c18GenRefFilters(t, "d_rf", 1)
	if c18Chance(t, "d_rl", 1) {
		c.Def.RateLimitMin = 10
	}
	c.Def.Extension = c18Chance(t, "d_ext", 1)
	c.RateHeaders = rapid.Bool().Draw(t, "rateheaders")
	cfgs := []c18HostCfg{{}, {}, {}, {}, {}, {BlobChunk: 16, BlobMax: 8}, {BlobChunk: 64, BlobMax: 32}, {BlobMax: -1}}
	c.SrcCfg, c.TgtCfg = cfgs[c18Bits(t, "srccfg", 3)], cfgs[c18Bits(t, "tgtcfg", 3)]
	// an OCI layout reference has no registry / repository: such targets use tag-only backup names
	tagOnly := func(parts []c18Part) []c18Part {
		for _, p := range parts {
			if p.K == "registry" || p.K == "repo" {
				return c18BackupTemplates[0]
			}
		}
		return parts
	}
	for i := range c.Entries {
		if c.Entries[i].TgtDir {
			c.Entries[i].Backup = tagOnly(c.Entries[i].Backup)
			c.Def.Backup = tagOnly(c.Def.Backup)
		}
	}

	// a configured platform fails on the (platform-less) referrers fallback indexes that a source without the
	// referrers API lists as tags: keep that combination rare, such runs only report "not found"
	for _, e := range c.Entries {
		if e.Platform != "" && !c.SrcFeat.Referrers && !c18Chance(t, "platfallback", 1) {
			c.SrcFeat.Referrers = true
		}
	}

	// target population: per entry and source repository a pre-state of the mirrored tags
	extraPool := append(append([]string{}, c18TagPool...), "bak-v1", "v1-old", "backup", "old.v1", "prev-v1", "keep", "zz")
	addTgt := func(host, name string, src []c18TagRef, only string) {
		r := c18Repo{Host: host, Name: name}
		has := map[string]bool{}
		for _, tr := range src {
			tg := tr.Tag
			if only != "" {
				tg = only
			}
			if has[tg] {
				continue
			}
			switch k := c18Bits(t, "pre", 3); {
			case k < 3: // missing
			case k < 5: // same
				r.Tags = append(r.Tags, c18TagRef{Tag: tg, Img: tr.Img, Full: rapid.Bool().Draw(t, "prefull")})
				has[tg] = true
			default: // moved
				r.Tags = append(r.Tags, c18TagRef{Tag: tg, Img: otherImg("preimg", tr.Img), Full: rapid.Bool().Draw(t, "prefull")})
				has[tg] = true
			}
		}
		nx := rapid.SampledFrom([]int{0, 0, 1, 1, 2}).Draw(t, "nextra")
		for _, tg := range c18Pick(t, "extra", extraPool, nx) {
			if has[tg] {
				continue
			}
			has[tg] = true
			r.Tags = append(r.Tags, c18TagRef{Tag: tg, Img: img("extraimg"), Full: rapid.Bool().Draw(t, "prefull")})
		}
		if c18Chance(t, "loose", 2) {
			r.Loose = append(r.Loose, img("looseimg"))
		}
		if len(r.Tags) > 0 || len(r.Loose) > 0 {
			c.Tgt = append(c.Tgt, r)
		}
	}
	for _, e := range c.Entries {
		host := "tgt"
		if e.SameHost {
			host = "src"
		}
		switch e.Type {
		case "image":
			var src []c18TagRef
			for _, tr := range srcTags(e.SrcRepo) {
				if tr.Tag == e.SrcTag {
					src = append(src, tr)
				}
			}
			if len(src) == 0 {
				src = []c18TagRef{{Tag: e.SrcTag, Img: 0}}
			}
			addTgt(host, e.TgtRepo, src, e.TgtTag)
		case "repository":
			addTgt(host, e.TgtRepo, srcTags(e.SrcRepo), "")
		case "registry":
			for _, r := range c.Src {
				name := r.Name
				if e.TgtRepo != "" {
					name = e.TgtRepo + "/" + r.Name
				}
				addTgt(host, name, r.Tags, "")
			}
		}
	}
	if rapid.Bool().Draw(t, "unrelated") {
		r := c18Repo{Host: "tgt", Name: "other/keep"}
		for _, tg := range c18Pick(t, "untag", c18TagPool, rapid.IntRange(1, 2).Draw(t, "nuntag")) {
			r.Tags = append(r.Tags, c18TagRef{Tag: tg, Img: img("unimg"), Full: true})
		}
		c.Tgt = append(c.Tgt, r)
	}

	// steps
	cmd := func(label string, pCheck int) string {
		if c18Chance(t, label, pCheck) {
			return "check"
		}
		return "once"
	}
	c.Steps = append(c.Steps, c18Step{Cmd: cmd("cmd1", 1)})
	nSteps := 1
	if c18Chance(t, "second", 5) {
		nSteps = 2
		if c18Chance(t, "third", 2) {
			nSteps = 3
		}
	}
	for si := 1; si < nSteps; si++ {
		st := c18Step{Cmd: cmd("cmd2", 1)}
		nCh := rapid.SampledFrom([]int{0, 1, 1, 2, 3}).Draw(t, "nchange")
		for i := 0; i < nCh; i++ {
			ch := c18Change{Repo: rapid.SampledFrom(srcNames).Draw(t, "chrepo"), Img: img("chimg")}
			cur := srcTags(ch.Repo)
			k := c18Bits(t, "chop", 3)
			switch {
			case k < 4 && len(cur) > 0:
				ch.Op = "move"
				tr := rapid.SampledFrom(cur).Draw(t, "chtag")
				ch.Tag = tr.Tag
				ch.Img = otherImg("chimg2", tr.Img)
			case k < 7 || len(cur) == 0:
				ch.Op = "add"
				ch.Tag = rapid.SampledFrom(c18TagPool).Draw(t, "chnew")
			default:
				ch.Op = "delete"
				ch.Tag = rapid.SampledFrom(cur).Draw(t, "chtag").Tag
			}
			st.Changes = append(st.Changes, ch)
		}
		// drift of the target between two runs: a mirrored or foreign tag is retagged or removed there
		if len(c.Tgt) > 0 && c18Chance(t, "drift", 2) {
			tr := c.Tgt[rapid.IntRange(0, len(c.Tgt)-1).Draw(t, "driftrepo")]
			ch := c18Change{Host: tr.Host, Repo: tr.Name, Img: img("driftimg"), Op: "move"}
			if len(tr.Tags) > 0 && rapid.Bool().Draw(t, "driftown") {
				ch.Tag = tr.Tags[rapid.IntRange(0, len(tr.Tags)-1).Draw(t, "drifttag")].Tag
			} else {
				ch.Tag = rapid.SampledFrom(c18TagPool).Draw(t, "drifttagv")
			}
			if c18Chance(t, "driftdel", 3) {
				ch.Op = "delete"
			}
			st.Changes = append(st.Changes, ch)
		}
		c.Steps = append(c.Steps, st)
	}
	for i := range c.Steps {
		if c.Steps[i].Cmd == "once" {
			c.Steps[i].Missing = c18Chance(t, "missing", 1)
		}
		c.Steps[i].Abort = c18Chance(t, "abort", 1)
	}
	return c
}

var c18RefArtTypes = []string{"application/vnd.example.sbom", "application/vnd.example.sig", rm.MTOCIEmpty, rm.MTOCIConfig}

// c18GenRefFilters draws a referrerFilters list (nil with probability 1-eighths/8).
func c18GenRefFilters(t *rapid.T, label string, eighths int) []c18RefFilter {
	if !c18Chance(t, label+"_has", eighths) {
		return nil
	}
	out := []c18RefFilter{}
	n := rapid.IntRange(1, 2).Draw(t, label+"_n")
	for i := 0; i < n; i++ {
		var f c18RefFilter
		k := c18Bits(t, label+"_kind", 2)
		if k != 1 {
			f.ArtifactType = rapid.SampledFrom(c18RefArtTypes).Draw(t, label+"_at")
		}
		if k == 1 || k == 3 {
			key := rapid.SampledFrom([]string{"org.example.a", "org.example.b", "k"}).Draw(t, label+"_ak")
			f.Annotations = map[string]string{key: rapid.SampledFrom([]string{"", "v1", "v2"}).Draw(t, label+"_av")}
		}
		out = append(out, f)
	}
	return out
}

// ------------------------------------------------------------ YAML rendering

// c18Names maps the logical hosts to the names used in references and to the
// loopback addresses.
type c18Names struct {
	SrcAddr, TgtAddr string // 127.0.0.1:port
	SrcName, TgtName string // registry names used in references
	DirRoot          string // scratch directory below which OCI layouts live (src/<repo>, tgt/<repo>)
}

// c18DirKey is the snapshot key of an OCI layout ("src/<repo>" or "tgt/<repo>").
// Repository names are flattened so that no layout lies inside another one.
func c18DirKey(side, repo string) string { return side + "/" + strings.ReplaceAll(repo, "/", "_") }

// c18EntryDigest is the digest an image entry's source tag has in the initial source population.
func c18EntryDigest(c c18Case, e c18Entry) string {
	for _, r := range c.Src {
		if r.Name != e.SrcRepo {
			continue
		}
		for _, tr := range r.Tags {
			if tr.Tag == e.SrcTag && tr.Img >= 0 && tr.Img < len(c.Images) {
				g := c.Images[tr.Img]
				return g.Nodes[g.Root].Digest
			}
		}
	}
	return ""
}

// c18SrcTgt renders the source and target strings of an entry.
func c18SrcTgt(c c18Case, e c18Entry, n c18Names) (src, tgt string) {
	srcBase := c18Ref(n.SrcName, e.SrcRepo, "")
	if e.SrcDir {
		srcBase = "ocidir://" + n.DirRoot + "/" + c18DirKey("src", e.SrcRepo)
	}
	tgtRepo := e.TgtRepo
	if e.TgtTmpl {
		if i := strings.LastIndexByte(tgtRepo, '/'); i >= 0 {
			tgtRepo = tgtRepo[:i+1] + `{{ lower "` + strings.ToUpper(tgtRepo[i+1:]) + `" }}`
		}
	}
	tgtBase := c18Ref(n.name(e.tgtHost()), tgtRepo, "")
	if e.TgtDir {
		tgtBase = "ocidir://" + n.DirRoot + "/" + c18DirKey("tgt", tgtRepo)
	}
	switch e.Type {
	case "image":
		dig := c18EntryDigest(c, e)
		switch {
		case e.SrcForm == "digest" && dig != "":
			src = srcBase + "@" + dig
		case e.SrcForm == "tagdigest" && dig != "":
			src = srcBase + ":" + e.SrcTag + "@" + dig
		case e.SrcForm == "default":
			src = srcBase
		default:
			src = srcBase + ":" + e.SrcTag
		}
		tgt = tgtBase
		if !e.TgtDefault {
			tgt += ":" + e.TgtTag
		}
	case "repository":
		src, tgt = srcBase, tgtBase
	default:
		src, tgt = n.SrcName, c18Ref(n.TgtName, e.TgtRepo, "")
	}
	return src, tgt
}

func (n c18Names) name(host string) string {
	if host == "src" {
		return n.SrcName
	}
	return n.TgtName
}

func c18Plain(s string) bool {
	if s == "" {
		return false
	}
	if !(s[0] >= 'a' && s[0] <= 'z') {
		return false
	}
	for i := 0; i < len(s); i++ {
		ch := s[i]
		if !(ch >= 'a' && ch <= 'z' || ch >= '0' && ch <= '9' || ch == '/' || ch == '-' || ch == '_') {
			return false
		}
	}
	switch s {
	case "true", "false", "null", "yes", "no", "on", "off", "y", "n":
		return false
	}
	return true
}

func c18Q(st c18Style, s string) string {
	switch {
	case st.Quote == 2 && c18Plain(s):
		return s
	case st.Quote == 1 && !strings.ContainsAny(s, "\n\t"):
		return "'" + strings.ReplaceAll(s, "'", "''") + "'"
	}
	var buf bytes.Buffer
	enc := json.NewEncoder(&buf)
	enc.SetEscapeHTML(false)
	_ = enc.Encode(s)
	return strings.TrimSpace(buf.String())
}

func c18YAMLList(sb *strings.Builder, st c18Style, indent, key string, items []string) {
	if items == nil {
		return
	}
	if st.Flow {
		q := []string{}
		for _, it := range items {
			q = append(q, c18Q(c18Style{Quote: st.Quote % 2}, it))
		}
		fmt.Fprintf(sb, "%s%s: [%s]\n", indent, key, strings.Join(q, ", "))
		return
	}
	fmt.Fprintf(sb, "%s%s:\n", indent, key)
	for _, it := range items {
		fmt.Fprintf(sb, "%s  - %s\n", indent, c18Q(st, it))
	}
}

func c18YAMLSw(sb *strings.Builder, indent string, sw c18Sw) {
	w := func(k string, b *bool) {
		if b != nil {
			fmt.Fprintf(sb, "%s%s: %v\n", indent, k, *b)
		}
	}
	w("digestTags", sw.DigestTags)
	w("referrers", sw.Referrers)
	w("fastCheck", sw.FastCheck)
	w("forceRecursive", sw.ForceRecursive)
}

// c18TemplateText renders a backup template in Go template syntax.
func c18TemplateText(parts []c18Part, style int) string {
	field := func(p c18Part) string {
		switch p.K {
		case "tag":
			return ".Ref.Tag"
		case "repo":
			return ".Ref.Repository"
		case "registry":
			return ".Ref.Registry"
		case "type":
			return ".Sync.Type"
		case "uptype":
			return "upper .Sync.Type"
		case "lowtag":
			return "lower .Ref.Tag"
		}
		return ""
	}
	if style == 2 {
		f, args := "", []string{}
		for _, p := range parts {
			if p.K == "lit" {
				f += strings.ReplaceAll(p.S, "%", "%%")
				continue
			}
			f += "%s"
			a := field(p)
			if strings.Contains(a, " ") {
				a = "(" + a + ")"
			}
			args = append(args, a)
		}
		return fmt.Sprintf("{{printf %q %s}}", f, strings.Join(args, " "))
	}
	var sb strings.Builder
	for _, p := range parts {
		if p.K == "lit" {
			sb.WriteString(p.S)
			continue
		}
		if style == 1 {
			sb.WriteString("{{ " + field(p) + " }}")
		} else {
			sb.WriteString("{{" + field(p) + "}}")
		}
	}
	body := sb.String()
	switch style {
	case 3: // blanks in the template text
		return "  " + body + " "
	// styles 4-7: the blanks come out of the EXPANSION (regsync trims the expanded string)
	case 4: // printf with a padded format
		f, args := " ", []string{}
		for _, p := range parts {
			if p.K == "lit" {
				f += strings.ReplaceAll(p.S, "%", "%%")
				continue
			}
			f += "%s"
			a := field(p)
			if strings.Contains(a, " ") {
				a = "(" + a + ")"
			}
			args = append(args, a)
		}
		return strings.TrimSpace(fmt.Sprintf("{{ printf %q %s", f+"  ", strings.Join(args, " "))) + " }}"
	case 5: // conditional with blanks inside the branches
		return `{{ if eq .Ref.Tag "" }} none {{ else }} ` + body + ` {{ end }}`
	case 6: // multi-line block with the actions on their own lines
		return "{{ if .Ref.Tag }}\n  " + body + "\n{{ end }}\n"
	case 7: // trim markers mixed with blank string actions
		return `  {{- " " }} ` + body + ` {{ "  " -}}  `
	}
	return body
}

// c18YAMLBackup writes a backup template; a multi-line one as a literal block scalar.
func c18YAMLBackup(sb *strings.Builder, indent string, qq c18Style, text string) {
	if strings.Contains(text, "\n") && strings.HasSuffix(text, "\n") && !strings.HasSuffix(text, "\n\n") {
		fmt.Fprintf(sb, "%sbackup: |\n", indent)
		for _, l := range strings.Split(strings.TrimSuffix(text, "\n"), "\n") {
			fmt.Fprintf(sb, "%s  %s\n", indent, l)
		}
		return
	}
	fmt.Fprintf(sb, "%sbackup: %s\n", indent, c18Q(qq, text))
}

// c18Ref renders "<registry>/<repo>[:tag]".
func c18Ref(reg, repo, tag string) string {
	s := reg
	if repo != "" {
		s += "/" + repo
	}
	if tag != "" {
		s += ":" + tag
	}
	return s
}

func (e c18Entry) tgtHost() string {
	if e.SameHost {
		return "src"
	}
	return "tgt"
}

func c18YAMLRefFilters(sb *strings.Builder, st c18Style, indent string, fs []c18RefFilter) {
	if len(fs) == 0 {
		return
	}
	fmt.Fprintf(sb, "%sreferrerFilters:\n", indent)
	for _, f := range fs {
		first := "- "
		if f.ArtifactType != "" {
			fmt.Fprintf(sb, "%s  %sartifactType: %s\n", indent, first, c18Q(st, f.ArtifactType))
			first = "  "
		}
		if len(f.Annotations) > 0 {
			fmt.Fprintf(sb, "%s  %sannotations:\n", indent, first)
			for _, k := range c18SortedKeys(f.Annotations) {
				fmt.Fprintf(sb, "%s      %s: %s\n", indent, c18Q(c18Style{Quote: st.Quote % 2}, k), c18Q(c18Style{Quote: st.Quote % 2}, f.Annotations[k]))
			}
		}
	}
}

// c18YAML renders the regsync configuration of a case.
func c18YAML(c c18Case, n c18Names) string {
	st := c.Style
	qq := c18Style{Quote: st.Quote % 2}
	var sb strings.Builder
	if c.Def.Extension {
		sb.WriteString("x-verif: &ext\n  note: user extension fields are ignored\n")
	}
	sb.WriteString("version: 1\ncreds:\n")
	for i, h := range [][2]string{{n.SrcName, n.SrcAddr}, {n.TgtName, n.TgtAddr}} {
		fmt.Fprintf(&sb, "  - registry: %s\n", c18Q(st, h[0]))
		if h[0] != h[1] {
			fmt.Fprintf(&sb, "    hostname: %s\n", c18Q(st, h[1]))
		}
		sb.WriteString("    tls: disabled\n")
		cfg := c.SrcCfg
		if i == 1 {
			cfg = c.TgtCfg
		}
		if cfg.BlobChunk != 0 {
			fmt.Fprintf(&sb, "    blobChunk: %d\n", cfg.BlobChunk)
		}
		if cfg.BlobMax != 0 {
			fmt.Fprintf(&sb, "    blobMax: %d\n", cfg.BlobMax)
		}
	}
	sb.WriteString("defaults:\n  skipDockerConfig: true\n")
	if c.Def.Parallel > 0 {
		fmt.Fprintf(&sb, "  parallel: %d\n", c.Def.Parallel)
	}
	c18YAMLSw(&sb, "  ", c.Def.Sw)
	c18YAMLList(&sb, st, "  ", "mediaTypes", c.Def.MediaTypes)
	if len(c.Def.Backup) > 0 {
		c18YAMLBackup(&sb, "  ", qq, c18TemplateText(c.Def.Backup, c.Def.BackupFmt))
	}
	if c.Def.Cache {
		sb.WriteString("  cacheCount: 100\n  cacheTime: 5m\n")
	}
	c18YAMLRefFilters(&sb, st, "  ", c.Def.RefFilters)
	if c.Def.RateLimitMin > 0 {
		fmt.Fprintf(&sb, "  ratelimit:\n    min: %d\n    retry: 10m\n", c.Def.RateLimitMin)
	}
	sb.WriteString("sync:\n")
	for _, e := range c.Entries {
		src, tgt := c18SrcTgt(c, e, n)
		fmt.Fprintf(&sb, "  - source: %s\n    target: %s\n    type: %s\n", c18Q(qq, src), c18Q(qq, tgt), e.Type)
		if e.TagsAllow != nil || e.TagsDeny != nil || e.EmptyLists {
			sb.WriteString("    tags:\n")
			c18YAMLList(&sb, st, "      ", "allow", e.TagsAllow)
			c18YAMLList(&sb, st, "      ", "deny", e.TagsDeny)
			if e.EmptyLists && e.TagsAllow == nil {
				sb.WriteString("      allow: []\n")
			}
			if e.EmptyLists && e.TagsDeny == nil {
				sb.WriteString("      deny: []\n")
			}
		}
		if e.ReposAllow != nil || e.ReposDeny != nil {
			sb.WriteString("    repos:\n")
			c18YAMLList(&sb, st, "      ", "allow", e.ReposAllow)
			c18YAMLList(&sb, st, "      ", "deny", e.ReposDeny)
		}
		if e.Platform != "" {
			fmt.Fprintf(&sb, "    platform: %s\n", c18Q(st, e.Platform))
		}
		c18YAMLList(&sb, st, "    ", "platforms", e.Platforms)
		c18YAMLSw(&sb, "    ", e.Sw)
		c18YAMLList(&sb, st, "    ", "mediaTypes", e.MediaTypes)
		if len(e.Backup) > 0 {
			c18YAMLBackup(&sb, "    ", qq, c18TemplateText(e.Backup, e.BackupFmt))
		}
		c18YAMLRefFilters(&sb, st, "    ", e.RefFilters)
		if e.RateLimitMin > 0 {
			fmt.Fprintf(&sb, "    ratelimit:\n      min: %d\n", e.RateLimitMin)
		}
		if e.Interval {
			sb.WriteString("    interval: 60m\n")
		}
		if e.Schedule {
			sb.WriteString("    schedule: \"15 01 * * *\"\n")
		}
	}
	return sb.String()
}

// c18Key is the distinctness key of a case: everything except the image bodies.
func c18Key(c c18Case) string {
	shapes := []string{}
	for _, g := range c.Images {
		shapes = append(shapes, g.Shape())
	}
	cc := c
	cc.Images = nil
	b, _ := json.Marshal(cc)
	return strings.Join(shapes, "#") + "|" + string(b)
}

func c18SortedKeys[V any](m map[string]V) []string {
	out := make([]string, 0, len(m))
	for k := range m {
		out = append(out, k)
	}
	sort.Strings(out)
	return out
}
