//go:build c18

package main

// C18 — after a sync run every selected source tag is mirrored; nothing else
// is touched. See /verif/DESIGN.md "### C18".
//
// White-box overlay test: the REAL cobra commands (`once`, `check`) are run
// in-process with a generated YAML configuration against two regmodel hosts
// that are exposed on loopback (regsync builds its own client from the YAML).
// Every test flushes the evidence shard itself (no TestMain is defined so that
// the file can never clash with a TestMain of the package).

import (
	"bytes"
	"context"
	"encoding/json"
	"fmt"
	"io"
	"net"
	"net/http"
	"net/http/httptest"
	"os"
	"path/filepath"
	"reflect"
	"runtime"
	"strings"
	"sync"
	"sync/atomic"
	"testing"
	"time"

	"gopkg.in/yaml.v3"
	"pgregory.net/rapid"

	"github.com/regclient/regclient/zz_verif/evid"
	"github.com/regclient/regclient/zz_verif/imggen"
	rm "github.com/regclient/regclient/zz_verif/regmodel"
)

const c18Prop = "C18"

// c18ExemptArtifactEntries: OCI artifact manifests as index entries were exempt from the required closure
// while the C03 finding unknown-type-index-entry-error-swallowed was open (fixed in /repo 748e2e6, 39c562a).
const c18ExemptArtifactEntries = false

// c18Infra is a harness failure (never a violation).
type c18Infra struct{ err error }

func c18JSON(v any) string {
	var buf bytes.Buffer
	enc := json.NewEncoder(&buf)
	enc.SetEscapeHTML(false)
	_ = enc.Encode(v)
	return strings.TrimSpace(buf.String())
}

// ------------------------------------------------------- loopback exposure

// Two loopback servers live for the whole process; each forwards every request
// to the model of the case that is currently evaluated (one case at a time).
// The model host is named after the loopback address, so absolute Location
// headers produced by the model are reachable.
var c18Srv struct {
	once     sync.Once
	src, tgt *httptest.Server
	cur      atomic.Pointer[rm.Model]
	rate     atomic.Bool // the source adds RateLimit-* headers to manifest responses
	srcAddr  *string
	inflight atomic.Int64 // handler calls in progress
	active   atomic.Int64 // connections with a request being read or served
}

// c18Quiesce waits until the loopback servers have nothing in progress and
// drops every connection: a run that was cancelled (abort-on-error) may leave a
// request behind that the server would otherwise apply after the command has
// returned, i.e. "during" the next step.
func c18Quiesce() {
	// first: no goroutine of an earlier command is left inside the client or the command's own code (an aborted run
	// returns while its workers are still winding down; on a loaded machine such a worker can send one more request
	// long after the servers looked idle). Bounded by a count of looks, never a verdict.
	for i := 0; i < 2000; i++ {
		buf := make([]byte, 1<<20)
		buf = buf[:runtime.Stack(buf, true)]
		busy := false
		for _, g := range strings.Split(string(buf), "\n\n") {
			if strings.Contains(g, "c18Quiesce") {
				continue
			}
			if strings.Contains(g, "regclient.(*RegClient).") || strings.Contains(g, "cmd/regsync.(*rootOpts).") || strings.Contains(g, "regclient/scheme/reg.(*Reg).") {
				busy = true
				break
			}
		}
		if !busy {
			break
		}
		time.Sleep(500 * time.Microsecond)
	}
	wait := func() {
		for i := 0; i < 50000; i++ {
			if c18Srv.inflight.Load() == 0 && c18Srv.active.Load() == 0 {
				return
			}
			time.Sleep(200 * time.Microsecond)
		}
	}
	wait()
	c18Srv.src.CloseClientConnections()
	c18Srv.tgt.CloseClientConnections()
	wait()
}

func c18Handler(addr *string) http.Handler {
	return http.HandlerFunc(func(w http.ResponseWriter, r *http.Request) {
		c18Srv.inflight.Add(1)
		defer c18Srv.inflight.Add(-1)
		m := c18Srv.cur.Load()
		if m == nil {
			http.Error(w, "no model", http.StatusBadGateway)
			return
		}
		r2 := r.Clone(r.Context())
		r2.RequestURI = ""
		r2.URL.Scheme = "http"
		r2.URL.Host = *addr
		resp, err := m.RoundTrip(r2)
		if err != nil {
			http.Error(w, "model transport error: "+err.Error(), http.StatusBadGateway)
			return
		}
		defer resp.Body.Close()
		if c18Srv.rate.Load() && addr == c18Srv.srcAddr && strings.Contains(r.URL.Path, "/manifests/") {
			// a source that reports pull rate limits (plenty remaining)
			w.Header().Set("RateLimit-Limit", "100;w=21600")
			w.Header().Set("RateLimit-Remaining", "90;w=21600")
		}
		for k, vs := range resp.Header {
			for _, v := range vs {
				w.Header().Add(k, v)
			}
		}
		w.WriteHeader(resp.StatusCode)
		_, _ = io.Copy(w, resp.Body)
	})
}

func c18Servers() (srcAddr, tgtAddr string) {
	c18Srv.once.Do(func() {
		// hermetic: no user docker config even if a generated config forgot to disable it
		home, err := os.MkdirTemp("", "c18-home-")
		if err == nil {
			os.Setenv("HOME", home)
			os.Setenv("DOCKER_CONFIG", filepath.Join(home, "docker"))
		}
		mk := func() *httptest.Server {
			addr := new(string)
			s := httptest.NewUnstartedServer(c18Handler(addr))
			*addr = s.Listener.Addr().String()
			var mu sync.Mutex
			isActive := map[net.Conn]bool{}
			s.Config.ConnState = func(c net.Conn, st http.ConnState) {
				mu.Lock()
				defer mu.Unlock()
				now := st == http.StateActive
				if now != isActive[c] {
					if now {
						c18Srv.active.Add(1)
					} else {
						c18Srv.active.Add(-1)
					}
				}
				if now {
					isActive[c] = true
				} else {
					delete(isActive, c)
				}
			}
			s.Start()
			if c18Srv.srcAddr == nil {
				c18Srv.srcAddr = addr
			}
			return s
		}
		c18Srv.src, c18Srv.tgt = mk(), mk()
	})
	return c18Srv.src.Listener.Addr().String(), c18Srv.tgt.Listener.Addr().String()
}

// ----------------------------------------------------------------- scenario

type c18Env struct {
	c        c18Case
	m        *rm.Model
	src, tgt *rm.Host
	names    c18Names
	artChild map[string]bool
	srcDirs  map[string]bool // source repositories that are also materialised as OCI layouts
	tgtDirs  map[string]bool // target repositories that are OCI layouts
}

func (e *c18Env) host(h string) *rm.Host {
	if h == "src" {
		return e.src
	}
	return e.tgt
}

func c18Setup(c c18Case, dirRoot string) *c18Env {
	sa, ta := c18Servers()
	e := &c18Env{c: c, m: rm.New(), artChild: map[string]bool{}, srcDirs: map[string]bool{}, tgtDirs: map[string]bool{}}
	e.names = c18Names{SrcAddr: sa, TgtAddr: ta, SrcName: sa, TgtName: ta, DirRoot: dirRoot}
	for _, en := range c.Entries {
		if en.SrcDir {
			e.srcDirs[en.SrcRepo] = true
		}
		if en.TgtDir {
			e.tgtDirs[en.TgtRepo] = true
		}
	}
	if c.Style.Alias {
		e.names.SrcName, e.names.TgtName = "src.example.test", "tgt.example.test:5000"
	}
	e.src, e.tgt = e.m.AddHost(sa), e.m.AddHost(ta)
	e.src.Feat, e.tgt.Feat = c.SrcFeat.features(), c.TgtFeat.features()
	if len(c.Images) == 0 {
		panic(c18Infra{fmt.Errorf("case without images")})
	}
	for _, g := range c.Images {
		for _, n := range g.Nodes {
			if n.Kind != "index" {
				continue
			}
			for _, ch := range n.Children {
				if c18ExemptArtifactEntries && g.Nodes[ch].MediaType == rm.MTOCIArtifact {
					e.artChild[g.Nodes[ch].Digest] = true
				}
			}
		}
	}
	put := func(h *rm.Host, pop []c18Repo, source bool) {
		for _, r := range pop {
			if (r.Host == "src") != (h == e.src) {
				continue
			}
			if !source && r.Host == "tgt" && e.tgtDirs[r.Name] {
				continue // materialised as a layout below
			}
			repo := h.Repo(r.Name)
			for _, tr := range r.Tags {
				g := e.img(tr.Img)
				c18PutGraph(repo, g, source || tr.Full)
				repo.Tags[tr.Tag] = g.Nodes[g.Root].Digest
			}
			for _, li := range r.Loose {
				for d, b := range e.img(li).Blobs {
					repo.Blobs[d] = b.Data
				}
			}
			if !h.Feat.Referrers {
				c18Fallbacks(repo)
			}
		}
	}
	put(e.src, c.Src, true)
	put(e.src, c.Tgt, false)
	put(e.tgt, c.Tgt, false)
	// OCI layouts: sources mirror the registry repository's content, targets get their pre-state
	for name := range e.srcDirs {
		e.writeSrcDir(name)
	}
	for _, r := range c.Tgt {
		if r.Host != "tgt" || !e.tgtDirs[r.Name] {
			continue
		}
		repo := &rm.Repo{Blobs: map[string][]byte{}, Manifests: map[string]*rm.Manifest{}, Tags: map[string]string{}}
		for _, tr := range r.Tags {
			g := e.img(tr.Img)
			c18PutGraph(repo, g, tr.Full)
			repo.Tags[tr.Tag] = g.Nodes[g.Root].Digest
		}
		c18Fallbacks(repo)
		if err := c18WriteLayout(filepath.Join(dirRoot, c18DirKey("tgt", r.Name)), repo); err != nil {
			panic(c18Infra{err})
		}
	}
	return e
}

// writeSrcDir (re)writes the layout form of a source repository from the model's raw state.
func (e *c18Env) writeSrcDir(name string) {
	src := e.src.Repos[name]
	repo := &rm.Repo{Blobs: map[string][]byte{}, Manifests: map[string]*rm.Manifest{}, Tags: map[string]string{}}
	if src != nil {
		for k, v := range src.Blobs {
			repo.Blobs[k] = v
		}
		for k, v := range src.Manifests {
			repo.Manifests[k] = v
		}
		for k, v := range src.Tags {
			repo.Tags[k] = v
		}
	}
	c18Fallbacks(repo) // a layout has no referrers API
	if err := c18WriteLayout(filepath.Join(e.names.DirRoot, c18DirKey("src", name)), repo); err != nil {
		panic(c18Infra{err})
	}
}

func (e *c18Env) img(i int) *imggen.Graph {
	if i < 0 || i >= len(e.c.Images) {
		i = 0
	}
	return e.c.Images[i]
}

// apply executes the changes of a step (raw, outside any client): source
// population changes, and drift of a target repository on a registry.
func (e *c18Env) apply(chs []c18Change) {
	e.m.Lock()
	touched := map[string]bool{}
	for _, ch := range chs {
		var h *rm.Host
		switch {
		case ch.Host == "" && c18IsSrcRepo(e.c, ch.Repo):
			h = e.src
			touched[ch.Repo] = true
		case ch.Host == "tgt" && !e.tgtDirs[ch.Repo]:
			h = e.tgt
		case ch.Host == "src" && !c18IsSrcRepo(e.c, ch.Repo):
			h = e.src
		default:
			continue // inapplicable change: no-op
		}
		repo := h.Repo(ch.Repo)
		switch ch.Op {
		case "move", "add":
			g := e.img(ch.Img)
			c18PutGraph(repo, g, true)
			repo.Tags[ch.Tag] = g.Nodes[g.Root].Digest
		case "delete":
			delete(repo.Tags, ch.Tag)
		}
		if !h.Feat.Referrers {
			c18Fallbacks(repo)
		}
	}
	e.m.Unlock()
	for name := range touched {
		if e.srcDirs[name] {
			e.writeSrcDir(name)
		}
	}
}

// run executes one regsync command in-process.
func c18RunCmd(st c18Step, confFile string) (err error, timedOut bool, stderr string) {
	cmdName := st.Cmd
	var eb bytes.Buffer
	cmd, _ := NewRootCmd()
	cmd.SetOut(io.Discard)
	cmd.SetErr(&eb)
	lvl := "error"
	if os.Getenv("VERIF_DEBUG") != "" {
		lvl = "debug"
	} else if os.Getenv("VERIF_C18_ERRS") == "2" {
		lvl = "warn"
	}
	args := []string{cmdName, "-c", confFile, "-v", lvl}
	if st.Missing && cmdName == "once" {
		args = append(args, "--missing")
	}
	if st.Abort {
		args = append(args, "--abort-on-error")
	}
	cmd.SetArgs(args)
	ctx, cancel := context.WithTimeout(context.Background(), 120*time.Second)
	defer cancel()
	done := make(chan error, 1)
	go func() {
		defer func() {
			if r := recover(); r != nil {
				done <- fmt.Errorf("PANIC in regsync: %v", r)
			}
		}()
		done <- cmd.ExecuteContext(ctx)
	}()
	select {
	case err = <-done:
	case <-time.After(150 * time.Second):
		return nil, true, eb.String()
	}
	if ctx.Err() != nil {
		return err, true, eb.String()
	}
	s := eb.String()
	if len(s) > 20000 {
		s = s[:20000]
	}
	return err, false, s
}

// ---------------------------------------------------- YAML round-trip guard

type c18YAD struct {
	Allow []string `yaml:"allow"`
	Deny  []string `yaml:"deny"`
}

type c18YSync struct {
	Source         string   `yaml:"source"`
	Target         string   `yaml:"target"`
	Type           string   `yaml:"type"`
	Tags           c18YAD   `yaml:"tags"`
	Repos          c18YAD   `yaml:"repos"`
	Platform       string   `yaml:"platform"`
	DigestTags     *bool    `yaml:"digestTags"`
	Referrers      *bool    `yaml:"referrers"`
	FastCheck      *bool    `yaml:"fastCheck"`
	ForceRecursive *bool    `yaml:"forceRecursive"`
	MediaTypes     []string `yaml:"mediaTypes"`
	Backup         string   `yaml:"backup"`
	Platforms      []string `yaml:"platforms"`
	RefFilters     []c18YRF `yaml:"referrerFilters"`
	RateLimit      struct {
		Min int `yaml:"min"`
	} `yaml:"ratelimit"`
}

type c18YRF struct {
	ArtifactType string            `yaml:"artifactType"`
	Annotations  map[string]string `yaml:"annotations"`
}

func c18EqRF(y []c18YRF, c []c18RefFilter) bool {
	if len(y) != len(c) {
		return false
	}
	for i := range y {
		if y[i].ArtifactType != c[i].ArtifactType || len(y[i].Annotations) != len(c[i].Annotations) {
			return false
		}
		for k, v := range c[i].Annotations {
			if yv, ok := y[i].Annotations[k]; !ok || yv != v {
				return false
			}
		}
	}
	return true
}

type c18YConf struct {
	Creds []struct {
		Registry  string `yaml:"registry"`
		Hostname  string `yaml:"hostname"`
		TLS       string `yaml:"tls"`
		BlobChunk int    `yaml:"blobChunk"`
		BlobMax   int    `yaml:"blobMax"`
	} `yaml:"creds"`
	Defaults struct {
		Skip           bool     `yaml:"skipDockerConfig"`
		Parallel       int      `yaml:"parallel"`
		DigestTags     *bool    `yaml:"digestTags"`
		Referrers      *bool    `yaml:"referrers"`
		FastCheck      *bool    `yaml:"fastCheck"`
		ForceRecursive *bool    `yaml:"forceRecursive"`
		MediaTypes     []string `yaml:"mediaTypes"`
		Backup         string   `yaml:"backup"`
		CacheCount     int      `yaml:"cacheCount"`
		CacheTime      string   `yaml:"cacheTime"`
		RefFilters     []c18YRF `yaml:"referrerFilters"`
		RateLimit      struct {
			Min int `yaml:"min"`
		} `yaml:"ratelimit"`
	} `yaml:"defaults"`
	Sync []c18YSync `yaml:"sync"`
}

func c18EqStrs(a, b []string) bool {
	if len(a) == 0 && len(b) == 0 {
		return true
	}
	return reflect.DeepEqual(a, b)
}

func c18EqBool(a, b *bool) bool {
	if a == nil || b == nil {
		return a == nil && b == nil
	}
	return *a == *b
}

// c18GuardYAML parses the rendered text with a plain YAML decoder and compares
// it with the case (a renderer bug must not masquerade as a regsync defect).
func c18GuardYAML(c c18Case, n c18Names, text string) error {
	var y c18YConf
	if err := yaml.Unmarshal([]byte(text), &y); err != nil {
		return fmt.Errorf("rendered YAML does not parse: %w\n%s", err, text)
	}
	bad := func(what string) error {
		return fmt.Errorf("rendered YAML differs from the case in %s\n%s", what, text)
	}
	if len(y.Sync) != len(c.Entries) || len(y.Creds) != 2 || !y.Defaults.Skip || y.Defaults.Parallel != c.Def.Parallel {
		return bad("structure")
	}
	if !c18EqStrs(y.Defaults.MediaTypes, c.Def.MediaTypes) || !c18EqBool(y.Defaults.DigestTags, c.Def.Sw.DigestTags) || !c18EqBool(y.Defaults.Referrers, c.Def.Sw.Referrers) ||
		!c18EqBool(y.Defaults.FastCheck, c.Def.Sw.FastCheck) || !c18EqBool(y.Defaults.ForceRecursive, c.Def.Sw.ForceRecursive) {
		return bad("defaults")
	}
	if (len(c.Def.Backup) > 0) != (y.Defaults.Backup != "") || (len(c.Def.Backup) > 0 && y.Defaults.Backup != c18TemplateText(c.Def.Backup, c.Def.BackupFmt)) {
		return bad("defaults.backup")
	}
	if c.Def.Cache != (y.Defaults.CacheCount > 0 && y.Defaults.CacheTime != "") || !c18EqRF(y.Defaults.RefFilters, c.Def.RefFilters) || y.Defaults.RateLimit.Min != c.Def.RateLimitMin ||
		y.Creds[0].BlobChunk != c.SrcCfg.BlobChunk || y.Creds[0].BlobMax != c.SrcCfg.BlobMax || y.Creds[1].BlobChunk != c.TgtCfg.BlobChunk || y.Creds[1].BlobMax != c.TgtCfg.BlobMax {
		return bad("defaults/creds (audit dimensions)")
	}
	for i, e := range c.Entries {
		s := y.Sync[i]
		if s.Type != e.Type || s.Platform != e.Platform || !c18EqStrs(s.Tags.Allow, e.TagsAllow) || !c18EqStrs(s.Tags.Deny, e.TagsDeny) ||
			!c18EqStrs(s.Repos.Allow, e.ReposAllow) || !c18EqStrs(s.Repos.Deny, e.ReposDeny) || !c18EqStrs(s.MediaTypes, e.MediaTypes) ||
			!c18EqBool(s.DigestTags, e.Sw.DigestTags) || !c18EqBool(s.Referrers, e.Sw.Referrers) || !c18EqBool(s.FastCheck, e.Sw.FastCheck) ||
			!c18EqBool(s.ForceRecursive, e.Sw.ForceRecursive) {
			return bad(fmt.Sprintf("sync[%d]", i))
		}
		if (len(e.Backup) > 0) != (s.Backup != "") || (len(e.Backup) > 0 && s.Backup != c18TemplateText(e.Backup, e.BackupFmt)) {
			return bad(fmt.Sprintf("sync[%d].backup", i))
		}
		wantSrc, wantTgt := c18SrcTgt(c, e, n)
		if s.Source != wantSrc || s.Target != wantTgt || !c18EqStrs(s.Platforms, e.Platforms) || !c18EqRF(s.RefFilters, e.RefFilters) || s.RateLimit.Min != e.RateLimitMin {
			return bad(fmt.Sprintf("sync[%d] (audit dimensions)", i))
		}
	}
	return nil
}

// --------------------------------------------------------------------- check

func c18Normalise(c *c18Case) {
	// the registry type lists the whole source registry: keep other entries' targets off it
	reg := false
	for _, e := range c.Entries {
		if e.Type == "registry" {
			reg = true
		}
	}
	if reg {
		for i := range c.Entries {
			c.Entries[i].SameHost = false
		}
		for si := range c.Steps {
			for ci := range c.Steps[si].Changes {
				if c.Steps[si].Changes[ci].Host == "src" {
					c.Steps[si].Changes[ci].Host = "tgt"
				}
			}
		}
		for i := range c.Tgt {
			c.Tgt[i].Host = "tgt"
		}
	}
}

func c18Check(c c18Case, ev *evid.Collector) *evid.Violation {
	c18Normalise(&c)
	dir, err := os.MkdirTemp("", "c18-")
	if err != nil {
		panic(c18Infra{err})
	}
	defer os.RemoveAll(dir)
	dirRoot := filepath.Join(dir, "layouts")
	env := c18Setup(c, dirRoot)
	c18Srv.cur.Store(env.m)
	c18Srv.rate.Store(c.RateHeaders)
	defer func() {
		c18Srv.cur.Store(nil)
		c18Srv.src.CloseClientConnections()
		c18Srv.tgt.CloseClientConnections()
	}()
	text := c18YAML(c, env.names)
	if err := c18GuardYAML(c, env.names, text); err != nil {
		panic(c18Infra{err})
	}
	conf := filepath.Join(dir, "regsync.yml")
	if err := os.WriteFile(conf, []byte(text), 0o600); err != nil {
		panic(c18Infra{err})
	}

	labels := map[string]int{}
	lab := func(l string) { labels[l]++ }
	for _, e := range c.Entries {
		lab("entry:" + e.Type)
		if e.SameHost {
			lab("entry:same-host")
		}
		if e.Platform != "" {
			lab("entry:platform")
		}
		if len(e.Platforms) > 0 {
			lab("entry:platforms-list")
		}
		if e.SrcDir {
			lab("endpoint:source-ocidir")
		}
		if e.TgtDir {
			lab("endpoint:target-ocidir")
		}
		if e.SrcForm != "" {
			lab("ref:source-" + e.SrcForm)
		}
		if e.TgtDefault {
			lab("ref:target-default-tag")
		}
		if e.TgtTmpl {
			lab("ref:target-template")
		}
		if e.EmptyLists {
			lab("filter:explicit-empty-lists")
		}
		if len(e.TagsAllow) > 0 {
			lab("filter:tags-allow")
		}
		if len(e.TagsDeny) > 0 {
			lab("filter:tags-deny")
		}
		if len(e.ReposAllow)+len(e.ReposDeny) > 0 {
			lab("filter:repos")
		}
		for _, f := range append(append(append(append([]string{}, e.TagsAllow...), e.TagsDeny...), e.ReposAllow...), e.ReposDeny...) {
			if c18TopAlt(f) {
				lab("filter:top-level-alternation")
			}
			if strings.Contains(f, "(") {
				lab("filter:group")
			}
		}
		o := c18Resolve(e, c.Def)
		if o.Referrers {
			lab("opt:referrers")
		}
		if o.DigestTags {
			lab("opt:digest-tags")
		}
		if o.FastCheck {
			lab("opt:fast-check")
		}
		if o.Force {
			lab("opt:force-recursive")
		}
		if len(o.Backup) > 0 {
			lab("opt:backup")
			f := e.BackupFmt
			if len(e.Backup) == 0 {
				f = c.Def.BackupFmt
			}
			if f >= 4 {
				lab("opt:backup-expansion-has-outer-blanks")
			}
		}
		if o.Referrers && len(o.RefFilters) > 0 {
			lab("opt:referrer-filters")
		}
		if (e.RateLimitMin > 0 || c.Def.RateLimitMin > 0) && c.RateHeaders {
			lab("opt:ratelimit-with-headers")
		}
		if len(e.MediaTypes) > 0 {
			lab("opt:media-types-entry")
		} else if len(c.Def.MediaTypes) > 0 {
			lab("opt:media-types-default")
		}
	}
	lab(fmt.Sprintf("parallel:%d", c.Def.Parallel))
	if c.Def.Cache {
		lab("opt:cache")
	}
	if c.SrcCfg != (c18HostCfg{}) || c.TgtCfg != (c18HostCfg{}) {
		lab("opt:blob-chunk-settings")
	}
	for i := range c.Entries {
		for j := range c.Entries[:i] {
			if reflect.DeepEqual(c.Entries[i], c.Entries[j]) {
				lab("entry:duplicate")
			}
			if c.Entries[i].Platform != "" && c.Entries[j].Platform != "" && c.Entries[i].Platform != c.Entries[j].Platform {
				lab("entry:two-different-platforms")
			}
		}
	}
	if c.Style.Alias {
		lab("style:alias-hostname")
	}
	if !c.SrcFeat.Referrers {
		lab("src:no-referrers-api")
	}
	if !c.TgtFeat.Referrers {
		lab("tgt:no-referrers-api")
	}
	if c.SrcFeat.TagPage > 0 {
		lab("src:tag-paging")
	}
	if c.SrcFeat.CatalogPage > 0 {
		lab("src:catalog-paging")
	}
	for _, g := range c.Images {
		for _, l := range g.Labels {
			lab("graph:" + l)
		}
	}

	var all []*evid.Violation
	var total c18Stats
	prevOnceOK := false
	debug := os.Getenv("VERIF_DEBUG") != ""
	for i, st := range c.Steps {
		env.apply(st.Changes)
		for _, ch := range st.Changes {
			lab("change:" + ch.Op)
		}
		if len(st.Changes) > 0 {
			prevOnceOK = false // something changed since the last complete run
		}
		x := &c18StepCtx{C: c, Step: i, Names: env.names, ArtChild: env.artChild, Labels: labels}
		x.SrcPre, x.TgtPre, x.DirPre = c18Snapshot(env.m, env.src), c18Snapshot(env.m, env.tgt), c18DirSnapshot(dirRoot)
		start := env.m.Requests()
		t0 := time.Now()
		rerr, timedOut, stderr := c18RunCmd(st, conf)
		c18Quiesce()
		if dt := time.Since(t0); dt > 2*time.Second {
			lab("slow-run(>2s)")
			if os.Getenv("VERIF_C18_SLOW") != "" {
				fmt.Fprintf(os.Stderr, "==== slow run %v step %d %+v err=%v requests=%d\n%s\n---- stderr\n%s\n", dt, i, st, rerr, env.m.Requests()-start, text, stderr)
			}
		}
		if timedOut {
			lab("outcome:watchdog")
			ev.Case(false, "", c18LabelList(labels)...)
			return nil
		}
		if env.m.CapHit() {
			lab("outcome:request-cap")
			ev.Case(false, "", c18LabelList(labels)...)
			return nil
		}
		x.SrcPos, x.TgtPos, x.DirPos = c18Snapshot(env.m, env.src), c18Snapshot(env.m, env.tgt), c18DirSnapshot(dirRoot)
		x.Log = env.m.Entries()[start:]
		x.Plan = c18Expect(c, x.SrcPre, x.DirPre, env.names)
		for l, n := range x.Plan.Labels {
			labels[l] += n
		}
		lab("cmd:" + st.Cmd)
		if i > 0 {
			lab("step:second-run")
		}
		if i > 1 {
			lab("step:third-run")
		}
		if st.Missing && st.Cmd == "once" {
			lab("flag:missing")
		}
		if st.Abort {
			lab("flag:abort-on-error")
		}
		for _, ch := range st.Changes {
			if ch.Host != "" {
				lab("change:target-drift")
			}
		}
		var vs []*evid.Violation
		vs = append(vs, x.judgeSource()...)
		if st.Cmd == "check" {
			vs = append(vs, x.judgeCheck()...)
		}
		if rerr != nil && strings.HasPrefix(rerr.Error(), "PANIC in regsync") {
			vs = append(vs, x.v(false, "regsync-panic", "%v", rerr))
		}
		if rerr != nil {
			lab("outcome:error")
			lab("error:" + c18ErrClass(rerr.Error()))
			if os.Getenv("VERIF_C18_ERRS") == "2" {
				fmt.Fprintf(os.Stderr, "==== error run\n%s\n---- stderr\n%s\n", text, stderr)
			}
			if os.Getenv("VERIF_C18_ERRS") != "" {
				msg := rerr.Error()
				if len(msg) > 200 {
					msg = msg[:200]
				}
				lab("errmsg:" + strings.ReplaceAll(strings.ReplaceAll(msg, env.names.SrcAddr, "SRC"), env.names.TgtAddr, "TGT"))
			}
			prevOnceOK = false
		} else {
			lab("outcome:success")
			if st.Cmd == "once" {
				vs = append(vs, x.judgeOnce()...)
				if i > 0 && prevOnceOK && len(st.Changes) == 0 {
					lab("step:unchanged-rerun")
					vs = append(vs, x.judgeRerun()...)
				}
				prevOnceOK = !st.Missing
				total.Selected += x.Stats.Selected
				total.Moved += x.Stats.Moved
				total.Missing += x.Stats.Missing
				total.Same += x.Stats.Same
				total.Backups += x.Stats.Backups
				total.SkipMT += x.Stats.SkipMT
				total.Divergent += x.Stats.Divergent + len(x.Plan.DivKeys) + len(x.Plan.DivRepos)
				total.PlatformApplied += x.Stats.PlatformApplied
				total.Excluded += x.Plan.Excluded
			}
		}
		if debug && len(vs) > 0 {
			fmt.Fprintf(os.Stderr, "---- step %d %s err=%v\n%s\n---- stderr\n%s\n---- log\n", i, st.Cmd, rerr, text, stderr)
			for _, le := range x.Log {
				fmt.Fprintf(os.Stderr, "#%d %s %s %s?%s -> %d %s\n", le.Seq, le.Host, le.Method, le.Path, le.RawQuery, le.Status, le.Note)
			}
			for _, v := range vs {
				fmt.Fprintf(os.Stderr, "VIOLATION %v\n", v)
			}
		}
		all = append(all, vs...)
	}
	if total.Selected > 0 {
		lab("tags:selected")
	}
	if total.Excluded > 0 {
		lab("tags:excluded")
	}
	if total.Moved > 0 {
		lab("tags:moved-at-target")
	}
	if total.Missing > 0 {
		lab("tags:missing-at-target")
	}
	if total.Same > 0 {
		lab("tags:already-mirrored")
	}
	if total.Backups > 0 {
		lab("backup:performed")
	}
	if total.SkipMT > 0 {
		lab("tags:media-type-excluded")
	}
	if total.Divergent > 0 {
		lab("filter:anchoring-divergent")
	}
	if total.PlatformApplied > 0 {
		lab("platform:applied")
	}
	nt := (total.Selected > 0 && total.Excluded > 0) || total.Backups > 0 || total.Moved > 0
	ev.Case(nt, c18Key(c), c18LabelList(labels)...)
	ev.Sample(map[string]any{"entries": c.Entries, "defaults": c.Def, "steps": c.Steps, "src": c.Src, "tgt": c.Tgt, "stats": total, "requests": env.m.Requests()})
	// known signatures are counted and the search goes on behind them
	for _, v := range all {
		if ev.IsKnown(v.Sig) {
			ev.Report(v, nil)
			continue
		}
		return v
	}
	return nil
}

func c18TopAlt(f string) bool {
	depth := 0
	for i := 0; i < len(f); i++ {
		switch f[i] {
		case '\\':
			i++
		case '(':
			depth++
		case ')':
			depth--
		case '[':
			for i < len(f) && f[i] != ']' {
				i++
			}
		case '|':
			if depth == 0 {
				return true
			}
		}
	}
	return false
}

func c18LabelList(m map[string]int) []string {
	out := make([]string, 0, len(m))
	for _, k := range c18SortedKeys(m) {
		out = append(out, k)
	}
	return out
}

func c18ErrClass(s string) string {
	s = strings.ToLower(s)
	for _, k := range []string{"panic", "not found", "platform", "unsupported", "digest", "unauthorized", "canceled", "media type", "manifest", "invalid"} {
		if strings.Contains(s, k) {
			return k
		}
	}
	return "other"
}

// c18Guarded runs the check; a harness failure becomes an inconclusive test
// failure (no failure record), never a violation.
func c18Guarded(t interface{ Fatalf(string, ...any) }, c c18Case, ev *evid.Collector) *evid.Violation {
	var infra *c18Infra
	v := evid.Guard(func() *evid.Violation {
		defer func() {
			if p := recover(); p != nil {
				if inf, ok := p.(c18Infra); ok {
					infra = &inf
					return
				}
				panic(p)
			}
		}()
		return c18Check(c, ev)
	})
	if infra != nil {
		evid.Flush(2)
		t.Fatalf("INCONCLUSIVE harness failure (not a violation): %v", infra.err)
	}
	return v
}

// --------------------------------------------------------------------- tests

func TestVerifProp(t *testing.T) {
	ev := evid.For(c18Prop)
	defer evid.Flush(0)
	rapid.Check(t, func(rt *rapid.T) {
		c := c18Gen(rt)
		v := c18Guarded(rt, c, ev)
		if ev.Report(v, c) {
			rt.Fatalf("%v", v)
		}
	})
}

func TestVerifReplayDir(t *testing.T) {
	ev := evid.For(c18Prop)
	defer evid.Flush(0)
	for _, f := range evid.ReplayFiles() {
		var c c18Case
		if err := evid.LoadCaseFile(f, &c); err != nil {
			t.Fatalf("%s: %v", f, err)
		}
		v := c18Guarded(t, c, ev)
		if ev.Report(v, c) {
			t.Errorf("%s: %v", f, v)
		}
	}
}

func TestVerifReplay(t *testing.T) {
	ev := evid.For(c18Prop)
	defer evid.Flush(0)
	var c c18Case
	ok, err := evid.LoadReplay(&c)
	if !ok {
		t.Skip("no VERIF_REPLAY")
	}
	if err != nil {
		t.Fatal(err)
	}
	for i := 0; i < 5; i++ {
		v := c18Guarded(t, c, ev)
		if v != nil {
			t.Logf("replay outcome: %v", v)
		}
		if ev.Report(v, c) {
			t.Fatalf("%v", v)
		}
	}
}
