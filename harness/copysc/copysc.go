// Package copysc is the shared image-copy scenario used by C03, C04 and C14:
// a generated image graph, an endpoint pairing, a pre-existing target state,
// an option set, registry feature sets and a latency plan; Setup materialises
// everything raw and returns the client and the raw views.
package copysc

import (
	"context"
	"encoding/json"
	"fmt"
	"net/http"
	"os"
	"path/filepath"
	"runtime"
	"sort"
	"strings"
	"sync"
	"sync/atomic"
	"time"

	"pgregory.net/rapid"

	"github.com/regclient/regclient"
	"github.com/regclient/regclient/config"
	"github.com/regclient/regclient/scheme"
	"github.com/regclient/regclient/scheme/reg"
	"github.com/regclient/regclient/types"
	"github.com/regclient/regclient/types/descriptor"
	"github.com/regclient/regclient/types/manifest"
	"github.com/regclient/regclient/types/ref"
	"github.com/regclient/regclient/zz_verif/audit"
	"github.com/regclient/regclient/zz_verif/imggen"
	"github.com/regclient/regclient/zz_verif/rcutil"
	rm "github.com/regclient/regclient/zz_verif/regmodel"
)

// Feat is the generated part of a registry feature set.
type Feat struct {
	MountGrant   bool `json:"mount_grant"`
	AnonMount    int  `json:"anon_mount"` // 0, 201, 405
	HeadNoDigest bool `json:"head_no_digest"`
	Referrers    bool `json:"referrers"`
	RefPage      int  `json:"ref_page"`
	TagPage      int  `json:"tag_page"`
	TagDelete    bool `json:"tag_delete"`
	Validate     bool `json:"validate"` // target rejects manifests with missing references
	LocStyle     int  `json:"loc_style"`
	ChunkMin     int  `json:"chunk_min"`
	// the first k cross-repository mount requests are declined, later ones granted (a mount policy that depends on the blob / the moment)
	MountRefuseFirst int `json:"mount_refuse_first,omitempty"`
	// manifest requests are answered by content negotiation on the Accept header (distribution, olareg)
	Accept bool `json:"accept,omitempty"`
}

func (f Feat) Features() rm.Features {
	return rm.Features{MountGrant: f.MountGrant, AnonMountStatus: f.AnonMount, HeadNoDigest: f.HeadNoDigest, Referrers: f.Referrers,
		ReferrersPage: f.RefPage, TagPage: f.TagPage, TagDelete: f.TagDelete, ValidateManifest: f.Validate, LocStyle: f.LocStyle, ChunkMin: f.ChunkMin, MountRefuseFirst: f.MountRefuseFirst, HonourAccept: f.Accept}
}

// Pre is the pre-existing target state.
type Pre struct {
	Mode     string   `json:"mode"`               // empty | partial | complete | stale | extra
	Keep     []string `json:"keep"`               // digests of the graph present at the target before the copy
	StaleTag bool     `json:"stale_tag"`          // the target tag points at unrelated content
	Symlinks bool     `json:"symlinks,omitempty"` // layout target: the pre-existing blob files are symlinks into a content store
	// Damage (layout target): "root-file-missing" = index.json lists the target tag with the source's top-level digest,
	// but the manifest's file is not there (an interrupted or pruned layout): the listing alone is no proof that the
	// target "already equals the source". "root-path-obstructed" = a directory sits where the top-level manifest's file
	// belongs (the write of that manifest fails: the one file-system fault a layout target can be given without
	// killing the process): the copy must fail and must not have moved the tag
	Damage string `json:"damage,omitempty"`
}

// CopyOpts is the generated option set.
type CopyOpts struct {
	ForceRecursive  bool   `json:"force_recursive"`
	Referrers       bool   `json:"referrers"`
	RefArtifactType string `json:"ref_artifact_type"`
	DigestTags      bool   `json:"digest_tags"`
	IncludeExternal bool   `json:"include_external"`
	FastCheck       bool   `json:"fast_check"`
	// referrers filter on annotations: key must exist, and equal the value unless the value is ""
	RefAnnotKey string `json:"ref_annot_key,omitempty"`
	RefAnnotVal string `json:"ref_annot_val,omitempty"`
	// a progress callback is registered (no semantic effect expected)
	Callback bool `json:"callback,omitempty"`
}

// Case is one generated copy scenario.
type Case struct {
	Graph       *imggen.Graph `json:"graph"`
	Pairing     string        `json:"pairing"` // same-repo | same-reg | two-reg | reg-layout | layout-reg | two-layout
	Pre         Pre           `json:"pre"`
	Opts        CopyOpts      `json:"opts"`
	SrcFeat     Feat          `json:"src_feat"`
	TgtFeat     Feat          `json:"tgt_feat"`
	Delays      []int         `json:"delays"` // indexes into DelayTable
	Procs       int           `json:"procs"`
	TgtByDigest bool          `json:"tgt_by_digest"`
	SrcForm     string        `json:"src_form,omitempty"` // how the source is named: "" = tag | digest | tag+digest
	// client built with reg.WithCache (regctl always, regsync by default)
	Cache bool `json:"cache,omitempty"`
	// what the same client did before the copy: "" nothing | inspect (get the source manifest and, for an index,
	// each child by digest) | prior-copy (copied the image to a third repository of the source registry)
	Warm string `json:"warm,omitempty"`
	// Align: the model registries release requests in pairs (a request waits up to 0.5 ms for a second one to be in
	// flight, both are then answered together), so the per-child goroutines of the copy keep reaching the shared
	// bookkeeping at the same instant instead of drifting apart - contention on windows that are only a few
	// instructions wide, which latency plans cannot aim at
	Align bool `json:"align,omitempty"`
	// the caller's context is cancelled when the k-th request of the copy (1-based) arrives; with CancelMid the
	// body of that response stalls after its first byte and the cancellation comes while it is streaming
	CancelAt  int  `json:"cancel_at,omitempty"`
	CancelMid bool `json:"cancel_mid,omitempty"`
	// index into layoutNames (how the layout directories are named)
	LayoutNames int `json:"layout_names,omitempty"`
	// the target registry has a mirror in its host configuration (two-reg and layout-reg pairings); the mirror is empty
	TgtMirror bool `json:"tgt_mirror,omitempty"`
}

// layoutNames are the directory names of the source and target layout: plain ones, and pairs of DIFFERENT
// directories whose names only differ in what a registry-style normalisation drops (case, punctuation runs)
var layoutNames = [][2]string{{"src", "tgt"}, {"app_1.0", "app-1.0"}, {"App", "app"}, {"img.v1", "img_v1"}, {"a.b/c", "a-b/c"}, {"repo", "repo-"}}

// HostM is an (empty) mirror configured for the target registry.
const HostM = "m.example.test"

// DelayTable are the latencies a plan chooses from.
var DelayTable = []time.Duration{0, 50 * time.Microsecond, 300 * time.Microsecond, 2 * time.Millisecond}

const (
	HostA     = "a.example.test"
	HostB     = "b.example.test"
	HostExt   = "ext.example.test"
	RepoSrc   = "proj/src"
	RepoTgt   = "proj/tgt"
	RepoThird = "proj/third"  // where a warm-up copy goes (source registry)
	RepoOther = "proj/legacy" // a repository of the source registry whose referrers API answers 404 (warm-up "other-repo-probe")
	SrcTag    = "v1"
)

// GenOptions restrict the generator for a particular property.
type GenOptions struct {
	Pairings  []string
	NoOptions bool // default copy options only (C14)
	Cancel    bool // draw a cancellation of the caller's context during the copy (C03: a nil return must still mean a complete image)
	Img       imggen.Options
	NoDelays  bool
	Align     bool // draw Case.Align (requests released in pairs) in a quarter of the cases
	Damage    bool // draw Pre.Damage "root-file-missing" for layout targets (C03 only: C04 / C14 judge pre-states that must be sound)
	Obstruct  bool // draw Pre.Damage "root-path-obstructed" for layout targets (C04 only)
}

// DefaultGen returns the full generator options.
func DefaultGen() GenOptions {
	return GenOptions{Pairings: []string{"same-repo", "same-reg", "two-reg", "reg-layout", "layout-reg", "two-layout"}, Img: imggen.DefaultOptions()}
}

func genFeat(t *rapid.T, label string) Feat {
	f := genFeatBase(t, label)
	if f.MountGrant && rapid.IntRange(0, 3).Draw(t, label+"_mrf") == 0 {
		f.MountRefuseFirst = rapid.IntRange(1, 3).Draw(t, label+"_mrfk")
	}
	f.Accept = rapid.IntRange(0, 2).Draw(t, label+"_accept") == 0
	return f
}

func genFeatBase(t *rapid.T, label string) Feat {
	return Feat{
		MountGrant:   rapid.Bool().Draw(t, label+"_mount"),
		AnonMount:    rapid.SampledFrom([]int{0, 0, 201, 405}).Draw(t, label+"_anon"),
		HeadNoDigest: rapid.IntRange(0, 3).Draw(t, label+"_hnd") == 0,
		Referrers:    rapid.Bool().Draw(t, label+"_refapi"),
		RefPage:      rapid.SampledFrom([]int{0, 0, 1, 2}).Draw(t, label+"_refpage"),
		TagPage:      rapid.SampledFrom([]int{0, 0, 1, 3}).Draw(t, label+"_tagpage"),
		TagDelete:    rapid.Bool().Draw(t, label+"_tagdel"),
		LocStyle:     rapid.IntRange(0, 3).Draw(t, label+"_loc"),
	}
}

// Gen draws a Case.
func Gen(t *rapid.T, o GenOptions) Case {
	var c Case
	c.Pairing = rapid.SampledFrom(o.Pairings).Draw(t, "pairing")
	io := o.Img
	io.ExtHost = HostExt
	io.Sha512 = true      // blobs and manifests named by sha512 digests (descriptors, index entries, the root behind the tag)
	io.NoMediaType = true // OCI manifests without the optional mediaType field (the type then only comes from headers / the listing descriptor)
	c.Graph = imggen.Gen(t, io)
	c.SrcFeat = genFeat(t, "src")
	c.TgtFeat = genFeat(t, "tgt")
	c.TgtFeat.Validate = rapid.IntRange(0, 2).Draw(t, "tgt_validate") == 0
	if !o.NoOptions {
		c.Opts = CopyOpts{
			ForceRecursive:  rapid.IntRange(0, 3).Draw(t, "o_force") == 0,
			Referrers:       rapid.IntRange(0, 2).Draw(t, "o_ref") == 0,
			DigestTags:      rapid.IntRange(0, 2).Draw(t, "o_dt") == 0,
			IncludeExternal: rapid.IntRange(0, 2).Draw(t, "o_ext") == 0,
			FastCheck:       rapid.IntRange(0, 5).Draw(t, "o_fast") == 0,
		}
		if c.Opts.Referrers && rapid.IntRange(0, 3).Draw(t, "o_refat") == 0 {
			c.Opts.RefArtifactType = rapid.SampledFrom([]string{"application/vnd.example.sbom", "application/vnd.example.sig"}).Draw(t, "o_refatv")
		}
		if c.Opts.Referrers && rapid.IntRange(0, 4).Draw(t, "o_refann") == 0 {
			c.Opts.RefAnnotKey = rapid.SampledFrom([]string{"org.example.a", "org.example.b", "org.opencontainers.image.created", "k"}).Draw(t, "o_refannk")
			c.Opts.RefAnnotVal = rapid.SampledFrom([]string{"", "v1", "v2", "é\"q"}).Draw(t, "o_refannv")
		}
		c.Opts.Callback = rapid.IntRange(0, 3).Draw(t, "o_cb") == 0
	}
	// pre-state
	all := c.Graph.AllDigests()
	switch rapid.IntRange(0, 5).Draw(t, "pre_mode") {
	case 0, 1:
		c.Pre.Mode = "empty"
	case 2, 3:
		c.Pre.Mode = "partial"
		for _, d := range all {
			if rapid.Bool().Draw(t, "keep") {
				c.Pre.Keep = append(c.Pre.Keep, d)
			}
		}
	case 4:
		c.Pre.Mode = "complete"
		c.Pre.Keep = all
	case 5:
		c.Pre.Mode = "stale"
		c.Pre.StaleTag = true
		for _, d := range all {
			if rapid.IntRange(0, 3).Draw(t, "keep") == 0 {
				c.Pre.Keep = append(c.Pre.Keep, d)
			}
		}
	}
	if !o.NoDelays {
		n := rapid.IntRange(0, 6).Draw(t, "ndelays")
		for i := 0; i < n; i++ {
			c.Delays = append(c.Delays, rapid.IntRange(0, len(DelayTable)-1).Draw(t, "delay"))
		}
	}
	c.Procs = rapid.SampledFrom([]int{1, 4, 16}).Draw(t, "procs")
	c.TgtByDigest = rapid.IntRange(0, 7).Draw(t, "bydigest") == 0
	c.SrcForm = rapid.SampledFrom([]string{"", "", "", "", "digest", "tag+digest"}).Draw(t, "srcform")
	c.Pre.Symlinks = c.Pre.Mode != "empty" && rapid.IntRange(0, 3).Draw(t, "pre_symlinks") == 0
	if o.Damage && (c.Pairing == "reg-layout" || c.Pairing == "two-layout") && rapid.IntRange(0, 5).Draw(t, "pre_damage") == 0 {
		c.Pre.Damage = "root-file-missing"
	}
	if o.Obstruct && (c.Pairing == "reg-layout" || c.Pairing == "two-layout") && rapid.IntRange(0, 7).Draw(t, "pre_obstruct") == 0 {
		c.Pre.Damage = "root-path-obstructed"
	}
	c.LayoutNames = rapid.SampledFrom([]int{0, 0, 0, 1, 2, 3, 4, 5}).Draw(t, "layout_names")
	c.TgtMirror = rapid.IntRange(0, 4).Draw(t, "tgt_mirror") == 0
	c.Cache = rapid.IntRange(0, 2).Draw(t, "cache") == 0
	c.Warm = rapid.SampledFrom([]string{"", "", "", "inspect", "prior-copy", "other-repo-probe"}).Draw(t, "warm")
	if o.Align && rapid.IntRange(0, 3).Draw(t, "align") == 0 {
		c.Align = true
		if c.Procs == 1 {
			c.Procs = 4
		}
	}
	if o.Cancel && rapid.IntRange(0, 5).Draw(t, "cancel") == 0 {
		c.CancelAt = rapid.IntRange(1, 40).Draw(t, "cancel_at")
		c.CancelMid = rapid.Bool().Draw(t, "cancel_mid")
	}
	return c
}

// ClientClasses labels the client-side dimensions of a case.
func (c Case) ClientClasses() []string {
	var out []string
	if c.Cache {
		out = append(out, "client:cache")
	}
	if c.Warm != "" {
		out = append(out, "client:warm-"+c.Warm)
	}
	if c.Align {
		out = append(out, "schedule:requests-released-in-pairs")
	}
	if c.Pre.Damage != "" {
		out = append(out, "pre-damage:"+c.Pre.Damage)
	}
	if c.Cache && c.Warm != "" {
		out = append(out, "client:cache+warm")
	}
	if c.LayoutNames > 0 && (strings.Contains(c.Pairing, "layout")) {
		out = append(out, "layout-names:differ-only-in-case-or-punctuation")
	}
	if c.TgtMirror && (c.Pairing == "two-reg" || c.Pairing == "layout-reg") {
		out = append(out, "host:target-has-a-mirror")
	}
	if c.Pre.Symlinks && (c.Pairing == "reg-layout" || c.Pairing == "two-layout") {
		out = append(out, "pre:target-layout-blobs-are-symlinks")
	}
	if c.CancelAt > 0 {
		out = append(out, map[bool]string{false: "caller:cancels-on-arrival-of-a-request", true: "caller:cancels-while-a-body-streams"}[c.CancelMid])
	}
	return out
}

// Endpoint is one side of the copy.
type Endpoint struct {
	Kind string // reg | layout
	Host *rm.Host
	Repo string
	Dir  string
}

// View returns the raw storage view (re-reads a layout's index.json).
func (e Endpoint) View() audit.View {
	if e.Kind == "layout" {
		return audit.OpenLayout(e.Dir)
	}
	return audit.RepoView{R: e.Host.Repos[e.Repo]}
}

// Env is a materialised scenario.
type Env struct {
	C          Case
	M          *rm.Model
	RC         *regclient.RegClient
	Src, Tgt   Endpoint
	SrcRef     ref.Ref
	TgtRef     ref.Ref
	TgtTag     string
	RootDig    string
	PreHas     map[string]bool // digests present at the target before the copy
	PreTag     string          // digest the target tag resolved to before the copy ("" absent)
	PreTags    map[string]string
	LastParent map[string]string
	tmp        string
	prevProcs  int
	cbCalls    atomic.Int64
	// requests the warm-up sent before the copy (fault positions and request counts are relative to it)
	WarmRequests int
	Obstructed   bool // Pre.Damage root-path-obstructed was applied
}

var staleBody = []byte(`{"schemaVersion":2,"mediaType":"application/vnd.oci.image.manifest.v1+json","config":{"mediaType":"application/vnd.oci.empty.v1+json","digest":"sha256:44136fa355b3678a1146ad16f7e8649e94fb4fc21fe77e8310c060f61caaff8a","size":2,"data":"e30="},"layers":[],"annotations":{"stale":"yes"}}`)

// Setup materialises the scenario.
func Setup(c Case) (*Env, error) {
	e := &Env{C: c, M: rm.New(), PreHas: map[string]bool{}, PreTags: map[string]string{}}
	tmp, err := os.MkdirTemp("", "copysc")
	if err != nil {
		return nil, err
	}
	e.tmp = tmp
	g := c.Graph
	e.RootDig = g.Nodes[g.Root].Digest
	ha := e.M.AddHost(HostA)
	hb := e.M.AddHost(HostB)
	ext := e.M.AddExternal(HostExt)
	g.PutExternal(ext)
	ha.Feat = c.SrcFeat.Features()
	hb.Feat = c.TgtFeat.Features()
	for _, i := range c.Delays {
		ha.Delays = append(ha.Delays, DelayTable[i])
		hb.Delays = append(hb.Delays, DelayTable[(i+1)%len(DelayTable)])
	}
	e.TgtTag = SrcTag
	switch c.Pairing {
	case "same-repo":
		e.Src = Endpoint{Kind: "reg", Host: ha, Repo: RepoSrc}
		e.Tgt = e.Src
		e.TgtTag = "copy"
	case "same-reg":
		e.Src = Endpoint{Kind: "reg", Host: ha, Repo: RepoSrc}
		e.Tgt = Endpoint{Kind: "reg", Host: ha, Repo: RepoTgt}
		ha.Feat.ValidateManifest = c.TgtFeat.Validate
	case "two-reg":
		e.Src = Endpoint{Kind: "reg", Host: ha, Repo: RepoSrc}
		e.Tgt = Endpoint{Kind: "reg", Host: hb, Repo: RepoTgt}
	case "reg-layout":
		e.Src = Endpoint{Kind: "reg", Host: ha, Repo: RepoSrc}
		e.Tgt = Endpoint{Kind: "layout", Dir: filepath.Join(tmp, layoutNames[c.LayoutNames%len(layoutNames)][1])}
	case "layout-reg":
		e.Src = Endpoint{Kind: "layout", Dir: filepath.Join(tmp, layoutNames[c.LayoutNames%len(layoutNames)][0])}
		e.Tgt = Endpoint{Kind: "reg", Host: hb, Repo: RepoTgt}
	case "two-layout":
		e.Src = Endpoint{Kind: "layout", Dir: filepath.Join(tmp, layoutNames[c.LayoutNames%len(layoutNames)][0])}
		e.Tgt = Endpoint{Kind: "layout", Dir: filepath.Join(tmp, layoutNames[c.LayoutNames%len(layoutNames)][1])}
	default:
		return nil, fmt.Errorf("unknown pairing %q", c.Pairing)
	}
	// source: always complete and spec conformant
	if e.Src.Kind == "reg" {
		g.PutRegistry(e.Src.Host, e.Src.Repo, !e.Src.Host.Feat.Referrers, nil)
	} else if err := g.PutLayout(e.Src.Dir, imggen.LayoutStyle{}, nil); err != nil {
		return nil, err
	}
	// target pre-state
	if c.Pairing != "same-repo" {
		keep := map[string]bool{}
		for _, d := range c.Pre.Keep {
			keep[d] = true
		}
		kf := func(d string) bool { return keep[d] }
		if e.Tgt.Kind == "reg" {
			if len(keep) > 0 {
				pg := *g
				pg.Tags = map[string]int{}
				for t, id := range g.Tags {
					if t == SrcTag {
						pg.Tags[t] = id
					}
				}
				pg.PutRegistry(e.Tgt.Host, e.Tgt.Repo, false, kf)
			} else {
				e.Tgt.Host.Repo(e.Tgt.Repo)
			}
			if c.Pre.StaleTag {
				r := e.Tgt.Host.Repo(e.Tgt.Repo)
				d := rm.Digest("sha256", staleBody)
				r.Manifests[d] = &rm.Manifest{MediaType: rm.MTOCIManifest, Body: staleBody}
				r.Blobs["sha256:44136fa355b3678a1146ad16f7e8649e94fb4fc21fe77e8310c060f61caaff8a"] = []byte("{}")
				r.Tags[e.TgtTag] = d
			}
		} else if c.Pre.Mode != "empty" {
			pg := *g
			pg.Tags = map[string]int{}
			pg.Nodes = g.Nodes
			for t, id := range g.Tags {
				if t == SrcTag {
					pg.Tags[t] = id
				}
			}
			// a layout target only lists tagged manifests; no referrers fallback entries in the pre-state
			pgNoRef := pg
			nodes := make([]*imggen.Node, len(g.Nodes))
			for i, n := range g.Nodes {
				cp := *n
				cp.Subject = ""
				nodes[i] = &cp
			}
			pgNoRef.Nodes = nodes
			st := imggen.LayoutStyle{UntaggedAll: true}
			if c.Pre.StaleTag {
				st.Extra = []imggen.ExtraEntry{{Tag: e.TgtTag, MediaType: rm.MTOCIManifest, Body: staleBody,
					Blobs: map[string][]byte{"sha256:44136fa355b3678a1146ad16f7e8649e94fb4fc21fe77e8310c060f61caaff8a": []byte("{}")}}}
			}
			if err := pgNoRef.PutLayout(e.Tgt.Dir, st, kf); err != nil {
				return nil, err
			}
			if c.Pre.Symlinks {
				// a layout assembled by a build system / sharing blobs with a content store: every pre-existing
				// file under blobs/<alg>/ is a symlink into a store next to the layout
				store := filepath.Join(tmp, "store")
				if err := os.MkdirAll(store, 0o777); err != nil {
					return nil, err
				}
				algs, _ := os.ReadDir(filepath.Join(e.Tgt.Dir, "blobs"))
				for _, a := range algs {
					fs, _ := os.ReadDir(filepath.Join(e.Tgt.Dir, "blobs", a.Name()))
					for _, f := range fs {
						from := filepath.Join(e.Tgt.Dir, "blobs", a.Name(), f.Name())
						to := filepath.Join(store, a.Name()+"-"+f.Name())
						if err := os.Rename(from, to); err != nil {
							return nil, err
						}
						if err := os.Symlink(to, from); err != nil {
							return nil, err
						}
					}
				}
			}
		}
	} else if c.Pre.StaleTag {
		// same repository: the target tag points at some other node of the graph
		r := e.Src.Host.Repo(e.Src.Repo)
		r.Tags[e.TgtTag] = g.Nodes[0].Digest
	} else if c.Pre.Mode == "complete" {
		e.Src.Host.Repo(e.Src.Repo).Tags[e.TgtTag] = e.RootDig
	}
	if c.Pre.Damage == "root-file-missing" && e.Tgt.Kind == "layout" {
		if err := damageRootFileMissing(e.Tgt.Dir, e.TgtTag, g.Nodes[g.Root]); err != nil {
			return nil, err
		}
	}
	if c.Pre.Damage == "root-path-obstructed" && e.Tgt.Kind == "layout" {
		alg, hex, _ := strings.Cut(e.RootDig, ":")
		p := filepath.Join(e.Tgt.Dir, "blobs", alg, hex)
		if _, err := os.Lstat(p); err != nil {
			// only where the pre-state does not hold the top-level manifest (else the tag could already name it)
			if err := os.MkdirAll(filepath.Join(p, "obstacle"), 0o777); err != nil {
				return nil, err
			}
			e.Obstructed = true
		}
	}
	// record the pre-state from raw storage
	tv := e.Tgt.View()
	for _, d := range tv.Digests() {
		e.PreHas[d] = true
	}
	for _, t := range tv.Tags() {
		if d, ok := tv.Tag(t); ok {
			e.PreTags[t] = d
		}
	}
	if e.Obstructed {
		delete(e.PreHas, e.RootDig) // a directory is not the manifest
	}
	e.PreTag = e.PreTags[e.TgtTag]
	// refs
	mk := func(ep Endpoint, tag string) (ref.Ref, error) {
		if ep.Kind == "layout" {
			return ref.New("ocidir://" + ep.Dir + ":" + tag)
		}
		return ref.New(ep.Host.Name + "/" + ep.Repo + ":" + tag)
	}
	if e.SrcRef, err = mk(e.Src, SrcTag); err != nil {
		return nil, err
	}
	if e.TgtRef, err = mk(e.Tgt, e.TgtTag); err != nil {
		return nil, err
	}
	switch c.SrcForm {
	case "digest":
		e.SrcRef = e.SrcRef.SetDigest(e.RootDig)
	case "tag+digest":
		e.SrcRef = e.SrcRef.AddDigest(e.RootDig)
	}
	if c.TgtByDigest {
		e.TgtRef = e.TgtRef.SetDigest(e.RootDig)
		e.PreTag = ""
		if e.PreHas[e.RootDig] {
			e.PreTag = e.RootDig
		}
	}
	conf := rcutil.Conf{}
	if c.TgtMirror && (c.Pairing == "two-reg" || c.Pairing == "layout-reg") {
		e.M.AddHost(HostM)
		conf.Hosts = []config.Host{{Name: HostB, Hostname: HostB, Mirrors: []string{HostM}}, {Name: HostM, Hostname: HostM}}
	}
	if c.Cache {
		conf.RegOpts = append(conf.RegOpts, reg.WithCache(5*time.Minute, 500))
	}
	e.RC = rcutil.New(e.M, conf)
	e.prevProcs = runtime.GOMAXPROCS(c.Procs)
	e.warm()
	e.WarmRequests = e.M.Requests()
	return e, nil
}

// damageRootFileMissing makes index.json list tag -> root (creating the layout when it does not exist yet) and removes
// the root manifest's file.
func damageRootFileMissing(dir, tag string, root *imggen.Node) error {
	if err := os.MkdirAll(filepath.Join(dir, "blobs", "sha256"), 0o777); err != nil {
		return err
	}
	if _, err := os.Stat(filepath.Join(dir, "oci-layout")); err != nil {
		if err := os.WriteFile(filepath.Join(dir, "oci-layout"), []byte(`{"imageLayoutVersion":"1.0.0"}`), 0o644); err != nil {
			return err
		}
	}
	idx := map[string]any{"schemaVersion": 2, "mediaType": rm.MTOCIIndex, "manifests": []any{}}
	if b, err := os.ReadFile(filepath.Join(dir, "index.json")); err == nil {
		_ = json.Unmarshal(b, &idx)
	}
	var keep []any
	if l, ok := idx["manifests"].([]any); ok {
		for _, x := range l {
			if m, ok := x.(map[string]any); ok {
				if a, ok := m["annotations"].(map[string]any); ok && a["org.opencontainers.image.ref.name"] == tag {
					continue
				}
			}
			keep = append(keep, x)
		}
	}
	keep = append(keep, map[string]any{"mediaType": root.MediaType, "digest": root.Digest, "size": len(root.Body),
		"annotations": map[string]any{"org.opencontainers.image.ref.name": tag}})
	idx["manifests"] = keep
	b, err := json.Marshal(idx)
	if err != nil {
		return err
	}
	if err := os.WriteFile(filepath.Join(dir, "index.json"), b, 0o644); err != nil {
		return err
	}
	alg, hex, _ := strings.Cut(root.Digest, ":")
	_ = os.Remove(filepath.Join(dir, "blobs", alg, hex))
	return nil
}

// warm lets the client under test do what a caller may have done before the copy (errors are ignored,
// only the client's state matters). It runs before any fault is armed.
func (e *Env) warm() {
	ctx, cancel := context.WithTimeout(context.Background(), 30*time.Second)
	defer cancel()
	switch e.C.Warm {
	case "inspect":
		m, err := e.RC.ManifestGet(ctx, e.SrcRef)
		if err != nil {
			return
		}
		if mi, ok := m.(manifest.Indexer); ok {
			if dl, err := mi.GetManifestList(); err == nil {
				for _, d := range dl {
					_, _ = e.RC.ManifestGet(ctx, e.SrcRef.SetDigest(d.Digest.String()))
				}
			}
		}
	case "other-repo-probe":
		// the client first asks for referrers in ANOTHER repository of the source registry, one where that API is not
		// served (a proxy / pull-through project, a repository converted per repository): whatever the client
		// remembers from it must not change how the copied repository is treated
		if e.Src.Kind != "reg" {
			return
		}
		h := e.Src.Host
		if h.Intercept == nil {
			h.Intercept = func(_ *rm.Model, _ *rm.Host, en *rm.Entry, _ *http.Request) *rm.Resp {
				if en.Class == "referrers" && en.Repo == RepoOther {
					return &rm.Resp{Status: 404, Header: http.Header{"Content-Type": {"application/json"}}, Body: []byte(`{"errors":[{"code":"NAME_UNKNOWN","message":"repository name not known to registry"}]}`), TruncateAt: -1}
				}
				return nil
			}
		}
		ro, err := ref.New(h.Name + "/" + RepoOther + "@" + e.RootDig)
		if err != nil {
			return
		}
		_, _ = e.RC.ReferrerList(ctx, ro)
	case "prior-copy":
		if e.Src.Kind != "reg" {
			return
		}
		r3, err := ref.New(e.Src.Host.Name + "/" + RepoThird + ":" + SrcTag)
		if err != nil {
			return
		}
		_ = e.RC.ImageCopy(ctx, e.SrcRef, r3, e.ImageOpts()...)
	}
}

// Close releases scratch space.
func (e *Env) Close() {
	if e.prevProcs > 0 {
		runtime.GOMAXPROCS(e.prevProcs)
	}
	os.RemoveAll(e.tmp)
}

// ImageOpts converts the generated option set.
func (e *Env) ImageOpts() []regclient.ImageOpts {
	o := e.C.Opts
	var out []regclient.ImageOpts
	if o.ForceRecursive {
		out = append(out, regclient.ImageWithForceRecursive())
	}
	if o.Referrers {
		var ro []scheme.ReferrerOpts
		if o.RefArtifactType != "" {
			ro = append(ro, scheme.WithReferrerMatchOpt(matchAT(o.RefArtifactType)))
		}
		if o.RefAnnotKey != "" {
			ro = append(ro, scheme.WithReferrerAnnotations(map[string]string{o.RefAnnotKey: o.RefAnnotVal}))
		}
		out = append(out, regclient.ImageWithReferrers(ro...))
	}
	if o.Callback {
		out = append(out, regclient.ImageWithCallback(func(kind types.CallbackKind, instance string, state types.CallbackState, cur, total int64) {
			e.cbCalls.Add(1)
		}))
	}
	if o.DigestTags {
		out = append(out, regclient.ImageWithDigestTags())
	}
	if o.IncludeExternal {
		out = append(out, regclient.ImageWithIncludeExternal())
	}
	if o.FastCheck {
		out = append(out, regclient.ImageWithFastCheck())
	}
	return out
}

// Copy runs the copy with a watchdog; timedOut is true when the watchdog fired.
func (e *Env) Copy(ctx context.Context) (err error, timedOut bool) {
	ctx, cancel := context.WithTimeout(ctx, 60*time.Second)
	defer cancel()
	if e.C.CancelAt > 0 {
		// the caller gives up (context.Canceled, as on SIGINT) at a generated point of the copy
		cctx, ccancel := context.WithCancel(ctx)
		defer ccancel()
		ctx = cctx
		seq := e.WarmRequests + e.C.CancelAt - 1
		if e.C.CancelMid {
			f := rm.NewFault("stall")
			f.AtSeq, f.At = seq, 1
			e.M.AddFault(f)
		}
		prev := e.M.OnArrive
		e.M.OnArrive = func(x *rm.Entry) {
			if prev != nil {
				prev(x)
			}
			if x.Seq == seq {
				if e.C.CancelMid {
					time.AfterFunc(10*time.Millisecond, ccancel)
				} else {
					ccancel()
				}
			}
		}
		defer func() { e.M.OnArrive = prev }()
	}
	if e.C.Align {
		var bmu sync.Mutex
		var waiting chan struct{}
		prev := e.M.OnArrive
		e.M.OnArrive = func(x *rm.Entry) {
			if prev != nil {
				prev(x)
			}
			bmu.Lock()
			if waiting != nil {
				ch := waiting
				waiting = nil
				bmu.Unlock()
				close(ch)
				return
			}
			ch := make(chan struct{})
			waiting = ch
			bmu.Unlock()
			tm := time.NewTimer(500 * time.Microsecond)
			select {
			case <-ch:
			case <-tm.C:
				bmu.Lock()
				if waiting == ch {
					waiting = nil
				}
				bmu.Unlock()
			}
			tm.Stop()
		}
		defer func() { e.M.OnArrive = prev }()
	}
	err = e.RC.ImageCopy(ctx, e.SrcRef, e.TgtRef, e.ImageOpts()...)
	if ctx.Err() == context.DeadlineExceeded {
		return err, true
	}
	return err, false
}

// SourceView is the source storage plus the external (foreign layer) bodies.
type SourceView struct {
	audit.View
	Ext map[string][]byte
}

func (s SourceView) Get(d string) ([]byte, string, bool) {
	if b, mt, ok := s.View.Get(d); ok {
		return b, mt, ok
	}
	b, ok := s.Ext[d]
	return b, "", ok
}

// SrcView returns the source view including external layers by digest.
func (e *Env) SrcView() audit.View {
	ext := map[string][]byte{}
	for _, b := range e.C.Graph.External {
		ext[rm.Digest("sha256", b)] = b
	}
	return SourceView{View: e.Src.View(), Ext: ext}
}

// Required computes the closure the statement requires at the target after a
// successful copy (digest -> bytes) together with the manifests in it.
func (e *Env) Required() (map[string][]byte, map[string]string, []audit.Problem) {
	o := e.C.Opts
	ao := audit.Opts{IncludeExternal: o.IncludeExternal, Referrers: o.Referrers, DigestTags: o.DigestTags}
	if o.RefArtifactType != "" || o.RefAnnotKey != "" {
		ao.RefFilter = e.RefMatch
	}
	ao.Exempt = func(d string, root bool) int { return e.ExemptLevel(d) }
	r := audit.ClosureEx(e.SrcView(), e.RootDig, e.C.Graph.Nodes[e.C.Graph.Root].MediaType, ao)
	e.LastParent = r.Parent
	return r.Content, r.Manifests, r.Problems
}

// RefMatch tells whether a referrer (descriptor as built by audit.RawReferrers) passes the
// generated referrers filter: artifact type equal, annotation key present (and equal to the
// value unless the value is empty).
func (e *Env) RefMatch(d map[string]any) bool {
	o := e.C.Opts
	if o.RefArtifactType != "" && d["artifactType"] != o.RefArtifactType {
		return false
	}
	if o.RefAnnotKey != "" {
		ann, _ := d["annotations"].(map[string]string)
		v, ok := ann[o.RefAnnotKey]
		if !ok || (o.RefAnnotVal != "" && v != o.RefAnnotVal) {
			return false
		}
	}
	return true
}

// UnderUnknownEntry tells whether digest d is (or is required through) an
// index entry whose media type the copy does not recognise as a manifest type
// (e.g. the OCI artifact manifest). Must be called after Required.
func (e *Env) UnderUnknownEntry(d string, mans map[string]string) bool {
	known := map[string]bool{rm.MTDocker1: true, rm.MTDocker1Sig: true, rm.MTDocker2: true, rm.MTDocker2List: true, rm.MTOCIManifest: true, rm.MTOCIIndex: true}
	for i := 0; i < 64 && d != ""; i++ {
		p := e.LastParent[d]
		if mt, isM := mans[d]; isM && p != "" && !known[mt] {
			if pn := e.C.Graph.ByDigest(p); pn != nil && pn.Kind == "index" {
				return true
			}
		}
		d = p
	}
	return false
}

// SortedKeys returns sorted map keys.
func SortedKeys[V any](m map[string]V) []string {
	out := make([]string, 0, len(m))
	for k := range m {
		out = append(out, k)
	}
	sort.Strings(out)
	return out
}

func matchAT(at string) descriptor.MatchOpt { return descriptor.MatchOpt{ArtifactType: at} }

// ExemptLevel reports how a manifest that pre-existed at the target is treated
// (see audit.Opts.Exempt); root handling included.
func (e *Env) ExemptLevel(d string) int {
	o := e.C.Opts
	if e.C.Pairing == "same-repo" {
		return 2
	}
	present := e.PreHas[d]
	if d == e.RootDig {
		present = e.PreTag == d && e.PreHas[d]
	}
	if !present {
		return 0
	}
	if o.FastCheck {
		return 2 // the fast check returns before anything else is looked at, whatever other options say
	}
	if o.ForceRecursive {
		return 0
	}
	if o.FastCheck || (!o.Referrers && !o.DigestTags) {
		return 2
	}
	return 1
}

// DumpLog renders the request log (debugging aid).
func (e *Env) DumpLog() string {
	var sb strings.Builder
	for _, x := range e.M.Entries() {
		fmt.Fprintf(&sb, "#%d %s %s %s?%s -> %d %s %s missing=%v\n", x.Seq, x.Host, x.Method, x.Path, x.RawQuery, x.Status, x.Fault, x.Note, x.Missing)
	}
	return sb.String()
}
