// Package c05 decides C05: a blob upload commits exactly the caller's bytes
// under their digest, or fails.
//
// A Case is plain data (chunk / max-put settings, blob length and content
// seed, declared descriptor, source reader behaviour, digest algorithm,
// destination kind, registry feature set, fault plan). check() uploads the blob
// through the public client API (RegClient.BlobPut) into an in-process model
// registry (regmodel, strict or lax-but-truthful) or into a fresh OCI layout
// directory and judges the outcome against raw destination storage.
package c05

import (
	"context"
	"fmt"
	"io"
	"net/http"
	"os"
	"path/filepath"
	"sort"
	"strings"
	"time"

	"github.com/opencontainers/go-digest"

	"github.com/regclient/regclient"
	"github.com/regclient/regclient/config"
	"github.com/regclient/regclient/scheme/reg"
	"github.com/regclient/regclient/types/descriptor"
	"github.com/regclient/regclient/types/ref"
	"github.com/regclient/regclient/zz_verif/evid"
	"github.com/regclient/regclient/zz_verif/rcutil"
	rm "github.com/regclient/regclient/zz_verif/regmodel"
)

const (
	prop        = "C05"
	regHost     = "dest.example.test"
	backendHost = "upload.example.test"
	repoName    = "proj/app"
	otherRepo   = "lib/base"
	defChunk    = 1024 * 1024 // documented default chunk size (reg.defaultBlobChunk)
	reqCap      = 4000
)

// Decl describes the descriptor the caller declares.
type Decl struct {
	// Kind: absent | correct | digest-only | size-only | wrong-digest | size-small | size-large
	Kind     string `json:"kind"`
	Delta    int    `json:"delta,omitempty"`     // size-small / size-large: distance from the true length (>=1)
	NoDigest bool   `json:"no_digest,omitempty"` // size-small / size-large without a digest
	NoSize   bool   `json:"no_size,omitempty"`   // wrong-digest without a size
	Wrong    int    `json:"wrong,omitempty"`     // wrong-digest flavour: 0 one byte flipped, 1 prefix, 2 one byte appended, 3 digest of the empty blob
}

// Feat is the generated registry behaviour (all within the distribution spec).
type Feat struct {
	MountStatus int   `json:"mount_status"`          // anonymous mount: 0 -> 202 session, 201 granted when the host holds the blob, 4xx refused
	Preseed     bool  `json:"preseed,omitempty"`     // the blob already exists in another repository of the host
	ChunkMin    int   `json:"chunk_min,omitempty"`   // OCI-Chunk-Min-Length announced
	EnforceMin  bool  `json:"enforce_min,omitempty"` // a PATCH that follows a chunk shorter than ChunkMin is rejected (only without a partial-acceptance plan)
	LocStyle    int   `json:"loc_style"`             // 0..5 see regmodel.Features.LocStyle; 6 deepening path-relative relocation (reloc.go)
	Accept      []int `json:"accept,omitempty"`      // bytes accepted per PATCH (cyclic, <0 = all)
	PartialMode int   `json:"partial_mode"`          // 0: 202+Range, 1: 416+Location+Range
	RefuseMono  bool  `json:"refuse_mono,omitempty"` // monolithic PUT refused
	Early201    bool  `json:"early201,omitempty"`    // PATCH answers 201
	RangeBytes  bool  `json:"range_bytes,omitempty"` // upload Range headers spelled "bytes=0-N" (Docker registry API) instead of "0-N"
}

// FaultSpec is one transient failure.
type FaultSpec struct {
	AtSeq  int    `json:"at_seq"` // global request ordinal
	Kind   string `json:"kind"`   // status | reset-before | reset-after
	Status int    `json:"status,omitempty"`
}

// Case is the generated unit.
type Case struct {
	Dest        string      `json:"dest"` // reg-strict | reg-lax | layout
	OptChunk    int         `json:"opt_chunk"`
	OptMax      int         `json:"opt_max"`
	HostChunk   int         `json:"host_chunk"`
	HostMax     int         `json:"host_max"`
	Len         int         `json:"len"`
	ContentSeed uint64      `json:"content_seed"`
	Declared    Decl        `json:"declared"`
	Seekable    bool        `json:"seekable"`
	ShortReads  []int       `json:"short_reads,omitempty"` // cyclic cap on the bytes returned per Read (>=1)
	EOFWithData bool        `json:"eof_with_data,omitempty"`
	Algo        string      `json:"algo"` // sha256 | sha512
	Feat        Feat        `json:"feat"`
	Faults      []FaultSpec `json:"faults,omitempty"`
	RetryLimit  int         `json:"retry_limit,omitempty"`
	Origin      string      `json:"origin,omitempty"` // prop | grid (informational)
}

// ---- source reader ----

// content expands a seed into n bytes (splitmix64): position-dependent, so a
// shifted, duplicated or dropped range never goes unnoticed.
func content(seed uint64, n int) []byte {
	out := make([]byte, n)
	x := seed
	var cur uint64
	for i := 0; i < n; i++ {
		if i%8 == 0 {
			x += 0x9e3779b97f4a7c15
			z := x
			z = (z ^ (z >> 30)) * 0xbf58476d1ce4e5b9
			z = (z ^ (z >> 27)) * 0x94d049bb133111eb
			cur = z ^ (z >> 31)
		}
		out[i] = byte(cur >> (8 * uint(i%8)))
	}
	return out
}

type source struct {
	data        []byte
	pos         int
	pat         []int
	pi          int
	eofWithData bool
	delivered   int // total bytes handed out (all passes)
	seeks       int
}

func (s *source) Read(p []byte) (int, error) {
	if len(p) == 0 {
		return 0, nil
	}
	if s.pos >= len(s.data) {
		return 0, io.EOF
	}
	n := len(p)
	if len(s.pat) > 0 {
		k := s.pat[s.pi%len(s.pat)]
		s.pi++
		if k < 1 {
			k = 1
		}
		if k < n {
			n = k
		}
	}
	n = copy(p[:n], s.data[s.pos:])
	s.pos += n
	s.delivered += n
	if s.pos == len(s.data) && s.eofWithData {
		return n, io.EOF
	}
	return n, nil
}

type seekSource struct{ *source }

func (s seekSource) Seek(off int64, whence int) (int64, error) {
	var np int64
	switch whence {
	case io.SeekStart:
		np = off
	case io.SeekCurrent:
		np = int64(s.pos) + off
	case io.SeekEnd:
		np = int64(len(s.data)) + off
	default:
		return int64(s.pos), fmt.Errorf("bad whence %d", whence)
	}
	if np < 0 {
		return int64(s.pos), fmt.Errorf("negative position")
	}
	if np > int64(len(s.data)) {
		np = int64(len(s.data))
	}
	s.pos = int(np)
	s.seeks++
	return np, nil
}

type plainSource struct{ s *source }

func (p plainSource) Read(b []byte) (int, error) { return p.s.Read(b) }

// ---- derived facts (computed independently of the code under test) ----

type facts struct {
	data       []byte
	algo       string
	trueDig    string
	declDig    string // "" = none
	declSize   int64  // 0 = unknown
	contra     bool   // the declaration contradicts the stream
	contraDig  bool
	contraSize bool
	chunkCfg   int  // configured chunk size
	chunkEff   int  // after OCI-Chunk-Min-Length
	maxEff     int  // <=0: no limit
	validDesc  bool // digest and size both usable for a single request
	tryPut     bool // documented precondition of the single PUT
	accept     []int
	faults     []FaultSpec
	retryLimit int
	isReg      bool
	lax        bool
}

func normAccept(a []int) []int {
	if len(a) == 0 {
		return nil
	}
	out := append([]int{}, a...)
	progress := false
	for _, k := range out {
		if k != 0 {
			progress = true
		}
	}
	if !progress {
		// a server that never accepts anything cannot be uploaded to by any client
		out = append(out, -1)
	}
	return out
}

func derive(c Case) facts {
	var f facts
	f.data = content(c.ContentSeed, c.Len)
	f.algo = "sha256"
	if c.Algo == "sha512" {
		f.algo = "sha512"
	}
	f.trueDig = rm.Digest(f.algo, f.data)
	f.isReg = c.Dest != "layout"
	f.lax = c.Dest == "reg-lax"
	n := int64(len(f.data))
	d := c.Declared
	delta := int64(d.Delta)
	if delta < 1 {
		delta = 1
	}
	switch d.Kind {
	case "correct":
		f.declDig, f.declSize = f.trueDig, n
	case "digest-only":
		f.declDig = f.trueDig
	case "size-only":
		f.declSize = n
	case "wrong-digest":
		var other []byte
		switch {
		case d.Wrong == 3 && n > 0:
			other = nil // the digest of the empty blob
		case d.Wrong == 1 && n > 0:
			other = f.data[:n-1]
		case d.Wrong == 0 && n > 0:
			other = append([]byte{}, f.data...)
			other[int(delta)%len(other)] ^= 0x01
		default:
			other = append(append([]byte{}, f.data...), 0x00)
		}
		f.declDig = rm.Digest(f.algo, other)
		if !d.NoSize {
			f.declSize = n
		}
	case "size-small", "size-large":
		if d.Kind == "size-small" && n >= 2 {
			s := n - delta
			if s < 1 {
				s = 1
			}
			f.declSize = s
		} else {
			f.declSize = n + delta
		}
		if !d.NoDigest {
			f.declDig = f.trueDig
		}
	default: // absent
	}
	f.contraDig = f.declDig != "" && f.declDig != f.trueDig
	f.contraSize = f.declSize > 0 && f.declSize != n
	f.contra = f.contraDig || f.contraSize

	f.chunkCfg = defChunk
	if c.HostChunk > 0 {
		f.chunkCfg = c.HostChunk
	} else if c.OptChunk > 0 {
		f.chunkCfg = c.OptChunk
	}
	f.chunkEff = f.chunkCfg
	if f.isReg && c.Feat.ChunkMin > f.chunkEff {
		f.chunkEff = c.Feat.ChunkMin
	}
	f.maxEff = -1
	if c.HostMax != 0 {
		f.maxEff = c.HostMax
	} else if c.OptMax != 0 {
		f.maxEff = c.OptMax
	}
	emptySHA256 := rm.Digest("sha256", nil)
	f.validDesc = (f.declSize > 0 && f.declDig != "") || (f.declSize == 0 && f.declDig == emptySHA256)
	f.tryPut = f.validDesc && !(f.maxEff > 0 && f.declSize > int64(f.maxEff))
	f.accept = normAccept(c.Feat.Accept)
	f.retryLimit = c.RetryLimit
	if f.retryLimit < 3 {
		f.retryLimit = 3
	}
	if f.isReg {
		seen := map[int]bool{}
		for _, fs := range c.Faults {
			if fs.AtSeq < 0 || seen[fs.AtSeq] || len(f.faults) >= 2 {
				continue
			}
			seen[fs.AtSeq] = true
			k := fs
			switch k.Kind {
			case "reset-before":
			case "reset-after":
				if f.lax {
					// a non-verifying server that applied a chunk whose response was lost would
					// append the repeated chunk again; no client can upload correctly to that
					k.Kind = "reset-before"
				}
			default:
				k.Kind = "status"
				switch k.Status {
				case 500, 502, 504, 429, 408:
				default:
					k.Status = 500
				}
			}
			f.faults = append(f.faults, k)
		}
	}
	return f
}

func (f *facts) descriptor() descriptor.Descriptor {
	d := descriptor.Descriptor{Size: f.declSize}
	if f.declDig != "" {
		d.Digest = digest.Digest(f.declDig)
	} else if f.algo == "sha512" {
		_ = d.DigestAlgoPrefer(digest.SHA512)
	}
	return d
}

func lenClass(n, c int) string {
	switch {
	case n == 0:
		return "0"
	case n == 1 && c != 1 && c != 2:
		return "1"
	case n == c-1:
		return "c-1"
	case n == c:
		return "c"
	case n == c+1:
		return "c+1"
	case n == 2*c-1:
		return "2c-1"
	case n == 2*c:
		return "2c"
	case n == 2*c+1:
		return "2c+1"
	case n < c:
		return "<c"
	case n < 2*c:
		return "c..2c"
	case n < 3*c:
		return "2c..3c"
	case n%c == 0:
		return "kc"
	default:
		return ">=3c+r"
	}
}

// observed summarises the request log of a registry case.
type observed struct {
	reqs        int
	patches     int
	partial     bool // some PATCH was accepted only in part
	monoTried   bool // a closing PUT with a body on an empty session was seen
	monoOK      bool
	monoFaulted bool // an injected failure hit a PUT that carried a body
	mounted     bool
	statusGets  int
	faultsHit   int
	resetAfter  bool // an "applied, response lost" failure was actually delivered
	faultOn     []string
	reloc416    int
	capHit      bool
	emptyPutCommitted bool // a body-less closing PUT committed an empty session
	ambiguous0  bool // an upload status GET was answered while nothing had been accepted: "Range: 0-0" cannot say so
}

func observe(m *rm.Model) observed {
	var o observed
	accepted := 0
	for _, e := range m.Entries() {
		o.reqs++
		injected := strings.HasPrefix(e.Fault, "status-") || e.Fault == "reset-before" || e.Fault == "reset-after"
		if injected {
			o.faultsHit++
			o.faultOn = append(o.faultOn, e.Class)
			if e.Fault == "reset-after" {
				o.resetAfter = true
			}
		}
		switch e.Class {
		case "upload-patch":
			o.patches++
			if strings.HasPrefix(e.Note, "accepted ") {
				var a, n, at int
				if _, err := fmt.Sscanf(e.Note, "accepted %d of %d at %d", &a, &n, &at); err == nil {
					accepted += a
					if a < n {
						o.partial = true
					}
				}
			}
			if e.Status == 416 {
				o.reloc416++
			}
		case "upload-put":
			if len(e.Body) == 0 && accepted == 0 && e.Applied && e.Status == 201 {
				o.emptyPutCommitted = true
			}
			if len(e.Body) > 0 {
				o.monoTried = true
				if e.Status == 201 {
					o.monoOK = true
				}
				if injected {
					o.monoFaulted = true
				}
			}
		case "upload-mount":
			if e.Status == 201 {
				o.mounted = true
			}
		case "upload-get":
			o.statusGets++
			if e.Status == 204 && accepted == 0 {
				o.ambiguous0 = true
			}
		}
	}
	o.capHit = m.CapHit()
	return o
}

func errKind(err error) string {
	s := strings.ToLower(err.Error())
	switch {
	case strings.Contains(s, "chunkstart ("):
		return "chunk-offset-mismatch"
	case strings.Contains(s, "digest mismatch") || strings.Contains(s, "unexpected digest"):
		return "digest-mismatch"
	case strings.Contains(s, "size does not match") || strings.Contains(s, "unexpected blob length"):
		return "size-mismatch"
	case strings.Contains(s, "cap exceeded"):
		return "request-cap"
	case strings.Contains(s, "not a seeker"):
		return "not-a-seeker"
	case strings.Contains(s, "contentlength"):
		return "http-framing"
	case strings.Contains(s, "[http 416]") || strings.Contains(s, "range not satisfiable") || strings.Contains(s, "range_invalid"):
		return "http-416"
	case strings.Contains(s, "[http 400]") || strings.Contains(s, "bad request"):
		return "http-400"
	case strings.Contains(s, "[http 404]") || strings.Contains(s, "not found"):
		return "http-404"
	case strings.Contains(s, "retry limit") || strings.Contains(s, "backoff limit"):
		return "retry-limit"
	case strings.Contains(s, "[http 5") || strings.Contains(s, "internal server error") || strings.Contains(s, "gateway"):
		return "http-5xx"
	case strings.Contains(s, "connection reset"):
		return "connection-reset"
	case strings.Contains(s, "[http 4"):
		return "http-4xx"
	}
	return "other"
}

// errWatchdog marks an inconclusive evaluation (never a violation).
const sigWatchdog = "harness-watchdog"

type putResult struct {
	d   descriptor.Descriptor
	err error
}

func runPut(rc *regclient.RegClient, r ref.Ref, d descriptor.Descriptor, rdr io.Reader) (putResult, bool) {
	ctx, cancel := context.WithTimeout(context.Background(), 120*time.Second)
	defer cancel()
	ch := make(chan putResult, 1)
	go func() {
		var res putResult
		defer func() {
			if p := recover(); p != nil {
				res.err = fmt.Errorf("PANIC in BlobPut: %v", p)
			}
			ch <- res
		}()
		res.d, res.err = rc.BlobPut(ctx, r, d, rdr)
	}()
	t := time.NewTimer(150 * time.Second)
	defer t.Stop()
	select {
	case res := <-ch:
		if ctx.Err() != nil {
			return res, true
		}
		return res, false
	case <-t.C:
		return putResult{}, true
	}
}

func dumpLog(m *rm.Model) string {
	var sb strings.Builder
	for _, e := range m.Entries() {
		cr := e.Header.Get("Content-Range")
		fmt.Fprintf(&sb, "  #%d %s %s %s?%s body=%d cr=%q -> %d range=%q loc=%q fault=%q %s\n", e.Seq, e.Host, e.Method, e.Path, e.RawQuery, len(e.Body), cr, e.Status,
			e.RespHeader.Get("Range"), e.RespHeader.Get("Location"), e.Fault, e.Note)
	}
	return sb.String()
}

func check(c Case, ev *evid.Collector) *evid.Violation {
	f := derive(c)
	src := &source{data: f.data, pat: c.ShortReads, eofWithData: c.EOFWithData}
	var rdr io.Reader = plainSource{src}
	if c.Seekable {
		rdr = seekSource{src}
	}
	d := f.descriptor()

	classes := []string{"dest:" + c.Dest, "decl:" + c.Declared.Kind, "algo:" + f.algo}
	if c.Seekable {
		classes = append(classes, "src:seekable")
	} else {
		classes = append(classes, "src:stream")
	}
	if len(c.ShortReads) > 0 {
		classes = append(classes, "src:short-reads")
	}
	if f.contra {
		classes = append(classes, "decl-contradicts")
	}
	classes = append(classes, "len:"+lenClass(c.Len, f.chunkEff))
	if f.maxEff > 0 {
		switch {
		case c.Len > f.maxEff:
			classes = append(classes, "len>max")
		case c.Len == f.maxEff:
			classes = append(classes, "len=max")
		default:
			classes = append(classes, "len<max")
		}
	}
	if c.HostChunk > 0 {
		classes = append(classes, "chunk-via:host")
	} else if c.OptChunk > 0 {
		classes = append(classes, "chunk-via:opt")
	} else {
		classes = append(classes, "chunk-via:default")
	}
	if c.HostMax != 0 {
		classes = append(classes, "max-via:host")
	} else if c.OptMax != 0 {
		classes = append(classes, "max-via:opt")
	}

	if !f.isReg {
		return checkLayout(c, &f, d, rdr, classes, ev)
	}

	// ---- registry destination ----
	m := rm.New()
	m.Cap = reqCap
	h := m.AddHost(regHost)
	ft := &h.Feat
	ft.AnonMountStatus = c.Feat.MountStatus
	ft.ChunkMin = c.Feat.ChunkMin
	locStyle := c.Feat.LocStyle
	if locStyle < 0 || locStyle > 6 {
		locStyle = 0
	}
	ft.LocStyle = locStyle
	if locStyle == 6 {
		ft.LocStyle = 0 // style 6 = deepening path-relative relocation, done by the wrapper in reloc.go
	}
	if ft.LocStyle == 5 {
		ft.UploadBackend = backendHost
		m.AddAlias(backendHost, h)
	}
	ft.PatchAccept = f.accept
	ft.PatchPartialMode = c.Feat.PartialMode & 1
	ft.RefuseMono = c.Feat.RefuseMono
	ft.Early201 = c.Feat.Early201
	ft.Lax = f.lax
	// a registry that announced a minimum chunk length may insist on it: once a further PATCH shows
	// that the previous chunk was not the final one, a previous chunk below the minimum is an error.
	// Not combined with partial acceptance (the remainder of a partly accepted chunk is legitimately short).
	enforceMin := c.Feat.EnforceMin && c.Feat.ChunkMin > 0 && len(f.accept) == 0
	if enforceMin {
		prevLen := map[string]int{}
		h.Intercept = func(_ *rm.Model, _ *rm.Host, e *rm.Entry, _ *http.Request) *rm.Resp {
			if e.Class != "upload-patch" {
				return nil
			}
			sid := e.Ref
			if i := strings.IndexByte(sid, '/'); i >= 0 {
				sid = sid[:i]
			}
			if pl, ok := prevLen[sid]; ok && pl < c.Feat.ChunkMin {
				e.Note = fmt.Sprintf("rejected: previous chunk of %d bytes is below the announced minimum %d", pl, c.Feat.ChunkMin)
				return &rm.Resp{Status: 400, Header: http.Header{"Content-Type": {"application/json"}}, TruncateAt: -1,
					Body: []byte(`{"errors":[{"code":"BLOB_UPLOAD_INVALID","message":"previous chunk below OCI-Chunk-Min-Length"}]}`)}
			}
			prevLen[sid] = len(e.Body)
			return nil
		}
	}
	// the shortcut "anonymous mount of an existing blob" trusts the declared descriptor without
	// reading the stream; it is only offered for a fully correct declaration (see notes)
	preseed := c.Feat.Preseed && !f.contra && f.declDig != ""
	if preseed {
		h.Repo(otherRepo).Blobs[f.trueDig] = append([]byte{}, f.data...)
	}
	h.Repo(repoName)
	for _, fs := range f.faults {
		x := rm.NewFault(fs.Kind)
		x.AtSeq = fs.AtSeq
		x.Status = fs.Status
		m.AddFault(x)
	}
	var ro []reg.Opts
	if c.OptChunk > 0 || c.OptMax != 0 {
		ro = append(ro, reg.WithBlobSize(int64(c.OptChunk), int64(c.OptMax)))
	}
	conf := rcutil.Conf{RetryLimit: f.retryLimit, DelayInit: time.Microsecond, DelayMax: 20 * time.Microsecond, RegOpts: ro}
	if c.HostChunk > 0 || c.HostMax != 0 {
		conf.Hosts = []config.Host{{Name: regHost, Hostname: regHost, BlobChunk: int64(c.HostChunk), BlobMax: int64(c.HostMax)}}
	}
	if locStyle == 6 || c.Feat.RangeBytes {
		dp := &deepen{inner: m, on: locStyle == 6, rangeBytes: c.Feat.RangeBytes, depth: map[string]int{}}
		conf.RegOpts = append(conf.RegOpts, reg.WithHTTPClient(&http.Client{Transport: dp}))
	}
	rc := rcutil.New(m, conf)
	r, err := ref.New(regHost + "/" + repoName)
	if err != nil {
		return &evid.Violation{Sig: "harness-setup", Msg: err.Error()}
	}

	res, timedOut := runPut(rc, r, d, rdr)
	o := observe(m)
	if os.Getenv("VERIF_C05_DUMP") != "" {
		fmt.Fprintf(os.Stderr, "case=%+v\nerr=%v\n%s", c, res.err, dumpLog(m))
	}

	// ---- classification ----
	classes = append(classes, fmt.Sprintf("loc-style:%d", locStyle), fmt.Sprintf("mount:%d", c.Feat.MountStatus))
	if c.Feat.ChunkMin > f.chunkCfg {
		classes = append(classes, "chunk-min-raises")
	} else if c.Feat.ChunkMin > 0 {
		classes = append(classes, "chunk-min-below")
	}
	if len(f.accept) > 0 {
		classes = append(classes, fmt.Sprintf("partial-plan:mode%d", ft.PatchPartialMode))
	}
	if o.partial {
		classes = append(classes, fmt.Sprintf("partial-seen:mode%d", ft.PatchPartialMode))
	}
	if c.Feat.RefuseMono {
		classes = append(classes, "refuse-mono")
	}
	if c.Feat.Early201 {
		classes = append(classes, "early201")
	}
	if enforceMin {
		classes = append(classes, "chunk-min-enforced")
	}
	if c.Feat.RangeBytes {
		classes = append(classes, "range-bytes-prefix")
	}
	if preseed {
		classes = append(classes, "preseeded")
	}
	for _, fs := range f.faults {
		classes = append(classes, "fault-planned:"+fs.Kind)
	}
	for _, cl := range o.faultOn {
		classes = append(classes, "fault-hit:"+cl)
	}
	fallback := o.monoTried && !o.monoOK && o.patches > 0
	switch {
	case o.mounted:
		classes = append(classes, "path:mounted")
	case o.monoOK:
		classes = append(classes, "path:mono")
	case fallback:
		classes = append(classes, "path:fallback")
	case o.monoTried:
		classes = append(classes, "path:mono-failed")
	default:
		classes = append(classes, "path:chunked")
	}
	switch {
	case o.patches >= 8:
		classes = append(classes, "patches:8+")
	case o.patches >= 3:
		classes = append(classes, "patches:3-7")
	case o.patches == 2:
		classes = append(classes, "patches:2")
	case o.patches == 1:
		classes = append(classes, "patches:1")
	}
	if o.statusGets > 0 {
		classes = append(classes, "status-get-seen")
	}

	nt := o.patches >= 2 || o.partial || fallback || f.contra
	faultKey := ""
	for _, fs := range f.faults {
		faultKey += fmt.Sprintf("%s%d@%d,", fs.Kind, fs.Status, fs.AtSeq)
	}
	ntKey := fmt.Sprintf("%s|L%s/%d|c%d|m%d|try%v|%+v|%v|ls%d|pm%d|rm%v|e%v|mt%d/%v|min%d|%s|sk%v|sr%d|%s",
		c.Dest, lenClass(c.Len, f.chunkEff), c.Len, f.chunkEff, f.maxEff, f.tryPut, c.Declared, f.accept, locStyle, ft.PatchPartialMode,
		ft.RefuseMono, b2i(ft.Early201)+2*b2i(c.Feat.RangeBytes), c.Feat.MountStatus, preseed, c.Feat.ChunkMin*2+b2i(enforceMin), faultKey, c.Seekable, len(c.ShortReads), f.algo)

	if timedOut {
		classes = append(classes, "outcome:watchdog")
		ev.Case(false, "", classes...)
		return &evid.Violation{Sig: sigWatchdog, Msg: "BlobPut did not return within the wall-clock watchdog (inconclusive)"}
	}
	if res.err == nil {
		classes = append(classes, "outcome:success")
	} else {
		classes = append(classes, "outcome:error", "error:"+errKind(res.err))
	}
	if o.capHit {
		classes = append(classes, "request-cap-hit")
	}
	ev.Case(nt, ntKey, classes...)
	ev.Sample(map[string]any{"case": c, "requests": o.reqs, "patches": o.patches, "ok": res.err == nil})

	debug := func(v *evid.Violation) *evid.Violation {
		if os.Getenv("VERIF_DEBUG") != "" {
			fmt.Fprintf(os.Stderr, "%v\ncase=%+v\nerr=%v\n%s", v, c, res.err, dumpLog(m))
		}
		return v
	}
	where := fmt.Sprintf("len=%d chunk=%d(eff %d) max=%d decl=%s(digest %q size %d) dest=%s seekable=%v algo=%s feat=%+v faults=%v; %d requests, %d PATCH",
		c.Len, f.chunkCfg, f.chunkEff, f.maxEff, c.Declared.Kind, short(f.declDig), f.declSize, c.Dest, c.Seekable, f.algo, c.Feat, f.faults, o.reqs, o.patches)

	m.Lock()
	blobs := map[string][]byte{}
	for k, v := range h.Repos[repoName].Blobs {
		blobs[k] = v
	}
	m.Unlock()

	if o.ambiguous0 {
		// the distribution spec cannot express "nothing accepted yet" in a Range header; whatever
		// follows an upload status request at offset 0 is outside every clause
		ev.Class("exempt:range-0-0-ambiguity")
		return nil
	}

	// (2) a contradicting declaration: error, and nothing under the declared digest
	if f.contra {
		// a monolithic PUT streams the caller's bytes and relies on the registry's mandatory digest
		// verification; against the deliberately non-verifying (lax) model nothing can be required
		laxMonoExempt := f.lax && f.contraDig && f.tryPut
		if laxMonoExempt {
			ev.Class("exempt:lax-mono-wrong-digest")
			return nil
		}
		_, committed := blobs[f.declDig]
		if f.declDig == rm.Digest("sha256", nil) && f.declSize == 0 && c.Len > 0 && o.emptyPutCommitted && (res.err == nil || committed) {
			// one root cause: the descriptor {digest of the empty blob, size 0} selects the body-less PUT of
			// the empty-blob special case, which commits the empty blob without ever looking at the stream
			return debug(evid.V("empty-digest-declared-stream-never-read", "BlobPut with the declared digest of the empty blob (size 0/unknown) and a stream of %d bytes sent a body-less closing PUT "+
				"without reading the stream (returned error: %v; empty blob committed under the declared digest: %v; bytes read from the stream afterwards: %d): %s", c.Len, res.err, committed, src.delivered, where))
		}
		if res.err == nil {
			what := "size"
			if f.contraDig {
				what = "digest"
			}
			return debug(evid.V("success-despite-wrong-"+what, "BlobPut returned nil (descriptor %s size %d) although the declared %s contradicts the stream (true digest %s, true length %d): %s",
				short(string(res.d.Digest)), res.d.Size, what, short(f.trueDig), c.Len, where))
		}
		if f.declDig != "" {
			if b, ok := blobs[f.declDig]; ok {
				return debug(evid.V("committed-under-declared-digest-despite-mismatch", "BlobPut failed (%v) but the destination now holds %d bytes under the declared digest %s: %s",
					res.err, len(b), short(f.declDig), where))
			}
		}
		return nil
	}

	// (1) success => exact bytes under the returned digest, returned size = length
	if res.err == nil {
		if string(res.d.Digest) != f.trueDig {
			return debug(evid.V("returned-digest-wrong", "BlobPut returned digest %s, the stream hashes to %s: %s", short(string(res.d.Digest)), short(f.trueDig), where))
		}
		got, ok := blobs[string(res.d.Digest)]
		if !ok {
			return debug(evid.V("success-but-blob-absent", "BlobPut returned nil but the destination repository holds nothing under %s: %s", short(f.trueDig), where))
		}
		if string(got) != string(f.data) {
			return debug(evid.V("stored-bytes-differ", "destination holds %d bytes under %s that differ from the %d bytes of the caller's stream (first difference at offset %d): %s",
				len(got), short(f.trueDig), len(f.data), firstDiff(got, f.data), where))
		}
		if res.d.Size != int64(c.Len) {
			return debug(evid.V("returned-size-wrong", "BlobPut returned size %d, the stream has %d bytes: %s", res.d.Size, c.Len, where))
		}
		return nil
	}

	// (3) conformance: well-formed input, conforming server => success
	// outside the clause: "applied, response lost" failures (the client cannot know the new upload
	// state), and more transient failures than the configured retry/backoff limit tolerates
	backoffs := o.faultsHit
	if c.Feat.RefuseMono && f.tryPut && c.Len > 0 {
		backoffs++ // the refused PUT counts against the per-host backoff limit
	}
	if o.resetAfter {
		ev.Class("exempt:applied-response-lost")
		return nil
	}
	if backoffs >= f.retryLimit {
		ev.Class("exempt:beyond-retry-limit")
		return nil
	}
	// a behaviour that forces a rewind needs a seekable source (documented on BlobPut)
	if !c.Seekable && f.tryPut && c.Len > 0 && (c.Feat.RefuseMono || o.monoFaulted) {
		ev.Class("exempt:rewind-needed-not-seekable")
		return nil
	}
	sig := "wellformed-upload-failed-" + errKind(res.err)
	if o.capHit {
		sig = "wellformed-upload-request-cap-exceeded"
	}
	return debug(evid.V(sig, "BlobPut of a well-formed blob to a conforming registry failed: %v: %s", res.err, where))
}

func checkLayout(c Case, f *facts, d descriptor.Descriptor, rdr io.Reader, classes []string, ev *evid.Collector) *evid.Violation {
	dir, err := os.MkdirTemp("", "c05-layout-")
	if err != nil {
		return &evid.Violation{Sig: "harness-setup", Msg: err.Error()}
	}
	defer os.RemoveAll(dir)
	ldir := filepath.Join(dir, "layout")
	r, err := ref.New("ocidir://" + ldir)
	if err != nil {
		return &evid.Violation{Sig: "harness-setup", Msg: err.Error()}
	}
	rc := regclient.New()
	res, timedOut := runPut(rc, r, d, rdr)
	nt := f.contra
	ntKey := fmt.Sprintf("layout|L%d|%+v|sk%v|sr%d|%s", c.Len, c.Declared, c.Seekable, len(c.ShortReads), f.algo)
	if timedOut {
		ev.Case(false, "", append(classes, "outcome:watchdog")...)
		return &evid.Violation{Sig: sigWatchdog, Msg: "layout BlobPut did not return within the wall-clock watchdog (inconclusive)"}
	}
	if res.err == nil {
		classes = append(classes, "outcome:success")
	} else {
		classes = append(classes, "outcome:error", "error:"+errKind(res.err))
	}
	ev.Case(nt, ntKey, classes...)
	ev.Sample(map[string]any{"case": c, "ok": res.err == nil})
	where := fmt.Sprintf("len=%d decl=%s(digest %q size %d) dest=layout seekable=%v algo=%s", c.Len, c.Declared.Kind, short(f.declDig), f.declSize, c.Seekable, f.algo)
	blobFile := func(dig string) string {
		i := strings.IndexByte(dig, ':')
		return filepath.Join(ldir, "blobs", dig[:i], dig[i+1:])
	}
	if f.contra {
		if res.err == nil {
			what := "size"
			if f.contraDig {
				what = "digest"
			}
			return evid.V("layout-success-despite-wrong-"+what, "layout BlobPut returned nil (descriptor %s size %d) although the declared %s contradicts the stream (true digest %s, length %d): %s",
				short(string(res.d.Digest)), res.d.Size, what, short(f.trueDig), c.Len, where)
		}
		if f.declDig != "" {
			if fi, err := os.Lstat(blobFile(f.declDig)); err == nil {
				return evid.V("layout-file-under-declared-digest-despite-mismatch", "layout BlobPut failed (%v) but blobs/%s now exists (%d bytes): %s", res.err, strings.Replace(short(f.declDig), ":", "/", 1), fi.Size(), where)
			}
		}
		return nil
	}
	if res.err != nil {
		return evid.V("layout-wellformed-put-failed-"+errKind(res.err), "BlobPut of a well-formed blob into a fresh OCI layout failed: %v: %s", res.err, where)
	}
	if string(res.d.Digest) != f.trueDig {
		return evid.V("layout-returned-digest-wrong", "layout BlobPut returned digest %s, the stream hashes to %s: %s", short(string(res.d.Digest)), short(f.trueDig), where)
	}
	got, err := os.ReadFile(blobFile(f.trueDig))
	if err != nil {
		return evid.V("layout-success-but-blob-absent", "layout BlobPut returned nil but blobs/<alg>/<hex> of %s cannot be read: %v: %s", short(f.trueDig), err, where)
	}
	if string(got) != string(f.data) {
		return evid.V("layout-stored-bytes-differ", "layout file of %s holds %d bytes that differ from the %d bytes of the caller's stream (first difference at %d): %s",
			short(f.trueDig), len(got), len(f.data), firstDiff(got, f.data), where)
	}
	if res.d.Size != int64(c.Len) {
		return evid.V("layout-returned-size-wrong", "layout BlobPut returned size %d, the stream has %d bytes: %s", res.d.Size, c.Len, where)
	}
	return nil
}

func b2i(b bool) int {
	if b {
		return 1
	}
	return 0
}

func firstDiff(a, b []byte) int {
	n := len(a)
	if len(b) < n {
		n = len(b)
	}
	for i := 0; i < n; i++ {
		if a[i] != b[i] {
			return i
		}
	}
	return n
}

func short(d string) string {
	if len(d) > 23 {
		return d[:23] + "…"
	}
	return d
}

var _ = sort.Ints
