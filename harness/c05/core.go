// Package c05 decides C05: a blob upload commits exactly the caller's bytes
// under their digest, or fails.
//
// A Case is plain data (chunk / max-put / chunk-limit settings, blob length and
// content seed, declared descriptor, source reader behaviour, digest algorithm,
// destination kind and pre-state, reference form and host configuration,
// context state, registry feature set, fault plan, entry point, repetition).
// check() uploads the blob(s) through the public client API (RegClient.BlobPut,
// or RegClient.BlobCopy which reaches it with a blob.Reader source) into an
// in-process model registry (regmodel, strict or lax-but-truthful) or into an
// OCI layout directory and judges every outcome against raw destination storage.
package c05

import (
	"context"
	"encoding/base64"
	"errors"
	"fmt"
	"io"
	"net/http"
	"os"
	"path/filepath"
	"strings"
	"time"

	"github.com/opencontainers/go-digest"

	"github.com/regclient/regclient"
	"github.com/regclient/regclient/config"
	"github.com/regclient/regclient/scheme/reg"
	"github.com/regclient/regclient/types/descriptor"
	"github.com/regclient/regclient/types/ref"
	"github.com/regclient/regclient/zz_verif/evid"
	"github.com/regclient/regclient/zz_verif/rcutil"
	rm "github.com/regclient/regclient/zz_verif/regmodel"
)

const (
	prop        = "C05"
	regHost     = "dest.example.test"
	backendHost = "upload.example.test"
	mirrorHost  = "mirror.example.test"
	srcHost     = "src.example.test"
	repoName    = "proj/app"
	otherRepo   = "lib/base"
	pathPrefix  = "cache/up"
	authUser    = "c05user"
	authPass    = "c05-secret"
	defChunk    = 1024 * 1024        // documented default chunk size (reg.defaultBlobChunk)
	defLimit    = 1024 * 1024 * 1024 // documented default chunk limit (reg.defaultBlobChunkLimit)
	reqCap      = 4000
)

// Decl describes the descriptor the caller declares.
type Decl struct {
	// Kind: absent | correct | digest-only | size-only | wrong-digest | size-small | size-large
	Kind     string `json:"kind"`
	Delta    int    `json:"delta,omitempty"`     // size-small / size-large: distance from the true length (>=1)
	NoDigest bool   `json:"no_digest,omitempty"` // size-small / size-large without a digest
	NoSize   bool   `json:"no_size,omitempty"`   // wrong-digest without a size
	Wrong    int    `json:"wrong,omitempty"`     // wrong-digest flavour: 0 one byte flipped, 1 prefix, 2 one byte appended, 3 digest of the empty blob
	// SizeOfOther: wrong-digest declares the length of the content its digest names (so digest and size agree with
	// each other and both disagree with a stream of another length) instead of the stream's length
	SizeOfOther bool `json:"size_of_other,omitempty"`
	// Data: the descriptor's inline data field: "" none | named: the content the declared digest names (consistent with
	// the declared digest and size) | stream: the stream's bytes | wrong-bytes / wrong-length: inconsistent with the declaration
	Data string `json:"data,omitempty"`
}

// Feat is the generated registry behaviour (all within the distribution spec).
type Feat struct {
	MountStatus int   `json:"mount_status"`          // anonymous mount: 0 -> 202 session, 201 granted when the host holds the blob, 4xx refused
	MountGrant  bool  `json:"mount_grant,omitempty"` // cross-repository mount (mount=&from=) is granted when the source repository holds the blob
	Preseed     bool  `json:"preseed,omitempty"`     // the blob already exists in another repository of the host
	ChunkMin    int   `json:"chunk_min,omitempty"`   // OCI-Chunk-Min-Length announced
	EnforceMin  bool  `json:"enforce_min,omitempty"` // a PATCH that follows a chunk shorter than ChunkMin is rejected (only without a partial-acceptance plan)
	LocStyle    int   `json:"loc_style"`             // 0..5 see regmodel.Features.LocStyle; 6 deepening path-relative relocation (reloc.go)
	Accept      []int `json:"accept,omitempty"`      // bytes accepted per PATCH (cyclic, <0 = all)
	PartialMode int   `json:"partial_mode"`          // 0: 202+Range, 1: 416+Location+Range
	RefuseMono  bool  `json:"refuse_mono,omitempty"` // monolithic PUT refused
	Early201    bool  `json:"early201,omitempty"`    // PATCH answers 201
	RangeBytes  bool  `json:"range_bytes,omitempty"` // upload Range headers spelled "bytes=0-N" (Docker registry API) instead of "0-N"
	// DataRedirect (0 none | 307 | 308): every upload request that carries data (PATCH / PUT with a body) is first
	// answered with that redirect to the same URL plus a marker parameter (a front end passing uploads on); method
	// and body are kept by these two statuses, the request is then served normally
	DataRedirect int `json:"data_redirect,omitempty"`
}

// FaultSpec is one transient failure.
type FaultSpec struct {
	AtSeq  int    `json:"at_seq"` // global request ordinal
	Kind   string `json:"kind"`   // status | reset-before | reset-after
	Status int    `json:"status,omitempty"`
}

// CtxSpec is the state of the context handed to the client.
type CtxSpec struct {
	// Kind: "" live | cancelled | deadline (already expired) | cancel-at-seq (cancelled when request N arrives)
	// | cancel-after-bytes (cancelled once the source has handed out N bytes)
	Kind string `json:"kind,omitempty"`
	N    int    `json:"n,omitempty"`
}

// RefSpec is the reference form and the host configuration the client is given.
type RefSpec struct {
	Form   string `json:"form,omitempty"`   // "" repository only | tag | digest | tag+digest
	Port   bool   `json:"port,omitempty"`   // registry name carries a port
	Prefix bool   `json:"prefix,omitempty"` // config.Host.PathPrefix is set
	NoTLS  bool   `json:"no_tls,omitempty"` // config.Host.TLS = disabled (http scheme)
	Mirror int    `json:"mirror,omitempty"` // 0 none; 1 a mirror with higher priority value; 2 a mirror with lower priority value than the registry
	Auth   bool   `json:"auth,omitempty"`   // registry demands Basic credentials (config.Host User/Pass)
}

// Case is the generated unit.
type Case struct {
	Dest        string      `json:"dest"` // reg-strict | reg-lax | layout
	OptChunk    int         `json:"opt_chunk"`
	OptMax      int         `json:"opt_max"`
	OptLimit    int         `json:"opt_limit,omitempty"`   // reg.WithBlobLimit (0 = not passed)
	LimitFirst  bool        `json:"limit_first,omitempty"` // WithBlobLimit is passed before WithBlobSize
	HostChunk   int         `json:"host_chunk"`
	HostMax     int         `json:"host_max"`
	Len         int         `json:"len"`
	ContentSeed uint64      `json:"content_seed"`
	Declared    Decl        `json:"declared"`
	DescExtra   bool        `json:"desc_extra,omitempty"` // descriptor also carries mediaType / annotations / artifactType
	Seekable    bool        `json:"seekable"`
	SrcKind     string      `json:"src_kind,omitempty"`    // "" (see Seekable) | seek-error: implements io.Seeker but every Seek fails (a pipe on stdin)
	ShortReads  []int       `json:"short_reads,omitempty"` // cyclic cap on the bytes returned per Read (>=1)
	EOFWithData bool        `json:"eof_with_data,omitempty"`
	ReadErrAt   int         `json:"read_err_at,omitempty"` // k+1: the source fails with a non-EOF error after k bytes (every pass); 0 = never
	Algo        string      `json:"algo"`                  // sha256 | sha512
	Feat        Feat        `json:"feat"`
	Faults      []FaultSpec `json:"faults,omitempty"`
	RetryLimit  int         `json:"retry_limit,omitempty"`
	Ctx         CtxSpec     `json:"ctx,omitempty"`
	Ref         RefSpec     `json:"ref,omitempty"`
	Pre         string      `json:"pre,omitempty"`   // "" empty destination | same-blob: the destination already holds the stream's blob | named-blob: it holds the blob the declared digest names | damaged: (layout) the file under the blob's digest holds wrong bytes of the same length
	Again       int         `json:"again,omitempty"` // 0 one upload | 1 the same blob is uploaded a second time | 2 a second, different blob follows (same client)
	Len2        int         `json:"len2,omitempty"`  // Again == 2: length of the second blob
	Entry       string      `json:"entry,omitempty"` // "" BlobPut | copy-layout | copy-reg | copy-repo: RegClient.BlobCopy from a layout / another registry / another repository of the destination registry
	Origin      string      `json:"origin,omitempty"`
}

// ---- source reader ----

// content expands a seed into n bytes (splitmix64): position-dependent, so a
// shifted, duplicated or dropped range never goes unnoticed.
func content(seed uint64, n int) []byte {
	out := make([]byte, n)
	x := seed
	var cur uint64
	for i := 0; i < n; i++ {
		if i%8 == 0 {
			x += 0x9e3779b97f4a7c15
			z := x
			z = (z ^ (z >> 30)) * 0xbf58476d1ce4e5b9
			z = (z ^ (z >> 27)) * 0x94d049bb133111eb
			cur = z ^ (z >> 31)
		}
		out[i] = byte(cur >> (8 * uint(i%8)))
	}
	return out
}

var errSource = errors.New("c05: source stream failed")

type source struct {
	data        []byte
	pos         int
	pat         []int
	pi          int
	eofWithData bool
	errAt       int // >= 0: a non-EOF error is returned once pos reaches errAt (every pass)
	delivered   int // total bytes handed out (all passes)
	seeks       int
	failed      bool   // errSource was returned at least once
	onBytes     func() // called after every read that delivered data
}

func (s *source) Read(p []byte) (int, error) {
	if len(p) == 0 {
		return 0, nil
	}
	end := len(s.data)
	if s.errAt >= 0 && s.errAt < end {
		end = s.errAt
	}
	if s.pos >= end {
		if end < len(s.data) {
			s.failed = true
			return 0, errSource
		}
		return 0, io.EOF
	}
	n := len(p)
	if len(s.pat) > 0 {
		k := s.pat[s.pi%len(s.pat)]
		s.pi++
		if k < 1 {
			k = 1
		}
		if k < n {
			n = k
		}
	}
	n = copy(p[:n], s.data[s.pos:end])
	s.pos += n
	s.delivered += n
	if s.onBytes != nil {
		s.onBytes()
	}
	if s.pos == len(s.data) && s.eofWithData {
		return n, io.EOF
	}
	return n, nil
}

type seekSource struct{ *source }

func (s seekSource) Seek(off int64, whence int) (int64, error) {
	var np int64
	switch whence {
	case io.SeekStart:
		np = off
	case io.SeekCurrent:
		np = int64(s.pos) + off
	case io.SeekEnd:
		np = int64(len(s.data)) + off
	default:
		return int64(s.pos), fmt.Errorf("bad whence %d", whence)
	}
	if np < 0 {
		return int64(s.pos), fmt.Errorf("negative position")
	}
	if np > int64(len(s.data)) {
		np = int64(len(s.data))
	}
	s.pos = int(np)
	s.seeks++
	return np, nil
}

// pipeSource has a Seek method that always fails, like *os.File on a pipe.
type pipeSource struct{ s *source }

func (p pipeSource) Read(b []byte) (int, error) { return p.s.Read(b) }
func (p pipeSource) Seek(off int64, whence int) (int64, error) {
	p.s.seeks++
	return 0, fmt.Errorf("seek |0: illegal seek")
}

type plainSource struct{ s *source }

func (p plainSource) Read(b []byte) (int, error) { return p.s.Read(b) }

// ---- derived facts (computed independently of the code under test) ----

// caseFacts are the facts shared by all uploads of a case.
type caseFacts struct {
	algo       string
	chunkCfg   int // configured chunk size
	chunkEff   int // after OCI-Chunk-Min-Length (capped by the chunk limit)
	limitEff   int
	maxEff     int // <=0: no limit
	accept     []int
	faults     []FaultSpec
	retryLimit int
	isReg      bool
	lax        bool
	entry      string // put | copy-layout | copy-reg | copy-repo
	rewindable bool   // the source can be rewound
}

// putFacts are the facts of one upload.
type putFacts struct {
	full       []byte // the blob the caller means to upload (declarations are made about it)
	data       []byte // the byte sequence the stream really yields (a prefix of full when the source fails)
	srcFails   bool
	trueDig    string
	fullDig    string
	named      []byte // the content the declared digest names (the blob itself unless the digest is wrong)
	declDig    string // "" = none
	declSize   int64  // 0 = unknown
	contra     bool   // the declaration contradicts the stream
	contraDig  bool
	contraSize bool
	validDesc  bool // digest and size both usable for a single request
	tryPut     bool // documented precondition of the single PUT
	kind       string
}

func normAccept(a []int) []int {
	if len(a) == 0 {
		return nil
	}
	out := append([]int{}, a...)
	progress := false
	for _, k := range out {
		if k != 0 {
			progress = true
		}
	}
	if !progress {
		// a server that never accepts anything cannot be uploaded to by any client
		out = append(out, -1)
	}
	return out
}

func deriveCase(c Case) caseFacts {
	var f caseFacts
	f.algo = "sha256"
	if c.Algo == "sha512" {
		f.algo = "sha512"
	}
	f.isReg = c.Dest != "layout"
	f.lax = c.Dest == "reg-lax"
	switch c.Entry {
	case "copy-layout", "copy-reg", "copy-repo":
		f.entry = c.Entry
		if c.Entry == "copy-repo" && !f.isReg {
			f.entry = "copy-layout"
		}
	default:
		f.entry = "put"
	}
	f.rewindable = f.entry != "put" || (c.Seekable && c.SrcKind != "seek-error")
	f.chunkCfg = defChunk
	if c.HostChunk > 0 {
		f.chunkCfg = c.HostChunk
	} else if c.OptChunk > 0 {
		f.chunkCfg = c.OptChunk
	}
	f.limitEff = defLimit
	if c.OptLimit > 0 {
		f.limitEff = c.OptLimit
	}
	f.chunkEff = f.chunkCfg
	if f.isReg && c.Feat.ChunkMin > f.chunkEff {
		f.chunkEff = c.Feat.ChunkMin
		if f.chunkEff > f.limitEff {
			f.chunkEff = f.limitEff
		}
	}
	// single-PUT limit: host value, else option value; reg.WithBlobLimit applied after
	// reg.WithBlobSize raises a positive option value below the limit up to the limit
	optMax := -1
	if c.OptMax != 0 {
		optMax = c.OptMax
	}
	if c.OptLimit > 0 && !c.LimitFirst && optMax > 0 && optMax < c.OptLimit {
		optMax = c.OptLimit
	}
	f.maxEff = optMax
	if c.HostMax != 0 {
		f.maxEff = c.HostMax
	}
	f.accept = normAccept(c.Feat.Accept)
	f.retryLimit = c.RetryLimit
	if f.retryLimit < 3 {
		f.retryLimit = 3
	}
	if f.isReg {
		seen := map[int]bool{}
		for _, fs := range c.Faults {
			if fs.AtSeq < 0 || seen[fs.AtSeq] || len(f.faults) >= 2 {
				continue
			}
			seen[fs.AtSeq] = true
			k := fs
			switch k.Kind {
			case "reset-before":
			case "reset-after":
				if f.lax {
					// a non-verifying server that applied a chunk whose response was lost would
					// append the repeated chunk again; no client can upload correctly to that
					k.Kind = "reset-before"
				}
			default:
				k.Kind = "status"
				switch k.Status {
				case 500, 502, 504, 429, 408:
				default:
					k.Status = 500
				}
			}
			f.faults = append(f.faults, k)
		}
	}
	return f
}

func derivePut(c Case, cf *caseFacts, seed uint64, length int, readErrAt int) putFacts {
	var f putFacts
	f.full = content(seed, length)
	f.data = f.full
	if cf.entry == "put" && readErrAt > 0 && readErrAt-1 < length {
		f.data = f.full[:readErrAt-1]
		f.srcFails = true
	}
	fullDig := rm.Digest(cf.algo, f.full)
	f.fullDig = fullDig
	f.trueDig = fullDig
	if f.srcFails {
		f.trueDig = rm.Digest(cf.algo, f.data)
	}
	n := int64(len(f.full))
	d := c.Declared
	f.kind = d.Kind
	if cf.entry != "put" && d.Kind != "digest-only" {
		// BlobCopy fetches the blob by the caller's descriptor: only a correct one finds it
		f.kind = "correct"
	}
	delta := int64(d.Delta)
	if delta < 1 {
		delta = 1
	}
	switch f.kind {
	case "correct":
		f.declDig, f.declSize = fullDig, n
	case "digest-only":
		f.declDig = fullDig
	case "size-only":
		f.declSize = n
	case "wrong-digest":
		var other []byte
		switch {
		case d.Wrong == 3 && n > 0:
			other = nil // the digest of the empty blob
		case d.Wrong == 1 && n > 0:
			other = f.full[:n-1]
		case d.Wrong == 0 && n > 0:
			other = append([]byte{}, f.full...)
			other[int(delta)%len(other)] ^= 0x01
		default:
			other = append(append([]byte{}, f.full...), 0x00)
		}
		f.declDig = rm.Digest(cf.algo, other)
		f.named = other
		switch {
		case d.SizeOfOther:
			f.declSize = int64(len(other))
		case !d.NoSize:
			f.declSize = n
		}
	case "size-small", "size-large":
		if f.kind == "size-small" && n >= 2 {
			s := n - delta
			if s < 1 {
				s = 1
			}
			f.declSize = s
		} else {
			f.declSize = n + delta
		}
		if !d.NoDigest {
			f.declDig = fullDig
		}
	default: // absent
		f.kind = "absent"
	}
	if f.named == nil && f.kind != "wrong-digest" {
		f.named = f.full
	}
	f.contraDig = f.declDig != "" && f.declDig != f.trueDig
	f.contraSize = f.declSize > 0 && f.declSize != int64(len(f.data))
	f.contra = f.contraDig || f.contraSize
	emptySHA256 := rm.Digest("sha256", nil)
	f.validDesc = (f.declSize > 0 && f.declDig != "") || (f.declSize == 0 && f.declDig == emptySHA256)
	f.tryPut = f.validDesc && !(cf.maxEff > 0 && f.declSize > int64(cf.maxEff))
	if cf.entry != "put" {
		// BlobCopy hands BlobPut the descriptor of the blob.Reader, whose size was completed by the source
		f.tryPut = (n > 0 || f.declDig == emptySHA256) && !(cf.maxEff > 0 && n > int64(cf.maxEff))
	}
	return f
}

func (f *putFacts) descriptor(algo string, extra bool, dataKind string) descriptor.Descriptor {
	d := descriptor.Descriptor{Size: f.declSize}
	switch dataKind {
	case "named":
		d.Data = append([]byte{}, f.named...)
	case "stream":
		d.Data = append([]byte{}, f.full...)
	case "wrong-bytes":
		d.Data = append([]byte{}, f.named...)
		if len(d.Data) > 0 {
			d.Data[len(d.Data)/2] ^= 0x40
		} else {
			d.Data = []byte{0x01}
		}
	case "wrong-length":
		d.Data = append(append([]byte{}, f.named...), 0x7f)
	}
	if f.declDig != "" {
		d.Digest = digest.Digest(f.declDig)
	} else if algo == "sha512" {
		_ = d.DigestAlgoPrefer(digest.SHA512)
	}
	if extra {
		d.MediaType = "application/vnd.oci.image.layer.v1.tar+gzip"
		d.Annotations = map[string]string{"org.example.c05": "x"}
		d.ArtifactType = "application/vnd.example.c05"
	}
	return d
}

func lenClass(n, c int) string {
	switch {
	case n == 0:
		return "0"
	case n == 1 && c != 1 && c != 2:
		return "1"
	case n == c-1:
		return "c-1"
	case n == c:
		return "c"
	case n == c+1:
		return "c+1"
	case n == 2*c-1:
		return "2c-1"
	case n == 2*c:
		return "2c"
	case n == 2*c+1:
		return "2c+1"
	case n < c:
		return "<c"
	case n < 2*c:
		return "c..2c"
	case n < 3*c:
		return "2c..3c"
	case n%c == 0:
		return "kc"
	default:
		return ">=3c+r"
	}
}

// observed summarises the part of the request log that belongs to one upload.
type observed struct {
	reqs              int
	patches           int
	partial           bool // some PATCH was accepted only in part
	monoTried         bool // a closing PUT with a body on an empty session was seen
	monoOK            bool
	monoFaulted       bool // an injected failure hit a PUT that carried a body
	mounted           bool
	statusGets        int
	faultsHit         int
	resetAfter        bool // an "applied, response lost" failure was actually delivered
	faultOn           []string
	capHit            bool
	emptyPutCommitted bool // a body-less closing PUT committed an empty session
	ambiguous0        bool // an upload status GET was answered while nothing had been accepted: "Range: 0-0" cannot say so
	mirrorUploads     int  // upload requests that reached the mirror
	backoffEvents     int  // answers that count against the client's per-host backoff budget
	stall             int  // longest run of consecutive PATCH answers that accepted nothing
}

func observe(entries []*rm.Entry, refuseMono bool) observed {
	var o observed
	accepted := 0
	stall := 0
	for _, e := range entries {
		o.reqs++
		injected := strings.HasPrefix(e.Fault, "status-") || e.Fault == "reset-before" || e.Fault == "reset-after"
		if injected {
			o.faultsHit++
			o.faultOn = append(o.faultOn, e.Class)
			if e.Fault == "reset-after" {
				o.resetAfter = true
			}
		}
		if e.Fault == "cap" {
			o.capHit = true
		}
		// answers of a conforming exchange that the client counts against its per-host backoff budget: injected
		// failures, framing errors, and the refusal of a monolithic PUT. Rejections that only a misbehaving client
		// provokes (digest mismatch at the closing PUT, a chunk below the enforced minimum, ...) are no excuse.
		switch {
		case injected || e.Fault == "framing":
			o.backoffEvents++
		case refuseMono && e.Class == "upload-put" && e.Status == 400 && len(e.Body) > 0 && accepted == 0:
			o.backoffEvents++
		}
		if strings.HasPrefix(e.Class, "upload-") && e.Host == mirrorHost {
			o.mirrorUploads++
		}
		switch e.Class {
		case "upload-patch":
			o.patches++
			if strings.HasPrefix(e.Note, "accepted ") {
				var a, n, at int
				if _, err := fmt.Sscanf(e.Note, "accepted %d of %d at %d", &a, &n, &at); err == nil {
					accepted += a
					if a < n {
						o.partial = true
					}
					if a == 0 {
						stall++
						if stall > o.stall {
							o.stall = stall
						}
					} else {
						stall = 0
					}
				}
			}
		case "upload-put":
			if len(e.Body) == 0 && accepted == 0 && e.Applied && e.Status == 201 {
				o.emptyPutCommitted = true
			}
			if len(e.Body) > 0 {
				o.monoTried = true
				if e.Status == 201 {
					o.monoOK = true
				}
				if injected {
					o.monoFaulted = true
				}
			}
		case "upload-mount":
			if e.Status == 201 {
				o.mounted = true
			}
		case "upload-get":
			o.statusGets++
			if e.Status == 204 && accepted == 0 {
				o.ambiguous0 = true
			}
		}
	}
	return o
}

func errKind(err error) string {
	s := strings.ToLower(err.Error())
	switch {
	case strings.Contains(s, "chunkstart ("):
		return "chunk-offset-mismatch"
	case strings.Contains(s, "digest mismatch") || strings.Contains(s, "unexpected digest"):
		return "digest-mismatch"
	case strings.Contains(s, "size does not match") || strings.Contains(s, "unexpected blob length"):
		return "size-mismatch"
	case strings.Contains(s, "cap exceeded"):
		return "request-cap"
	case strings.Contains(s, "source stream failed"):
		return "source-error"
	case strings.Contains(s, "context canceled") || strings.Contains(s, "deadline exceeded") || strings.Contains(s, "canceled"):
		return "context"
	case strings.Contains(s, "not a seeker") || strings.Contains(s, "illegal seek"):
		return "not-a-seeker"
	case strings.Contains(s, "not making progress"):
		return "no-progress"
	case strings.Contains(s, "contentlength"):
		return "http-framing"
	case strings.Contains(s, "[http 416]") || strings.Contains(s, "range not satisfiable") || strings.Contains(s, "range_invalid"):
		return "http-416"
	case strings.Contains(s, "[http 400]") || strings.Contains(s, "bad request"):
		return "http-400"
	case strings.Contains(s, "[http 401]") || strings.Contains(s, "unauthorized"):
		return "http-401"
	case strings.Contains(s, "[http 404]") || strings.Contains(s, "not found"):
		return "http-404"
	case strings.Contains(s, "retry limit") || strings.Contains(s, "backoff limit"):
		return "retry-limit"
	case strings.Contains(s, "[http 5") || strings.Contains(s, "internal server error") || strings.Contains(s, "gateway"):
		return "http-5xx"
	case strings.Contains(s, "connection reset"):
		return "connection-reset"
	case strings.Contains(s, "[http 4"):
		return "http-4xx"
	}
	return "other"
}

// sigWatchdog marks an inconclusive evaluation (never a violation).
const sigWatchdog = "harness-watchdog"

type putResult struct {
	d        descriptor.Descriptor
	err      error
	panicked string
}

// runOp runs one client call under a wall-clock watchdog.
func runOp(parent context.Context, op func(ctx context.Context) (descriptor.Descriptor, error)) (putResult, bool) {
	ctx, cancel := context.WithTimeout(parent, 120*time.Second)
	defer cancel()
	ch := make(chan putResult, 1)
	go func() {
		var res putResult
		defer func() {
			if p := recover(); p != nil {
				res.panicked = fmt.Sprint(p)
				res.err = fmt.Errorf("PANIC: %v", p)
			}
			ch <- res
		}()
		res.d, res.err = op(ctx)
	}()
	t := time.NewTimer(150 * time.Second)
	defer t.Stop()
	select {
	case res := <-ch:
		if parent.Err() == nil && ctx.Err() != nil {
			return res, true
		}
		return res, false
	case <-t.C:
		return putResult{}, true
	}
}

func dumpLog(entries []*rm.Entry) string {
	var sb strings.Builder
	for _, e := range entries {
		cr := e.Header.Get("Content-Range")
		fmt.Fprintf(&sb, "  #%d %s %s %s?%s body=%d cr=%q -> %d range=%q loc=%q fault=%q %s\n", e.Seq, e.Host, e.Method, e.Path, e.RawQuery, len(e.Body), cr, e.Status,
			e.RespHeader.Get("Range"), e.RespHeader.Get("Location"), e.Fault, e.Note)
	}
	return sb.String()
}

// store is the raw view of the destination.
type store interface {
	get(dig string) ([]byte, bool)
}

type regStore struct {
	m    *rm.Model
	h    *rm.Host
	repo string
}

func (s regStore) get(dig string) ([]byte, bool) {
	s.m.Lock()
	defer s.m.Unlock()
	r, ok := s.h.Repos[s.repo]
	if !ok {
		return nil, false
	}
	b, ok := r.Blobs[dig]
	return b, ok
}

type layoutStore struct{ dir string }

func blobFile(dir, dig string) string {
	i := strings.IndexByte(dig, ':')
	return filepath.Join(dir, "blobs", dig[:i], dig[i+1:])
}

func (s layoutStore) get(dig string) ([]byte, bool) {
	b, err := os.ReadFile(blobFile(s.dir, dig))
	if err != nil {
		return nil, false
	}
	return b, true
}

// env is one prepared case.
type env struct {
	c            Case
	cf           caseFacts
	m            *rm.Model // nil for a layout destination without registry source
	rc           *regclient.RegClient
	tgt          ref.Ref
	st           store
	sigPrefix    string
	ctx          context.Context
	cancel       context.CancelFunc
	fired        *bool // the generated cancellation has happened
	cleanup      []func()
	locStyle     int
	enforce      bool
	dataRedirect bool // data-carrying upload requests are answered with a 307/308 first
	preseed      bool
	auth         bool
	hostName     string
	storeRepo    string
	srcRef       ref.Ref // copy entries
	srcPut       func(dig string, data []byte) error
	prevErr      bool // an earlier upload of this case returned an error
	backoffs     int  // injected failures and refusals delivered so far (they add up in the per-host backoff state)
	dirty        bool
}

func (e *env) close() {
	for _, f := range e.cleanup {
		f()
	}
	if e.cancel != nil {
		e.cancel()
	}
}

func refSuffix(form string, seed uint64) string {
	dig := rm.Digest("sha256", content(seed^0x5bd1e995, 9))
	switch form {
	case "tag":
		return ":v1.2"
	case "digest":
		return "@" + dig
	case "tag+digest":
		return ":v1.2@" + dig
	}
	return ""
}

func setup(c Case) (*env, error) {
	e := &env{c: c, cf: deriveCase(c)}
	cf := &e.cf
	fired := false
	e.fired = &fired
	base := context.Background()
	switch c.Ctx.Kind {
	case "cancelled":
		ctx, cancel := context.WithCancel(base)
		cancel()
		fired = true
		e.ctx, e.cancel = ctx, cancel
	case "deadline":
		ctx, cancel := context.WithDeadline(base, time.Unix(1_000_000, 0))
		fired = true
		e.ctx, e.cancel = ctx, cancel
	default:
		e.ctx, e.cancel = context.WithCancel(base)
	}
	needModel := cf.isReg || cf.entry == "copy-reg"
	var conf rcutil.Conf
	if needModel {
		e.m = rm.New()
		e.m.Cap = reqCap
		if c.Ctx.Kind == "cancel-at-seq" {
			n, cancel := c.Ctx.N, e.cancel
			e.m.OnArrive = func(en *rm.Entry) {
				if en.Seq == n {
					fired = true
					cancel()
				}
			}
		}
	}
	suffix := refSuffix(c.Ref.Form, c.ContentSeed)
	if cf.isReg {
		m := e.m
		e.hostName = regHost
		if c.Ref.Port {
			e.hostName += ":5000"
		}
		h := m.AddHost(e.hostName)
		ft := &h.Feat
		ft.AnonMountStatus = c.Feat.MountStatus
		ft.MountGrant = c.Feat.MountGrant
		ft.ChunkMin = c.Feat.ChunkMin
		e.locStyle = c.Feat.LocStyle
		if e.locStyle < 0 || e.locStyle > 6 {
			e.locStyle = 0
		}
		ft.LocStyle = e.locStyle
		if e.locStyle == 6 {
			ft.LocStyle = 0 // style 6 = deepening path-relative relocation, done by the wrapper in reloc.go
		}
		if ft.LocStyle == 5 {
			ft.UploadBackend = backendHost
			m.AddAlias(backendHost, h)
		}
		ft.PatchAccept = cf.accept
		ft.PatchPartialMode = c.Feat.PartialMode & 1
		ft.RefuseMono = c.Feat.RefuseMono
		ft.Early201 = c.Feat.Early201
		ft.Lax = cf.lax
		var intercepts []func(en *rm.Entry, req *http.Request) *rm.Resp
		// the registry demands Basic credentials; not combined with the hand-over to an upload
		// backend (which host may be given the registry's credentials is C11's subject)
		e.auth = c.Ref.Auth && e.locStyle != 5
		if e.auth {
			want := "Basic " + base64.StdEncoding.EncodeToString([]byte(authUser+":"+authPass))
			intercepts = append(intercepts, func(en *rm.Entry, req *http.Request) *rm.Resp {
				if req.Header.Get("Authorization") == want {
					return nil
				}
				en.Note = "401 challenge"
				return &rm.Resp{Status: 401, Header: http.Header{"Content-Type": {"application/json"}, "Www-Authenticate": {`Basic realm="c05"`}}, TruncateAt: -1,
					Body: []byte(`{"errors":[{"code":"UNAUTHORIZED","message":"authentication required"}]}`)}
			})
		}
		// a registry that announced a minimum chunk length may insist on it: once a further PATCH shows
		// that the previous chunk was not the final one, a previous chunk below the minimum is an error.
		// Not combined with partial acceptance (the remainder of a partly accepted chunk is legitimately short).
		// (not with the deepening relocation wrapper, which rewrites paths outside the model; a PUT is only redirected
		// when its body can be sent again: chunks are buffered by the client, a streamed source cannot be replayed)
		// Only for BlobPut from the caller's own stream: with a BlobCopy source every replay of the body is a new read
		// of the source registry, whose own retry budget then decides the outcome (observed with one injected 500).
		if st := c.Feat.DataRedirect; (st == 307 || st == 308) && e.locStyle != 6 && cf.entry == "put" {
			e.dataRedirect = true
			intercepts = append(intercepts, func(en *rm.Entry, req *http.Request) *rm.Resp {
				if !(en.Class == "upload-patch" || (en.Class == "upload-put" && cf.rewindable)) || len(en.Body) == 0 || strings.Contains(en.RawQuery, "rdok=1") {
					return nil
				}
				q := "rdok=1"
				if en.RawQuery != "" {
					q = en.RawQuery + "&rdok=1"
				}
				en.Note = "data-carrying upload request redirected"
				return &rm.Resp{Status: st, Header: http.Header{"Location": {req.URL.Scheme + "://" + req.URL.Host + en.Path + "?" + q}}, TruncateAt: -1}
			})
		}
		e.enforce = c.Feat.EnforceMin && c.Feat.ChunkMin > 0 && len(cf.accept) == 0
		if e.enforce {
			prevLen := map[string]int{}
			prevCR := map[string]string{}
			min := c.Feat.ChunkMin
			intercepts = append(intercepts, func(en *rm.Entry, req *http.Request) *rm.Resp {
				if en.Class != "upload-patch" {
					return nil
				}
				sid := en.Ref
				if i := strings.IndexByte(sid, '/'); i >= 0 {
					sid = sid[:i]
				}
				cr := req.Header.Get("Content-Range")
				if pc, ok := prevCR[sid]; ok && pc == cr {
					return nil // the same chunk again (retry after a lost response): left to the model's continuity check
				}
				prevCR[sid] = cr
				if pl, ok := prevLen[sid]; ok && pl < min {
					en.Note = fmt.Sprintf("rejected: previous chunk of %d bytes is below the announced minimum %d", pl, min)
					return &rm.Resp{Status: 400, Header: http.Header{"Content-Type": {"application/json"}}, TruncateAt: -1,
						Body: []byte(`{"errors":[{"code":"BLOB_UPLOAD_INVALID","message":"previous chunk below OCI-Chunk-Min-Length"}]}`)}
				}
				prevLen[sid] = len(en.Body)
				return nil
			})
		}
		if len(intercepts) > 0 {
			h.Intercept = func(_ *rm.Model, _ *rm.Host, en *rm.Entry, req *http.Request) *rm.Resp {
				for _, f := range intercepts {
					if r := f(en, req); r != nil {
						return r
					}
				}
				return nil
			}
		}
		pfx := ""
		if c.Ref.Prefix {
			pfx = pathPrefix + "/"
		}
		e.storeRepo = pfx + repoName
		h.Repo(e.storeRepo)
		e.st = regStore{m: m, h: h, repo: e.storeRepo}
		for _, fs := range cf.faults {
			x := rm.NewFault(fs.Kind)
			x.AtSeq = fs.AtSeq
			x.Status = fs.Status
			m.AddFault(x)
		}
		var ro []reg.Opts
		if c.OptLimit > 0 && c.LimitFirst {
			ro = append(ro, reg.WithBlobLimit(int64(c.OptLimit)))
		}
		if c.OptChunk > 0 || c.OptMax != 0 {
			ro = append(ro, reg.WithBlobSize(int64(c.OptChunk), int64(c.OptMax)))
		}
		if c.OptLimit > 0 && !c.LimitFirst {
			ro = append(ro, reg.WithBlobLimit(int64(c.OptLimit)))
		}
		conf = rcutil.Conf{RetryLimit: cf.retryLimit, DelayInit: time.Microsecond, DelayMax: 20 * time.Microsecond, RegOpts: ro}
		if c.HostChunk > 0 || c.HostMax != 0 || c.Ref.Prefix || c.Ref.NoTLS || c.Ref.Mirror != 0 || e.auth {
			hc := config.Host{Name: e.hostName, Hostname: e.hostName, BlobChunk: int64(c.HostChunk), BlobMax: int64(c.HostMax)}
			if c.Ref.Prefix {
				hc.PathPrefix = pathPrefix
			}
			if c.Ref.NoTLS {
				hc.TLS = config.TLSDisabled
			}
			if e.auth {
				hc.User, hc.Pass = authUser, authPass
			}
			conf.Hosts = []config.Host{hc}
			if c.Ref.Mirror != 0 {
				m.AddHost(mirrorHost)
				mc := config.Host{Name: mirrorHost, Hostname: mirrorHost}
				if c.Ref.Mirror == 1 {
					mc.Priority = 10
				} else {
					conf.Hosts[0].Priority = 10
				}
				conf.Hosts[0].Mirrors = []string{mirrorHost}
				conf.Hosts = append(conf.Hosts, mc)
			}
		}
		if e.locStyle == 6 || c.Feat.RangeBytes {
			dp := &deepen{inner: m, on: e.locStyle == 6, rangeBytes: c.Feat.RangeBytes, depth: map[string]int{}}
			conf.RegOpts = append(conf.RegOpts, reg.WithHTTPClient(&http.Client{Transport: dp}))
		}
		r, err := ref.New(e.hostName + "/" + repoName + suffix)
		if err != nil {
			return nil, err
		}
		e.tgt = r
		// sources of the copy entries
		switch cf.entry {
		case "copy-repo":
			sr, err := ref.New(e.hostName + "/" + otherRepo)
			if err != nil {
				return nil, err
			}
			e.srcRef = sr
			srcRepo := pfx + otherRepo
			e.srcPut = func(dig string, data []byte) error {
				m.Lock()
				h.Repo(srcRepo).Blobs[dig] = append([]byte{}, data...)
				m.Unlock()
				return nil
			}
		}
	} else {
		dir, err := os.MkdirTemp("", "c05-layout-")
		if err != nil {
			return nil, err
		}
		e.cleanup = append(e.cleanup, func() { os.RemoveAll(dir) })
		ldir := filepath.Join(dir, "layout")
		r, err := ref.New("ocidir://" + ldir + suffix)
		if err != nil {
			return nil, err
		}
		e.tgt = r
		e.st = layoutStore{dir: ldir}
		e.sigPrefix = "layout-"
		conf = rcutil.Conf{RetryLimit: cf.retryLimit, DelayInit: time.Microsecond, DelayMax: 20 * time.Microsecond}
	}
	switch cf.entry {
	case "copy-reg":
		sh := e.m.AddHost(srcHost)
		sr, err := ref.New(srcHost + "/" + otherRepo)
		if err != nil {
			return nil, err
		}
		e.srcRef = sr
		m := e.m
		e.srcPut = func(dig string, data []byte) error {
			m.Lock()
			sh.Repo(otherRepo).Blobs[dig] = append([]byte{}, data...)
			m.Unlock()
			return nil
		}
	case "copy-layout":
		dir, err := os.MkdirTemp("", "c05-src-")
		if err != nil {
			return nil, err
		}
		e.cleanup = append(e.cleanup, func() { os.RemoveAll(dir) })
		sr, err := ref.New("ocidir://" + dir)
		if err != nil {
			return nil, err
		}
		e.srcRef = sr
		e.srcPut = func(dig string, data []byte) error {
			fn := blobFile(dir, dig)
			if err := os.MkdirAll(filepath.Dir(fn), 0o777); err != nil {
				return err
			}
			return os.WriteFile(fn, data, 0o666)
		}
	}
	if e.m != nil {
		e.rc = rcutil.New(e.m, conf)
	} else {
		e.rc = regclient.New()
	}
	return e, nil
}

// preload puts a blob into the destination's raw storage.
func (e *env) preload(dig string, data []byte) error {
	switch st := e.st.(type) {
	case regStore:
		st.m.Lock()
		st.h.Repo(st.repo).Blobs[dig] = append([]byte{}, data...)
		st.m.Unlock()
	case layoutStore:
		fn := blobFile(st.dir, dig)
		if err := os.MkdirAll(filepath.Dir(fn), 0o777); err != nil {
			return err
		}
		return os.WriteFile(fn, data, 0o666)
	}
	return nil
}

// putOutcome is what one upload contributes to the case record.
type putOutcome struct {
	classes []string
	nt      bool
	key     string
	v       *evid.Violation
	watch   bool
}

func (e *env) onePut(idx int, seed uint64, length int, ev *evid.Collector) putOutcome {
	c, cf := e.c, &e.cf
	var out putOutcome
	readErrAt := 0
	if idx == 0 {
		readErrAt = c.ReadErrAt
	}
	f := derivePut(c, cf, seed, length, readErrAt)
	src := &source{data: f.full, pat: c.ShortReads, eofWithData: c.EOFWithData, errAt: -1}
	if f.srcFails {
		src.errAt = len(f.data)
	}
	if c.Ctx.Kind == "cancel-after-bytes" && cf.entry == "put" {
		n, cancel, fired := c.Ctx.N, e.cancel, e.fired
		src.onBytes = func() {
			if src.delivered >= n && !*fired {
				*fired = true
				cancel()
			}
		}
	}
	var rdr io.Reader = plainSource{src}
	switch {
	case c.SrcKind == "seek-error":
		rdr = pipeSource{src}
	case c.Seekable:
		rdr = seekSource{src}
	}
	d := f.descriptor(cf.algo, c.DescExtra, c.Declared.Data)

	// pre-state
	// the shortcut "anonymous mount of an existing blob" trusts the declared descriptor without reading the
	// stream (documented on BlobPut); a blob that exists on the destination host is therefore only combined
	// with a contradicting declaration when the host does not grant anonymous mounts
	mayExist := !f.contra || !cf.isReg || c.Feat.MountStatus != 201
	if idx == 0 {
		if cf.isReg && c.Feat.Preseed && !f.contra && f.declDig != "" && cf.entry == "put" {
			rs := e.st.(regStore)
			pfx := strings.TrimSuffix(e.storeRepo, repoName)
			rs.m.Lock()
			rs.h.Repo(pfx + otherRepo).Blobs[f.trueDig] = append([]byte{}, f.data...)
			rs.m.Unlock()
			e.preseed = true
		}
		switch {
		case c.Pre == "named-blob" && f.declDig != "" && cf.entry == "put" && (!cf.isReg || !f.contra || c.Feat.MountStatus != 201):
			// the destination already holds the blob B the DECLARED digest names; the stream is B itself or another blob
			if err := e.preload(f.declDig, f.named); err != nil {
				out.v = &evid.Violation{Sig: "harness-setup", Msg: err.Error()}
				return out
			}
			out.classes = append(out.classes, "pre:named-blob")
			if f.contra {
				out.classes = append(out.classes, "pre:declared-blob-present-stream-differs")
				if f.declSize == int64(len(f.named)) && f.declSize > 0 {
					out.classes = append(out.classes, "pre:declared-blob-present-same-size-stream-differs")
				}
			}
		case c.Pre == "damaged" && !cf.isReg && cf.entry == "put" && len(f.full) > 0 && !f.srcFails:
			// another tool left wrong bytes of the right length under the blob's digest name
			bad := append([]byte{}, f.full...)
			bad[len(bad)/2] ^= 0x20
			if err := e.preload(f.fullDig, bad); err != nil {
				out.v = &evid.Violation{Sig: "harness-setup", Msg: err.Error()}
				return out
			}
			out.classes = append(out.classes, "pre:damaged-file-same-length")
		}
		if c.Pre == "same-blob" && mayExist && !f.srcFails {
			if err := e.preload(f.fullDig, f.full); err != nil {
				out.v = &evid.Violation{Sig: "harness-setup", Msg: err.Error()}
				return out
			}
			out.classes = append(out.classes, "pre:same-blob")
		}
	}
	if e.srcPut != nil {
		if err := e.srcPut(f.fullDig, f.full); err != nil {
			out.v = &evid.Violation{Sig: "harness-setup", Msg: err.Error()}
			return out
		}
	}
	var before []byte
	hadBefore := false
	if f.declDig != "" {
		before, hadBefore = e.st.get(f.declDig)
	}

	start := 0
	if e.m != nil {
		start = e.m.Requests()
	}
	firedBefore := *e.fired
	res, timedOut := runOp(e.ctx, func(ctx context.Context) (descriptor.Descriptor, error) {
		if cf.entry == "put" {
			return e.rc.BlobPut(ctx, e.tgt, d, rdr)
		}
		return d, e.rc.BlobCopy(ctx, e.srcRef, e.tgt, d)
	})
	var entries []*rm.Entry
	if e.m != nil {
		entries = e.m.Entries()[start:]
	}
	o := observe(entries, cf.isReg && c.Feat.RefuseMono)
	if os.Getenv("VERIF_C05_DUMP") != "" {
		fmt.Fprintf(os.Stderr, "case=%+v\nput %d err=%v\n%s", c, idx, res.err, dumpLog(entries))
	}
	firedNow := *e.fired
	_ = firedBefore

	// ---- classification ----
	cl := []string{"decl:" + f.kind, "len:" + lenClass(length, cf.chunkEff)}
	if length >= defChunk-1 {
		cl = append(cl, "len:>=1MiB")
	} else if length >= 32767 {
		cl = append(cl, "len:>=32KiB")
	}
	if f.contra {
		cl = append(cl, "decl-contradicts")
	}
	if c.Declared.Data != "" {
		cl = append(cl, "desc-data:"+c.Declared.Data)
		if c.Declared.Data == "named" && f.contra && f.declSize == int64(len(f.named)) && len(f.named) > 0 {
			cl = append(cl, "desc-data:consistent-but-stream-differs")
		}
	}
	if f.srcFails {
		cl = append(cl, "src:fails-mid-stream")
	}
	if cf.maxEff > 0 {
		switch {
		case length > cf.maxEff:
			cl = append(cl, "len>max")
		case length == cf.maxEff:
			cl = append(cl, "len=max")
		default:
			cl = append(cl, "len<max")
		}
	}
	fallback := o.monoTried && !o.monoOK && o.patches > 0
	if cf.isReg {
		if o.partial {
			cl = append(cl, fmt.Sprintf("partial-seen:mode%d", c.Feat.PartialMode&1))
		}
		for _, k := range o.faultOn {
			cl = append(cl, "fault-hit:"+k)
		}
		switch {
		case o.mounted:
			cl = append(cl, "path:mounted")
		case o.monoOK:
			cl = append(cl, "path:mono")
		case fallback:
			cl = append(cl, "path:fallback")
		case o.monoTried:
			cl = append(cl, "path:mono-failed")
		case o.patches > 0 || res.err == nil:
			cl = append(cl, "path:chunked")
		default:
			cl = append(cl, "path:none")
		}
		switch {
		case o.patches >= 8:
			cl = append(cl, "patches:8+")
		case o.patches >= 3:
			cl = append(cl, "patches:3-7")
		case o.patches == 2:
			cl = append(cl, "patches:2")
		case o.patches == 1:
			cl = append(cl, "patches:1")
		}
		if o.statusGets > 0 {
			cl = append(cl, "status-get-seen")
		}
		if o.capHit {
			cl = append(cl, "request-cap-hit")
		}
	}
	if firedNow {
		cl = append(cl, "ctx-cancellation-delivered")
	}
	if timedOut {
		out.classes = append(out.classes, append(cl, "outcome:watchdog")...)
		out.watch = true
		return out
	}
	if res.err == nil {
		cl = append(cl, "outcome:success")
	} else {
		cl = append(cl, "outcome:error", "error:"+errKind(res.err))
	}
	out.classes = append(out.classes, cl...)
	out.nt = o.patches >= 2 || o.partial || fallback || f.contra
	out.key = fmt.Sprintf("L%s/%d|%s|try%v|p%d", lenClass(length, cf.chunkEff), length, f.kind, f.tryPut, b2i(o.partial)+2*b2i(fallback))

	debug := func(v *evid.Violation) *evid.Violation {
		if os.Getenv("VERIF_DEBUG") != "" {
			fmt.Fprintf(os.Stderr, "%v\ncase=%+v\nput %d err=%v\n%s", v, c, idx, res.err, dumpLog(entries))
		}
		return v
	}
	where := fmt.Sprintf("upload #%d entry=%s len=%d(stream yields %d) chunk=%d(eff %d) max=%d limit=%d decl=%s(digest %q size %d) dest=%s src=%s algo=%s ctx=%+v ref=%+v pre=%q feat=%+v faults=%v; %d requests, %d PATCH",
		idx+1, cf.entry, length, len(f.data), cf.chunkCfg, cf.chunkEff, cf.maxEff, c.OptLimit, f.kind, short(f.declDig), f.declSize, c.Dest, srcName(c), cf.algo, c.Ctx, c.Ref, c.Pre, c.Feat, cf.faults, o.reqs, o.patches)
	sp := e.sigPrefix

	// injected failures and refusals add up in the client's per-host backoff state
	e.backoffs += o.backoffEvents

	prevErr := e.prevErr
	if res.err != nil {
		e.prevErr = true
	}
	if res.panicked != "" {
		out.v = debug(evid.V(sp+"panic-in-upload", "the client panicked: %s: %s", res.panicked, where))
		return out
	}
	if o.ambiguous0 || e.dirty {
		// the distribution spec cannot express "nothing accepted yet" in a Range header; whatever
		// follows an upload status request at offset 0 is outside every clause
		e.dirty = e.dirty || o.ambiguous0
		if o.ambiguous0 {
			ev.Class("exempt:range-0-0-ambiguity")
		}
		return out
	}

	// (2) a contradicting declaration: error, and nothing new under the declared digest
	if f.contra {
		// a monolithic PUT streams the caller's bytes and relies on the registry's mandatory digest
		// verification; against the deliberately non-verifying (lax) model nothing can be required
		if cf.lax && f.contraDig && f.tryPut {
			ev.Class("exempt:lax-mono-wrong-digest")
			return out
		}
		if o.mounted {
			// the destination already held a blob under the declared digest and granted the anonymous mount:
			// the documented shortcut of BlobPut trusts the descriptor and never looks at the stream
			ev.Class("exempt:mount-shortcut-trusts-descriptor")
			return out
		}
		var after []byte
		hasAfter := false
		if f.declDig != "" {
			after, hasAfter = e.st.get(f.declDig)
		}
		committed := hasAfter && (!hadBefore || string(after) != string(before))
		if f.declDig == rm.Digest("sha256", nil) && f.declSize == 0 && len(f.data) > 0 && o.emptyPutCommitted && (res.err == nil || committed) {
			// one root cause: the descriptor {digest of the empty blob, size 0} selects the body-less PUT of
			// the empty-blob special case, which commits the empty blob without ever looking at the stream
			out.v = debug(evid.V("empty-digest-declared-stream-never-read", "BlobPut with the declared digest of the empty blob (size 0/unknown) and a stream of %d bytes sent a body-less closing PUT "+
				"without reading the stream (returned error: %v; empty blob committed under the declared digest: %v; bytes read from the stream afterwards: %d): %s", len(f.data), res.err, committed, src.delivered, where))
			return out
		}
		if res.err == nil {
			what := "size"
			if f.contraDig {
				what = "digest"
			}
			out.v = debug(evid.V(sp+"success-despite-wrong-"+what, "upload returned nil (descriptor %s size %d) although the declared %s contradicts the stream (true digest %s, true length %d): %s",
				short(string(res.d.Digest)), res.d.Size, what, short(f.trueDig), len(f.data), where))
			return out
		}
		if committed {
			sig := "committed-under-declared-digest-despite-mismatch"
			if !cf.isReg {
				sig = "layout-file-under-declared-digest-despite-mismatch"
			}
			out.v = debug(evid.V(sig, "upload failed (%v) but the destination now holds %d bytes under the declared digest %s (before: present=%v): %s",
				res.err, len(after), short(f.declDig), hadBefore, where))
		}
		return out
	}

	// (1) success => exact bytes under the returned digest, returned size = length
	if res.err == nil {
		retDig, retSize := string(res.d.Digest), res.d.Size
		if cf.entry != "put" {
			retDig, retSize = f.trueDig, int64(len(f.data)) // BlobCopy returns no descriptor
		}
		if retDig != f.trueDig {
			out.v = debug(evid.V(sp+"returned-digest-wrong", "upload returned digest %s, the stream hashes to %s: %s", short(retDig), short(f.trueDig), where))
			return out
		}
		got, ok := e.st.get(retDig)
		if !ok {
			out.v = debug(evid.V(sp+"success-but-blob-absent", "upload returned nil but the destination holds nothing under %s (upload requests that reached the mirror: %d): %s", short(f.trueDig), o.mirrorUploads, where))
			return out
		}
		if string(got) != string(f.data) {
			out.v = debug(evid.V(sp+"stored-bytes-differ", "destination holds %d bytes under %s that differ from the %d bytes of the caller's stream (first difference at offset %d): %s",
				len(got), short(f.trueDig), len(f.data), firstDiff(got, f.data), where))
			return out
		}
		if retSize != int64(len(f.data)) {
			out.v = debug(evid.V(sp+"returned-size-wrong", "upload returned size %d, the stream has %d bytes: %s", retSize, len(f.data), where))
			return out
		}
		return out
	}

	// (3) conformance: well-formed input, conforming destination => success
	// outside the clause: a failing source, a cancelled / expired context, "applied, response lost"
	// failures (the client cannot know the new upload state), and more transient failures than the
	// configured retry/backoff limit tolerates
	if f.srcFails {
		ev.Class("exempt:source-failed")
		return out
	}
	if firedNow {
		ev.Class("exempt:context-cancelled")
		return out
	}
	if o.resetAfter {
		ev.Class("exempt:applied-response-lost")
		return out
	}
	if e.backoffs >= cf.retryLimit || (prevErr && o.backoffEvents > 0) {
		// after an earlier upload of this client failed, the per-host backoff count it left behind is unknown
		// (body read errors and framing errors never reach the model's log)
		ev.Class("exempt:beyond-retry-limit")
		return out
	}
	// a behaviour that forces a rewind needs a source that can be rewound (documented on BlobPut)
	if cf.isReg && !cf.rewindable && f.tryPut && len(f.data) > 0 && (c.Feat.RefuseMono || o.monoFaulted) {
		ev.Class("exempt:rewind-needed-not-seekable")
		return out
	}
	// the registry insists on a minimum chunk length above the client's configured memory limit for a chunk
	if e.enforce && c.Feat.ChunkMin > cf.limitEff {
		ev.Class("exempt:chunk-min-above-limit")
		return out
	}
	if o.capHit && o.stall <= 10 {
		// the harness's own request budget ran out while the upload was still advancing
		ev.Class("exempt:request-cap-while-advancing")
		return out
	}
	sig := sp + "wellformed-upload-failed-" + errKind(res.err)
	if !cf.isReg && cf.entry == "put" {
		sig = "layout-wellformed-put-failed-" + errKind(res.err)
	}
	if o.capHit {
		sig = "wellformed-upload-request-cap-exceeded"
	}
	out.v = debug(evid.V(sig, "upload of a well-formed blob to a conforming destination failed: %v: %s", res.err, where))
	return out
}

func srcName(c Case) string {
	switch {
	case c.Entry != "" && c.Entry != "put":
		return "blob.Reader"
	case c.SrcKind == "seek-error":
		return "seek-error"
	case c.Seekable:
		return "seekable"
	}
	return "stream"
}

func check(c Case, ev *evid.Collector) *evid.Violation {
	e, err := setup(c)
	if err != nil {
		return &evid.Violation{Sig: "harness-setup", Msg: err.Error()}
	}
	defer e.close()
	cf := &e.cf

	classes := []string{"dest:" + c.Dest, "algo:" + cf.algo, "entry:" + cf.entry, "src:" + srcName(c)}
	if len(c.ShortReads) > 0 && cf.entry == "put" {
		classes = append(classes, "src:short-reads")
	}
	if c.HostChunk > 0 {
		classes = append(classes, "chunk-via:host")
	} else if c.OptChunk > 0 {
		classes = append(classes, "chunk-via:opt")
	} else {
		classes = append(classes, "chunk-via:default")
	}
	if c.HostMax != 0 {
		classes = append(classes, "max-via:host")
	} else if c.OptMax != 0 {
		classes = append(classes, "max-via:opt")
	}
	if c.OptLimit > 0 && cf.isReg {
		classes = append(classes, "blob-limit-set")
		if c.Feat.ChunkMin > c.OptLimit {
			classes = append(classes, "blob-limit-caps-chunk-min")
		}
	}
	if c.DescExtra {
		classes = append(classes, "desc-extra-fields")
	}
	if c.Ctx.Kind != "" {
		classes = append(classes, "ctx:"+c.Ctx.Kind)
	}
	if c.Ref.Form != "" {
		classes = append(classes, "ref:"+c.Ref.Form)
	}
	if c.Again > 0 {
		classes = append(classes, fmt.Sprintf("again:%d", c.Again))
	}
	if cf.isReg {
		classes = append(classes, fmt.Sprintf("loc-style:%d", e.locStyle), fmt.Sprintf("mount:%d", c.Feat.MountStatus))
		if c.Feat.ChunkMin > cf.chunkCfg {
			classes = append(classes, "chunk-min-raises")
		} else if c.Feat.ChunkMin > 0 {
			classes = append(classes, "chunk-min-below")
		}
		if len(cf.accept) > 0 {
			classes = append(classes, fmt.Sprintf("partial-plan:mode%d", c.Feat.PartialMode&1))
		}
		if c.Feat.RefuseMono {
			classes = append(classes, "refuse-mono")
		}
		if c.Feat.Early201 {
			classes = append(classes, "early201")
		}
		if e.enforce {
			classes = append(classes, "chunk-min-enforced")
		}
		if e.dataRedirect {
			classes = append(classes, fmt.Sprintf("data-request-redirected-%d", c.Feat.DataRedirect))
		}
		if c.Feat.RangeBytes {
			classes = append(classes, "range-bytes-prefix")
		}
		if c.Feat.MountGrant && cf.entry == "copy-repo" {
			classes = append(classes, "cross-repo-mount-granted")
		}
		for _, fs := range cf.faults {
			classes = append(classes, "fault-planned:"+fs.Kind)
		}
		if c.Ref.Port {
			classes = append(classes, "host:port")
		}
		if c.Ref.Prefix {
			classes = append(classes, "host:path-prefix")
		}
		if c.Ref.NoTLS {
			classes = append(classes, "host:tls-disabled")
		}
		if c.Ref.Mirror != 0 {
			classes = append(classes, fmt.Sprintf("host:mirror-%d", c.Ref.Mirror))
		}
		if e.auth {
			classes = append(classes, "host:basic-auth")
		}
	}

	type spec struct {
		seed uint64
		len  int
	}
	puts := []spec{{c.ContentSeed, c.Len}}
	switch c.Again {
	case 1:
		puts = append(puts, spec{c.ContentSeed, c.Len})
	case 2:
		l2 := c.Len2
		if l2 < 0 {
			l2 = 0
		}
		puts = append(puts, spec{c.ContentSeed + 0x9e37, l2})
	}
	nt := false
	key := ""
	var viol *evid.Violation
	watch := false
	for i, p := range puts {
		out := e.onePut(i, p.seed, p.len, ev)
		classes = append(classes, out.classes...)
		nt = nt || out.nt
		key += out.key + ";"
		if out.watch {
			watch = true
			break
		}
		if out.v != nil {
			viol = out.v
			break
		}
	}
	if e.preseed {
		classes = append(classes, "preseeded")
	}
	if watch {
		ev.Case(false, "", classes...)
		return &evid.Violation{Sig: sigWatchdog, Msg: "the upload did not return within the wall-clock watchdog (inconclusive)"}
	}
	faultKey := ""
	for _, fs := range cf.faults {
		faultKey += fmt.Sprintf("%s%d@%d,", fs.Kind, fs.Status, fs.AtSeq)
	}
	ntKey := fmt.Sprintf("%s|%s|%s|c%d|m%d|lim%d|%+v|%v|ls%d|pm%d|rm%v|e%d|mt%d/%v/%v|min%d|%s|%s|sr%d|err%d|%s|ctx%+v|ref%+v|pre%s|ag%d|x%v",
		c.Dest, cf.entry, key, cf.chunkEff, cf.maxEff, c.OptLimit, c.Declared, cf.accept, e.locStyle, c.Feat.PartialMode&1,
		c.Feat.RefuseMono, b2i(c.Feat.Early201)+2*b2i(c.Feat.RangeBytes), c.Feat.MountStatus, e.preseed, c.Feat.MountGrant, c.Feat.ChunkMin*2+b2i(e.enforce), faultKey,
		srcName(c), len(c.ShortReads), c.ReadErrAt, cf.algo, c.Ctx, c.Ref, c.Pre, c.Again, c.DescExtra)
	ev.Case(nt, ntKey, classes...)
	ev.Sample(map[string]any{"case": c, "violation": viol != nil})
	return viol
}

func b2i(b bool) int {
	if b {
		return 1
	}
	return 0
}

func firstDiff(a, b []byte) int {
	n := len(a)
	if len(b) < n {
		n = len(b)
	}
	for i := 0; i < n; i++ {
		if a[i] != b[i] {
			return i
		}
	}
	return n
}

func short(d string) string {
	if len(d) > 23 {
		return d[:23] + "…"
	}
	return d
}
