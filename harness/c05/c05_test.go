package c05

import (
	"fmt"
	"os"
	"strconv"
	"testing"

	"pgregory.net/rapid"

	"github.com/regclient/regclient/zz_verif/evid"
)

func TestMain(m *testing.M) {
	code := m.Run()
	evid.Flush(code)
	os.Exit(code)
}

// ---- generator ----

func genChunk(t *rapid.T, label string) int {
	return rapid.OneOf(rapid.IntRange(1, 8), rapid.IntRange(1, 8), rapid.IntRange(1, 64)).Draw(t, label)
}

// rare is true with probability 2^-k. rapid's integer ranges are heavily biased towards their lower
// end, so small probabilities are composed from fair coin flips instead.
func rare(t *rapid.T, label string, k int) bool {
	for i := 0; i < k; i++ {
		if !rapid.Bool().Draw(t, label) {
			return false
		}
	}
	return true
}

func gen(t *rapid.T) Case {
	var c Case
	c.Origin = "prop"
	c.Dest = rapid.SampledFrom([]string{"reg-strict", "reg-strict", "reg-strict", "reg-lax", "reg-lax", "layout"}).Draw(t, "dest")
	c.Algo = rapid.SampledFrom([]string{"sha256", "sha256", "sha512"}).Draw(t, "algo")

	// chunk size through reg.WithBlobSize, config.Host.BlobChunk, both (host wins) or not at all
	chunk := genChunk(t, "chunk")
	switch rapid.SampledFrom([]string{"opt", "opt", "host", "host", "both", "none"}).Draw(t, "chunkVia") {
	case "opt":
		c.OptChunk = chunk
	case "host":
		c.HostChunk = chunk
	case "both":
		c.HostChunk = chunk
		c.OptChunk = genChunk(t, "optChunkShadowed")
	default:
		if rapid.IntRange(0, 9).Draw(t, "reallyDefault") > 0 {
			c.OptChunk = chunk
		}
	}
	ceff := defChunk
	if c.HostChunk > 0 {
		ceff = c.HostChunk
	} else if c.OptChunk > 0 {
		ceff = c.OptChunk
	}
	isReg := c.Dest != "layout"
	if isReg {
		switch rapid.IntRange(0, 9).Draw(t, "chunkMinKind") {
		case 0, 1:
			c.Feat.ChunkMin = rapid.IntRange(1, 96).Draw(t, "chunkMin")
		case 2:
			c.Feat.ChunkMin = ceff + rapid.IntRange(-1, 3).Draw(t, "chunkMinNear")
			if c.Feat.ChunkMin < 0 || ceff == defChunk {
				c.Feat.ChunkMin = 0
			}
		}
		if c.Feat.ChunkMin > ceff {
			ceff = c.Feat.ChunkMin
		}
		c.Feat.EnforceMin = c.Feat.ChunkMin > 0 && rapid.Bool().Draw(t, "enforceMin")
	}
	if ceff == defChunk {
		ceff = chunk // lengths stay small; everything fits one chunk
	}

	// single-PUT limit
	maxv := 0
	switch rapid.IntRange(0, 9).Draw(t, "maxKind") {
	case 0, 1, 2:
		maxv = 0
	case 3:
		maxv = -1
	case 4, 5, 6:
		maxv = rapid.SampledFrom([]int{ceff - 1, ceff, ceff + 1, 2 * ceff, 2*ceff + 1, 3*ceff + 1}).Draw(t, "maxNearChunk")
		if maxv < 1 {
			maxv = 1
		}
	default:
		maxv = rapid.IntRange(1, 200).Draw(t, "max")
	}
	switch rapid.SampledFrom([]string{"opt", "host", "both"}).Draw(t, "maxVia") {
	case "opt":
		c.OptMax = maxv
	case "host":
		c.HostMax = maxv
	default:
		c.HostMax = maxv
		c.OptMax = rapid.SampledFrom([]int{-1, 1, 7, 300}).Draw(t, "optMaxShadowed")
		if maxv == 0 {
			// host value 0 defers to the option
			maxv = c.OptMax
		}
	}

	// length around every boundary of the chunk size and the single-PUT limit
	cands := []int{0, 1, ceff - 1, ceff, ceff + 1, 2*ceff - 1, 2 * ceff, 2*ceff + 1, 3*ceff + rapid.IntRange(0, ceff).Draw(t, "r")}
	if maxv > 0 {
		cands = append(cands, maxv-1, maxv, maxv+1, maxv+rapid.IntRange(1, 2*ceff+1).Draw(t, "overMax"))
	}
	if rapid.IntRange(0, 7).Draw(t, "lenFree") == 0 {
		c.Len = rapid.IntRange(0, 4*ceff+1).Draw(t, "lenAny")
	} else {
		c.Len = rapid.SampledFrom(cands).Draw(t, "len")
	}
	if c.Len < 0 {
		c.Len = 0
	}
	if c.Len > 420 {
		c.Len = 420
	}
	c.ContentSeed = rapid.Uint64().Draw(t, "contentSeed")

	// declared descriptor
	c.Declared.Kind = rapid.SampledFrom([]string{"absent", "absent", "correct", "correct", "correct", "digest-only", "size-only",
		"wrong-digest", "size-small", "size-large"}).Draw(t, "decl")
	switch c.Declared.Kind {
	case "wrong-digest":
		c.Declared.Wrong = rapid.IntRange(0, 3).Draw(t, "wrongFlavour")
		c.Declared.NoSize = rapid.IntRange(0, 3).Draw(t, "wrongNoSize") == 0
		c.Declared.Delta = rapid.IntRange(0, 64).Draw(t, "wrongPos")
		c.Declared.SizeOfOther = rapid.Bool().Draw(t, "sizeOfOther")
	case "size-small", "size-large":
		c.Declared.Delta = rapid.OneOf(rapid.Just(1), rapid.IntRange(1, 70)).Draw(t, "sizeDelta")
		c.Declared.NoDigest = rapid.IntRange(0, 2).Draw(t, "sizeNoDigest") == 0
	}

	// inline data field of the descriptor
	if rare(t, "descData", 2) {
		c.Declared.Data = rapid.SampledFrom([]string{"named", "named", "stream", "wrong-bytes", "wrong-length"}).Draw(t, "descDataKind")
	}

	if c.Declared.Kind == "wrong-digest" && c.Declared.Data == "" && rapid.Bool().Draw(t, "descDataNamesOther") {
		c.Declared.Data = "named" // descriptor consistent in itself (digest, size, data), the stream is another blob
	}

	// source
	c.Seekable = rapid.Bool().Draw(t, "seekable")
	if rapid.Bool().Draw(t, "shortReads") {
		c.ShortReads = rapid.SliceOfN(rapid.OneOf(rapid.IntRange(1, 3), rapid.IntRange(1, 70)), 1, 5).Draw(t, "readPattern")
	}
	c.EOFWithData = rapid.Bool().Draw(t, "eofWithData")
	if rare(t, "seekFails", 3) {
		c.SrcKind = "seek-error" // e.g. a pipe on stdin: has a Seek method, every call fails
	}

	// rare: lengths on the 32 KiB boundaries of io.Copy / transport buffers, and two chunks of the default 1 MiB size
	switch {
	case rare(t, "big", 6):
		c.Len = rapid.SampledFrom([]int{32767, 32768, 32769, 65536, 65537, 98305}).Draw(t, "bigLen")
		c.HostChunk = 0
		c.OptChunk = rapid.SampledFrom([]int{0, 8192, 16384, 32767, 32768, 32769, 65536}).Draw(t, "bigChunk")
		ceff = c.OptChunk
		if ceff == 0 {
			ceff = defChunk
		}
		if c.Feat.ChunkMin > 0 {
			c.Feat.ChunkMin = rapid.SampledFrom([]int{4096, 20000, 40000}).Draw(t, "bigChunkMin")
			if c.Feat.ChunkMin > ceff {
				ceff = c.Feat.ChunkMin
			}
		}
		bm := rapid.SampledFrom([]int{0, -1, 1000, 32768, 65536}).Draw(t, "bigMax")
		if c.HostMax != 0 {
			c.HostMax = bm
		} else {
			c.OptMax = bm
		}
		if ceff > 98305 {
			ceff = 98305
		}
		for i, k := range c.ShortReads {
			c.ShortReads[i] = k * 997
		}
	case rare(t, "MiB", 10):
		c.HostChunk, c.OptChunk, c.Feat.ChunkMin = 0, 0, 0
		c.Len = defChunk + rapid.SampledFrom([]int{-1, 0, 1, 4097}).Draw(t, "defChunkLen")
		ceff = defChunk
		if len(c.ShortReads) > 0 {
			c.ShortReads = []int{4096, 70000}
		}
	}

	// the source fails in the middle of the stream
	if c.Len > 0 && rare(t, "readErr", 4) {
		c.ReadErrAt = rapid.IntRange(1, c.Len).Draw(t, "readErrAt")
	}
	c.DescExtra = rare(t, "descExtra", 3)

	// context state
	switch {
	case rare(t, "ctxCancelled", 5):
		c.Ctx.Kind = "cancelled"
	case rare(t, "ctxDeadline", 5):
		c.Ctx.Kind = "deadline"
	case rare(t, "ctxAtSeq", 4):
		c.Ctx = CtxSpec{Kind: "cancel-at-seq", N: rapid.OneOf(rapid.IntRange(0, 6), rapid.IntRange(0, 40)).Draw(t, "cancelAtSeq")}
	case rare(t, "ctxAfterBytes", 4):
		c.Ctx = CtxSpec{Kind: "cancel-after-bytes", N: rapid.IntRange(0, c.Len).Draw(t, "cancelAfterBytes")}
	}

	// reference form, destination pre-state, repetition, entry point
	c.Ref.Form = rapid.SampledFrom([]string{"", "", "", "tag", "digest", "tag+digest"}).Draw(t, "refForm")
	if rare(t, "pre", 3) {
		c.Pre = rapid.SampledFrom([]string{"same-blob", "named-blob", "named-blob", "damaged"}).Draw(t, "preKind")
	} else if c.Declared.Kind == "wrong-digest" && rapid.Bool().Draw(t, "preNamesOther") {
		c.Pre = "named-blob" // the destination holds the blob the (wrong) declaration names
	}
	if c.Dest == "layout" && c.Pre == "" && rare(t, "preDamaged", 3) {
		c.Pre = "damaged"
	}
	if rare(t, "again", 2) {
		c.Again = rapid.SampledFrom([]int{1, 2, 2}).Draw(t, "againKind")
	}
	if c.Again == 2 {
		c.Len2 = rapid.SampledFrom(cands).Draw(t, "len2")
		if c.Len2 < 0 {
			c.Len2 = 0
		}
		if c.Len2 > 420 {
			c.Len2 = 420
		}
	}
	if rare(t, "entry", 3) {
		c.Entry = rapid.SampledFrom([]string{"copy-layout", "copy-reg", "copy-repo"}).Draw(t, "entryKind")
	}

	if !isReg {
		return c
	}

	// client options and host configuration
	if rare(t, "blobLimit", 3) {
		lim := rapid.SampledFrom([]int{1, ceff - 1, ceff, ceff + 1, c.Feat.ChunkMin - 1, c.Feat.ChunkMin, 2 * ceff, 1000, 100000}).Draw(t, "limit")
		if lim < 1 {
			lim = 1
		}
		c.OptLimit = lim
		c.LimitFirst = rapid.Bool().Draw(t, "limitFirst")
	}
	c.Ref.Port = rare(t, "port", 3)
	c.Ref.Prefix = rare(t, "prefix", 4)
	c.Ref.NoTLS = rare(t, "noTLS", 3)
	if rare(t, "mirror", 3) {
		c.Ref.Mirror = rapid.SampledFrom([]int{1, 2}).Draw(t, "mirrorPrio")
	}
	c.Ref.Auth = rare(t, "auth", 3)
	c.Feat.MountGrant = rapid.Bool().Draw(t, "mountGrant")

	// registry behaviour
	c.Feat.MountStatus = rapid.SampledFrom([]int{0, 0, 201, 201, 400, 403, 404, 405, 429}).Draw(t, "mountStatus")
	c.Feat.Preseed = rapid.IntRange(0, 3).Draw(t, "preseed") == 0
	c.Feat.LocStyle = rapid.IntRange(0, 6).Draw(t, "locStyle")
	if rapid.IntRange(0, 9).Draw(t, "partial") < 6 {
		cc := ceff
		acc := rapid.OneOf(
			rapid.SampledFrom([]int{-1, -1, 0, 1, cc - 1, cc, cc / 2, cc + 1}),
			rapid.IntRange(0, cc),
		)
		c.Feat.Accept = rapid.SliceOfN(acc, 1, 5).Draw(t, "accept")
		for i, a := range c.Feat.Accept {
			if a < -1 {
				c.Feat.Accept[i] = -1
			}
		}
		c.Feat.PartialMode = rapid.IntRange(0, 1).Draw(t, "partialMode")
		if c.Len > 2000 {
			// keep the number of requests of a big blob within the request cap
			for i, a := range c.Feat.Accept {
				if a >= 0 && a < c.Len/40 {
					c.Feat.Accept[i] = c.Len/40 + a
				}
			}
		}
	}
	c.Feat.RefuseMono = rapid.IntRange(0, 9).Draw(t, "refuseMono") < 3
	c.Feat.Early201 = rapid.IntRange(0, 9).Draw(t, "early201") < 2
	c.Feat.RangeBytes = rapid.IntRange(0, 9).Draw(t, "rangeBytes") < 2
	c.Feat.DataRedirect = rapid.SampledFrom([]int{0, 0, 0, 0, 0, 0, 0, 307, 308}).Draw(t, "dataRedirect")
	c.RetryLimit = rapid.SampledFrom([]int{3, 3, 4, 5}).Draw(t, "retryLimit")
	nf := rapid.SampledFrom([]int{0, 0, 0, 0, 0, 1, 1, 1, 2, 2}).Draw(t, "nFaults")
	for i := 0; i < nf; i++ {
		var fs FaultSpec
		fs.AtSeq = rapid.OneOf(rapid.IntRange(0, 6), rapid.IntRange(0, 20), rapid.IntRange(0, 200)).Draw(t, "faultAt")
		fs.Kind = rapid.SampledFrom([]string{"status", "status", "reset-before", "reset-after"}).Draw(t, "faultKind")
		if fs.Kind == "status" {
			fs.Status = rapid.SampledFrom([]int{500, 502, 504, 429, 408}).Draw(t, "faultStatus")
		}
		c.Faults = append(c.Faults, fs)
	}
	return c
}

// ---- tests ----

// judge runs one case; returns (violation to fail with, inconclusive message).
func judge(c Case, ev *evid.Collector) (*evid.Violation, string) {
	v := evid.Guard(func() *evid.Violation { return check(c, ev) })
	if v != nil && v.Sig == sigWatchdog {
		return nil, v.Msg
	}
	return v, ""
}

func TestVerifProp(t *testing.T) {
	ev := evid.For(prop)
	rapid.Check(t, func(rt *rapid.T) {
		c := gen(rt)
		v, inc := judge(c, ev)
		if inc != "" {
			// inconclusive: fail without a failure record
			rt.Fatalf("INCONCLUSIVE: %s", inc)
		}
		if ev.Report(v, c) {
			rt.Fatalf("%v", v)
		}
	})
}

func TestVerifReplayDir(t *testing.T) {
	ev := evid.For(prop)
	for _, f := range evid.ReplayFiles() {
		var c Case
		if err := evid.LoadCaseFile(f, &c); err != nil {
			t.Fatalf("%s: %v", f, err)
		}
		v, inc := judge(c, ev)
		if inc != "" {
			t.Fatalf("INCONCLUSIVE: %s: %s", f, inc)
		}
		if ev.Report(v, c) {
			t.Errorf("%s: %v", f, v)
		}
	}
}

func TestVerifReplay(t *testing.T) {
	ev := evid.For(prop)
	var c Case
	ok, err := evid.LoadReplay(&c)
	if !ok {
		t.Skip("no VERIF_REPLAY")
	}
	if err != nil {
		t.Fatal(err)
	}
	for i := 0; i < 3; i++ {
		v, inc := judge(c, ev)
		if inc != "" {
			t.Fatalf("INCONCLUSIVE: %s", inc)
		}
		if ev.Report(v, c) {
			t.Fatalf("%v", v)
		}
	}
}

// TestVerifGrid sweeps the chunk loop exhaustively: every blob length 0..3c+1 for every chunk size
// c in 1..cmax, the server accepting exactly a (0..c) bytes of the k-th PATCH (k = 0,1,2) and
// everything of all other PATCH requests, answered 202+Range or 416+Location+Range, against the
// strict and the lax model, with the descriptor absent (chunked upload with unknown size) or
// correct with a single-PUT limit below the length (chunked upload with the size check).
func TestVerifGrid(t *testing.T) {
	ev := evid.For(prop)
	nshards, _ := strconv.Atoi(os.Getenv("VERIF_NSHARDS"))
	if nshards < 1 {
		nshards = 1
	}
	shard, _ := strconv.Atoi(os.Getenv("VERIF_SHARD_INDEX"))
	scale, err := strconv.ParseFloat(os.Getenv("VERIF_SCALE"), 64)
	if err != nil || scale <= 0 {
		scale = 1
	}
	cmax := 4
	if evid.Tier() == "thorough" {
		cmax = 8
	}
	full := scale >= 1
	idx, done, fails := 0, 0, 0
	for c := 1; c <= cmax; c++ {
		for L := 0; L <= 3*c+1; L++ {
			for a := 0; a <= c; a++ {
				for k := 0; k <= 2; k++ {
					for mode := 0; mode <= 1; mode++ {
						for _, dest := range []string{"reg-strict", "reg-lax"} {
							for _, decl := range []string{"absent", "correct"} {
								idx++
								if idx%nshards != shard {
									continue
								}
								if !full && float64(idx%1000) >= scale*1000 {
									continue
								}
								cs := Case{Origin: "grid", Dest: dest, HostChunk: c, Len: L, ContentSeed: uint64(idx), Seekable: true, Algo: "sha256", RetryLimit: 3}
								cs.Declared.Kind = decl
								if decl == "correct" {
									cs.HostMax = 1
									if L <= 1 {
										// the single PUT is the only route for a valid descriptor of <= max bytes;
										// keep the chunk loop in play with the digest-only form
										cs.Declared.Kind = "digest-only"
									}
								}
								plan := make([]int, 0, 3*c+8)
								for i := 0; i < k; i++ {
									plan = append(plan, -1)
								}
								plan = append(plan, a)
								for len(plan) < 3*c+8+k {
									plan = append(plan, -1)
								}
								cs.Feat.Accept = plan
								cs.Feat.PartialMode = mode
								v, inc := judge(cs, ev)
								if inc != "" {
									t.Fatalf("INCONCLUSIVE: %s", inc)
								}
								done++
								if ev.Report(v, cs) {
									fails++
									if fails <= 10 {
										t.Errorf("grid c=%d L=%d a=%d k=%d mode=%d %s %s: %v", c, L, a, k, mode, dest, decl, v)
									}
								}
							}
						}
					}
				}
			}
		}
	}
	ev.Add("grid_cases", done)
	ev.Set("grid_space", fmt.Sprintf("length 0..3c+1 x chunk c 1..%d x accepted bytes a 0..c at PATCH k 0..2 x {202+Range, 416+Location+Range} x {strict, lax} x {descriptor absent, declared with single-PUT limit 1}", cmax))
	if evid.Tier() == "thorough" && full {
		ev.Set("exhaustive_grid", fails == 0)
	} else if full {
		ev.Set("exhaustive_grid_c_le4", fails == 0)
	}
}
