package c05

import (
	"bytes"
	"fmt"
	"io"
	"net/http"
	"strings"
	"sync"
)

// deepen is a transport wrapper that turns the model's plain upload sessions into
// "Location style 6": after every response that carries an upload Location the
// session lives one directory deeper, and the Location is the path-relative
// reference "x/<id>" (RFC 3986 §5), which resolves against the URL of the request
// that is being answered (RFC 9110 §10.2.2):
//
//	POST  /v2/<repo>/blobs/uploads/            -> Location: x/u1    (= …/uploads/x/u1)
//	PATCH /v2/<repo>/blobs/uploads/x/u1        -> Location: x/u1    (= …/uploads/x/x/u1)
//	PATCH /v2/<repo>/blobs/uploads/x/x/u1      -> Location: x/u1    (= …/uploads/x/x/x/u1)
//
// Only the latest URL of a session is valid. The inner model (Location style 0)
// sees the plain URLs, so its log, fault plan and storage are unaffected.
//
// Independently of that, rangeBytes rewrites every upload "Range: 0-N" response header into the
// Docker registry API spelling "Range: bytes=0-N" (the form regclient's own test transcripts use).
type deepen struct {
	inner      http.RoundTripper
	on         bool // deepening relocation active
	rangeBytes bool
	mu         sync.Mutex
	depth      map[string]int // session id -> current depth
	stale      int
}

func (d *deepen) fixRange(resp *http.Response) {
	if d.rangeBytes {
		if r := resp.Header.Get("Range"); r != "" && !strings.HasPrefix(r, "bytes=") {
			resp.Header.Set("Range", "bytes="+r)
		}
	}
}

const uploadsSeg = "/blobs/uploads/"

func (d *deepen) RoundTrip(req *http.Request) (*http.Response, error) {
	p := req.URL.Path
	i := strings.LastIndex(p, uploadsSeg)
	if i < 0 {
		return d.inner.RoundTrip(req)
	}
	if !d.on {
		resp, err := d.inner.RoundTrip(req)
		if err == nil {
			d.fixRange(resp)
		}
		return resp, err
	}
	rest := p[i+len(uploadsSeg):]
	depth := 0
	for strings.HasPrefix(rest, "x/") {
		rest = rest[2:]
		depth++
	}
	id := rest
	if id != "" {
		d.mu.Lock()
		cur, known := d.depth[id]
		d.mu.Unlock()
		if known && depth != cur && req.Method != "DELETE" {
			d.mu.Lock()
			d.stale++
			d.mu.Unlock()
			if req.Body != nil {
				_, _ = io.Copy(io.Discard, req.Body)
				req.Body.Close()
			}
			body := []byte(`{"errors":[{"code":"BLOB_UPLOAD_UNKNOWN","message":"upload session moved"}]}`)
			return &http.Response{
				Status: "404 Not Found", StatusCode: 404, Proto: "HTTP/1.1", ProtoMajor: 1, ProtoMinor: 1,
				Header:        http.Header{"Content-Type": {"application/json"}, "Content-Length": {fmt.Sprint(len(body))}},
				ContentLength: int64(len(body)), Body: io.NopCloser(bytes.NewReader(body)), Request: req,
			}, nil
		}
	}
	// forward with the plain URL
	inReq := req.Clone(req.Context())
	u := *req.URL
	u.Path = p[:i+len(uploadsSeg)] + id
	u.RawPath = ""
	inReq.URL = &u
	resp, err := d.inner.RoundTrip(inReq)
	if err != nil {
		return resp, err
	}
	resp.Request = req
	d.fixRange(resp)
	loc := resp.Header.Get("Location")
	if j := strings.LastIndex(loc, uploadsSeg); j >= 0 && req.Method != "PUT" && req.Method != "DELETE" {
		sid := loc[j+len(uploadsSeg):]
		q := ""
		if k := strings.IndexByte(sid, '?'); k >= 0 {
			sid, q = sid[:k], sid[k:]
		}
		if sid != "" {
			d.mu.Lock()
			if id == "" {
				d.depth[sid] = 1
			} else {
				d.depth[sid] = depth + 1
			}
			d.mu.Unlock()
			resp.Header.Set("Location", "x/"+sid+q)
		}
	}
	return resp, nil
}
