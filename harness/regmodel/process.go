package regmodel

import (
	"encoding/json"
	"fmt"
	"net/http"
	"net/url"
	"sort"
	"strconv"
	"strings"
)

func classify(e *Entry, h *Host) {
	p := e.Path
	if h != nil && h.Kind == "storage" {
		e.Class = "storage-" + strings.ToLower(e.Method)
		rest := strings.TrimPrefix(p, "/store/")
		if i := strings.LastIndexByte(rest, '/'); i >= 0 {
			e.Repo, e.Ref = rest[:i], rest[i+1:]
		}
		return
	}
	if h != nil && h.Kind == "external" {
		e.Class = "external-" + strings.ToLower(e.Method)
		return
	}
	if p == "/v2/" || p == "/v2" {
		e.Class = "ping"
		return
	}
	if !strings.HasPrefix(p, "/v2/") {
		e.Class = "other"
		return
	}
	rest := p[len("/v2/"):]
	if rest == "_catalog" {
		e.Class = "catalog"
		return
	}
	lm := strings.ToLower(e.Method)
	if i := strings.LastIndex(rest, "/blobs/uploads/"); i >= 0 {
		e.Repo = rest[:i]
		e.Ref = rest[i+len("/blobs/uploads/"):]
		if e.Ref == "" {
			e.Class = "upload-post"
			if strings.Contains(e.RawQuery, "mount=") {
				e.Class = "upload-mount"
			}
		} else {
			e.Class = "upload-" + lm
		}
		return
	}
	if strings.HasSuffix(rest, "/blobs/uploads") {
		e.Repo = strings.TrimSuffix(rest, "/blobs/uploads")
		e.Class = "upload-post"
		if strings.Contains(e.RawQuery, "mount=") {
			e.Class = "upload-mount"
		}
		return
	}
	if i := strings.LastIndex(rest, "/blobs/"); i >= 0 {
		e.Repo, e.Ref, e.Class = rest[:i], rest[i+len("/blobs/"):], "blob-"+lm
		return
	}
	if i := strings.LastIndex(rest, "/manifests/"); i >= 0 {
		e.Repo, e.Ref, e.Class = rest[:i], rest[i+len("/manifests/"):], "manifest-"+lm
		return
	}
	if strings.HasSuffix(rest, "/tags/list") {
		e.Repo, e.Class = strings.TrimSuffix(rest, "/tags/list"), "tags-list"
		return
	}
	if i := strings.LastIndex(rest, "/referrers/"); i >= 0 {
		e.Repo, e.Ref, e.Class = rest[:i], rest[i+len("/referrers/"):], "referrers"
		return
	}
	e.Class = "other"
}

func (m *Model) process(h *Host, e *Entry, req *http.Request) *Resp {
	switch h.Kind {
	case "storage":
		return m.storageGet(h, e, req)
	case "external":
		b, ok := h.Files[e.Path]
		if !ok {
			return errResp(404, "NOT_FOUND", "no such file")
		}
		return m.serveBytes(e, req, b, "application/octet-stream", "", false)
	}
	switch e.Class {
	case "ping":
		r := newResp(200)
		r.Header.Set("Docker-Distribution-API-Version", "registry/2.0")
		r.Body = []byte("{}")
		return r
	case "catalog":
		return m.catalog(h, e, req)
	case "blob-head", "blob-get":
		return m.blobGet(h, e, req)
	case "blob-delete":
		return m.blobDelete(h, e)
	case "upload-post", "upload-mount":
		if e.Method != "POST" {
			return errResp(405, "UNSUPPORTED", "method")
		}
		return m.uploadPost(h, e, req)
	case "upload-patch":
		return m.uploadPatch(h, e, req)
	case "upload-get":
		return m.uploadStatus(h, e, req)
	case "upload-put":
		return m.uploadPut(h, e, req)
	case "upload-delete":
		return m.uploadDelete(h, e, req)
	case "manifest-head", "manifest-get":
		return m.manifestGet(h, e, req)
	case "manifest-put":
		return m.manifestPut(h, e, req)
	case "manifest-delete":
		return m.manifestDelete(h, e)
	case "tags-list":
		return m.tagsList(h, e, req)
	case "referrers":
		return m.referrers(h, e, req)
	}
	return errResp(404, "NOT_FOUND", "unknown endpoint "+e.Path)
}

// serveBytes answers a GET/HEAD with optional Range support.
func (m *Model) serveBytes(e *Entry, req *http.Request, b []byte, ct, dig string, noRange bool) *Resp {
	r := newResp(200)
	r.Header.Set("Content-Type", ct)
	if dig != "" {
		r.Header.Set("Docker-Content-Digest", dig)
	}
	rng := req.Header.Get("Range")
	if rng != "" && !noRange && req.Method == "GET" {
		spec := strings.TrimPrefix(rng, "bytes=")
		parts := strings.SplitN(spec, "-", 2)
		a, errA := strconv.ParseInt(parts[0], 10, 64)
		bEnd := int64(len(b)) - 1
		if len(parts) == 2 && parts[1] != "" {
			if v, err := strconv.ParseInt(parts[1], 10, 64); err == nil && v < bEnd {
				bEnd = v
			}
		}
		if errA != nil || a < 0 || a >= int64(len(b)) || bEnd < a {
			rr := errResp(416, "RANGE_INVALID", "range not satisfiable")
			rr.Header.Set("Content-Range", fmt.Sprintf("bytes */%d", len(b)))
			return rr
		}
		r.Status = 206
		r.Header.Set("Content-Range", fmt.Sprintf("bytes %d-%d/%d", a, bEnd, len(b)))
		r.Body = b[a : bEnd+1]
		return r
	}
	r.Body = b
	return r
}

func (m *Model) storageGet(h *Host, e *Entry, req *http.Request) *Resp {
	if h.Origin == nil {
		return errResp(404, "NOT_FOUND", "no origin")
	}
	repo, ok := h.Origin.Repos[e.Repo]
	if !ok {
		return errResp(404, "NOT_FOUND", "no repo")
	}
	b, ok := repo.Blobs[e.Ref]
	if !ok {
		return errResp(404, "NOT_FOUND", "no blob")
	}
	return m.serveBytes(e, req, b, "application/octet-stream", "", h.Feat.NoRange)
}

func (m *Model) blobGet(h *Host, e *Entry, req *http.Request) *Resp {
	repo, ok := h.Repos[e.Repo]
	if !ok {
		return errResp(404, "NAME_UNKNOWN", "repository unknown")
	}
	b, ok := repo.Blobs[e.Ref]
	if !ok {
		return errResp(404, "BLOB_UNKNOWN", "blob unknown")
	}
	if h.Feat.BlobRedirect != "" && req.Method == "GET" {
		st := h.Feat.RedirectStatus
		if st == 0 {
			st = 307
		}
		r := newResp(st)
		r.Header.Set("Location", "https://"+h.Feat.BlobRedirect+"/store/"+e.Repo+"/"+e.Ref)
		return r
	}
	return m.serveBytes(e, req, b, "application/octet-stream", e.Ref, h.Feat.NoRange)
}

func (m *Model) blobDelete(h *Host, e *Entry) *Resp {
	if h.Feat.NoBlobDelete {
		return errResp(405, "UNSUPPORTED", "blob delete disabled")
	}
	repo, ok := h.Repos[e.Repo]
	if !ok {
		return errResp(404, "NAME_UNKNOWN", "repository unknown")
	}
	if _, ok := repo.Blobs[e.Ref]; !ok {
		return errResp(404, "BLOB_UNKNOWN", "blob unknown")
	}
	delete(repo.Blobs, e.Ref)
	e.Applied = true
	return newResp(202)
}

func (m *Model) uploadLocation(h *Host, e *Entry, u *Upload) string {
	loc := "/v2/" + u.Repo + "/blobs/uploads/" + u.ID
	switch h.Feat.LocStyle {
	case 4:
		// the session moves into a deeper directory and every Location is path-relative
		// to the URL of the request that is being answered (RFC 9110 §10.2.2)
		u.State++
		if e.Class == "upload-post" || e.Class == "upload-mount" || !strings.Contains(e.Path, "/part/") {
			if strings.HasSuffix(e.Path, "/") {
				return u.ID + "/part/" + strconv.Itoa(u.State) + "?state=s" + strconv.Itoa(u.State)
			}
			// request URL is .../uploads/<id> (or .../uploads): relative to its directory
			if strings.HasSuffix(e.Path, "/uploads") {
				return "uploads/" + u.ID + "/part/" + strconv.Itoa(u.State) + "?state=s" + strconv.Itoa(u.State)
			}
			return u.ID + "/part/" + strconv.Itoa(u.State) + "?state=s" + strconv.Itoa(u.State)
		}
		return strconv.Itoa(u.State) + "?state=s" + strconv.Itoa(u.State)
	case 5:
		// the session is handed to an upload backend host; later Locations are absolute-path references
		u.State++
		if h.Feat.UploadBackend != "" && e.Host != h.Feat.UploadBackend {
			return "https://" + h.Feat.UploadBackend + loc + "?state=s" + strconv.Itoa(u.State)
		}
		return loc + "?state=s" + strconv.Itoa(u.State)
	case 1:
		loc = e.Scheme + "://" + h.Name + loc
	case 2:
		loc += "?state=s" + strconv.Itoa(u.State)
	case 3:
		u.State++
		loc += "?state=s" + strconv.Itoa(u.State)
	}
	return loc
}

func rangeHeader(n int) string {
	if n <= 0 {
		return "0-0"
	}
	return "0-" + strconv.Itoa(n-1)
}

func (m *Model) uploadPost(h *Host, e *Entry, req *http.Request) *Resp {
	q := req.URL.Query()
	repo := h.Repo(e.Repo)
	if d := q.Get("mount"); d != "" {
		from := q.Get("from")
		if from != "" {
			h.mountSeen++
			if fr, ok := h.Repos[from]; ok && h.Feat.MountGrant && h.mountSeen > h.Feat.MountRefuseFirst {
				if b, ok := fr.Blobs[d]; ok {
					repo.Blobs[d] = b
					e.Applied = true
					e.Note = "mounted"
					r := newResp(201)
					r.Header.Set("Location", "/v2/"+e.Repo+"/blobs/"+d)
					r.Header.Set("Docker-Content-Digest", d)
					return r
				}
			}
		} else {
			switch st := h.Feat.AnonMountStatus; {
			case st == 201:
				for _, rn := range sortedKeys(h.Repos) {
					if b, ok := h.Repos[rn].Blobs[d]; ok {
						repo.Blobs[d] = b
						e.Applied = true
						e.Note = "mounted-anon"
						r := newResp(201)
						r.Header.Set("Location", "/v2/"+e.Repo+"/blobs/"+d)
						r.Header.Set("Docker-Content-Digest", d)
						return r
					}
				}
			case st >= 400:
				return errResp(st, "UNSUPPORTED", "anonymous mount refused")
			}
		}
	}
	// optional single POST upload (digest= with body) is not offered; open a session
	h.uploadSeq++
	u := &Upload{ID: "u" + strconv.Itoa(h.uploadSeq), Repo: e.Repo}
	h.Uploads[u.ID] = u
	e.Applied = true
	e.Note = "session " + u.ID
	r := newResp(202)
	r.Header.Set("Location", m.uploadLocation(h, e, u))
	r.Header.Set("Docker-Upload-UUID", u.ID)
	r.Header.Set("Range", "0-0")
	if h.Feat.ChunkMin > 0 {
		r.Header.Set("OCI-Chunk-Min-Length", strconv.Itoa(h.Feat.ChunkMin))
	}
	return r
}

func (m *Model) findUpload(h *Host, e *Entry, req *http.Request) (*Upload, *Resp) {
	id := e.Ref
	if i := strings.IndexByte(id, '/'); i >= 0 {
		id = id[:i]
	}
	u, ok := h.Uploads[id]
	if ok && h.Feat.LocStyle == 4 && u.State > 0 {
		// only the latest relocated URL is valid
		if want := u.ID + "/part/" + strconv.Itoa(u.State); e.Ref != want {
			return nil, errResp(404, "BLOB_UPLOAD_UNKNOWN", "upload moved to "+want)
		}
	}
	if ok && h.Feat.LocStyle == 5 && h.Feat.UploadBackend != "" && e.Host != h.Feat.UploadBackend {
		return nil, errResp(404, "BLOB_UPLOAD_UNKNOWN", "upload lives on "+h.Feat.UploadBackend)
	}
	if !ok || u.Repo != e.Repo {
		return nil, errResp(404, "BLOB_UPLOAD_UNKNOWN", "upload unknown")
	}
	if h.Feat.LocStyle >= 2 {
		if st := req.URL.Query().Get("state"); st != "s"+strconv.Itoa(u.State) {
			return nil, errResp(400, "BLOB_UPLOAD_INVALID", "stale upload state "+st)
		}
	}
	return u, nil
}

func (m *Model) uploadPatch(h *Host, e *Entry, req *http.Request) *Resp {
	u, er := m.findUpload(h, e, req)
	if er != nil {
		return er
	}
	body := e.Body
	offset := len(u.Data)
	outOfOrder := func() *Resp {
		r := errResp(416, "RANGE_INVALID", "out of order chunk")
		r.Header.Set("Location", m.uploadLocation(h, e, u))
		r.Header.Set("Range", rangeHeader(len(u.Data)))
		r.Header.Set("Docker-Upload-UUID", u.ID)
		return r
	}
	if cr := req.Header.Get("Content-Range"); cr != "" && !h.Feat.Lax {
		parts := strings.SplitN(strings.TrimPrefix(cr, "bytes "), "-", 2)
		a, errA := strconv.Atoi(parts[0])
		b := -1
		var errB error
		if len(parts) == 2 {
			b, errB = strconv.Atoi(parts[1])
		}
		if errA != nil || errB != nil || a != offset || b-a+1 != len(body) {
			return outOfOrder()
		}
	}
	accept := len(body)
	if n := len(h.Feat.PatchAccept); n > 0 {
		k := h.Feat.PatchAccept[u.Patch%n]
		if k >= 0 && k < accept {
			accept = k
		}
		if accept == 0 && offset == 0 && len(body) > 0 {
			accept = 1 // "0-0" cannot express "nothing accepted yet"
		}
	}
	u.Patch++
	u.Data = append(u.Data, body[:accept]...)
	if accept > 0 {
		e.Applied = true
	}
	e.Note = fmt.Sprintf("accepted %d of %d at %d", accept, len(body), offset)
	if accept < len(body) && h.Feat.PatchPartialMode == 1 {
		return outOfOrder()
	}
	st := 202
	if h.Feat.Early201 {
		st = 201
	}
	r := newResp(st)
	r.Header.Set("Location", m.uploadLocation(h, e, u))
	r.Header.Set("Range", rangeHeader(len(u.Data)))
	r.Header.Set("Docker-Upload-UUID", u.ID)
	return r
}

func (m *Model) uploadStatus(h *Host, e *Entry, req *http.Request) *Resp {
	u, er := m.findUpload(h, e, req)
	if er != nil {
		return er
	}
	r := newResp(204)
	r.Header.Set("Location", m.uploadLocation(h, e, u))
	r.Header.Set("Range", rangeHeader(len(u.Data)))
	r.Header.Set("Docker-Upload-UUID", u.ID)
	return r
}

func (m *Model) uploadPut(h *Host, e *Entry, req *http.Request) *Resp {
	u, er := m.findUpload(h, e, req)
	if er != nil {
		return er
	}
	dig := req.URL.Query().Get("digest")
	if dig == "" {
		return errResp(400, "DIGEST_INVALID", "digest missing")
	}
	if h.Feat.RefuseMono && len(u.Data) == 0 && len(e.Body) > 0 {
		return errResp(400, "UNSUPPORTED", "monolithic upload refused")
	}
	if cr := req.Header.Get("Content-Range"); cr != "" && !h.Feat.Lax && len(e.Body) > 0 {
		parts := strings.SplitN(strings.TrimPrefix(cr, "bytes "), "-", 2)
		a, errA := strconv.Atoi(parts[0])
		if errA != nil || a != len(u.Data) {
			r := errResp(416, "RANGE_INVALID", "out of order chunk")
			r.Header.Set("Location", m.uploadLocation(h, e, u))
			r.Header.Set("Range", rangeHeader(len(u.Data)))
			return r
		}
	}
	all := append(append([]byte{}, u.Data...), e.Body...)
	if !h.Feat.Lax {
		if !ValidDigest(dig) {
			return errResp(400, "DIGEST_INVALID", "digest invalid")
		}
		if Digest(AlgOf(dig), all) != dig {
			// the session stays open, as in the reference implementation
			return errResp(400, "DIGEST_INVALID", "provided digest did not match uploaded content")
		}
	}
	h.Repo(e.Repo).Blobs[dig] = all
	delete(h.Uploads, u.ID)
	e.Applied = true
	e.Note = fmt.Sprintf("committed %d bytes", len(all))
	r := newResp(201)
	r.Header.Set("Location", "/v2/"+e.Repo+"/blobs/"+dig)
	r.Header.Set("Docker-Content-Digest", dig)
	return r
}

func (m *Model) uploadDelete(h *Host, e *Entry, req *http.Request) *Resp {
	id := e.Ref
	if i := strings.IndexByte(id, '/'); i >= 0 {
		id = id[:i]
	}
	u, ok := h.Uploads[id]
	if !ok || u.Repo != e.Repo {
		return errResp(404, "BLOB_UPLOAD_UNKNOWN", "upload unknown")
	}
	delete(h.Uploads, u.ID)
	e.Applied = true
	return newResp(202)
}

// resolve returns the digest a manifest reference (tag or digest) names.
func resolve(repo *Repo, ref string) (string, bool) {
	if strings.Contains(ref, ":") {
		_, ok := repo.Manifests[ref]
		return ref, ok
	}
	d, ok := repo.Tags[ref]
	if !ok {
		return "", false
	}
	_, ok = repo.Manifests[d]
	return d, ok
}

func (m *Model) manifestGet(h *Host, e *Entry, req *http.Request) *Resp {
	repo, ok := h.Repos[e.Repo]
	if !ok {
		return errResp(404, "NAME_UNKNOWN", "repository unknown")
	}
	d, ok := resolve(repo, e.Ref)
	if !ok {
		return errResp(404, "MANIFEST_UNKNOWN", "manifest unknown")
	}
	mf := repo.Manifests[d]
	if h.Feat.HonourAccept {
		ok, any := false, false
		for _, v := range req.Header.Values("Accept") {
			for _, a := range strings.Split(v, ",") {
				a = strings.TrimSpace(a)
				if i := strings.IndexByte(a, ';'); i >= 0 {
					a = strings.TrimSpace(a[:i])
				}
				if a == "" {
					continue
				}
				any = true
				if a == mf.MediaType || a == "*/*" {
					ok = true
				}
			}
		}
		if any && !ok {
			e.Note = "stored media type " + mf.MediaType + " not acceptable"
			return errResp(404, "MANIFEST_UNKNOWN", "manifest found, but the accept header does not support its media type")
		}
	}
	r := newResp(200)
	r.Header.Set("Content-Type", mf.MediaType)
	if !(h.Feat.HeadNoDigest && req.Method == "HEAD") {
		r.Header.Set("Docker-Content-Digest", d)
	}
	r.Body = mf.Body
	return r
}

// PresentLocked tells whether a digest is present in a repository (blob or
// manifest). The model lock must be held.
func (r *Repo) Present(d string) bool {
	if _, ok := r.Blobs[d]; ok {
		return true
	}
	_, ok := r.Manifests[d]
	return ok
}

func (m *Model) manifestPut(h *Host, e *Entry, req *http.Request) *Resp {
	repo := h.Repo(e.Repo)
	ct := req.Header.Get("Content-Type")
	body := e.Body
	pm, err := ParseManifest(body)
	if err != nil {
		return errResp(400, "MANIFEST_INVALID", "manifest is not JSON")
	}
	mt := ct
	if mt == "" {
		mt = pm.MediaType
	}
	if mt == "" {
		return errResp(400, "MANIFEST_INVALID", "no media type")
	}
	if pm.MediaType != "" && ct != "" && pm.MediaType != ct && !(pm.MediaType == MTDocker1 && ct == MTDocker1Sig) {
		return errResp(400, "MANIFEST_INVALID", "content type does not match mediaType field")
	}
	if !IsManifestType(mt) {
		return errResp(400, "MANIFEST_INVALID", "unsupported media type "+mt)
	}
	var dig string
	byDigest := strings.Contains(e.Ref, ":")
	if byDigest {
		if !ValidDigest(e.Ref) {
			return errResp(400, "DIGEST_INVALID", "invalid digest")
		}
		dig = ManifestDigest(AlgOf(e.Ref), mt, body)
		if dig != e.Ref {
			return errResp(400, "DIGEST_INVALID", "digest does not match body")
		}
	} else {
		alg := "sha256"
		if qd := req.URL.Query().Get("digest"); qd != "" {
			if !ValidDigest(qd) {
				return errResp(400, "DIGEST_INVALID", "invalid digest parameter")
			}
			alg = AlgOf(qd)
			if ManifestDigest(alg, mt, body) != qd {
				return errResp(400, "DIGEST_INVALID", "digest parameter does not match body")
			}
		}
		dig = ManifestDigest(alg, mt, body)
	}
	// record referenced digests that are absent at this instant
	for _, rf := range pm.Refs {
		if len(rf.URLs) > 0 {
			continue // foreign layer
		}
		if rf.Digest == "" {
			continue
		}
		if !repo.Present(rf.Digest) {
			e.Missing = append(e.Missing, rf.Digest)
		}
	}
	if h.Feat.ValidateManifest && len(e.Missing) > 0 {
		return errResp(400, "MANIFEST_BLOB_UNKNOWN", "missing "+strings.Join(e.Missing, ","))
	}
	repo.Manifests[dig] = &Manifest{MediaType: mt, Body: append([]byte{}, body...)}
	if !byDigest {
		repo.Tags[e.Ref] = dig
	}
	e.Applied = true
	e.Note = "stored " + dig
	r := newResp(201)
	r.Header.Set("Location", "/v2/"+e.Repo+"/manifests/"+dig)
	r.Header.Set("Docker-Content-Digest", dig)
	if h.Feat.Referrers && pm.Subject != nil && pm.Subject.Digest != "" {
		r.Header.Set("OCI-Subject", pm.Subject.Digest)
	}
	return r
}

func (m *Model) manifestDelete(h *Host, e *Entry) *Resp {
	repo, ok := h.Repos[e.Repo]
	if !ok {
		return errResp(404, "NAME_UNKNOWN", "repository unknown")
	}
	if !strings.Contains(e.Ref, ":") {
		// tag delete
		if !h.Feat.TagDelete {
			return errResp(405, "UNSUPPORTED", "tag delete unsupported")
		}
		if _, ok := repo.Tags[e.Ref]; !ok {
			return errResp(404, "MANIFEST_UNKNOWN", "tag unknown")
		}
		delete(repo.Tags, e.Ref)
		e.Applied = true
		return newResp(202)
	}
	if h.Feat.NoManifestDelete {
		return errResp(405, "UNSUPPORTED", "manifest delete unsupported")
	}
	if _, ok := repo.Manifests[e.Ref]; !ok {
		return errResp(404, "MANIFEST_UNKNOWN", "manifest unknown")
	}
	delete(repo.Manifests, e.Ref)
	for t, d := range repo.Tags {
		if d == e.Ref {
			delete(repo.Tags, t)
		}
	}
	e.Applied = true
	return newResp(202)
}

func pageParams(req *http.Request, serverCap int) (n int, last string) {
	q := req.URL.Query()
	n = -1
	if v := q.Get("n"); v != "" {
		if i, err := strconv.Atoi(v); err == nil && i >= 0 {
			n = i
		}
	}
	if serverCap > 0 && (n < 0 || n > serverCap) {
		n = serverCap
	}
	return n, q.Get("last")
}

func (m *Model) tagsList(h *Host, e *Entry, req *http.Request) *Resp {
	repo, ok := h.Repos[e.Repo]
	if !ok {
		if h.Feat.TagListNoRepo404 {
			return errResp(404, "NAME_UNKNOWN", "repository unknown")
		}
		repo = newRepo()
	}
	tags := sortedKeys(repo.Tags)
	n, last := pageParams(req, h.Feat.TagPage)
	if last != "" {
		i := sort.SearchStrings(tags, last)
		if i < len(tags) && tags[i] == last {
			i++
		}
		tags = tags[i:]
	}
	r := newResp(200)
	if n >= 0 && len(tags) > n {
		tags = tags[:n]
		if n > 0 {
			q := url.Values{}
			q.Set("n", strconv.Itoa(n))
			q.Set("last", tags[len(tags)-1])
			r.Header.Set("Link", "</v2/"+e.Repo+"/tags/list?"+q.Encode()+">; rel=\"next\"")
		}
	}
	if tags == nil {
		tags = []string{}
	}
	b, _ := json.Marshal(map[string]any{"name": e.Repo, "tags": tags})
	r.Header.Set("Content-Type", "application/json")
	r.Body = b
	return r
}

func (m *Model) catalog(h *Host, e *Entry, req *http.Request) *Resp {
	repos := sortedKeys(h.Repos)
	n, last := pageParams(req, h.Feat.CatalogPage)
	if last != "" {
		i := sort.SearchStrings(repos, last)
		if i < len(repos) && repos[i] == last {
			i++
		}
		repos = repos[i:]
	}
	r := newResp(200)
	if n >= 0 && len(repos) > n {
		repos = repos[:n]
		if n > 0 {
			q := url.Values{}
			q.Set("n", strconv.Itoa(n))
			q.Set("last", repos[len(repos)-1])
			r.Header.Set("Link", "</v2/_catalog?"+q.Encode()+">; rel=\"next\"")
		}
	}
	if repos == nil {
		repos = []string{}
	}
	b, _ := json.Marshal(map[string]any{"repositories": repos})
	r.Header.Set("Content-Type", "application/json")
	r.Body = b
	return r
}

// ReferrerDescs returns, from raw storage, the descriptors of all manifests in
// repo whose subject is d (sorted by digest). Lock must be held.
func ReferrerDescs(repo *Repo, d string) []map[string]any {
	out := []map[string]any{}
	for _, md := range sortedKeys(repo.Manifests) {
		mf := repo.Manifests[md]
		pm, err := ParseManifest(mf.Body)
		if err != nil || pm.Subject == nil || pm.Subject.Digest != d {
			continue
		}
		desc := map[string]any{"mediaType": mf.MediaType, "digest": md, "size": len(mf.Body)}
		at := pm.ArtifactType
		if at == "" {
			for _, rf := range pm.Refs {
				if rf.Kind == "config" {
					at = rf.MediaType
				}
			}
		}
		if at != "" {
			desc["artifactType"] = at
		}
		if len(pm.Annotations) > 0 {
			desc["annotations"] = pm.Annotations
		}
		out = append(out, desc)
	}
	return out
}

func (m *Model) referrers(h *Host, e *Entry, req *http.Request) *Resp {
	if !h.Feat.Referrers {
		return errResp(404, "NOT_FOUND", "referrers API not implemented")
	}
	if !ValidDigest(e.Ref) {
		return errResp(400, "DIGEST_INVALID", "invalid digest")
	}
	repo, ok := h.Repos[e.Repo]
	if !ok {
		repo = newRepo()
	}
	descs := ReferrerDescs(repo, e.Ref)
	r := newResp(200)
	q := req.URL.Query()
	if at := q.Get("artifactType"); at != "" && h.Feat.ReferrersFilter {
		f := descs[:0:0]
		for _, d := range descs {
			if d["artifactType"] == at {
				f = append(f, d)
			}
		}
		descs = f
		r.Header.Set("OCI-Filters-Applied", "artifactType")
	}
	// paging by position token
	if ps := h.Feat.ReferrersPage; ps > 0 {
		start := 0
		if v := q.Get("page"); v != "" {
			start, _ = strconv.Atoi(v)
		}
		if start > len(descs) {
			start = len(descs)
		}
		end := start + ps
		if end < len(descs) {
			nq := url.Values{}
			for k, v := range q {
				nq[k] = v
			}
			nq.Set("page", strconv.Itoa(end))
			r.Header.Set("Link", "</v2/"+e.Repo+"/referrers/"+e.Ref+"?"+nq.Encode()+">; rel=\"next\"")
		} else {
			end = len(descs)
		}
		descs = descs[start:end]
	}
	b, _ := json.Marshal(map[string]any{"schemaVersion": 2, "mediaType": MTOCIIndex, "manifests": descs})
	r.Header.Set("Content-Type", MTOCIIndex)
	r.Body = b
	return r
}
