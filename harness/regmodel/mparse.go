package regmodel

import (
	"encoding/base64"
	"encoding/json"
	"strings"
)

// Media types (written out here on purpose, not imported from regclient).
const (
	MTOCIManifest  = "application/vnd.oci.image.manifest.v1+json"
	MTOCIIndex     = "application/vnd.oci.image.index.v1+json"
	MTOCIArtifact  = "application/vnd.oci.artifact.manifest.v1+json"
	MTDocker2      = "application/vnd.docker.distribution.manifest.v2+json"
	MTDocker2List  = "application/vnd.docker.distribution.manifest.list.v2+json"
	MTDocker1      = "application/vnd.docker.distribution.manifest.v1+json"
	MTDocker1Sig   = "application/vnd.docker.distribution.manifest.v1+prettyjws"
	MTOCIConfig    = "application/vnd.oci.image.config.v1+json"
	MTOCIEmpty     = "application/vnd.oci.empty.v1+json"
	MTOCILayer     = "application/vnd.oci.image.layer.v1.tar"
	MTOCILayerGzip = "application/vnd.oci.image.layer.v1.tar+gzip"
	MTOCILayerZstd = "application/vnd.oci.image.layer.v1.tar+zstd"
	MTDockerConfig = "application/vnd.docker.container.image.v1+json"
	MTDockerLayer  = "application/vnd.docker.image.rootfs.diff.tar.gzip"
	MTDockerForeig = "application/vnd.docker.image.rootfs.foreign.diff.tar.gzip"
)

// IsManifestType tells whether a media type names a manifest / index.
func IsManifestType(mt string) bool {
	switch mt {
	case MTOCIManifest, MTOCIIndex, MTOCIArtifact, MTDocker2, MTDocker2List, MTDocker1, MTDocker1Sig:
		return true
	}
	return false
}

// DescRef is one descriptor found inside a manifest.
type DescRef struct {
	Kind         string // config | layer | manifest | blob | subject
	MediaType    string
	Digest       string
	Size         int64
	URLs         []string
	Data         string // base64 inline data ("" if none)
	HasData      bool
	ArtifactType string
	Annotations  map[string]string
	Platform     map[string]any
}

type rawDesc struct {
	MediaType    string            `json:"mediaType"`
	Digest       string            `json:"digest"`
	Size         int64             `json:"size"`
	URLs         []string          `json:"urls"`
	Data         *string           `json:"data"`
	ArtifactType string            `json:"artifactType"`
	Annotations  map[string]string `json:"annotations"`
	Platform     map[string]any    `json:"platform"`
}

func (d rawDesc) ref(kind string) DescRef {
	r := DescRef{Kind: kind, MediaType: d.MediaType, Digest: d.Digest, Size: d.Size, URLs: d.URLs,
		ArtifactType: d.ArtifactType, Annotations: d.Annotations, Platform: d.Platform}
	if d.Data != nil {
		r.HasData = true
		r.Data = *d.Data
	}
	return r
}

// ParsedManifest is the generic view of any manifest body.
type ParsedManifest struct {
	MediaType    string // declared in the body ("" if absent)
	SchemaV      int
	ArtifactType string
	Annotations  map[string]string
	Refs         []DescRef // config, layers, manifests, blobs, fsLayers (in document order per group)
	Subject      *DescRef
	IsIndex      bool
}

// ParseManifest parses any manifest body (for schema1 signed bodies pass the
// full JWS; fsLayers are read from it directly since the payload fields are
// top-level).
func ParseManifest(body []byte) (*ParsedManifest, error) {
	var raw struct {
		SchemaVersion int               `json:"schemaVersion"`
		MediaType     string            `json:"mediaType"`
		ArtifactType  string            `json:"artifactType"`
		Config        *rawDesc          `json:"config"`
		Layers        []rawDesc         `json:"layers"`
		Manifests     []rawDesc         `json:"manifests"`
		Blobs         []rawDesc         `json:"blobs"`
		Subject       *rawDesc          `json:"subject"`
		Annotations   map[string]string `json:"annotations"`
		FSLayers      []struct {
			BlobSum string `json:"blobSum"`
		} `json:"fsLayers"`
	}
	if err := json.Unmarshal(body, &raw); err != nil {
		return nil, err
	}
	p := &ParsedManifest{MediaType: raw.MediaType, SchemaV: raw.SchemaVersion, ArtifactType: raw.ArtifactType, Annotations: raw.Annotations}
	if raw.Config != nil {
		p.Refs = append(p.Refs, raw.Config.ref("config"))
	}
	for _, l := range raw.Layers {
		p.Refs = append(p.Refs, l.ref("layer"))
	}
	for _, l := range raw.Manifests {
		k := "manifest"
		if l.MediaType != "" && !IsManifestType(l.MediaType) {
			k = "blob"
		}
		p.Refs = append(p.Refs, l.ref(k))
		p.IsIndex = true
	}
	if raw.Manifests != nil {
		p.IsIndex = true
	}
	for _, l := range raw.Blobs {
		p.Refs = append(p.Refs, l.ref("blob"))
	}
	for _, l := range raw.FSLayers {
		p.Refs = append(p.Refs, DescRef{Kind: "layer", Digest: l.BlobSum})
	}
	if raw.Subject != nil {
		s := raw.Subject.ref("subject")
		p.Subject = &s
	}
	return p, nil
}

// JWSPayload extracts the signed payload of a schema1 pretty-JWS body. ok is
// false when the body is not a pretty JWS.
func JWSPayload(body []byte) ([]byte, bool) {
	var raw struct {
		Signatures []struct {
			Protected string `json:"protected"`
		} `json:"signatures"`
	}
	if err := json.Unmarshal(body, &raw); err != nil || len(raw.Signatures) == 0 {
		return nil, false
	}
	pb, err := base64.RawURLEncoding.DecodeString(strings.TrimRight(raw.Signatures[0].Protected, "="))
	if err != nil {
		return nil, false
	}
	var prot struct {
		FormatLength int    `json:"formatLength"`
		FormatTail   string `json:"formatTail"`
	}
	if err := json.Unmarshal(pb, &prot); err != nil {
		return nil, false
	}
	tail, err := base64.RawURLEncoding.DecodeString(strings.TrimRight(prot.FormatTail, "="))
	if err != nil || prot.FormatLength < 0 || prot.FormatLength > len(body) {
		return nil, false
	}
	out := append([]byte{}, body[:prot.FormatLength]...)
	return append(out, tail...), true
}

// ManifestDigest is the digest a registry assigns to a manifest body.
func ManifestDigest(alg, mediaType string, body []byte) string {
	if mediaType == MTDocker1Sig {
		if p, ok := JWSPayload(body); ok {
			return Digest(alg, p)
		}
	}
	return Digest(alg, body)
}
