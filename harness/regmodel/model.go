// Package regmodel is an in-process model of OCI/Docker registries that owns
// the HTTP transport: an http.RoundTripper that dispatches on req.URL.Host to
// any number of model hosts. It is written from the distribution spec, keeps
// its state in plain maps (the "raw storage" the oracles read), executes a
// generated fault plan and latency plan, and logs every request.
package regmodel

import (
	"bytes"
	"context"
	"crypto/sha256"
	"crypto/sha512"
	"encoding/hex"
	"errors"
	"fmt"
	"io"
	"net/http"
	"sort"
	"strings"
	"sync"
	"time"
)

// Manifest is a stored manifest.
type Manifest struct {
	MediaType string
	Body      []byte
}

// Repo is the raw storage of one repository.
type Repo struct {
	Blobs     map[string][]byte    // digest -> bytes
	Manifests map[string]*Manifest // digest -> manifest
	Tags      map[string]string    // tag -> digest
}

func newRepo() *Repo {
	return &Repo{Blobs: map[string][]byte{}, Manifests: map[string]*Manifest{}, Tags: map[string]string{}}
}

// Upload is an upload session.
type Upload struct {
	ID    string
	Repo  string
	Data  []byte
	State int // current state token (LocStyle >= 2)
	Patch int // PATCH requests seen
}

// Features is the per-host behaviour set (all within the distribution spec
// unless Strict is false).
type Features struct {
	MountGrant       bool   // cross-repo mount is granted when the source repo holds the blob
	MountRefuseFirst int    // the first k cross-repo mount requests of this host are declined (a session is opened instead), later ones follow MountGrant
	AnonMountStatus  int    // mount without from=: 0 → 202 new session; 201 → granted when any repo holds it; 4xx → that status
	TagDelete        bool   // DELETE /manifests/<tag> supported (else 405)
	NoManifestDelete bool   // DELETE /manifests/<digest> answers 405
	NoBlobDelete     bool   // DELETE /blobs/<digest> answers 405
	HeadNoDigest     bool   // manifest HEAD omits Docker-Content-Digest
	HonourAccept     bool   // content negotiation as distribution does it: a manifest GET/HEAD whose Accept header names neither the stored media type nor */* is answered 404 MANIFEST_UNKNOWN
	Referrers        bool   // referrers API implemented
	ReferrersPage    int    // page size of the referrers API (0 = all)
	ReferrersFilter  bool   // server-side artifactType filtering (OCI-Filters-Applied)
	TagPage          int    // server-side cap of the tag list page size (0 = none)
	CatalogPage      int    // server-side cap of catalog page size
	ChunkMin         int    // OCI-Chunk-Min-Length announced on upload POST
	LocStyle         int    // 0 absolute-path, 1 absolute URL, 2 +query state, 3 state changes on every response (latest required), 4 path-relative relocation into a deeper directory, 5 hand-over to UploadBackend host
	UploadBackend    string // LocStyle 5: host name of the upload backend (add it with AddAlias)
	PatchAccept      []int  // bytes accepted per PATCH (cyclic; <0 = all)
	PatchPartialMode int    // partial acceptance answered 0: 202+Range, 1: 416+Location+Range
	RefuseMono       bool   // closing PUT with a body on an empty session is refused (400)
	Early201         bool   // PATCH answers 201 instead of 202
	BlobRedirect     string // blob GET answered 307 to https://<host>/store/<repo>/<digest>
	RedirectStatus   int    // default 307
	ValidateManifest bool   // manifest PUT with missing references is rejected (400 MANIFEST_BLOB_UNKNOWN)
	Lax              bool   // lax but truthful: no Content-Range / closing digest verification
	NoRange          bool   // blob GET ignores Range (answers 200 full body)
	TagListNoRepo404 bool   // tags/list of an unknown repository answers 404 (default: 200 with empty list)
}

// Resp is a model response before it is turned into an *http.Response.
type Resp struct {
	Status int
	Header http.Header
	Body   []byte
	// body delivery faults
	TruncateAt int   // deliver only the first n bytes (-1 = all)
	TruncErr   error // error returned after the truncated part (nil = clean EOF)
	Stall      bool  // block after TruncateAt bytes until the request context ends
	NoCL       bool  // omit Content-Length
	LieCL      int64 // declared Content-Length when != 0 (may disagree with the body)
}

func newResp(status int) *Resp {
	return &Resp{Status: status, Header: http.Header{}, TruncateAt: -1}
}

// Fault is one entry of a fault plan.
type Fault struct {
	// selection: the fault applies to the Nth (0-based) request that matches
	// Host (""=any), Method (""=any), Class (""=any) and PathHas (""=any);
	// with AtHostSeq >= 0 it applies to exactly that per-host ordinal instead,
	// with AtSeq >= 0 to that global ordinal.
	Host      string `json:"host,omitempty"`
	Method    string `json:"method,omitempty"`
	Class     string `json:"class,omitempty"`
	PathHas   string `json:"path_has,omitempty"`
	Nth       int    `json:"nth"`
	Times     int    `json:"times,omitempty"` // how many consecutive matches (0 = 1, <0 = forever)
	AtHostSeq int    `json:"at_host_seq"`
	AtSeq     int    `json:"at_seq"`
	// action
	Kind       string `json:"kind"` // status | reset-before | reset-after | truncate | truncate-clean | stall | lie-cl | no-cl
	Status     int    `json:"status,omitempty"`
	RetryAfter string `json:"retry_after,omitempty"`
	At         int    `json:"at,omitempty"` // truncate offset / lie-cl delta
	Challenge  string `json:"challenge,omitempty"`

	seen int
}

// NewFault returns a Fault with ordinal selectors disabled.
func NewFault(kind string) Fault { return Fault{Kind: kind, AtHostSeq: -1, AtSeq: -1} }

// Entry is one logged request.
type Entry struct {
	Seq        int
	HostSeq    int
	Host       string
	Scheme     string
	Method     string
	Path       string
	RawQuery   string
	Class      string
	Repo       string
	Ref        string // digest, tag or upload id
	Header     http.Header
	Body       []byte
	Arrive     time.Duration
	Done       time.Duration
	Status     int
	RespHeader http.Header
	Fault      string
	Applied    bool     // a state change was applied
	Missing    []string // manifest PUT: referenced digests absent at that instant
	Note       string
	// Ctx is the context of the HTTP request (values set by the caller of the client operation travel with it,
	// so a check can tell which of its concurrent operations a request belongs to)
	Ctx context.Context `json:"-"`
}

// Mutating tells whether the request method is state changing.
func (e *Entry) Mutating() bool { return e.Method != "GET" && e.Method != "HEAD" }

// Host is one model host.
type Host struct {
	Name    string
	Kind    string // registry | storage | external | custom
	Repos   map[string]*Repo
	Feat    Features
	Uploads map[string]*Upload
	Files   map[string][]byte // external hosts: path -> bytes
	Origin  *Host             // storage hosts: the registry whose blobs are served; alias hosts: the registry whose state is used
	Delays  []time.Duration   // latency plan applied on arrival (cyclic)
	// Intercept, when set, is called (with the model lock held) before normal
	// processing; a non-nil result is the response.
	Intercept func(m *Model, h *Host, e *Entry, req *http.Request) *Resp

	seq       int
	uploadSeq int
	mountSeen int // cross-repository mount requests received so far
}

// Repo returns (creating if needed) a repository.
func (h *Host) Repo(name string) *Repo {
	r, ok := h.Repos[name]
	if !ok {
		r = newRepo()
		h.Repos[name] = r
	}
	return r
}

// Model is the transport.
type Model struct {
	mu     sync.Mutex
	Hosts  map[string]*Host
	Faults []*Fault
	Log    []*Entry
	Cap    int // request cap (0 = 5000); further requests get a transport error
	// OnArrive is called without the model lock for every request before it is
	// processed (k = global ordinal). It may inspect state through Snapshot
	// methods, cancel contexts, etc.
	OnArrive func(e *Entry)
	// OnDone is called without the lock after a request was processed.
	OnDone   func(e *Entry)
	start    time.Time
	capHit   bool
	inflight int
}

// ErrReset is the transport error used for injected connection resets.
var ErrReset = errors.New("regmodel: connection reset by peer")

// ErrCap is returned once the request cap is exceeded.
var ErrCap = errors.New("regmodel: request cap exceeded")

// New creates an empty model.
func New() *Model {
	return &Model{Hosts: map[string]*Host{}, start: time.Now()}
}

// AddHost adds a registry host with default (permissive, spec conforming) features.
func (m *Model) AddHost(name string) *Host {
	h := &Host{Name: name, Kind: "registry", Repos: map[string]*Repo{}, Uploads: map[string]*Upload{}, Files: map[string][]byte{}}
	m.mu.Lock()
	m.Hosts[name] = h
	m.mu.Unlock()
	return h
}

// AddStorage adds a storage host serving the blobs of origin under /store/<repo>/<digest>.
func (m *Model) AddStorage(name string, origin *Host) *Host {
	h := m.AddHost(name)
	h.Kind = "storage"
	h.Origin = origin
	return h
}

// AddAlias adds a second host name that serves the same registry state as origin
// (e.g. an upload backend).
func (m *Model) AddAlias(name string, origin *Host) *Host {
	h := m.AddHost(name)
	h.Kind = "alias"
	h.Origin = origin
	return h
}

// AddExternal adds a host that serves Files by path.
func (m *Model) AddExternal(name string) *Host {
	h := m.AddHost(name)
	h.Kind = "external"
	return h
}

// AddFault appends a fault to the plan.
func (m *Model) AddFault(f Fault) {
	m.mu.Lock()
	ff := f
	m.Faults = append(m.Faults, &ff)
	m.mu.Unlock()
}

// Client returns an http.Client using the model as transport.
func (m *Model) Client() *http.Client { return &http.Client{Transport: m} }

// Lock / Unlock give oracles consistent access to raw state.
func (m *Model) Lock()   { m.mu.Lock() }
func (m *Model) Unlock() { m.mu.Unlock() }

// CapHit tells whether the request cap was exceeded.
func (m *Model) CapHit() bool {
	m.mu.Lock()
	defer m.mu.Unlock()
	return m.capHit
}

// Entries returns a copy of the log slice (entries are shared, treat as read-only).
func (m *Model) Entries() []*Entry {
	m.mu.Lock()
	defer m.mu.Unlock()
	out := make([]*Entry, len(m.Log))
	copy(out, m.Log)
	return out
}

// Requests returns the number of requests seen so far.
func (m *Model) Requests() int {
	m.mu.Lock()
	defer m.mu.Unlock()
	return len(m.Log)
}

// Digest computes "<alg>:<hex>" over b for sha256 / sha512.
func Digest(alg string, b []byte) string {
	switch alg {
	case "sha512":
		s := sha512.Sum512(b)
		return "sha512:" + hex.EncodeToString(s[:])
	default:
		s := sha256.Sum256(b)
		return "sha256:" + hex.EncodeToString(s[:])
	}
}

// FallbackTag is the referrers fallback tag of a subject digest: "<alg>-<hex>" with the
// algorithm cut to 32 and the hex part to 64 characters (OCI distribution spec).
func FallbackTag(d string) string {
	alg, hx, _ := strings.Cut(d, ":")
	if len(alg) > 32 {
		alg = alg[:32]
	}
	if len(hx) > 64 {
		hx = hx[:64]
	}
	return alg + "-" + hx
}

// AlgOf returns the algorithm part of a digest string ("sha256" if malformed).
func AlgOf(d string) string {
	if i := strings.IndexByte(d, ':'); i > 0 {
		return d[:i]
	}
	return "sha256"
}

// ValidDigest checks shape and supported algorithm.
func ValidDigest(d string) bool {
	i := strings.IndexByte(d, ':')
	if i < 0 {
		return false
	}
	alg, hx := d[:i], d[i+1:]
	want := 0
	switch alg {
	case "sha256":
		want = 64
	case "sha512":
		want = 128
	default:
		return false
	}
	if len(hx) != want {
		return false
	}
	for i := 0; i < len(hx); i++ {
		c := hx[i]
		if !(c >= '0' && c <= '9' || c >= 'a' && c <= 'f') {
			return false
		}
	}
	return true
}

type bodyReader struct {
	ctx    context.Context
	data   []byte
	pos    int
	limit  int // deliver up to limit bytes
	err    error
	stall  bool
	closed bool
}

func (b *bodyReader) Read(p []byte) (int, error) {
	if b.closed {
		return 0, errors.New("regmodel: read on closed body")
	}
	if err := b.ctx.Err(); err != nil {
		return 0, err
	}
	if b.pos >= b.limit {
		if b.stall {
			<-b.ctx.Done()
			return 0, b.ctx.Err()
		}
		if b.err != nil {
			return 0, b.err
		}
		return 0, io.EOF
	}
	n := copy(p, b.data[b.pos:b.limit])
	b.pos += n
	return n, nil
}

func (b *bodyReader) Close() error { b.closed = true; return nil }

// RoundTrip implements http.RoundTripper.
func (m *Model) RoundTrip(req *http.Request) (*http.Response, error) {
	ctx := req.Context()
	if err := ctx.Err(); err != nil {
		if req.Body != nil {
			req.Body.Close()
		}
		return nil, err
	}
	// read the request body, enforcing HTTP framing like a real transport
	var body []byte
	var frameErr error
	if req.Body != nil && req.Body != http.NoBody {
		var err error
		if req.ContentLength >= 0 {
			body, err = io.ReadAll(io.LimitReader(req.Body, req.ContentLength))
			if err == nil {
				if int64(len(body)) < req.ContentLength {
					frameErr = fmt.Errorf("regmodel: http: ContentLength=%d with Body length %d", req.ContentLength, len(body))
				} else {
					// a longer body than declared is a transport error too
					var one [1]byte
					if n, _ := req.Body.Read(one[:]); n > 0 {
						frameErr = fmt.Errorf("regmodel: http: ContentLength=%d with Body length > %d", req.ContentLength, req.ContentLength)
					}
				}
			}
		} else {
			body, err = io.ReadAll(req.Body)
		}
		req.Body.Close()
		if err != nil {
			return nil, err
		}
	} else if req.ContentLength > 0 {
		frameErr = fmt.Errorf("regmodel: http: ContentLength=%d with nil Body", req.ContentLength)
	}

	m.mu.Lock()
	host := req.URL.Host
	h := m.Hosts[host]
	e := &Entry{
		Seq: len(m.Log), Host: host, Scheme: req.URL.Scheme, Method: req.Method, Path: req.URL.Path,
		RawQuery: req.URL.RawQuery, Header: req.Header.Clone(), Body: body, Arrive: time.Since(m.start),
		Ctx: req.Context(),
	}
	if h != nil {
		e.HostSeq = h.seq
		h.seq++
	}
	classify(e, h)
	m.Log = append(m.Log, e)
	capN := m.Cap
	if capN == 0 {
		capN = 5000
	}
	over := len(m.Log) > capN
	if over {
		m.capHit = true
	}
	var delay time.Duration
	if h != nil && len(h.Delays) > 0 {
		delay = h.Delays[e.HostSeq%len(h.Delays)]
	}
	onArrive := m.OnArrive
	m.mu.Unlock()

	if over {
		e.Fault = "cap"
		return nil, ErrCap
	}
	if onArrive != nil {
		onArrive(e)
	}
	if delay > 0 {
		t := time.NewTimer(delay)
		select {
		case <-ctx.Done():
			t.Stop()
			e.Fault = "ctx"
			return nil, ctx.Err()
		case <-t.C:
		}
	}
	if err := ctx.Err(); err != nil {
		e.Fault = "ctx"
		return nil, err
	}
	if frameErr != nil {
		e.Fault = "framing"
		return nil, frameErr
	}
	if h == nil {
		e.Fault = "no-such-host"
		return nil, fmt.Errorf("regmodel: dial tcp: lookup %s: no such host", host)
	}

	m.mu.Lock()
	if h.Kind == "alias" && h.Origin != nil {
		h = h.Origin
	}
	f := m.matchFault(e)
	var resp *Resp
	var terr error
	if f != nil {
		e.Fault = f.Kind
		switch f.Kind {
		case "reset-before":
			terr = ErrReset
		case "status":
			e.Fault = fmt.Sprintf("status-%d", f.Status)
			resp = newResp(f.Status)
			if f.RetryAfter != "" {
				resp.Header.Set("Retry-After", f.RetryAfter)
			}
			if f.Challenge != "" {
				resp.Header.Set("WWW-Authenticate", f.Challenge)
			}
			resp.Body = []byte(fmt.Sprintf(`{"errors":[{"code":"INJECTED","message":"injected %d"}]}`, f.Status))
		}
	}
	if resp == nil && terr == nil {
		if h.Intercept != nil {
			resp = h.Intercept(m, h, e, req)
		}
		if resp == nil {
			resp = m.process(h, e, req)
		}
		if f != nil {
			switch f.Kind {
			case "reset-after":
				terr = ErrReset
			case "truncate":
				resp.TruncateAt = f.At
				resp.TruncErr = io.ErrUnexpectedEOF
			case "truncate-clean":
				resp.TruncateAt = f.At
				resp.NoCL = true
			case "stall":
				resp.TruncateAt = f.At
				resp.Stall = true
			case "lie-cl":
				resp.LieCL = int64(len(resp.Body) + f.At)
				if resp.LieCL <= 0 {
					resp.LieCL = 1
				}
			case "no-cl":
				resp.NoCL = true
			}
		}
	}
	e.Done = time.Since(m.start)
	if resp != nil {
		e.Status = resp.Status
		e.RespHeader = resp.Header.Clone()
	}
	onDone := m.OnDone
	m.mu.Unlock()
	if onDone != nil {
		onDone(e)
	}
	if terr != nil {
		return nil, terr
	}
	return m.build(req, resp), nil
}

func (m *Model) matchFault(e *Entry) *Fault {
	for _, f := range m.Faults {
		if f.AtSeq >= 0 {
			if f.AtSeq == e.Seq {
				return f
			}
			continue
		}
		if f.Host != "" && f.Host != e.Host {
			continue
		}
		if f.AtHostSeq >= 0 {
			if f.AtHostSeq == e.HostSeq {
				return f
			}
			continue
		}
		if f.Method != "" && f.Method != e.Method {
			continue
		}
		if f.Class != "" && f.Class != e.Class {
			continue
		}
		if f.PathHas != "" && !strings.Contains(e.Path, f.PathHas) {
			continue
		}
		idx := f.seen
		f.seen++
		times := f.Times
		if times == 0 {
			times = 1
		}
		if idx >= f.Nth && (times < 0 || idx < f.Nth+times) {
			return f
		}
	}
	return nil
}

func (m *Model) build(req *http.Request, r *Resp) *http.Response {
	hdr := r.Header
	if hdr == nil {
		hdr = http.Header{}
	}
	body := r.Body
	if req.Method == "HEAD" {
		// HEAD responses carry headers of the GET but no body
		if hdr.Get("Content-Length") == "" && !r.NoCL {
			hdr.Set("Content-Length", fmt.Sprint(len(body)))
		}
		body = nil
	}
	limit := len(body)
	var terr error
	if r.TruncateAt >= 0 && r.TruncateAt < limit {
		limit = r.TruncateAt
		terr = r.TruncErr
	}
	cl := int64(len(body))
	if r.LieCL != 0 {
		cl = r.LieCL
	}
	if req.Method != "HEAD" {
		if r.NoCL {
			cl = -1
			hdr.Del("Content-Length")
		} else {
			hdr.Set("Content-Length", fmt.Sprint(cl))
		}
		// a real transport reports a short body as unexpected EOF
		if cl >= 0 && int64(limit) < cl && terr == nil && !r.Stall {
			terr = io.ErrUnexpectedEOF
		}
		if cl >= 0 && int64(limit) > cl {
			limit = int(cl)
		}
	} else {
		cl = 0
		if v := hdr.Get("Content-Length"); v != "" {
			fmt.Sscan(v, &cl)
		}
	}
	return &http.Response{
		Status:        fmt.Sprintf("%d %s", r.Status, http.StatusText(r.Status)),
		StatusCode:    r.Status,
		Proto:         "HTTP/1.1",
		ProtoMajor:    1,
		ProtoMinor:    1,
		Header:        hdr,
		ContentLength: cl,
		Body:          &bodyReader{ctx: req.Context(), data: body, limit: limit, err: terr, stall: r.Stall},
		Request:       req,
	}
}

func errResp(status int, code, msg string) *Resp {
	r := newResp(status)
	r.Header.Set("Content-Type", "application/json")
	r.Body = []byte(fmt.Sprintf(`{"errors":[{"code":%q,"message":%q}]}`, code, msg))
	return r
}

// sortedKeys returns the sorted keys of a string-keyed map.
func sortedKeys[V any](mm map[string]V) []string {
	out := make([]string, 0, len(mm))
	for k := range mm {
		out = append(out, k)
	}
	sort.Strings(out)
	return out
}

var _ = bytes.Equal
