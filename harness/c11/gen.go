package c11

import (
	"fmt"
	"strings"

	"pgregory.net/rapid"
)

// pick draws one of the values with the given weights (first = simplest, the shrink target).
func pick(t *rapid.T, label string, vw ...any) string {
	var vals []string
	for i := 0; i+1 < len(vw); i += 2 {
		for k := 0; k < vw[i+1].(int); k++ {
			vals = append(vals, vw[i].(string))
		}
	}
	return rapid.SampledFrom(vals).Draw(t, label)
}

// chance is true with roughly pct percent probability (5 % granularity). SampledFrom is close
// to uniform in rapid, IntRange is heavily biased towards small values.
func chance(t *rapid.T, label string, pct int) bool {
	k := (pct + 2) / 5
	if k < 1 && pct > 0 {
		k = 1
	}
	v := make([]bool, 20)
	for i := 20 - k; i < 20; i++ {
		if i >= 0 {
			v[i] = true
		}
	}
	return rapid.SampledFrom(v).Draw(t, label)
}

// between draws an int in [lo,hi] close to uniformly.
func between(t *rapid.T, label string, lo, hi int) int {
	v := make([]int, 0, hi-lo+1)
	for i := lo; i <= hi; i++ {
		v = append(v, i)
	}
	return rapid.SampledFrom(v).Draw(t, label)
}

func newHost(kind, name string) HostSpec {
	return HostSpec{Name: name, Kind: kind, Origin: -1, RedirectTo: -1, Upload: -1, LinkTo: -1, MirrorOf: -1,
		Auth: AuthSpec{Ch: ChallengeSpec{Kind: "none", RealmFor: -1}, ChangeAt: -1, Alt: ChallengeSpec{Kind: "none", RealmFor: -1}}}
}

type genState struct {
	t *rapid.T
	c *Case
}

func (g *genState) registries(includeUnused bool) []int {
	var out []int
	for i := range g.c.Hosts {
		if g.c.Hosts[i].Kind == "registry" && (includeUnused || !g.c.Hosts[i].Unused) {
			out = append(out, i)
		}
	}
	return out
}

func (g *genState) countKind(kind string) int {
	n := 0
	for i := range g.c.Hosts {
		if g.c.Hosts[i].Kind == kind {
			n++
		}
	}
	return n
}

// tokenHostFor chooses where the token endpoint of a bearer challenge issued by owner lives.
func (g *genState) tokenHostFor(owner int, label string) int {
	opts := []any{"self", 3}
	if g.countKind("token") < 2 && len(g.c.Hosts) < 10 {
		opts = append(opts, "new", 3)
	}
	if g.countKind("token") > 0 {
		opts = append(opts, "existing", 2)
	}
	regs := g.registries(false)
	if len(regs) > 1 || (len(regs) == 1 && regs[0] != owner) {
		opts = append(opts, "registry", 1)
	}
	switch pick(g.t, label+".tokenhost", opts...) {
	case "new":
		h := newHost("token", fmt.Sprintf("auth-%d.example.test", g.countKind("token")))
		h.Scheme = pick(g.t, label+".tokenscheme", "", 6, "http", 1)
		g.c.Hosts = append(g.c.Hosts, h)
		return len(g.c.Hosts) - 1
	case "existing":
		var ts []int
		for i := range g.c.Hosts {
			if g.c.Hosts[i].Kind == "token" {
				ts = append(ts, i)
			}
		}
		return rapid.SampledFrom(ts).Draw(g.t, label+".tokenidx")
	case "registry":
		var rs []int
		for _, r := range regs {
			if r != owner {
				rs = append(rs, r)
			}
		}
		return rapid.SampledFrom(rs).Draw(g.t, label+".tokenreg")
	}
	return owner
}

// challenge draws a challenge for host owner. hostile = the host is not a registry of its own
// (storage, external, upload, link): it may name a registry's token endpoint path.
func (g *genState) challenge(owner int, label string, standing bool) ChallengeSpec {
	ch := ChallengeSpec{RealmFor: -1, TokenHost: owner}
	if standing {
		ch.Kind = pick(g.t, label+".kind", "basic", 6, "bearer", 12, "basic+bearer", 2, "bearer+basic-2h", 2, "unsupported+bearer", 2, "bearer+bearer", 1)
	} else {
		ch.Kind = pick(g.t, label+".kind", "basic", 4, "bearer", 6, "basic+bearer", 1, "bearer+basic-2h", 1, "unsupported+bearer", 1, "malformed", 2, "unsupported", 1, "empty", 1, "bearer+bearer", 1)
	}
	ch.Variant = between(g.t, label+".variant", 0, 23)
	if ch.hasBearer() || ch.Kind == "malformed" {
		ch.TokenHost = g.tokenHostFor(owner, label)
		ch.RealmScheme = pick(g.t, label+".realmscheme", "", 16, "http", 1, "https", 1)
		ch.NoScope = chance(g.t, label+".noscope", 15)
		ch.NoService = chance(g.t, label+".noservice", 10)
		h := &g.c.Hosts[owner]
		if h.Kind != "registry" && h.Kind != "token" && chance(g.t, label+".deputy", 30) {
			// name the token endpoint of a registry (confused deputy)
			r := h.Origin
			if r < 0 {
				regs := g.registries(false)
				r = rapid.SampledFrom(regs).Draw(g.t, label+".deputyreg")
			}
			ch.RealmFor = r
			if g.c.Hosts[r].Auth.Ch.hasBearer() {
				ch.TokenHost = g.c.Hosts[r].Auth.Ch.TokenHost
			}
		}
	}
	return ch
}

func (g *genState) standingAuth(i int, label string, pctOpen int) {
	h := &g.c.Hosts[i]
	if chance(g.t, label+".open", pctOpen) {
		return
	}
	ch := g.challenge(i, label, true)
	h = &g.c.Hosts[i] // the slice may have grown
	h.Auth.Ch = ch
	h.Auth.Post = chance(g.t, label+".post", 55)
	h.Auth.Refresh = chance(g.t, label+".refresh", 40)
	h.Auth.Anon = chance(g.t, label+".anon", 35)
	h.Auth.ScopeCheck = chance(g.t, label+".scopecheck", 40)
	h.Auth.TokenField = between(g.t, label+".tokenfield", 0, 2)
	h.Auth.IssuedAt = between(g.t, label+".issuedat", 0, 1)
	if chance(g.t, label+".changes", 15) {
		at := between(g.t, label+".changeat", 1, 8)
		alt := g.challenge(i, label+".alt", false)
		h = &g.c.Hosts[i]
		h.Auth.ChangeAt = at
		h.Auth.Alt = alt
	}
}

func (g *genState) extras(i int, label string, pct int) {
	if !chance(g.t, label+".extra", pct) {
		return
	}
	n := 1
	if chance(g.t, label+".extra2", 25) {
		n = 2
	}
	for k := 0; k < n; k++ {
		l := fmt.Sprintf("%s.x%d", label, k)
		at := rapid.SampledFrom([]int{0, 0, 0, 0, 0, 1, 1, 2, 3, 5}).Draw(g.t, l+".at")
		ch := g.challenge(i, l, false)
		g.c.Hosts[i].Extra = append(g.c.Hosts[i].Extra, Extra401{At: at, Ch: ch})
	}
}

func (g *genState) clientCfg(i int, label string, mustCred bool) {
	h := &g.c.Hosts[i]
	hub := h.Name == hubDNS
	h.Cfg = pick(g.t, label+".cfg", "host", 10, "docker", 8, "helper", 2)
	switch {
	case h.Cfg == "helper":
		h.CredKind = pick(g.t, label+".cred", "userpass", 2, "token", 1)
	case mustCred || h.Cfg == "docker":
		h.CredKind = pick(g.t, label+".cred", "userpass", 5, "token", 2, "both", 2)
	default:
		h.CredKind = pick(g.t, label+".cred", "userpass", 10, "token", 4, "both", 4, "none", 2, "useronly", 1)
	}
	h.RepoAuth = chance(g.t, label+".repoauth", 35)
	h.NoHead = chance(g.t, label+".nohead", 10)
	if h.Cfg == "host" || h.Cfg == "helper" {
		h.TLS = pick(g.t, label+".tls", "", 3, "enabled", 2, "insecure", 2, "disabled", 3)
		if !hub && chance(g.t, label+".alias", 15) {
			h.CfgName = fmt.Sprintf("alias-%d.example.test", i)
		}
		if h.Cfg == "host" && h.CfgName == "" {
			h.AlsoDocker = chance(g.t, label+".alsodocker", 14)
			h.StaleCfg = h.AlsoDocker && chance(g.t, label+".stalecfg", 50)
		}
		return
	}
	h.DupKey = chance(g.t, label+".dupkey", 15)
	if hub {
		h.Key = pick(g.t, label+".key", "hub-legacy", 3, "hub-name", 1, "hub-dns", 1)
	} else {
		h.Key = pick(g.t, label+".key", "bare", 3, "https", 2, "http", 2, "slash", 1, "https-slash", 1, "http-slash", 1)
	}
	switch h.CredKind {
	case "userpass":
		h.DockerForm = pick(g.t, label+".form", "auth", 2, "userpass", 1)
	case "token":
		h.DockerForm = pick(g.t, label+".form", "idtoken", 1, "idtoken+auth0", 1)
	default:
		h.DockerForm = "idtoken+auth"
	}
}

func gen(t *rapid.T) Case {
	c := Case{Salt: rapid.IntRange(1, 1<<24).Draw(t, "salt")}
	g := &genState{t: t, c: &c}
	c.Special = chance(t, "special", 35)
	c.Chunked = chance(t, "chunked", 30)
	c.LogVia = pick(t, "logvia", "", 4, "json", 1, "logrus", 2, "logrus-json", 1)
	c.LogLevel = pick(t, "loglevel", "", 8, "debug", 6, "info", 2, "warn", 2, "error", 2)
	c.CfgVia = pick(t, "cfgvia", "", 6, "json", 2, "json-title", 1, "yaml", 2)
	c.DefTLS = pick(t, "deftls", "", 12, "disabled", 2, "insecure", 1, "enabled", 1)
	c.DefRepoAuth = chance(t, "defrepoauth", 10)
	c.DefHelper = chance(t, "defhelper", 5)
	c.DockerEnv = chance(t, "dockerenv", 25)
	c.Cache = chance(t, "cache", 20)
	c.Parallel = chance(t, "parallel", 15)

	// ---- registries with credentials
	nReg := between(t, "nreg", 2, 3)
	hubAt := -1
	if chance(t, "hub", 10) {
		hubAt = between(t, "hubat", 0, nReg-1)
	}
	base := []string{"reg-a.example.test", "reg-b.example.test", "reg-c.internal.test"}
	for i := 0; i < nReg; i++ {
		name := base[i] + pick(t, fmt.Sprintf("reg%d.port", i), "", 3, ":5000", 2, ":443", 1)
		if i > 0 {
			// other accepted registry name forms: localhost, IPv4 with port, upper case single label, trailing dot
			switch pick(t, fmt.Sprintf("reg%d.nameform", i), "domain", 14, "localhost", 1, "localhost-port", 1, "ipv4-port", 1, "upper", 1, "trailing-dot", 1) {
			case "localhost":
				name = "localhost"
				if i > 1 {
					name = "localhost:5002"
				}
			case "localhost-port":
				name = fmt.Sprintf("localhost:%d", 5000+i)
			case "ipv4-port":
				name = fmt.Sprintf("127.0.0.%d:5000", i)
			case "upper":
				name = fmt.Sprintf("REGISTRY%d", i)
			case "trailing-dot":
				name = base[i] + "."
			}
		}
		if i == hubAt {
			name = hubDNS
		}
		h := newHost("registry", name)
		h.Referrers = chance(t, fmt.Sprintf("reg%d.referrers", i), 50)
		h.TagPage = rapid.SampledFrom([]int{0, 0, 1, 2, 3}).Draw(t, fmt.Sprintf("reg%d.tagpage", i))
		h.RefPage = rapid.SampledFrom([]int{0, 0, 1}).Draw(t, fmt.Sprintf("reg%d.refpage", i))
		h.LocStyle = between(t, fmt.Sprintf("reg%d.locstyle", i), 0, 3)
		h.LocScheme = pick(t, fmt.Sprintf("reg%d.locscheme", i), "", 10, "http", 1, "https", 1)
		h.HeadNoDigest = chance(t, fmt.Sprintf("reg%d.headnodigest", i), 20)
		h.NoTagDelete = chance(t, fmt.Sprintf("reg%d.notagdelete", i), 40)
		h.NoMountGrant = chance(t, fmt.Sprintf("reg%d.nomountgrant", i), 35)
		h.AnonMount = rapid.SampledFrom([]int{0, 0, 0, 201, 405}).Draw(t, fmt.Sprintf("reg%d.anonmount", i))
		c.Hosts = append(c.Hosts, h)
		if i == 2 && i != hubAt && chance(t, "reg2.unconfigured", 12) {
			continue // a registry the client only knows by name (defaults apply, no credentials)
		}
		g.clientCfg(i, fmt.Sprintf("reg%d", i), i < 2)
	}
	for i := 1; i < nReg; i++ {
		if i == hubAt {
			continue
		}
		if pick(t, fmt.Sprintf("reg%d.role", i), "partner", 3, "mirror", 2) == "mirror" {
			c.Hosts[i].MirrorOf = 0
			c.Hosts[i].MirrorHas = chance(t, fmt.Sprintf("reg%d.mirrorhas", i), 60)
			c.Hosts[i].Priority = between(t, fmt.Sprintf("reg%d.prio", i), 0, 3)
			if c.Hosts[i].Cfg != "" && chance(t, fmt.Sprintf("reg%d.pathprefix", i), 15) {
				c.Hosts[i].PathPrefix = "mirrored"
			}
			c.Hosts[0].Mirrors = append(c.Hosts[0].Mirrors, i)
		}
	}
	if len(c.Hosts[0].Mirrors) > 0 {
		c.Hosts[0].DupMirror = chance(t, "reg0.dupmirror", 10)
		c.Hosts[0].Priority = between(t, "reg0.prio", 0, 3)
	}
	if chance(t, "unused", 25) {
		h := newHost("registry", "reg-u.example.test")
		h.Unused = true
		c.Hosts = append(c.Hosts, h)
		g.clientCfg(len(c.Hosts)-1, "unused", true)
	}

	// ---- third hosts
	regs := g.registries(false)
	pickReg := func(label string) int { return rapid.SampledFrom(regs).Draw(t, label) }
	switch pick(t, "redirect", "none", 5, "storage", 4, "self", 1, "registry", 1, "chain", 6) {
	case "chain":
		// a redirect chain of 1-4 hops over hosts drawn WITH repetition from: own-site sub-domain, same name
		// other port, third hosts, the registry itself, another configured registry
		r := pickReg("chain.reg")
		bare := c.Hosts[r].Name
		if k := strings.LastIndexByte(bare, ':'); k > 0 {
			bare = bare[:k]
		}
		bare = strings.TrimSuffix(bare, ".")
		ownSiteOK := !c.isHub(r)
		var elems []int // candidate hop hosts
		addStorage := func(label string) {
			forms := []any{"other-domain", 3}
			if ownSiteOK {
				forms = append(forms, "other-port", 2)
				if bare != "localhost" && !strings.HasPrefix(bare, "127.") && !strings.HasPrefix(bare, "REGISTRY") {
					forms = append(forms, "subdomain", 4)
				}
			}
			name := ""
			switch pick(t, label+".form", forms...) {
			case "subdomain":
				name = "blobs." + bare
			case "other-port":
				name = bare + ":8443"
			default:
				name = "blobs.cdn.example.net"
			}
			for _, h := range c.Hosts {
				if h.Name == name {
					name = "edge." + name // second storage host of the same form
					if strings.HasSuffix(name, ":8443") {
						name = bare + ":9443"
					}
				}
			}
			for _, h := range c.Hosts {
				if h.Name == name {
					return
				}
			}
			h := newHost("storage", name)
			h.Origin = r
			h.Scheme = pick(t, label+".scheme", "", 6, "http", 1)
			c.Hosts = append(c.Hosts, h)
			elems = append(elems, len(c.Hosts)-1)
		}
		addStorage("chain.s1")
		if chance(t, "chain.s2", 40) {
			addStorage("chain.s2")
		}
		s1 := elems[0]
		s2 := elems[len(elems)-1]
		all := append([]int{}, elems...)
		all = append(all, r)
		for _, o := range regs {
			if o != r && c.Hosts[o].MirrorOf != r && c.Hosts[r].MirrorOf != o {
				all = append(all, o)
				break
			}
		}
		var chain []int
		switch pick(t, "chain.pattern", "random", 5, "S", 1, "SS", 3, "SSS", 1, "SAS", 2, "S1S2", 1, "S1S2S2", 1, "ASS", 1) {
		case "S":
			chain = []int{s1}
		case "SS":
			chain = []int{s1, s1}
		case "SSS":
			chain = []int{s1, s1, s1}
		case "SAS":
			chain = []int{s1, r, s1}
		case "S1S2":
			chain = []int{s1, s2}
		case "S1S2S2":
			chain = []int{s1, s2, s2}
		case "ASS":
			chain = []int{r, s1, s1}
		default:
			n := between(t, "chain.n", 1, 4)
			for k := 0; k < n; k++ {
				if k > 0 && chance(t, fmt.Sprintf("chain.rep%d", k), 40) {
					chain = append(chain, chain[k-1])
				} else {
					chain = append(chain, rapid.SampledFrom(all).Draw(t, fmt.Sprintf("chain.hop%d", k)))
				}
			}
		}
		c.Hosts[r].Chain = chain
		c.Hosts[r].ChainHead = chance(t, "chain.head", 50)
		c.Hosts[r].RedirectStatus = rapid.SampledFrom([]int{307, 302, 301, 303, 308}).Draw(t, "chain.status")
	case "storage":
		r := pickReg("redirect.reg")
		h := newHost("storage", "blobs.cdn.example.net")
		// a redirect target inside the registry's own domain: net/http treats a sub-domain and the same
		// host name with another port as "same site" for its sensitive-header rule
		if !c.isHub(r) {
			bare := c.Hosts[r].Name
			if k := strings.LastIndexByte(bare, ':'); k > 0 {
				bare = bare[:k]
			}
			switch pick(t, "redirect.storagename", "other-domain", 6, "subdomain", 2, "other-port", 1) {
			case "subdomain":
				if bare != "localhost" && !strings.HasPrefix(bare, "127.") {
					h.Name = "blobs." + strings.TrimSuffix(bare, ".")
				}
			case "other-port":
				h.Name = bare + ":8443"
			}
		}
		h.Origin = r
		h.Scheme = pick(t, "redirect.scheme", "", 5, "http", 1)
		c.Hosts = append(c.Hosts, h)
		c.Hosts[r].RedirectTo = len(c.Hosts) - 1
		c.Hosts[r].RedirectStatus = rapid.SampledFrom([]int{307, 302, 301, 303, 308}).Draw(t, "redirect.status")
		if chance(t, "redirect.hop2", 15) {
			h2 := newHost("storage", "edge.cdn.example.net")
			h2.Origin = r
			h2.Scheme = pick(t, "redirect.hop2scheme", "", 5, "http", 1)
			c.Hosts = append(c.Hosts, h2)
			c.Hosts[len(c.Hosts)-2].RedirectTo = len(c.Hosts) - 1
		}
	case "self":
		r := pickReg("redirect.reg")
		c.Hosts[r].RedirectTo = r
		c.Hosts[r].RedirectStatus = rapid.SampledFrom([]int{307, 302, 301, 303, 308}).Draw(t, "redirect.status")
		c.Hosts[r].RedirectScheme = pick(t, "redirect.selfscheme", "", 1, "http", 1, "https", 1)
	case "registry":
		r := pickReg("redirect.reg")
		var others []int
		for _, o := range regs {
			// not a mirror pair: keep the mirror relation free of third-host edges
			if o != r && c.Hosts[o].MirrorOf != r && c.Hosts[r].MirrorOf != o {
				others = append(others, o)
			}
		}
		if len(others) > 0 {
			c.Hosts[r].RedirectTo = rapid.SampledFrom(others).Draw(t, "redirect.target")
			c.Hosts[r].RedirectStatus = rapid.SampledFrom([]int{307, 302, 301, 303, 308}).Draw(t, "redirect.status")
		}
	}
	if chance(t, "external", 45) {
		h := newHost("external", "files.ext.example.org")
		h.Scheme = pick(t, "external.scheme", "", 5, "http", 1)
		c.Hosts = append(c.Hosts, h)
	}
	if chance(t, "external.onreg", 12) {
		c.ExtOnReg = pickReg("external.onreg.reg") + 1
	}
	if c.hasExt() {
		c.ExtBadFirst = chance(t, "external.badfirst", 20)
	}
	if chance(t, "upload", 35) {
		r := pickReg("upload.reg")
		h := newHost("upload", "upload.backend.example.net")
		h.Origin = r
		c.Hosts = append(c.Hosts, h)
		c.Hosts[r].Upload = len(c.Hosts) - 1
	}
	if chance(t, "writeredir", 12) {
		r := pickReg("writeredir.reg")
		h := newHost("storage", "push.region.example.net")
		h.Origin = r
		c.Hosts = append(c.Hosts, h)
		c.Hosts[r].WriteRedir = len(c.Hosts) // 1-based
		c.Hosts[r].WriteRedirSt = rapid.SampledFrom([]int{307, 308, 307, 308, 302, 303}).Draw(t, "writeredir.status")
	}
	if chance(t, "link", 20) {
		r := pickReg("link.reg")
		h := newHost("link", "pages.example.net")
		h.Origin = r
		h.Scheme = pick(t, "link.scheme", "", 5, "http", 1)
		c.Hosts = append(c.Hosts, h)
		c.Hosts[r].LinkTo = len(c.Hosts) - 1
	}

	// ---- authentication: registries first (third hosts may name a registry's endpoint)
	nFixed := len(c.Hosts)
	for i := 0; i < nFixed; i++ {
		if c.Hosts[i].Kind == "registry" && !c.Hosts[i].Unused {
			g.standingAuth(i, fmt.Sprintf("auth%d", i), 15)
			g.extras(i, fmt.Sprintf("auth%d", i), 15)
		}
	}
	for i := 0; i < nFixed; i++ {
		if c.Hosts[i].Kind != "registry" {
			g.standingAuth(i, fmt.Sprintf("auth%d", i), 75)
			g.extras(i, fmt.Sprintf("auth%d", i), 60)
		}
	}
	// the token service of a registry moved: its endpoint answers with a redirect to another host
	for i := 0; i < nFixed; i++ {
		h := &c.Hosts[i]
		if h.Kind != "registry" || h.Unused || !h.Auth.Ch.hasBearer() || !chance(t, fmt.Sprintf("auth%d.tokredir", i), 10) {
			continue
		}
		var cands []int
		for x := range c.Hosts {
			if x != h.Auth.Ch.TokenHost {
				cands = append(cands, x)
			}
		}
		if len(cands) == 0 {
			continue
		}
		h.Auth.TokRedir = rapid.SampledFrom(cands).Draw(t, fmt.Sprintf("auth%d.tokredir.to", i)) + 1
		h.Auth.TokRedirSt = rapid.SampledFrom([]int{307, 308, 302, 301, 303}).Draw(t, fmt.Sprintf("auth%d.tokredir.st", i))
	}
	// token hosts created on the way may challenge too (rarely)
	for i := nFixed; i < len(c.Hosts) && i < nFixed+3; i++ {
		if chance(t, fmt.Sprintf("tok%d.extra", i), 10) {
			c.Hosts[i].Extra = append(c.Hosts[i].Extra, Extra401{At: between(t, fmt.Sprintf("tok%d.at", i), 0, 2),
				Ch: ChallengeSpec{Kind: pick(t, fmt.Sprintf("tok%d.kind", i), "basic", 1, "empty", 1), RealmFor: -1, TokenHost: i}})
		}
	}

	// ---- transient failures
	genFault := func(label string, host int, atChoices []int) FaultSpec {
		f := FaultSpec{Host: host, At: rapid.SampledFrom(atChoices).Draw(t, label+".at")}
		f.Kind = pick(t, label+".kind", "status", 7, "reset-before", 2, "truncate", 1, "reset-after", 1)
		switch f.Kind {
		case "status":
			f.Status = rapid.SampledFrom([]int{502, 429, 500, 504, 408, 503, 429, 502}).Draw(t, label+".status")
			f.RetryAfter = pick(t, label+".retryafter", "", 5, "0.002", 2, "Wed, 21 Oct 2015 07:28:00 GMT", 1)
		case "truncate":
			f.Off = between(t, label+".off", 0, 20)
		}
		return f
	}
	// the member of a mirror group that is tried first (or next) fails transiently early on
	var group []int
	for _, r := range regs {
		if len(c.Hosts[r].Mirrors) > 0 || c.Hosts[r].MirrorOf >= 0 {
			group = append(group, r)
		}
	}
	if len(group) > 1 && chance(t, "fault.group", 60) {
		n := 1
		if chance(t, "fault.group2", 30) {
			n = 2
		}
		for k := 0; k < n; k++ {
			l := fmt.Sprintf("fault.group%d", k)
			c.Faults = append(c.Faults, genFault(l, rapid.SampledFrom(group).Draw(t, l+".host"), []int{0, 0, 0, 0, 1, 1, 2, 2, 3, 4, 6}))
		}
	}
	// a transport level failure (no HTTP answer) on a request that is sent once the client is warm: the
	// retry after a challenge, a later request with the cached login, the token request with credentials
	var authHosts []int
	for i := range c.Hosts {
		h := &c.Hosts[i]
		if h.Unused {
			continue
		}
		if k := h.Auth.Ch.Kind; k != "" && k != "none" {
			authHosts = append(authHosts, i)
			if h.Auth.Ch.hasBearer() && h.Auth.Ch.TokenHost >= 0 && h.Auth.Ch.TokenHost < len(c.Hosts) && h.Auth.Ch.TokenHost != i {
				authHosts = append(authHosts, h.Auth.Ch.TokenHost)
			}
		}
	}
	if len(authHosts) > 0 && chance(t, "fault.warm", 30) {
		f := FaultSpec{Host: rapid.SampledFrom(authHosts).Draw(t, "fault.warm.host"), Kind: pick(t, "fault.warm.kind", "reset-before", 3, "reset-after", 2, "truncate", 1)}
		if c.Hosts[f.Host].Kind == "token" {
			f.At = rapid.SampledFrom([]int{0, 0, 1, 2}).Draw(t, "fault.warm.at")
		} else {
			f.At = rapid.SampledFrom([]int{1, 1, 1, 2, 2, 3, 4, 5}).Draw(t, "fault.warm.at")
		}
		c.Faults = append(c.Faults, f)
	}
	if chance(t, "fault.any", 25) {
		n := between(t, "fault.any.n", 1, 2)
		for k := 0; k < n; k++ {
			l := fmt.Sprintf("fault.any%d", k)
			c.Faults = append(c.Faults, genFault(l, between(t, l+".host", 0, len(c.Hosts)-1), []int{0, 0, 1, 1, 2, 3, 4, 5, 7, 9}))
		}
	}

	// ---- rejected docker config entries
	anyDocker := false
	for i := range c.Hosts {
		if c.Hosts[i].Cfg == "docker" {
			anyDocker = true
		}
	}
	if chance(t, "decoys", 30) || (anyDocker && chance(t, "decoys2", 30)) {
		n := between(t, "ndecoys", 1, 2)
		all := g.registries(true)
		for k := 0; k < n; k++ {
			c.Decoys = append(c.Decoys, Decoy{
				Target: rapid.SampledFrom(all).Draw(t, fmt.Sprintf("decoy%d.target", k)),
				Style:  between(t, fmt.Sprintf("decoy%d.style", k), 0, 2),
				Form:   pick(t, fmt.Sprintf("decoy%d.form", k), "auth", 2, "userpass", 1, "idtoken+auth", 1),
			})
		}
	}

	// ---- operations
	nOps := between(t, "nops", 1, 6)
	for k := 0; k < nOps; k++ {
		l := fmt.Sprintf("op%d", k)
		o := Op{Kind: pick(t, l+".kind", "bget", 8, "mget", 4, "copy", 8, "bput", 6, "tags", 6, "referrers", 4, "ping", 2, "mhead", 2, "mput", 2, "mdel", 2, "bhead", 2, "bmount", 4, "bdel", 2, "catalog", 2,
			"tagdel", 2, "bcopy", 3, "imgconfig", 1, "export", 1, "refsrc", 2, "mputsub", 2)}
		o.Reg = rapid.SampledFrom(append([]int{0}, regs...)).Draw(t, l+".reg")
		o.Repo = between(t, l+".repo", 0, 1)
		o.Tag = pick(t, l+".tag", "v1", 4, "ext", 2, "idx", 2)
		o.Digest = chance(t, l+".digest", 30)
		o.Form = rapid.SampledFrom([]int{0, 0, 0, 0, 0, 0, 1, 2}).Draw(t, l+".form")
		o.Blob = rapid.SampledFrom([]int{1, 2, 0, 3, 3}).Draw(t, l+".blob")
		o.N = between(t, l+".n", 0, 8)
		o.Cancel = rapid.SampledFrom([]int{0, 0, 0, 0, 0, 0, 0, 0, 0, 0, 0, 0, 0, 0, 0, 0, -1, 1, 2, 3, 5}).Draw(t, l+".cancel")
		switch o.Kind {
		case "copy":
			o.Tgt = rapid.SampledFrom(regs).Draw(t, l+".tgt")
			o.TgtRepo = between(t, l+".tgtrepo", 0, 1)
			o.Flags = between(t, l+".flags", 0, 31)
			if chance(t, l+".layout", 10) {
				o.Flags |= 32
			}
		case "bmount", "bcopy", "refsrc":
			o.Tgt = rapid.SampledFrom(regs).Draw(t, l+".tgt")
			o.TgtRepo = between(t, l+".tgtrepo", 0, 1)
		case "bput":
			o.Flags = rapid.SampledFrom([]int{0, 0, 0, 1, 1, 2, 3}).Draw(t, l+".flags")
		case "mget", "mhead", "mdel", "catalog", "tags":
			o.Flags = rapid.SampledFrom([]int{0, 0, 1}).Draw(t, l+".flags")
		}
		c.Ops = append(c.Ops, o)
	}
	// operations aimed at the cross-host edges of this topology
	for i := range c.Hosts {
		h := &c.Hosts[i]
		if h.Kind != "registry" || h.Unused {
			continue
		}
		l := fmt.Sprintf("aim%d", i)
		if len(h.Chain) > 0 && chance(t, l+".chain", 80) {
			c.Ops = append(c.Ops, Op{Kind: pick(t, l+".chain.kind", "bget", 3, "bhead", 2), Reg: i, Repo: between(t, l+".chain.repo", 0, 1), Tag: "v1", Blob: between(t, l+".chain.blob", 0, 2)})
		}
		if h.RedirectTo >= 0 && chance(t, l+".redirect", 60) {
			c.Ops = append(c.Ops, Op{Kind: "bget", Reg: i, Repo: between(t, l+".redirect.repo", 0, 1), Tag: "v1", Blob: between(t, l+".redirect.blob", 0, 2)})
		}
		if h.Upload >= 0 && chance(t, l+".upload", 60) {
			c.Ops = append(c.Ops, Op{Kind: "bput", Reg: i, Repo: between(t, l+".upload.repo", 0, 1), Tag: "v1", N: between(t, l+".upload.n", 0, 5)})
		}
		if h.LinkTo >= 0 && chance(t, l+".link", 60) {
			c.Ops = append(c.Ops, Op{Kind: "tags", Reg: i, Repo: between(t, l+".link.repo", 0, 1), Tag: "v1"})
		}
		if (len(h.Mirrors) > 0 || h.MirrorOf >= 0) && chance(t, l+".mirror", 60) {
			c.Ops = append(c.Ops, Op{Kind: pick(t, l+".mirror.kind", "tags", 3, "referrers", 2, "mget", 1, "bget", 1), Reg: i, Repo: between(t, l+".mirror.repo", 0, 1), Tag: "v1", Blob: 1})
		}
	}
	// a mount between two different registries (handled as anonymous mount on the target)
	if len(regs) > 1 && chance(t, "aim.xmount", 25) {
		src := rapid.SampledFrom(regs).Draw(t, "aim.xmount.src")
		var others []int
		for _, r := range regs {
			if r != src {
				others = append(others, r)
			}
		}
		c.Ops = append(c.Ops, Op{Kind: "bmount", Reg: src, Repo: between(t, "aim.xmount.repo", 0, 1), Tag: "v1", Blob: between(t, "aim.xmount.blob", 0, 2),
			Tgt: rapid.SampledFrom(others).Draw(t, "aim.xmount.tgt"), TgtRepo: between(t, "aim.xmount.tgtrepo", 0, 1)})
	}
	if c.hasExt() && chance(t, "aim.external", 60) {
		r := rapid.SampledFrom(regs).Draw(t, "aim.external.reg")
		if chance(t, "aim.external.copy", 40) {
			c.Ops = append(c.Ops, Op{Kind: "copy", Reg: r, Repo: 0, Tag: "ext", Tgt: rapid.SampledFrom(regs).Draw(t, "aim.external.tgt"), TgtRepo: 1, Flags: 1})
		} else {
			c.Ops = append(c.Ops, Op{Kind: pick(t, "aim.external.kind", "bget", 3, "bhead", 1), Reg: r, Repo: between(t, "aim.external.repo", 0, 1), Tag: "ext", Blob: 3})
		}
	}
	return c
}
