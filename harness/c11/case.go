// Package c11 decides C11: credentials go only to their own registry (and the
// token endpoint that registry itself names), over its configured transport,
// and never into log output.
//
// Authentication is implemented here, on top of regmodel, through
// Host.Intercept: every model host has an auth specification (open / Basic /
// Bearer with GET and POST token flows, refresh tokens, several, malformed and
// changing challenges), unique secrets, and a list of request ordinals at which
// it answers 401 whatever the request carried. The oracle is a taint scan over
// every request any model host received, plus a scan of the captured log.
package c11

import (
	"crypto/sha256"
	"encoding/hex"
	"fmt"
	"sort"
	"strings"
)

// ChallengeSpec describes one 401 answer.
type ChallengeSpec struct {
	// Kind: none | basic | bearer | basic+bearer (one header) | bearer+basic-2h (two
	// headers) | unsupported+bearer | malformed | unsupported | empty (401 without header)
	Kind string `json:"kind"`
	// TokenHost is the index of the host that serves the realm (bearer kinds).
	TokenHost int `json:"token_host"`
	// RealmFor selects the endpoint path /token/<RealmFor>; -1 = the challenging host itself.
	RealmFor int `json:"realm_for"`
	// RealmScheme "" = the natural scheme of TokenHost (its TLS configuration).
	RealmScheme string `json:"realm_scheme,omitempty"`
	Variant     int    `json:"variant,omitempty"` // formatting / malformation variant
	NoScope     bool   `json:"no_scope,omitempty"`
	NoService   bool   `json:"no_service,omitempty"`
}

func (c ChallengeSpec) hasBearer() bool {
	switch c.Kind {
	case "bearer", "basic+bearer", "bearer+basic-2h", "unsupported+bearer", "bearer+bearer":
		return true
	}
	return false
}

func (c ChallengeSpec) hasBasic() bool {
	switch c.Kind {
	case "basic", "basic+bearer", "bearer+basic-2h":
		return true
	}
	return false
}

// AuthSpec is the standing authentication requirement of a host.
type AuthSpec struct {
	Ch         ChallengeSpec `json:"ch"`                     // Kind none = open
	Post       bool          `json:"post,omitempty"`         // token endpoint implements the OAuth2 POST flow
	Refresh    bool          `json:"refresh,omitempty"`      // token responses carry a refresh_token
	Anon       bool          `json:"anon,omitempty"`         // anonymous pull tokens are issued
	ScopeCheck bool          `json:"scope_check,omitempty"`  // a token must cover the repository and action
	TokenField int           `json:"token_field,omitempty"`  // 0 token, 1 access_token, 2 both
	IssuedAt   int           `json:"issued_at,omitempty"`    // 0 omitted, 1 fixed past date
	TokRedir   int           `json:"tok_redir,omitempty"`    // 1-based host index the token endpoint redirects to (0 = it answers itself)
	TokRedirSt int           `json:"tok_redir_st,omitempty"` // 307 308 302 301 303
	ChangeAt   int           `json:"change_at"`              // host ordinal from which Alt replaces Ch (-1 never)
	Alt        ChallengeSpec `json:"alt"`
}

// Extra401 is a 401 answered at one host request ordinal regardless of what the request carried.
type Extra401 struct {
	At int           `json:"at"`
	Ch ChallengeSpec `json:"ch"`
}

// HostSpec is one model host.
type HostSpec struct {
	Name   string `json:"name"`             // URL host the model answers on (may carry a port)
	Kind   string `json:"kind"`             // registry | storage | external | upload | token | link
	Origin int    `json:"origin"`           // storage / upload / link: index of the registry it belongs to (-1)
	Scheme string `json:"scheme,omitempty"` // unconfigured hosts: scheme other hosts use in URLs that point here ("" = https)

	// client configuration
	Cfg        string `json:"cfg,omitempty"`         // "" not configured | host (config.Host) | docker (docker config file) | helper (config.Host with a credential helper program)
	CfgName    string `json:"cfg_name,omitempty"`    // registry name used by the client when it differs from Name (Hostname = Name)
	Key        string `json:"key,omitempty"`         // docker key spelling: bare | https | http | slash | https-slash | http-slash | hub-legacy | hub-name | hub-dns
	DockerForm string `json:"docker_form,omitempty"` // auth | userpass | idtoken | idtoken+auth
	CredKind   string `json:"cred_kind,omitempty"`   // userpass | token | both | none
	TLS        string `json:"tls,omitempty"`         // "" | enabled | insecure | disabled (Cfg host)
	RepoAuth   bool   `json:"repo_auth,omitempty"`
	Mirrors    []int  `json:"mirrors,omitempty"`
	Priority   int    `json:"priority,omitempty"`
	Unused     bool   `json:"unused,omitempty"`      // configured, never addressed by an operation
	StaleCfg   bool   `json:"stale_cfg,omitempty"`   // with AlsoDocker: the host entry carries an OLDER password / identity token of the same user (rotated since), the docker config file the current ones; both generations are secrets of this registry
	AlsoDocker bool   `json:"also_docker,omitempty"` // Cfg host: the same credentials are ALSO in the docker config file (https:// key, loaded later: TLS becomes enabled)
	DupKey     bool   `json:"dup_key,omitempty"`     // Cfg docker: a second accepted spelling of the same host with the same credentials
	DupMirror  bool   `json:"dup_mirror,omitempty"`  // every mirror is listed twice
	PathPrefix string `json:"path_prefix,omitempty"` // config pathPrefix (mirror inside a repository namespace)
	NoHead     bool   `json:"no_head,omitempty"`     // apiOpts disableHead=true

	// server behaviour
	Auth  AuthSpec   `json:"auth"`
	Extra []Extra401 `json:"extra,omitempty"`

	// registry features
	RedirectTo     int    `json:"redirect_to"`               // blob GET redirected to this host (-1 none; may be itself)
	RedirectStatus int    `json:"redirect_status,omitempty"` // 301 302 303 307 308
	RedirectScheme string `json:"redirect_scheme,omitempty"` // "" natural scheme of the target
	Chain          []int  `json:"chain,omitempty"`           // blob GET (and HEAD) redirected along this sequence of hosts (1-4 hops, repetition allowed; may contain the registry itself); overrides RedirectTo
	ChainHead      bool   `json:"chain_head,omitempty"`      // HEAD requests are redirected along the chain too
	Upload         int    `json:"upload"`                    // upload sessions are handed to this host (-1 none)
	WriteRedir     int    `json:"write_redir,omitempty"`     // 1-based host index every state-changing request (upload POST, PUT, DELETE) is redirected to (0 = none): a registry that passes pushes on to a regional / storage endpoint
	WriteRedirSt   int    `json:"write_redir_st,omitempty"`  // 307 308 (method and body kept) | 302 303 (turned into a GET)
	LocStyle       int    `json:"loc_style,omitempty"`       // regmodel LocStyle when Upload < 0 (0..3)
	LocScheme      string `json:"loc_scheme,omitempty"`      // "" | http | https: upload POST answers an absolute Location on this host with that scheme
	NoMountGrant   bool   `json:"no_mount_grant,omitempty"`  // cross-repository mount (from=) is declined: 202 + upload Location
	AnonMount      int    `json:"anon_mount,omitempty"`      // mount without from=: 0 -> 202 + upload Location, 201 -> granted when any repository holds the blob, 405 -> refused
	LinkTo         int    `json:"link_to"`                   // second page of the tag list lives on this host (-1 none)
	Referrers      bool   `json:"referrers,omitempty"`       // referrers API
	TagPage        int    `json:"tag_page,omitempty"`
	RefPage        int    `json:"ref_page,omitempty"`
	MirrorOf       int    `json:"mirror_of"`                // -1 or index of the upstream
	MirrorHas      bool   `json:"mirror_has,omitempty"`     // a mirror that holds the upstream's content
	HeadNoDigest   bool   `json:"head_no_digest,omitempty"` // manifest HEAD without Docker-Content-Digest
	NoTagDelete    bool   `json:"no_tag_delete,omitempty"`  // DELETE of a tag answers 405 (client falls back to the dummy manifest procedure)
}

// Decoy is a docker config entry whose key regclient must reject (it names a repository / path).
type Decoy struct {
	Target int    `json:"target"` // host named in the key
	Style  int    `json:"style"`  // 0 host/repo, 1 https://host/v1/, 2 host/repo/
	Form   string `json:"form"`
}

// Op is one client operation.
type Op struct {
	Kind    string `json:"kind"` // ping mget mhead mput mdel bget bhead bput bmount bdel tags referrers copy catalog tagdel bcopy imgconfig export refsrc mputsub
	Reg     int    `json:"reg"`
	Repo    int    `json:"repo"`
	Tag     string `json:"tag,omitempty"` // v1 | ext
	Digest  bool   `json:"digest,omitempty"`
	Blob    int    `json:"blob,omitempty"` // 0 config, 1 layer0, 2 layer1, 3 foreign
	Tgt     int    `json:"tgt,omitempty"`
	TgtRepo int    `json:"tgt_repo,omitempty"`
	N       int    `json:"n,omitempty"`
	Flags   int    `json:"flags,omitempty"`  // copy: 1 include-external, 2 referrers, 4 digest-tags, 8 fast-check, 16 force-recursive, 32 target is an OCI layout; bput: 1 unknown descriptor, 2 sha512; mget: 1 platform; mhead: 1 require digest; mdel: 1 check referrers; catalog/tags: 1 limit
	Form    int    `json:"form,omitempty"`   // reference form of the manifest reference: 0 tag or digest (Digest), 1 tag@digest, 2 no tag (default tag)
	Cancel  int    `json:"cancel,omitempty"` // context: 0 live, -1 cancelled before the call, k>0 cancelled when the k-th request of the operation arrives
}

// FaultSpec is one transient (or final) failure injected at a host request ordinal, before the
// host looks at the request (status, reset) or while it delivers the answer (truncate).
type FaultSpec struct {
	Host       int    `json:"host"`
	At         int    `json:"at"`   // host request ordinal
	Kind       string `json:"kind"` // status | reset-before | reset-after | truncate
	Status     int    `json:"status,omitempty"`
	RetryAfter string `json:"retry_after,omitempty"`
	Off        int    `json:"off,omitempty"` // truncate offset
}

// Case is the generated unit.
type Case struct {
	Salt        int         `json:"salt"`
	Hosts       []HostSpec  `json:"hosts"`
	Decoys      []Decoy     `json:"decoys,omitempty"`
	Ops         []Op        `json:"ops"`
	Faults      []FaultSpec `json:"faults,omitempty"`
	Chunked     bool        `json:"chunked,omitempty"`       // small chunk / max-put sizes so that uploads are chunked
	Special     bool        `json:"special,omitempty"`       // passwords contain characters that differ under URL / form encoding
	LogVia      string      `json:"log_via,omitempty"`       // "" slog text handler | json slog JSON handler | logrus | logrus-json (the logrus bridge)
	LogLevel    string      `json:"log_level,omitempty"`     // level the client's logger is enabled for: "" trace | debug | info | warn | error
	CfgVia      string      `json:"cfg_via,omitempty"`       // how the host entries reach the client: "" Go structs | json | json-title (TLS value in title case) | yaml: the text form of a regctl / regsync / regbot configuration file, decoded with the repository's own (Un)marshal code
	DefTLS      string      `json:"def_tls,omitempty"`       // WithConfigHostDefault: TLS of hosts that do not say ("" = no default host given)
	DefRepoAuth bool        `json:"def_repo_auth,omitempty"` // WithConfigHostDefault: repoAuth
	DefHelper   bool        `json:"def_helper,omitempty"`    // WithConfigHostDefault: credHelper (regctl --default-cred-helper): the helper is asked for every host
	DockerEnv   bool        `json:"docker_env,omitempty"`    // docker config found through $DOCKER_CONFIG (WithDockerCreds) instead of WithDockerCredsFile
	ExtBadFirst bool        `json:"ext_bad_first,omitempty"` // the foreign layer lists an unavailable URL before the working one(s)
	ExtOnReg    int         `json:"ext_on_reg,omitempty"`    // 1-based index of a registry that serves a foreign layer URL (0 = none)
	Cache       bool        `json:"cache,omitempty"`         // reg.WithCache
	Parallel    bool        `json:"parallel,omitempty"`      // the operations run concurrently on the one client
}

var repoNames = []string{"proj/app", "lib/base"}

const hubDNS = "registry-1.docker.io"

func (c *Case) isHub(i int) bool { return c.Hosts[i].Name == hubDNS }

// refName is the registry name the client uses for host i.
func (c *Case) refName(i int) string {
	h := &c.Hosts[i]
	if h.Name == hubDNS {
		return "docker.io"
	}
	if (h.Cfg == "host" || h.Cfg == "helper") && h.CfgName != "" {
		return h.CfgName
	}
	return h.Name
}

// effTLS is the TLS setting the client ends up with for host i ("" for an unconfigured host).
func (c *Case) effTLS(i int) string {
	h := &c.Hosts[i]
	def := "enabled"
	if c.DefTLS != "" {
		def = c.DefTLS
	}
	switch h.Cfg {
	case "host", "helper":
		if h.Cfg == "host" && h.AlsoDocker && h.CfgName == "" && h.CredKind != "none" && h.CredKind != "useronly" {
			return "enabled" // the docker entry is merged later and always carries a TLS value
		}
		if h.TLS == "" {
			return def
		}
		return h.TLS
	case "":
		if h.Kind == "registry" {
			return def // a registry the client only knows by name
		}
	case "docker":
		// a docker config entry always carries a TLS value: disabled for an http:// key, else enabled
		if !c.isHub(i) && (h.Key == "http" || h.Key == "http-slash") {
			return "disabled"
		}
		return "enabled"
	}
	return ""
}

// tlsConfigured: the client was told to use TLS for this host.
func (c *Case) tlsConfigured(i int) bool {
	t := c.effTLS(i)
	return t == "enabled" || t == "insecure"
}

// naturalScheme is the scheme a well-behaved server uses in URLs pointing at host i.
func (c *Case) naturalScheme(i int) string {
	switch c.effTLS(i) {
	case "disabled":
		return "http"
	case "enabled", "insecure":
		return "https"
	}
	if c.Hosts[i].Scheme == "http" {
		return "http"
	}
	return "https"
}

func (c *Case) hasCreds(i int) bool {
	h := &c.Hosts[i]
	return h.Cfg != "" && h.CredKind != "none" && h.CredKind != "" && h.CredKind != "useronly"
}

// secretVal derives a unique, long, random looking secret from the salt.
func (c *Case) secretVal(owner string, kind string) string {
	s := sha256.Sum256([]byte(fmt.Sprintf("c11|%d|%s|%s", c.Salt, owner, kind)))
	hx := hex.EncodeToString(s[:])
	switch kind {
	case "user":
		return "u" + hx[:6] + "." + hx[6:22]
	case "pass":
		if c.Special {
			// characters that change under URL, form and base64 encodings
			return "P+" + hx[:10] + "/ &=:%" + hx[10:26] + "?#"
		}
		return "Pw" + hx[:30]
	case "idtoken":
		return "idt_" + hx[:40]
	}
	return kind + "_" + hx[:40]
}

// account is the credential set the server side of host i accepts.
type account struct{ User, Pass, IDToken string }

func (c *Case) account(i int) *account {
	if i < 0 || i >= len(c.Hosts) || c.Hosts[i].Kind != "registry" {
		return nil
	}
	o := fmt.Sprintf("host%d", i)
	return &account{User: c.secretVal(o, "user"), Pass: c.secretVal(o, "pass"), IDToken: c.secretVal(o, "idtoken")}
}

// oldAccount: the previous generation of registry i's credentials (same user, rotated password and identity token).
func (c *Case) oldAccount(i int) *account {
	a := c.account(i)
	if a == nil {
		return nil
	}
	o := fmt.Sprintf("host%d-old", i)
	return &account{User: a.User, Pass: c.secretVal(o, "pass"), IDToken: c.secretVal(o, "idtoken")}
}

// staleCfg: host i is configured twice, first with the old generation of its credentials.
func (c *Case) staleCfg(i int) bool {
	h := &c.Hosts[i]
	return h.Kind == "registry" && h.Cfg == "host" && h.StaleCfg && h.AlsoDocker && h.CfgName == "" && (h.CredKind == "userpass" || h.CredKind == "token" || h.CredKind == "both")
}

func (c *Case) decoyAccount(n int) *account {
	o := fmt.Sprintf("decoy%d", n)
	return &account{User: c.secretVal(o, "user"), Pass: c.secretVal(o, "pass"), IDToken: c.secretVal(o, "idtoken")}
}

// dockerKey spells the docker config key of host i.
func (c *Case) dockerKey(i int) string {
	h := &c.Hosts[i]
	if c.isHub(i) {
		switch h.Key {
		case "hub-name":
			return "docker.io"
		case "hub-dns":
			return hubDNS
		}
		return "https://index.docker.io/v1/"
	}
	switch h.Key {
	case "https":
		return "https://" + h.Name
	case "http":
		return "http://" + h.Name
	case "slash":
		return h.Name + "/"
	case "https-slash":
		return "https://" + h.Name + "/"
	case "http-slash":
		return "http://" + h.Name + "/"
	}
	return h.Name
}

func (c *Case) decoyKey(d Decoy) string {
	n := c.Hosts[d.Target].Name
	switch d.Style {
	case 1:
		return "https://" + n + "/v1/"
	case 2:
		return n + "/" + repoNames[0] + "/"
	}
	return n + "/" + repoNames[0]
}

// shape is the distinctness key of the non-trivial rule: topology, auth schemes, who challenged where.
func (c *Case) shape() string {
	var sb strings.Builder
	for i := range c.Hosts {
		h := &c.Hosts[i]
		fmt.Fprintf(&sb, "%s/%d/%s%s/%s/%s", h.Kind, h.Origin, h.Cfg, h.CredKind, c.effTLS(i), h.Auth.Ch.Kind)
		if h.Auth.Ch.hasBearer() {
			fmt.Fprintf(&sb, "@%d", h.Auth.Ch.TokenHost)
		}
		if h.Auth.ChangeAt >= 0 {
			fmt.Fprintf(&sb, "~%d%s", h.Auth.ChangeAt, h.Auth.Alt.Kind)
		}
		for _, x := range h.Extra {
			fmt.Fprintf(&sb, "!%d%s", x.At, x.Ch.Kind)
		}
		fmt.Fprintf(&sb, "r%d,u%d,l%d,m%d,%v;", h.RedirectTo, h.Upload, h.LinkTo, h.MirrorOf, h.RepoAuth)
	}
	ops := []string{}
	for _, o := range c.Ops {
		ops = append(ops, fmt.Sprintf("%s%d>%d", o.Kind, o.Reg, o.Tgt))
	}
	sort.Strings(ops)
	sb.WriteString(strings.Join(ops, ","))
	for _, f := range c.Faults {
		fmt.Fprintf(&sb, ";f%d@%d:%s%d", f.Host, f.At, f.Kind, f.Status)
	}
	sb.WriteString(";log=" + c.LogVia + "/" + c.LogLevel)
	return sb.String()
}
